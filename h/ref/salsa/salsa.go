// Package salsa is an executable transcription of D. J. Bernstein's "Salsa20
// specification" (quarterround / rowround / columnround / doubleround /
// littleendian / Salsa20 hash / expansion / encryption), of HSalsa20 and
// XSalsa20 from "Extending the Salsa20 nonce", and of the Salsa20/8 core used
// by scrypt (RFC 7914 §3). It is deliberately slow and literal: the state is a
// [16]uint32 indexed exactly as in the specification and every function is
// built from the previous one. It shares no code with golang.org/x/crypto.
package salsa

// Sigma is the 32-byte-key expansion constant "expand 32-byte k".
var Sigma = [16]byte{'e', 'x', 'p', 'a', 'n', 'd', ' ', '3', '2', '-', 'b', 'y', 't', 'e', ' ', 'k'}

func rotl(x uint32, c uint) uint32 { return x<<c | x>>(32-c) }

// QuarterRound is section 3 of the specification.
func QuarterRound(y0, y1, y2, y3 uint32) (z0, z1, z2, z3 uint32) {
	z1 = y1 ^ rotl(y0+y3, 7)
	z2 = y2 ^ rotl(z1+y0, 9)
	z3 = y3 ^ rotl(z2+z1, 13)
	z0 = y0 ^ rotl(z3+z2, 18)
	return
}

// RowRound is section 4.
func RowRound(y [16]uint32) (z [16]uint32) {
	z[0], z[1], z[2], z[3] = QuarterRound(y[0], y[1], y[2], y[3])
	z[5], z[6], z[7], z[4] = QuarterRound(y[5], y[6], y[7], y[4])
	z[10], z[11], z[8], z[9] = QuarterRound(y[10], y[11], y[8], y[9])
	z[15], z[12], z[13], z[14] = QuarterRound(y[15], y[12], y[13], y[14])
	return
}

// ColumnRound is section 5.
func ColumnRound(x [16]uint32) (y [16]uint32) {
	y[0], y[4], y[8], y[12] = QuarterRound(x[0], x[4], x[8], x[12])
	y[5], y[9], y[13], y[1] = QuarterRound(x[5], x[9], x[13], x[1])
	y[10], y[14], y[2], y[6] = QuarterRound(x[10], x[14], x[2], x[6])
	y[15], y[3], y[7], y[11] = QuarterRound(x[15], x[3], x[7], x[11])
	return
}

// DoubleRound is section 6: a column round followed by a row round.
func DoubleRound(x [16]uint32) [16]uint32 { return RowRound(ColumnRound(x)) }

// LittleEndian is section 7.
func LittleEndian(b []byte) uint32 {
	return uint32(b[0]) + uint32(b[1])<<8 + uint32(b[2])<<16 + uint32(b[3])<<24
}

func littleEndianInv(b []byte, v uint32) {
	b[0], b[1], b[2], b[3] = byte(v), byte(v>>8), byte(v>>16), byte(v>>24)
}

func words(x *[64]byte) (w [16]uint32) {
	for i := range w {
		w[i] = LittleEndian(x[4*i:])
	}
	return
}

// hashRounds is the Salsa20 hash function of section 8 with `double`
// double-rounds (10 for Salsa20/20, 4 for Salsa20/8): x + doubleround^n(x).
func hashRounds(x *[64]byte, double int) (out [64]byte) {
	w := words(x)
	z := w
	for i := 0; i < double; i++ {
		z = DoubleRound(z)
	}
	for i := range z {
		littleEndianInv(out[4*i:], z[i]+w[i])
	}
	return
}

// Hash is the Salsa20 hash function (section 8), Salsa20/20.
func Hash(x *[64]byte) [64]byte { return hashRounds(x, 10) }

// Core208 is the Salsa20/8 core (RFC 7914 §3): the hash with 8 rounds.
func Core208(x *[64]byte) [64]byte { return hashRounds(x, 4) }

// layout places constant c, key k and 16-byte input n as in section 9
// (Salsa20_k(n) = Salsa20(σ0, k0, σ1, n, σ2, k1, σ3)).
func layout(k *[32]byte, n *[16]byte, c *[16]byte) (x [64]byte) {
	copy(x[0:4], c[0:4])
	copy(x[4:20], k[0:16])
	copy(x[20:24], c[4:8])
	copy(x[24:40], n[:])
	copy(x[40:44], c[8:12])
	copy(x[44:60], k[16:32])
	copy(x[60:64], c[12:16])
	return
}

// Expand is the Salsa20 expansion function with a 32-byte key (section 9).
func Expand(k *[32]byte, n *[16]byte) [64]byte {
	x := layout(k, n, &Sigma)
	return Hash(&x)
}

// HSalsa20 ("Extending the Salsa20 nonce", section 2): 20 rounds on the same
// layout, *without* the final addition, output words z0,z5,z10,z15,z6,z7,z8,z9.
func HSalsa20(k *[32]byte, n *[16]byte, c *[16]byte) (out [32]byte) {
	x := layout(k, n, c)
	z := words(&x)
	for i := 0; i < 10; i++ {
		z = DoubleRound(z)
	}
	for i, j := range [8]int{0, 5, 10, 15, 6, 7, 8, 9} {
		littleEndianInv(out[4*i:], z[j])
	}
	return
}

// XORCounter XORs in with the Salsa20/20 keystream whose successive 64-byte
// blocks are Expand(key, block) where block is the 16-byte counter block
// whose bytes 0..7 stay fixed and whose bytes 8..15 are a little-endian 64-bit
// block number incremented by one (mod 2^64) per block (section 10 with the
// starting block number taken from the counter block).
func XORCounter(in []byte, counter *[16]byte, key *[32]byte) []byte {
	out := make([]byte, len(in))
	blk := *counter
	var ctr uint64
	for i := 0; i < 8; i++ {
		ctr |= uint64(blk[8+i]) << (8 * i)
	}
	for off := 0; off < len(in); off += 64 {
		for i := 0; i < 8; i++ {
			blk[8+i] = byte(ctr >> (8 * i))
		}
		ks := Expand(key, &blk)
		for j := 0; j < 64 && off+j < len(in); j++ {
			out[off+j] = in[off+j] ^ ks[j]
		}
		ctr++
	}
	return out
}

// Salsa20XOR is Salsa20 encryption (section 10) with an 8-byte nonce and a
// starting block number ic.
func Salsa20XOR(in []byte, nonce []byte, ic uint64, key *[32]byte) []byte {
	if len(nonce) != 8 {
		panic("ref/salsa: nonce must be 8 bytes")
	}
	var blk [16]byte
	copy(blk[:8], nonce)
	for i := 0; i < 8; i++ {
		blk[8+i] = byte(ic >> (8 * i))
	}
	return XORCounter(in, &blk, key)
}

// XSalsa20XOR: subkey = HSalsa20(key, nonce[0:16]), then Salsa20 with
// nonce[16:24] under the subkey.
func XSalsa20XOR(in []byte, nonce []byte, ic uint64, key *[32]byte) []byte {
	if len(nonce) != 24 {
		panic("ref/salsa: nonce must be 24 bytes")
	}
	var n16 [16]byte
	copy(n16[:], nonce[:16])
	sub := HSalsa20(key, &n16, &Sigma)
	return Salsa20XOR(in, nonce[16:24], ic, &sub)
}

package salsa

import (
	"bytes"
	"encoding/hex"
	"testing"
)

func unhex(s string) []byte {
	b, err := hex.DecodeString(s)
	if err != nil {
		panic(err)
	}
	return b
}

// Examples of sections 3, 8 and 9 of the Salsa20 specification.
func TestSpecQuarterRound(t *testing.T) {
	for _, v := range [][8]uint32{
		{0, 0, 0, 0, 0, 0, 0, 0},
		{1, 0, 0, 0, 0x08008145, 0x00000080, 0x00010200, 0x20500000},
		{0, 1, 0, 0, 0x88000100, 0x00000001, 0x00000200, 0x00402000},
		{0, 0, 1, 0, 0x80040000, 0x00000000, 0x00000001, 0x00002000},
		{0, 0, 0, 1, 0x00048044, 0x00000080, 0x00010000, 0x20100001},
		{0xe7e8c006, 0xc4f9417d, 0x6479b4b2, 0x68c67137, 0xe876d72b, 0x9361dfd5, 0xf1460244, 0x948541a3},
		{0xd3917c5b, 0x55f1c407, 0x52a58a7a, 0x8f887a3b, 0x3e2f308c, 0xd90a8f36, 0x6ab2a923, 0x2883524c},
	} {
		a, b, c, d := QuarterRound(v[0], v[1], v[2], v[3])
		if a != v[4] || b != v[5] || c != v[6] || d != v[7] {
			t.Errorf("quarterround(%08x…) = %08x %08x %08x %08x", v[0], a, b, c, d)
		}
	}
}

func TestSpecRowColumnRound(t *testing.T) {
	in := [16]uint32{1, 0, 0, 0, 1, 0, 0, 0, 1, 0, 0, 0, 1, 0, 0, 0}
	wantRow := [16]uint32{
		0x08008145, 0x00000080, 0x00010200, 0x20500000,
		0x20100001, 0x00048044, 0x00000080, 0x00010000,
		0x00000001, 0x00002000, 0x80040000, 0x00000000,
		0x00000001, 0x00000200, 0x00402000, 0x88000100}
	if got := RowRound(in); got != wantRow {
		t.Errorf("rowround: %08x", got)
	}
	wantCol := [16]uint32{
		0x10090288, 0x00000000, 0x00000000, 0x00000000,
		0x00000101, 0x00000000, 0x00000000, 0x00000000,
		0x00020401, 0x00000000, 0x00000000, 0x00000000,
		0x40a04001, 0x00000000, 0x00000000, 0x00000000}
	if got := ColumnRound(in); got != wantCol {
		t.Errorf("columnround: %08x", got)
	}
}

func TestSpecLittleEndian(t *testing.T) {
	if LittleEndian([]byte{86, 75, 30, 9}) != 0x091e4b56 || LittleEndian([]byte{255, 255, 255, 250}) != 0xfaffffff {
		t.Error("littleendian")
	}
}

func TestSpecHash(t *testing.T) {
	var z [64]byte
	if Hash(&z) != z {
		t.Error("Salsa20(0) != 0")
	}
	in := [64]byte{211, 159, 13, 115, 76, 55, 82, 183, 3, 117, 222, 37, 191, 187, 234, 136,
		49, 237, 179, 48, 1, 106, 178, 219, 175, 199, 166, 48, 86, 16, 179, 207,
		31, 240, 32, 63, 15, 83, 93, 161, 116, 147, 48, 113, 238, 55, 204, 36,
		79, 201, 235, 79, 3, 81, 156, 47, 203, 26, 244, 243, 88, 118, 104, 54}
	want := [64]byte{109, 42, 178, 168, 156, 240, 248, 238, 168, 196, 190, 203, 26, 110, 170, 154,
		29, 29, 150, 26, 150, 30, 235, 249, 190, 163, 251, 48, 69, 144, 51, 57,
		118, 40, 152, 157, 180, 57, 27, 94, 107, 42, 236, 35, 27, 111, 114, 114,
		219, 236, 232, 135, 111, 155, 110, 18, 24, 232, 95, 158, 179, 19, 48, 202}
	if got := Hash(&in); got != want {
		t.Errorf("Salsa20 hash example: %v", got)
	}
}

func TestSpecExpansion(t *testing.T) {
	var k [32]byte
	var n [16]byte
	for i := 0; i < 16; i++ {
		k[i] = byte(1 + i)
		k[16+i] = byte(201 + i)
		n[i] = byte(101 + i)
	}
	want := [64]byte{69, 37, 68, 39, 41, 15, 107, 193, 255, 139, 122, 6, 170, 233, 217, 98,
		89, 144, 182, 106, 21, 51, 200, 65, 239, 49, 222, 34, 215, 114, 40, 126,
		104, 197, 7, 225, 197, 153, 31, 2, 102, 78, 76, 176, 84, 245, 246, 184,
		177, 160, 133, 130, 6, 72, 149, 119, 192, 195, 132, 236, 234, 103, 246, 74}
	if got := Expand(&k, &n); got != want {
		t.Errorf("expansion example: %v", got)
	}
}

// ECRYPT verified.test-vectors, Salsa20/20 256-bit key, set 1 vector 0 and the
// set 6 vectors (XOR-digest over 131072 bytes).
func TestECRYPT(t *testing.T) {
	var k [32]byte
	k[0] = 0x80
	got := Salsa20XOR(make([]byte, 64), make([]byte, 8), 0, &k)
	want := unhex("E3BE8FDD8BECA2E3EA8EF9475B29A6E7003951E1097A5C38D23B7A5FAD9F6844B22C97559E2723C7CBBD3FE4FC8D9A0744652A83E72A9C461876AF4D7EF1A117")
	if !bytes.Equal(got, want) {
		t.Errorf("set1 v0: %x", got)
	}
	for _, v := range []struct{ k, iv, x string }{
		{"0053A6F94C9FF24598EB3E91E4378ADD3083D6297CCF2275C81B6EC11467BA0D", "0D74DB42A91077DE", "C349B6A51A3EC9B712EAED3F90D8BCEE69B7628645F251A996F55260C62EF31FD6C6B0AEA94E136C9D984AD2DF3578F78E457527B03A0450580DD874F63B1AB9"},
		{"0F62B5085BAE0154A7FA4DA0F34699EC3F92E5388BDE3184D72A7DD02376C91C", "288FF65DC42B92F9", "E00EBCCD70D69152725F9987982178A2E2E139C7BCBE04CA8A0E99E318D9AB76F988C8549F75ADD790BA4F81C176DA653C1A043F11A958E169B6D2319F4EEC1A"},
	} {
		copy(k[:], unhex(v.k))
		out := Salsa20XOR(make([]byte, 131072), unhex(v.iv), 0, &k)
		var x [64]byte
		for i, b := range out {
			x[i%64] ^= b
		}
		if !bytes.Equal(x[:], unhex(v.x)) {
			t.Errorf("set6 %s: %x", v.k[:8], x)
		}
	}
}

// "Cryptography in NaCl" §8/§9 worked example: HSalsa20 first and second key,
// and the first XSalsa20 keystream bytes.
func TestNaClPaperHSalsa20(t *testing.T) {
	var shared, k1, k2 [32]byte
	copy(shared[:], unhex("4a5d9d5ba4ce2de1728e3bf480350f25e07e21c947d19e3376f09b3c1e161742"))
	var zero, np [16]byte
	k1 = HSalsa20(&shared, &zero, &Sigma)
	if !bytes.Equal(k1[:], unhex("1b27556473e985d462cd51197a9a46c76009549eac6474f206c4ee0844f68389")) {
		t.Errorf("firstkey %x", k1)
	}
	nonce := unhex("69696ee955b62b73cd62bda875fc73d68219e0036b7a0b37")
	copy(np[:], nonce[:16])
	k2 = HSalsa20(&k1, &np, &Sigma)
	if !bytes.Equal(k2[:], unhex("dc908dda0b9344a953629b733820778880f3ceb421bb61b91cbd4c3e66256ce4")) {
		t.Errorf("secondkey %x", k2)
	}
	ks := XSalsa20XOR(make([]byte, 32), nonce, 0, &k1)
	if !bytes.Equal(ks, unhex("eea6a7251c1e72916d11c2cb214d3c252539121d8e234e652d651fa4c8cff880")) {
		t.Errorf("xsalsa20 stream %x", ks)
	}
	// chaining of the block counter through ic
	a := XSalsa20XOR(make([]byte, 200), nonce, 0, &k1)
	b := XSalsa20XOR(make([]byte, 72), nonce, 2, &k1)
	if !bytes.Equal(a[128:], b) {
		t.Error("ic does not select the block")
	}
}

// RFC 7914 §8 Salsa20/8 core vector.
func TestRFC7914Core208(t *testing.T) {
	var in [64]byte
	copy(in[:], unhex("7e879a214f3ec9867ca940e641718f26baee555b8c61c1b50df846116dcd3b1dee24f319df9b3d8514121e4b5ac5aa3276021d2909c74829edebc68db8b8c25e"))
	got := Core208(&in)
	if !bytes.Equal(got[:], unhex("a41f859c6608cc993b81cacb020cef05044b2181a2fd337dfd7b1c6396682f29b4393168e3c9e6bcfe6bc5b7a06d96bae424cc102c91745c24ad673dc7618f81")) {
		t.Errorf("core208 %x", got)
	}
}

// The block number is a 64-bit little-endian integer at bytes 8..15: a stream
// started at 2^32-1 must continue with block 2^32 (byte 12 = 1), and a stream
// started at 2^64-1 continues with block 0 without touching bytes 0..7.
func TestCounterSemantics(t *testing.T) {
	var k [32]byte
	for i := range k {
		k[i] = byte(i * 7)
	}
	c := [16]byte{1, 2, 3, 4, 5, 6, 7, 8, 0xff, 0xff, 0xff, 0xff, 0, 0, 0, 0}
	out := XORCounter(make([]byte, 128), &c, &k)
	c2 := [16]byte{1, 2, 3, 4, 5, 6, 7, 8, 0, 0, 0, 0, 1, 0, 0, 0}
	b2 := Expand(&k, &c2)
	if !bytes.Equal(out[64:], b2[:]) {
		t.Error("carry into high word")
	}
	c = [16]byte{1, 2, 3, 4, 5, 6, 7, 8, 0xff, 0xff, 0xff, 0xff, 0xff, 0xff, 0xff, 0xff}
	out = XORCounter(make([]byte, 128), &c, &k)
	c2 = [16]byte{1, 2, 3, 4, 5, 6, 7, 8}
	b2 = Expand(&k, &c2)
	if !bytes.Equal(out[64:], b2[:]) {
		t.Error("wrap at 2^64")
	}
}

package sshcertref

import (
	"fmt"
	"strings"
)

// OptEnc selects how the value of a critical option / extension is encoded.
type OptEnc int

const (
	// EncCanon: empty value → zero-length data; non-empty value → data is
	// string(value) (PROTOCOL.certkeys, what ssh-keygen emits).
	EncCanon OptEnc = iota
	// EncWrappedEmpty: empty value encoded as data = string("") (4 zero bytes).
	EncWrappedEmpty
	// EncBare: data is the raw value without the inner string header.
	EncBare
	// EncTrailing: canonical encoding followed by one extra 0x00 inside data.
	EncTrailing
)

// Opt is one (name, value) tuple.
type Opt struct {
	Name  string
	Value string
	Enc   OptEnc
}

// Cert is the harness's description of a certificate, including the encoding
// choices. Bytes() is a pure function of it.
type Cert struct {
	Algo        string // certificate algorithm name, e.g. ssh-ed25519-cert-v01@openssh.com
	Nonce       []byte
	KeyFields   []byte // subject key fields: the plain key blob without its leading algorithm string
	Serial      uint64
	Type        uint32
	KeyID       string
	Principals  []string
	PrincRaw    []byte // if non-nil, used verbatim as the content of the principals field
	ValidAfter  uint64
	ValidBefore uint64
	Crit        []Opt // encoded in the given order
	Ext         []Opt
	Reserved    []byte
	SigKey      []byte // CA public key blob
	Sig         []byte // signature body: string format ‖ string blob [‖ rest]
	Trailer     []byte // appended after the signature field (hand-built blobs only)
}

const (
	UserCert = 1
	HostCert = 2
	Infinity = ^uint64(0)
)

func encOpts(opts []Opt) []byte {
	var w W
	for _, o := range opts {
		w.S(o.Name)
		switch o.Enc {
		case EncWrappedEmpty:
			w.Str(Str([]byte(o.Value)))
		case EncBare:
			w.S(o.Value)
		case EncTrailing:
			var d []byte
			if o.Value != "" {
				d = Str([]byte(o.Value))
			} else {
				d = Str(nil)
			}
			w.Str(append(d, 0))
		default:
			if o.Value == "" {
				w.Str(nil)
			} else {
				w.Str(Str([]byte(o.Value)))
			}
		}
	}
	return w.B
}

// SignedBytes is the region the CA signature covers: everything from the
// algorithm name up to and including the signature key field.
func (c *Cert) SignedBytes() []byte {
	var w W
	w.S(c.Algo).Str(c.Nonce).Raw(c.KeyFields)
	w.U64(c.Serial).U32(c.Type).S(c.KeyID)
	if c.PrincRaw != nil {
		w.Str(c.PrincRaw)
	} else {
		var p W
		for _, s := range c.Principals {
			p.S(s)
		}
		w.Str(p.B)
	}
	w.U64(c.ValidAfter).U64(c.ValidBefore)
	w.Str(encOpts(c.Crit)).Str(encOpts(c.Ext)).Str(c.Reserved).Str(c.SigKey)
	return w.B
}

// Bytes is the full certificate blob.
func (c *Cert) Bytes() []byte {
	w := W{B: c.SignedBytes()}
	w.Str(c.Sig)
	w.Raw(c.Trailer)
	return w.B
}

// Clone makes a deep copy.
func (c *Cert) Clone() *Cert {
	d := *c
	d.Nonce = append([]byte(nil), c.Nonce...)
	d.KeyFields = append([]byte(nil), c.KeyFields...)
	d.Principals = append([]string(nil), c.Principals...)
	if c.PrincRaw != nil {
		d.PrincRaw = append([]byte{}, c.PrincRaw...)
	}
	d.Crit = append([]Opt(nil), c.Crit...)
	d.Ext = append([]Opt(nil), c.Ext...)
	d.Reserved = append([]byte(nil), c.Reserved...)
	d.SigKey = append([]byte(nil), c.SigKey...)
	d.Sig = append([]byte(nil), c.Sig...)
	d.Trailer = append([]byte(nil), c.Trailer...)
	return &d
}

// PlainAlgo maps a certificate algorithm name to the plain key algorithm.
func PlainAlgo(certAlgo string) (string, bool) {
	const suf = "-cert-v01@openssh.com"
	if !strings.HasSuffix(certAlgo, suf) {
		return "", false
	}
	base := strings.TrimSuffix(certAlgo, suf)
	switch base {
	case "ssh-rsa", "ssh-dss", "ssh-ed25519", "ecdsa-sha2-nistp256", "ecdsa-sha2-nistp384", "ecdsa-sha2-nistp521":
		return base, true
	case "sk-ecdsa-sha2-nistp256", "sk-ssh-ed25519":
		return base + "@openssh.com", true
	}
	return "", false
}

// CertAlgo is the inverse of PlainAlgo.
func CertAlgo(plain string) string {
	return strings.TrimSuffix(plain, "@openssh.com") + "-cert-v01@openssh.com"
}

// keyFieldCount: number of string/mpint fields of a plain key after the algorithm name.
func keyFieldCount(plain string) int {
	switch plain {
	case "ssh-rsa":
		return 2
	case "ssh-dss":
		return 4
	case "ssh-ed25519":
		return 1
	case "ecdsa-sha2-nistp256", "ecdsa-sha2-nistp384", "ecdsa-sha2-nistp521":
		return 2
	case "sk-ecdsa-sha2-nistp256@openssh.com":
		return 3
	case "sk-ssh-ed25519@openssh.com":
		return 2
	}
	return -1
}

// SplitKeyBlob splits a plain public key blob into algorithm and the raw
// fields (still wire-encoded strings).
func SplitKeyBlob(blob []byte) (algo string, fields [][]byte, err error) {
	r := R{B: blob}
	a, err := r.Str()
	if err != nil {
		return "", nil, err
	}
	n := keyFieldCount(string(a))
	if n < 0 {
		return "", nil, fmt.Errorf("sshcertref: unknown key algorithm %q", a)
	}
	for i := 0; i < n; i++ {
		f, err := r.Str()
		if err != nil {
			return "", nil, err
		}
		fields = append(fields, f)
	}
	if r.Len() != 0 {
		return "", nil, fmt.Errorf("sshcertref: trailing bytes in key blob")
	}
	return string(a), fields, nil
}

// JoinKeyFields re-encodes key fields (each as a string).
func JoinKeyFields(fields [][]byte) []byte {
	var w W
	for _, f := range fields {
		w.Str(f)
	}
	return w.B
}

// Field is a byte range of the certificate blob.
type Field struct {
	Name       string
	Start, End int // [Start,End) including the length header where there is one
}

// Parsed is the result of walking a certificate blob.
type Parsed struct {
	Cert
	Fields    []Field
	SignedLen int // length of the signed region
	SigFormat string
}

func parseOpts(b []byte) ([]Opt, error) {
	r := R{B: b}
	var out []Opt
	for r.Len() > 0 {
		name, err := r.Str()
		if err != nil {
			return nil, err
		}
		data, err := r.Str()
		if err != nil {
			return nil, err
		}
		o := Opt{Name: string(name)}
		if len(data) > 0 {
			ir := R{B: data}
			v, err := ir.Str()
			switch {
			case err != nil:
				o.Value, o.Enc = string(data), EncBare
			case ir.Len() != 0:
				return nil, fmt.Errorf("sshcertref: trailing data in option %q", name)
			case len(v) == 0:
				o.Enc = EncWrappedEmpty
			default:
				o.Value = string(v)
			}
		}
		out = append(out, o)
	}
	return out, nil
}

// Parse walks a certificate blob strictly (no trailing bytes anywhere) and
// returns the description that re-encodes to exactly the same bytes.
func Parse(blob []byte) (*Parsed, error) {
	p := &Parsed{}
	r := R{B: blob}
	mark := func(name string, start int) { p.Fields = append(p.Fields, Field{name, start, r.Off}) }
	s := r.Off
	a, err := r.Str()
	if err != nil {
		return nil, err
	}
	mark("algo", s)
	p.Algo = string(a)
	plain, ok := PlainAlgo(p.Algo)
	if !ok {
		return nil, fmt.Errorf("sshcertref: not a certificate algorithm: %q", a)
	}
	s = r.Off
	if p.Nonce, err = r.Str(); err != nil {
		return nil, err
	}
	mark("nonce", s)
	s = r.Off
	for i := 0; i < keyFieldCount(plain); i++ {
		if _, err = r.Str(); err != nil {
			return nil, err
		}
	}
	p.KeyFields = append([]byte(nil), blob[s:r.Off]...)
	mark("key", s)
	s = r.Off
	if p.Serial, err = r.U64(); err != nil {
		return nil, err
	}
	mark("serial", s)
	s = r.Off
	if p.Type, err = r.U32(); err != nil {
		return nil, err
	}
	mark("type", s)
	s = r.Off
	kid, err := r.Str()
	if err != nil {
		return nil, err
	}
	p.KeyID = string(kid)
	mark("keyid", s)
	s = r.Off
	pr, err := r.Str()
	if err != nil {
		return nil, err
	}
	mark("principals", s)
	for pr2 := (R{B: pr}); pr2.Len() > 0; {
		x, err := pr2.Str()
		if err != nil {
			return nil, err
		}
		p.Principals = append(p.Principals, string(x))
	}
	s = r.Off
	if p.ValidAfter, err = r.U64(); err != nil {
		return nil, err
	}
	mark("validafter", s)
	s = r.Off
	if p.ValidBefore, err = r.U64(); err != nil {
		return nil, err
	}
	mark("validbefore", s)
	s = r.Off
	co, err := r.Str()
	if err != nil {
		return nil, err
	}
	mark("critical", s)
	if p.Crit, err = parseOpts(co); err != nil {
		return nil, err
	}
	s = r.Off
	ex, err := r.Str()
	if err != nil {
		return nil, err
	}
	mark("extensions", s)
	if p.Ext, err = parseOpts(ex); err != nil {
		return nil, err
	}
	s = r.Off
	if p.Reserved, err = r.Str(); err != nil {
		return nil, err
	}
	mark("reserved", s)
	s = r.Off
	if p.SigKey, err = r.Str(); err != nil {
		return nil, err
	}
	mark("sigkey", s)
	p.SignedLen = r.Off
	s = r.Off
	if p.Sig, err = r.Str(); err != nil {
		return nil, err
	}
	mark("signature", s)
	if r.Len() != 0 {
		return nil, fmt.Errorf("sshcertref: %d trailing bytes after signature", r.Len())
	}
	sr := R{B: p.Sig}
	f, err := sr.Str()
	if err != nil {
		return nil, err
	}
	p.SigFormat = string(f)
	if _, err := sr.Str(); err != nil {
		return nil, err
	}
	return p, nil
}

// FieldAt names the field containing byte offset off.
func (p *Parsed) FieldAt(off int) string {
	for _, f := range p.Fields {
		if off >= f.Start && off < f.End {
			return f.Name
		}
	}
	return "?"
}

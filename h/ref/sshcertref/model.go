package sshcertref

// Decision model of the documented validity rules for OpenSSH certificates
// (PROTOCOL.certkeys, sshd(8) AUTHORIZED_KEYS/TrustedUserCAKeys text, and the
// CertChecker documentation). It is evaluated on the harness's description of
// the certificate and the checker configuration — never on x/crypto values.

type Mode int

const (
	ModeCheckCert    Mode = iota // CertChecker.CheckCert(principal, cert)
	ModeAuthenticate             // CertChecker.Authenticate(conn, cert): user certificate
	ModeCheckHostKey             // CertChecker.CheckHostKey(addr, remote, cert): host certificate
)

// Config is the harness's description of the checker and the query.
type Config struct {
	Mode           Mode
	Principal      string   // principal / user name / host name being checked
	SupportedCrit  []string // critical options the application declares to understand
	AuthoritySet   bool     // the authority callback for this mode is configured
	AuthorityKnown bool     // the harness's authority predicate holds for (CA key, address)
	Now            int64    // injected clock, seconds since the epoch
	Revoked        bool     // the harness's revocation predicate holds for this certificate
	SigValid       bool     // by construction: the CA signed exactly the received signed region
}

type Verdict int

const (
	Reject Verdict = iota
	Accept
	Either // the documented rules leave it open (every reading accepted)
)

func (v Verdict) String() string { return [...]string{"reject", "accept", "either"}[v] }

// Decide returns the verdict and the names of the rules that fail (hard
// failures) or are open (prefixed "open:").
func Decide(c *Cert, cfg Config) (Verdict, []string) {
	var fail, open []string
	switch cfg.Mode {
	case ModeAuthenticate:
		if c.Type != UserCert {
			fail = append(fail, "type")
		}
	case ModeCheckHostKey:
		if c.Type != HostCert {
			fail = append(fail, "type")
		}
	}
	if cfg.Mode != ModeCheckCert {
		if !cfg.AuthoritySet || !cfg.AuthorityKnown {
			fail = append(fail, "authority")
		}
	}
	if cfg.Revoked {
		fail = append(fail, "revoked")
	}
	// critical options: every option must be understood.
	critBad := false
	for _, o := range c.Crit {
		known := false
		for _, s := range cfg.SupportedCrit {
			if s == o.Name {
				known = true
			}
		}
		if known {
			continue
		}
		if o.Name == "source-address" {
			// x/crypto documents that source-address is enforced later by the
			// server's authentication loop, not by CertChecker; a reading of
			// the property that wants it listed as supported rejects here.
			open = append(open, "open:source-address-not-listed")
			continue
		}
		critBad = true
	}
	if critBad {
		fail = append(fail, "critical")
	} else if len(c.Crit) > 0 && c.Type == HostCert {
		// OpenSSH refuses host certificates carrying any critical option;
		// CertChecker documents SupportedCriticalOptions as "only used for
		// user certificates". Both readings are accepted.
		open = append(open, "open:host-cert-with-critical-options")
	}
	// principals: none listed = valid for all (documented CertChecker rule).
	if len(c.Principals) > 0 {
		found := false
		for _, p := range c.Principals {
			if p == cfg.Principal {
				found = true
			}
		}
		if !found {
			fail = append(fail, "principal")
		}
	}
	// ValidAfter <= now < ValidBefore over the integers; ValidBefore = 2^64-1
	// is "forever".
	if !(cfg.Now >= 0 && uint64(cfg.Now) >= c.ValidAfter) {
		fail = append(fail, "notyet")
	}
	if !(c.ValidBefore == Infinity || cfg.Now < 0 || uint64(cfg.Now) < c.ValidBefore) {
		fail = append(fail, "expired")
	}
	if !cfg.SigValid {
		fail = append(fail, "signature")
	}
	switch {
	case len(fail) > 0:
		return Reject, append(fail, open...)
	case len(open) > 0:
		return Either, open
	}
	return Accept, nil
}

// Package sshcertref is an independent executable description of OpenSSH
// certificates (PROTOCOL.certkeys): a byte-level encoder with explicit
// encoding knobs, a strict structural walker that keeps the raw bytes of every
// field, and the decision model for the documented validity rules. It shares
// no code with golang.org/x/crypto/ssh.
package sshcertref

import (
	"encoding/binary"
	"errors"
)

// W is an append-only SSH wire writer (RFC 4251 §5).
type W struct{ B []byte }

func (w *W) Raw(b []byte) *W { w.B = append(w.B, b...); return w }
func (w *W) U32(v uint32) *W { w.B = binary.BigEndian.AppendUint32(w.B, v); return w }
func (w *W) U64(v uint64) *W { w.B = binary.BigEndian.AppendUint64(w.B, v); return w }
func (w *W) Str(b []byte) *W { w.U32(uint32(len(b))); return w.Raw(b) }
func (w *W) S(s string) *W   { return w.Str([]byte(s)) }

// Str returns string(b) in wire form.
func Str(b []byte) []byte { return (&W{}).Str(b).B }

var ErrShort = errors.New("sshcertref: short or malformed field")

// R is a cursor over wire bytes.
type R struct {
	B   []byte
	Off int // offset of B[0] in the outermost buffer (for field maps)
}

func (r *R) Len() int { return len(r.B) }

func (r *R) take(n int) ([]byte, error) {
	if n < 0 || n > len(r.B) {
		return nil, ErrShort
	}
	b := r.B[:n]
	r.B = r.B[n:]
	r.Off += n
	return b, nil
}

func (r *R) U32() (uint32, error) {
	b, err := r.take(4)
	if err != nil {
		return 0, err
	}
	return binary.BigEndian.Uint32(b), nil
}

func (r *R) U64() (uint64, error) {
	b, err := r.take(8)
	if err != nil {
		return 0, err
	}
	return binary.BigEndian.Uint64(b), nil
}

func (r *R) Str() ([]byte, error) {
	n, err := r.U32()
	if err != nil {
		return nil, err
	}
	if uint64(n) > uint64(len(r.B)) {
		return nil, ErrShort
	}
	return r.take(int(n))
}

// Mpint encodes a non-negative big-endian magnitude as an RFC 4251 mpint
// (minimal, with a leading zero byte when the top bit is set), plus `pad`
// redundant leading zero bytes (pad=0 → canonical).
func Mpint(mag []byte, pad int) []byte {
	for len(mag) > 0 && mag[0] == 0 {
		mag = mag[1:]
	}
	var body []byte
	if len(mag) > 0 && mag[0]&0x80 != 0 {
		body = append(body, 0)
	}
	body = append(body, mag...)
	if pad > 0 {
		body = append(make([]byte, pad), body...)
	}
	return Str(body)
}

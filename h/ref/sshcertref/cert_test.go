package sshcertref

import (
	"bytes"
	"encoding/base64"
	"os"
	"reflect"
	"strings"
	"testing"
)

func load(t *testing.T, name string) []byte {
	t.Helper()
	b, err := os.ReadFile("testdata/" + name)
	if err != nil {
		t.Fatal(err)
	}
	f := strings.Fields(string(b))
	raw, err := base64.StdEncoding.DecodeString(f[1])
	if err != nil {
		t.Fatal(err)
	}
	return raw
}

// Vectors: certificates issued by ssh-keygen 9.2 (`ssh-keygen -s`), see the
// field values printed by `ssh-keygen -L` at generation time.
func TestWalkerRoundTripsSSHKeygenCerts(t *testing.T) {
	for _, n := range []string{"ed2-cert.pub", "ec256-cert.pub", "ec384-cert.pub", "rsa2048-cert.pub", "dsa-cert.pub"} {
		raw := load(t, n)
		p, err := Parse(raw)
		if err != nil {
			t.Fatalf("%s: %v", n, err)
		}
		if !bytes.Equal(p.Bytes(), raw) {
			t.Errorf("%s: re-encoding differs", n)
		}
		if !bytes.Equal(p.SignedBytes(), raw[:p.SignedLen]) {
			t.Errorf("%s: signed region differs", n)
		}
		if p.Fields[len(p.Fields)-1].End != len(raw) {
			t.Errorf("%s: field map does not cover blob", n)
		}
	}
	p, _ := Parse(load(t, "ed2-cert.pub"))
	if p.Algo != "ssh-ed25519-cert-v01@openssh.com" || p.KeyID != "my id" || p.Serial != 77 || p.Type != UserCert ||
		!reflect.DeepEqual(p.Principals, []string{"alice", "bob"}) || p.ValidAfter != 0x10 || p.ValidBefore != 0x7fffffffffffffff {
		t.Errorf("ed2 fields: %+v", p.Cert)
	}
	wantCrit := []Opt{{"crit@example.com", "zz", EncCanon}, {"force-command", "/bin/true", EncCanon}, {"source-address", "10.0.0.0/8", EncCanon}}
	wantExt := []Opt{{"empty@example.com", "", EncCanon}, {"foo@example.com", "bar", EncCanon}, {"permit-pty", "", EncCanon}}
	if !reflect.DeepEqual(p.Crit, wantCrit) || !reflect.DeepEqual(p.Ext, wantExt) {
		t.Errorf("ed2 options: %+v %+v", p.Crit, p.Ext)
	}
	if p.SigFormat != "ssh-ed25519" {
		t.Errorf("sig format %q", p.SigFormat)
	}
	h, _ := Parse(load(t, "ec256-cert.pub"))
	if h.Type != HostCert || h.ValidAfter != 0 || h.ValidBefore != Infinity || h.SigFormat != "rsa-sha2-256" || !reflect.DeepEqual(h.Principals, []string{"b.a"}) {
		t.Errorf("ec256 fields: %+v", h.Cert)
	}
	d, _ := Parse(load(t, "rsa2048-cert.pub"))
	if d.ValidAfter != 1<<63 || d.ValidBefore != 1<<63+5 || d.SigFormat != "ssh-dss" || len(d.Ext) != 5 {
		t.Errorf("rsa2048 fields: %+v", d.Cert)
	}
}

func TestKnobsChangeBytesOnly(t *testing.T) {
	p, _ := Parse(load(t, "ed2-cert.pub"))
	c := p.Cert.Clone()
	c.Ext[2].Enc = EncWrappedEmpty // permit-pty
	b := c.Bytes()
	if len(b) != len(p.Bytes())+4 {
		t.Fatalf("wrapped empty string must add 4 bytes: %d vs %d", len(b), len(p.Bytes()))
	}
	q, err := Parse(b)
	if err != nil {
		t.Fatal(err)
	}
	if q.Ext[2].Enc != EncWrappedEmpty || q.Ext[2].Value != "" || !bytes.Equal(q.Bytes(), b) {
		t.Errorf("walker lost the encoding knob: %+v", q.Ext[2])
	}
}

func TestMpint(t *testing.T) {
	for _, c := range []struct {
		mag  []byte
		pad  int
		want []byte
	}{
		{nil, 0, []byte{0, 0, 0, 0}},
		{[]byte{0x01, 0x00, 0x01}, 0, []byte{0, 0, 0, 3, 1, 0, 1}},
		{[]byte{0x80}, 0, []byte{0, 0, 0, 2, 0, 0x80}},                         // RFC 4251: 0x80 → 00 80
		{[]byte{0x09, 0xa3, 0x78, 0xf9, 0xb2, 0xe3, 0x32, 0xa7}, 0, []byte{0, 0, 0, 8, 0x09, 0xa3, 0x78, 0xf9, 0xb2, 0xe3, 0x32, 0xa7}}, // RFC 4251 example
		{[]byte{0x01, 0x00, 0x01}, 2, []byte{0, 0, 0, 5, 0, 0, 1, 0, 1}},
		{[]byte{0, 0, 0x7f}, 0, []byte{0, 0, 0, 1, 0x7f}},
	} {
		if got := Mpint(c.mag, c.pad); !bytes.Equal(got, c.want) {
			t.Errorf("Mpint(%x,%d)=%x want %x", c.mag, c.pad, got, c.want)
		}
	}
}

func TestSplitKeyBlob(t *testing.T) {
	p, _ := Parse(load(t, "rsa2048-cert.pub"))
	algo, f, err := SplitKeyBlob(p.SigKey)
	if err != nil || algo != "ssh-dss" || len(f) != 4 {
		t.Fatalf("%v %q %d", err, algo, len(f))
	}
	if !bytes.Equal(append(Str([]byte(algo)), JoinKeyFields(f)...), p.SigKey) {
		t.Error("join(split) != blob")
	}
}

func TestDecide(t *testing.T) {
	base := Cert{Type: UserCert, Principals: []string{"u"}, ValidAfter: 50, ValidBefore: 100}
	ok := Config{Mode: ModeAuthenticate, Principal: "u", AuthoritySet: true, AuthorityKnown: true, Now: 50, SigValid: true}
	type tc struct {
		name string
		c    func(*Cert)
		f    func(*Config)
		want Verdict
	}
	for _, x := range []tc{
		{"ok", nil, nil, Accept},
		{"now=after-1", nil, func(c *Config) { c.Now = 49 }, Reject},
		{"now=before-1", nil, func(c *Config) { c.Now = 99 }, Accept},
		{"now=before", nil, func(c *Config) { c.Now = 100 }, Reject},
		{"negative now", func(c *Cert) { c.ValidAfter = 0 }, func(c *Config) { c.Now = -1 }, Reject},
		{"forever", func(c *Cert) { c.ValidBefore = Infinity }, func(c *Config) { c.Now = 1<<63 - 1 }, Accept},
		{"before=2^63", func(c *Cert) { c.ValidBefore = 1 << 63 }, func(c *Config) { c.Now = 1<<63 - 1 }, Accept},
		{"after=2^63", func(c *Cert) { c.ValidAfter = 1 << 63; c.ValidBefore = Infinity }, func(c *Config) { c.Now = 1<<63 - 1 }, Reject},
		{"host type", func(c *Cert) { c.Type = HostCert }, nil, Reject},
		{"type 3 via CheckCert", func(c *Cert) { c.Type = 3 }, func(c *Config) { c.Mode = ModeCheckCert; c.AuthoritySet = false }, Accept},
		{"unknown CA", nil, func(c *Config) { c.AuthorityKnown = false }, Reject},
		{"no callback", nil, func(c *Config) { c.AuthoritySet = false }, Reject},
		{"revoked", nil, func(c *Config) { c.Revoked = true }, Reject},
		{"other principal", nil, func(c *Config) { c.Principal = "v" }, Reject},
		{"no principals", func(c *Cert) { c.Principals = nil }, func(c *Config) { c.Principal = "v" }, Accept},
		{"empty principal listed", func(c *Cert) { c.Principals = []string{""} }, func(c *Config) { c.Principal = "" }, Accept},
		{"empty principal listed, other asked", func(c *Cert) { c.Principals = []string{""} }, nil, Reject},
		{"crit unsupported", func(c *Cert) { c.Crit = []Opt{{Name: "force-command", Value: "x"}} }, nil, Reject},
		{"crit supported", func(c *Cert) { c.Crit = []Opt{{Name: "force-command", Value: "x"}} }, func(c *Config) { c.SupportedCrit = []string{"force-command"} }, Accept},
		{"source-address unlisted", func(c *Cert) { c.Crit = []Opt{{Name: "source-address", Value: "x"}} }, nil, Either},
		{"bad sig", nil, func(c *Config) { c.SigValid = false }, Reject},
		{"host cert crit supported", func(c *Cert) { c.Type = HostCert; c.Crit = []Opt{{Name: "x"}} }, func(c *Config) { c.Mode = ModeCheckHostKey; c.SupportedCrit = []string{"x"} }, Either},
	} {
		c, f := base, ok
		if x.c != nil {
			x.c(&c)
		}
		if x.f != nil {
			x.f(&f)
		}
		if got, why := Decide(&c, f); got != x.want {
			t.Errorf("%s: got %v (%v) want %v", x.name, got, why, x.want)
		}
	}
}

// Package pgpfmt is an executable description of the OpenPGP *container*
// formats of RFC 4880 used as an oracle by the C44/C46 monitors: the CRC-24
// of §6.1, the ASCII armor of §6.2 (strict parser + encoder, own base64), the
// cleartext signature framework of §7 (canonical signed text, dash escaping)
// and a packet walker for §4.2/§4.3 framing (old and new headers, partial body
// lengths) that maps every octet of a message to the protection region it
// belongs to. Written from the RFC text; shares no code with
// golang.org/x/crypto/openpgp and does not use encoding/base64.
package pgpfmt

import (
	"bytes"
	"errors"
	"fmt"
)

// CRC24 is the §6.1 checksum: a 24-bit LFSR with generator 0x864CFB (the RFC
// writes it with the x^24 term as 0x1864CFB) initialised to 0xB704CE, fed the
// message most significant bit first.
func CRC24(data []byte) uint32 {
	reg := uint32(0xB704CE)
	for _, b := range data {
		for bit := 7; bit >= 0; bit-- {
			in := uint32(b>>uint(bit)) & 1
			top := (reg >> 23) & 1
			reg = (reg << 1) & 0xFFFFFF
			if top^in == 1 {
				reg ^= 0x864CFB
			}
		}
	}
	return reg
}

const b64alpha = "ABCDEFGHIJKLMNOPQRSTUVWXYZabcdefghijklmnopqrstuvwxyz0123456789+/"

func b64val(c byte) int {
	switch {
	case c >= 'A' && c <= 'Z':
		return int(c - 'A')
	case c >= 'a' && c <= 'z':
		return int(c-'a') + 26
	case c >= '0' && c <= '9':
		return int(c-'0') + 52
	case c == '+':
		return 62
	case c == '/':
		return 63
	}
	return -1
}

// B64Encode is radix-64 of §6.3 without line breaks.
func B64Encode(data []byte) []byte {
	var out []byte
	for i := 0; i < len(data); i += 3 {
		var v uint32
		n := 0
		for j := 0; j < 3; j++ {
			v <<= 8
			if i+j < len(data) {
				v |= uint32(data[i+j])
				n++
			}
		}
		out = append(out, b64alpha[(v>>18)&63], b64alpha[(v>>12)&63])
		if n >= 2 {
			out = append(out, b64alpha[(v>>6)&63])
		} else {
			out = append(out, '=')
		}
		if n == 3 {
			out = append(out, b64alpha[v&63])
		} else {
			out = append(out, '=')
		}
	}
	return out
}

// B64Decode is the strict inverse: length a multiple of 4, padding only in the
// last quantum, unused low bits zero.
func B64Decode(s []byte) ([]byte, error) {
	if len(s)%4 != 0 {
		return nil, errors.New("radix-64 length not a multiple of 4")
	}
	var out []byte
	for i := 0; i < len(s); i += 4 {
		q := s[i : i+4]
		pad := 0
		if q[3] == '=' {
			pad = 1
			if q[2] == '=' {
				pad = 2
			}
		}
		if pad > 0 && i+4 != len(s) {
			return nil, errors.New("padding before the end")
		}
		var v uint32
		for j := 0; j < 4-pad; j++ {
			x := b64val(q[j])
			if x < 0 {
				return nil, fmt.Errorf("bad radix-64 octet %q", q[j])
			}
			v |= uint32(x) << uint(18-6*j)
		}
		switch pad {
		case 0:
			out = append(out, byte(v>>16), byte(v>>8), byte(v))
		case 1:
			if v&0xFF != 0 {
				return nil, errors.New("non-zero trailing bits")
			}
			out = append(out, byte(v>>16), byte(v>>8))
		case 2:
			if v&0xFFFF != 0 {
				return nil, errors.New("non-zero trailing bits")
			}
			out = append(out, byte(v>>16))
		}
	}
	return out, nil
}

// Armor is a parsed §6.2 block.
type Armor struct {
	Type     string
	Headers  [][2]string // in order of appearance
	Body     []byte
	HasCRC   bool
	CRC      uint32
	LineLens []int // lengths of the radix-64 data lines
	// Offsets (into the parsed text) of the first octet of the radix-64 data
	// and of the line after it (checksum or END line).
	DataStart, DataEnd int
}

// EncodeOpts selects the variant written by EncodeArmor.
type EncodeOpts struct {
	LineLen int    // radix-64 octets per line (default 64; RFC maximum 76)
	EOL     string // "\n" (default) or "\r\n"
	NoCRC   bool   // omit the optional checksum line
	CRC     *uint32
}

// EncodeArmor writes a block per §6.2.
func EncodeArmor(typ string, headers [][2]string, body []byte, o EncodeOpts) []byte {
	if o.LineLen == 0 {
		o.LineLen = 64
	}
	if o.EOL == "" {
		o.EOL = "\n"
	}
	var b bytes.Buffer
	b.WriteString("-----BEGIN " + typ + "-----" + o.EOL)
	for _, h := range headers {
		b.WriteString(h[0] + ": " + h[1] + o.EOL)
	}
	b.WriteString(o.EOL)
	enc := B64Encode(body)
	for len(enc) > 0 {
		n := o.LineLen
		if n > len(enc) {
			n = len(enc)
		}
		b.Write(enc[:n])
		b.WriteString(o.EOL)
		enc = enc[n:]
	}
	if !o.NoCRC {
		c := CRC24(body)
		if o.CRC != nil {
			c = *o.CRC
		}
		b.WriteByte('=')
		b.Write(B64Encode([]byte{byte(c >> 16), byte(c >> 8), byte(c)}))
		b.WriteString(o.EOL)
	}
	b.WriteString("-----END " + typ + "-----" + o.EOL)
	return b.Bytes()
}

type lineScanner struct {
	text []byte
	pos  int
}

// next returns the next line without its terminator (LF or CRLF), the offset
// of its first octet, and false at end of text.
func (s *lineScanner) next() (line []byte, off int, ok bool) {
	if s.pos >= len(s.text) {
		return nil, s.pos, false
	}
	off = s.pos
	i := bytes.IndexByte(s.text[s.pos:], '\n')
	if i < 0 {
		line = s.text[s.pos:]
		s.pos = len(s.text)
	} else {
		line = s.text[s.pos : s.pos+i]
		s.pos += i + 1
	}
	if n := len(line); n > 0 && line[n-1] == '\r' {
		line = line[:n-1]
	}
	return line, off, true
}

// ParseArmor parses exactly one block that starts at the beginning of text.
// It is strict: anything §6.2 does not allow is an error. Octets after the END
// line are ignored (returned offset = first octet after the END line).
func ParseArmor(text []byte) (*Armor, int, error) {
	s := &lineScanner{text: text}
	line, _, ok := s.next()
	if !ok || !bytes.HasPrefix(line, []byte("-----BEGIN ")) || !bytes.HasSuffix(line, []byte("-----")) || len(line) < 17 {
		return nil, 0, errors.New("no BEGIN line")
	}
	a := &Armor{Type: string(line[11 : len(line)-5])}
	for {
		line, _, ok = s.next()
		if !ok {
			return nil, 0, errors.New("unterminated headers")
		}
		if len(line) == 0 {
			break
		}
		i := bytes.Index(line, []byte(": "))
		if i < 0 {
			return nil, 0, fmt.Errorf("header line without \": \": %q", line)
		}
		a.Headers = append(a.Headers, [2]string{string(line[:i]), string(line[i+2:])})
	}
	a.DataStart = s.pos
	var data []byte
	end := "-----END " + a.Type + "-----"
	for {
		var off int
		line, off, ok = s.next()
		if !ok {
			return nil, 0, errors.New("no END line")
		}
		if string(line) == end {
			if a.DataEnd == 0 {
				a.DataEnd = off
			}
			break
		}
		if a.HasCRC {
			return nil, 0, errors.New("data after the checksum line")
		}
		if len(line) == 5 && line[0] == '=' {
			c, err := B64Decode(line[1:])
			if err != nil || len(c) != 3 {
				return nil, 0, errors.New("malformed checksum line")
			}
			a.HasCRC = true
			a.CRC = uint32(c[0])<<16 | uint32(c[1])<<8 | uint32(c[2])
			a.DataEnd = off
			continue
		}
		if len(line) == 0 {
			// An empty data line carries no radix-64 octets; tolerated (a
			// zero-length body is written that way by some encoders).
			a.LineLens = append(a.LineLens, 0)
			continue
		}
		if len(line) > 76 {
			return nil, 0, errors.New("radix-64 line longer than 76")
		}
		a.LineLens = append(a.LineLens, len(line))
		data = append(data, line...)
	}
	body, err := B64Decode(data)
	if err != nil {
		return nil, 0, err
	}
	a.Body = body
	return a, s.pos, nil
}

package pgpfmt

import (
	"bytes"
	"encoding/hex"
	"testing"
)

func TestCRC24Vectors(t *testing.T) {
	// CRC-24/OPENPGP catalogue parameters: init B704CE, check("123456789") = 21CF02.
	if c := CRC24(nil); c != 0xB704CE {
		t.Fatalf("empty: %06x", c)
	}
	if c := CRC24([]byte("123456789")); c != 0x21CF02 {
		t.Fatalf("check: %06x", c)
	}
}

func TestB64RFC4648(t *testing.T) {
	for _, v := range [][2]string{{"", ""}, {"f", "Zg=="}, {"fo", "Zm8="}, {"foo", "Zm9v"}, {"foob", "Zm9vYg=="}, {"fooba", "Zm9vYmE="}, {"foobar", "Zm9vYmFy"}} {
		if g := string(B64Encode([]byte(v[0]))); g != v[1] {
			t.Fatalf("enc %q: %q", v[0], g)
		}
		d, err := B64Decode([]byte(v[1]))
		if err != nil || string(d) != v[0] {
			t.Fatalf("dec %q: %q %v", v[1], d, err)
		}
	}
	for _, bad := range []string{"Zg=", "Zh==", "Zm9=", "Zg==Zg==", "Z*9v", "=Zg="} {
		if _, err := B64Decode([]byte(bad)); err == nil {
			t.Fatalf("accepted %q", bad)
		}
	}
}

// The example of RFC 4880 §6.6 (its checksum line is a CRC-24 known answer).
const rfcExample = "-----BEGIN PGP MESSAGE-----\n" +
	"Version: OpenPrivacy 0.99\n" +
	"\n" +
	"yDgBO22WxBHv7O8X7O/jygAEzol56iUKiXmV+XmpCtmpqQUKiQrFqclFqUDBovzS\n" +
	"vBSFjNSiVHsuAA==\n" +
	"=njUN\n" +
	"-----END PGP MESSAGE-----\n"

func TestArmorRFCExample(t *testing.T) {
	a, end, err := ParseArmor([]byte(rfcExample))
	if err != nil {
		t.Fatal(err)
	}
	if end != len(rfcExample) || a.Type != "PGP MESSAGE" || len(a.Headers) != 1 || a.Headers[0] != [2]string{"Version", "OpenPrivacy 0.99"} {
		t.Fatalf("%+v %d", a, end)
	}
	if !a.HasCRC || a.CRC != CRC24(a.Body) {
		t.Fatalf("crc %06x vs %06x", a.CRC, CRC24(a.Body))
	}
	if len(a.LineLens) != 2 || a.LineLens[0] != 64 || a.LineLens[1] != 16 {
		t.Fatalf("lines %v", a.LineLens)
	}
	// re-encode reproduces the text
	got := EncodeArmor(a.Type, a.Headers, a.Body, EncodeOpts{})
	if string(got) != rfcExample {
		t.Fatalf("re-encode:\n%s", got)
	}
	// the body is one compressed packet (old format tag 8)
	ly, err := Classify(a.Body)
	if err != nil || len(ly.Pkts) != 1 || ly.Pkts[0].Tag != 8 || ly.CompAlgo != 1 {
		t.Fatalf("%+v %v", ly, err)
	}
}

func TestArmorVariants(t *testing.T) {
	body := bytes.Repeat([]byte{0xA5, 1, 2}, 50)
	for _, o := range []EncodeOpts{{}, {LineLen: 76}, {EOL: "\r\n"}, {NoCRC: true}, {LineLen: 4}} {
		txt := EncodeArmor("X Y", [][2]string{{"A", "b: c"}, {"", "v"}}, body, o)
		a, _, err := ParseArmor(txt)
		if err != nil || !bytes.Equal(a.Body, body) || a.Type != "X Y" || a.HasCRC == o.NoCRC || a.Headers[0][1] != "b: c" || a.Headers[1][0] != "" {
			t.Fatalf("%+v: %v %+v", o, err, a)
		}
	}
	if _, _, err := ParseArmor(EncodeArmor("T", nil, body, EncodeOpts{LineLen: 80})); err == nil {
		t.Fatal("80-octet lines accepted")
	}
	a, _, err := ParseArmor(EncodeArmor("T", nil, nil, EncodeOpts{}))
	if err != nil || len(a.Body) != 0 || a.CRC != 0xB704CE {
		t.Fatalf("empty: %v %+v", err, a)
	}
}

func TestCleartextModel(t *testing.T) {
	for _, v := range []struct {
		in, signed, plain string
		amb               bool
	}{
		{"", "", "", false},
		{"\n", "", "\n", false},
		{"\n\n", "\r\n", "\n\n", false},
		{"a", "a", "a\n", false},
		{"a\n", "a", "a\n", false},
		{"a \t\r\nb  ", "a\r\nb", "a\nb\n", false},
		{"-x\n- y\nFrom z\n", "-x\r\n- y\r\nFrom z", "-x\n- y\nFrom z\n", false},
		{"a\rb\n", "a\rb", "a\rb\n", true},
		{"a\r\r\n", "a", "a\n", true},
	} {
		c := ModelCleartext([]byte(v.in))
		if string(c.Signed) != v.signed || string(c.Plain) != v.plain || c.Ambiguous != v.amb {
			t.Fatalf("%q: %q %q %v", v.in, c.Signed, c.Plain, c.Ambiguous)
		}
	}
	// RFC 4880 §7.1 wording on an explicit framework
	txt := "-----BEGIN PGP SIGNED MESSAGE-----\nHash: SHA1\n\n- -dash\nplain  \n- From x\n-----BEGIN PGP SIGNATURE-----\n\nAAAA\n-----END PGP SIGNATURE-----\n"
	m, err := ParseCleartext([]byte(txt))
	if err != nil || m.EscapeErrors != 0 || len(m.HeaderLines) != 1 || m.HeaderLines[0] != "Hash: SHA1" {
		t.Fatalf("%+v %v", m, err)
	}
	if u := m.Unescaped(); string(u.Signed) != "-dash\r\nplain\r\nFrom x" {
		t.Fatalf("%q", u.Signed)
	}
	if txt[m.SigOffset:m.SigOffset+10] != "-----BEGIN" {
		t.Fatal("sig offset")
	}
	bad := "-----BEGIN PGP SIGNED MESSAGE-----\n\n-notescaped\n-----BEGIN PGP SIGNATURE-----\n"
	if m, err := ParseCleartext([]byte(bad)); err != nil || m.EscapeErrors != 1 {
		t.Fatalf("%+v %v", m, err)
	}
	if string(Squash([]byte("a \t\r\nb\r"))) != "a\nb\n" || string(Squash([]byte("a\n\r"))) != "a\n\n" || string(Squash([]byte("a\n\n"))) != "a\n\n" || len(Squash(nil)) != 0 {
		t.Fatal("squash")
	}
}

func mustHex(s string) []byte {
	b, err := hex.DecodeString(s)
	if err != nil {
		panic(err)
	}
	return b
}

func TestWalkFraming(t *testing.T) {
	// new format, partial lengths: tag 11, chunks 2 (0xE1) + 1 (0xE0) + final 5
	lit := append([]byte{0xCB, 0xE1, 'b', 0, 0xE0, 0, 0x05, 0, 0, 0, 'h', 'i'})
	// old format tag 4 (OPS), one-octet length 13
	ops := append([]byte{0x90, 13, 3, 0, 8, 1}, append(mustHex("1122334455667788"), 1)...)
	// v4 RSA signature, hashed = creation time, unhashed = issuer
	sig := []byte{0xC2, 0, 4, 0, 1, 8, 0, 6, 5, 2, 1, 2, 3, 4, 0, 10, 9, 16}
	sig = append(sig, mustHex("1122334455667788")...)
	sig = append(sig, 0xAB, 0xCD, 0, 17, 1, 2, 3) // hash tag, MPI 17 bits = 3 octets
	sig[1] = byte(len(sig) - 2)
	msg := append(append(append([]byte{}, ops...), lit...), sig...)
	ly, err := Classify(msg)
	if err != nil {
		t.Fatal(err)
	}
	if len(ly.Pkts) != 3 || ly.Tags[0] != 4 || ly.Tags[1] != 11 || ly.Tags[2] != 2 {
		t.Fatalf("%v", ly.Tags)
	}
	if ly.OPS[0].KeyID != 0x1122334455667788 || ly.OPS[0].Hash != 8 || ly.OPS[0].Last != 1 {
		t.Fatalf("%+v", ly.OPS)
	}
	if !ly.HasLit || string(ly.LitBody) != "hi" || ly.LitFormat != 'b' || !ly.Pkts[1].Partial {
		t.Fatalf("lit %q", ly.LitBody)
	}
	s := ly.Sigs[0]
	if s.Version != 4 || s.PKAlgo != 1 || s.Hash != 8 || !s.HasIssuer || s.IssuerHashed || s.Issuer != 0x1122334455667788 || s.Created != 0x01020304 || s.NMPI != 1 {
		t.Fatalf("%+v", s)
	}
	cnt := map[string]int{}
	for _, l := range ly.Labels {
		cnt[l]++
	}
	want := map[string]int{LFraming: 2 + 4 + 2, LOPS: 13, LLitMeta: 6, LLitBody: 2, LSigHashed: 12, LSigUnhashed: 12, LSigHashTag: 2, LSigMPILen: 2, LSigMPI: 3}
	for k, v := range want {
		if cnt[k] != v {
			t.Fatalf("label %s: %d want %d (%v)", k, cnt[k], v, cnt)
		}
	}
	// the two literal body octets are the last two of the literal packet
	if ly.Labels[len(ops)+10] != LLitBody || ly.Labels[len(ops)+4] != LFraming || ly.Labels[len(ops)+6] != LFraming {
		t.Fatalf("%v", ly.Labels[len(ops):len(ops)+12])
	}
	// truncated / inconsistent inputs are errors, not guesses
	if _, err := Classify(msg[:len(msg)-1]); err == nil {
		t.Fatal("truncated accepted")
	}
	if _, err := Classify([]byte{0x10}); err == nil {
		t.Fatal("bad tag accepted")
	}
	// SEIPD + PKESK + SKESK, old-format indeterminate compressed
	m2 := []byte{0xC1, 12, 3, 1, 2, 3, 4, 5, 6, 7, 8, 16, 0, 1}
	m2 = append(m2, 0xC3, 4, 4, 9, 0, 8)
	m2 = append(m2, 0xD2, 3, 1, 0xAA, 0xBB)
	m2 = append(m2, 0xA3, 1, 0x55, 0x66)
	ly, err = Classify(m2)
	if err != nil {
		t.Fatal(err)
	}
	if ly.PKESKKey[0] != 0x0102030405060708 || ly.PKESKAlgo[0] != 16 || !ly.HasSEIPD || ly.CompAlgo != 1 || !ly.Pkts[3].Indeterminate || ly.SKESK[0].Cipher != 9 || ly.SKESK[0].HasESK {
		t.Fatalf("%+v", ly)
	}
	if ly.Labels[22] != LSEIPDVer || ly.Labels[23] != LSEIPDData || ly.Labels[27] != LCompData {
		t.Fatalf("%v", ly.Labels[20:])
	}
}

func TestRSASecretKey(t *testing.T) {
	// p=11, q=13, n=143, e=7, d=43 (7*43=301=1 mod 60), u = 11^-1 mod 13 = 6
	mk := func(p, q, u byte) []byte {
		b := []byte{4, 0, 0, 0, 1, 1, 0, 8, 143, 0, 3, 7, 0}
		sec := []byte{0, 6, 43, 0, 4, p, 0, 4, q, 0, 3, u}
		sum := 0
		for _, x := range sec {
			sum += int(x)
		}
		return append(append(b, sec...), byte(sum>>8), byte(sum))
	}
	k, err := ParseRSASecretKey(mk(11, 13, 6))
	if err != nil || len(k.Check()) != 0 {
		t.Fatalf("%v %v", err, k.Check())
	}
	k, err = ParseRSASecretKey(mk(13, 11, 6)) // swapped primes: u = 13^-1 mod 11 = 6 as well
	if err != nil || len(k.Check()) != 1 || k.Check()[0] != "p >= q" {
		t.Fatalf("%v %v", err, k.Check())
	}
	k, _ = ParseRSASecretKey(mk(11, 13, 5))
	if c := k.Check(); len(c) != 1 || c[0] != "u != p^-1 mod q" {
		t.Fatalf("%v", c)
	}
	bad := mk(11, 13, 6)
	bad[len(bad)-1]++
	if _, err := ParseRSASecretKey(bad); err == nil {
		t.Fatal("checksum not checked")
	}
}

func TestSigPartsAndCanonicalText(t *testing.T) {
	sig := []byte{4, 1, 1, 8, 0, 6, 5, 2, 1, 2, 3, 4, 0, 10, 9, 16}
	sig = append(sig, mustHex("1122334455667788")...)
	sig = append(sig, 0xAB, 0xCD, 0, 17, 1, 2, 3)
	p, err := ParseSigV4(sig)
	if err != nil || p.SigType != 1 || p.Hash != 8 || len(p.HashedPrefix) != 12 || !bytes.Equal(p.Trailer, []byte{4, 0xff, 0, 0, 0, 12}) || p.HashTag != [2]byte{0xAB, 0xCD} || len(p.MPIs) != 1 || p.MPIs[0].Int64() != 0x010203 {
		t.Fatalf("%+v %v", p, err)
	}
	for _, v := range []struct {
		in, out string
		ok      bool
	}{{"a\nb", "a\r\nb", true}, {"a\r\nb\n", "a\r\nb\r\n", true}, {"\n", "\r\n", true}, {"", "", true}, {"a\rb", "a\rb", false}, {"a\r\r\n", "a\r\r\n", false}, {"a\r", "a\r", false}} {
		c, ok := CanonicalText([]byte(v.in))
		if string(c) != v.out || ok != v.ok {
			t.Fatalf("%q: %q %v", v.in, c, ok)
		}
	}
}

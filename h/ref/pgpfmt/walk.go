package pgpfmt

import (
	"errors"
	"fmt"
	"math/big"
)

// Pkt is one packet of a packet sequence (§4.2, §4.3).
type Pkt struct {
	Tag           int
	NewFormat     bool
	Start, End    int   // [Start,End) in the message
	Hdr           []int // offsets of framing octets: tag, length octets, partial continuation lengths
	Body          []byte
	Off           []int // Off[i] = message offset of Body[i]
	Partial       bool
	Indeterminate bool
}

// Walk splits msg into packets. The whole of msg must be consumed.
func Walk(msg []byte) ([]Pkt, error) {
	var out []Pkt
	pos := 0
	for pos < len(msg) {
		p := Pkt{Start: pos}
		t := msg[pos]
		if t&0x80 == 0 {
			return nil, fmt.Errorf("offset %d: tag octet without bit 7", pos)
		}
		p.Hdr = append(p.Hdr, pos)
		pos++
		take := func(n int) error {
			if n < 0 || pos+n > len(msg) {
				return fmt.Errorf("packet at %d runs past the end", p.Start)
			}
			for i := 0; i < n; i++ {
				p.Body = append(p.Body, msg[pos+i])
				p.Off = append(p.Off, pos+i)
			}
			pos += n
			return nil
		}
		need := func(n int) error {
			if pos+n > len(msg) {
				return fmt.Errorf("packet at %d: truncated length", p.Start)
			}
			return nil
		}
		if t&0x40 == 0 { // old format
			p.Tag = int(t>>2) & 15
			lt := int(t & 3)
			if lt == 3 {
				p.Indeterminate = true
				if err := take(len(msg) - pos); err != nil {
					return nil, err
				}
			} else {
				nb := 1 << uint(lt)
				if err := need(nb); err != nil {
					return nil, err
				}
				l := 0
				for i := 0; i < nb; i++ {
					l = l<<8 | int(msg[pos])
					p.Hdr = append(p.Hdr, pos)
					pos++
				}
				if err := take(l); err != nil {
					return nil, err
				}
			}
		} else { // new format
			p.NewFormat = true
			p.Tag = int(t & 0x3f)
			for {
				if err := need(1); err != nil {
					return nil, err
				}
				o := int(msg[pos])
				p.Hdr = append(p.Hdr, pos)
				pos++
				var l int
				partial := false
				switch {
				case o < 192:
					l = o
				case o < 224:
					if err := need(1); err != nil {
						return nil, err
					}
					l = (o-192)<<8 + int(msg[pos]) + 192
					p.Hdr = append(p.Hdr, pos)
					pos++
				case o < 255:
					l = 1 << uint(o&0x1f)
					partial = true
					p.Partial = true
				default:
					if err := need(4); err != nil {
						return nil, err
					}
					for i := 0; i < 4; i++ {
						l = l<<8 | int(msg[pos])
						p.Hdr = append(p.Hdr, pos)
						pos++
					}
				}
				if err := take(l); err != nil {
					return nil, err
				}
				if !partial {
					break
				}
			}
		}
		p.End = pos
		out = append(out, p)
	}
	return out, nil
}

// Region labels.
const (
	LFraming     = "framing"       // tag and length octets
	LPKESK       = "pkesk"         // tag 1 contents (not authenticated)
	LSKESK       = "skesk"         // tag 3 contents (not authenticated)
	LSEIPDVer    = "seipd-version" // version octet of tag 18
	LSEIPDData   = "seipd-data"    // tag 18 ciphertext: covered by the MDC
	LSEData      = "se-data"       // tag 9 ciphertext: no integrity protection
	LOPS         = "ops"           // tag 4 contents (not signed)
	LLitMeta     = "lit-meta"      // literal format, file name, date (not signed)
	LLitBody     = "lit-body"      // literal data: signed if the message is signed
	LSigHashed   = "sig-hashed"    // v4: version .. end of hashed subpackets (hashed into the signature)
	LSigUnhashed = "sig-unhashed"  // v4: unhashed subpacket length and area
	LSigHashTag  = "sig-hashtag"   // left 16 bits of the hash (a convenience check, not signed)
	LSigMPILen   = "sig-mpi-len"   // MPI bit counts
	LSigMPI      = "sig-mpi"       // signature value
	LSigOther    = "sig-other"     // signature packet not understood (v3, unknown algorithm)
	LCompAlgo    = "comp-algo"
	LCompData    = "comp-data" // compressed stream: classification of single octets is not exact
	LOther       = "other"
)

// SigInfo is what the walker extracts from a v4 signature packet.
type SigInfo struct {
	Version, SigType, PKAlgo, Hash int
	Issuer                        uint64
	HasIssuer, IssuerHashed       bool
	Created                       uint32
	HasCreated                    bool
	NMPI                          int
}

// OPSInfo is a one-pass signature packet.
type OPSInfo struct {
	Version, SigType, Hash, PKAlgo int
	KeyID                          uint64
	Last                           int
}

// SKESKInfo is a symmetric-key encrypted session key packet.
type SKESKInfo struct {
	Version, Cipher, S2KMode, S2KHash int
	HasESK                            bool
}

// Layout is the result of Classify.
type Layout struct {
	Pkts      []Pkt
	Labels    []string // per octet of the message
	PKESKKey  []uint64
	PKESKAlgo []int
	SKESK     []SKESKInfo
	OPS       []OPSInfo
	Sigs      []SigInfo
	HasSEIPD  bool
	HasSE     bool
	CompAlgo  int // -1 if no compressed packet at this level
	LitFormat byte
	LitName   string
	LitDate   uint32
	LitBody   []byte
	HasLit    bool
	Tags      []int
}

func be(b []byte) uint64 {
	var v uint64
	for _, x := range b {
		v = v<<8 | uint64(x)
	}
	return v
}

func subpackets(area []byte, hashed bool, si *SigInfo) error {
	for len(area) > 0 {
		var l int
		switch {
		case area[0] < 192:
			l = int(area[0])
			area = area[1:]
		case area[0] < 255:
			if len(area) < 2 {
				return errors.New("subpacket length truncated")
			}
			l = (int(area[0])-192)<<8 + int(area[1]) + 192
			area = area[2:]
		default:
			if len(area) < 5 {
				return errors.New("subpacket length truncated")
			}
			l = int(be(area[1:5]))
			area = area[5:]
		}
		if l < 1 || l > len(area) {
			return errors.New("subpacket overruns its area")
		}
		typ := int(area[0] & 0x7f)
		val := area[1:l]
		area = area[l:]
		switch typ {
		case 2:
			if len(val) == 4 {
				si.Created = uint32(be(val))
				si.HasCreated = true
			}
		case 16:
			if len(val) == 8 && !si.HasIssuer {
				si.Issuer = be(val)
				si.HasIssuer = true
				si.IssuerHashed = hashed
			}
		}
	}
	return nil
}

// Classify walks msg and labels every octet.
func Classify(msg []byte) (*Layout, error) {
	pkts, err := Walk(msg)
	if err != nil {
		return nil, err
	}
	ly := &Layout{Pkts: pkts, Labels: make([]string, len(msg)), CompAlgo: -1}
	for _, p := range pkts {
		ly.Tags = append(ly.Tags, p.Tag)
		for _, o := range p.Hdr {
			ly.Labels[o] = LFraming
		}
		set := func(from, to int, l string) {
			for i := from; i < to && i < len(p.Off); i++ {
				ly.Labels[p.Off[i]] = l
			}
		}
		n := len(p.Body)
		switch p.Tag {
		case 1:
			set(0, n, LPKESK)
			if n >= 10 {
				ly.PKESKKey = append(ly.PKESKKey, be(p.Body[1:9]))
				ly.PKESKAlgo = append(ly.PKESKAlgo, int(p.Body[9]))
			}
		case 3:
			set(0, n, LSKESK)
			if n >= 4 {
				k := SKESKInfo{Version: int(p.Body[0]), Cipher: int(p.Body[1]), S2KMode: int(p.Body[2]), S2KHash: int(p.Body[3])}
				s2klen := map[int]int{0: 2, 1: 10, 3: 11}[k.S2KMode]
				k.HasESK = s2klen > 0 && n > 2+s2klen
				ly.SKESK = append(ly.SKESK, k)
			}
		case 18:
			ly.HasSEIPD = true
			set(0, 1, LSEIPDVer)
			set(1, n, LSEIPDData)
		case 9:
			ly.HasSE = true
			set(0, n, LSEData)
		case 4:
			set(0, n, LOPS)
			if n == 13 {
				ly.OPS = append(ly.OPS, OPSInfo{Version: int(p.Body[0]), SigType: int(p.Body[1]), Hash: int(p.Body[2]), PKAlgo: int(p.Body[3]), KeyID: be(p.Body[4:12]), Last: int(p.Body[12])})
			}
		case 8:
			set(0, 1, LCompAlgo)
			set(1, n, LCompData)
			if n >= 1 {
				ly.CompAlgo = int(p.Body[0])
			}
		case 11:
			if n < 6 || 2+int(p.Body[1])+4 > n {
				return nil, errors.New("literal packet too short")
			}
			m := 2 + int(p.Body[1]) + 4
			set(0, m, LLitMeta)
			set(m, n, LLitBody)
			ly.HasLit = true
			ly.LitFormat = p.Body[0]
			ly.LitName = string(p.Body[2 : 2+int(p.Body[1])])
			ly.LitDate = uint32(be(p.Body[m-4 : m]))
			ly.LitBody = p.Body[m:]
		case 2:
			si, ok := classifySig(p, set)
			if !ok {
				set(0, n, LSigOther)
			}
			ly.Sigs = append(ly.Sigs, si)
		default:
			set(0, n, LOther)
		}
	}
	for i, l := range ly.Labels {
		if l == "" {
			return nil, fmt.Errorf("octet %d not labelled", i)
		}
	}
	return ly, nil
}

func classifySig(p Pkt, set func(from, to int, l string)) (SigInfo, bool) {
	b := p.Body
	n := len(b)
	var si SigInfo
	if n < 1 {
		return si, false
	}
	si.Version = int(b[0])
	if b[0] != 4 || n < 6 {
		return si, false
	}
	si.SigType, si.PKAlgo, si.Hash = int(b[1]), int(b[2]), int(b[3])
	hl := int(be(b[4:6]))
	if 6+hl+2 > n {
		return si, false
	}
	if subpackets(b[6:6+hl], true, &si) != nil {
		return si, false
	}
	ul := int(be(b[6+hl : 8+hl]))
	pos := 8 + hl
	if pos+ul+2 > n {
		return si, false
	}
	if subpackets(b[pos:pos+ul], false, &si) != nil {
		return si, false
	}
	want := map[int]int{1: 1, 3: 1, 17: 2, 19: 2, 22: 2}[si.PKAlgo]
	if want == 0 {
		return si, false
	}
	// walk the MPIs first; label only if everything is consistent
	type span struct{ a, b int }
	var lens, vals []span
	q := pos + ul + 2
	for i := 0; i < want; i++ {
		if q+2 > n {
			return si, false
		}
		bits := int(be(b[q : q+2]))
		nb := (bits + 7) / 8
		if q+2+nb > n {
			return si, false
		}
		lens = append(lens, span{q, q + 2})
		vals = append(vals, span{q + 2, q + 2 + nb})
		q += 2 + nb
	}
	if q != n {
		return si, false
	}
	si.NMPI = want
	set(0, 6+hl, LSigHashed)
	set(6+hl, pos+ul, LSigUnhashed)
	set(pos+ul, pos+ul+2, LSigHashTag)
	for _, s := range lens {
		set(s.a, s.b, LSigMPILen)
	}
	for _, s := range vals {
		set(s.a, s.b, LSigMPI)
	}
	return si, true
}

// RSASecret holds the algorithm-specific fields of an unprotected v4 RSA
// secret-key packet (RFC 4880 §5.5.2, §5.5.3): n, e, then d, p, q, u.
type RSASecret struct {
	N, E, D, P, Q, U *big.Int
}

// ParseRSASecretKey parses the body of a tag 5 / tag 7 packet holding an
// unprotected (S2K usage 0) version 4 RSA key and verifies the 16-bit checksum.
func ParseRSASecretKey(body []byte) (*RSASecret, error) {
	if len(body) < 6 || body[0] != 4 {
		return nil, errors.New("not a v4 key packet")
	}
	if body[5] != 1 && body[5] != 2 && body[5] != 3 {
		return nil, errors.New("not an RSA key")
	}
	pos := 6
	mpi := func() (*big.Int, error) {
		if pos+2 > len(body) {
			return nil, errors.New("truncated MPI")
		}
		bits := int(body[pos])<<8 | int(body[pos+1])
		nb := (bits + 7) / 8
		if pos+2+nb > len(body) {
			return nil, errors.New("truncated MPI")
		}
		v := new(big.Int).SetBytes(body[pos+2 : pos+2+nb])
		pos += 2 + nb
		return v, nil
	}
	k := &RSASecret{}
	var err error
	if k.N, err = mpi(); err != nil {
		return nil, err
	}
	if k.E, err = mpi(); err != nil {
		return nil, err
	}
	if pos >= len(body) || body[pos] != 0 {
		return nil, errors.New("secret part is protected or missing")
	}
	pos++
	start := pos
	for _, dst := range []**big.Int{&k.D, &k.P, &k.Q, &k.U} {
		if *dst, err = mpi(); err != nil {
			return nil, err
		}
	}
	if pos+2 != len(body) {
		return nil, errors.New("unexpected octets after the secret MPIs")
	}
	sum := 0
	for _, b := range body[start:pos] {
		sum = (sum + int(b)) & 0xffff
	}
	if sum != int(body[pos])<<8|int(body[pos+1]) {
		return nil, errors.New("secret key checksum mismatch")
	}
	return k, nil
}

// Check reports the §5.5.3 requirements that do not hold: n = p*q, p < q,
// u = p^-1 mod q, e*d = 1 mod lcm(p-1, q-1).
func (k *RSASecret) Check() []string {
	var bad []string
	if new(big.Int).Mul(k.P, k.Q).Cmp(k.N) != 0 {
		bad = append(bad, "n != p*q")
	}
	if k.P.Cmp(k.Q) >= 0 {
		bad = append(bad, "p >= q")
	}
	if inv := new(big.Int).ModInverse(k.P, k.Q); inv == nil || inv.Cmp(k.U) != 0 {
		bad = append(bad, "u != p^-1 mod q")
	}
	one := big.NewInt(1)
	p1, q1 := new(big.Int).Sub(k.P, one), new(big.Int).Sub(k.Q, one)
	g := new(big.Int).GCD(nil, nil, p1, q1)
	lcm := new(big.Int).Div(new(big.Int).Mul(p1, q1), g)
	if ed := new(big.Int).Mod(new(big.Int).Mul(k.E, k.D), lcm); ed.Cmp(one) != 0 {
		bad = append(bad, "e*d != 1 mod lcm(p-1,q-1)")
	}
	return bad
}

// SigParts splits the body of a version 4 signature packet (§5.2.3) into what
// an independent verifier needs: the hashed prefix (version .. end of hashed
// subpackets), the §5.2.4 trailer to append after it, the left 16 bits of the
// digest, and the signature MPIs.
type SigParts struct {
	SigType, PKAlgo, Hash int
	HashedPrefix          []byte
	Trailer               []byte // 0x04 0xFF + four-octet big-endian len(HashedPrefix)
	HashTag               [2]byte
	MPIs                  []*big.Int
}

// ParseSigV4 parses a v4 signature packet body.
func ParseSigV4(b []byte) (*SigParts, error) {
	if len(b) < 6 || b[0] != 4 {
		return nil, errors.New("not a v4 signature")
	}
	hl := int(be(b[4:6]))
	if 6+hl+2 > len(b) {
		return nil, errors.New("hashed area overruns the packet")
	}
	p := &SigParts{SigType: int(b[1]), PKAlgo: int(b[2]), Hash: int(b[3])}
	p.HashedPrefix = append([]byte(nil), b[:6+hl]...)
	n := len(p.HashedPrefix)
	p.Trailer = []byte{4, 0xff, byte(n >> 24), byte(n >> 16), byte(n >> 8), byte(n)}
	ul := int(be(b[6+hl : 8+hl]))
	pos := 8 + hl + ul
	if pos+2 > len(b) {
		return nil, errors.New("unhashed area overruns the packet")
	}
	copy(p.HashTag[:], b[pos:pos+2])
	pos += 2
	for pos < len(b) {
		if pos+2 > len(b) {
			return nil, errors.New("truncated MPI")
		}
		nb := (int(be(b[pos:pos+2])) + 7) / 8
		if pos+2+nb > len(b) {
			return nil, errors.New("truncated MPI")
		}
		p.MPIs = append(p.MPIs, new(big.Int).SetBytes(b[pos+2:pos+2+nb]))
		pos += 2 + nb
	}
	return p, nil
}

// CanonicalText is RFC 4880 §5.2.1 for a text whose every CR is the first half
// of a CRLF pair: each line ending (LF or CRLF) becomes CRLF. ok is false if
// the text has a CR elsewhere (the RFC does not say what it is then).
func CanonicalText(text []byte) (canon []byte, ok bool) {
	ok = true
	for i, c := range text {
		switch c {
		case '\r':
			if i+1 >= len(text) || text[i+1] != '\n' {
				ok = false
			}
			canon = append(canon, c)
		case '\n':
			if i == 0 || text[i-1] != '\r' {
				canon = append(canon, '\r')
			}
			canon = append(canon, c)
		default:
			canon = append(canon, c)
		}
	}
	return canon, ok
}

package pgpfmt

import (
	"bytes"
	"errors"
)

// Cleartext is the §7.1 model of a message handed to a cleartext signer.
type Cleartext struct {
	Lines  [][]byte // lines with trailing whitespace removed
	Signed []byte   // what is hashed: lines joined by <CR><LF>, no final line ending
	Plain  []byte   // what a reader gets back: every line followed by LF
	// Ambiguous is set when the text contains a CR that is not the first half
	// of a <CR><LF> line ending; RFC 4880 does not say whether such a CR is
	// data, whitespace or a line ending, so exact expectations are withheld.
	Ambiguous bool
}

func trimTrailingWS(l []byte, alsoCR bool) []byte {
	for len(l) > 0 {
		c := l[len(l)-1]
		if c == ' ' || c == '\t' || (alsoCR && c == '\r') {
			l = l[:len(l)-1]
			continue
		}
		break
	}
	return l
}

// ModelCleartext computes the model for text. A text that does not end in LF
// has a final unterminated line (which is a line if it is not empty).
func ModelCleartext(text []byte) *Cleartext {
	c := &Cleartext{}
	rest := text
	for len(rest) > 0 {
		var line []byte
		i := bytes.IndexByte(rest, '\n')
		if i < 0 {
			line, rest = rest, nil
		} else {
			line, rest = rest[:i], rest[i+1:]
			if n := len(line); n > 0 && line[n-1] == '\r' {
				line = line[:n-1] // the CR of the CRLF line ending
			}
		}
		if bytes.IndexByte(line, '\r') >= 0 {
			c.Ambiguous = true
		}
		// "trailing whitespace (spaces and tabs) at the end of any line is removed"
		line = trimTrailingWS(line, true)
		c.Lines = append(c.Lines, append([]byte(nil), line...))
	}
	c.Signed = bytes.Join(c.Lines, []byte("\r\n"))
	for _, l := range c.Lines {
		c.Plain = append(c.Plain, l...)
		c.Plain = append(c.Plain, '\n')
	}
	return c
}

// Squash is the coarse form of a text that is the same before and after
// canonicalisation under every reading of §7.1 that takes LF as the line
// separator: per line every CR, space and tab is removed and the line is
// followed by LF; an unterminated last line counts if it has any octet.
func Squash(text []byte) []byte {
	var out []byte
	rest := text
	for len(rest) > 0 {
		var line []byte
		i := bytes.IndexByte(rest, '\n')
		if i < 0 {
			line, rest = rest, nil
		} else {
			line, rest = rest[:i], rest[i+1:]
		}
		for _, b := range line {
			if b == '\r' || b == ' ' || b == '\t' {
				continue
			}
			out = append(out, b)
		}
		out = append(out, '\n')
	}
	return out
}

// CleartextMsg is a parsed §7 cleartext signature framework.
type CleartextMsg struct {
	HeaderLines []string // armor header lines between the BEGIN line and the empty line
	RawLines    [][]byte // dash-escaped cleartext lines as they appear (line endings removed)
	SigOffset   int      // offset of "-----BEGIN PGP SIGNATURE-----"
	// EscapeErrors counts cleartext lines that begin with '-' but not with "- "
	// (§7.1: such lines MUST be dash-escaped).
	EscapeErrors int
}

// ParseCleartext parses a framework that starts at the beginning of text.
func ParseCleartext(text []byte) (*CleartextMsg, error) {
	s := &lineScanner{text: text}
	line, _, ok := s.next()
	if !ok || string(line) != "-----BEGIN PGP SIGNED MESSAGE-----" {
		return nil, errors.New("no cleartext header line")
	}
	m := &CleartextMsg{}
	for {
		line, _, ok = s.next()
		if !ok {
			return nil, errors.New("unterminated armor headers")
		}
		if len(line) == 0 {
			break
		}
		m.HeaderLines = append(m.HeaderLines, string(line))
	}
	for {
		var off int
		line, off, ok = s.next()
		if !ok {
			return nil, errors.New("no signature block")
		}
		if string(line) == "-----BEGIN PGP SIGNATURE-----" {
			m.SigOffset = off
			return m, nil
		}
		if len(line) > 0 && line[0] == '-' && !bytes.HasPrefix(line, []byte("- ")) {
			m.EscapeErrors++
		}
		m.RawLines = append(m.RawLines, append([]byte(nil), line...))
	}
}

// Unescaped returns the reader-side view: dash escapes removed, trailing
// whitespace removed, as Signed/Plain like ModelCleartext.
func (m *CleartextMsg) Unescaped() *Cleartext {
	c := &Cleartext{}
	for _, l := range m.RawLines {
		if bytes.HasPrefix(l, []byte("- ")) {
			l = l[2:]
		}
		if bytes.IndexByte(l, '\r') >= 0 {
			c.Ambiguous = true
		}
		l = trimTrailingWS(l, true)
		c.Lines = append(c.Lines, l)
	}
	c.Signed = bytes.Join(c.Lines, []byte("\r\n"))
	for _, l := range c.Lines {
		c.Plain = append(c.Plain, l...)
		c.Plain = append(c.Plain, '\n')
	}
	return c
}

// Package pkcs12kdf is an executable specification of the key derivation of
// RFC 7292 Appendix B.2 (with SHA-1: u = 20, v = 64 octets) and of the
// BMPString password formatting of Appendix B.1, written from the RFC text
// with explicit octet arithmetic. It shares no code with
// golang.org/x/crypto/pkcs12.
package pkcs12kdf

import (
	"crypto/sha1"
	"errors"
)

// Purpose bytes ("ID") of Appendix B.3.
const (
	IDKey = 1
	IDIV  = 2
	IDMAC = 3
)

const (
	u = 20 // SHA-1 output octets
	v = 64 // SHA-1 block octets
)

// extend is steps 2 and 3: copies of s concatenated to length v·⌈len(s)/v⌉
// (last copy truncated); empty stays empty.
func extend(s []byte) []byte {
	if len(s) == 0 {
		return nil
	}
	n := v * ((len(s) + v - 1) / v)
	out := make([]byte, n)
	for i := range out {
		out[i] = s[i%len(s)]
	}
	return out
}

// SHA1 derives n octets for purpose id from the (already BMP-formatted)
// password, salt and iteration count r >= 1.
func SHA1(id byte, password, salt []byte, r, n int) []byte {
	return SHA1Trace(id, password, salt, r, n, nil)
}

// SHA1Trace is SHA1 with an observer for step 6.C: after every block update
// it reports the round (1-based), the block index, how many leading zero
// octets the updated block has and whether the addition carried out of the
// block (mod 2^(8v) took effect). The observer sees every round, including the
// update after the last A_i (which cannot influence the output). Harnesses use
// it to pick (password, salt) pairs whose blocks hit the short-number and
// wrap-around cases of implementations that do 6.C with bignums.
func SHA1Trace(id byte, password, salt []byte, r, n int, on func(round, block, leadingZeros int, carryOut bool)) []byte {
	// 1. D = v copies of ID
	D := make([]byte, v)
	for i := range D {
		D[i] = id
	}
	// 2-4. I = S ‖ P
	I := append(extend(salt), extend(password)...)
	// 5. c = ⌈n/u⌉
	c := (n + u - 1) / u
	var A []byte
	for i := 1; i <= c; i++ {
		// 6.A  A_i = H^r(D ‖ I)
		x := sha1.Sum(append(append([]byte{}, D...), I...))
		for k := 1; k < r; k++ {
			x = sha1.Sum(x[:])
		}
		A = append(A, x[:]...)
		// 6.B  B = copies of A_i to v octets
		B := make([]byte, v)
		for k := range B {
			B[k] = x[k%u]
		}
		// 6.C  I_j = (I_j + B + 1) mod 2^(8v), each v-octet block a big-endian number
		for j := 0; j+v <= len(I); j += v {
			carry := 1
			for k := v - 1; k >= 0; k-- {
				s := int(I[j+k]) + int(B[k]) + carry
				I[j+k] = byte(s)
				carry = s >> 8
			}
			if on != nil {
				z := 0
				for z < v && I[j+z] == 0 {
					z++
				}
				on(i, j/v, z, carry != 0)
			}
		}
	}
	return A[:n]
}

// ErrNotBMP is returned by BMP for code points beyond U+FFFF.
var ErrNotBMP = errors.New("pkcs12kdf: code point outside the Basic Multilingual Plane")

// BMP is Appendix B.1: each character as 2 octets big-endian, followed by a
// 2-octet NULL terminator. Takes code points.
func BMP(runes []rune) ([]byte, error) {
	out := make([]byte, 0, 2*len(runes)+2)
	for _, c := range runes {
		if c > 0xffff || c < 0 {
			return nil, ErrNotBMP
		}
		out = append(out, byte(c>>8), byte(c))
	}
	return append(out, 0, 0), nil
}

package pkcs12kdf

import (
	"bytes"
	"encoding/hex"
	"fmt"
	"os/exec"
	"strings"
	"testing"
)

func opensslKDF(t *testing.T, id byte, pw, salt []byte, iter, n int) []byte {
	out, err := exec.Command("openssl", "kdf", "-keylen", fmt.Sprint(n), "-kdfopt", "digest:SHA1",
		"-kdfopt", "hexpass:"+hex.EncodeToString(pw), "-kdfopt", "hexsalt:"+hex.EncodeToString(salt),
		"-kdfopt", fmt.Sprint("iter:", iter), "-kdfopt", fmt.Sprint("id:", id), "PKCS12KDF").Output()
	if err != nil {
		t.Fatalf("openssl kdf: %v", err)
	}
	b, err := hex.DecodeString(strings.ReplaceAll(strings.TrimSpace(string(out)), ":", ""))
	if err != nil {
		t.Fatalf("openssl kdf output %q", out)
	}
	return b
}

// OpenSSL 3's PKCS12KDF provider is the witness for the reference.
func TestAgainstOpenSSL(t *testing.T) {
	if _, err := exec.LookPath("openssl"); err != nil {
		t.Skip("no openssl")
	}
	fill := func(n int, seed byte) []byte {
		b := make([]byte, n)
		for i := range b {
			b[i] = seed + byte(i*7)
		}
		return b
	}
	n := 0
	for _, pl := range []int{0, 2, 64, 130} {
		for _, sl := range []int{8, 64, 65} {
			for _, it := range []int{1, 50} {
				for _, c := range []struct {
					id byte
					n  int
				}{{1, 24}, {2, 8}, {3, 20}, {1, 61}} {
					pw, salt := fill(pl, byte(pl)), fill(sl, 0x80+byte(sl))
					// 0xff-heavy inputs make the +B+1 carries ripple
					if (pl+sl+it)%3 == 0 {
						pw = bytes.Repeat([]byte{0xff}, pl)
						salt = bytes.Repeat([]byte{0xff}, sl)
					}
					want := opensslKDF(t, c.id, pw, salt, it, c.n)
					got := SHA1(c.id, pw, salt, it, c.n)
					n++
					if !bytes.Equal(got, want) {
						t.Errorf("id %d pl %d sl %d it %d n %d: got %x want %x", c.id, pl, sl, it, c.n, got, want)
					}
				}
			}
		}
	}
	t.Logf("%d comparisons", n)
}

func TestBMP(t *testing.T) {
	b, err := BMP([]rune("Beavis"))
	if err != nil || hex.EncodeToString(b) != "004200650061007600690073"+"0000" {
		t.Errorf("%x %v", b, err) // the example of RFC 7292 B.1
	}
	if b, _ := BMP(nil); !bytes.Equal(b, []byte{0, 0}) {
		t.Errorf("empty: %x", b)
	}
	if b, _ := BMP([]rune("é密")); hex.EncodeToString(b) != "00e95bc60000" {
		t.Errorf("%x", b)
	}
	if _, err := BMP([]rune("😀")); err == nil {
		t.Errorf("non-BMP accepted")
	}
}

// Package kdfref holds executable specifications of HMAC (RFC 2104), PBKDF2
// (RFC 8018 §5.2) and HKDF (RFC 5869), written directly from the RFC texts
// over a hash.Hash constructor. It uses neither golang.org/x/crypto nor the
// standard library's crypto/hmac, crypto/pbkdf2 or crypto/hkdf (which the
// x/crypto packages under test wrap).
package kdfref

import "hash"

// HMAC is RFC 2104: H((K' ^ opad) ‖ H((K' ^ ipad) ‖ text)).
func HMAC(h func() hash.Hash, key []byte, parts ...[]byte) []byte {
	d := h()
	bs := d.BlockSize()
	k := make([]byte, bs)
	if len(key) > bs {
		d.Write(key)
		copy(k, d.Sum(nil))
		d.Reset()
	} else {
		copy(k, key)
	}
	ipad := make([]byte, bs)
	opad := make([]byte, bs)
	for i := range k {
		ipad[i] = k[i] ^ 0x36
		opad[i] = k[i] ^ 0x5c
	}
	d.Write(ipad)
	for _, p := range parts {
		d.Write(p)
	}
	inner := d.Sum(nil)
	d.Reset()
	d.Write(opad)
	d.Write(inner)
	return d.Sum(nil)
}

// PBKDF2 is RFC 8018 §5.2: DK = T_1 ‖ T_2 ‖ … with
// T_i = U_1 ^ … ^ U_c, U_1 = PRF(P, S ‖ INT(i)), U_j = PRF(P, U_{j-1}).
func PBKDF2(h func() hash.Hash, password, salt []byte, iter, dkLen int) []byte {
	if iter < 1 || dkLen < 1 {
		panic("kdfref: PBKDF2 needs iter >= 1 and dkLen >= 1")
	}
	hLen := h().Size()
	l := (dkLen + hLen - 1) / hLen
	var dk []byte
	for i := 1; i <= l; i++ {
		idx := []byte{byte(i >> 24), byte(i >> 16), byte(i >> 8), byte(i)}
		u := HMAC(h, password, salt, idx)
		t := append([]byte(nil), u...)
		for j := 2; j <= iter; j++ {
			u = HMAC(h, password, u)
			for k := range t {
				t[k] ^= u[k]
			}
		}
		dk = append(dk, t...)
	}
	return dk[:dkLen]
}

// HKDFExtract is RFC 5869 §2.2: PRK = HMAC-Hash(salt, IKM); an absent salt
// is HashLen zero bytes.
func HKDFExtract(h func() hash.Hash, ikm, salt []byte) []byte {
	if len(salt) == 0 {
		salt = make([]byte, h().Size())
	}
	return HMAC(h, salt, ikm)
}

// HKDFExpand is RFC 5869 §2.3: T(0) = "", T(i) = HMAC(PRK, T(i-1) ‖ info ‖ i),
// OKM = first L bytes of T(1) ‖ T(2) ‖ …; L ≤ 255·HashLen.
func HKDFExpand(h func() hash.Hash, prk, info []byte, length int) []byte {
	hLen := h().Size()
	if length < 0 || length > 255*hLen {
		panic("kdfref: HKDF length out of range")
	}
	var okm, t []byte
	for i := 1; len(okm) < length; i++ {
		t = HMAC(h, prk, t, info, []byte{byte(i)})
		okm = append(okm, t...)
	}
	return okm[:length]
}

// HKDFLimit is the number of output bytes RFC 5869 allows.
func HKDFLimit(h func() hash.Hash) int { return 255 * h().Size() }

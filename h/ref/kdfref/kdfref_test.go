package kdfref

import (
	"bytes"
	"crypto/hmac"
	"crypto/sha1"
	"crypto/sha256"
	"crypto/sha512"
	"encoding/hex"
	"hash"
	"testing"
)

func unhex(s string) []byte {
	b, err := hex.DecodeString(s)
	if err != nil {
		panic(err)
	}
	return b
}

func TestHMAC(t *testing.T) {
	// RFC 2202 test case 2 (HMAC-SHA-1) and RFC 4231 test case 2 (HMAC-SHA-256)
	if got := hex.EncodeToString(HMAC(sha1.New, []byte("Jefe"), []byte("what do ya want "), []byte("for nothing?"))); got != "effcdf6ae5eb2fa2d27416d5f184df9c259a7c79" {
		t.Errorf("sha1: %s", got)
	}
	if got := hex.EncodeToString(HMAC(sha256.New, []byte("Jefe"), []byte("what do ya want for nothing?"))); got != "5bdcc146bf60754e6a042426089575c75a003f089d2739839dec58b964ec3843" {
		t.Errorf("sha256: %s", got)
	}
	// long keys (> block size) and all lengths against crypto/hmac (test-only cross-check)
	for _, h := range []func() hash.Hash{sha1.New, sha256.New, sha512.New} {
		for kl := 0; kl < 300; kl += 7 {
			key := bytes.Repeat([]byte{byte(kl)}, kl)
			m := hmac.New(h, key)
			m.Write([]byte("message"))
			if !bytes.Equal(m.Sum(nil), HMAC(h, key, []byte("mess"), []byte("age"))) {
				t.Fatalf("hmac mismatch keylen %d", kl)
			}
		}
	}
}

func TestPBKDF2(t *testing.T) {
	// RFC 6070 (HMAC-SHA-1)
	for _, v := range []struct {
		p, s string
		c, l int
		want string
	}{
		{"password", "salt", 1, 20, "0c60c80f961f0e71f3a9b524af6012062fe037a6"},
		{"password", "salt", 2, 20, "ea6c014dc72d6f8ccd1ed92ace1d41f0d8de8957"},
		{"password", "salt", 4096, 20, "4b007901b765489abead49d926f721d065a429c1"},
		{"passwordPASSWORDpassword", "saltSALTsaltSALTsaltSALTsaltSALTsalt", 4096, 25, "3d2eec4fe41c849b80c8d83662c0e44a8b291a964cf2f07038"},
		{"pass\x00word", "sa\x00lt", 4096, 16, "56fa6aa75548099dcc37d7f03425e0c3"},
	} {
		if got := hex.EncodeToString(PBKDF2(sha1.New, []byte(v.p), []byte(v.s), v.c, v.l)); got != v.want {
			t.Errorf("%q/%q/%d: %s", v.p, v.s, v.c, got)
		}
	}
	// RFC 7914 §11 (HMAC-SHA-256)
	if got := hex.EncodeToString(PBKDF2(sha256.New, []byte("passwd"), []byte("salt"), 1, 64)); got != "55ac046e56e3089fec1691c22544b605f94185216dde0465e68b9d57c20dacbc49ca9cccf179b645991664b39d77ef317c71b845b1e30bd509112041d3a19783" {
		t.Errorf("sha256: %s", got)
	}
	if got := hex.EncodeToString(PBKDF2(sha256.New, []byte("Password"), []byte("NaCl"), 80000, 64)); got != "4ddcd8f60b98be21830cee5ef22701f9641a4418d04c0414aeff08876b34ab56a1d425a1225833549adb841b51c9b3176a272bdebba1d078478f62b397f33c8d" {
		t.Errorf("sha256 80000: %s", got)
	}
}

func TestHKDF(t *testing.T) {
	// RFC 5869 Appendix A.1, A.2, A.3 (SHA-256), A.4, A.6, A.7 (SHA-1)
	for _, v := range []struct {
		h                         func() hash.Hash
		ikm, salt, info, prk, okm string
	}{
		{sha256.New, "0b0b0b0b0b0b0b0b0b0b0b0b0b0b0b0b0b0b0b0b0b0b", "000102030405060708090a0b0c", "f0f1f2f3f4f5f6f7f8f9",
			"077709362c2e32df0ddc3f0dc47bba6390b6c73bb50f9c3122ec844ad7c2b3e5",
			"3cb25f25faacd57a90434f64d0362f2a2d2d0a90cf1a5a4c5db02d56ecc4c5bf34007208d5b887185865"},
		{sha256.New,
			"000102030405060708090a0b0c0d0e0f101112131415161718191a1b1c1d1e1f202122232425262728292a2b2c2d2e2f303132333435363738393a3b3c3d3e3f404142434445464748494a4b4c4d4e4f",
			"606162636465666768696a6b6c6d6e6f707172737475767778797a7b7c7d7e7f808182838485868788898a8b8c8d8e8f909192939495969798999a9b9c9d9e9fa0a1a2a3a4a5a6a7a8a9aaabacadaeaf",
			"b0b1b2b3b4b5b6b7b8b9babbbcbdbebfc0c1c2c3c4c5c6c7c8c9cacbcccdcecfd0d1d2d3d4d5d6d7d8d9dadbdcdddedfe0e1e2e3e4e5e6e7e8e9eaebecedeeeff0f1f2f3f4f5f6f7f8f9fafbfcfdfeff",
			"06a6b88c5853361a06104c9ceb35b45cef760014904671014a193f40c15fc244",
			"b11e398dc80327a1c8e7f78c596a49344f012eda2d4efad8a050cc4c19afa97c59045a99cac7827271cb41c65e590e09da3275600c2f09b8367793a9aca3db71cc30c58179ec3e87c14c01d5c1f3434f1d87"},
		{sha256.New, "0b0b0b0b0b0b0b0b0b0b0b0b0b0b0b0b0b0b0b0b0b0b", "", "",
			"19ef24a32c717b167f33a91d6f648bdf96596776afdb6377ac434c1c293ccb04",
			"8da4e775a563c18f715f802a063c5a31b8a11f5c5ee1879ec3454e5f3c738d2d9d201395faa4b61a96c8"},
		{sha1.New, "0b0b0b0b0b0b0b0b0b0b0b", "000102030405060708090a0b0c", "f0f1f2f3f4f5f6f7f8f9",
			"9b6c18c432a7bf8f0e71c8eb88f4b30baa2ba243",
			"085a01ea1b10f36933068b56efa5ad81a4f14b822f5b091568a9cdd4f155fda2c22e422478d305f3f896"},
		{sha1.New, "0b0b0b0b0b0b0b0b0b0b0b0b0b0b0b0b0b0b0b0b0b0b", "", "",
			"da8c8a73c7fa77288ec6f5e7c297786aa0d32d01",
			"0ac1af7002b3d761d1e55298da9d0506b9ae52057220a306e07b6b87e8df21d0ea00033de03984d34918"},
		{sha1.New, "0c0c0c0c0c0c0c0c0c0c0c0c0c0c0c0c0c0c0c0c0c0c", "", "",
			"2adccada18779e7c2077ad2eb19d3f3e731385dd",
			"2c91117204d745f3500d636a62f64f0ab3bae548aa53d423b0d1f27ebba6f5e5673a081d70cce7acfc48"},
	} {
		prk := HKDFExtract(v.h, unhex(v.ikm), unhex(v.salt))
		if hex.EncodeToString(prk) != v.prk {
			t.Errorf("prk %x want %s", prk, v.prk)
		}
		okm := HKDFExpand(v.h, prk, unhex(v.info), len(v.okm)/2)
		if hex.EncodeToString(okm) != v.okm {
			t.Errorf("okm %x want %s", okm, v.okm)
		}
	}
	// full-length stream: 255 blocks, last block counter 0xff
	full := HKDFExpand(sha1.New, []byte("prk"), []byte("info"), 255*20)
	if len(full) != 5100 {
		t.Fatal("length")
	}
}

// Package xtsref is an executable specification of XTS-AES (IEEE Std
// 1619-2007 §5.3) without ciphertext stealing:
//
//	T_0   = AES-Enc(Key2, sector number as a 128-bit little-endian integer)
//	T_j+1 = T_j ⊗ α  in GF(2^128) mod x^128+x^7+x^2+x+1 (byte 0 is least significant)
//	C_j   = AES-Enc(Key1, P_j ⊕ T_j) ⊕ T_j
//
// The field multiplication is done on a math/big integer (shift, reduce by
// the polynomial), not with byte carries. AES comes from crypto/aes (AES is
// not under test). No code is shared with golang.org/x/crypto/xts.
package xtsref

import (
	"crypto/aes"
	"errors"
	"math/big"
)

var poly = func() *big.Int {
	p := new(big.Int).Lsh(big.NewInt(1), 128)
	return p.Or(p, big.NewInt(0x87)) // x^128 + x^7 + x^2 + x + 1
}()

// tweakToInt interprets 16 bytes as a little-endian polynomial (byte 0 = x^0..x^7).
func tweakToInt(t []byte) *big.Int {
	be := make([]byte, 16)
	for i := range t {
		be[15-i] = t[i]
	}
	return new(big.Int).SetBytes(be)
}

func intToTweak(v *big.Int) []byte {
	be := v.FillBytes(make([]byte, 16))
	out := make([]byte, 16)
	for i := range be {
		out[15-i] = be[i]
	}
	return out
}

// MulAlpha multiplies the tweak by α = x.
func MulAlpha(t []byte) []byte {
	v := tweakToInt(t)
	v.Lsh(v, 1)
	if v.Bit(128) == 1 {
		v.Xor(v, poly)
	}
	return intToTweak(v)
}

// SectorTweak encodes a 64-bit sector number as the 16-byte little-endian data unit number.
func SectorTweak(sector uint64) []byte {
	t := make([]byte, 16)
	for i := 0; i < 8; i++ {
		t[i] = byte(sector >> (8 * i))
	}
	return t
}

// Crypt runs XTS-AES over in (length a positive multiple of 16) with
// key = Key1||Key2 (each half an AES key) and a 16-byte tweak value
// (the data unit number, not yet encrypted).
func Crypt(enc bool, key, tweak, in []byte) ([]byte, error) {
	out, _, err := CryptStats(enc, key, tweak, in)
	return out, err
}

// CryptStats is Crypt and additionally reports in how many block transitions
// the multiplication by α overflowed x^128 (the 0x87 reduction was applied).
func CryptStats(enc bool, key, tweak, in []byte) ([]byte, int, error) {
	if len(key)%2 != 0 {
		return nil, 0, errors.New("xtsref: odd key length")
	}
	k1, err := aes.NewCipher(key[:len(key)/2])
	if err != nil {
		return nil, 0, err
	}
	k2, err := aes.NewCipher(key[len(key)/2:])
	if err != nil {
		return nil, 0, err
	}
	return CryptWith(enc, k1, k2, tweak, in)
}

// Block is a 16-byte block cipher (the XTS construction is generic in it).
type Block interface {
	Encrypt(dst, src []byte)
	Decrypt(dst, src []byte)
}

// CryptWith is the XTS construction over arbitrary 16-byte block ciphers:
// k1 processes the data blocks, k2 encrypts the tweak.
func CryptWith(enc bool, k1, k2 Block, tweak, in []byte) ([]byte, int, error) {
	carries := 0
	if len(tweak) != 16 || len(in) == 0 || len(in)%16 != 0 {
		return nil, 0, errors.New("xtsref: bad length")
	}
	t := make([]byte, 16)
	k2.Encrypt(t, tweak)
	out := make([]byte, len(in))
	buf := make([]byte, 16)
	for off := 0; off < len(in); off += 16 {
		for j := 0; j < 16; j++ {
			buf[j] = in[off+j] ^ t[j]
		}
		if enc {
			k1.Encrypt(buf, buf)
		} else {
			k1.Decrypt(buf, buf)
		}
		for j := 0; j < 16; j++ {
			out[off+j] = buf[j] ^ t[j]
		}
		if t[15]&0x80 != 0 && off+16 < len(in) { // the reduced tweak is used by the next block
			carries++
		}
		t = MulAlpha(t)
	}
	return out, carries, nil
}

// Sector is Crypt with the tweak derived from a 64-bit sector number.
func Sector(enc bool, key []byte, sector uint64, in []byte) ([]byte, error) {
	return Crypt(enc, key, SectorTweak(sector), in)
}

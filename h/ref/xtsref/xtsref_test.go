package xtsref

import (
	"bytes"
	"encoding/hex"
	"math/rand/v2"
	"strings"
	"testing"

	"verif/clib/gcryptcipher"
	"verif/clib/nettlecipher"
)

func uh(s string) []byte {
	b, err := hex.DecodeString(s)
	if err != nil {
		panic(err)
	}
	return b
}

func seq512() []byte {
	b := make([]byte, 512)
	for i := range b {
		b[i] = byte(i)
	}
	return b
}

// IEEE Std 1619-2007 Annex B vectors (full 32-byte vectors; prefix of the 512-byte ones).
func TestIEEE1619(t *testing.T) {
	vecs := []struct {
		name   string
		key    string
		sector uint64
		pt     []byte
		ctPref string
	}{
		{"v1", strings.Repeat("00", 32), 0, make([]byte, 32),
			"917cf69ebd68b2ec9b9fe9a3eadda692cd43d2f59598ed858c02c2652fbf922e"},
		{"v2", strings.Repeat("11", 16) + strings.Repeat("22", 16), 0x3333333333, bytes.Repeat([]byte{0x44}, 32),
			"c454185e6a16936e39334038acef838bfb186fff7480adc4289382ecd6d394f0"},
		{"v3", "fffefdfcfbfaf9f8f7f6f5f4f3f2f1f0" + strings.Repeat("22", 16), 0x3333333333, bytes.Repeat([]byte{0x44}, 32),
			"af85336b597afc1a900b2eb21ec949d292df4c047e0b21532186a5971a227a89"},
		{"v4", "2718281828459045235360287471352631415926535897932384626433832795", 0, seq512(),
			"27a7479befa1d476489f308cd4cfa6e2a96e4bbe3208ff25287dd3819616e89c"},
		{"v10", "27182818284590452353602874713526624977572470936999595749669676273141592653589793238462643383279502884197169399375105820974944592", 0xff, seq512(),
			"1c3b3a102f770386e4836c99e370cf9bea00803f5e482357a4ae12d414a3e63b"},
	}
	for _, v := range vecs {
		ct, err := Sector(true, uh(v.key), v.sector, v.pt)
		if err != nil {
			t.Fatal(err)
		}
		want := uh(v.ctPref)
		if !bytes.Equal(ct[:len(want)], want) {
			t.Errorf("%s: got %x want %x", v.name, ct[:len(want)], want)
		}
		pt, _ := Sector(false, uh(v.key), v.sector, ct)
		if !bytes.Equal(pt, v.pt) {
			t.Errorf("%s: decrypt mismatch", v.name)
		}
	}
}

func TestMulAlphaCarry(t *testing.T) {
	in := make([]byte, 16)
	in[15] = 0x80
	out := MulAlpha(in)
	want := make([]byte, 16)
	want[0] = 0x87
	if !bytes.Equal(out, want) {
		t.Fatalf("got %x", out)
	}
	in = make([]byte, 16)
	in[0] = 0x80
	out = MulAlpha(in)
	want = make([]byte, 16)
	want[1] = 1
	if !bytes.Equal(out, want) {
		t.Fatalf("got %x", out)
	}
}

// ref vs libgcrypt and nettle over random keys/tweaks/lengths (full 128-bit tweaks).
func TestAgainstCLibs(t *testing.T) {
	r := rand.New(rand.NewPCG(3, 4))
	rb := func(n int) []byte {
		b := make([]byte, n)
		for i := range b {
			b[i] = byte(r.Uint32())
		}
		return b
	}
	ng, nn := 0, 0
	for it := 0; it < 600; it++ {
		klen := []int{32, 48, 64}[it%3]
		key := rb(klen)
		tw := rb(16)
		if it%5 == 0 {
			copy(tw[8:], make([]byte, 8))
		}
		in := rb(16 * (1 + r.IntN(64)))
		for _, enc := range []bool{true, false} {
			want, err := Crypt(enc, key, tw, in)
			if err != nil {
				t.Fatal(err)
			}
			if klen != 48 {
				g, err := gcryptcipher.XTS(enc, key, tw, in)
				if err != nil {
					t.Fatal(err)
				}
				ng++
				if !bytes.Equal(g, want) {
					t.Fatalf("libgcrypt differs klen=%d enc=%v", klen, enc)
				}
			}
			n, err := nettlecipher.XTS(enc, key, tw, in)
			if err != nil {
				t.Fatal(err)
			}
			nn++
			if !bytes.Equal(n, want) {
				t.Fatalf("nettle differs klen=%d enc=%v", klen, enc)
			}
		}
	}
	t.Logf("libgcrypt %d nettle %d", ng, nn)
}

// Package srcaddr is an executable reading of the documented semantics of the
// SSH "source-address" critical option (PROTOCOL.certkeys; doc comment of
// ssh.Permissions.CriticalOptions): the value is a comma-separated list of IP
// addresses and CIDR blocks; a remote address that is not an IP address never
// matches.
//
// It is written without net.ParseIP / net.ParseCIDR / net/netip (which the
// code under test uses). It is three-valued: forms whose meaning the
// documentation does not fix (IPv4-mapped IPv6 entries, zones, leading zeros,
// a malformed entry next to a matching one, ...) yield Ambiguous, so that the
// monitor built on it only alarms where every reading agrees.
package srcaddr

import "strings"

// Verdict is the three-valued result.
type Verdict int

const (
	NoMatch   Verdict = iota // every reading: the address is not allowed
	Match                    // every reading: the address is allowed
	Ambiguous                // readings differ
)

func (v Verdict) String() string {
	switch v {
	case NoMatch:
		return "nomatch"
	case Match:
		return "match"
	}
	return "ambiguous"
}

// Addr is a remote IP address in canonical form: 4 or 16 bytes.
type Addr []byte

// FromBytes canonicalises the byte form of an IP address as found in a
// net.TCPAddr: 4 bytes -> IPv4; 16 bytes with the ::ffff:0:0/96 prefix -> the
// embedded IPv4 address (it *is* that IPv4 host); other 16 bytes -> IPv6.
// Anything else is not an address (ok=false).
func FromBytes(b []byte) (Addr, bool) {
	switch len(b) {
	case 4:
		return Addr(append([]byte(nil), b...)), true
	case 16:
		mapped := true
		for i := 0; i < 10; i++ {
			if b[i] != 0 {
				mapped = false
			}
		}
		if mapped && b[10] == 0xff && b[11] == 0xff {
			return Addr(append([]byte(nil), b[12:]...)), true
		}
		return Addr(append([]byte(nil), b...)), true
	}
	return nil, false
}

type entryKind int

const (
	eMalformed entryKind = iota
	eExotic              // parses under some readings only, or has a meaning the doc does not fix
	eAddr
	eCIDR
)

type entry struct {
	kind entryKind
	ip   []byte // 4 or 16
	bits int
}

func parseDec(s string, max int) (int, bool, bool) { // value, ok, exotic(leading zero)
	if s == "" || len(s) > 3 {
		return 0, false, false
	}
	v := 0
	for _, c := range []byte(s) {
		if c < '0' || c > '9' {
			return 0, false, false
		}
		v = v*10 + int(c-'0')
	}
	if v > max {
		return 0, false, false
	}
	return v, true, len(s) > 1 && s[0] == '0'
}

// parseV4 parses dotted-quad. exotic: octets with leading zeros (octal vs
// decimal vs rejected, depending on the parser).
func parseV4(s string) (ip []byte, ok, exotic bool) {
	parts := strings.Split(s, ".")
	if len(parts) != 4 {
		return nil, false, false
	}
	ip = make([]byte, 4)
	for i, p := range parts {
		v, ok, ex := parseDec(p, 255)
		if !ok {
			return nil, false, false
		}
		exotic = exotic || ex
		ip[i] = byte(v)
	}
	return ip, true, exotic
}

func hexGroup(s string) (int, bool) {
	if s == "" || len(s) > 4 {
		return 0, false
	}
	v := 0
	for _, c := range []byte(s) {
		switch {
		case c >= '0' && c <= '9':
			v = v<<4 | int(c-'0')
		case c >= 'a' && c <= 'f':
			v = v<<4 | int(c-'a'+10)
		case c >= 'A' && c <= 'F':
			v = v<<4 | int(c-'A'+10)
		default:
			return 0, false
		}
	}
	return v, true
}

// parseV6 parses RFC 4291 text form (hex groups, one "::"). exotic: zone
// identifiers, embedded dotted-quad tails, IPv4-mapped results.
func parseV6(s string) (ip []byte, ok, exotic bool) {
	if strings.Contains(s, "%") {
		return nil, false, true
	}
	if strings.Contains(s, ".") {
		// embedded IPv4 tail: meaning towards IPv4 peers is not fixed
		if strings.Contains(s, ":") {
			return nil, false, true
		}
		return nil, false, false
	}
	if !strings.Contains(s, ":") {
		return nil, false, false
	}
	var head, tail []string
	if i := strings.Index(s, "::"); i >= 0 {
		if strings.Contains(s[i+2:], "::") {
			return nil, false, false
		}
		if s[:i] != "" {
			head = strings.Split(s[:i], ":")
		}
		if s[i+2:] != "" {
			tail = strings.Split(s[i+2:], ":")
		}
		if len(head)+len(tail) > 7 {
			return nil, false, false
		}
	} else {
		head = strings.Split(s, ":")
		if len(head) != 8 {
			return nil, false, false
		}
	}
	ip = make([]byte, 16)
	for i, g := range head {
		v, ok := hexGroup(g)
		if !ok {
			return nil, false, false
		}
		ip[2*i], ip[2*i+1] = byte(v>>8), byte(v)
	}
	for i, g := range tail {
		v, ok := hexGroup(g)
		if !ok {
			return nil, false, false
		}
		k := 8 - len(tail) + i
		ip[2*k], ip[2*k+1] = byte(v>>8), byte(v)
	}
	mapped := ip[10] == 0xff && ip[11] == 0xff
	for i := 0; i < 10; i++ {
		if ip[i] != 0 {
			mapped = false
		}
	}
	return ip, true, mapped
}

func parseIP(s string) (ip []byte, ok, exotic bool) {
	if ip, ok, ex := parseV4(s); ok || ex {
		return ip, ok, ex
	}
	return parseV6(s)
}

func parseEntry(s string) entry {
	if strings.TrimSpace(s) != s && strings.TrimSpace(s) != "" {
		// surrounding blanks: the documented grammar has none; parsers differ
		// only in *rejecting* them, which every reading of "malformed" covers
		return entry{kind: eMalformed}
	}
	if i := strings.IndexByte(s, '/'); i >= 0 {
		ip, ok, ex := parseIP(s[:i])
		if ex {
			return entry{kind: eExotic}
		}
		if !ok {
			return entry{kind: eMalformed}
		}
		bits, ok, ex := parseDec(s[i+1:], 8*len(ip))
		if !ok {
			return entry{kind: eMalformed}
		}
		if ex {
			return entry{kind: eExotic}
		}
		return entry{kind: eCIDR, ip: ip, bits: bits}
	}
	ip, ok, ex := parseIP(s)
	if ex {
		return entry{kind: eExotic}
	}
	if !ok {
		return entry{kind: eMalformed}
	}
	return entry{kind: eAddr, ip: ip}
}

func prefixEqual(a, b []byte, bits int) bool {
	for i := 0; i < bits; i++ {
		if (a[i/8]>>(7-uint(i%8)))&1 != (b[i/8]>>(7-uint(i%8)))&1 {
			return false
		}
	}
	return true
}

func (e entry) matches(a Addr) bool {
	if len(e.ip) != len(a) {
		return false // different address families never match
	}
	switch e.kind {
	case eAddr:
		return prefixEqual(e.ip, a, 8*len(a))
	case eCIDR:
		return prefixEqual(e.ip, a, e.bits)
	}
	return false
}

// Check evaluates the option value against the remote address. isIP=false
// stands for "no address known" or a non-IP transport (Unix socket): the
// documentation says such a peer never matches.
func Check(remote Addr, isIP bool, value string) Verdict {
	if !isIP {
		return NoMatch
	}
	if len(remote) != 4 && len(remote) != 16 {
		return Ambiguous
	}
	anyMatch, anyMalformed, anyExotic := false, false, false
	for _, s := range strings.Split(value, ",") {
		e := parseEntry(s)
		switch e.kind {
		case eMalformed:
			anyMalformed = true
		case eExotic:
			anyExotic = true
		default:
			if e.matches(remote) {
				anyMatch = true
			}
		}
	}
	switch {
	case anyExotic:
		return Ambiguous
	case !anyMalformed && anyMatch:
		return Match
	case !anyMatch:
		// nothing that parses matches; malformed entries cannot grant access
		return NoMatch
	}
	// a well-formed entry matches but the list also contains garbage: whether
	// the list as a whole is honoured is not documented
	return Ambiguous
}

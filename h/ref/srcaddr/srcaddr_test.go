package srcaddr

import "testing"

func TestVectors(t *testing.T) {
	v4 := Addr{192, 168, 1, 7}
	v6 := Addr{0x20, 0x01, 0x0d, 0xb8, 0, 0, 0, 0, 0, 0, 0, 0, 0, 0, 0, 0x42}
	cases := []struct {
		a    Addr
		isIP bool
		val  string
		want Verdict
	}{
		{v4, true, "192.168.1.7", Match},
		{v4, true, "192.168.1.8", NoMatch},
		{v4, true, "10.0.0.1,192.168.1.7", Match},
		{v4, true, "192.168.1.0/24", Match},
		{v4, true, "192.168.2.0/24", NoMatch},
		{v4, true, "192.168.0.0/16,10.0.0.0/8", Match},
		{v4, true, "0.0.0.0/0", Match},
		{v4, true, "192.168.1.7/32", Match},
		{v4, true, "192.168.1.6/31", Match},
		{v4, true, "192.168.1.4/31", NoMatch},
		{v4, true, "192.168.1.7/33", NoMatch}, // malformed, nothing else
		{v4, true, "", NoMatch},
		{v4, true, ",", NoMatch},
		{v4, true, "banana", NoMatch},
		{v4, true, "banana,192.168.1.7", Ambiguous},
		{v4, true, "192.168.1.7,banana", Ambiguous},
		{v4, true, "banana,192.168.1.8", NoMatch},
		{v4, true, "192.168.1.7 ", NoMatch},
		{v4, true, "10.0.0.1, 192.168.1.7", NoMatch},
		{v4, true, "192.168.001.7", Ambiguous},
		{v4, true, "::ffff:192.168.1.7", Ambiguous},
		{v4, true, "::ffff:c0a8:107", Ambiguous},
		{v4, true, "2001:db8::42", NoMatch},
		{v4, true, "::/0", NoMatch},
		{v4, true, "192.168.1", NoMatch},
		{v4, true, "192.168.1.7.1", NoMatch},
		{v4, true, "192.168.1.256", NoMatch},
		{v4, true, "192.168.1.0/024", Ambiguous},
		{v4, true, "192.168.1.0/-1", NoMatch},
		{v4, true, "192.168.1.0/", NoMatch},
		{v6, true, "2001:db8::42", Match},
		{v6, true, "2001:DB8:0:0:0:0:0:42", Match},
		{v6, true, "2001:db8::43", NoMatch},
		{v6, true, "2001:db8::/32", Match},
		{v6, true, "2001:db9::/32", NoMatch},
		{v6, true, "::/0", Match},
		{v6, true, "2001:db8::42/128", Match},
		{v6, true, "2001:db8::42/129", NoMatch},
		{v6, true, "192.168.1.7", NoMatch},
		{v6, true, "0.0.0.0/0", NoMatch},
		{v6, true, "fe80::1%eth0", Ambiguous},
		{v6, true, "2001:db8:::42", NoMatch},
		{v6, true, "2001:db8::1::42", NoMatch},
		{v6, true, "1:2:3:4:5:6:7:8:9", NoMatch},
		{v6, true, "12345::", NoMatch},
		{v6, true, "10.0.0.0/8,2001:db8::/64", Match},
		{nil, false, "0.0.0.0/0,::/0", NoMatch},
		{nil, false, "", NoMatch},
	}
	for _, c := range cases {
		if got := Check(c.a, c.isIP, c.val); got != c.want {
			t.Errorf("Check(%v,%v,%q) = %v, want %v", []byte(c.a), c.isIP, c.val, got, c.want)
		}
	}
}

func TestFromBytes(t *testing.T) {
	a, ok := FromBytes([]byte{0, 0, 0, 0, 0, 0, 0, 0, 0, 0, 0xff, 0xff, 1, 2, 3, 4})
	if !ok || len(a) != 4 || a[0] != 1 || a[3] != 4 {
		t.Fatalf("mapped: %v %v", a, ok)
	}
	if a, ok := FromBytes([]byte{1, 2, 3, 4}); !ok || len(a) != 4 {
		t.Fatal("v4")
	}
	if a, ok := FromBytes(make([]byte, 16)); !ok || len(a) != 16 {
		t.Fatal("v6")
	}
	if _, ok := FromBytes(nil); ok {
		t.Fatal("nil")
	}
	if _, ok := FromBytes(make([]byte, 5)); ok {
		t.Fatal("5")
	}
}

package der

import (
	"bytes"
	"encoding/asn1"
	"encoding/hex"
	"math/big"
	"math/rand/v2"
	"testing"
	"time"
)

func hx(s string) []byte { b, _ := hex.DecodeString(s); return b }

// Vectors: X.690 (08/2015) examples and "A Layman's Guide to a Subset of
// ASN.1, BER, and DER" (Kaliski).
func TestVectors(t *testing.T) {
	ints := []struct {
		v   int64
		enc string
	}{{0, "00"}, {127, "7f"}, {128, "0080"}, {256, "0100"}, {-128, "80"}, {-129, "ff7f"}, {-1, "ff"}, {32767, "7fff"}, {-32768, "8000"}}
	for _, c := range ints {
		if got := IntContent(big.NewInt(c.v)); !bytes.Equal(got, hx(c.enc)) {
			t.Errorf("IntContent(%d)=%x want %s", c.v, got, c.enc)
		}
		v, why := CheckInt(hx(c.enc))
		if why != "" || v.Int64() != c.v {
			t.Errorf("CheckInt(%s)=%v,%q", c.enc, v, why)
		}
	}
	for _, bad := range []string{"", "0000", "007f", "ff80", "ffff"} {
		if _, why := CheckInt(hx(bad)); why == "" {
			t.Errorf("CheckInt(%s) accepted", bad)
		}
	}
	// X.690 8.1.3.5 example: L = 201 -> 81 C9
	if !bytes.Equal(EncodeLen(201), hx("81c9")) || !bytes.Equal(EncodeLen(127), hx("7f")) || !bytes.Equal(EncodeLen(128), hx("8180")) ||
		!bytes.Equal(EncodeLen(256), hx("820100")) || !bytes.Equal(EncodeLen(65536), hx("83010000")) {
		t.Error("EncodeLen")
	}
	// X.690 8.19.5 example {2 100 3} -> 06 03 81 34 03 ; RSA 1.2.840.113549 -> 2a 86 48 86 f7 0d
	oid := func(a ...int64) []*big.Int {
		var r []*big.Int
		for _, x := range a {
			r = append(r, big.NewInt(x))
		}
		return r
	}
	if got := OIDContent(oid(2, 100, 3)); !bytes.Equal(got, hx("813403")) {
		t.Errorf("OID 2.100.3 = %x", got)
	}
	if got := OIDContent(oid(1, 2, 840, 113549)); !bytes.Equal(got, hx("2a864886f70d")) {
		t.Errorf("OID rsadsi = %x", got)
	}
	arcs, z, _ := CheckOID(hx("813403"))
	if z != Accept || len(arcs) != 3 || arcs[0].Int64() != 2 || arcs[1].Int64() != 100 || arcs[2].Int64() != 3 {
		t.Errorf("CheckOID 813403: %v %v", arcs, z)
	}
	for _, bad := range []string{"", "80", "2a80", "2a8001", "2a86"} {
		if _, z, _ := CheckOID(hx(bad)); z != Reject {
			t.Errorf("CheckOID(%s) zone %v", bad, z)
		}
	}
	if _, z, _ := CheckOID(hx("2a8880808000")); z != Either { // 2^31
		t.Errorf("2^31 arc zone %v", z)
	}
	if _, z, _ := CheckOID(hx("2a87ffffff7f")); z != Accept { // 2^31-1
		t.Errorf("2^31-1 arc zone %v", z)
	}
	// X.690 8.6.4.2: '0A3B5F291CD'H -> 03 07 04 0A3B5F291CD0
	d, bl, why := CheckBitString(hx("040a3b5f291cd0"))
	if why != "" || bl != 44 || !bytes.Equal(d, hx("0a3b5f291cd0")) {
		t.Errorf("bitstring: %x %d %q", d, bl, why)
	}
	for _, bad := range []string{"", "01", "08ff00", "040a3b5f291cd8", "0101"} {
		if _, _, why := CheckBitString(hx(bad)); why == "" {
			t.Errorf("CheckBitString(%s) accepted", bad)
		}
	}
	if _, _, why := CheckBitString(hx("00")); why != "" {
		t.Error("empty bit string rejected")
	}
	// Layman's guide 5.17: UTCTime "910506234540Z" = 1991-05-06 23:45:40 UTC; "910506164540-0700" same instant
	tt, z, _ := CheckUTCTime([]byte("910506234540Z"))
	want := time.Date(1991, 5, 6, 23, 45, 40, 0, time.UTC).Unix()
	if z != Accept || tt.Unix != want || want != 673573540 {
		t.Errorf("utctime %v %v", tt, z)
	}
	tt, z, _ = CheckUTCTime([]byte("910506164540-0700"))
	if z != Reject || !tt.Valid || tt.Unix != want {
		t.Errorf("utctime offset %v %v", tt, z)
	}
	// X.680 46.3 examples: "19851106210627.3" local, "19851106210627.3Z", "198511062106.456Z"?; DER form without fraction:
	tt, z, _ = CheckGeneralizedTime([]byte("19851106210627Z"))
	if z != Accept || tt.Unix != 500159187 {
		t.Errorf("gentime %v %v", tt, z)
	}
	for s, wz := range map[string]Zone{"19851106210627.3": Reject, "19851106210627.3Z": Accept, "19851106210627.30Z": Reject, "19851106210627,3Z": Reject, "19851106210627.0Z": Reject, "19851106210627.123456789Z": Accept,
		"19851106210627.3-0500": Reject, "1985110621Z": Reject, "198511062106.5Z": Reject, "19851106210627": Reject, "19851106210627+0100": Reject, "19851106210627+01": Reject, "19850229000000Z": Reject, "19840229000000Z": Accept, "19001231235959Z": Accept, "19000229000000Z": Reject,
		"20000229000000Z": Accept, "19851306210627Z": Reject, "19851106250627Z": Reject, "19851106216027Z": Reject, "19851106210627.Z": Reject, "19851106210627ZZ": Reject,
		"1985110621062Z": Reject, "00000101000000Z": Either, "99991231235959Z": Accept, "19851106210660Z": Either, "19851106240000Z": Either, "19851106240001Z": Reject, "": Reject, "Z": Reject} {
		if _, z, why := CheckGeneralizedTime([]byte(s)); z != wz {
			t.Errorf("gentime %q zone %v (%s) want %v", s, z, why, wz)
		}
	}
	for s, wz := range map[string]Zone{"9105062345Z": Reject, "9105062345+0100": Reject, "910506234540+0100": Reject, "910506234540+01": Reject, "910506234540": Reject, "910506234540z": Reject, "91050623454Z": Reject, "910229000000Z": Reject,
		"000229000000Z": Accept, "500101000000Z": Accept, "491231235959Z": Accept, "910506234540+2500": Reject, "910506234540+0060": Reject, "910506234540.5Z": Reject} {
		if _, z, why := CheckUTCTime([]byte(s)); z != wz {
			t.Errorf("utctime %q zone %v (%s) want %v", s, z, why, wz)
		}
	}
	if v, _, _ := CheckUTCTime([]byte("500101000000Z")); v.Unix != time.Date(1950, 1, 1, 0, 0, 0, 0, time.UTC).Unix() {
		t.Error("utctime year 50")
	}
	if v, _, _ := CheckUTCTime([]byte("491231235959Z")); v.Unix != time.Date(2049, 12, 31, 23, 59, 59, 0, time.UTC).Unix() {
		t.Error("utctime year 49")
	}
	for s, why := range map[string]string{"9105062345Z": "no-seconds", "9105062345+0100": "no-seconds+offset-instead-of-Z", "910506234540-0700": "offset-instead-of-Z", "910506234540+01": "utctime-syntax", "911306234540+0100": "utctime-field-range"} {
		if v, _, got := CheckUTCTime([]byte(s)); got != why || v.Valid != (why != "utctime-syntax" && why != "utctime-field-range") {
			t.Errorf("utctime %q class %q valid=%v want %q", s, got, v.Valid, why)
		}
	}
	for s, why := range map[string]string{"19851106210627+0100": "offset-instead-of-Z", "19851106210627.3Z": "fractional-seconds", "19851106210627.30Z": "generalizedtime-fraction-not-der", "19851106210627.3+0100": "generalizedtime-fraction-not-der",
		"19851106210627": "generalizedtime-local", "198511062106Z": "generalizedtime-reduced-precision", "19851306210627+0100": "generalizedtime-field-range", "19851106210627Z": ""} {
		if _, _, got := CheckGeneralizedTime([]byte(s)); got != why {
			t.Errorf("gentime %q class %q want %q", s, got, why)
		}
	}
	if v, z, _ := CheckGeneralizedTime([]byte("19851106220627+0100")); z != Reject || !v.Valid || v.Unix != 500159187 {
		t.Errorf("gentime offset value %v", v)
	}
	// TLV
	for s, why := range map[string]string{"": "empty", "30": "truncated-header", "3000": "", "1f00": "high-tag-number-form", "3f00": "high-tag-number-form", "3080": "indefinite-length", "30800000": "indefinite-length",
		"30ff": "reserved-length-0xff", "308100": "nonminimal-length:long-form-below-128", "30817f": "nonminimal-length:long-form-below-128", "30820080": "nonminimal-length:leading-zero", "3001": "truncated-content",
		"0401aa": "", "0401aabb": "", "308180": "truncated-content", "3081": "truncated-header", "308501": "truncated-header", "30850100000000": "truncated-content", "30850000000080": "nonminimal-length:leading-zero"} {
		if _, got := ParseTLV(hx(s)); got != why {
			t.Errorf("ParseTLV(%s) = %q want %q", s, got, why)
		}
	}
	big128 := append(hx("048180"), make([]byte, 128)...)
	tl, why := ParseTLV(append(big128, 0xaa))
	if why != "" || tl.Total != 131 || tl.HeaderLen != 3 || len(tl.Content) != 128 {
		t.Errorf("128: %v %q", tl.Total, why)
	}
}

// Cross-check of the reference against encoding/asn1 (test of the ref only;
// the checks never use encoding/asn1 as the deciding oracle for acceptance).
func TestCrossAsn1(t *testing.T) {
	r := rand.New(rand.NewPCG(1, 2))
	for i := 0; i < 20000; i++ {
		n := new(big.Int).SetUint64(r.Uint64())
		n.Rsh(n, uint(r.IntN(64)))
		if r.IntN(2) == 0 {
			n.Neg(n)
		}
		if r.IntN(8) == 0 {
			n.Lsh(n, uint(r.IntN(200)))
		}
		want, err := asn1.Marshal(n)
		if err != nil {
			t.Fatal(err)
		}
		if got := EncodeTLV(2, IntContent(n)); !bytes.Equal(got, want) {
			t.Fatalf("int %v: %x vs %x", n, got, want)
		}
		tl, why := ParseTLV(want)
		if why != "" {
			t.Fatal(why)
		}
		v, why := CheckInt(tl.Content)
		if why != "" || v.Cmp(n) != 0 {
			t.Fatalf("CheckInt %v %q", v, why)
		}
		// OIDs
		k := 2 + r.IntN(6)
		oid := make(asn1.ObjectIdentifier, k)
		oid[0] = r.IntN(3)
		if oid[0] < 2 {
			oid[1] = r.IntN(40)
		} else {
			oid[1] = r.IntN(1 << uint(r.IntN(30)))
		}
		for j := 2; j < k; j++ {
			oid[j] = r.IntN(1 << uint(1+r.IntN(30)))
		}
		var arcs []*big.Int
		for _, a := range oid {
			arcs = append(arcs, big.NewInt(int64(a)))
		}
		want, err = asn1.Marshal(oid)
		if err != nil {
			t.Fatal(err)
		}
		if got := EncodeTLV(6, OIDContent(arcs)); !bytes.Equal(got, want) {
			t.Fatalf("oid %v: %x vs %x", oid, got, want)
		}
		back, z, _ := CheckOID(OIDContent(arcs))
		if z != Accept || len(back) != len(arcs) {
			t.Fatalf("oid back %v", back)
		}
		for j := range back {
			if back[j].Cmp(arcs[j]) != 0 {
				t.Fatalf("oid back %v vs %v", back, arcs)
			}
		}
		// times
		y := r.IntN(10000)
		tm := time.Date(y, time.Month(1+r.IntN(12)), 1+r.IntN(28), r.IntN(24), r.IntN(60), r.IntN(60), 0, time.UTC)
		s := tm.Format("20060102150405Z")
		v2, z2, _ := CheckGeneralizedTime([]byte(s))
		if (y > 0 && z2 != Accept) || v2.Unix != tm.Unix() {
			t.Fatalf("gentime %s: %v %v want %d", s, v2, z2, tm.Unix())
		}
	}
}

// Package der is an executable reading of ITU-T X.690 (DER subset of BER) for
// the element kinds golang.org/x/crypto/cryptobyte reads and writes. It is
// written from the standard text with slow obvious arithmetic (math/big) and
// shares no code with cryptobyte or encoding/asn1.
//
// Every Check* function classifies a content octet string into one of three
// zones:
//
//	Accept  the octets are the DER encoding of a value (value returned)
//	Reject  the octets are not the DER encoding of any value of the type
//	        (this includes BER-but-not-DER forms; for time strings whose
//	        instant is nevertheless unambiguous Time.Valid is set)
//	Either  a region the property does not decide (OID subidentifiers that
//	        do not fit 31 bits, ISO 8601 corner cases: 24:00:00, second 60,
//	        year 0000)
package der

import (
	"math/big"
)

type Zone int

const (
	Accept Zone = iota
	Reject
	Either
)

func (z Zone) String() string {
	switch z {
	case Accept:
		return "accept"
	case Reject:
		return "reject"
	}
	return "either"
}

// TLV is one parsed element.
type TLV struct {
	Tag       byte
	HeaderLen int
	Content   []byte
	Total     int // HeaderLen + len(Content)
}

// ParseTLV decides whether in starts with a DER TLV whose identifier is a
// single octet (low-tag-number form, X.690 8.1.2.2-8.1.2.3) and whose length
// octets are in the definite form with the minimum number of octets (X.690
// 10.1), and whose contents are completely present. reason is "" on success,
// else a stable class name.
func ParseTLV(in []byte) (TLV, string) {
	var t TLV
	if len(in) == 0 {
		return t, "empty"
	}
	t.Tag = in[0]
	if in[0]&0x1f == 0x1f {
		return t, "high-tag-number-form"
	}
	if len(in) < 2 {
		return t, "truncated-header"
	}
	l0 := in[1]
	var n *big.Int
	hdr := 2
	switch {
	case l0 < 0x80: // short form 8.1.3.4
		n = big.NewInt(int64(l0))
	case l0 == 0x80: // indefinite form 8.1.3.6: forbidden by 10.1
		return t, "indefinite-length"
	case l0 == 0xff: // 8.1.3.5 c): reserved
		return t, "reserved-length-0xff"
	default:
		k := int(l0 & 0x7f)
		if len(in) < 2+k {
			return t, "truncated-header"
		}
		lb := in[2 : 2+k]
		if k > 1 && lb[0] == 0 {
			return t, "nonminimal-length:leading-zero"
		}
		n = new(big.Int).SetBytes(lb)
		if n.Cmp(big.NewInt(128)) < 0 {
			return t, "nonminimal-length:long-form-below-128"
		}
		hdr = 2 + k
	}
	avail := big.NewInt(int64(len(in) - hdr))
	if n.Cmp(avail) > 0 {
		return t, "truncated-content"
	}
	t.HeaderLen = hdr
	t.Content = in[hdr : hdr+int(n.Int64())]
	t.Total = hdr + int(n.Int64())
	return t, ""
}

// EncodeLen returns the DER length octets for n >= 0.
func EncodeLen(n int) []byte {
	if n < 128 {
		return []byte{byte(n)}
	}
	var digits []byte // base-256 digits, most significant first
	for v := n; v > 0; v /= 256 {
		digits = append([]byte{byte(v % 256)}, digits...)
	}
	return append([]byte{0x80 | byte(len(digits))}, digits...)
}

// EncodeTLV returns tag || DER length || content.
func EncodeTLV(tag byte, content []byte) []byte {
	out := []byte{tag}
	out = append(out, EncodeLen(len(content))...)
	return append(out, content...)
}

// ---- INTEGER (X.690 8.3) ----

// CheckInt: contents shall be one or more octets; if more than one, the bits
// of the first octet and bit 8 of the second shall not all be ones and shall
// not all be zero. The value is the two's complement number.
func CheckInt(c []byte) (*big.Int, string) {
	if len(c) == 0 {
		return nil, "integer-empty"
	}
	if len(c) > 1 {
		if c[0] == 0x00 && c[1] < 0x80 {
			return nil, "integer-nonminimal:leading-00"
		}
		if c[0] == 0xff && c[1] >= 0x80 {
			return nil, "integer-nonminimal:leading-ff"
		}
	}
	v := new(big.Int).SetBytes(c)
	if c[0] >= 0x80 {
		m := new(big.Int).Lsh(big.NewInt(1), uint(8*len(c)))
		v.Sub(v, m)
	}
	return v, ""
}

// IntContent returns the minimal two's complement octets of v.
func IntContent(v *big.Int) []byte {
	// smallest k >= 1 with -2^(8k-1) <= v < 2^(8k-1)
	for k := 1; ; k++ {
		half := new(big.Int).Lsh(big.NewInt(1), uint(8*k-1))
		lo := new(big.Int).Neg(half)
		if v.Cmp(lo) >= 0 && v.Cmp(half) < 0 {
			u := new(big.Int).Set(v)
			if u.Sign() < 0 {
				u.Add(u, new(big.Int).Lsh(big.NewInt(1), uint(8*k)))
			}
			out := make([]byte, k)
			u.FillBytes(out)
			return out
		}
	}
}

// ---- BOOLEAN (8.2, 11.1) ----

func CheckBool(c []byte) (bool, string) {
	if len(c) != 1 {
		return false, "boolean-length"
	}
	switch c[0] {
	case 0x00:
		return false, ""
	case 0xff:
		return true, ""
	}
	return false, "boolean-value-not-00-ff"
}

// ---- OBJECT IDENTIFIER (8.19) ----

var two31 = new(big.Int).Lsh(big.NewInt(1), 31)

// CheckOID returns the arcs. Zone Either: well-formed but some
// subidentifier is >= 2^31 (cryptobyte deliberately limits subidentifiers to
// what an int holds on 32-bit platforms).
func CheckOID(c []byte) ([]*big.Int, Zone, string) {
	if len(c) == 0 {
		return nil, Reject, "oid-empty"
	}
	var subs []*big.Int
	cur := new(big.Int)
	start := true
	for i, b := range c {
		if start && b == 0x80 {
			return nil, Reject, "oid-subidentifier-leading-0x80"
		}
		start = false
		cur.Lsh(cur, 7)
		cur.Or(cur, big.NewInt(int64(b&0x7f)))
		if b&0x80 == 0 {
			subs = append(subs, cur)
			cur = new(big.Int)
			start = true
		} else if i == len(c)-1 {
			return nil, Reject, "oid-truncated-subidentifier"
		}
	}
	zone := Accept
	for _, s := range subs {
		if s.Cmp(two31) >= 0 {
			zone = Either
		}
	}
	// 8.19.4: first subidentifier = X*40 + Y; X in {0,1,2}, Y < 40 when X < 2
	first := subs[0]
	var arcs []*big.Int
	switch {
	case first.Cmp(big.NewInt(40)) < 0:
		arcs = append(arcs, big.NewInt(0), new(big.Int).Set(first))
	case first.Cmp(big.NewInt(80)) < 0:
		arcs = append(arcs, big.NewInt(1), new(big.Int).Sub(first, big.NewInt(40)))
	default:
		arcs = append(arcs, big.NewInt(2), new(big.Int).Sub(first, big.NewInt(80)))
	}
	arcs = append(arcs, subs[1:]...)
	reason := ""
	if zone == Either {
		reason = "oid-subidentifier>=2^31"
	}
	return arcs, zone, reason
}

func base128(v *big.Int) []byte {
	if v.Sign() == 0 {
		return []byte{0}
	}
	var groups []byte // least significant first
	t := new(big.Int).Set(v)
	m := big.NewInt(128)
	for t.Sign() > 0 {
		r := new(big.Int)
		t.DivMod(t, m, r)
		groups = append(groups, byte(r.Int64()))
	}
	out := make([]byte, len(groups))
	for i := range groups {
		b := groups[len(groups)-1-i]
		if i != len(groups)-1 {
			b |= 0x80
		}
		out[i] = b
	}
	return out
}

// OIDContent encodes arcs (len >= 2, arcs[0] <= 2, arcs[1] < 40 if arcs[0] < 2).
func OIDContent(arcs []*big.Int) []byte {
	first := new(big.Int).Mul(arcs[0], big.NewInt(40))
	first.Add(first, arcs[1])
	out := base128(first)
	for _, a := range arcs[2:] {
		out = append(out, base128(a)...)
	}
	return out
}

// ---- BIT STRING (8.6, 11.2) ----

// CheckBitString returns the data octets and the bit length.
func CheckBitString(c []byte) ([]byte, int, string) {
	if len(c) == 0 {
		return nil, 0, "bitstring-empty-contents"
	}
	unused := int(c[0])
	data := c[1:]
	if unused > 7 {
		return nil, 0, "bitstring-unused>7"
	}
	if len(data) == 0 {
		if unused != 0 {
			return nil, 0, "bitstring-empty-with-unused-bits"
		}
		return data, 0, ""
	}
	last := int(data[len(data)-1])
	if last%(1<<unused) != 0 { // 11.2.1: unused bits shall be zero
		return nil, 0, "bitstring-nonzero-padding-bits"
	}
	return data, 8*len(data) - unused, ""
}

// ---- time ----

func isLeap(y int) bool { return y%4 == 0 && (y%100 != 0 || y%400 == 0) }

func daysIn(y, m int) int {
	switch m {
	case 4, 6, 9, 11:
		return 30
	case 2:
		if isLeap(y) {
			return 29
		}
		return 28
	}
	return 31
}

// jan1[y] = days from 1970-01-01 to y-01-01 (proleptic Gregorian), y in
// 0..9999, built by plain summation of year lengths.
var jan1 = func() []int64 {
	t := make([]int64, 10000)
	var acc int64
	for y := 1970; y < 10000; y++ {
		t[y] = acc
		acc += 365
		if isLeap(y) {
			acc++
		}
	}
	acc = 0
	for y := 1969; y >= 0; y-- {
		acc -= 365
		if isLeap(y) {
			acc--
		}
		t[y] = acc
	}
	return t
}()

// DaysFromEpoch counts days from 1970-01-01 to y-m-d (0 <= y <= 9999).
func DaysFromEpoch(y, m, d int) int64 {
	days := jan1[y]
	for mm := 1; mm < m; mm++ {
		days += int64(daysIn(y, mm))
	}
	return days + int64(d-1)
}

// Time is the decoded value of a time string.
type Time struct {
	Unix      int64 // seconds since 1970-01-01T00:00:00Z of the denoted instant
	OffsetSec int   // differential written in the string (0 for Z)
	HasOffset bool  // a numeric differential was written
	Valid     bool  // the string denotes exactly one instant (Unix is meaningful) even if it is not DER
}

func digits(s []byte) bool {
	if len(s) == 0 {
		return false
	}
	for _, c := range s {
		if c < '0' || c > '9' {
			return false
		}
	}
	return true
}

func num(s []byte) int {
	v := 0
	for _, c := range s {
		v = v*10 + int(c-'0')
	}
	return v
}

// parseTail parses (Z | ±hhmm | ±hh | nothing).
func parseTail(s []byte) (off int, has, local, ok bool) {
	if len(s) == 0 {
		return 0, false, true, true
	}
	if len(s) == 1 && s[0] == 'Z' {
		return 0, false, false, true
	}
	if s[0] != '+' && s[0] != '-' {
		return 0, false, false, false
	}
	d := s[1:]
	if !digits(d) || (len(d) != 2 && len(d) != 4) {
		return 0, false, false, false
	}
	hh := num(d[:2])
	mm := 0
	if len(d) == 4 {
		mm = num(d[2:])
	}
	if hh > 24 || mm > 59 {
		return 0, false, false, false
	}
	off = hh*3600 + mm*60
	if s[0] == '-' {
		off = -off
	}
	return off, true, false, true
}

// CheckUTCTime classifies the contents of a UTCTime (X.680 47, X.690 11.8).
// Accept: YYMMDDhhmmssZ. Reject with Valid set and a class of its own: the
// other X.680 forms ("no-seconds", "offset-instead-of-Z",
// "no-seconds+offset-instead-of-Z"). Either: second 60, 24:00:00. Years:
// 50..99 -> 19YY, 00..49 -> 20YY (RFC 5280 4.1.2.5.1, the reading cryptobyte
// documents).
func CheckUTCTime(c []byte) (Time, Zone, string) {
	var t Time
	if len(c) < 10 || !digits(c[:10]) {
		return t, Reject, "utctime-syntax"
	}
	rest := c[10:]
	hasSec := false
	sec := 0
	if len(rest) >= 2 && digits(rest[:2]) {
		hasSec = true
		sec = num(rest[:2])
		rest = rest[2:]
	}
	off, hasOff, local, ok := parseTail(rest)
	if !ok || local || (hasOff && len(rest) != 5) {
		return t, Reject, "utctime-syntax"
	}
	yy, mo, d, h, mi := num(c[0:2]), num(c[2:4]), num(c[4:6]), num(c[6:8]), num(c[8:10])
	y := 2000 + yy
	if yy >= 50 {
		y = 1900 + yy
	}
	if mo < 1 || mo > 12 || d < 1 || d > daysIn(y, mo) || h > 24 || mi > 59 || sec > 60 {
		return t, Reject, "utctime-field-range"
	}
	if h == 24 && (mi != 0 || sec != 0) {
		return t, Reject, "utctime-field-range"
	}
	t.Unix = DaysFromEpoch(y, mo, d)*86400 + int64(h*3600+mi*60+sec) - int64(off)
	t.OffsetSec, t.HasOffset = off, hasOff
	switch {
	case h == 24 || sec == 60:
		return t, Either, "utctime-iso8601-corner"
	}
	t.Valid = true
	switch {
	case !hasSec && hasOff:
		return t, Reject, "no-seconds+offset-instead-of-Z"
	case !hasSec:
		return t, Reject, "no-seconds"
	case hasOff:
		return t, Reject, "offset-instead-of-Z"
	}
	return t, Accept, ""
}

// CheckGeneralizedTime classifies the contents of a GeneralizedTime (X.680
// 46, X.690 11.7). Accept: YYYYMMDDhhmmss[.f*d]Z where the fraction, if any,
// uses '.', is non-empty and does not end in 0 (11.7.2-11.7.4); the reason is
// "fractional-seconds" for the forms with a fraction (Unix is the whole
// second). Reject: the other X.680 forms, each with its own class
// ("offset-instead-of-Z" has Valid set). Either: year 0000, 24:00:00, second 60.
func CheckGeneralizedTime(c []byte) (Time, Zone, string) {
	var t Time
	if len(c) < 10 || !digits(c[:10]) {
		return t, Reject, "generalizedtime-syntax"
	}
	rest := c[10:]
	hasMin, hasSec := false, false
	mi, sec := 0, 0
	if len(rest) >= 2 && digits(rest[:2]) {
		hasMin = true
		mi = num(rest[:2])
		rest = rest[2:]
		if len(rest) >= 2 && digits(rest[:2]) {
			hasSec = true
			sec = num(rest[:2])
			rest = rest[2:]
		}
	}
	hasFrac, derFrac := false, false
	if len(rest) > 0 && (rest[0] == '.' || rest[0] == ',') {
		j := 1
		for j < len(rest) && rest[j] >= '0' && rest[j] <= '9' {
			j++
		}
		if j == 1 {
			return t, Reject, "generalizedtime-syntax"
		}
		hasFrac = true
		derFrac = rest[0] == '.' && rest[j-1] != '0'
		rest = rest[j:]
	}
	off, hasOff, local, ok := parseTail(rest)
	if !ok {
		return t, Reject, "generalizedtime-syntax"
	}
	y, mo, d, h := num(c[0:4]), num(c[4:6]), num(c[6:8]), num(c[8:10])
	if mo < 1 || mo > 12 || d < 1 || d > daysIn(y, mo) || h > 24 || mi > 59 || sec > 60 {
		return t, Reject, "generalizedtime-field-range"
	}
	if h == 24 && (mi != 0 || sec != 0) {
		return t, Reject, "generalizedtime-field-range"
	}
	t.Unix = DaysFromEpoch(y, mo, d)*86400 + int64(h*3600+mi*60+sec) - int64(off)
	t.OffsetSec, t.HasOffset = off, hasOff
	switch {
	case y == 0 || h == 24 || sec == 60:
		return t, Either, "generalizedtime-iso8601-corner"
	case !hasMin || !hasSec:
		return t, Reject, "generalizedtime-reduced-precision"
	case hasFrac && (!derFrac || local || hasOff):
		return t, Reject, "generalizedtime-fraction-not-der"
	case local:
		return t, Reject, "generalizedtime-local"
	case hasOff:
		t.Valid = true
		return t, Reject, "offset-instead-of-Z"
	case hasFrac:
		t.Valid = true
		return t, Accept, "fractional-seconds"
	}
	t.Valid = true
	return t, Accept, ""
}

package sshkexhash

import "math/big"

// RFC 7748 §5 X25519, transcribed with math/big.

var (
	p25519 = func() *big.Int {
		p := new(big.Int).Lsh(big.NewInt(1), 255)
		return p.Sub(p, big.NewInt(19))
	}()
	a24 = big.NewInt(121665)
)

// P25519 returns 2^255-19.
func P25519() *big.Int { return new(big.Int).Set(p25519) }

func leToInt(b []byte) *big.Int {
	r := make([]byte, len(b))
	for i := range b {
		r[len(b)-1-i] = b[i]
	}
	return new(big.Int).SetBytes(r)
}

func intToLE32(v *big.Int) []byte {
	b := v.Bytes()
	out := make([]byte, 32)
	for i := range b {
		out[i] = b[len(b)-1-i]
	}
	return out
}

// X25519 computes the function of RFC 7748 §5 on a 32-byte scalar and a
// 32-byte u-coordinate (decodeScalar25519 clamping; decodeUCoordinate masks the
// top bit and accepts non-canonical values, reducing them mod p).
func X25519(scalar, u []byte) []byte {
	if len(scalar) != 32 || len(u) != 32 {
		panic("sshkexhash: X25519 needs 32-byte inputs")
	}
	k := append([]byte(nil), scalar...)
	k[0] &= 248
	k[31] &= 127
	k[31] |= 64
	kk := leToInt(k)
	uu := append([]byte(nil), u...)
	uu[31] &= 127
	x1 := leToInt(uu)
	x1.Mod(x1, p25519)

	mod := func(v *big.Int) *big.Int { return v.Mod(v, p25519) }
	x2, z2 := big.NewInt(1), big.NewInt(0)
	x3, z3 := new(big.Int).Set(x1), big.NewInt(1)
	swap := uint(0)
	for t := 254; t >= 0; t-- {
		kt := kk.Bit(t)
		swap ^= kt
		if swap == 1 {
			x2, x3 = x3, x2
			z2, z3 = z3, z2
		}
		swap = kt
		A := mod(new(big.Int).Add(x2, z2))
		AA := mod(new(big.Int).Mul(A, A))
		B := mod(new(big.Int).Sub(x2, z2))
		BB := mod(new(big.Int).Mul(B, B))
		E := mod(new(big.Int).Sub(AA, BB))
		C := mod(new(big.Int).Add(x3, z3))
		D := mod(new(big.Int).Sub(x3, z3))
		DA := mod(new(big.Int).Mul(D, A))
		CB := mod(new(big.Int).Mul(C, B))
		t1 := mod(new(big.Int).Add(DA, CB))
		x3 = mod(new(big.Int).Mul(t1, t1))
		t2 := mod(new(big.Int).Sub(DA, CB))
		t2 = mod(new(big.Int).Mul(t2, t2))
		z3 = mod(new(big.Int).Mul(x1, t2))
		x2 = mod(new(big.Int).Mul(AA, BB))
		t3 := mod(new(big.Int).Mul(a24, E))
		t3 = mod(new(big.Int).Add(AA, t3))
		z2 = mod(new(big.Int).Mul(E, t3))
	}
	if swap == 1 {
		x2, x3 = x3, x2
		z2, z3 = z3, z2
	}
	// x2 * z2^(p-2)
	inv := new(big.Int).Exp(z2, new(big.Int).Sub(p25519, big.NewInt(2)), p25519)
	res := mod(new(big.Int).Mul(x2, inv))
	return intToLE32(res)
}

// Basepoint9 is the u-coordinate 9.
func Basepoint9() []byte { b := make([]byte, 32); b[0] = 9; return b }

// AllZero reports whether every byte is zero (RFC 8731 §3: the exchange MUST
// be aborted when the computed shared secret is all-zero).
func AllZero(b []byte) bool {
	var v byte
	for _, x := range b {
		v |= x
	}
	return v == 0
}

// LowOrderU returns the canonical u-coordinates of the points of order
// dividing 8 on Curve25519 and its twist (0, 1, the two order-8 values, p-1),
// and the non-canonical encodings p, p+1 that alias 0 and 1. For each of them
// X25519 with any clamped scalar yields all-zero.
func LowOrderU() []*big.Int {
	o8a, _ := new(big.Int).SetString("325606250916557431795983626356110631294008115727848805560023387167927233504", 10)
	o8b, _ := new(big.Int).SetString("39382357235489614581723060781553021112529911719440698176882885853963445705823", 10)
	return []*big.Int{
		big.NewInt(0), big.NewInt(1), o8a, o8b,
		new(big.Int).Sub(p25519, big.NewInt(1)),
		new(big.Int).Set(p25519),
		new(big.Int).Add(p25519, big.NewInt(1)),
	}
}

// U32LE encodes a u value (< 2^256) as 32 little-endian bytes.
func U32LE(v *big.Int) []byte { return intToLE32(v) }

package sshkexhash

import (
	"math/big"
	"sync"
)

// The Oakley/MODP groups are defined by formula (RFC 2409 §6.2, RFC 3526 §2-7):
//
//	p = 2^n - 2^(n-64) - 1 + 2^64 * ( floor(2^(n-130) * pi) + c ),  generator 2
//
// so the reference derives the primes from pi instead of copying hex.

var modpC = map[int]int64{
	1024: 129093, // RFC 2409 second Oakley group (diffie-hellman-group1)
	1536: 741804,
	2048: 124476, // group 14
	3072: 1690314,
	4096: 240904, // group 16
	6144: 929484,
	8192: 4743158,
}

const piFrac = 8192 + 128 // fractional bits of the fixed-point pi

// arctanInv computes atan(1/x) * 2^bits by the alternating series.
func arctanInv(x int64, bits uint) *big.Int {
	one := new(big.Int).Lsh(big.NewInt(1), bits)
	bx := big.NewInt(x)
	x2 := big.NewInt(x * x)
	term := new(big.Int).Quo(one, bx) // 1/x
	sum := new(big.Int).Set(term)
	for k := int64(1); ; k++ {
		term.Quo(term, x2)
		if term.Sign() == 0 {
			break
		}
		t := new(big.Int).Quo(term, big.NewInt(2*k+1))
		if k%2 == 1 {
			sum.Sub(sum, t)
		} else {
			sum.Add(sum, t)
		}
	}
	return sum
}

var piFixed = sync.OnceValue(func() *big.Int {
	// Machin: pi = 16 atan(1/5) - 4 atan(1/239); 64 guard bits absorb the
	// truncation error of the ~6000 series terms.
	const guard = 64
	a := arctanInv(5, piFrac+guard)
	b := arctanInv(239, piFrac+guard)
	a.Lsh(a, 4)
	b.Lsh(b, 2)
	a.Sub(a, b)
	return a.Rsh(a, guard)
})

var (
	modpMu    sync.Mutex
	modpCache = map[int]*big.Int{}
)

// MODP returns the MODP prime of n bits (1024, 1536, 2048, 3072, 4096, 6144,
// 8192), or nil for other sizes.
func MODP(n int) *big.Int {
	c, ok := modpC[n]
	if !ok {
		return nil
	}
	modpMu.Lock()
	defer modpMu.Unlock()
	if p, ok := modpCache[n]; ok {
		return new(big.Int).Set(p)
	}
	fl := new(big.Int).Rsh(piFixed(), uint(piFrac-(n-130))) // floor(2^(n-130) pi)
	fl.Add(fl, big.NewInt(c))
	fl.Lsh(fl, 64)
	p := pow2(uint(n))
	p.Sub(p, pow2(uint(n-64)))
	p.Sub(p, big.NewInt(1))
	p.Add(p, fl)
	modpCache[n] = p
	return new(big.Int).Set(p)
}

// ChooseDH is the group-selection rule the package documents for its GEX
// server ("mirroring OpenSSH's choose_dh: prefer the smallest known group
// larger than or equal to the client's PreferredBits, and otherwise pick the
// largest group within the accepted [MinBits, MaxBits] range"), over the set of
// known group sizes. It returns every size some reading of that sentence
// allows (nil: no known group lies within [min,max], the request must fail).
//
// Reading A (OpenSSH dh.c): restrict to sizes within [min,max] first, then the
// smallest >= preferred, else the largest. Reading B: the smallest known size
// >= preferred if it lies in [min,max], else the largest within [min,max].
// For every request with min <= preferred <= max both readings coincide.
func ChooseDH(known []int, min, pref, max uint32) []int {
	var in []int
	for _, s := range known {
		if uint64(s) >= uint64(min) && uint64(s) <= uint64(max) {
			in = append(in, s)
		}
	}
	if len(in) == 0 {
		return nil
	}
	largest, smallestGE := 0, 0
	for _, s := range in {
		if s > largest {
			largest = s
		}
		if uint64(s) >= uint64(pref) && (smallestGE == 0 || s < smallestGE) {
			smallestGE = s
		}
	}
	a := largest
	if smallestGE != 0 {
		a = smallestGE
	}
	// reading B
	anyGE := 0
	for _, s := range known {
		if uint64(s) >= uint64(pref) && (anyGE == 0 || s < anyGE) {
			anyGE = s
		}
	}
	b := largest
	if anyGE != 0 && uint64(anyGE) >= uint64(min) && uint64(anyGE) <= uint64(max) {
		b = anyGE
	}
	if a == b {
		return []int{a}
	}
	return []int{a, b}
}

// MLKEM768 sizes (FIPS 203 Table 3).
const (
	MLKEM768EKSize = 1184
	MLKEM768CTSize = 1088
	mlkemQ         = 3329
)

// MLKEM768EKValid is the FIPS 203 §7.2 encapsulation-key check: type check
// (384*k+32 bytes) and modulus check (ByteEncode12(ByteDecode12(ek)) == ek,
// i.e. each of the 768 12-bit little-endian coefficients is < q).
func MLKEM768EKValid(ek []byte) bool {
	if len(ek) != MLKEM768EKSize {
		return false
	}
	for i := 0; i+3 <= 1152; i += 3 {
		c0 := int(ek[i]) | int(ek[i+1]&0x0f)<<8
		c1 := int(ek[i+1]>>4) | int(ek[i+2])<<4
		if c0 >= mlkemQ || c1 >= mlkemQ {
			return false
		}
	}
	return true
}

// MLKEM768SetCoeff overwrites coefficient idx (0..767) of an encapsulation key.
func MLKEM768SetCoeff(ek []byte, idx int, v int) {
	i := idx / 2 * 3
	if idx%2 == 0 {
		ek[i] = byte(v)
		ek[i+1] = ek[i+1]&0xf0 | byte(v>>8)&0x0f
	} else {
		ek[i+1] = ek[i+1]&0x0f | byte(v<<4)
		ek[i+2] = byte(v >> 4)
	}
}

// MLKEM768Coeff reads coefficient idx.
func MLKEM768Coeff(ek []byte, idx int) int {
	i := idx / 2 * 3
	if idx%2 == 0 {
		return int(ek[i]) | int(ek[i+1]&0x0f)<<8
	}
	return int(ek[i+1]>>4) | int(ek[i+2])<<4
}

package sshkexhash

import (
	"crypto/sha1"
	"crypto/sha256"
	"crypto/sha512"
	"hash"
	"math/big"
)

// Family is the message/transcript layout a method name uses.
type Family int

const (
	FamUnknown Family = iota
	FamDH             // RFC 4253 §8 fixed groups
	FamGEX            // RFC 4419
	FamECDH           // RFC 5656 §4
	FamX25519         // RFC 8731
	FamHybrid         // mlkem768x25519-sha256
)

// Method describes one key exchange method name, from the registering RFCs.
type Method struct {
	Name   string
	Family Family
	Hash   string // "sha1", "sha256", "sha384", "sha512"
	Group  int    // FamDH: MODP size in bits (1024, 2048, 4096)
	Curve  string // FamECDH: "P-256", "P-384", "P-521"
}

// Methods lists every method name this reference knows, with the parameters
// the defining documents give: RFC 4253 §8.1/§8.2 (group1/group14, SHA-1),
// RFC 8268 §3 (group14-sha256, group16-sha512), RFC 4419 §4 (gex-sha1,
// gex-sha256), RFC 5656 §6.2.1 + §10.1 (hash by curve size), RFC 8731 §3
// (curve25519-sha256 and the @libssh.org alias), the hybrid draft
// (mlkem768x25519-sha256, SHA-256).
var Methods = map[string]Method{
	"diffie-hellman-group1-sha1":           {Family: FamDH, Hash: "sha1", Group: 1024},
	"diffie-hellman-group14-sha1":          {Family: FamDH, Hash: "sha1", Group: 2048},
	"diffie-hellman-group14-sha256":        {Family: FamDH, Hash: "sha256", Group: 2048},
	"diffie-hellman-group16-sha512":        {Family: FamDH, Hash: "sha512", Group: 4096},
	"diffie-hellman-group-exchange-sha1":   {Family: FamGEX, Hash: "sha1"},
	"diffie-hellman-group-exchange-sha256": {Family: FamGEX, Hash: "sha256"},
	"ecdh-sha2-nistp256":                   {Family: FamECDH, Hash: "sha256", Curve: "P-256"},
	"ecdh-sha2-nistp384":                   {Family: FamECDH, Hash: "sha384", Curve: "P-384"},
	"ecdh-sha2-nistp521":                   {Family: FamECDH, Hash: "sha512", Curve: "P-521"},
	"curve25519-sha256":                    {Family: FamX25519, Hash: "sha256"},
	"curve25519-sha256@libssh.org":         {Family: FamX25519, Hash: "sha256"},
	"mlkem768x25519-sha256":                {Family: FamHybrid, Hash: "sha256"},
}

func init() {
	for n, m := range Methods {
		m.Name = n
		Methods[n] = m
	}
}

// NewHash returns the named hash.
func NewHash(name string) hash.Hash {
	switch name {
	case "sha1":
		return sha1.New()
	case "sha256":
		return sha256.New()
	case "sha384":
		return sha512.New384()
	case "sha512":
		return sha512.New()
	}
	panic("sshkexhash: unknown hash " + name)
}

// Prologue is the part every exchange hash starts with (RFC 4253 §8):
// string V_C, string V_S, string I_C, string I_S, string K_S. The version
// strings are without CR LF; I_C/I_S are the KEXINIT payloads.
type Prologue struct {
	VC, VS, IC, IS, KS []byte
}

func (p Prologue) bytes() []byte {
	var b []byte
	b = append(b, String(p.VC)...)
	b = append(b, String(p.VS)...)
	b = append(b, String(p.IC)...)
	b = append(b, String(p.IS)...)
	b = append(b, String(p.KS)...)
	return b
}

func sum(hashName string, b []byte) []byte {
	h := NewHash(hashName)
	h.Write(b)
	return h.Sum(nil)
}

// DH is RFC 4253 §8: H = hash(V_C || V_S || I_C || I_S || K_S || mpint e ||
// mpint f || mpint K).
func DH(hashName string, p Prologue, e, f, k *big.Int) []byte {
	b := p.bytes()
	b = append(b, Mpint(e)...)
	b = append(b, Mpint(f)...)
	b = append(b, Mpint(k)...)
	return sum(hashName, b)
}

// GEX is RFC 4419 §3: … K_S || uint32 min || uint32 n || uint32 max ||
// mpint p || mpint g || mpint e || mpint f || mpint K.
func GEX(hashName string, pr Prologue, min, n, max uint32, p, g, e, f, k *big.Int) []byte {
	b := pr.bytes()
	b = append(b, U32(min)...)
	b = append(b, U32(n)...)
	b = append(b, U32(max)...)
	b = append(b, Mpint(p)...)
	b = append(b, Mpint(g)...)
	b = append(b, Mpint(e)...)
	b = append(b, Mpint(f)...)
	b = append(b, Mpint(k)...)
	return sum(hashName, b)
}

// ECDH is RFC 5656 §4 and RFC 8731 §3.1: … K_S || string Q_C || string Q_S ||
// mpint K.
func ECDH(hashName string, p Prologue, qc, qs []byte, k *big.Int) []byte {
	b := p.bytes()
	b = append(b, String(qc)...)
	b = append(b, String(qs)...)
	b = append(b, Mpint(k)...)
	return sum(hashName, b)
}

// Hybrid is the PQ/T hybrid layout: … K_S || string C_INIT || string S_REPLY
// || string K, with K = SHA-256(K_PQ || K_CL) (32 bytes, encoded as string).
func Hybrid(hashName string, p Prologue, cinit, sreply, k []byte) []byte {
	b := p.bytes()
	b = append(b, String(cinit)...)
	b = append(b, String(sreply)...)
	b = append(b, String(k)...)
	return sum(hashName, b)
}

// HybridSecret is K = HASH(K_PQ || K_CL).
func HybridSecret(kpq, kcl []byte) []byte {
	return sum("sha256", append(append([]byte(nil), kpq...), kcl...))
}

// X25519K converts the 32-byte X25519 output to the integer K of RFC 8731
// §3.1: the octet string reinterpreted as a big-endian (network order) integer.
func X25519K(out []byte) *big.Int { return new(big.Int).SetBytes(out) }

// DHPeerValid is RFC 4253 §8 / RFC 4419 §3: values of e or f not in the range
// [1, p-1] MUST NOT be accepted; the property (and RFC 8268 / NIST SP 800-56A
// practice quoted in the code) additionally excludes 1 and p-1. Returns:
//
//	+1 value is in [2, p-2]: acceptable
//	 0 value is 1 or p-1: property says reject
//	-1 value is outside [1, p-1]: RFC says reject
func DHPeerValid(v, p *big.Int) int {
	one := big.NewInt(1)
	pm1 := new(big.Int).Sub(p, one)
	if v.Sign() <= 0 || v.Cmp(p) >= 0 {
		return -1
	}
	if v.Cmp(one) == 0 || v.Cmp(pm1) == 0 {
		return 0
	}
	return 1
}

// Package sshkexhash is an executable specification of the SSH key-exchange
// transcript hashes and of the peer-value validity rules, written from the
// RFC texts (RFC 4251 §5 data types, RFC 4253 §8, RFC 4419 §3, RFC 5656 §4,
// RFC 8731 §3, RFC 7748 §5, RFC 3526/2409 groups, draft-ietf-sshm-mlkem-hybrid
// / draft-kampanakis-curdle-ssh-pq-ke §2.3.3, FIPS 203 §7.2 input check).
// It imports nothing from golang.org/x/crypto and uses only math/big and the
// standard hash packages: slow, obvious arithmetic.
package sshkexhash

import (
	"encoding/binary"
	"errors"
	"math/big"
)

// U32 is the RFC 4251 uint32 encoding.
func U32(v uint32) []byte {
	var b [4]byte
	binary.BigEndian.PutUint32(b[:], v)
	return b[:]
}

// String is the RFC 4251 string encoding (uint32 length, then the bytes).
func String(s []byte) []byte {
	out := make([]byte, 0, 4+len(s))
	out = append(out, U32(uint32(len(s)))...)
	return append(out, s...)
}

// MpintBody returns the two's complement big-endian body of an mpint (RFC 4251
// §5): no unnecessary leading 0x00/0xff; zero is the empty body; a positive
// number whose top bit would be set is preceded by a zero byte.
func MpintBody(v *big.Int) []byte {
	switch v.Sign() {
	case 0:
		return nil
	case 1:
		b := v.Bytes()
		if b[0]&0x80 != 0 {
			b = append([]byte{0}, b...)
		}
		return b
	}
	// negative: find the smallest n such that -2^(8n-1) <= v, then encode
	// v + 2^(8n) as n unsigned bytes.
	n := 1
	for {
		lim := new(big.Int).Lsh(big.NewInt(1), uint(8*n-1))
		lim.Neg(lim)
		if v.Cmp(lim) >= 0 {
			break
		}
		n++
	}
	t := new(big.Int).Lsh(big.NewInt(1), uint(8*n))
	t.Add(t, v)
	b := t.Bytes()
	for len(b) < n {
		b = append([]byte{0}, b...)
	}
	return b
}

// Mpint is the RFC 4251 mpint encoding.
func Mpint(v *big.Int) []byte { return String(MpintBody(v)) }

// MpintFromBody decodes a two's complement body (any length, padding allowed).
func MpintFromBody(b []byte) *big.Int {
	v := new(big.Int).SetBytes(b)
	if len(b) > 0 && b[0]&0x80 != 0 {
		v.Sub(v, new(big.Int).Lsh(big.NewInt(1), uint(8*len(b))))
	}
	return v
}

// Reader parses the fields of a packet payload.
type Reader struct {
	B   []byte
	Err error
}

var errShort = errors.New("sshkexhash: short packet")

func (r *Reader) Byte() byte {
	if r.Err != nil || len(r.B) < 1 {
		r.Err = errShort
		return 0
	}
	v := r.B[0]
	r.B = r.B[1:]
	return v
}

func (r *Reader) U32() uint32 {
	if r.Err != nil || len(r.B) < 4 {
		r.Err = errShort
		return 0
	}
	v := binary.BigEndian.Uint32(r.B)
	r.B = r.B[4:]
	return v
}

func (r *Reader) String() []byte {
	n := r.U32()
	if r.Err != nil || uint64(len(r.B)) < uint64(n) {
		r.Err = errShort
		return nil
	}
	v := r.B[:n:n]
	r.B = r.B[n:]
	return v
}

func (r *Reader) Mpint() *big.Int {
	b := r.String()
	if r.Err != nil {
		return new(big.Int)
	}
	return MpintFromBody(b)
}

// Done reports whether the payload was consumed exactly and without error.
func (r *Reader) Done() bool { return r.Err == nil && len(r.B) == 0 }

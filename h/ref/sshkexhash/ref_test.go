package sshkexhash

import (
	"bytes"
	"crypto/ecdh"
	"crypto/elliptic"
	"crypto/mlkem"
	"crypto/rand"
	"encoding/asn1"
	"encoding/hex"
	"encoding/pem"
	"fmt"
	"math/big"
	"os/exec"
	"strings"
	"testing"
)

func unhex(s string) []byte {
	b, err := hex.DecodeString(strings.ReplaceAll(s, " ", ""))
	if err != nil {
		panic(err)
	}
	return b
}

// RFC 4251 §5 mpint examples.
func TestMpintRFC4251(t *testing.T) {
	cases := []struct {
		v   string // hex, optional leading '-'
		enc string
	}{
		{"0", "00000000"},
		{"9a378f9b2e332a7", "00000008 09 a3 78 f9 b2 e3 32 a7"},
		{"80", "00000002 00 80"},
		{"-1234", "00000002 ed cc"},
		{"-deadbeef", "00000005 ff 21 52 41 11"},
	}
	for _, c := range cases {
		v, _ := new(big.Int).SetString(c.v, 16)
		got := Mpint(v)
		if !bytes.Equal(got, unhex(c.enc)) {
			t.Errorf("mpint(%s) = %x want %s", c.v, got, c.enc)
		}
		r := Reader{B: got}
		if back := r.Mpint(); back.Cmp(v) != 0 || !r.Done() {
			t.Errorf("roundtrip %s -> %s", c.v, back.Text(16))
		}
	}
	// boundary sweep around byte boundaries, both signs
	for bits := uint(0); bits < 80; bits++ {
		for d := int64(-2); d <= 2; d++ {
			for _, sgn := range []int64{1, -1} {
				v := new(big.Int).Lsh(big.NewInt(1), bits)
				v.Add(v, big.NewInt(d))
				v.Mul(v, big.NewInt(sgn))
				enc := Mpint(v)
				r := Reader{B: enc}
				if back := r.Mpint(); back.Cmp(v) != 0 {
					t.Fatalf("roundtrip %s -> %s (%x)", v, back, enc)
				}
				body := enc[4:]
				if len(body) >= 2 && ((body[0] == 0 && body[1]&0x80 == 0) || (body[0] == 0xff && body[1]&0x80 != 0)) {
					t.Fatalf("non-minimal %s: %x", v, enc)
				}
				if v.Sign() == 0 && len(body) != 0 {
					t.Fatalf("zero not empty")
				}
			}
		}
	}
}

// RFC 7748 §5.2 and §6.1 vectors.
func TestX25519RFC7748(t *testing.T) {
	k := unhex("a546e36bf0527c9d3b16154b82465edd62144c0ac1fc5a18506a2244ba449ac4")
	u := unhex("e6db6867583030db3594c1a424b15f7c726624ec26b3353b10a903a6d0ab1c4c")
	want := unhex("c3da55379de9c6908e94ea4df28d084f32eccf03491c71f754b4075577a28552")
	if got := X25519(k, u); !bytes.Equal(got, want) {
		t.Fatalf("vec1 %x", got)
	}
	k = unhex("4b66e9d4d1b4673c5ad22691957d6af5c11b6421e0ea01d42ca4169e7918ba0d")
	u = unhex("e5210f12786811d3f4b7959d0538ae2c31dbe7106fc03c3efc4cd549c715a493") // top bit set: must be masked
	want = unhex("95cbde9476e8907d7aade45cb4b873f88b595a68799fa152e6f8f7647aac7957")
	if got := X25519(k, u); !bytes.Equal(got, want) {
		t.Fatalf("vec2 %x", got)
	}
	// iteration test: 1 and 1000 iterations
	kk := Basepoint9()
	uu := Basepoint9()
	for i := 1; i <= 1000; i++ {
		r := X25519(kk, uu)
		uu, kk = kk, r
		if i == 1 && !bytes.Equal(kk, unhex("422c8e7a6227d7bca1350b3e2bb7279f7897b87bb6854b783c60e80311ae3079")) {
			t.Fatalf("iter1 %x", kk)
		}
	}
	if !bytes.Equal(kk, unhex("684cf59ba83309552800ef566f2f4d3c1c3887c49360e3875f2eb94d99532c51")) {
		t.Fatalf("iter1000 %x", kk)
	}
	// §6.1 DH
	a := unhex("77076d0a7318a57d3c16c17251b26645df4c2f87ebc0992ab177fba51db92c2a")
	apub := unhex("8520f0098930a754748b7ddcb43ef75a0dbf3a0d26381af4eba4a98eaa9b4e6a")
	b := unhex("5dab087e624a8a4b79e17f8b83800ee66f3bb1292618b6fd1c2f8b27ff88e0eb")
	bpub := unhex("de9edb7d7b7dc1b4d35b61c2ece435373f8343c85b78674dadfc7e146f882b4f")
	sh := unhex("4a5d9d5ba4ce2de1728e3bf480350f25e07e21c947d19e3376f09b3c1e161742")
	if !bytes.Equal(X25519(a, Basepoint9()), apub) || !bytes.Equal(X25519(b, Basepoint9()), bpub) ||
		!bytes.Equal(X25519(a, bpub), sh) || !bytes.Equal(X25519(b, apub), sh) {
		t.Fatal("6.1 DH")
	}
	// low-order inputs give zero for any clamped scalar; cross-check random
	// inputs against crypto/ecdh.
	for _, lo := range LowOrderU() {
		for _, hi := range []bool{false, true} {
			enc := U32LE(lo)
			if hi {
				enc[31] |= 0x80
			}
			if !AllZero(X25519(a, enc)) || !AllZero(X25519(b, enc)) {
				t.Fatalf("low order %x not zero", enc)
			}
		}
	}
	for i := 0; i < 50; i++ {
		priv, _ := ecdh.X25519().GenerateKey(rand.Reader)
		peer, _ := ecdh.X25519().GenerateKey(rand.Reader)
		w, err := priv.ECDH(peer.PublicKey())
		if err != nil {
			t.Fatal(err)
		}
		if !bytes.Equal(X25519(priv.Bytes(), peer.PublicKey().Bytes()), w) {
			t.Fatal("ecdh mismatch")
		}
		if !bytes.Equal(X25519(priv.Bytes(), Basepoint9()), priv.PublicKey().Bytes()) {
			t.Fatal("pub mismatch")
		}
	}
}

func TestNISTCurves(t *testing.T) {
	for name, ec := range map[string]elliptic.Curve{"P-256": elliptic.P256(), "P-384": elliptic.P384(), "P-521": elliptic.P521()} {
		c := CurveByName(name)
		pr := ec.Params()
		if c.P.Cmp(pr.P) != 0 || c.B.Cmp(pr.B) != 0 || c.N.Cmp(pr.N) != 0 || c.Gx.Cmp(pr.Gx) != 0 || c.Gy.Cmp(pr.Gy) != 0 {
			t.Fatalf("%s parameters differ from FIPS 186 values in crypto/elliptic", name)
		}
		if c.ByteLen != (pr.BitSize+7)/8 {
			t.Fatal("bytelen")
		}
		if !c.OnCurve(c.Gx, c.Gy) {
			t.Fatal("G not on curve")
		}
		if q := c.ScalarMult(c.N, c.G()); !q.Inf {
			t.Fatal("nG != inf")
		}
		var ecd ecdh.Curve
		switch name {
		case "P-256":
			ecd = ecdh.P256()
		case "P-384":
			ecd = ecdh.P384()
		default:
			ecd = ecdh.P521()
		}
		for i := 0; i < 6; i++ {
			a, _ := ecd.GenerateKey(rand.Reader)
			b, _ := ecd.GenerateKey(rand.Reader)
			w, err := a.ECDH(b.PublicKey())
			if err != nil {
				t.Fatal(err)
			}
			cls, bp := c.Classify(b.PublicKey().Bytes())
			if cls != PtUncompressed {
				t.Fatal("classify valid point")
			}
			sh := c.ScalarMult(new(big.Int).SetBytes(a.Bytes()), bp)
			buf := make([]byte, c.ByteLen)
			sh.X.FillBytes(buf)
			if !bytes.Equal(buf, w) {
				t.Fatalf("%s ECDH mismatch", name)
			}
			ap := c.ScalarMult(new(big.Int).SetBytes(a.Bytes()), c.G())
			if !bytes.Equal(c.Encode(ap), a.PublicKey().Bytes()) {
				t.Fatalf("%s pub mismatch", name)
			}
			// compressed / hybrid forms decode to the same point
			cc, cp := c.Classify(c.EncodeCompressed(ap))
			if cc != PtCompressed || cp.X.Cmp(ap.X) != 0 || cp.Y.Cmp(ap.Y) != 0 {
				t.Fatal("compressed decode")
			}
			hb := c.Encode(ap)
			hb[0] = 6 + byte(ap.Y.Bit(0))
			if hc, _ := c.Classify(hb); hc != PtHybrid {
				t.Fatal("hybrid decode")
			}
			hb[0] ^= 1
			if hc, _ := c.Classify(hb); hc != PtInvalid {
				t.Fatal("hybrid with wrong parity accepted")
			}
			// invalid variants
			bad := c.Encode(ap)
			bad[len(bad)-1] ^= 1
			if k, _ := c.Classify(bad); k != PtInvalid {
				t.Fatal("off-curve accepted")
			}
			if k, _ := c.Classify(c.Encode(ap)[:2*c.ByteLen]); k != PtInvalid {
				t.Fatal("short accepted")
			}
			if k, _ := c.Classify([]byte{0}); k != PtInvalid {
				t.Fatal("infinity accepted")
			}
			zero := make([]byte, 1+2*c.ByteLen)
			zero[0] = 4
			if k, _ := c.Classify(zero); k != PtInvalid {
				t.Fatal("(0,0) accepted")
			}
		}
	}
	// RFC 5903 §8.1 (256-bit random ECP group)
	c := CurveByName("P-256")
	i := hx("C88F01F5 10D9AC3F 70A292DA A2316DE5 44E9AAB8 AFE84049 C62A9C57 862D1433")
	r := hx("C6EF9C5D 78AE012A 011164AC B397CE20 88685D8F 06BF9BE0 B283AB46 476BEE53")
	gi := c.ScalarMult(i, c.G())
	if gi.X.Cmp(hx("DAD0B653 94221CF9 B051E1FE CA5787D0 98DFE637 FC90B9EF 945D0C37 72581180")) != 0 {
		t.Fatalf("RFC5903 gix %x", gi.X)
	}
	gir := c.ScalarMult(r, gi)
	if gir.X.Cmp(hx("D6840F6B 42F6EDAF D13116E0 E1256520 2FEF8E9E CE7DCE03 812464D0 4B9442DE")) != 0 {
		t.Fatalf("RFC5903 girx %x", gir.X)
	}
}

func TestMODP(t *testing.T) {
	for _, n := range []int{1024, 1536, 2048, 3072, 4096, 6144, 8192} {
		p := MODP(n)
		if p.BitLen() != n {
			t.Fatalf("modp %d has %d bits", n, p.BitLen())
		}
		h := fmt.Sprintf("%X", p)
		// RFC 3526: every group starts FFFFFFFF FFFFFFFF C90FDAA2 2168C234 C4C6628B 80DC1CD1 and ends FFFFFFFF FFFFFFFF
		if !strings.HasPrefix(h, "FFFFFFFFFFFFFFFFC90FDAA22168C234C4C6628B80DC1CD1") || !strings.HasSuffix(h, "FFFFFFFFFFFFFFFF") {
			t.Fatalf("modp %d digits: %s…", n, h[:64])
		}
		if n <= 4096 {
			if !p.ProbablyPrime(4) {
				t.Fatalf("modp %d not prime", n)
			}
			q := new(big.Int).Rsh(p, 1)
			if !q.ProbablyPrime(4) {
				t.Fatalf("modp %d not a safe prime", n)
			}
		}
	}
	// well-known tails (RFC 2409 group 2 / RFC 3526 group 14 last words before the F…F block)
	if h := fmt.Sprintf("%X", MODP(1024)); !strings.HasSuffix(h, "49286651ECE65381FFFFFFFFFFFFFFFF") {
		t.Fatalf("group2 tail %s", h[len(h)-40:])
	}
	if h := fmt.Sprintf("%X", MODP(2048)); !strings.HasSuffix(h, "15728E5A8AACAA68FFFFFFFFFFFFFFFF") {
		t.Fatalf("group14 tail %s", h[len(h)-40:])
	}
	if h := fmt.Sprintf("%X", MODP(4096)); !strings.HasSuffix(h, "4DF435C934063199FFFFFFFFFFFFFFFF") {
		t.Fatalf("group16 tail %s", h[len(h)-40:])
	}
	// OpenSSL's named groups as a second witness (skipped if the CLI cannot do it)
	for n, g := range map[int]string{2048: "modp_2048", 3072: "modp_3072", 4096: "modp_4096", 8192: "modp_8192"} {
		out, err := exec.Command("openssl", "genpkey", "-genparam", "-algorithm", "DH", "-pkeyopt", "group:"+g).CombinedOutput()
		if err != nil {
			t.Logf("openssl witness unavailable for %s: %v %s", g, err, out)
			continue
		}
		blk, _ := pem.Decode(out)
		if blk == nil {
			t.Logf("no PEM in openssl output for %s", g)
			continue
		}
		var params struct{ P, G *big.Int }
		if _, err := asn1.Unmarshal(blk.Bytes, &params); err != nil {
			t.Logf("cannot parse openssl DH parameters for %s: %v", g, err)
			continue
		}
		v := params.P
		if params.G.Cmp(big.NewInt(2)) != 0 {
			t.Fatalf("openssl %s generator %v", g, params.G)
		}
		if v.Cmp(MODP(n)) != 0 {
			t.Fatalf("openssl %s differs from formula", g)
		}
		t.Logf("openssl %s agrees", g)
	}
}

func TestChooseDH(t *testing.T) {
	known := []int{2048, 3072, 4096}
	eq := func(a []int, b ...int) bool {
		if len(a) != len(b) {
			return false
		}
		for i := range a {
			if a[i] != b[i] {
				return false
			}
		}
		return true
	}
	cases := []struct {
		min, pref, max uint32
		want           []int
	}{
		{2048, 2048, 8192, []int{2048}},
		{1024, 1024, 8192, []int{2048}},
		{2048, 3000, 8192, []int{3072}},
		{2048, 3072, 8192, []int{3072}},
		{2048, 3073, 8192, []int{4096}},
		{2048, 8192, 8192, []int{4096}},
		{2048, 4097, 4097, []int{4096}},
		{2049, 2049, 3071, nil},
		{0, 0, 2047, nil},
		{4097, 4097, 8192, nil},
		{2048, 4096, 3072, []int{3072}},       // pref > max (invalid request): largest in range under both readings
		{3072, 2048, 4096, []int{3072, 4096}}, // pref < min (invalid request): readings differ
		{3072, 1, 2048, nil},                  // min > max
		{0, 0, 4294967295, []int{2048}},
		{0, 4294967295, 4294967295, []int{4096}},
	}
	for _, c := range cases {
		if got := ChooseDH(known, c.min, c.pref, c.max); !eq(got, c.want...) {
			t.Errorf("ChooseDH(%d,%d,%d) = %v want %v", c.min, c.pref, c.max, got, c.want)
		}
	}
}

func TestMLKEMCheck(t *testing.T) {
	dk, err := mlkem.GenerateKey768()
	if err != nil {
		t.Fatal(err)
	}
	ek := dk.EncapsulationKey().Bytes()
	if !MLKEM768EKValid(ek) {
		t.Fatal("valid key rejected")
	}
	if MLKEM768EKValid(ek[:1183]) || MLKEM768EKValid(append(append([]byte(nil), ek...), 0)) {
		t.Fatal("wrong size accepted")
	}
	for _, idx := range []int{0, 1, 2, 255, 256, 511, 766, 767} {
		for _, v := range []int{3328, 3329, 3330, 4095, 0} {
			m := append([]byte(nil), ek...)
			MLKEM768SetCoeff(m, idx, v)
			if MLKEM768Coeff(m, idx) != v {
				t.Fatal("set/get")
			}
			for j := 0; j < 768; j++ {
				if j != idx && MLKEM768Coeff(m, j) != MLKEM768Coeff(ek, j) {
					t.Fatal("set disturbed neighbour")
				}
			}
			_, e := mlkem.NewEncapsulationKey768(m)
			if MLKEM768EKValid(m) != (e == nil) || MLKEM768EKValid(m) != (v < 3329) {
				t.Fatalf("idx %d v %d: ref %v stdlib err %v", idx, v, MLKEM768EKValid(m), e)
			}
		}
	}
}

// The exchange-hash layouts, cross-checked against an independently written
// python transcription (struct.pack + hashlib) on fixed fields.
func TestExchangeHashVsPython(t *testing.T) {
	pr := Prologue{VC: []byte("SSH-2.0-client_1"), VS: []byte("SSH-2.0-server_22"), IC: unhex("14aabbcc"), IS: unhex("14ddeeff0011"), KS: unhex("0000000b7373682d65643235353139")}
	e := hx("0080ff00112233")             // needs no padding
	f := hx("ff80ff0011223344")           // needs 00 padding
	k := hx("00000000deadbeef0123456789") // leading zeros stripped
	p := hx("ffffffffffffffffc90fdaa22168c234ffffffffffffffff")
	g := big.NewInt(2)
	qc := unhex("04aa55aa55")
	qs := unhex("04010203040506")
	hk := bytes.Repeat([]byte{0x80}, 32)
	script := `
import hashlib, struct, sys
def s(b): return struct.pack(">I", len(b)) + b
def mp(v):
    if v == 0: return s(b"")
    n = (v.bit_length() + 8) // 8
    return s(v.to_bytes(n, "big"))
def u(v): return struct.pack(">I", v)
VC=b"SSH-2.0-client_1"; VS=b"SSH-2.0-server_22"; IC=bytes.fromhex("14aabbcc"); IS=bytes.fromhex("14ddeeff0011"); KS=bytes.fromhex("0000000b7373682d65643235353139")
pro = s(VC)+s(VS)+s(IC)+s(IS)+s(KS)
e=0x0080ff00112233; f=0xff80ff0011223344; k=0xdeadbeef0123456789; p=0xffffffffffffffffc90fdaa22168c234ffffffffffffffff; g=2
qc=bytes.fromhex("04aa55aa55"); qs=bytes.fromhex("04010203040506"); hk=bytes([0x80])*32
for hn in ("sha1","sha256","sha384","sha512"):
    H=lambda b: hashlib.new(hn,b).hexdigest()
    print(hn,"dh",H(pro+mp(e)+mp(f)+mp(k)))
    print(hn,"gex",H(pro+u(2048)+u(3072)+u(8192)+mp(p)+mp(g)+mp(e)+mp(f)+mp(k)))
    print(hn,"ecdh",H(pro+s(qc)+s(qs)+mp(k)))
    print(hn,"hyb",H(pro+s(qc)+s(qs)+s(hk)))
`
	out, err := exec.Command("python3", "-c", script).CombinedOutput()
	if err != nil {
		t.Skipf("python3 unavailable: %v %s", err, out)
	}
	want := map[string]string{}
	for _, l := range strings.Split(strings.TrimSpace(string(out)), "\n") {
		fs := strings.Fields(l)
		want[fs[0]+" "+fs[1]] = fs[2]
	}
	for _, hn := range []string{"sha1", "sha256", "sha384", "sha512"} {
		got := map[string][]byte{
			"dh":   DH(hn, pr, e, f, k),
			"gex":  GEX(hn, pr, 2048, 3072, 8192, p, g, e, f, k),
			"ecdh": ECDH(hn, pr, qc, qs, k),
			"hyb":  Hybrid(hn, pr, qc, qs, hk),
		}
		for kind, h := range got {
			if hex.EncodeToString(h) != want[hn+" "+kind] {
				t.Errorf("%s %s: ref %x python %s", hn, kind, h, want[hn+" "+kind])
			}
		}
	}
	if len(want) != 16 {
		t.Fatalf("python printed %d lines", len(want))
	}
}

func TestMethodsTable(t *testing.T) {
	if len(Methods) != 12 {
		t.Fatal(len(Methods))
	}
	for n, m := range Methods {
		if m.Name != n || m.Family == FamUnknown {
			t.Fatal(n)
		}
		NewHash(m.Hash)
		if m.Family == FamDH && MODP(m.Group) == nil {
			t.Fatal(n)
		}
		if m.Family == FamECDH && CurveByName(m.Curve) == nil {
			t.Fatal(n)
		}
	}
	if DHPeerValid(big.NewInt(0), big.NewInt(23)) != -1 || DHPeerValid(big.NewInt(1), big.NewInt(23)) != 0 ||
		DHPeerValid(big.NewInt(2), big.NewInt(23)) != 1 || DHPeerValid(big.NewInt(21), big.NewInt(23)) != 1 ||
		DHPeerValid(big.NewInt(22), big.NewInt(23)) != 0 || DHPeerValid(big.NewInt(23), big.NewInt(23)) != -1 ||
		DHPeerValid(big.NewInt(-5), big.NewInt(23)) != -1 {
		t.Fatal("DHPeerValid")
	}
}

package sshkexhash

import (
	"math/big"
	"strings"
)

// Short Weierstrass curves y^2 = x^3 - 3x + b over GF(p) with affine math/big
// arithmetic (SEC 1 §2.2.1, §2.3.3/2.3.4 point encodings, §3.2.2 validation).
// Domain parameters from FIPS 186-4 App. D.1.2 / SEC 2.

type Curve struct {
	Name    string
	P, B, N *big.Int
	Gx, Gy  *big.Int
	ByteLen int // octets per field element
}

func hx(s string) *big.Int {
	v, ok := new(big.Int).SetString(strings.ReplaceAll(s, " ", ""), 16)
	if !ok {
		panic("bad hex")
	}
	return v
}

func pow2(n uint) *big.Int { return new(big.Int).Lsh(big.NewInt(1), n) }

var curves = map[string]*Curve{}

func init() {
	// p256 = 2^256 - 2^224 + 2^192 + 2^96 - 1
	p := pow2(256)
	p.Sub(p, pow2(224)).Add(p, pow2(192)).Add(p, pow2(96)).Sub(p, big.NewInt(1))
	curves["P-256"] = &Curve{Name: "P-256", P: p, ByteLen: 32,
		B:  hx("5ac635d8 aa3a93e7 b3ebbd55 769886bc 651d06b0 cc53b0f6 3bce3c3e 27d2604b"),
		Gx: hx("6b17d1f2 e12c4247 f8bce6e5 63a440f2 77037d81 2deb33a0 f4a13945 d898c296"),
		Gy: hx("4fe342e2 fe1a7f9b 8ee7eb4a 7c0f9e16 2bce3357 6b315ece cbb64068 37bf51f5"),
		N:  hx("ffffffff 00000000 ffffffff ffffffff bce6faad a7179e84 f3b9cac2 fc632551")}
	// p384 = 2^384 - 2^128 - 2^96 + 2^32 - 1
	p = pow2(384)
	p.Sub(p, pow2(128)).Sub(p, pow2(96)).Add(p, pow2(32)).Sub(p, big.NewInt(1))
	curves["P-384"] = &Curve{Name: "P-384", P: p, ByteLen: 48,
		B:  hx("b3312fa7 e23ee7e4 988e056b e3f82d19 181d9c6e fe814112 0314088f 5013875a c656398d 8a2ed19d 2a85c8ed d3ec2aef"),
		Gx: hx("aa87ca22 be8b0537 8eb1c71e f320ad74 6e1d3b62 8ba79b98 59f741e0 82542a38 5502f25d bf55296c 3a545e38 72760ab7"),
		Gy: hx("3617de4a 96262c6f 5d9e98bf 9292dc29 f8f41dbd 289a147c e9da3113 b5f0b8c0 0a60b1ce 1d7e819d 7a431d7c 90ea0e5f"),
		N:  hx("ffffffff ffffffff ffffffff ffffffff ffffffff ffffffff c7634d81 f4372ddf 581a0db2 48b0a77a ecec196a ccc52973")}
	// p521 = 2^521 - 1
	p = pow2(521)
	p.Sub(p, big.NewInt(1))
	curves["P-521"] = &Curve{Name: "P-521", P: p, ByteLen: 66,
		B:  hx("051 953eb961 8e1c9a1f 929a21a0 b68540ee a2da725b 99b315f3 b8b48991 8ef109e1 56193951 ec7e937b 1652c0bd 3bb1bf07 3573df88 3d2c34f1 ef451fd4 6b503f00"),
		Gx: hx("c6 858e06b7 0404e9cd 9e3ecb66 2395b442 9c648139 053fb521 f828af60 6b4d3dba a14b5e77 efe75928 fe1dc127 a2ffa8de 3348b3c1 856a429b f97e7e31 c2e5bd66"),
		Gy: hx("118 39296a78 9a3bc004 5c8a5fb4 2c7d1bd9 98f54449 579b4468 17afbd17 273e662c 97ee7299 5ef42640 c550b901 3fad0761 353c7086 a272c240 88be9476 9fd16650"),
		N:  hx("1ff ffffffff ffffffff ffffffff ffffffff ffffffff ffffffff ffffffff fffffffa 51868783 bf2f966b 7fcc0148 f709a5d0 3bb5c9b8 899c47ae bb6fb71e 91386409")}
}

// CurveByName returns "P-256", "P-384" or "P-521".
func CurveByName(n string) *Curve { return curves[n] }

// OnCurve reports 0 <= x,y < p and y^2 = x^3 - 3x + b.
func (c *Curve) OnCurve(x, y *big.Int) bool {
	if x.Sign() < 0 || y.Sign() < 0 || x.Cmp(c.P) >= 0 || y.Cmp(c.P) >= 0 {
		return false
	}
	l := new(big.Int).Mul(y, y)
	l.Mod(l, c.P)
	return l.Cmp(c.rhs(x)) == 0
}

func (c *Curve) rhs(x *big.Int) *big.Int {
	r := new(big.Int).Mul(x, x)
	r.Mul(r, x)
	r.Sub(r, new(big.Int).Mul(big.NewInt(3), x))
	r.Add(r, c.B)
	return r.Mod(r, c.P)
}

// Point is affine; Inf marks the point at infinity.
type Point struct {
	X, Y *big.Int
	Inf  bool
}

func (c *Curve) add(a, b Point) Point {
	if a.Inf {
		return b
	}
	if b.Inf {
		return a
	}
	var lam *big.Int
	if a.X.Cmp(b.X) == 0 {
		s := new(big.Int).Add(a.Y, b.Y)
		s.Mod(s, c.P)
		if s.Sign() == 0 {
			return Point{Inf: true}
		}
		// doubling: (3x^2 - 3) / 2y
		num := new(big.Int).Mul(a.X, a.X)
		num.Mul(num, big.NewInt(3))
		num.Sub(num, big.NewInt(3))
		den := new(big.Int).Lsh(a.Y, 1)
		den.ModInverse(den.Mod(den, c.P), c.P)
		lam = num.Mul(num, den)
	} else {
		num := new(big.Int).Sub(b.Y, a.Y)
		den := new(big.Int).Sub(b.X, a.X)
		den.ModInverse(den.Mod(den, c.P), c.P)
		lam = num.Mul(num, den)
	}
	lam.Mod(lam, c.P)
	x3 := new(big.Int).Mul(lam, lam)
	x3.Sub(x3, a.X).Sub(x3, b.X).Mod(x3, c.P)
	y3 := new(big.Int).Sub(a.X, x3)
	y3.Mul(y3, lam).Sub(y3, a.Y).Mod(y3, c.P)
	return Point{X: x3, Y: y3}
}

// ScalarMult is left-to-right double-and-add.
func (c *Curve) ScalarMult(k *big.Int, pt Point) Point {
	acc := Point{Inf: true}
	for i := k.BitLen() - 1; i >= 0; i-- {
		acc = c.add(acc, acc)
		if k.Bit(i) == 1 {
			acc = c.add(acc, pt)
		}
	}
	return acc
}

// G is the base point.
func (c *Curve) G() Point { return Point{X: new(big.Int).Set(c.Gx), Y: new(big.Int).Set(c.Gy)} }

// Encode is the SEC 1 §2.3.3 uncompressed encoding 04 || X || Y.
func (c *Curve) Encode(pt Point) []byte {
	out := make([]byte, 1+2*c.ByteLen)
	out[0] = 4
	pt.X.FillBytes(out[1 : 1+c.ByteLen])
	pt.Y.FillBytes(out[1+c.ByteLen:])
	return out
}

// EncodeCompressed is 02/03 || X.
func (c *Curve) EncodeCompressed(pt Point) []byte {
	out := make([]byte, 1+c.ByteLen)
	out[0] = 2 + byte(pt.Y.Bit(0))
	pt.X.FillBytes(out[1:])
	return out
}

// PointClass classifies an octet string offered as a peer's public point.
type PointClass int

const (
	PtInvalid      PointClass = iota // must be rejected: not a valid public key in any SEC 1 encoding
	PtUncompressed                   // valid, uncompressed: must be accepted
	PtCompressed                     // valid, compressed (RFC 5656 §4: MAY be supported)
	PtHybrid                         // valid X9.62 hybrid form 06/07 (not in SEC 1; either reading)
)

// Classify decodes per SEC 1 §2.3.4 and validates per §3.2.2.1 (not infinity,
// coordinates in [0,p-1], on the curve; cofactor 1 so no order check needed).
func (c *Curve) Classify(b []byte) (PointClass, Point) {
	if len(b) == 0 {
		return PtInvalid, Point{}
	}
	switch {
	case b[0] == 4 && len(b) == 1+2*c.ByteLen:
		x := new(big.Int).SetBytes(b[1 : 1+c.ByteLen])
		y := new(big.Int).SetBytes(b[1+c.ByteLen:])
		if c.OnCurve(x, y) {
			return PtUncompressed, Point{X: x, Y: y}
		}
	case (b[0] == 2 || b[0] == 3) && len(b) == 1+c.ByteLen:
		x := new(big.Int).SetBytes(b[1:])
		if x.Cmp(c.P) >= 0 {
			return PtInvalid, Point{}
		}
		y := new(big.Int).ModSqrt(c.rhs(x), c.P)
		if y == nil {
			return PtInvalid, Point{}
		}
		if y.Bit(0) != uint(b[0]&1) {
			y.Sub(c.P, y)
			y.Mod(y, c.P)
		}
		if y.Bit(0) == uint(b[0]&1) && c.OnCurve(x, y) {
			return PtCompressed, Point{X: x, Y: y}
		}
	case (b[0] == 6 || b[0] == 7) && len(b) == 1+2*c.ByteLen:
		x := new(big.Int).SetBytes(b[1 : 1+c.ByteLen])
		y := new(big.Int).SetBytes(b[1+c.ByteLen:])
		if c.OnCurve(x, y) && y.Bit(0) == uint(b[0]&1) {
			return PtHybrid, Point{X: x, Y: y}
		}
	}
	return PtInvalid, Point{}
}

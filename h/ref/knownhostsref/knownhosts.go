// Package knownhostsref is an executable reading of the known_hosts file
// format as documented in sshd(8) "SSH_KNOWN_HOSTS FILE FORMAT", ssh_config(5)
// "PATTERNS" and ssh-keygen(1) -F/-H, plus the decision rule of C42. It shares
// no code with golang.org/x/crypto/ssh/knownhosts (HMAC is written out here
// over crypto/sha1).
package knownhostsref

import (
	"crypto/sha1"
	"encoding/base64"
	"strings"
)

// Lookup is the name a client looks up: "host" for port 22, "[host]:port"
// otherwise (sshd(8): "A hostname or address may optionally be enclosed within
// '[' and ']' brackets then followed by ':' and a non-standard port number").
func Lookup(host, port string) string {
	if port == "22" {
		return host
	}
	return "[" + host + "]:" + port
}

// Wild implements ssh_config(5) PATTERNS: '*' matches zero or more
// characters, '?' matches exactly one; no character is special to '*'.
func Wild(pat, s string) bool {
	if pat == "" {
		return s == ""
	}
	switch pat[0] {
	case '*':
		for i := 0; i <= len(s); i++ {
			if Wild(pat[1:], s[i:]) {
				return true
			}
		}
		return false
	case '?':
		return s != "" && Wild(pat[1:], s[1:])
	}
	return s != "" && s[0] == pat[0] && Wild(pat[1:], s[1:])
}

// HMACSHA1 is RFC 2104 over SHA-1, written out.
func HMACSHA1(key, msg []byte) []byte {
	const bs = 64
	if len(key) > bs {
		k := sha1.Sum(key)
		key = k[:]
	}
	ipad, opad := make([]byte, bs), make([]byte, bs)
	copy(ipad, key)
	copy(opad, key)
	for i := range ipad {
		ipad[i] ^= 0x36
		opad[i] ^= 0x5c
	}
	in := sha1.Sum(append(ipad, msg...))
	out := sha1.Sum(append(opad, in[:]...))
	return out[:]
}

// HashEntry renders the hashed form |1|salt|HMAC-SHA1(salt, name).
func HashEntry(salt []byte, name string) string {
	return "|1|" + base64.StdEncoding.EncodeToString(salt) + "|" + base64.StdEncoding.EncodeToString(HMACSHA1(salt, []byte(name)))
}

func hashedMatch(entry, lookup string) bool {
	parts := strings.Split(entry, "|")
	if len(parts) != 4 || parts[0] != "" || parts[1] != "1" {
		return false
	}
	salt, err := base64.StdEncoding.DecodeString(parts[2])
	if err != nil {
		return false
	}
	return HashEntry(salt, lookup) == entry
}

// MatchStr is the OpenSSH reading: the host field is either one hashed name or
// a comma-separated pattern list matched, as strings, against the lookup
// name; a matching negated pattern vetoes the line; at least one positive
// match is needed.
func MatchStr(hostsField, host, port string) bool {
	lookup := Lookup(host, port)
	if strings.HasPrefix(hostsField, "|") {
		return hashedMatch(hostsField, lookup)
	}
	pos := false
	for _, p := range strings.Split(hostsField, ",") {
		neg := strings.HasPrefix(p, "!")
		if neg {
			p = p[1:]
		}
		if p == "" {
			continue
		}
		if Wild(p, lookup) {
			if neg {
				return false
			}
			pos = true
		}
	}
	return pos
}

// splitPattern is the structured reading of one pattern: "[hostpat]:port", or
// "hostpat:port" with exactly one colon, else hostpat with the default port.
func splitPattern(p string) (hostpat, port string, ok bool) {
	if strings.HasPrefix(p, "[") {
		i := strings.LastIndex(p, "]:")
		if i < 0 {
			return "", "", false
		}
		return p[1:i], p[i+2:], true
	}
	if strings.Count(p, ":") == 1 {
		i := strings.Index(p, ":")
		return p[:i], p[i+1:], true
	}
	return p, "22", true
}

// MatchStruct is the structured reading (the one the x/crypto package takes):
// each pattern denotes (host pattern, port); the host pattern is matched with
// wildcards against the host and the port must be equal.
func MatchStruct(hostsField, host, port string) bool {
	if strings.HasPrefix(hostsField, "|") {
		return hashedMatch(hostsField, Lookup(host, port))
	}
	pos := false
	for _, p := range strings.Split(hostsField, ",") {
		neg := strings.HasPrefix(p, "!")
		if neg {
			p = p[1:]
		}
		if p == "" {
			continue
		}
		hp, pp, ok := splitPattern(p)
		if ok && pp == port && Wild(hp, host) {
			if neg {
				return false
			}
			pos = true
		}
	}
	return pos
}

// Line is one non-comment line of a known_hosts file.
type Line struct {
	N       int    // 1-based physical line number
	Marker  string // "", "@cert-authority", "@revoked"
	Hosts   string
	KeyType string
	KeyB64  string
	Valid   bool // has at least hosts, key type and key fields
}

func fields(s string) []string {
	return strings.FieldsFunc(s, func(r rune) bool { return r == ' ' || r == '\t' })
}

// ParseFile splits a file into lines and fields (sshd(8): fields are
// separated by spaces; '#' lines and empty lines are ignored).
func ParseFile(content string) []Line {
	var out []Line
	for i, l := range strings.Split(content, "\n") {
		l = strings.TrimSuffix(l, "\r")
		l = strings.Trim(l, " \t")
		if l == "" || l[0] == '#' {
			continue
		}
		f := fields(l)
		ln := Line{N: i + 1}
		if f[0] == "@cert-authority" || f[0] == "@revoked" {
			ln.Marker, f = f[0], f[1:]
		}
		if len(f) >= 3 {
			ln.Hosts, ln.KeyType, ln.KeyB64, ln.Valid = f[0], f[1], f[2], true
		}
		out = append(out, ln)
	}
	return out
}

// Reading fixes the points the documentation leaves open.
type Reading struct {
	Struct        bool // structured pattern reading instead of string reading
	RevokedGlobal bool // @revoked applies to the key whatever its host field (else only when its host field matches)
	CAAsPlain     bool // a plain key equal to a matching @cert-authority line's key counts as listed, and such lines are in Want
}

// AllReadings enumerates every combination.
func AllReadings() []Reading {
	var rs []Reading
	for i := 0; i < 8; i++ {
		rs = append(rs, Reading{i&1 != 0, i&2 != 0, i&4 != 0})
	}
	return rs
}

func (r Reading) match(hosts, host, port string) bool {
	if r.Struct {
		return MatchStruct(hosts, host, port)
	}
	return MatchStr(hosts, host, port)
}

// Query is one host key check.
type Query struct {
	Host, Port string
	Key        string // identity of the presented key (base64 blob)
	IsCert     bool
	CAKey      string // for certificates: identity of the signing key
	CertRules  bool   // for certificates: host type, principal, options, validity and signature all hold
}

// Outcome kinds.
const (
	OK       = "ok"
	KeyErr   = "keyerror" // plain key: unknown or mismatch, Want = matching lines
	Revoked  = "revoked"  // plain key: RevokedError
	Rejected = "rejected" // certificate: any error
)

type Outcome struct {
	Kind string
	Want []int // line numbers (KeyErr only)
}

func (o Outcome) String() string {
	s := o.Kind
	if o.Kind == KeyErr {
		s += "["
		for i, n := range o.Want {
			if i > 0 {
				s += ","
			}
			s += itoa(n)
		}
		s += "]"
	}
	return s
}

func itoa(n int) string {
	if n == 0 {
		return "0"
	}
	var b []byte
	for n > 0 {
		b = append([]byte{byte('0' + n%10)}, b...)
		n /= 10
	}
	return string(b)
}

// Decide evaluates the C42 rule under one reading.
func Decide(lines []Line, q Query, r Reading) Outcome {
	revoked := func(key string) bool {
		for _, l := range lines {
			if l.Marker == "@revoked" && l.KeyB64 == key && (r.RevokedGlobal || r.match(l.Hosts, q.Host, q.Port)) {
				return true
			}
		}
		return false
	}
	if q.IsCert {
		ca := false
		for _, l := range lines {
			if l.Marker == "@cert-authority" && l.KeyB64 == q.CAKey && r.match(l.Hosts, q.Host, q.Port) {
				ca = true
			}
		}
		if ca && q.CertRules && !revoked(q.Key) && !revoked(q.CAKey) {
			return Outcome{Kind: OK}
		}
		return Outcome{Kind: Rejected}
	}
	if revoked(q.Key) {
		return Outcome{Kind: Revoked}
	}
	var want []int
	for _, l := range lines {
		if l.Marker == "@revoked" || (l.Marker == "@cert-authority" && !r.CAAsPlain) {
			continue
		}
		if !r.match(l.Hosts, q.Host, q.Port) {
			continue
		}
		if l.KeyB64 == q.Key {
			return Outcome{Kind: OK}
		}
		want = append(want, l.N)
	}
	return Outcome{Kind: KeyErr, Want: want}
}

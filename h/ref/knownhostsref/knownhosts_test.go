package knownhostsref

import (
	"encoding/hex"
	"reflect"
	"strings"
	"testing"
)

func TestHMACSHA1RFC2202(t *testing.T) {
	for _, c := range []struct{ key, msg, want string }{
		{strings.Repeat("\x0b", 20), "Hi There", "b617318655057264e28bc0b6fb378c8ef146be00"},
		{"Jefe", "what do ya want for nothing?", "effcdf6ae5eb2fa2d27416d5f184df9c259a7c79"},
		{strings.Repeat("\xaa", 80), "Test Using Larger Than Block-Size Key - Hash Key First", "aa4ae5e15272d00e95705637ce8a3b55ed402112"},
	} {
		if got := hex.EncodeToString(HMACSHA1([]byte(c.key), []byte(c.msg))); got != c.want {
			t.Errorf("HMAC(%q): %s want %s", c.msg, got, c.want)
		}
	}
}

// Entries produced by `ssh-keygen -H` (OpenSSH 9.2) for the names "a" and "[b.a]:2222".
func TestHashedVectors(t *testing.T) {
	ea := "|1|SYVz7pp0pWzoQA6kPQNBcMcmrKE=|fyYT5ViJp3mo26Ti7UQZ/Y7XSV4="
	eb := "|1|nPnDsnDEfmPI5pg15q7g+4cPchk=|1H6DS3TA58Z/g47t3ELZ4oFvfmc="
	if !MatchStr(ea, "a", "22") || MatchStr(ea, "a", "2222") || MatchStr(ea, "b.a", "22") {
		t.Error("hash of a")
	}
	if !MatchStr(eb, "b.a", "2222") || MatchStr(eb, "b.a", "22") || !MatchStruct(eb, "b.a", "2222") {
		t.Error("hash of [b.a]:2222")
	}
}

func TestWild(t *testing.T) {
	for _, c := range []struct {
		p, s string
		want bool
	}{
		{"a*", "a", true}, {"a*", "ab", true}, {"*", "", true}, {"*", "x.y", true}, {"a?", "a", false}, {"a?", "ab", true},
		{"?", "", false}, {"*.a", "b.a", true}, {"*.a", ".a", true}, {"*.a", "a", false}, {"a*b*z", "axxbxxzxxxz", true},
		{"a*b*z", "axxbxxzxxx", false}, {"**", "", true}, {"a**", "a", true}, {"", "", true}, {"", "a", false}, {"?*", "a", true}, {"?*", "", false},
	} {
		if got := Wild(c.p, c.s); got != c.want {
			t.Errorf("Wild(%q,%q)=%v", c.p, c.s, got)
		}
	}
}

// The table below is the output of `ssh-keygen -F <name> -f file` (OpenSSH
// 9.2) for this file, recorded when the reference was written.
func TestMatchStrAgainstRecordedSSHKeygen(t *testing.T) {
	file := "a* T K1\n# comment\n*,!b.a T K2\n[a]:2222 T K1\n* T K2\n@cert-authority *.a T CA\n@revoked b.a T K2\na:2222 T K1\n?.a,a?  T K1   some comment\nA T K1\n*2 T K1\n"
	lines := ParseFile(file)
	if len(lines) != 10 || lines[4].Marker != "@cert-authority" || lines[5].Marker != "@revoked" || lines[7].Hosts != "?.a,a?" || lines[7].N != 9 {
		t.Fatalf("ParseFile: %+v", lines)
	}
	rec := map[[2]string][]int{
		{"a", "22"}:     {1, 3, 5}, // (line 10 "A" matches only through OpenSSH's lower-casing, outside this reference's domain)
		{"b.a", "22"}:   {5, 6, 7, 9},
		{"a", "2222"}:   {3, 4, 5, 11},
		{"ab", "22"}:    {1, 3, 5, 9},
	}
	for q, want := range rec {
		var got []int
		for _, l := range lines {
			if l.Hosts != "A" && MatchStr(l.Hosts, q[0], q[1]) {
				got = append(got, l.N)
			}
		}
		if !reflect.DeepEqual(got, want) {
			t.Errorf("%v: got %v want %v", q, got, want)
		}
	}
}

func TestStructReading(t *testing.T) {
	if MatchStruct("*", "a", "2222") || !MatchStr("*", "a", "2222") {
		t.Error("bare * vs non-default port: the two readings must differ")
	}
	if !MatchStruct("a:2222", "a", "2222") || MatchStr("a:2222", "a", "2222") {
		t.Error("unbracketed host:port")
	}
	if !MatchStruct("[*.a]:2222,!b.a", "b.a", "2222") || MatchStruct("[*.a]:2222,![b.a]:2222", "b.a", "2222") {
		t.Error("negation with ports")
	}
	if !MatchStruct("::1", "::1", "22") || !MatchStruct("[::1]:2222", "::1", "2222") {
		t.Error("ipv6")
	}
}

func TestDecide(t *testing.T) {
	lines := ParseFile("a,b.a T K1\n@revoked z T K2\n@cert-authority *.a T CA\n* T K3\n")
	all := func(q Query) map[string]bool {
		m := map[string]bool{}
		for _, r := range AllReadings() {
			m[Decide(lines, q, r).String()] = true
		}
		return m
	}
	eq := func(m map[string]bool, want ...string) bool {
		if len(m) != len(want) {
			return false
		}
		for _, w := range want {
			if !m[w] {
				return false
			}
		}
		return true
	}
	if got := all(Query{Host: "a", Port: "22", Key: "K1"}); !eq(got, "ok") {
		t.Error(got)
	}
	if got := all(Query{Host: "a", Port: "22", Key: "K9"}); !eq(got, "keyerror[1,4]") {
		t.Error(got)
	}
	if got := all(Query{Host: "b.a", Port: "22", Key: "K9"}); !eq(got, "keyerror[1,4]", "keyerror[1,3,4]") {
		t.Error(got)
	}
	if got := all(Query{Host: "b.a", Port: "22", Key: "K2"}); !eq(got, "revoked", "keyerror[1,4]", "keyerror[1,3,4]") {
		t.Error(got)
	}
	if got := all(Query{Host: "z", Port: "22", Key: "K2"}); !eq(got, "revoked") {
		t.Error(got)
	}
	if got := all(Query{Host: "b.a", Port: "22", Key: "K7", IsCert: true, CAKey: "CA", CertRules: true}); !eq(got, "ok") {
		t.Error(got)
	}
	if got := all(Query{Host: "a", Port: "22", Key: "K7", IsCert: true, CAKey: "CA", CertRules: true}); !eq(got, "rejected") {
		t.Error(got)
	}
	if got := all(Query{Host: "b.a", Port: "22", Key: "K7", IsCert: true, CAKey: "K3", CertRules: true}); !eq(got, "rejected") {
		t.Error(got)
	}
	if got := all(Query{Host: "b.a", Port: "22", Key: "CA"}); !eq(got, "ok", "keyerror[1,4]") {
		t.Error(got)
	}
	if got := all(Query{Host: "x", Port: "2222", Key: "K3"}); !eq(got, "ok", "keyerror[]") {
		t.Error(got)
	}
}

package bcryptpbkdf

import (
	"bytes"
	"crypto/aes"
	"crypto/cipher"
	"encoding/binary"
	"encoding/pem"
	"errors"
)

// OpenSSHKeyInfo is what DecryptOpenSSHKey learned from an openssh-key-v1 file.
type OpenSSHKeyInfo struct {
	Cipher, KDF string
	Salt        []byte
	Rounds      int
	PubBlob     []byte // public key blob from the unencrypted header
	Plain       []byte // decrypted private section
	CheckOK     bool   // checkint1 == checkint2 and the key type string inside matches the header
}

func getString(b []byte) (s, rest []byte, err error) {
	if len(b) < 4 {
		return nil, nil, errors.New("short")
	}
	n := binary.BigEndian.Uint32(b)
	if uint64(n) > uint64(len(b)-4) {
		return nil, nil, errors.New("short string")
	}
	return b[4 : 4+n], b[4+n:], nil
}

// DecryptOpenSSHKey parses an OpenSSH new-format private key (PROTOCOL.key),
// derives key‖iv = bcrypt_pbkdf(pass, salt, rounds, 32+16) with the reference
// implementation and decrypts the private section with AES-256-CTR/CBC. It is
// the bridge that lets OpenSSH itself vouch for the reference: CheckOK is true
// only if the derived 48 bytes are the ones ssh-keygen used.
func DecryptOpenSSHKey(pemBytes, pass []byte) (*OpenSSHKeyInfo, error) {
	blk, _ := pem.Decode(pemBytes)
	if blk == nil || blk.Type != "OPENSSH PRIVATE KEY" {
		return nil, errors.New("not an OPENSSH PRIVATE KEY")
	}
	const authMagic = "openssh-key-v1\x00"
	b := blk.Bytes
	if !bytes.HasPrefix(b, []byte(authMagic)) {
		return nil, errors.New("bad magic")
	}
	b = b[len(authMagic):]
	var ciph, kdf, opts, pub, priv []byte
	var err error
	if ciph, b, err = getString(b); err != nil {
		return nil, err
	}
	if kdf, b, err = getString(b); err != nil {
		return nil, err
	}
	if opts, b, err = getString(b); err != nil {
		return nil, err
	}
	if len(b) < 4 || binary.BigEndian.Uint32(b) != 1 {
		return nil, errors.New("nkeys != 1")
	}
	b = b[4:]
	if pub, b, err = getString(b); err != nil {
		return nil, err
	}
	if priv, _, err = getString(b); err != nil {
		return nil, err
	}
	info := &OpenSSHKeyInfo{Cipher: string(ciph), KDF: string(kdf), PubBlob: pub}
	if info.KDF != "bcrypt" {
		return info, errors.New("kdf is not bcrypt")
	}
	salt, rest, err := getString(opts)
	if err != nil || len(rest) != 4 {
		return info, errors.New("bad kdf options")
	}
	info.Salt = salt
	info.Rounds = int(binary.BigEndian.Uint32(rest))
	k, err := Key(pass, salt, info.Rounds, 48)
	if err != nil {
		return info, err
	}
	c, err := aes.NewCipher(k[:32])
	if err != nil {
		return info, err
	}
	plain := make([]byte, len(priv))
	switch info.Cipher {
	case "aes256-ctr":
		cipher.NewCTR(c, k[32:]).XORKeyStream(plain, priv)
	case "aes256-cbc":
		if len(priv)%16 != 0 {
			return info, errors.New("bad cbc length")
		}
		cipher.NewCBCDecrypter(c, k[32:]).CryptBlocks(plain, priv)
	default:
		return info, errors.New("unsupported cipher " + info.Cipher)
	}
	info.Plain = plain
	if len(plain) >= 8 && bytes.Equal(plain[:4], plain[4:8]) {
		// key type string inside must equal the one in the public blob
		t1, _, e1 := getString(plain[8:])
		t2, _, e2 := getString(pub)
		info.CheckOK = e1 == nil && e2 == nil && bytes.Equal(t1, t2)
	}
	return info, nil
}

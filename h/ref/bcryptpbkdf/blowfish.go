// Package bcryptpbkdf is an executable specification of OpenBSD's
// bcrypt_pbkdf(3), written from the description of the algorithm (Ted
// Unangst's "bcrypt-pbkdf" note and the structure of libutil/bcrypt_pbkdf.c):
// slow, obvious, and sharing no code with golang.org/x/crypto. The Blowfish
// tables are derived here from the hexadecimal expansion of π with math/big.
package bcryptpbkdf

import (
	"math/big"
	"sync"
)

// state is a Blowfish key schedule: 18 subkeys and four 256-entry S-boxes.
type state struct {
	p [18]uint32
	s [4][256]uint32
}

var (
	piOnce sync.Once
	piInit state
)

// arctanInv returns atan(1/x) * 2^prec as an integer (Gregory series).
func arctanInv(x int64, prec uint) *big.Int {
	one := new(big.Int).Lsh(big.NewInt(1), prec)
	bx := big.NewInt(x)
	x2 := big.NewInt(x * x)
	term := new(big.Int).Quo(one, bx) // 1/x
	sum := new(big.Int).Set(term)
	for k := int64(1); term.Sign() != 0; k++ {
		term.Quo(term, x2)
		t := new(big.Int).Quo(term, big.NewInt(2*k+1))
		if k%2 == 1 {
			sum.Sub(sum, t)
		} else {
			sum.Add(sum, t)
		}
	}
	return sum
}

// piWords returns the first n 32-bit words of the fractional part of π.
func piWords(n int) []uint32 {
	bits := uint(32 * n)
	prec := bits + 128 // guard bits
	// Machin: π = 16·atan(1/5) − 4·atan(1/239)
	pi := new(big.Int).Mul(arctanInv(5, prec), big.NewInt(16))
	pi.Sub(pi, new(big.Int).Mul(arctanInv(239, prec), big.NewInt(4)))
	// drop the integer part (3) and the guard bits
	frac := new(big.Int).Sub(pi, new(big.Int).Lsh(big.NewInt(3), prec))
	frac.Rsh(frac, prec-bits)
	out := make([]uint32, n)
	mask := big.NewInt(0xffffffff)
	for i := n - 1; i >= 0; i-- {
		out[i] = uint32(new(big.Int).And(frac, mask).Uint64())
		frac.Rsh(frac, 32)
	}
	return out
}

// initState is Blowfish_initstate: P-array then S-boxes from π.
func initState() state {
	piOnce.Do(func() {
		w := piWords(18 + 4*256)
		copy(piInit.p[:], w[:18])
		for b := 0; b < 4; b++ {
			copy(piInit.s[b][:], w[18+256*b:18+256*(b+1)])
		}
	})
	return piInit
}

func (st *state) f(x uint32) uint32 {
	a, b, c, d := byte(x>>24), byte(x>>16), byte(x>>8), byte(x)
	return ((st.s[0][a] + st.s[1][b]) ^ st.s[2][c]) + st.s[3][d]
}

// encipher is one Blowfish block encryption (16 Feistel rounds).
func (st *state) encipher(l, r uint32) (uint32, uint32) {
	for i := 0; i < 16; i++ {
		l ^= st.p[i]
		r ^= st.f(l)
		l, r = r, l
	}
	l, r = r, l // undo last swap
	r ^= st.p[16]
	l ^= st.p[17]
	return l, r
}

// stream2word reads the next big-endian 32-bit word from data, cyclically.
func stream2word(data []byte, pos *int) uint32 {
	var w uint32
	for i := 0; i < 4; i++ {
		if *pos >= len(data) {
			*pos = 0
		}
		w = w<<8 | uint32(data[*pos])
		*pos++
	}
	return w
}

// expand0 is Blowfish_expand0state: the ordinary Blowfish key schedule step.
func (st *state) expand0(key []byte) {
	j := 0
	for i := 0; i < 18; i++ {
		st.p[i] ^= stream2word(key, &j)
	}
	var l, r uint32
	for i := 0; i < 18; i += 2 {
		l, r = st.encipher(l, r)
		st.p[i], st.p[i+1] = l, r
	}
	for b := 0; b < 4; b++ {
		for k := 0; k < 256; k += 2 {
			l, r = st.encipher(l, r)
			st.s[b][k], st.s[b][k+1] = l, r
		}
	}
}

// expand is Blowfish_expandstate: the salted ("expensive") key schedule step.
func (st *state) expand(salt, key []byte) {
	j := 0
	for i := 0; i < 18; i++ {
		st.p[i] ^= stream2word(key, &j)
	}
	j = 0
	var l, r uint32
	for i := 0; i < 18; i += 2 {
		l ^= stream2word(salt, &j)
		r ^= stream2word(salt, &j)
		l, r = st.encipher(l, r)
		st.p[i], st.p[i+1] = l, r
	}
	for b := 0; b < 4; b++ {
		for k := 0; k < 256; k += 2 {
			l ^= stream2word(salt, &j)
			r ^= stream2word(salt, &j)
			l, r = st.encipher(l, r)
			st.s[b][k], st.s[b][k+1] = l, r
		}
	}
}

// BlowfishEncrypt is plain Blowfish (standard key schedule) on one 8-byte
// block; exported so that the tables can be validated against Schneier's
// vectors and other Blowfish implementations.
func BlowfishEncrypt(key []byte, block [8]byte) [8]byte {
	st := initState()
	st.expand0(key)
	p := 0
	l := stream2word(block[:], &p)
	r := stream2word(block[:], &p)
	l, r = st.encipher(l, r)
	return [8]byte{byte(l >> 24), byte(l >> 16), byte(l >> 8), byte(l), byte(r >> 24), byte(r >> 16), byte(r >> 8), byte(r)}
}

// PiWord returns the i-th 32-bit word of the table (P then S0..S3).
func PiWord(i int) uint32 {
	st := initState()
	if i < 18 {
		return st.p[i]
	}
	i -= 18
	return st.s[i/256][i%256]
}

package bcryptpbkdf

import (
	"crypto/sha512"
	"errors"
)

const hashSize = 32 // BCRYPT_HASHSIZE: 4 Blowfish blocks

var magic = []byte("OxychromaticBlowfishSwatDynamite")

// ErrInvalid is returned for the argument combinations OpenBSD's
// bcrypt_pbkdf(3) rejects (returns -1).
var ErrInvalid = errors.New("bcryptpbkdf ref: invalid arguments")

// Hash is bcrypt_hash(sha2pass, sha2salt): eksblowfish setup with 64 rounds,
// then the 32-byte magic encrypted 64 times in ECB, output little-endian.
func Hash(sha2pass, sha2salt []byte) [hashSize]byte {
	st := initState()
	st.expand(sha2salt, sha2pass)
	for i := 0; i < 64; i++ {
		st.expand0(sha2salt)
		st.expand0(sha2pass)
	}
	var cdata [hashSize / 4]uint32
	j := 0
	for i := range cdata {
		cdata[i] = stream2word(magic, &j)
	}
	for i := 0; i < 64; i++ {
		for b := 0; b < len(cdata); b += 2 {
			cdata[b], cdata[b+1] = st.encipher(cdata[b], cdata[b+1])
		}
	}
	var out [hashSize]byte
	for i, w := range cdata {
		out[4*i+3] = byte(w >> 24)
		out[4*i+2] = byte(w >> 16)
		out[4*i+1] = byte(w >> 8)
		out[4*i+0] = byte(w)
	}
	return out
}

// Key is bcrypt_pbkdf(pass, salt, key[keylen], rounds) transcribed from the
// OpenBSD description, including its own bookkeeping of `amt`/`keylen` (so a
// divergence between that bookkeeping and a "generate all blocks then
// truncate" implementation would be visible).
//
// OpenBSD rejects: rounds < 1, passlen == 0, saltlen == 0, keylen == 0,
// keylen > 32*32, saltlen > 2^20.
func Key(pass, salt []byte, rounds, keylen int) ([]byte, error) {
	if rounds < 1 {
		return nil, ErrInvalid
	}
	if len(pass) == 0 || len(salt) == 0 || keylen <= 0 || keylen > hashSize*hashSize || len(salt) > 1<<20 {
		return nil, ErrInvalid
	}
	key := make([]byte, keylen)
	origkeylen := keylen
	stride := (keylen + hashSize - 1) / hashSize
	amt := (keylen + stride - 1) / stride

	sha2pass := sha512.Sum512(pass)

	countsalt := make([]byte, len(salt)+4)
	copy(countsalt, salt)

	for count := 1; keylen > 0; count++ {
		countsalt[len(salt)+0] = byte(count >> 24)
		countsalt[len(salt)+1] = byte(count >> 16)
		countsalt[len(salt)+2] = byte(count >> 8)
		countsalt[len(salt)+3] = byte(count)

		// first round, salt is salt‖count
		sha2salt := sha512.Sum512(countsalt)
		tmpout := Hash(sha2pass[:], sha2salt[:])
		out := tmpout

		for i := 1; i < rounds; i++ {
			// subsequent rounds, salt is previous output
			sha2salt = sha512.Sum512(tmpout[:])
			tmpout = Hash(sha2pass[:], sha2salt[:])
			for j := range out {
				out[j] ^= tmpout[j]
			}
		}

		// pbkdf2 deviation: output the key material non-linearly
		if keylen < amt {
			amt = keylen
		}
		i := 0
		for ; i < amt; i++ {
			dest := i*stride + (count - 1)
			if dest >= origkeylen {
				break
			}
			key[dest] = out[i]
		}
		keylen -= i
	}
	return key, nil
}

package bcryptpbkdf

import (
	"bytes"
	"encoding/hex"
	"os"
	"os/exec"
	"path/filepath"
	"strconv"
	"testing"
)

func TestPiTables(t *testing.T) {
	// first and last entries of the published Blowfish tables
	want := map[int]uint32{
		0: 0x243f6a88, 1: 0x85a308d3, 17: 0x8979fb1b,
		18: 0xd1310ba6, 18 + 255: 0x6e85076a,
		18 + 256: 0x4b7a70e9, 18 + 512: 0xe93d5a68, 18 + 768: 0x3a39ce37,
		18 + 1023: 0x3ac372e6,
	}
	for i, w := range want {
		if g := PiWord(i); g != w {
			t.Errorf("pi word %d = %08x want %08x", i, g, w)
		}
	}
}

func TestBlowfishSchneierVectors(t *testing.T) {
	vec := [][3]string{
		{"0000000000000000", "0000000000000000", "4ef997456198dd78"},
		{"ffffffffffffffff", "ffffffffffffffff", "51866fd5b85ecb8a"},
		{"3000000000000000", "1000000000000001", "7d856f9a613063f2"},
		{"1111111111111111", "1111111111111111", "2466dd878b963c9d"},
		{"0123456789abcdef", "1111111111111111", "61f9c3802281b096"},
		{"fedcba9876543210", "0123456789abcdef", "0aceab0fc6a0a28d"},
	}
	for _, v := range vec {
		k, _ := hex.DecodeString(v[0])
		p, _ := hex.DecodeString(v[1])
		var blk [8]byte
		copy(blk[:], p)
		c := BlowfishEncrypt(k, blk)
		if hex.EncodeToString(c[:]) != v[2] {
			t.Errorf("key %s pt %s: got %x want %s", v[0], v[1], c, v[2])
		}
	}
}

// Vectors published with OpenBSD's implementation (regress/lib/libutil/bcrypt_pbkdf).
func TestOpenBSDVectors(t *testing.T) {
	vec := []struct {
		rounds     int
		pass, salt string
		want       string
	}{
		{12, "password", "salt", "1ae42c05d487bc02f64921a4ebe4ea93bcacfe135fda99974c06b7b01fae149a"},
		{3, "passwordy\x00PASSWORD\x00", "salty\x00SALT\x00", "7f310bd3e78c3280c59ce4595211a2928e8d4ec744c1ed2efc9f764e3388e0ad"},
		{8, "секретное слово", "посолить немножко",
			"8df43fc6fe131fc47f0c9e39224bd94c70b6fcc8ee8135faddf61156e6cb2733ea765f315a3e1e4afc35bf8687d189254c1e05a6fe80c0617f9183d67260d6a115c6c94e3603e2303fbb43a76a64523ffda686b1d4518543"},
	}
	for i, v := range vec {
		want, _ := hex.DecodeString(v.want)
		got, err := Key([]byte(v.pass), []byte(v.salt), v.rounds, len(want))
		if err != nil || !bytes.Equal(got, want) {
			t.Errorf("vector %d: got %x err %v", i, got, err)
		}
	}
}

func TestInvalid(t *testing.T) {
	for _, c := range []struct{ pl, sl, r, kl int }{{0, 4, 1, 32}, {4, 0, 1, 32}, {4, 4, 0, 32}, {4, 4, 1, 0}, {4, 4, 1, 1025}, {4, 4, -1, 32}} {
		if _, err := Key(make([]byte, c.pl), make([]byte, c.sl), c.r, c.kl); err == nil {
			t.Errorf("%+v accepted", c)
		}
	}
	if k, err := Key([]byte("p"), []byte("s"), 1, 1024); err != nil || len(k) != 1024 {
		t.Errorf("1024 rejected")
	}
}

// OpenSSH itself vouches for the reference: a key written by ssh-keygen with
// bcrypt KDF decrypts (check ints equal) under the reference's 48 bytes.
func TestAgainstSSHKeygen(t *testing.T) {
	if _, err := exec.LookPath("ssh-keygen"); err != nil {
		t.Skip("no ssh-keygen")
	}
	dir := t.TempDir()
	for _, rounds := range []int{1, 2, 5, 16} {
		f := filepath.Join(dir, "k"+strconv.Itoa(rounds))
		out, err := exec.Command("ssh-keygen", "-q", "-t", "ed25519", "-a", strconv.Itoa(rounds), "-N", "pass phrase", "-C", "c", "-f", f).CombinedOutput()
		if err != nil {
			t.Fatalf("ssh-keygen: %v %s", err, out)
		}
		pemBytes, _ := os.ReadFile(f)
		info, err := DecryptOpenSSHKey(pemBytes, []byte("pass phrase"))
		if err != nil || !info.CheckOK || info.Rounds != rounds {
			t.Errorf("rounds %d: err %v info %+v", rounds, err, info)
		}
		info, err = DecryptOpenSSHKey(pemBytes, []byte("wrong"))
		if err != nil || info.CheckOK {
			t.Errorf("wrong passphrase accepted")
		}
	}
}

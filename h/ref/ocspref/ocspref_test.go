package ocspref

import (
	"bytes"
	"crypto"
	"crypto/ecdsa"
	"crypto/elliptic"
	"crypto/rand"
	"crypto/sha1"
	"crypto/sha256"
	"crypto/x509"
	"crypto/x509/pkix"
	"encoding/hex"
	"encoding/pem"
	"math/big"
	"os"
	"os/exec"
	"path/filepath"
	"strings"
	"testing"
	"time"
)

// A real-world response (Google Trust Services, Nov 2021), byKey responder,
// sha256WithRSA, no certificates. Field values below are read off the hex by
// hand (they are also what the upstream unit test documents).
const gtsResponseHex = "308201d40a0100a08201cd308201c906092b0601050507300101048201ba308201b630819fa21604148a747faf85cdee95cd3d9cd0e24614f371351d27180f32303231313130373134323535335a30743072304a300906052b0e03021a05000414c72e798addff6134b3baed4742b8bbc6c024076304148a747faf85cdee95cd3d9cd0e24614f371351d27021100f374542e3c7a68360a000000011034628000180f32303231313130373134323535315aa011180f32303231313131343133323535305a300d06092a864886f70d01010b0500038201010087749296e681abe36f2efef047730178ce57e948426959ac62ac5f25b9a63ba3b7f31b9f683aea384d21845c8dda09498f2531c78f3add3969ca4092f31f58ac3c2613719d63b7b9a5260e52814c827f8dd44f4f753b2528bcd03ccec02cdcd4918247f5323f8cfc12cee4ac8f0361587b267019cfd12336db09b04eac59807a480213cfcd9913a3aa2d13a6c88c0a750475a0e991806d94ec0fc9dab599171a43a08e6d935b4a4a13dff9c4a97ad46cef6fb4d61cb2363d788c12d81cce851b478889c2e05d80cd00ae346772a1e7502f011e2ed9be8ef4b194c8b65d6e33671d878cfb30267972075b062ff3d56b51984bf685161afc6e2538dd6e6a23063c"

func TestWalkRealResponse(t *testing.T) {
	in, _ := hex.DecodeString(gtsResponseHex)
	r, err := Parse(in)
	if err != nil {
		t.Fatal(err)
	}
	if r.RespStatus != 0 || !r.HasBasic || len(r.Singles) != 1 || len(r.Certs) != 0 {
		t.Fatalf("shape: %+v", r)
	}
	s := r.Singles[0]
	if hex.EncodeToString(r.ResponderKeyHash) != "8a747faf85cdee95cd3d9cd0e24614f371351d27" || r.ResponderName != nil {
		t.Errorf("responder: %x %x", r.ResponderKeyHash, r.ResponderName)
	}
	want, _ := new(big.Int).SetString("f374542e3c7a68360a00000001103462", 16)
	if s.Serial.Cmp(want) != 0 {
		t.Errorf("serial %x", s.Serial)
	}
	if s.Status != 0 || s.HashOID != "1.3.14.3.2.26" {
		t.Errorf("status %d hash %s", s.Status, s.HashOID)
	}
	if !s.ThisUpdate.Equal(time.Date(2021, 11, 7, 14, 25, 51, 0, time.UTC)) || !s.HasNext ||
		!s.NextUpdate.Equal(time.Date(2021, 11, 14, 13, 25, 50, 0, time.UTC)) ||
		!r.ProducedAt.Equal(time.Date(2021, 11, 7, 14, 25, 53, 0, time.UTC)) {
		t.Errorf("times %v %v %v", s.ThisUpdate, s.NextUpdate, r.ProducedAt)
	}
	if r.SigAlgOID != "1.2.840.113549.1.1.11" || len(r.SigBytes) != 256 || r.SigUnused != 0 {
		t.Errorf("sig %s %d", r.SigAlgOID, len(r.SigBytes))
	}
	// byte map: offsets read off the hex: tbs starts after 30 82 01 d4 | 0a 01 00 | a0 82 01 cd | 30 82 01 c9 | 06 09 … (11) | 04 82 01 ba | 30 82 01 b6
	if r.TBS.Off != 4+3+4+4+11+4+4 || in[r.TBS.Off] != 0x30 || in[r.TBS.Off+1] != 0x81 || in[r.TBS.Off+2] != 0x9f {
		t.Errorf("tbs at %d", r.TBS.Off)
	}
	if r.Sig.End() != len(in) {
		t.Errorf("sig end %d", r.Sig.End())
	}
	seen := map[string]int{}
	for p := range in {
		seen[r.Region(p)]++
	}
	if seen["tbs"] != 3+0x9f || seen["sig"] != 4+1+256 || seen["sigalg"] != 15 || seen["resp-status"] != 3 || seen["resp-type"] != 11 || seen["wrapper-hdr"] != 20 || seen["other"] != 0 {
		t.Errorf("regions %v", seen)
	}
}

func TestIntCodec(t *testing.T) {
	for _, c := range []struct {
		v   string
		hex string
	}{
		{"0", "00"}, {"127", "7f"}, {"128", "0080"}, {"255", "00ff"}, {"256", "0100"},
		{"-1", "ff"}, {"-128", "80"}, {"-129", "ff7f"}, {"-256", "ff00"}, {"-32768", "8000"},
		{"18446744073709551615", "00ffffffffffffffff"}, {"9223372036854775808", "008000000000000000"},
	} {
		v, _ := new(big.Int).SetString(c.v, 10)
		if got := hex.EncodeToString(encInt(v)); got != c.hex {
			t.Errorf("encInt(%s)=%s want %s", c.v, got, c.hex)
		}
		b, _ := hex.DecodeString(c.hex)
		back, err := decInt(b)
		if err != nil || back.Cmp(v) != 0 {
			t.Errorf("decInt(%s)=%v,%v", c.hex, back, err)
		}
	}
	for _, bad := range []string{"", "0000", "007f", "ffff", "ff80"} {
		b, _ := hex.DecodeString(bad)
		if _, err := decInt(b); err == nil {
			t.Errorf("decInt(%q) accepted", bad)
		}
	}
}

func TestOIDCodec(t *testing.T) {
	// X.690 8.19.5 example {2 999 3} = 88 37 03; sha256 = 60 86 48 01 65 03 04 02 01
	if got := hex.EncodeToString(encOID([]int{2, 999, 3})); got != "883703" {
		t.Errorf("got %s", got)
	}
	if got := hex.EncodeToString(encOID([]int{2, 16, 840, 1, 101, 3, 4, 2, 1})); got != "608648016503040201" {
		t.Errorf("got %s", got)
	}
	s, err := decOID([]byte{0x88, 0x37, 0x03})
	if err != nil || s != "2.999.3" {
		t.Errorf("%s %v", s, err)
	}
	s, err = decOID([]byte{0x2b, 0x0e, 0x03, 0x02, 0x1a})
	if err != nil || s != "1.3.14.3.2.26" {
		t.Errorf("%s %v", s, err)
	}
}

func TestTLVLengths(t *testing.T) {
	for _, n := range []int{0, 1, 127, 128, 255, 256, 65535, 65536} {
		b := TLV(0x04, make([]byte, n))
		s, err := readTLV(b, 0, len(b))
		if err != nil || s.Len != n || s.End() != len(b) {
			t.Errorf("n=%d: %+v %v", n, s, err)
		}
	}
	for _, bad := range []string{"048100", "04820001", "0480", "0401", "1f0100", "0485ffffffffff"} {
		b, _ := hex.DecodeString(bad)
		if _, err := readTLV(b, 0, len(b)); err == nil {
			t.Errorf("readTLV(%s) accepted", bad)
		}
	}
}

func TestGenTime(t *testing.T) {
	tm, err := decGenTime([]byte("20240229235959Z"))
	if err != nil || !tm.Equal(time.Date(2024, 2, 29, 23, 59, 59, 0, time.UTC)) {
		t.Errorf("%v %v", tm, err)
	}
	for _, bad := range []string{"20230229000000Z", "2024022923595Z", "20240229235959", "20240229235959+0000", "20241301000000Z", "20240101240000Z", "20240101000060Z", "20240229235959.5Z"} {
		if _, err := decGenTime([]byte(bad)); err == nil {
			t.Errorf("accepted %s", bad)
		}
	}
	if GenTime(time.Date(5, 1, 2, 3, 4, 5, 999, time.FixedZone("x", 3600))) != "00050102020405Z" {
		t.Errorf("GenTime")
	}
}

// The builder's output must walk back to the spec, and OpenSSL (an
// independent OCSP implementation) must accept and verify it.
func TestBuildWalkAndOpenSSL(t *testing.T) {
	key, err := ecdsa.GenerateKey(elliptic.P256(), rand.Reader)
	if err != nil {
		t.Fatal(err)
	}
	tmpl := &x509.Certificate{SerialNumber: big.NewInt(1), Subject: pkix.Name{CommonName: "ocspref CA"},
		NotBefore: time.Date(2000, 1, 1, 0, 0, 0, 0, time.UTC), NotAfter: time.Date(2100, 1, 1, 0, 0, 0, 0, time.UTC),
		IsCA: true, BasicConstraintsValid: true, KeyUsage: x509.KeyUsageCertSign | x509.KeyUsageDigitalSignature}
	caDER, err := x509.CreateCertificate(rand.Reader, tmpl, tmpl, &key.PublicKey, key)
	if err != nil {
		t.Fatal(err)
	}
	subj, pk, err := CertSubjectAndKey(caDER)
	if err != nil {
		t.Fatal(err)
	}
	ca, _ := x509.ParseCertificate(caDER)
	if !bytes.Equal(subj, ca.RawSubject) {
		t.Fatalf("subject mismatch")
	}
	nh, kh := sha1.Sum(subj), sha1.Sum(pk)
	reason := int64(1)
	serialBig, _ := new(big.Int).SetString("80ffee112233445566778899aabbccddeeff0011", 16)
	for _, byKey := range []bool{false, true} {
		spec := BSpec{ProducedAt: "20300102030405Z",
			Singles: []BSingle{
				{HashOID: []int{1, 3, 14, 3, 2, 26}, NameHash: nh[:], KeyHash: kh[:], Serial: serialBig, Status: 1, RevokedAt: "20290101000000Z", Reason: &reason, ThisUpdate: "20300102030400Z", NextUpdate: "20300109030400Z",
					Exts: []BExt{{OID: []int{1, 3, 6, 1, 5, 5, 7, 48, 1, 99}, Value: []byte{4, 1, 7}}}},
				{HashOID: []int{1, 3, 14, 3, 2, 26}, NameHash: nh[:], KeyHash: kh[:], Serial: big.NewInt(5), Status: 0, ThisUpdate: "20300102030400Z"},
				{HashOID: []int{1, 3, 14, 3, 2, 26}, NameHash: nh[:], KeyHash: kh[:], Serial: big.NewInt(255), Status: 2, ThisUpdate: "20300102030400Z"},
			}}
		if byKey {
			spec.ResponderKeyHash = kh[:]
		} else {
			spec.ResponderName = subj
		}
		tbs := BuildTBS(spec)
		d := sha256.Sum256(tbs)
		sig, err := key.Sign(rand.Reader, d[:], crypto.SHA256)
		if err != nil {
			t.Fatal(err)
		}
		resp := Assemble(tbs, []int{1, 2, 840, 10045, 4, 3, 2}, false, sig, nil)
		r, err := Parse(resp)
		if err != nil {
			t.Fatal(err)
		}
		if !bytes.Equal(r.TBSBytes(), tbs) || !bytes.Equal(r.SigBytes, sig) || len(r.Singles) != 3 {
			t.Fatalf("walk mismatch")
		}
		s0 := r.Singles[0]
		if s0.Serial.Cmp(serialBig) != 0 || s0.Status != 1 || !s0.HasReason || s0.Reason != 1 || len(s0.Exts) != 1 || s0.Exts[0].OID != "1.3.6.1.5.5.7.48.1.99" ||
			!s0.RevokedAt.Equal(time.Date(2029, 1, 1, 0, 0, 0, 0, time.UTC)) || r.Singles[2].Status != 2 || r.Singles[1].HasNext {
			t.Errorf("fields: %+v", s0)
		}
		if byKey != (r.ResponderKeyHash != nil) || byKey == (r.ResponderName != nil) {
			t.Errorf("responder form")
		}
		if _, err := exec.LookPath("openssl"); err != nil {
			t.Log("openssl not available; skipping witness")
			continue
		}
		dir := t.TempDir()
		os.WriteFile(filepath.Join(dir, "ca.pem"), pem.EncodeToMemory(&pem.Block{Type: "CERTIFICATE", Bytes: caDER}), 0o600)
		os.WriteFile(filepath.Join(dir, "resp.der"), resp, 0o600)
		out, err := exec.Command("openssl", "ocsp", "-respin", filepath.Join(dir, "resp.der"), "-VAfile", filepath.Join(dir, "ca.pem"), "-resp_text").CombinedOutput()
		txt := string(out)
		if err != nil || !strings.Contains(txt, "Response verify OK") {
			t.Fatalf("openssl rejects built response (byKey=%v): %v\n%s", byKey, err, txt)
		}
		for _, want := range []string{"Serial Number: 80FFEE112233445566778899AABBCCDDEEFF0011", "Cert Status: revoked", "Revocation Time: Jan  1 00:00:00 2029 GMT", "Revocation Reason: keyCompromise (0x1)", "Produced At: Jan  2 03:04:05 2030 GMT", "Cert Status: unknown", "Serial Number: FF", "Next Update: Jan  9 03:04:00 2030 GMT"} {
			if !strings.Contains(txt, want) {
				t.Errorf("openssl text lacks %q:\n%s", want, txt)
			}
		}
	}
}

func TestRequestWalk(t *testing.T) {
	// the request vector of the upstream unit test (sha1, one CertID)
	in, _ := hex.DecodeString("3051304f304d304b3049300906052b0e03021a05000414c0fe0278fc99188891b3f212e9c7e1b21ab7bfc004140dfc1df0a9e0f01ce7f2b213177e6f8d157cd4f60210017f77deb3bcbb235d44ccc7dba62e72")
	q, err := ParseRequest(in)
	if err != nil {
		t.Fatal(err)
	}
	want, _ := new(big.Int).SetString("017f77deb3bcbb235d44ccc7dba62e72", 16)
	if q.HashOID != "1.3.14.3.2.26" || q.Serial.Cmp(want) != 0 || hex.EncodeToString(q.NameHash) != "c0fe0278fc99188891b3f212e9c7e1b21ab7bfc0" || hex.EncodeToString(q.KeyHash) != "0dfc1df0a9e0f01ce7f2b213177e6f8d157cd4f6" || q.N != 1 {
		t.Errorf("%+v", q)
	}
}

// Package ocspref is an executable reading of the RFC 6960 §4.2.1 ASN.1 module
// (OCSPResponse / BasicOCSPResponse / ResponseData / SingleResponse) and
// §4.1.1 (OCSPRequest), written as a plain DER TLV walker and a TLV
// concatenating builder. It shares no code with golang.org/x/crypto/ocsp and
// does not use encoding/asn1 or crypto/x509.
//
// The walker serves two purposes for C48:
//
//  1. an independent parse of the fields (status, serial, times, reason,
//     extensions, responder ID) of responses created by Go, by OpenSSL and by
//     the builder below;
//  2. a byte map: for every offset of a response it names the structural
//     region (tbsResponseData, signature, embedded certificate TBS …), which
//     is what the mutation oracle needs to know which bytes are covered by a
//     signature.
//
// The builder produces the encodings CreateResponse cannot (byKey responder
// ID, several SingleResponses, several certificates, responseExtensions).
package ocspref

import (
	"errors"
	"fmt"
	"math/big"
	"strconv"
	"strings"
	"time"
)

// Span is one TLV inside the input: header at [Off, Off+Hdr), content at
// [Off+Hdr, Off+Hdr+Len).
type Span struct {
	Off, Hdr, Len int
	Tag           byte
}

func (s Span) End() int         { return s.Off + s.Hdr + s.Len }
func (s Span) Body() (int, int) { return s.Off + s.Hdr, s.End() }
func (s Span) Has(p int) bool   { return p >= s.Off && p < s.End() }
func (s Span) InHdr(p int) bool { return p >= s.Off && p < s.Off+s.Hdr }
func (s Span) Valid() bool      { return s.Hdr > 0 }

// readTLV reads one definite-length, single-identifier-octet TLV at off,
// requiring minimal length octets (DER) and that it ends at or before lim.
func readTLV(in []byte, off, lim int) (Span, error) {
	var s Span
	if off >= lim {
		return s, errors.New("ocspref: truncated (no tag)")
	}
	s.Off = off
	s.Tag = in[off]
	if s.Tag&0x1f == 0x1f {
		return s, errors.New("ocspref: high tag number")
	}
	if off+1 >= lim {
		return s, errors.New("ocspref: truncated (no length)")
	}
	l0 := in[off+1]
	switch {
	case l0 < 0x80:
		s.Hdr, s.Len = 2, int(l0)
	case l0 == 0x80:
		return s, errors.New("ocspref: indefinite length")
	default:
		k := int(l0 & 0x7f)
		if k > 4 {
			return s, errors.New("ocspref: length too long")
		}
		if off+2+k > lim {
			return s, errors.New("ocspref: truncated length")
		}
		n := 0
		for _, b := range in[off+2 : off+2+k] {
			n = n<<8 | int(b)
		}
		if in[off+2] == 0 || n < 0x80 {
			return s, errors.New("ocspref: non-minimal length")
		}
		s.Hdr, s.Len = 2+k, n
	}
	if s.End() > lim {
		return s, errors.New("ocspref: content exceeds container")
	}
	return s, nil
}

// children splits the content of a constructed TLV into TLVs.
func children(in []byte, s Span) ([]Span, error) {
	a, b := s.Body()
	var out []Span
	for a < b {
		c, err := readTLV(in, a, b)
		if err != nil {
			return nil, err
		}
		out = append(out, c)
		a = c.End()
	}
	return out, nil
}

func content(in []byte, s Span) []byte { a, b := s.Body(); return in[a:b] }

// ---- value decoders ----------------------------------------------------

func decInt(c []byte) (*big.Int, error) {
	if len(c) == 0 {
		return nil, errors.New("ocspref: empty INTEGER")
	}
	if len(c) > 1 && ((c[0] == 0 && c[1]&0x80 == 0) || (c[0] == 0xff && c[1]&0x80 != 0)) {
		return nil, errors.New("ocspref: non-minimal INTEGER")
	}
	v := new(big.Int).SetBytes(c)
	if c[0]&0x80 != 0 { // two's complement negative
		m := new(big.Int).Lsh(big.NewInt(1), uint(8*len(c)))
		v.Sub(v, m)
	}
	return v, nil
}

func encInt(v *big.Int) []byte {
	if v.Sign() >= 0 {
		b := v.Bytes()
		if len(b) == 0 {
			return []byte{0}
		}
		if b[0]&0x80 != 0 {
			b = append([]byte{0}, b...)
		}
		return b
	}
	// negative: smallest n with -2^(8n-1) <= v
	n := 1
	for {
		lim := new(big.Int).Lsh(big.NewInt(1), uint(8*n-1))
		lim.Neg(lim)
		if v.Cmp(lim) >= 0 {
			break
		}
		n++
	}
	m := new(big.Int).Lsh(big.NewInt(1), uint(8*n))
	t := new(big.Int).Add(m, v)
	b := t.Bytes()
	for len(b) < n {
		b = append([]byte{0}, b...)
	}
	return b
}

func decOID(c []byte) (string, error) {
	if len(c) == 0 {
		return "", errors.New("ocspref: empty OID")
	}
	var arcs []*big.Int
	cur := new(big.Int)
	start := true
	for i, b := range c {
		if start && b == 0x80 {
			return "", errors.New("ocspref: non-minimal OID arc")
		}
		start = false
		cur.Lsh(cur, 7)
		cur.Or(cur, big.NewInt(int64(b&0x7f)))
		if b&0x80 == 0 {
			arcs = append(arcs, cur)
			cur = new(big.Int)
			start = true
		} else if i == len(c)-1 {
			return "", errors.New("ocspref: truncated OID arc")
		}
	}
	first := arcs[0]
	var parts []string
	switch {
	case first.Cmp(big.NewInt(40)) < 0:
		parts = append(parts, "0", first.String())
	case first.Cmp(big.NewInt(80)) < 0:
		parts = append(parts, "1", new(big.Int).Sub(first, big.NewInt(40)).String())
	default:
		parts = append(parts, "2", new(big.Int).Sub(first, big.NewInt(80)).String())
	}
	for _, a := range arcs[1:] {
		parts = append(parts, a.String())
	}
	return strings.Join(parts, "."), nil
}

func base128(v int) []byte {
	if v == 0 {
		return []byte{0}
	}
	var rev []byte
	for v > 0 {
		rev = append(rev, byte(v&0x7f))
		v >>= 7
	}
	out := make([]byte, len(rev))
	for i := range rev {
		out[i] = rev[len(rev)-1-i]
		if i != len(rev)-1 {
			out[i] |= 0x80
		}
	}
	return out
}

func encOID(arcs []int) []byte {
	out := base128(arcs[0]*40 + arcs[1])
	for _, a := range arcs[2:] {
		out = append(out, base128(a)...)
	}
	return out
}

// decGenTime accepts exactly the DER form YYYYMMDDHHMMSSZ (RFC 6960 §4.2.2.1
// via RFC 5280 §4.1.2.5.2).
func decGenTime(c []byte) (time.Time, error) {
	if len(c) != 15 || c[14] != 'Z' {
		return time.Time{}, fmt.Errorf("ocspref: GeneralizedTime %q not YYYYMMDDHHMMSSZ", c)
	}
	for _, b := range c[:14] {
		if b < '0' || b > '9' {
			return time.Time{}, fmt.Errorf("ocspref: GeneralizedTime %q has non-digit", c)
		}
	}
	n := func(a, b int) int { v, _ := strconv.Atoi(string(c[a:b])); return v }
	y, mo, d, h, mi, s := n(0, 4), n(4, 6), n(6, 8), n(8, 10), n(10, 12), n(12, 14)
	if mo < 1 || mo > 12 || d < 1 || d > 31 || h > 23 || mi > 59 || s > 59 {
		return time.Time{}, fmt.Errorf("ocspref: GeneralizedTime %q out of range", c)
	}
	t := time.Date(y, time.Month(mo), d, h, mi, s, 0, time.UTC)
	if t.Day() != d || int(t.Month()) != mo {
		return time.Time{}, fmt.Errorf("ocspref: GeneralizedTime %q not a calendar date", c)
	}
	return t, nil
}

// GenTime renders t (UTC, whole seconds) as the DER GeneralizedTime string.
func GenTime(t time.Time) string {
	t = t.UTC()
	return fmt.Sprintf("%04d%02d%02d%02d%02d%02dZ", t.Year(), int(t.Month()), t.Day(), t.Hour(), t.Minute(), t.Second())
}

// ---- parsed forms ----------------------------------------------------------

type Ext struct {
	OID      string
	Critical bool
	Value    []byte
}

type Single struct {
	Span       Span
	HashOID    string
	HashParams []byte // raw TLV of the AlgorithmIdentifier parameters (nil if absent)
	NameHash   []byte
	KeyHash    []byte
	Serial     *big.Int
	SerialDER  []byte // content octets of the INTEGER
	Status     int    // 0 good, 1 revoked, 2 unknown
	RevokedAt  time.Time
	HasReason  bool
	Reason     int64
	ThisUpdate time.Time
	HasNext    bool
	NextUpdate time.Time
	Exts       []Ext
}

type CertSpan struct {
	Whole, TBS, SigAlg, Sig Span
}

// Resp is the walker's view of an OCSPResponse.
type Resp struct {
	Raw        []byte
	RespStatus int64
	Outer      Span // OCSPResponse SEQUENCE
	StatusTLV  Span // ENUMERATED
	HasBasic   bool
	RBWrapper  Span // [0] EXPLICIT
	RBSeq      Span // ResponseBytes SEQUENCE
	TypeOID    Span
	TypeOIDStr string
	Octets     Span // OCTET STRING holding BasicOCSPResponse
	Basic      Span // BasicOCSPResponse SEQUENCE
	TBS        Span // tbsResponseData
	SigAlg     Span
	SigAlgOID  string
	SigAlgPar  []byte // raw TLV of parameters, nil if absent
	Sig        Span   // BIT STRING
	SigUnused  int
	SigBytes   []byte
	CertsWrap  Span // [0] EXPLICIT (zero Span if absent)
	CertsSeq   Span
	Certs      []CertSpan

	Version          int64
	HasVersion       bool
	ResponderID      Span
	ResponderName    []byte // DER of the Name (byName)
	ResponderKeyHash []byte // byKey
	ProducedAt       time.Time
	Singles          []Single
	RespExts         []Ext
}

// TBSBytes returns the DER of tbsResponseData (the bytes covered by the
// response signature, RFC 6960 §4.2.1: "The value for signature SHALL be
// computed on the hash of the DER encoding of ResponseData").
func (r *Resp) TBSBytes() []byte { return r.Raw[r.TBS.Off:r.TBS.End()] }

func parseExts(in []byte, seq Span) ([]Ext, error) {
	if seq.Tag != 0x30 {
		return nil, errors.New("ocspref: Extensions not a SEQUENCE")
	}
	items, err := children(in, seq)
	if err != nil {
		return nil, err
	}
	var out []Ext
	for _, it := range items {
		if it.Tag != 0x30 {
			return nil, errors.New("ocspref: Extension not a SEQUENCE")
		}
		f, err := children(in, it)
		if err != nil {
			return nil, err
		}
		if len(f) < 2 || len(f) > 3 || f[0].Tag != 0x06 {
			return nil, errors.New("ocspref: bad Extension shape")
		}
		var e Ext
		if e.OID, err = decOID(content(in, f[0])); err != nil {
			return nil, err
		}
		k := 1
		if f[k].Tag == 0x01 {
			c := content(in, f[k])
			if len(c) != 1 || (c[0] != 0 && c[0] != 0xff) {
				return nil, errors.New("ocspref: bad BOOLEAN")
			}
			e.Critical = c[0] == 0xff
			k++
		}
		if k != len(f)-1 || f[k].Tag != 0x04 {
			return nil, errors.New("ocspref: bad Extension value")
		}
		e.Value = append([]byte{}, content(in, f[k])...)
		out = append(out, e)
	}
	return out, nil
}

func parseAlgID(in []byte, s Span) (oid string, params []byte, err error) {
	if s.Tag != 0x30 {
		return "", nil, errors.New("ocspref: AlgorithmIdentifier not a SEQUENCE")
	}
	f, err := children(in, s)
	if err != nil {
		return "", nil, err
	}
	if len(f) < 1 || len(f) > 2 || f[0].Tag != 0x06 {
		return "", nil, errors.New("ocspref: bad AlgorithmIdentifier")
	}
	if oid, err = decOID(content(in, f[0])); err != nil {
		return "", nil, err
	}
	if len(f) == 2 {
		params = in[f[1].Off:f[1].End()]
	}
	return oid, params, nil
}

func parseSingle(in []byte, s Span) (Single, error) {
	var o Single
	o.Span = s
	if s.Tag != 0x30 {
		return o, errors.New("ocspref: SingleResponse not a SEQUENCE")
	}
	f, err := children(in, s)
	if err != nil {
		return o, err
	}
	if len(f) < 3 {
		return o, errors.New("ocspref: SingleResponse too short")
	}
	// CertID
	if f[0].Tag != 0x30 {
		return o, errors.New("ocspref: CertID not a SEQUENCE")
	}
	cf, err := children(in, f[0])
	if err != nil {
		return o, err
	}
	if len(cf) != 4 || cf[1].Tag != 0x04 || cf[2].Tag != 0x04 || cf[3].Tag != 0x02 {
		return o, errors.New("ocspref: bad CertID shape")
	}
	if o.HashOID, o.HashParams, err = parseAlgID(in, cf[0]); err != nil {
		return o, err
	}
	o.NameHash = append([]byte{}, content(in, cf[1])...)
	o.KeyHash = append([]byte{}, content(in, cf[2])...)
	o.SerialDER = append([]byte{}, content(in, cf[3])...)
	if o.Serial, err = decInt(o.SerialDER); err != nil {
		return o, err
	}
	// CertStatus CHOICE
	cs := f[1]
	switch cs.Tag {
	case 0x80: // [0] IMPLICIT NULL
		if cs.Len != 0 {
			return o, errors.New("ocspref: good with content")
		}
		o.Status = 0
	case 0x82: // [2] IMPLICIT NULL (UnknownInfo)
		if cs.Len != 0 {
			return o, errors.New("ocspref: unknown with content")
		}
		o.Status = 2
	case 0xa1: // [1] IMPLICIT RevokedInfo
		o.Status = 1
		rf, err := children(in, cs)
		if err != nil {
			return o, err
		}
		if len(rf) < 1 || len(rf) > 2 || rf[0].Tag != 0x18 {
			return o, errors.New("ocspref: bad RevokedInfo")
		}
		if o.RevokedAt, err = decGenTime(content(in, rf[0])); err != nil {
			return o, err
		}
		if len(rf) == 2 {
			if rf[1].Tag != 0xa0 {
				return o, errors.New("ocspref: bad revocationReason tag")
			}
			inner, err := children(in, rf[1])
			if err != nil {
				return o, err
			}
			if len(inner) != 1 || inner[0].Tag != 0x0a {
				return o, errors.New("ocspref: revocationReason not ENUMERATED")
			}
			v, err := decInt(content(in, inner[0]))
			if err != nil {
				return o, err
			}
			if !v.IsInt64() {
				return o, errors.New("ocspref: reason out of range")
			}
			o.HasReason, o.Reason = true, v.Int64()
		}
	default:
		return o, fmt.Errorf("ocspref: bad CertStatus tag %#x", cs.Tag)
	}
	if f[2].Tag != 0x18 {
		return o, errors.New("ocspref: thisUpdate not GeneralizedTime")
	}
	if o.ThisUpdate, err = decGenTime(content(in, f[2])); err != nil {
		return o, err
	}
	k := 3
	if k < len(f) && f[k].Tag == 0xa0 {
		inner, err := children(in, f[k])
		if err != nil {
			return o, err
		}
		if len(inner) != 1 || inner[0].Tag != 0x18 {
			return o, errors.New("ocspref: bad nextUpdate")
		}
		if o.NextUpdate, err = decGenTime(content(in, inner[0])); err != nil {
			return o, err
		}
		o.HasNext = true
		k++
	}
	if k < len(f) && f[k].Tag == 0xa1 {
		inner, err := children(in, f[k])
		if err != nil {
			return o, err
		}
		if len(inner) != 1 {
			return o, errors.New("ocspref: bad singleExtensions")
		}
		if o.Exts, err = parseExts(in, inner[0]); err != nil {
			return o, err
		}
		k++
	}
	if k != len(f) {
		return o, errors.New("ocspref: trailing elements in SingleResponse")
	}
	return o, nil
}

// Parse walks an OCSPResponse. Error responses (status != 0, no
// responseBytes) parse with HasBasic=false.
func Parse(in []byte) (*Resp, error) {
	r := &Resp{Raw: in}
	var err error
	if r.Outer, err = readTLV(in, 0, len(in)); err != nil {
		return nil, err
	}
	if r.Outer.Tag != 0x30 {
		return nil, errors.New("ocspref: OCSPResponse not a SEQUENCE")
	}
	if r.Outer.End() != len(in) {
		return nil, errors.New("ocspref: trailing data")
	}
	top, err := children(in, r.Outer)
	if err != nil {
		return nil, err
	}
	if len(top) < 1 || len(top) > 2 || top[0].Tag != 0x0a {
		return nil, errors.New("ocspref: bad OCSPResponse shape")
	}
	r.StatusTLV = top[0]
	st, err := decInt(content(in, top[0]))
	if err != nil {
		return nil, err
	}
	r.RespStatus = st.Int64()
	if len(top) == 1 {
		return r, nil
	}
	r.RBWrapper = top[1]
	if r.RBWrapper.Tag != 0xa0 {
		return nil, errors.New("ocspref: responseBytes tag")
	}
	w, err := children(in, r.RBWrapper)
	if err != nil {
		return nil, err
	}
	if len(w) != 1 || w[0].Tag != 0x30 {
		return nil, errors.New("ocspref: ResponseBytes not a SEQUENCE")
	}
	r.RBSeq = w[0]
	rb, err := children(in, r.RBSeq)
	if err != nil {
		return nil, err
	}
	if len(rb) != 2 || rb[0].Tag != 0x06 || rb[1].Tag != 0x04 {
		return nil, errors.New("ocspref: bad ResponseBytes shape")
	}
	r.TypeOID, r.Octets = rb[0], rb[1]
	if r.TypeOIDStr, err = decOID(content(in, rb[0])); err != nil {
		return nil, err
	}
	if r.TypeOIDStr != "1.3.6.1.5.5.7.48.1.1" {
		return nil, errors.New("ocspref: not id-pkix-ocsp-basic")
	}
	oa, ob := r.Octets.Body()
	if r.Basic, err = readTLV(in, oa, ob); err != nil {
		return nil, err
	}
	if r.Basic.Tag != 0x30 || r.Basic.End() != ob {
		return nil, errors.New("ocspref: BasicOCSPResponse shape")
	}
	r.HasBasic = true
	bf, err := children(in, r.Basic)
	if err != nil {
		return nil, err
	}
	if len(bf) < 3 || len(bf) > 4 || bf[0].Tag != 0x30 || bf[1].Tag != 0x30 || bf[2].Tag != 0x03 {
		return nil, errors.New("ocspref: bad BasicOCSPResponse fields")
	}
	r.TBS, r.SigAlg, r.Sig = bf[0], bf[1], bf[2]
	if r.SigAlgOID, r.SigAlgPar, err = parseAlgID(in, r.SigAlg); err != nil {
		return nil, err
	}
	sc := content(in, r.Sig)
	if len(sc) < 1 || sc[0] > 7 {
		return nil, errors.New("ocspref: bad BIT STRING")
	}
	r.SigUnused = int(sc[0])
	r.SigBytes = append([]byte{}, sc[1:]...)
	if len(bf) == 4 {
		r.CertsWrap = bf[3]
		if r.CertsWrap.Tag != 0xa0 {
			return nil, errors.New("ocspref: certs tag")
		}
		cw, err := children(in, r.CertsWrap)
		if err != nil {
			return nil, err
		}
		if len(cw) != 1 || cw[0].Tag != 0x30 {
			return nil, errors.New("ocspref: certs not SEQUENCE OF")
		}
		r.CertsSeq = cw[0]
		cs, err := children(in, r.CertsSeq)
		if err != nil {
			return nil, err
		}
		for _, c := range cs {
			if c.Tag != 0x30 {
				return nil, errors.New("ocspref: Certificate not a SEQUENCE")
			}
			cf, err := children(in, c)
			if err != nil {
				return nil, err
			}
			if len(cf) != 3 || cf[0].Tag != 0x30 || cf[1].Tag != 0x30 || cf[2].Tag != 0x03 {
				return nil, errors.New("ocspref: bad Certificate shape")
			}
			r.Certs = append(r.Certs, CertSpan{Whole: c, TBS: cf[0], SigAlg: cf[1], Sig: cf[2]})
		}
	}
	// ResponseData
	tf, err := children(in, r.TBS)
	if err != nil {
		return nil, err
	}
	k := 0
	if k < len(tf) && tf[k].Tag == 0xa0 {
		inner, err := children(in, tf[k])
		if err != nil {
			return nil, err
		}
		if len(inner) != 1 || inner[0].Tag != 0x02 {
			return nil, errors.New("ocspref: bad version")
		}
		v, err := decInt(content(in, inner[0]))
		if err != nil {
			return nil, err
		}
		r.Version, r.HasVersion = v.Int64(), true
		k++
	}
	if len(tf)-k < 3 {
		return nil, errors.New("ocspref: ResponseData too short")
	}
	r.ResponderID = tf[k]
	switch tf[k].Tag {
	case 0xa1:
		a, b := tf[k].Body()
		n, err := readTLV(in, a, b)
		if err != nil {
			return nil, err
		}
		if n.Tag != 0x30 || n.End() != b {
			return nil, errors.New("ocspref: byName not a single Name")
		}
		r.ResponderName = append([]byte{}, in[a:b]...)
	case 0xa2:
		a, b := tf[k].Body()
		n, err := readTLV(in, a, b)
		if err != nil {
			return nil, err
		}
		if n.Tag != 0x04 || n.End() != b {
			return nil, errors.New("ocspref: byKey not a single OCTET STRING")
		}
		r.ResponderKeyHash = append([]byte{}, content(in, n)...)
	default:
		return nil, fmt.Errorf("ocspref: ResponderID tag %#x", tf[k].Tag)
	}
	k++
	if tf[k].Tag != 0x18 {
		return nil, errors.New("ocspref: producedAt not GeneralizedTime")
	}
	if r.ProducedAt, err = decGenTime(content(in, tf[k])); err != nil {
		return nil, err
	}
	k++
	if tf[k].Tag != 0x30 {
		return nil, errors.New("ocspref: responses not SEQUENCE OF")
	}
	ss, err := children(in, tf[k])
	if err != nil {
		return nil, err
	}
	for _, s := range ss {
		sg, err := parseSingle(in, s)
		if err != nil {
			return nil, err
		}
		r.Singles = append(r.Singles, sg)
	}
	k++
	if k < len(tf) && tf[k].Tag == 0xa1 {
		inner, err := children(in, tf[k])
		if err != nil {
			return nil, err
		}
		if len(inner) != 1 {
			return nil, errors.New("ocspref: bad responseExtensions")
		}
		if r.RespExts, err = parseExts(in, inner[0]); err != nil {
			return nil, err
		}
		k++
	}
	if k != len(tf) {
		return nil, errors.New("ocspref: trailing elements in ResponseData")
	}
	return r, nil
}

// Region names the structural region of byte offset p. The names starting
// with "tbs", "sig" and "cert<i>-tbs"/"cert<i>-sig" are the bytes a signature
// covers or is made of.
func (r *Resp) Region(p int) string {
	if !r.HasBasic {
		return "error-response"
	}
	switch {
	case r.TBS.Has(p):
		return "tbs"
	case r.Sig.Has(p):
		return "sig"
	case r.SigAlg.Has(p):
		return "sigalg"
	}
	for i, c := range r.Certs {
		if i > 3 {
			i = 3
		}
		switch {
		case c.TBS.Has(p):
			return fmt.Sprintf("cert%d-tbs", i)
		case c.Sig.Has(p):
			return fmt.Sprintf("cert%d-sig", i)
		case c.SigAlg.Has(p):
			return fmt.Sprintf("cert%d-sigalg", i)
		case c.Whole.InHdr(p):
			return fmt.Sprintf("cert%d-hdr", i)
		}
	}
	switch {
	case r.CertsWrap.Valid() && (r.CertsWrap.InHdr(p) || r.CertsSeq.InHdr(p)):
		return "certs-hdr"
	case r.StatusTLV.Has(p):
		return "resp-status"
	case r.TypeOID.Has(p):
		return "resp-type"
	case r.Outer.InHdr(p), r.RBWrapper.InHdr(p), r.RBSeq.InHdr(p), r.Octets.InHdr(p), r.Basic.InHdr(p):
		return "wrapper-hdr"
	}
	return "other"
}

// ---- builder ---------------------------------------------------------------

// TLV encodes tag ‖ DER length ‖ content.
func TLV(tag byte, parts ...[]byte) []byte {
	n := 0
	for _, p := range parts {
		n += len(p)
	}
	var hdr []byte
	switch {
	case n < 0x80:
		hdr = []byte{tag, byte(n)}
	case n < 0x100:
		hdr = []byte{tag, 0x81, byte(n)}
	case n < 0x10000:
		hdr = []byte{tag, 0x82, byte(n >> 8), byte(n)}
	case n < 0x1000000:
		hdr = []byte{tag, 0x83, byte(n >> 16), byte(n >> 8), byte(n)}
	default:
		hdr = []byte{tag, 0x84, byte(n >> 24), byte(n >> 16), byte(n >> 8), byte(n)}
	}
	out := make([]byte, 0, len(hdr)+n)
	out = append(out, hdr...)
	for _, p := range parts {
		out = append(out, p...)
	}
	return out
}

func Int(v *big.Int) []byte         { return TLV(0x02, encInt(v)) }
func Enum(v int64) []byte           { return TLV(0x0a, encInt(big.NewInt(v))) }
func OID(arcs []int) []byte         { return TLV(0x06, encOID(arcs)) }
func Octets(b []byte) []byte        { return TLV(0x04, b) }
func GenTimeTLV(s string) []byte    { return TLV(0x18, []byte(s)) }
func BitString(b []byte) []byte     { return TLV(0x03, []byte{0}, b) }
func Null() []byte                  { return []byte{0x05, 0x00} }
func Seq(parts ...[]byte) []byte    { return TLV(0x30, parts...) }
func Ctx(n int, b ...[]byte) []byte { return TLV(0xa0|byte(n), b...) }

// AlgID builds AlgorithmIdentifier{oid, NULL?}.
func AlgID(arcs []int, nullParams bool) []byte {
	if nullParams {
		return Seq(OID(arcs), Null())
	}
	return Seq(OID(arcs))
}

type BExt struct {
	OID      []int
	Critical bool
	Value    []byte
}

func exts(es []BExt) []byte {
	var items [][]byte
	for _, e := range es {
		if e.Critical {
			items = append(items, Seq(OID(e.OID), []byte{0x01, 0x01, 0xff}, Octets(e.Value)))
		} else {
			items = append(items, Seq(OID(e.OID), Octets(e.Value)))
		}
	}
	return Seq(items...)
}

type BSingle struct {
	HashOID    []int
	NameHash   []byte
	KeyHash    []byte
	Serial     *big.Int
	Status     int // 0 good 1 revoked 2 unknown
	RevokedAt  string
	Reason     *int64
	ThisUpdate string
	NextUpdate string // "" → absent
	Exts       []BExt
}

type BSpec struct {
	ExplicitV1       bool   // encode version [0] 0 explicitly (BER-legal, not DER) — unused by default
	ResponderName    []byte // DER Name → byName
	ResponderKeyHash []byte // → byKey (used when ResponderName == nil)
	ProducedAt       string
	Singles          []BSingle
	RespExts         []BExt
}

// BuildTBS returns the DER of ResponseData.
func BuildTBS(s BSpec) []byte {
	var parts [][]byte
	if s.ResponderName != nil {
		parts = append(parts, Ctx(1, s.ResponderName))
	} else {
		parts = append(parts, Ctx(2, Octets(s.ResponderKeyHash)))
	}
	parts = append(parts, GenTimeTLV(s.ProducedAt))
	var singles [][]byte
	for _, g := range s.Singles {
		certID := Seq(AlgID(g.HashOID, true), Octets(g.NameHash), Octets(g.KeyHash), Int(g.Serial))
		var st []byte
		switch g.Status {
		case 0:
			st = []byte{0x80, 0x00}
		case 2:
			st = []byte{0x82, 0x00}
		default:
			if g.Reason != nil {
				st = TLV(0xa1, GenTimeTLV(g.RevokedAt), Ctx(0, Enum(*g.Reason)))
			} else {
				st = TLV(0xa1, GenTimeTLV(g.RevokedAt))
			}
		}
		f := [][]byte{certID, st, GenTimeTLV(g.ThisUpdate)}
		if g.NextUpdate != "" {
			f = append(f, Ctx(0, GenTimeTLV(g.NextUpdate)))
		}
		if len(g.Exts) > 0 {
			f = append(f, Ctx(1, exts(g.Exts)))
		}
		singles = append(singles, Seq(f...))
	}
	parts = append(parts, Seq(singles...))
	if len(s.RespExts) > 0 {
		parts = append(parts, Ctx(1, exts(s.RespExts)))
	}
	return Seq(parts...)
}

// Assemble wraps tbs ‖ sigAlg ‖ signature ‖ certs into a successful
// OCSPResponse.
func Assemble(tbs []byte, sigAlgOID []int, nullParams bool, sig []byte, certs [][]byte) []byte {
	parts := [][]byte{tbs, AlgID(sigAlgOID, nullParams), BitString(sig)}
	if len(certs) > 0 {
		parts = append(parts, Ctx(0, Seq(certs...)))
	}
	basic := Seq(parts...)
	return Seq(Enum(0), Ctx(0, Seq(OID([]int{1, 3, 6, 1, 5, 5, 7, 48, 1, 1}), Octets(basic))))
}

// AssembleRaw is Assemble with a caller-supplied signatureAlgorithm TLV (any
// bytes: relabelled OIDs, odd parameters); all enclosing lengths are
// re-encoded.
func AssembleRaw(tbs, algID, sig []byte, certs [][]byte) []byte {
	parts := [][]byte{tbs, algID, BitString(sig)}
	if len(certs) > 0 {
		parts = append(parts, Ctx(0, Seq(certs...)))
	}
	basic := Seq(parts...)
	return Seq(Enum(0), Ctx(0, Seq(OID([]int{1, 3, 6, 1, 5, 5, 7, 48, 1, 1}), Octets(basic))))
}

// CertsRaw returns the DER of the embedded certificates.
func (r *Resp) CertsRaw() [][]byte {
	var out [][]byte
	for _, c := range r.Certs {
		out = append(out, append([]byte{}, r.Raw[c.Whole.Off:c.Whole.End()]...))
	}
	return out
}

// SigAlgRaw returns the signatureAlgorithm TLV as it stands in the response.
func (r *Resp) SigAlgRaw() []byte { return r.Raw[r.SigAlg.Off:r.SigAlg.End()] }

// ---- OCSPRequest -------------------------------------------------------------

type Req struct {
	HashOID  string
	NameHash []byte
	KeyHash  []byte
	Serial   *big.Int
	N        int // number of Request entries
}

// ParseRequest walks an unsigned OCSPRequest and returns its first CertID.
func ParseRequest(in []byte) (*Req, error) {
	outer, err := readTLV(in, 0, len(in))
	if err != nil {
		return nil, err
	}
	if outer.Tag != 0x30 || outer.End() != len(in) {
		return nil, errors.New("ocspref: OCSPRequest shape")
	}
	top, err := children(in, outer)
	if err != nil {
		return nil, err
	}
	if len(top) < 1 || top[0].Tag != 0x30 {
		return nil, errors.New("ocspref: no TBSRequest")
	}
	tf, err := children(in, top[0])
	if err != nil {
		return nil, err
	}
	var list *Span
	for i := range tf {
		if tf[i].Tag == 0x30 {
			list = &tf[i]
			break
		}
	}
	if list == nil {
		return nil, errors.New("ocspref: no requestList")
	}
	reqs, err := children(in, *list)
	if err != nil {
		return nil, err
	}
	if len(reqs) == 0 {
		return nil, errors.New("ocspref: empty requestList")
	}
	rf, err := children(in, reqs[0])
	if err != nil {
		return nil, err
	}
	if len(rf) < 1 || rf[0].Tag != 0x30 {
		return nil, errors.New("ocspref: no reqCert")
	}
	cf, err := children(in, rf[0])
	if err != nil {
		return nil, err
	}
	if len(cf) != 4 || cf[1].Tag != 0x04 || cf[2].Tag != 0x04 || cf[3].Tag != 0x02 {
		return nil, errors.New("ocspref: bad CertID shape")
	}
	q := &Req{N: len(reqs)}
	if q.HashOID, _, err = parseAlgID(in, cf[0]); err != nil {
		return nil, err
	}
	q.NameHash = append([]byte{}, content(in, cf[1])...)
	q.KeyHash = append([]byte{}, content(in, cf[2])...)
	if q.Serial, err = decInt(content(in, cf[3])); err != nil {
		return nil, err
	}
	return q, nil
}

// ---- certificate helpers (for issuer name/key hashes) -----------------------

// CertSubjectAndKey returns the DER of the subject Name and the content of
// the subjectPublicKey BIT STRING (without the unused-bits octet) of an X.509
// certificate, located by walking the RFC 5280 structure.
func CertSubjectAndKey(cert []byte) (subject, key []byte, err error) {
	c, err := readTLV(cert, 0, len(cert))
	if err != nil {
		return nil, nil, err
	}
	cf, err := children(cert, c)
	if err != nil {
		return nil, nil, err
	}
	if len(cf) != 3 {
		return nil, nil, errors.New("ocspref: bad Certificate")
	}
	tf, err := children(cert, cf[0])
	if err != nil {
		return nil, nil, err
	}
	k := 0
	if len(tf) > 0 && tf[0].Tag == 0xa0 {
		k = 1
	}
	// serial, signature, issuer, validity, subject, spki
	if len(tf) < k+6 {
		return nil, nil, errors.New("ocspref: short TBSCertificate")
	}
	subj := tf[k+4]
	spki := tf[k+5]
	subject = append([]byte{}, cert[subj.Off:subj.End()]...)
	sf, err := children(cert, spki)
	if err != nil {
		return nil, nil, err
	}
	if len(sf) != 2 || sf[1].Tag != 0x03 || sf[1].Len < 1 {
		return nil, nil, errors.New("ocspref: bad SubjectPublicKeyInfo")
	}
	key = append([]byte{}, content(cert, sf[1])[1:]...)
	return subject, key, nil
}

package aead8439

import (
	"bytes"
	"encoding/hex"
	"math/big"
	"strings"
	"testing"
)

func unhex(s string) []byte {
	s = strings.NewReplacer(" ", "", "\n", "", "\t", "", ":", "").Replace(s)
	b, err := hex.DecodeString(s)
	if err != nil {
		panic(err)
	}
	return b
}

func seq(from, n int) []byte {
	b := make([]byte, n)
	for i := range b {
		b[i] = byte(from + i)
	}
	return b
}

const sunscreen = "Ladies and Gentlemen of the class of '99: If I could offer you only one tip for the future, sunscreen would be it."

// RFC 8439 §2.3.2
func TestBlockVector(t *testing.T) {
	got := Block(seq(0, 32), 1, unhex("000000090000004a00000000"))
	want := unhex(`10 f1 e7 e4 d1 3b 59 15 50 0f dd 1f a3 20 71 c4
		c7 d1 f4 c7 33 c0 68 03 04 22 aa 9a c3 d4 6c 4e
		d2 82 64 46 07 9f aa 09 14 c2 d7 05 d9 8b 02 a2
		b5 12 9c d1 de 16 4e b9 cb d0 83 e8 a2 50 3c 4e`)
	if !bytes.Equal(got[:], want) {
		t.Fatalf("block: got %x", got)
	}
}

// RFC 8439 §2.4.2
func TestEncryptVector(t *testing.T) {
	got := XOR(seq(0, 32), 1, unhex("000000000000004a00000000"), []byte(sunscreen))
	want := unhex(`6e 2e 35 9a 25 68 f9 80 41 ba 07 28 dd 0d 69 81
		e9 7e 7a ec 1d 43 60 c2 0a 27 af cc fd 9f ae 0b
		f9 1b 65 c5 52 47 33 ab 8f 59 3d ab cd 62 b3 57
		16 39 d6 24 e6 51 52 ab 8f 53 0c 35 9f 08 61 d8
		07 ca 0d bf 50 0d 6a 61 56 a3 8e 08 8a 22 b6 5e
		52 bc 51 4d 16 cc f8 06 81 8c e9 1a b7 79 37 36
		5a f9 0b bf 74 a3 5b e6 b4 0b 8e ed f2 78 5e 42
		87 4d`)
	if !bytes.Equal(got, want) {
		t.Fatalf("encrypt: got %x", got)
	}
}

// RFC 8439 §2.5.2
func TestPoly1305Vector(t *testing.T) {
	key := unhex("85:d6:be:78:57:55:6d:33:7f:44:52:fe:42:d5:06:a8:01:03:80:8a:fb:0d:b2:fd:4a:bf:f6:af:41:49:f5:1b")
	got := Poly1305(key, []byte("Cryptographic Forum Research Group"))
	want := unhex("a8:06:1d:c1:30:51:36:c6:c2:2b:8b:af:0c:01:27:a9")
	if !bytes.Equal(got[:], want) {
		t.Fatalf("poly1305: got %x", got)
	}
}

// Poly1305 edge cases from RFC 8439 Appendix A.3 (#5..#7, #9: carries and
// reduction around 2^130-5), the part a math/big definition could get wrong
// only by a slip in clamp/endianness.
func TestPoly1305Edges(t *testing.T) {
	cases := []struct{ r, s, msg, tag string }{
		// #5: r=2, msg = ff..ff → 2^130-2 = 3 mod p
		{"02000000000000000000000000000000", "00000000000000000000000000000000", "ffffffffffffffffffffffffffffffff", "03000000000000000000000000000000"},
		// #6: s = 2^128-1, acc 2 → wraps to 1... (r=2, msg=02) : 2*(2+2^128)... per RFC: tag 03
		{"02000000000000000000000000000000", "ffffffffffffffffffffffffffffffff", "02000000000000000000000000000000", "03000000000000000000000000000000"},
		// #7
		{"01000000000000000000000000000000", "00000000000000000000000000000000", "ffffffffffffffffffffffffffffffff f0ffffffffffffffffffffffffffffff 11000000000000000000000000000000", "05000000000000000000000000000000"},
		// #8
		{"01000000000000000000000000000000", "00000000000000000000000000000000", "ffffffffffffffffffffffffffffffff fbfefefefefefefefefefefefefefefe 01010101010101010101010101010101", "00000000000000000000000000000000"},
		// #9
		{"02000000000000000000000000000000", "00000000000000000000000000000000", "fdffffffffffffffffffffffffffffff", "faffffffffffffffffffffffffffffff"},
	}
	for i, c := range cases {
		key := append(unhex(c.r), unhex(c.s)...)
		got := Poly1305(key, unhex(c.msg))
		if !bytes.Equal(got[:], unhex(c.tag)) {
			t.Errorf("edge %d: got %x want %s", i, got, c.tag)
		}
	}
}

// RFC 8439 §2.6.2
func TestPolyKeyGenVector(t *testing.T) {
	got := PolyKeyGen(seq(0x80, 32), unhex("000000000001020304050607"))
	want := unhex("8a d5 a0 8b 90 5f 81 cc 81 50 40 27 4a b2 94 71 a8 33 b6 37 e3 fd 0d a5 08 db b8 e2 fd d1 a6 46")
	if !bytes.Equal(got, want) {
		t.Fatalf("polykeygen: got %x", got)
	}
}

// RFC 8439 §2.8.2
func TestAEADVector(t *testing.T) {
	key := seq(0x80, 32)
	nonce := unhex("070000004041424344454647")
	ad := unhex("50515253c0c1c2c3c4c5c6c7")
	if otk := PolyKeyGen(key, nonce); !bytes.Equal(otk, unhex("7b ac 2b 25 2d b4 47 af 09 b6 7a 55 a4 e9 55 84 0a e1 d6 73 10 75 d9 eb 2a 93 75 78 3e d5 53 ff")) {
		t.Fatalf("otk: %x", otk)
	}
	got := Seal(key, nonce, []byte(sunscreen), ad)
	want := unhex(`d3 1a 8d 34 64 8e 60 db 7b 86 af bc 53 ef 7e c2
		a4 ad ed 51 29 6e 08 fe a9 e2 b5 a7 36 ee 62 d6
		3d be a4 5e 8c a9 67 12 82 fa fb 69 da 92 72 8b
		1a 71 de 0a 9e 06 0b 29 05 d6 a5 b6 7e cd 3b 36
		92 dd bd 7f 2d 77 8b 8c 98 03 ae e3 28 09 1b 58
		fa b3 24 e4 fa d6 75 94 55 85 80 8b 48 31 d7 bc
		3f f4 de f0 8e 4b 7a 9d e5 76 d2 65 86 ce c6 4b
		61 16
		1a:e1:0b:59:4f:09:e2:6a:7e:90:2e:cb:d0:60:06:91`)
	if !bytes.Equal(got, want) {
		t.Fatalf("seal: got %x", got)
	}
	pt, ok := Open(key, nonce, got, ad)
	if !ok || string(pt) != sunscreen {
		t.Fatalf("open failed")
	}
	got[5] ^= 1
	if _, ok := Open(key, nonce, got, ad); ok {
		t.Fatalf("open accepted a modified ciphertext")
	}
	if _, ok := Open(key, nonce, got[:15], ad); ok {
		t.Fatalf("open accepted a short input")
	}
}

// draft-irtf-cfrg-xchacha §2.2.1
func TestHChaCha20Vector(t *testing.T) {
	got := HChaCha20(seq(0, 32), unhex("000000090000004a0000000031415927"))
	want := unhex("82413b42 27b27bfe d30e4250 8a877d73 a0f9e4d5 8a74a853 c12ec413 26d3ecdc")
	if !bytes.Equal(got[:], want) {
		t.Fatalf("hchacha20: got %x", got)
	}
}

// draft-irtf-cfrg-xchacha Appendix A.3
func TestXAEADVector(t *testing.T) {
	key := seq(0x80, 32)
	nonce := seq(0x40, 24)
	ad := unhex("50515253c0c1c2c3c4c5c6c7")
	sk, n12 := XParams(key, nonce)
	if otk := PolyKeyGen(sk, n12); !bytes.Equal(otk, unhex("7b191f80f361f099094f6f4b8fb97df847cc6873a8f2b190dd73807183f907d5")) {
		t.Fatalf("x otk: %x", otk)
	}
	got := XSeal(key, nonce, []byte(sunscreen), ad)
	want := unhex(`bd6d179d3e83d43b9576579493c0e939572a1700252bfaccbed2902c21396cbb
		731c7f1b0b4aa6440bf3a82f4eda7e39ae64c6708c54c216cb96b72e1213b452
		2f8c9ba40db5d945b11b69b982c1bb9e3f3fac2bc369488f76b2383565d3fff9
		21f9664c97637da9768812f615c68b13b52e
		c0:87:59:24:c1:c7:98:79:47:de:af:d8:78:0a:cf:49`)
	if !bytes.Equal(got, want) {
		t.Fatalf("xseal: got %x", got)
	}
	pt, ok := XOpen(key, nonce, got, ad)
	if !ok || string(pt) != sunscreen {
		t.Fatalf("xopen failed")
	}
}

// SolveBlock hits the requested accumulator, and acc+s mod 2^128 is the tag.
func TestSolveBlock(t *testing.T) {
	solved := 0
	for trial := 0; trial < 400; trial++ {
		key := seq(trial*7+1, 32)
		key[3], key[17] = byte(trial), byte(trial>>3)
		msg := make([]byte, 16*(1+trial%9))
		for i := range msg {
			msg[i] = byte(i*31 + trial)
		}
		j := trial % (len(msg) / 16)
		target := big.NewInt(int64(trial % 5))
		if trial%3 == 1 {
			target = new(big.Int).Sub(P1305(), big.NewInt(int64(1+trial%5)))
		}
		x, ok := SolveBlock(key, msg, j, target)
		if !ok {
			continue
		}
		solved++
		copy(msg[16*j:], x[:])
		acc := Poly1305Acc(key, msg)
		if acc.Cmp(target) != 0 {
			t.Fatalf("trial %d: acc %v want %v", trial, acc, target)
		}
		tag := Poly1305(key, msg)
		sum := new(big.Int).Add(acc, PolyS(key))
		sum.Mod(sum, new(big.Int).Lsh(big.NewInt(1), 128))
		if leToInt(tag[:]).Cmp(sum) != 0 {
			t.Fatalf("trial %d: tag != acc+s", trial)
		}
	}
	if solved < 50 {
		t.Fatalf("only %d solved", solved)
	}
}

// Package aead8439 is an executable specification of RFC 8439 (ChaCha20,
// Poly1305, AEAD_CHACHA20_POLY1305) and of draft-irtf-cfrg-xchacha-03
// (HChaCha20, XChaCha20-Poly1305), written from the RFC text only: the block
// function follows the §2.3 pseudocode, Poly1305 is the §2.5 definition in
// math/big, the AEAD is the §2.8 construction. Slow and obvious on purpose.
// It imports nothing from golang.org/x/crypto.
package aead8439

import (
	"encoding/binary"
	"math/big"
)

func rotl(x uint32, n uint) uint32 { return x<<n | x>>(32-n) }

// quarterRound is RFC 8439 §2.1 applied to state words a,b,c,d (§2.2).
func quarterRound(s *[16]uint32, a, b, c, d int) {
	s[a] += s[b]
	s[d] ^= s[a]
	s[d] = rotl(s[d], 16)
	s[c] += s[d]
	s[b] ^= s[c]
	s[b] = rotl(s[b], 12)
	s[a] += s[b]
	s[d] ^= s[a]
	s[d] = rotl(s[d], 8)
	s[c] += s[d]
	s[b] ^= s[c]
	s[b] = rotl(s[b], 7)
}

// innerBlock is the §2.3.1 inner_block: four column rounds, four diagonal rounds.
func innerBlock(s *[16]uint32) {
	quarterRound(s, 0, 4, 8, 12)
	quarterRound(s, 1, 5, 9, 13)
	quarterRound(s, 2, 6, 10, 14)
	quarterRound(s, 3, 7, 11, 15)
	quarterRound(s, 0, 5, 10, 15)
	quarterRound(s, 1, 6, 11, 12)
	quarterRound(s, 2, 7, 8, 13)
	quarterRound(s, 3, 4, 9, 14)
}

var constants = [4]uint32{0x61707865, 0x3320646e, 0x79622d32, 0x6b206574}

// Block is chacha20_block(key, counter, nonce) of RFC 8439 §2.3.1.
func Block(key []byte, counter uint32, nonce []byte) [64]byte {
	if len(key) != 32 || len(nonce) != 12 {
		panic("aead8439: bad key/nonce length")
	}
	var st [16]uint32
	copy(st[0:4], constants[:])
	for i := 0; i < 8; i++ {
		st[4+i] = binary.LittleEndian.Uint32(key[4*i:])
	}
	st[12] = counter
	for i := 0; i < 3; i++ {
		st[13+i] = binary.LittleEndian.Uint32(nonce[4*i:])
	}
	w := st
	for i := 0; i < 10; i++ {
		innerBlock(&w)
	}
	var out [64]byte
	for i := 0; i < 16; i++ {
		binary.LittleEndian.PutUint32(out[4*i:], w[i]+st[i])
	}
	return out
}

// Keystream returns n bytes of ChaCha20 key stream for (key, 12-byte nonce)
// starting at block `counter`.
func Keystream(key []byte, counter uint32, nonce []byte, n int) []byte {
	out := make([]byte, 0, n+64)
	for len(out) < n {
		b := Block(key, counter, nonce)
		out = append(out, b[:]...)
		counter++
	}
	return out[:n]
}

// XOR is chacha20_encrypt(key, counter, nonce, plaintext) of §2.4.1.
func XOR(key []byte, counter uint32, nonce []byte, in []byte) []byte {
	ks := Keystream(key, counter, nonce, len(in))
	out := make([]byte, len(in))
	for i := range in {
		out[i] = in[i] ^ ks[i]
	}
	return out
}

// HChaCha20 is draft-irtf-cfrg-xchacha §2.2: the ChaCha20 rounds on
// (constants, key, 16-byte nonce) without the final addition; output = words
// 0..3 and 12..15.
func HChaCha20(key []byte, nonce16 []byte) [32]byte {
	if len(key) != 32 || len(nonce16) != 16 {
		panic("aead8439: bad hchacha20 input length")
	}
	var st [16]uint32
	copy(st[0:4], constants[:])
	for i := 0; i < 8; i++ {
		st[4+i] = binary.LittleEndian.Uint32(key[4*i:])
	}
	for i := 0; i < 4; i++ {
		st[12+i] = binary.LittleEndian.Uint32(nonce16[4*i:])
	}
	for i := 0; i < 10; i++ {
		innerBlock(&st)
	}
	var out [32]byte
	for i := 0; i < 4; i++ {
		binary.LittleEndian.PutUint32(out[4*i:], st[i])
		binary.LittleEndian.PutUint32(out[16+4*i:], st[12+i])
	}
	return out
}

var (
	p1305 = func() *big.Int { // 2^130 - 5
		p := new(big.Int).Lsh(big.NewInt(1), 130)
		return p.Sub(p, big.NewInt(5))
	}()
	two128 = new(big.Int).Lsh(big.NewInt(1), 128)
)

func leToInt(b []byte) *big.Int {
	be := make([]byte, len(b))
	for i := range b {
		be[len(b)-1-i] = b[i]
	}
	return new(big.Int).SetBytes(be)
}

// Poly1305 is poly1305_mac(msg, key) of RFC 8439 §2.5.1.
func Poly1305(key []byte, msg []byte) [16]byte {
	if len(key) != 32 {
		panic("aead8439: bad poly1305 key length")
	}
	rb := append([]byte(nil), key[:16]...)
	// clamp(r): r &= 0x0ffffffc0ffffffc0ffffffc0fffffff
	rb[3] &= 15
	rb[7] &= 15
	rb[11] &= 15
	rb[15] &= 15
	rb[4] &= 252
	rb[8] &= 252
	rb[12] &= 252
	r := leToInt(rb)
	s := leToInt(key[16:32])
	acc := new(big.Int)
	for i := 0; i < len(msg); i += 16 {
		j := i + 16
		if j > len(msg) {
			j = len(msg)
		}
		blk := append(append([]byte(nil), msg[i:j]...), 0x01) // n = le_bytes_to_num(msg[i..j] | 0x01)
		acc.Add(acc, leToInt(blk))
		acc.Mul(acc, r)
		acc.Mod(acc, p1305)
	}
	acc.Add(acc, s)
	acc.Mod(acc, two128)
	var tag [16]byte
	be := acc.Bytes()
	for i := range be {
		tag[i] = be[len(be)-1-i]
	}
	return tag
}

// PolyKeyGen is poly1305_key_gen of §2.6.1: first 32 bytes of block 0.
func PolyKeyGen(key, nonce []byte) []byte {
	b := Block(key, 0, nonce)
	return append([]byte(nil), b[:32]...)
}

func pad16(n int) []byte {
	if n%16 == 0 {
		return nil
	}
	return make([]byte, 16-n%16)
}

// MacData is the §2.8 mac_data: aad | pad16(aad) | ct | pad16(ct) | len(aad) as
// 8-byte LE | len(ct) as 8-byte LE.
func MacData(ad, ct []byte) []byte {
	var m []byte
	m = append(m, ad...)
	m = append(m, pad16(len(ad))...)
	m = append(m, ct...)
	m = append(m, pad16(len(ct))...)
	var l [8]byte
	binary.LittleEndian.PutUint64(l[:], uint64(len(ad)))
	m = append(m, l[:]...)
	binary.LittleEndian.PutUint64(l[:], uint64(len(ct)))
	m = append(m, l[:]...)
	return m
}

// Seal is chacha20_aead_encrypt of §2.8.1; returns ciphertext | tag.
func Seal(key, nonce, pt, ad []byte) []byte {
	otk := PolyKeyGen(key, nonce)
	ct := XOR(key, 1, nonce, pt)
	tag := Poly1305(otk, MacData(ad, ct))
	return append(ct, tag[:]...)
}

// Open is the §2.8 decryption: ok is false when sealed is shorter than a tag
// or the tag does not match.
func Open(key, nonce, sealed, ad []byte) (pt []byte, ok bool) {
	if len(sealed) < 16 {
		return nil, false
	}
	ct, tag := sealed[:len(sealed)-16], sealed[len(sealed)-16:]
	otk := PolyKeyGen(key, nonce)
	want := Poly1305(otk, MacData(ad, ct))
	diff := byte(0)
	for i := range want {
		diff |= want[i] ^ tag[i]
	}
	if diff != 0 {
		return nil, false
	}
	return XOR(key, 1, nonce, ct), true
}

// XParams derives the (subkey, 12-byte nonce) of XChaCha20 (draft §2.3):
// subkey = HChaCha20(key, nonce[0:16]); chacha20 nonce = 00 00 00 00 | nonce[16:24].
func XParams(key, nonce24 []byte) (subkey, nonce12 []byte) {
	if len(nonce24) != 24 {
		panic("aead8439: bad xchacha nonce length")
	}
	sk := HChaCha20(key, nonce24[:16])
	n := make([]byte, 12)
	copy(n[4:], nonce24[16:24])
	return sk[:], n
}

// XSeal is AEAD_XChaCha20_Poly1305 encryption; returns ciphertext | tag.
func XSeal(key, nonce24, pt, ad []byte) []byte {
	sk, n := XParams(key, nonce24)
	return Seal(sk, n, pt, ad)
}

// XOpen is AEAD_XChaCha20_Poly1305 decryption.
func XOpen(key, nonce24, sealed, ad []byte) ([]byte, bool) {
	sk, n := XParams(key, nonce24)
	return Open(sk, n, sealed, ad)
}

// SealN dispatches on the nonce length (12: RFC 8439, 24: XChaCha).
func SealN(key, nonce, pt, ad []byte) []byte {
	if len(nonce) == 24 {
		return XSeal(key, nonce, pt, ad)
	}
	return Seal(key, nonce, pt, ad)
}

// PayloadKeystream is the key stream that encrypts the AEAD payload (block
// counter 1 onwards) for a 12- or 24-byte nonce.
func PayloadKeystream(key, nonce []byte, n int) []byte {
	if len(nonce) == 24 {
		sk, n12 := XParams(key, nonce)
		return Keystream(sk, 1, n12, n)
	}
	return Keystream(key, 1, nonce, n)
}

package aead8439

import "math/big"

// P1305 returns a copy of 2^130-5.
func P1305() *big.Int { return new(big.Int).Set(p1305) }

// polyR is the clamped r of a 32-byte one-time key, polyS its s.
func polyR(key []byte) *big.Int {
	rb := append([]byte(nil), key[:16]...)
	rb[3] &= 15
	rb[7] &= 15
	rb[11] &= 15
	rb[15] &= 15
	rb[4] &= 252
	rb[8] &= 252
	rb[12] &= 252
	return leToInt(rb)
}

// PolyS is the s half of a one-time key as an integer.
func PolyS(key []byte) *big.Int { return leToInt(key[16:32]) }

// Poly1305Acc is the fully reduced accumulator of §2.5.1 after the last
// block, i.e. the value h in [0, 2^130-5) to which s is then added.
func Poly1305Acc(key, msg []byte) *big.Int {
	r := polyR(key)
	acc := new(big.Int)
	for i := 0; i < len(msg); i += 16 {
		j := i + 16
		if j > len(msg) {
			j = len(msg)
		}
		blk := append(append([]byte(nil), msg[i:j]...), 0x01)
		acc.Add(acc, leToInt(blk))
		acc.Mul(acc, r)
		acc.Mod(acc, p1305)
	}
	return acc
}

// SolveBlock computes the 16-byte value x for block j of msg (len(msg) a
// multiple of 16, as every §2.8 mac_data is) such that Poly1305Acc of msg with
// block j replaced by x equals target mod 2^130-5. ok is false when no such
// 128-bit value exists (x >= 2^128, about 3 times out of 4) or r is zero.
//
// From acc_{k} = (acc_{k-1} + blk_k + 2^128)·r it walks backwards from the
// target through the fixed blocks behind j:
// acc_{k-1} + blk_k + 2^128 = acc_k · r^-1.
func SolveBlock(key, msg []byte, j int, target *big.Int) (x [16]byte, ok bool) {
	if len(msg)%16 != 0 || j < 0 || 16*j+16 > len(msg) {
		panic("aead8439: SolveBlock: bad arguments")
	}
	r := polyR(key)
	if r.Sign() == 0 {
		return x, false
	}
	rinv := new(big.Int).ModInverse(r, p1305)
	need := new(big.Int).Mod(target, p1305) // acc after the last block
	nblk := len(msg) / 16
	for k := nblk - 1; k > j; k-- {
		// need := acc before block k
		need.Mul(need, rinv)
		blk := leToInt(append(append([]byte(nil), msg[16*k:16*k+16]...), 0x01))
		need.Sub(need, blk)
		need.Mod(need, p1305)
	}
	need.Mul(need, rinv)
	need.Mod(need, p1305) // = acc_{j-1} + x + 2^128
	prev := Poly1305Acc(key, msg[:16*j])
	need.Sub(need, prev)
	need.Sub(need, two128)
	need.Mod(need, p1305)
	if need.Cmp(two128) >= 0 {
		return x, false
	}
	be := need.Bytes()
	for i := range be {
		x[i] = be[len(be)-1-i]
	}
	return x, true
}

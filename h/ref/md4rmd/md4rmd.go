// Package md4rmd holds executable specifications of MD4 (RFC 1320) and
// RIPEMD-160 (Dobbertin, Bosselaers, Preneel: "RIPEMD-160: a strengthened
// version of RIPEMD", 1996), written from the documents as one-shot functions
// over the complete message. No code shared with golang.org/x/crypto.
package md4rmd

func rol(x uint32, s uint) uint32 { return x<<s | x>>(32-s) }

// mdPad: RFC 1320 §3.1-3.2 (identical in RIPEMD-160): append bit 1, then 0
// bits until length ≡ 448 mod 512, then the 64-bit bit length, low-order
// word first / low-order byte first.
func mdPad(msg []byte) []byte {
	p := append([]byte{}, msg...)
	p = append(p, 0x80)
	for len(p)%64 != 56 {
		p = append(p, 0)
	}
	bits := uint64(len(msg)) * 8
	for i := 0; i < 8; i++ {
		p = append(p, byte(bits>>(8*uint(i))))
	}
	return p
}

func words(block []byte) (x [16]uint32) {
	for i := range x {
		x[i] = uint32(block[4*i]) | uint32(block[4*i+1])<<8 | uint32(block[4*i+2])<<16 | uint32(block[4*i+3])<<24
	}
	return
}

func putWords(ws ...uint32) []byte {
	var out []byte
	for _, w := range ws {
		out = append(out, byte(w), byte(w>>8), byte(w>>16), byte(w>>24))
	}
	return out
}

// MD4 per RFC 1320 §3.3-3.5.
func MD4(msg []byte) []byte {
	a, b, c, d := uint32(0x67452301), uint32(0xefcdab89), uint32(0x98badcfe), uint32(0x10325476)
	f := func(x, y, z uint32) uint32 { return (x & y) | (^x & z) }
	g := func(x, y, z uint32) uint32 { return (x & y) | (x & z) | (y & z) }
	h := func(x, y, z uint32) uint32 { return x ^ y ^ z }
	p := mdPad(msg)
	for off := 0; off < len(p); off += 64 {
		x := words(p[off : off+64])
		aa, bb, cc, dd := a, b, c, d
		// the four registers are used in the rotating order ABCD, DABC, CDAB, BCDA
		reg := [4]*uint32{&a, &b, &c, &d}
		step := func(i int, fn func(x, y, z uint32) uint32, k int, s uint, add uint32) {
			ra, rb, rc, rd := reg[(4-i%4)%4], reg[(5-i%4)%4], reg[(6-i%4)%4], reg[(7-i%4)%4]
			*ra = rol(*ra+fn(*rb, *rc, *rd)+x[k]+add, s)
		}
		s1 := [4]uint{3, 7, 11, 19}
		for i := 0; i < 16; i++ {
			step(i, f, i, s1[i%4], 0)
		}
		s2 := [4]uint{3, 5, 9, 13}
		for i := 0; i < 16; i++ {
			k := (i%4)*4 + i/4 // 0 4 8 12 1 5 9 13 ...
			step(i, g, k, s2[i%4], 0x5a827999)
		}
		s3 := [4]uint{3, 9, 11, 15}
		k3 := [16]int{0, 8, 4, 12, 2, 10, 6, 14, 1, 9, 5, 13, 3, 11, 7, 15}
		for i := 0; i < 16; i++ {
			step(i, h, k3[i], s3[i%4], 0x6ed9eba1)
		}
		a, b, c, d = a+aa, b+bb, c+cc, d+dd
	}
	return putWords(a, b, c, d)
}

// RIPEMD-160 tables. The message-word selections are derived as in the paper:
// ρ = (7 4 13 1 10 6 15 3 12 0 9 5 2 14 11 8), π(i) = 9i+5 mod 16; left line
// uses id, ρ, ρ², ρ³, ρ⁴; right line π, ρπ, ρ²π, ρ³π, ρ⁴π.
var rho = [16]int{7, 4, 13, 1, 10, 6, 15, 3, 12, 0, 9, 5, 2, 14, 11, 8}

func rmdSelections() (r, rp [80]int) {
	for i := 0; i < 16; i++ {
		r[i] = i
		rp[i] = (9*i + 5) % 16
	}
	for j := 16; j < 80; j++ {
		r[j] = rho[r[j-16]]
		rp[j] = rho[rp[j-16]]
	}
	return
}

var rmdS = [80]uint{
	11, 14, 15, 12, 5, 8, 7, 9, 11, 13, 14, 15, 6, 7, 9, 8,
	7, 6, 8, 13, 11, 9, 7, 15, 7, 12, 15, 9, 11, 7, 13, 12,
	11, 13, 6, 7, 14, 9, 13, 15, 14, 8, 13, 6, 5, 12, 7, 5,
	11, 12, 14, 15, 14, 15, 9, 8, 9, 14, 5, 6, 8, 6, 5, 12,
	9, 15, 5, 11, 6, 8, 13, 12, 5, 12, 13, 14, 11, 8, 5, 6,
}

var rmdSP = [80]uint{
	8, 9, 9, 11, 13, 15, 15, 5, 7, 7, 8, 11, 14, 14, 12, 6,
	9, 13, 15, 7, 12, 8, 9, 11, 7, 7, 12, 7, 6, 15, 13, 11,
	9, 7, 15, 11, 8, 6, 6, 14, 12, 13, 5, 14, 13, 13, 7, 5,
	15, 5, 8, 11, 14, 14, 6, 14, 6, 9, 12, 9, 12, 5, 15, 8,
	8, 5, 12, 9, 12, 5, 14, 6, 8, 13, 6, 5, 15, 13, 11, 11,
}

func rmdF(j int, x, y, z uint32) uint32 {
	switch j / 16 {
	case 0:
		return x ^ y ^ z
	case 1:
		return (x & y) | (^x & z)
	case 2:
		return (x | ^y) ^ z
	case 3:
		return (x & z) | (y & ^z)
	default:
		return x ^ (y | ^z)
	}
}

var rmdK = [5]uint32{0x00000000, 0x5a827999, 0x6ed9eba1, 0x8f1bbcdc, 0xa953fd4e}
var rmdKP = [5]uint32{0x50a28be6, 0x5c4dd124, 0x6d703ef3, 0x7a6d76e9, 0x00000000}

// RIPEMD160 per the paper's pseudo-code (Appendix A).
func RIPEMD160(msg []byte) []byte {
	r, rp := rmdSelections()
	h := [5]uint32{0x67452301, 0xefcdab89, 0x98badcfe, 0x10325476, 0xc3d2e1f0}
	p := mdPad(msg)
	for off := 0; off < len(p); off += 64 {
		x := words(p[off : off+64])
		a, b, c, d, e := h[0], h[1], h[2], h[3], h[4]
		ap, bp, cp, dp, ep := h[0], h[1], h[2], h[3], h[4]
		for j := 0; j < 80; j++ {
			t := rol(a+rmdF(j, b, c, d)+x[r[j]]+rmdK[j/16], rmdS[j]) + e
			a, e, d, c, b = e, d, rol(c, 10), b, t
			t = rol(ap+rmdF(79-j, bp, cp, dp)+x[rp[j]]+rmdKP[j/16], rmdSP[j]) + ep
			ap, ep, dp, cp, bp = ep, dp, rol(cp, 10), bp, t
		}
		t := h[1] + c + dp
		h[1] = h[2] + d + ep
		h[2] = h[3] + e + ap
		h[3] = h[4] + a + bp
		h[4] = h[0] + b + cp
		h[0] = t
	}
	return putWords(h[0], h[1], h[2], h[3], h[4])
}

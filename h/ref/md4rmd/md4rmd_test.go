package md4rmd

import (
	"bytes"
	"encoding/hex"
	"math/rand/v2"
	"testing"

	"verif/ext"
)

// RFC 1320 §A.5 test suite and the RIPEMD-160 paper's Appendix B test values.
func TestVectors(t *testing.T) {
	million := bytes.Repeat([]byte("a"), 1000000)
	md4 := []struct{ in, want string }{
		{"", "31d6cfe0d16ae931b73c59d7e0c089c0"},
		{"a", "bde52cb31de33e46245e05fbdbd6fb24"},
		{"abc", "a448017aaf21d8525fc10ae87aa6729d"},
		{"message digest", "d9130a8164549fe818874806e1c7014b"},
		{"abcdefghijklmnopqrstuvwxyz", "d79e1c308aa5bbcdeea8ed63df412da9"},
		{"ABCDEFGHIJKLMNOPQRSTUVWXYZabcdefghijklmnopqrstuvwxyz0123456789", "043f8582f241db351ce627e153e7f0e4"},
		{"12345678901234567890123456789012345678901234567890123456789012345678901234567890", "e33b4ddc9c38f2199c3e7b164fcc0536"},
	}
	for _, v := range md4 {
		if got := hex.EncodeToString(MD4([]byte(v.in))); got != v.want {
			t.Errorf("MD4(%q) = %s want %s", v.in, got, v.want)
		}
	}
	rmd := []struct{ in, want string }{
		{"", "9c1185a5c5e9fc54612808977ee8f548b2258d31"},
		{"a", "0bdc9d2d256b3ee9daae347be6f4dc835a467ffe"},
		{"abc", "8eb208f7e05d987a9b044a8e98c6b087f15a0bfc"},
		{"message digest", "5d0689ef49d2fae572b881b123a85ffa21595f36"},
		{"abcdefghijklmnopqrstuvwxyz", "f71c27109c692c1b56bbdceb5b9d2865b3708dbc"},
		{"abcdbcdecdefdefgefghfghighijhijkijkljklmklmnlmnomnopnopq", "12a053384a9c0c88e405a06c27dcf49ada62eb2b"},
		{"ABCDEFGHIJKLMNOPQRSTUVWXYZabcdefghijklmnopqrstuvwxyz0123456789", "b0e20b6e3116640286ed3a87a5713079b21f5189"},
		{"12345678901234567890123456789012345678901234567890123456789012345678901234567890", "9b752e45573d4b39f4dbd3323cab82bf63326bfb"},
	}
	for _, v := range rmd {
		if got := hex.EncodeToString(RIPEMD160([]byte(v.in))); got != v.want {
			t.Errorf("RIPEMD160(%q) = %s want %s", v.in, got, v.want)
		}
	}
	if got := hex.EncodeToString(RIPEMD160(million)); got != "52783243c1697bdbe16d37f97f68f08325dc1528" {
		t.Errorf("RIPEMD160(10^6 a) = %s", got)
	}
}

// The derived message-word selections must equal the paper's printed rows.
func TestSelections(t *testing.T) {
	r, rp := rmdSelections()
	row5 := []int{4, 0, 5, 9, 7, 12, 2, 10, 14, 1, 3, 8, 11, 6, 15, 13}
	row5p := []int{12, 15, 10, 4, 1, 5, 8, 7, 6, 2, 13, 14, 0, 3, 9, 11}
	row1p := []int{5, 14, 7, 0, 9, 2, 11, 4, 13, 6, 15, 8, 1, 10, 3, 12}
	for i := 0; i < 16; i++ {
		if r[64+i] != row5[i] || rp[64+i] != row5p[i] || rp[i] != row1p[i] {
			t.Fatalf("selection mismatch at %d", i)
		}
	}
}

func TestRMDAgainstHashlib(t *testing.T) {
	py, err := ext.StartPy()
	if err != nil {
		t.Skip("python3 unavailable: ", err)
	}
	defer py.Close()
	r := rand.New(rand.NewPCG(3, 4))
	for n := 0; n <= 300; n++ {
		msg := make([]byte, n)
		for i := range msg {
			msg[i] = byte(r.Uint32())
		}
		w, err := py.Bytes(map[string]any{"op": "hash", "name": "ripemd160", "msg": ext.Hx(msg)})
		if err != nil {
			t.Skip("hashlib ripemd160 unavailable: ", err)
		}
		if !bytes.Equal(w, RIPEMD160(msg)) {
			t.Fatalf("len %d mismatch", n)
		}
	}
}

// Package sshnego is an executable transcription of the algorithm-selection
// rules of RFC 4253 §7.1, for the case the ssh package implements (every
// supported key exchange method needs a signature-capable host key and every
// host key algorithm is signature-capable, so the "requires encryption /
// signature capable host key" side conditions reduce to "a common host key
// algorithm exists", which is demanded anyway). No x/crypto import.
package sshnego

// KexInit holds the eight negotiated name-lists of SSH_MSG_KEXINIT (languages
// are not negotiated by the package and ignored by §7.1 when empty).
type KexInit struct {
	Kex, HostKey       []string
	CipherCS, CipherSC []string
	MACCS, MACSC       []string
	CompCS, CompSC     []string
}

// Dir is the outcome for one direction.
type Dir struct {
	Cipher string
	// MAC is the first common MAC name ("" if there is none). MACNeeded tells
	// whether the MAC takes part in the negotiation at all: it does not when
	// the direction's cipher is an AEAD mode ([PROTOCOL] §1.6 AES-GCM: "the
	// MAC algorithm is ignored"; PROTOCOL.chacha20poly1305: "no MAC is
	// negotiated").
	MAC       string
	MACNeeded bool
	Comp      string
}

// Result is the outcome of a negotiation that succeeded.
type Result struct {
	Kex, HostKey string
	CS, SC       Dir // client-to-server, server-to-client
}

// AEAD lists the cipher names that carry their own integrity protection.
var AEAD = map[string]bool{
	"aes128-gcm@openssh.com":        true,
	"aes256-gcm@openssh.com":        true,
	"chacha20-poly1305@openssh.com": true,
}

// FirstCommon is the rule used for every category: "The chosen … algorithm to
// each direction MUST be the first algorithm on the client's name-list that is
// also on the server's name-list."
func FirstCommon(client, server []string) (string, bool) {
	for i := 0; i < len(client); i++ {
		for j := 0; j < len(server); j++ {
			if client[i] == server[j] {
				return client[i], true
			}
		}
	}
	return "", false
}

// Negotiate returns the result, or ok=false and the list of categories that
// have no common algorithm although they are needed ("If no algorithm
// satisfying all these conditions can be found, the connection fails").
func Negotiate(c, s KexInit) (res Result, failed []string, ok bool) {
	need := func(what string, cl, sv []string) string {
		v, found := FirstCommon(cl, sv)
		if !found {
			failed = append(failed, what)
		}
		return v
	}
	res.Kex = need("kex", c.Kex, s.Kex)
	res.HostKey = need("hostkey", c.HostKey, s.HostKey)
	res.CS.Cipher = need("cipher-cs", c.CipherCS, s.CipherCS)
	res.SC.Cipher = need("cipher-sc", c.CipherSC, s.CipherSC)
	// MAC: needed only if the cipher of that direction was found and is not AEAD
	_, csOK := FirstCommon(c.CipherCS, s.CipherCS)
	_, scOK := FirstCommon(c.CipherSC, s.CipherSC)
	res.CS.MAC, _ = FirstCommon(c.MACCS, s.MACCS)
	res.SC.MAC, _ = FirstCommon(c.MACSC, s.MACSC)
	if csOK && !AEAD[res.CS.Cipher] {
		res.CS.MACNeeded = true
		need("mac-cs", c.MACCS, s.MACCS)
	}
	if scOK && !AEAD[res.SC.Cipher] {
		res.SC.MACNeeded = true
		need("mac-sc", c.MACSC, s.MACSC)
	}
	res.CS.Comp = need("comp-cs", c.CompCS, s.CompCS)
	res.SC.Comp = need("comp-sc", c.CompSC, s.CompSC)
	return res, failed, len(failed) == 0
}

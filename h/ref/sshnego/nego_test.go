package sshnego

import (
	"strings"
	"testing"
)

func l(s ...string) []string { return s }

func TestNegotiate(t *testing.T) {
	// RFC 4253 §7.1 worked by hand.
	c := KexInit{
		Kex: l("k1", "k2", "k3"), HostKey: l("h1", "h2"),
		CipherCS: l("aes128-ctr", "aes128-gcm@openssh.com"), CipherSC: l("aes128-gcm@openssh.com", "aes128-ctr"),
		MACCS: l("m1", "m2"), MACSC: l("m9"),
		CompCS: l("none", "zlib"), CompSC: l("zlib", "none"),
	}
	s := KexInit{
		Kex: l("k3", "k2"), HostKey: l("h2", "h1"),
		CipherCS: l("aes128-gcm@openssh.com", "aes128-ctr"), CipherSC: l("aes128-ctr", "aes128-gcm@openssh.com"),
		MACCS: l("m2", "m1"), MACSC: l("m8"),
		CompCS: l("zlib", "none"), CompSC: l("none"),
	}
	r, failed, ok := Negotiate(c, s)
	if !ok || len(failed) != 0 {
		t.Fatal(failed)
	}
	if r.Kex != "k2" || r.HostKey != "h1" || r.CS.Cipher != "aes128-ctr" || r.SC.Cipher != "aes128-gcm@openssh.com" ||
		r.CS.MAC != "m1" || !r.CS.MACNeeded || r.SC.MACNeeded || r.SC.MAC != "" || r.CS.Comp != "none" || r.SC.Comp != "none" {
		t.Fatalf("%+v", r)
	}
	// the s->c MAC lists are disjoint: harmless with AEAD, fatal without
	c.CipherSC = l("aes128-ctr")
	if _, failed, ok := Negotiate(c, s); ok || len(failed) != 1 || failed[0] != "mac-sc" {
		t.Fatal(failed)
	}
	// empty list, duplicates
	c.CipherSC = l("aes128-gcm@openssh.com")
	c.Kex = nil
	if _, failed, ok := Negotiate(c, s); ok || failed[0] != "kex" {
		t.Fatal(failed)
	}
	c.Kex = l("zz", "zz", "k3", "k3", "k2")
	if r, _, ok := Negotiate(c, s); !ok || r.Kex != "k3" {
		t.Fatal(r)
	}
	if v, ok := FirstCommon(l("a", "b"), l("b", "a")); !ok || v != "a" {
		t.Fatal(v)
	}
	if _, ok := FirstCommon(l("a"), nil); ok {
		t.Fatal()
	}
}

// A KEXINIT written out by hand from RFC 4253 §7.1 (every list distinct so
// that no two slots can be confused).
func TestWireKexInit(t *testing.T) {
	want := []byte{20}
	for i := 0; i < 16; i++ {
		want = append(want, byte(0xa0+i))
	}
	add := func(s string) {
		want = append(want, 0, 0, 0, byte(len(s)))
		want = append(want, s...)
	}
	add("k1,k2")
	add("h1")
	add("c-cs,x")
	add("c-sc")
	add("m-cs")
	add("m-sc,y,z")
	add("none")
	add("zlib,none")
	add("")
	add("en")
	want = append(want, 1, 0, 0, 0, 7)
	w := WireKexInit{FirstFollows: true, Reserved: 7}
	for i := range w.Cookie {
		w.Cookie[i] = byte(0xa0 + i)
	}
	w.Lists = [NumSlots][]string{l("k1", "k2"), l("h1"), l("c-cs", "x"), l("c-sc"), l("m-cs"), l("m-sc", "y", "z"), l("none"), l("zlib", "none"), nil, l("en")}
	got := w.Encode()
	if string(got) != string(want) {
		t.Fatalf("encode\n got %x\nwant %x", got, want)
	}
	d, err := DecodeKexInit(want)
	if err != nil {
		t.Fatal(err)
	}
	for i := 0; i < NumSlots; i++ {
		if strings.Join(d.Lists[i], ",") != strings.Join(w.Lists[i], ",") {
			t.Fatalf("slot %s: %v", SlotNames[i], d.Lists[i])
		}
	}
	if !d.FirstFollows || d.Reserved != 7 || d.Cookie != w.Cookie {
		t.Fatal("trailer/cookie")
	}
	k := d.KexInit()
	if k.MACCS[0] != "m-cs" || k.MACSC[0] != "m-sc" || k.CipherCS[0] != "c-cs" || k.CipherSC[0] != "c-sc" || k.CompCS[0] != "none" || k.CompSC[0] != "zlib" {
		t.Fatalf("%+v", k)
	}
	if _, err := DecodeKexInit(want[:len(want)-1]); err == nil {
		t.Fatal("truncated accepted")
	}
	if _, err := DecodeKexInit(append(want, 0)); err == nil {
		t.Fatal("trailing byte accepted")
	}
}

package sshnego

import "testing"

func l(s ...string) []string { return s }

func TestNegotiate(t *testing.T) {
	// RFC 4253 §7.1 worked by hand.
	c := KexInit{
		Kex: l("k1", "k2", "k3"), HostKey: l("h1", "h2"),
		CipherCS: l("aes128-ctr", "aes128-gcm@openssh.com"), CipherSC: l("aes128-gcm@openssh.com", "aes128-ctr"),
		MACCS: l("m1", "m2"), MACSC: l("m9"),
		CompCS: l("none", "zlib"), CompSC: l("zlib", "none"),
	}
	s := KexInit{
		Kex: l("k3", "k2"), HostKey: l("h2", "h1"),
		CipherCS: l("aes128-gcm@openssh.com", "aes128-ctr"), CipherSC: l("aes128-ctr", "aes128-gcm@openssh.com"),
		MACCS: l("m2", "m1"), MACSC: l("m8"),
		CompCS: l("zlib", "none"), CompSC: l("none"),
	}
	r, failed, ok := Negotiate(c, s)
	if !ok || len(failed) != 0 {
		t.Fatal(failed)
	}
	if r.Kex != "k2" || r.HostKey != "h1" || r.CS.Cipher != "aes128-ctr" || r.SC.Cipher != "aes128-gcm@openssh.com" ||
		r.CS.MAC != "m1" || !r.CS.MACNeeded || r.SC.MACNeeded || r.SC.MAC != "" || r.CS.Comp != "none" || r.SC.Comp != "none" {
		t.Fatalf("%+v", r)
	}
	// the s->c MAC lists are disjoint: harmless with AEAD, fatal without
	c.CipherSC = l("aes128-ctr")
	if _, failed, ok := Negotiate(c, s); ok || len(failed) != 1 || failed[0] != "mac-sc" {
		t.Fatal(failed)
	}
	// empty list, duplicates
	c.CipherSC = l("aes128-gcm@openssh.com")
	c.Kex = nil
	if _, failed, ok := Negotiate(c, s); ok || failed[0] != "kex" {
		t.Fatal(failed)
	}
	c.Kex = l("zz", "zz", "k3", "k3", "k2")
	if r, _, ok := Negotiate(c, s); !ok || r.Kex != "k3" {
		t.Fatal(r)
	}
	if v, ok := FirstCommon(l("a", "b"), l("b", "a")); !ok || v != "a" {
		t.Fatal(v)
	}
	if _, ok := FirstCommon(l("a"), nil); ok {
		t.Fatal()
	}
}

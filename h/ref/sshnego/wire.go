package sshnego

import (
	"encoding/binary"
	"errors"
	"strings"
)

// SSH_MSG_KEXINIT byte layout, RFC 4253 §7.1:
//
//	byte         SSH_MSG_KEXINIT (20)
//	byte[16]     cookie
//	name-list    kex_algorithms
//	name-list    server_host_key_algorithms
//	name-list    encryption_algorithms_client_to_server
//	name-list    encryption_algorithms_server_to_client
//	name-list    mac_algorithms_client_to_server
//	name-list    mac_algorithms_server_to_client
//	name-list    compression_algorithms_client_to_server
//	name-list    compression_algorithms_server_to_client
//	name-list    languages_client_to_server
//	name-list    languages_server_to_client
//	boolean      first_kex_packet_follows
//	uint32       0 (reserved)
//
// name-list (RFC 4251 §5): uint32 length, then the names joined by commas.

// Slot indexes of the ten name-lists, in wire order.
const (
	SlotKex = iota
	SlotHostKey
	SlotCipherCS
	SlotCipherSC
	SlotMACCS
	SlotMACSC
	SlotCompCS
	SlotCompSC
	SlotLangCS
	SlotLangSC
	NumSlots
)

// SlotNames are the category names used in evidence and violation keys.
var SlotNames = [NumSlots]string{"kex", "hostkey", "cipher-cs", "cipher-sc", "mac-cs", "mac-sc", "comp-cs", "comp-sc", "lang-cs", "lang-sc"}

// WireKexInit is a KEXINIT as it is on the wire.
type WireKexInit struct {
	Cookie       [16]byte
	Lists        [NumSlots][]string
	FirstFollows bool
	Reserved     uint32
}

// KexInit returns the eight negotiated lists.
func (w WireKexInit) KexInit() KexInit {
	return KexInit{Kex: w.Lists[SlotKex], HostKey: w.Lists[SlotHostKey],
		CipherCS: w.Lists[SlotCipherCS], CipherSC: w.Lists[SlotCipherSC],
		MACCS: w.Lists[SlotMACCS], MACSC: w.Lists[SlotMACSC],
		CompCS: w.Lists[SlotCompCS], CompSC: w.Lists[SlotCompSC]}
}

// Encode produces the payload bytes.
func (w WireKexInit) Encode() []byte {
	out := []byte{20}
	out = append(out, w.Cookie[:]...)
	for i := 0; i < NumSlots; i++ {
		s := strings.Join(w.Lists[i], ",")
		var l [4]byte
		binary.BigEndian.PutUint32(l[:], uint32(len(s)))
		out = append(out, l[:]...)
		out = append(out, s...)
	}
	if w.FirstFollows {
		out = append(out, 1)
	} else {
		out = append(out, 0)
	}
	var r [4]byte
	binary.BigEndian.PutUint32(r[:], w.Reserved)
	return append(out, r[:]...)
}

// DecodeKexInit parses payload bytes; the whole payload must be consumed.
func DecodeKexInit(p []byte) (WireKexInit, error) {
	var w WireKexInit
	if len(p) < 17 || p[0] != 20 {
		return w, errors.New("sshnego: not a KEXINIT")
	}
	copy(w.Cookie[:], p[1:17])
	p = p[17:]
	for i := 0; i < NumSlots; i++ {
		if len(p) < 4 {
			return w, errors.New("sshnego: short name-list length")
		}
		n := binary.BigEndian.Uint32(p)
		p = p[4:]
		if uint64(len(p)) < uint64(n) {
			return w, errors.New("sshnego: short name-list")
		}
		if n == 0 {
			w.Lists[i] = []string{}
		} else {
			w.Lists[i] = strings.Split(string(p[:n]), ",")
		}
		p = p[n:]
	}
	if len(p) != 5 {
		return w, errors.New("sshnego: wrong trailer length")
	}
	w.FirstFollows = p[0] != 0
	w.Reserved = binary.BigEndian.Uint32(p[1:])
	return w, nil
}

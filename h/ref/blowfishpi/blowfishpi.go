// Package blowfishpi is an executable specification of Blowfish (Schneier,
// FSE 1993) and of the EksBlowfish key expansion (Provos & Mazières, 1999).
//
// Nothing is copied from a table: the P-array and the four S-boxes are the
// first 18+4*256 = 1042 32-bit words of the fractional part of π, computed at
// start-up with integer arithmetic (Machin's formula over math/big). The
// cipher is written as the obvious 16-round loop. No code is shared with
// golang.org/x/crypto/blowfish.
package blowfishpi

import (
	"math/big"
	"sync"
)

const nWords = 18 + 4*256

var (
	piOnce  sync.Once
	piWords [nWords]uint32
)

// arctanInv returns atan(1/x) * 2^prec (truncated series, integer arithmetic).
func arctanInv(x int64, prec uint) *big.Int {
	one := new(big.Int).Lsh(big.NewInt(1), prec)
	bx := big.NewInt(x)
	x2 := big.NewInt(x * x)
	term := new(big.Int).Quo(one, bx) // 1/x
	sum := new(big.Int).Set(term)
	q := new(big.Int)
	for n := int64(3); term.Sign() != 0; n += 2 {
		term.Quo(term, x2)
		q.Quo(term, big.NewInt(n))
		if (n/2)%2 == 1 {
			sum.Sub(sum, q)
		} else {
			sum.Add(sum, q)
		}
	}
	return sum
}

// PiFractionWords returns the first n 32-bit words of the fractional part of
// π (big-endian bit order: word 0 = 0x243F6A88).
func PiFractionWords(n int) []uint32 {
	bitsNeeded := uint(32 * n)
	prec := bitsNeeded + 128 // guard bits: series truncation error << 2^-bitsNeeded
	// Machin: π = 16·atan(1/5) − 4·atan(1/239)
	pi := new(big.Int).Mul(arctanInv(5, prec), big.NewInt(16))
	pi.Sub(pi, new(big.Int).Mul(arctanInv(239, prec), big.NewInt(4)))
	// drop the integer part (3)
	three := new(big.Int).Lsh(big.NewInt(3), prec)
	frac := new(big.Int).Sub(pi, three)
	frac.Rsh(frac, prec-bitsNeeded) // now an integer of bitsNeeded bits
	out := make([]uint32, n)
	mask := big.NewInt(0xffffffff)
	w := new(big.Int)
	for i := n - 1; i >= 0; i-- {
		w.And(frac, mask)
		out[i] = uint32(w.Uint64())
		frac.Rsh(frac, 32)
	}
	return out
}

func initPi() {
	piOnce.Do(func() { copy(piWords[:], PiFractionWords(nWords)) })
}

// State is a Blowfish key-dependent state.
type State struct {
	P [18]uint32
	S [4][256]uint32
}

// NewState returns the initial state (digits of π).
func NewState() *State {
	initPi()
	st := new(State)
	copy(st.P[:], piWords[:18])
	for b := 0; b < 4; b++ {
		copy(st.S[b][:], piWords[18+256*b:18+256*(b+1)])
	}
	return st
}

func (st *State) f(x uint32) uint32 {
	a, b, c, d := x>>24, (x>>16)&0xff, (x>>8)&0xff, x&0xff
	return ((st.S[0][a] + st.S[1][b]) ^ st.S[2][c]) + st.S[3][d]
}

// EncryptWords encrypts one block given as two 32-bit halves.
func (st *State) EncryptWords(xl, xr uint32) (uint32, uint32) {
	for i := 0; i < 16; i++ {
		xl ^= st.P[i]
		xr ^= st.f(xl)
		xl, xr = xr, xl
	}
	xl, xr = xr, xl // undo the last swap
	xr ^= st.P[16]
	xl ^= st.P[17]
	return xl, xr
}

// DecryptWords is the inverse of EncryptWords.
func (st *State) DecryptWords(xl, xr uint32) (uint32, uint32) {
	for i := 17; i > 1; i-- {
		xl ^= st.P[i]
		xr ^= st.f(xl)
		xl, xr = xr, xl
	}
	xl, xr = xr, xl
	xr ^= st.P[1]
	xl ^= st.P[0]
	return xl, xr
}

func be32(b []byte) uint32 {
	return uint32(b[0])<<24 | uint32(b[1])<<16 | uint32(b[2])<<8 | uint32(b[3])
}
func put32(b []byte, v uint32) {
	b[0], b[1], b[2], b[3] = byte(v>>24), byte(v>>16), byte(v>>8), byte(v)
}

// Encrypt encrypts one 8-byte block (big-endian halves) and returns it.
func (st *State) Encrypt(in []byte) []byte {
	l, r := st.EncryptWords(be32(in[0:4]), be32(in[4:8]))
	out := make([]byte, 8)
	put32(out[0:], l)
	put32(out[4:], r)
	return out
}

// Decrypt decrypts one 8-byte block.
func (st *State) Decrypt(in []byte) []byte {
	l, r := st.DecryptWords(be32(in[0:4]), be32(in[4:8]))
	out := make([]byte, 8)
	put32(out[0:], l)
	put32(out[4:], r)
	return out
}

// cyclic32 reads the k-th big-endian 32-bit word of b taken as an endlessly
// repeated byte string.
func cyclic32(b []byte, k int) uint32 {
	var w uint32
	for i := 0; i < 4; i++ {
		w = w<<8 | uint32(b[(4*k+i)%len(b)])
	}
	return w
}

// ExpandKey is the standard Blowfish key schedule step applied to the current
// state: XOR the cyclically repeated key into P, then replace P and S with the
// chained encryptions of the zero block. (EksBlowfish ExpandKey with salt 0.)
func (st *State) ExpandKey(key []byte) {
	st.ExpandKeySalt(key, nil)
}

// ExpandKeySalt is EksBlowfish's ExpandKey(state, salt, key): as ExpandKey,
// but before each chained encryption the running block is XORed with the next
// 64 bits of the (cyclically repeated) salt. A nil/empty salt means zero.
func (st *State) ExpandKeySalt(key, salt []byte) {
	for i := range st.P {
		st.P[i] ^= cyclic32(key, i)
	}
	var l, r uint32
	sw := 0
	step := func() {
		if len(salt) > 0 {
			l ^= cyclic32(salt, sw)
			r ^= cyclic32(salt, sw+1)
			sw += 2
		}
		l, r = st.EncryptWords(l, r)
	}
	for i := 0; i < 18; i += 2 {
		step()
		st.P[i], st.P[i+1] = l, r
	}
	for b := 0; b < 4; b++ {
		for i := 0; i < 256; i += 2 {
			step()
			st.S[b][i], st.S[b][i+1] = l, r
		}
	}
}

// New returns the Blowfish state for key (any length >= 1; the algorithm
// itself is defined for up to 56 bytes, longer keys simply wrap fewer times).
func New(key []byte) *State {
	st := NewState()
	st.ExpandKey(key)
	return st
}

// NewSalted returns InitState followed by ExpandKey(state, salt, key).
func NewSalted(key, salt []byte) *State {
	st := NewState()
	st.ExpandKeySalt(key, salt)
	return st
}

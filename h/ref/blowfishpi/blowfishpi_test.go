package blowfishpi

import (
	"bytes"
	"encoding/base64"
	"encoding/hex"
	"math/rand/v2"
	"testing"

	"verif/clib/gcryptcipher"
	"verif/clib/nettlecipher"
)

func unhex(s string) []byte { b, _ := hex.DecodeString(s); return b }

func TestPiWords(t *testing.T) {
	w := PiFractionWords(20)
	// π = 3.243F6A88 85A308D3 13198A2E 03707344 … (hex)
	want := []uint32{0x243F6A88, 0x85A308D3, 0x13198A2E, 0x03707344, 0xA4093822, 0x299F31D0}
	for i, x := range want {
		if w[i] != x {
			t.Fatalf("pi word %d = %08x want %08x", i, w[i], x)
		}
	}
	// independent of how many words are requested (guard bits sufficient)
	all := PiFractionWords(nWords)
	more := PiFractionWords(nWords + 8)
	for i := range all {
		if all[i] != more[i] {
			t.Fatalf("pi word %d unstable: %08x vs %08x", i, all[i], more[i])
		}
	}
	// last S-box word published by Schneier: S4[255] = 0x3AC372E6
	if all[nWords-1] != 0x3AC372E6 {
		t.Fatalf("S4[255] = %08x", all[nWords-1])
	}
}

func TestSchneierVectors(t *testing.T) {
	vecs := []struct{ key, pt, ct string }{
		{"0000000000000000", "0000000000000000", "4EF997456198DD78"},
		{"FFFFFFFFFFFFFFFF", "FFFFFFFFFFFFFFFF", "51866FD5B85ECB8A"},
		{"3000000000000000", "1000000000000001", "7D856F9A613063F2"},
		{"1111111111111111", "1111111111111111", "2466DD878B963C9D"},
		{"0123456789ABCDEF", "1111111111111111", "61F9C3802281B096"},
		{"FEDCBA9876543210", "0123456789ABCDEF", "0ACEAB0FC6A0A28D"},
		// variable key length set
		{"F0", "FEDCBA9876543210", "F9AD597C49DB005E"},
		{"F0E1D2C3B4A5968778695A4B3C2D1E0F0011223344556677", "FEDCBA9876543210", "05044B62FA52D080"},
	}
	for _, v := range vecs {
		st := New(unhex(v.key))
		got := st.Encrypt(unhex(v.pt))
		if !bytes.Equal(got, unhex(v.ct)) {
			t.Errorf("key %s: got %x want %s", v.key, got, v.ct)
		}
		if back := st.Decrypt(got); !bytes.Equal(back, unhex(v.pt)) {
			t.Errorf("key %s: decrypt mismatch", v.key)
		}
	}
}

// Cross-check against two C libraries at every key length they accept.
func TestAgainstCLibs(t *testing.T) {
	r := rand.New(rand.NewPCG(1, 2))
	ng, nn := 0, 0
	for klen := 1; klen <= 72; klen++ {
		for rep := 0; rep < 6; rep++ {
			key := make([]byte, klen)
			for i := range key {
				key[i] = byte(r.Uint32())
			}
			pt := make([]byte, 8)
			for i := range pt {
				pt[i] = byte(r.Uint32())
			}
			want := New(key).Encrypt(pt)
			if g, err := gcryptcipher.ECB(gcryptcipher.Blowfish, true, key, pt); err == nil {
				ng++
				if !bytes.Equal(g, want) {
					t.Fatalf("klen %d: ref %x libgcrypt %x", klen, want, g)
				}
			} else if err != gcryptcipher.ErrWeakKey && klen <= 56 {
				t.Fatalf("libgcrypt klen %d: %v", klen, err)
			}
			if klen >= 8 && klen <= 56 {
				if g, err := nettlecipher.Blowfish(true, key, pt); err == nil {
					nn++
					if !bytes.Equal(g, want) {
						t.Fatalf("klen %d: ref %x nettle %x", klen, want, g)
					}
				} else if err != nettlecipher.ErrWeakKey {
					t.Fatal(err)
				}
			}
		}
	}
	t.Logf("libgcrypt comparisons %d, nettle comparisons %d", ng, nn)
	if ng < 300 || nn < 250 {
		t.Fatalf("too few witness comparisons")
	}
}

// bcrypt built from the ref's EksBlowfish pieces must reproduce published
// bcrypt hashes: validates ExpandKeySalt / repeated ExpandKey.
func TestBcryptVectors(t *testing.T) {
	enc := base64.NewEncoding("./ABCDEFGHIJKLMNOPQRSTUVWXYZabcdefghijklmnopqrstuvwxyz0123456789").WithPadding(base64.NoPadding)
	vecs := []struct {
		pw   string
		cost uint
		salt string // 22 chars
		hash string // 31 chars
	}{
		{"U*U", 5, "CCCCCCCCCCCCCCCCCCCCC.", "E5YPO9kmyuRGyh0XouQYb4YMJKvyOeW"},
		{"U*U*", 5, "CCCCCCCCCCCCCCCCCCCCC.", "VGOzA784oUp/Z0DY336zx7pLYAy0lwK"},
		{"U*U*U", 5, "XXXXXXXXXXXXXXXXXXXXXO", "AcXxm9kjPGEMsLznoKqmqw7tc8WCx4a"},
		{"", 5, "CCCCCCCCCCCCCCCCCCCCC.", "7uG0VCzI2bS7j6ymqJi9CdcdxiRTWNy"},
	}
	for _, v := range vecs {
		salt, err := enc.DecodeString(v.salt)
		if err != nil || len(salt) != 16 {
			t.Fatalf("salt decode %v len %d", err, len(salt))
		}
		key := append([]byte(v.pw), 0)
		st := NewSalted(key, salt)
		for i := 0; i < 1<<v.cost; i++ {
			st.ExpandKey(key)
			st.ExpandKey(salt)
		}
		ct := []byte("OrpheanBeholderScryDoubt")
		for i := 0; i < 64; i++ {
			for b := 0; b < 24; b += 8 {
				copy(ct[b:], st.Encrypt(ct[b:b+8]))
			}
		}
		got := enc.EncodeToString(ct[:23])
		if got != v.hash {
			t.Errorf("bcrypt(%q): got %s want %s", v.pw, got, v.hash)
		}
	}
}

package cauth

import (
	"slices"
	"strings"
)

// SignerModel is what the application handed to the client for one key,
// described in terms of the documented interfaces:
//
//   - a MultiAlgorithmSigner "reports the algorithms supported by that signer",
//     "Algorithms returns the available algorithms in preference order" -> Ordered;
//   - a bare AlgorithmSigner is assumed to support every algorithm of its key
//     format (no documented order)                                    -> !Ordered;
//   - a bare Signer only signs with the key format's own algorithm.
type SignerModel struct {
	KeyFormat string   // PublicKey().Type(); a certificate format for certificate signers
	Algos     []string // underlying (non-certificate) signature algorithm names
	Ordered   bool
}

// Choice is the set of public key algorithm names a conforming client may put
// into a publickey request for the key.
type Choice struct {
	Allowed []string // empty: the key cannot be used ("we return an error")
	Rule    string
}

// Choose transcribes the documented selection:
//
// RFC 8308 §3.1: "server-sig-algs" lists the public key algorithms the server
// can process; a client that wants to proceed with public key authentication
// may use any of them. ssh doc comments (pickSignatureAlgorithm): the extension
// only carries underlying signature algorithms, so the certificate forms of the
// listed names count as listed; the signer's algorithms are iterated first "to
// preserve its preference order"; "Fallback to use if there is no
// server-sig-algs extension or a common algorithm cannot be found. We use the
// public key format if the MultiAlgorithmSigner supports it, otherwise we
// return an error."
//
// sigAlgs == nil means the extension was not received.
func Choose(m SignerModel, sigAlgs *string) Choice {
	cert := IsCertName(m.KeyFormat)
	fam := Family(m.KeyFormat)
	if sigAlgs != nil {
		listed := map[string]bool{}
		for _, a := range strings.Split(*sigAlgs, ",") {
			listed[a] = true
			if !IsCertName(a) {
				listed[CertOf(a)] = true
			}
		}
		var common []string
		for _, a := range m.Algos {
			p := a
			if cert {
				p = CertOf(a)
			}
			if !slices.Contains(fam, p) {
				continue
			}
			if listed[p] && !slices.Contains(common, p) {
				common = append(common, p)
			}
		}
		if len(common) > 0 {
			if m.Ordered {
				return Choice{Allowed: common[:1], Rule: "overlap-ordered"}
			}
			return Choice{Allowed: common, Rule: "overlap-any"}
		}
	}
	if slices.Contains(m.Algos, Underlying(m.KeyFormat)) {
		return Choice{Allowed: []string{m.KeyFormat}, Rule: "fallback-keyformat"}
	}
	return Choice{Rule: "unusable"}
}

// RSACertCompat reports whether the documented OpenSSH 7.2-7.7 workaround
// applies: after the server rejected an RSA certificate offered with a SHA-2
// certificate algorithm, the client may offer it again as
// "ssh-rsa-cert-v01@openssh.com" if the signer supports "ssh-rsa".
func RSACertCompat(m SignerModel, rejectedAlgo string) bool {
	return m.KeyFormat == CertOf("ssh-rsa") &&
		IsCertName(rejectedAlgo) && KeyFormatOf(rejectedAlgo) == m.KeyFormat &&
		rejectedAlgo != CertOf("ssh-rsa") &&
		slices.Contains(m.Algos, "ssh-rsa")
}

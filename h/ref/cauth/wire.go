// Package cauth is an independent (no x/crypto imports) executable reading of
// the client side of RFC 4252 user authentication: a decoder for the packets a
// client writes, encoders for the packets a server writes, the data-to-be-signed
// of RFC 4252 §7, signature verification with the standard library only
// (RFC 4253 §6.6, RFC 5656 §3.1.2, RFC 8332 §3, RFC 8709 §6) and the documented
// public key algorithm choice (RFC 8308 §3.1 + the doc comments of
// golang.org/x/crypto/ssh).
package cauth

import (
	"encoding/binary"
	"errors"
	"fmt"
	"strings"
)

// Message numbers (RFC 4250 §4.1, RFC 4252 §6, RFC 4256 §5, RFC 8308 §2.3).
const (
	MsgDisconnect      = 1
	MsgIgnore          = 2
	MsgDebug           = 4
	MsgServiceRequest  = 5
	MsgServiceAccept   = 6
	MsgExtInfo         = 7
	MsgKexInit         = 20
	MsgNewKeys         = 21
	MsgUserAuthRequest = 50
	MsgUserAuthFailure = 51
	MsgUserAuthSuccess = 52
	MsgUserAuthBanner  = 53
	MsgPKOK            = 60 // also INFO_REQUEST / PASSWD_CHANGEREQ (method specific)
	MsgInfoRequest     = 60
	MsgInfoResponse    = 61
	MsgGlobalRequest   = 80
	MsgRequestSuccess  = 81
	MsgRequestFailure  = 82
)

// Rd is a cursor over SSH wire data (RFC 4251 §5).
type Rd struct {
	B   []byte
	Err error
}

func (r *Rd) fail() { r.Err = errors.New("short read"); r.B = nil }

func (r *Rd) U8() byte {
	if r.Err != nil || len(r.B) < 1 {
		r.fail()
		return 0
	}
	v := r.B[0]
	r.B = r.B[1:]
	return v
}

func (r *Rd) Bool() bool { return r.U8() != 0 }

func (r *Rd) U32() uint32 {
	if r.Err != nil || len(r.B) < 4 {
		r.fail()
		return 0
	}
	v := binary.BigEndian.Uint32(r.B)
	r.B = r.B[4:]
	return v
}

func (r *Rd) U64() uint64 {
	if r.Err != nil || len(r.B) < 8 {
		r.fail()
		return 0
	}
	v := binary.BigEndian.Uint64(r.B)
	r.B = r.B[8:]
	return v
}

func (r *Rd) Str() []byte {
	n := r.U32()
	if r.Err != nil || uint64(n) > uint64(len(r.B)) {
		r.fail()
		return nil
	}
	v := r.B[:n:n]
	r.B = r.B[n:]
	return v
}

func (r *Rd) Done() bool { return r.Err == nil && len(r.B) == 0 }

// ---- encoders ---------------------------------------------------------------

func PutU32(b []byte, v uint32) []byte { return binary.BigEndian.AppendUint32(b, v) }
func PutStr(b []byte, s []byte) []byte { return append(PutU32(b, uint32(len(s))), s...) }
func PutS(b []byte, s string) []byte   { return append(PutU32(b, uint32(len(s))), s...) }
func PutBool(b []byte, v bool) []byte {
	if v {
		return append(b, 1)
	}
	return append(b, 0)
}

// Failure encodes SSH_MSG_USERAUTH_FAILURE (RFC 4252 §5.1).
func Failure(methods []string, partial bool) []byte {
	b := []byte{MsgUserAuthFailure}
	b = PutS(b, strings.Join(methods, ","))
	return PutBool(b, partial)
}

// Success encodes SSH_MSG_USERAUTH_SUCCESS.
func Success() []byte { return []byte{MsgUserAuthSuccess} }

// PKOK encodes SSH_MSG_USERAUTH_PK_OK (RFC 4252 §7).
func PKOK(algo string, key []byte) []byte {
	b := []byte{MsgPKOK}
	b = PutS(b, algo)
	return PutStr(b, key)
}

// Banner encodes SSH_MSG_USERAUTH_BANNER (RFC 4252 §5.4).
func Banner(msg string) []byte {
	b := []byte{MsgUserAuthBanner}
	b = PutS(b, msg)
	return PutS(b, "")
}

// InfoRequest encodes SSH_MSG_USERAUTH_INFO_REQUEST (RFC 4256 §3.2).
func InfoRequest(name, instruction string, prompts []string, echo []bool) []byte {
	b := []byte{MsgInfoRequest}
	b = PutS(b, name)
	b = PutS(b, instruction)
	b = PutS(b, "")
	b = PutU32(b, uint32(len(prompts)))
	for i, p := range prompts {
		b = PutS(b, p)
		b = PutBool(b, echo[i])
	}
	return b
}

// ServiceAccept encodes SSH_MSG_SERVICE_ACCEPT.
func ServiceAccept(service string) []byte { return PutS([]byte{MsgServiceAccept}, service) }

// ExtInfo encodes SSH_MSG_EXT_INFO (RFC 8308 §2.3) from name/value pairs.
func ExtInfo(pairs [][2]string) []byte {
	b := []byte{MsgExtInfo}
	b = PutU32(b, uint32(len(pairs)))
	for _, p := range pairs {
		b = PutS(b, p[0])
		b = PutS(b, p[1])
	}
	return b
}

// Disconnect encodes SSH_MSG_DISCONNECT.
func Disconnect(reason uint32, msg string) []byte {
	b := []byte{MsgDisconnect}
	b = PutU32(b, reason)
	b = PutS(b, msg)
	return PutS(b, "")
}

// ---- decoder for what a client writes ---------------------------------------

// ClientMsg is one decoded packet written by a client during (or right after)
// the authentication protocol.
type ClientMsg struct {
	Type byte
	Raw  []byte

	// SERVICE_REQUEST
	ServiceName string

	// USERAUTH_REQUEST
	User, Service, Method string
	// method "password"
	PwChange bool
	Password string
	// method "keyboard-interactive"
	Language, Submethods string
	// method "publickey"
	HasSig  bool
	Algo    string
	KeyBlob []byte
	Sig     []byte // the content of the trailing "string signature"
	// other methods: undecoded rest
	Rest []byte

	// USERAUTH_INFO_RESPONSE
	Answers []string

	// GLOBAL_REQUEST
	ReqName   string
	WantReply bool
}

// ParseClient decodes p. Packets of types it does not know are returned with
// only Type/Raw set. Trailing or missing bytes in a known layout are an error.
func ParseClient(p []byte) (*ClientMsg, error) {
	if len(p) == 0 {
		return nil, errors.New("empty packet")
	}
	m := &ClientMsg{Type: p[0], Raw: p}
	r := &Rd{B: p[1:]}
	switch m.Type {
	case MsgServiceRequest:
		m.ServiceName = string(r.Str())
	case MsgUserAuthRequest:
		m.User = string(r.Str())
		m.Service = string(r.Str())
		m.Method = string(r.Str())
		if r.Err != nil {
			break
		}
		switch m.Method {
		case "none":
		case "password":
			m.PwChange = r.Bool()
			m.Password = string(r.Str())
			if m.PwChange {
				m.Rest = r.Str()
			}
		case "keyboard-interactive":
			m.Language = string(r.Str())
			m.Submethods = string(r.Str())
		case "publickey":
			m.HasSig = r.Bool()
			m.Algo = string(r.Str())
			m.KeyBlob = r.Str()
			if m.HasSig {
				m.Sig = r.Str()
			}
		default:
			m.Rest = r.B
			r.B = nil
		}
	case MsgInfoResponse:
		n := r.U32()
		if uint64(n) > uint64(len(r.B)) {
			return m, errors.New("info response count exceeds packet")
		}
		for i := uint32(0); i < n; i++ {
			m.Answers = append(m.Answers, string(r.Str()))
		}
	case MsgGlobalRequest:
		m.ReqName = string(r.Str())
		m.WantReply = r.Bool()
		m.Rest = r.B
		r.B = nil
	default:
		return m, nil
	}
	if r.Err != nil {
		return m, fmt.Errorf("type %d: %v", m.Type, r.Err)
	}
	if !r.Done() {
		return m, fmt.Errorf("type %d: %d trailing bytes", m.Type, len(r.B))
	}
	return m, nil
}

// SignedData is the data a publickey signature covers (RFC 4252 §7):
// string session id, byte 50, user, service, "publickey", TRUE, algorithm, key.
func SignedData(sessionID []byte, user, service, algo string, keyBlob []byte) []byte {
	b := PutStr(nil, sessionID)
	b = append(b, MsgUserAuthRequest)
	b = PutS(b, user)
	b = PutS(b, service)
	b = PutS(b, "publickey")
	b = append(b, 1)
	b = PutS(b, algo)
	return PutStr(b, keyBlob)
}

// ServerMsg is one decoded packet written by a server during authentication.
type ServerMsg struct {
	Type    byte
	Kind    string // failure success banner pkok inforeq extinfo svcaccept disconnect other
	Methods []string
	Partial bool
	Algo    string
	KeyBlob []byte
	Exts    [][2]string
}

// ParseServer decodes p; message number 60 is method specific (RFC 4252 §7,
// RFC 4256 §3.2), so the method of the request being answered is needed.
func ParseServer(p []byte, pendingMethod string) (*ServerMsg, error) {
	if len(p) == 0 {
		return nil, errors.New("empty packet")
	}
	m := &ServerMsg{Type: p[0], Kind: "other"}
	r := &Rd{B: p[1:]}
	switch m.Type {
	case MsgUserAuthFailure:
		m.Kind = "failure"
		if l := string(r.Str()); l != "" {
			m.Methods = strings.Split(l, ",")
		}
		m.Partial = r.Bool()
	case MsgUserAuthSuccess:
		m.Kind = "success"
	case MsgUserAuthBanner:
		m.Kind = "banner"
		r.Str()
		r.Str()
	case MsgServiceAccept:
		m.Kind = "svcaccept"
		r.Str()
	case MsgDisconnect:
		m.Kind = "disconnect"
		return m, nil
	case MsgExtInfo:
		m.Kind = "extinfo"
		n := r.U32()
		for i := uint32(0); i < n && r.Err == nil; i++ {
			k, v := string(r.Str()), string(r.Str())
			m.Exts = append(m.Exts, [2]string{k, v})
		}
	case 60:
		if pendingMethod == "publickey" {
			m.Kind = "pkok"
			m.Algo = string(r.Str())
			m.KeyBlob = r.Str()
		} else {
			m.Kind = "inforeq"
			return m, nil
		}
	default:
		return m, nil
	}
	if r.Err != nil {
		return m, r.Err
	}
	if !r.Done() {
		return m, fmt.Errorf("type %d: trailing bytes", m.Type)
	}
	return m, nil
}

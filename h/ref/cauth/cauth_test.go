package cauth

import (
	"bytes"
	"crypto"
	"crypto/ecdsa"
	"crypto/ed25519"
	"crypto/elliptic"
	"crypto/rand"
	"crypto/rsa"
	"crypto/sha1"
	"crypto/sha256"
	"crypto/sha512"
	"encoding/base64"
	"encoding/hex"
	"os"
	"os/exec"
	"path/filepath"
	"reflect"
	"strings"
	"testing"

	"verif/ext"
)

func unhex(t *testing.T, s string) []byte {
	b, err := hex.DecodeString(strings.ReplaceAll(s, " ", ""))
	if err != nil {
		t.Fatal(err)
	}
	return b
}

// Hand-encoded packets following RFC 4252 §5, §7, §8 and RFC 4256 §3.1/3.4.
func TestParseClientVectors(t *testing.T) {
	// byte 50, "bob", "ssh-connection", "none"
	none := unhex(t, "32 00000003 626f62 0000000e 7373682d636f6e6e656374696f6e 00000004 6e6f6e65")
	m, err := ParseClient(none)
	if err != nil || m.User != "bob" || m.Service != "ssh-connection" || m.Method != "none" {
		t.Fatalf("none: %+v %v", m, err)
	}
	// password: FALSE, "pw"
	pw := unhex(t, "32 00000003 626f62 0000000e 7373682d636f6e6e656374696f6e 00000008 70617373776f7264 00 00000002 7077")
	m, err = ParseClient(pw)
	if err != nil || m.Method != "password" || m.Password != "pw" || m.PwChange {
		t.Fatalf("password: %+v %v", m, err)
	}
	if _, err = ParseClient(append(pw, 0)); err == nil {
		t.Fatal("trailing byte accepted")
	}
	if _, err = ParseClient(pw[:len(pw)-1]); err == nil {
		t.Fatal("truncated accepted")
	}
	// keyboard-interactive: language "", submethods "pam"
	ki := unhex(t, "32 00000003 626f62 0000000e 7373682d636f6e6e656374696f6e 00000014 6b6579626f6172642d696e746572616374697665 00000000 00000003 70616d")
	m, err = ParseClient(ki)
	if err != nil || m.Method != "keyboard-interactive" || m.Submethods != "pam" || m.Language != "" {
		t.Fatalf("kbdint: %+v %v", m, err)
	}
	// publickey query: FALSE, "ssh-ed25519", blob "KEY"
	q := unhex(t, "32 00000003 626f62 0000000e 7373682d636f6e6e656374696f6e 00000009 7075626c69636b6579 00 0000000b 7373682d65643235353139 00000003 4b4559")
	m, err = ParseClient(q)
	if err != nil || m.Method != "publickey" || m.HasSig || m.Algo != "ssh-ed25519" || string(m.KeyBlob) != "KEY" || m.Sig != nil {
		t.Fatalf("query: %+v %v", m, err)
	}
	// signed: TRUE, ..., string "SIG"
	s := unhex(t, "32 00000003 626f62 0000000e 7373682d636f6e6e656374696f6e 00000009 7075626c69636b6579 01 0000000b 7373682d65643235353139 00000003 4b4559 00000003 534947")
	m, err = ParseClient(s)
	if err != nil || !m.HasSig || string(m.Sig) != "SIG" {
		t.Fatalf("signed: %+v %v", m, err)
	}
	// the same bytes with HasSig=FALSE have a trailing string: malformed
	s2 := append([]byte(nil), s...)
	s2[1+7+18+13] = 0
	if _, err = ParseClient(s2); err == nil {
		t.Fatal("query with trailing signature accepted")
	}
	// info response: 2 answers "a", ""
	ir := unhex(t, "3d 00000002 00000001 61 00000000")
	m, err = ParseClient(ir)
	if err != nil || !reflect.DeepEqual(m.Answers, []string{"a", ""}) {
		t.Fatalf("info response: %+v %v", m, err)
	}
	// service request
	sr := unhex(t, "05 0000000c 7373682d7573657261757468")
	m, err = ParseClient(sr)
	if err != nil || m.ServiceName != "ssh-userauth" {
		t.Fatalf("service request: %+v %v", m, err)
	}
	// signed data layout (RFC 4252 §7)
	sd := SignedData([]byte{1, 2}, "bob", "ssh-connection", "ssh-ed25519", []byte("KEY"))
	want := unhex(t, "00000002 0102 32 00000003 626f62 0000000e 7373682d636f6e6e656374696f6e 00000009 7075626c69636b6579 01 0000000b 7373682d65643235353139 00000003 4b4559")
	if !bytes.Equal(sd, want) {
		t.Fatalf("signed data\n got %x\nwant %x", sd, want)
	}
	// encoders
	if got := Failure([]string{"password", "publickey"}, true); !bytes.Equal(got, unhex(t, "33 00000012 70617373776f72642c7075626c69636b6579 01")) {
		t.Fatalf("failure: %x", got)
	}
	if got := Failure(nil, false); !bytes.Equal(got, unhex(t, "33 00000000 00")) {
		t.Fatalf("failure empty: %x", got)
	}
	if got := PKOK("ssh-rsa", []byte("K")); !bytes.Equal(got, unhex(t, "3c 00000007 7373682d727361 00000001 4b")) {
		t.Fatalf("pkok: %x", got)
	}
	if got := ExtInfo([][2]string{{"server-sig-algs", "a,b"}}); !bytes.Equal(got, unhex(t, "07 00000001 0000000f 7365727665722d7369672d616c6773 00000003 612c62")) {
		t.Fatalf("extinfo: %x", got)
	}
	if got := InfoRequest("n", "", []string{"p"}, []bool{true}); !bytes.Equal(got, unhex(t, "3c 00000001 6e 00000000 00000000 00000001 00000001 70 01")) {
		t.Fatalf("inforequest: %x", got)
	}
}

func sshSig(format string, blob []byte) []byte { return PutStr(PutS(nil, format), blob) }

func TestVerifyStdlibRoundTrip(t *testing.T) {
	data := []byte("data to be signed")
	rk, err := rsa.GenerateKey(rand.Reader, 2048)
	if err != nil {
		t.Fatal(err)
	}
	for _, c := range []struct {
		f string
		h crypto.Hash
	}{{"ssh-rsa", crypto.SHA1}, {"rsa-sha2-256", crypto.SHA256}, {"rsa-sha2-512", crypto.SHA512}} {
		var d []byte
		switch c.h {
		case crypto.SHA1:
			s := sha1.Sum(data)
			d = s[:]
		case crypto.SHA256:
			s := sha256.Sum256(data)
			d = s[:]
		default:
			s := sha512.Sum512(data)
			d = s[:]
		}
		sig, err := rsa.SignPKCS1v15(rand.Reader, rk, c.h, d)
		if err != nil {
			t.Fatal(err)
		}
		if f, err := Verify(&rk.PublicKey, sshSig(c.f, sig), data); err != nil || f != c.f {
			t.Fatalf("%s: %v", c.f, err)
		}
		// hash/name confusion must fail
		other := "rsa-sha2-256"
		if c.f == other {
			other = "rsa-sha2-512"
		}
		if _, err := Verify(&rk.PublicKey, sshSig(other, sig), data); err == nil {
			t.Fatalf("%s signature accepted as %s", c.f, other)
		}
		if _, err := Verify(&rk.PublicKey, sshSig(c.f, sig), append(data, 1)); err == nil {
			t.Fatal("wrong data accepted")
		}
	}
	for _, cv := range []elliptic.Curve{elliptic.P256(), elliptic.P384(), elliptic.P521()} {
		ek, _ := ecdsa.GenerateKey(cv, rand.Reader)
		var d []byte
		var name string
		switch cv.Params().BitSize {
		case 256:
			s := sha256.Sum256(data)
			d, name = s[:], "ecdsa-sha2-nistp256"
		case 384:
			s := sha512.Sum384(data)
			d, name = s[:], "ecdsa-sha2-nistp384"
		default:
			s := sha512.Sum512(data)
			d, name = s[:], "ecdsa-sha2-nistp521"
		}
		r, s, err := ecdsa.Sign(rand.Reader, ek, d)
		if err != nil {
			t.Fatal(err)
		}
		mp := func(b []byte) []byte {
			if len(b) > 0 && b[0]&0x80 != 0 {
				return append([]byte{0}, b...)
			}
			return b
		}
		blob := PutStr(PutStr(nil, mp(r.Bytes())), mp(s.Bytes()))
		if _, err := Verify(&ek.PublicKey, sshSig(name, blob), data); err != nil {
			t.Fatalf("%s: %v", name, err)
		}
		if _, err := Verify(&ek.PublicKey, sshSig(name, blob), append(data, 1)); err == nil {
			t.Fatal("wrong data accepted")
		}
	}
	pub, priv, _ := ed25519.GenerateKey(rand.Reader)
	sig := ed25519.Sign(priv, data)
	if _, err := Verify(pub, sshSig("ssh-ed25519", sig), data); err != nil {
		t.Fatal(err)
	}
	sig[0] ^= 1
	if _, err := Verify(pub, sshSig("ssh-ed25519", sig), data); err == nil {
		t.Fatal("tampered ed25519 accepted")
	}
}

// OpenSSH as an independent source of key blobs and signatures: ssh-keygen -Y
// sign produces an SSHSIG structure (PROTOCOL.sshsig) that carries the public
// key blob and an ordinary SSH signature over a documented wrapper.
func TestVerifyOpenSSHVectors(t *testing.T) {
	if _, err := exec.LookPath("ssh-keygen"); err != nil {
		t.Skip("ssh-keygen not installed")
	}
	dir, err := ext.TempDir("cauthref")
	if err != nil {
		t.Fatal(err)
	}
	defer os.RemoveAll(dir)
	msg := []byte("the message\n")
	for _, kt := range [][]string{{"rsa", "-b", "2048"}, {"ecdsa", "-b", "256"}, {"ecdsa", "-b", "384"}, {"ecdsa", "-b", "521"}, {"ed25519"}} {
		name := strings.Join(kt, "")
		kf := filepath.Join(dir, name)
		args := append([]string{"-q", "-N", "", "-f", kf, "-t"}, kt...)
		if _, se, err := ext.Run(nil, nil, "ssh-keygen", args...); err != nil {
			t.Fatalf("keygen %v: %v %s", kt, err, se)
		}
		out, se, err := ext.Run(msg, nil, "ssh-keygen", "-Y", "sign", "-f", kf, "-n", "verif")
		if err != nil {
			t.Fatalf("sign: %v %s", err, se)
		}
		var b64 strings.Builder
		for _, l := range strings.Split(out, "\n") {
			if strings.HasPrefix(l, "-----") {
				continue
			}
			b64.WriteString(strings.TrimSpace(l))
		}
		raw, err := base64.StdEncoding.DecodeString(b64.String())
		if err != nil {
			t.Fatal(err)
		}
		if !bytes.HasPrefix(raw, []byte("SSHSIG")) {
			t.Fatal("no SSHSIG magic")
		}
		r := &Rd{B: raw[6:]}
		if r.U32() != 1 {
			t.Fatal("version")
		}
		pk, ns, rsv, ha, sig := r.Str(), r.Str(), r.Str(), string(r.Str()), r.Str()
		if r.Err != nil || !r.Done() {
			t.Fatal("sshsig layout")
		}
		var h []byte
		switch ha {
		case "sha512":
			s := sha512.Sum512(msg)
			h = s[:]
		case "sha256":
			s := sha256.Sum256(msg)
			h = s[:]
		default:
			t.Fatalf("hash %q", ha)
		}
		signed := append([]byte("SSHSIG"), PutStr(PutS(PutStr(PutStr(nil, ns), rsv), ha), h)...)
		ki, err := ParseKeyBlob(pk)
		if err != nil {
			t.Fatalf("%s: parse key: %v", name, err)
		}
		// the public key file must carry the same blob
		pubLine, _ := os.ReadFile(kf + ".pub")
		f := strings.Fields(string(pubLine))
		pb, _ := base64.StdEncoding.DecodeString(f[1])
		if !bytes.Equal(pb, pk) || f[0] != ki.Format {
			t.Fatalf("%s: blob/format mismatch", name)
		}
		format, err := Verify(ki.Pub, sig, signed)
		if err != nil {
			t.Fatalf("%s: verify OpenSSH signature (%s): %v", name, format, err)
		}
		if kt[0] == "rsa" && format != "rsa-sha2-512" {
			t.Fatalf("unexpected rsa format %s", format)
		}
		signed[len(signed)-1] ^= 1
		if _, err := Verify(ki.Pub, sig, signed); err == nil {
			t.Fatalf("%s: tampered data accepted", name)
		}
		// certificate blob: sign the key with itself as CA and parse the certified key
		if _, se, err := ext.Run(nil, nil, "ssh-keygen", "-q", "-s", kf, "-I", "id", "-n", "bob", kf+".pub"); err != nil {
			t.Fatalf("cert: %v %s", err, se)
		}
		cl, _ := os.ReadFile(kf + "-cert.pub")
		cf := strings.Fields(string(cl))
		cb, _ := base64.StdEncoding.DecodeString(cf[1])
		ci, err := ParseKeyBlob(cb)
		if err != nil || !ci.Cert || ci.Format != cf[0] || ci.Format != CertOf(ki.Format) {
			t.Fatalf("%s: cert parse: %+v %v", name, ci, err)
		}
		if !reflect.DeepEqual(ci.Pub, ki.Pub) {
			t.Fatalf("%s: certified key differs", name)
		}
	}
}

func sp(s string) *string { return &s }

// Table transcribed by hand from RFC 8308 §3.1, RFC 8332 §3.3 and the doc
// comments quoted in pick.go.
func TestChooseTable(t *testing.T) {
	rsaAll := []string{"rsa-sha2-256", "rsa-sha2-512", "ssh-rsa"}
	rc := func(a string) string { return a + certSuffix }
	for i, c := range []struct {
		m    SignerModel
		ext  *string
		want []string
		rule string
	}{
		// no extension: key format algorithm
		{SignerModel{"ssh-rsa", rsaAll, true}, nil, []string{"ssh-rsa"}, "fallback-keyformat"},
		{SignerModel{"ssh-ed25519", []string{"ssh-ed25519"}, true}, nil, []string{"ssh-ed25519"}, "fallback-keyformat"},
		{SignerModel{"ssh-rsa", []string{"rsa-sha2-512"}, true}, nil, nil, "unusable"},
		{SignerModel{rc("ssh-rsa"), rsaAll, true}, nil, []string{rc("ssh-rsa")}, "fallback-keyformat"},
		// extension present: signer order decides
		{SignerModel{"ssh-rsa", rsaAll, true}, sp("ssh-ed25519,rsa-sha2-512,rsa-sha2-256,ssh-rsa"), []string{"rsa-sha2-256"}, "overlap-ordered"},
		{SignerModel{"ssh-rsa", []string{"ssh-rsa", "rsa-sha2-512"}, true}, sp("rsa-sha2-512,ssh-rsa"), []string{"ssh-rsa"}, "overlap-ordered"},
		{SignerModel{"ssh-rsa", rsaAll, true}, sp("rsa-sha2-512"), []string{"rsa-sha2-512"}, "overlap-ordered"},
		{SignerModel{"ssh-rsa", rsaAll, true}, sp("ssh-rsa"), []string{"ssh-rsa"}, "overlap-ordered"},
		{SignerModel{"ssh-rsa", rsaAll, false}, sp("rsa-sha2-512,ssh-rsa"), []string{"rsa-sha2-512", "ssh-rsa"}, "overlap-any"},
		// empty / unrelated list: fallback
		{SignerModel{"ssh-rsa", rsaAll, true}, sp(""), []string{"ssh-rsa"}, "fallback-keyformat"},
		{SignerModel{"ssh-rsa", rsaAll, true}, sp("ssh-ed25519"), []string{"ssh-rsa"}, "fallback-keyformat"},
		{SignerModel{"ssh-rsa", []string{"rsa-sha2-256"}, true}, sp("rsa-sha2-512"), nil, "unusable"},
		{SignerModel{"ssh-rsa", []string{"ssh-rsa"}, true}, sp("rsa-sha2-256,rsa-sha2-512"), []string{"ssh-rsa"}, "fallback-keyformat"},
		// certificates: underlying names in the list count for the cert form
		{SignerModel{rc("ssh-rsa"), rsaAll, true}, sp("rsa-sha2-512"), []string{rc("rsa-sha2-512")}, "overlap-ordered"},
		{SignerModel{rc("ssh-rsa"), rsaAll, true}, sp(rc("rsa-sha2-512")), []string{rc("rsa-sha2-512")}, "overlap-ordered"},
		{SignerModel{"ssh-rsa", rsaAll, true}, sp(rc("rsa-sha2-512")), []string{"ssh-rsa"}, "fallback-keyformat"},
		{SignerModel{rc("ssh-ed25519"), []string{"ssh-ed25519"}, true}, sp("ssh-ed25519"), []string{rc("ssh-ed25519")}, "overlap-ordered"},
		{SignerModel{rc("ecdsa-sha2-nistp384"), []string{"ecdsa-sha2-nistp384"}, false}, sp("rsa-sha2-256"), []string{rc("ecdsa-sha2-nistp384")}, "fallback-keyformat"},
	} {
		got := Choose(c.m, c.ext)
		if got.Rule != c.rule || !reflect.DeepEqual(got.Allowed, c.want) {
			t.Errorf("row %d: got %+v want %v/%s", i, got, c.want, c.rule)
		}
	}
	m := SignerModel{rc("ssh-rsa"), rsaAll, true}
	if !RSACertCompat(m, rc("rsa-sha2-256")) || RSACertCompat(m, rc("ssh-rsa")) || RSACertCompat(m, "rsa-sha2-256") {
		t.Error("RSACertCompat")
	}
	if RSACertCompat(SignerModel{rc("ssh-rsa"), []string{"rsa-sha2-256"}, true}, rc("rsa-sha2-256")) {
		t.Error("RSACertCompat without ssh-rsa")
	}
	if KeyFormatOf(rc("rsa-sha2-512")) != rc("ssh-rsa") || KeyFormatOf("rsa-sha2-256") != "ssh-rsa" || KeyFormatOf("x") != "" {
		t.Error("KeyFormatOf")
	}
}

func TestParseServerRoundTrip(t *testing.T) {
	m, err := ParseServer(Failure([]string{"a", "b"}, true), "none")
	if err != nil || m.Kind != "failure" || !m.Partial || !reflect.DeepEqual(m.Methods, []string{"a", "b"}) {
		t.Fatalf("%+v %v", m, err)
	}
	m, err = ParseServer(unhex(t, "33 00000000 00"), "none")
	if err != nil || m.Methods != nil || m.Partial {
		t.Fatalf("%+v %v", m, err)
	}
	m, err = ParseServer(unhex(t, "3c 00000007 7373682d727361 00000001 4b"), "publickey")
	if err != nil || m.Kind != "pkok" || m.Algo != "ssh-rsa" || string(m.KeyBlob) != "K" {
		t.Fatalf("%+v %v", m, err)
	}
	m, _ = ParseServer(unhex(t, "3c 00000001 6e 00000000 00000000 00000000"), "keyboard-interactive")
	if m.Kind != "inforeq" {
		t.Fatalf("%+v", m)
	}
	m, err = ParseServer(unhex(t, "07 00000001 0000000f 7365727665722d7369672d616c6773 00000003 612c62"), "")
	if err != nil || m.Kind != "extinfo" || m.Exts[0] != [2]string{"server-sig-algs", "a,b"} {
		t.Fatalf("%+v %v", m, err)
	}
}

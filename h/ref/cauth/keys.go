package cauth

import (
	"crypto"
	"crypto/ecdsa"
	"crypto/ed25519"
	"crypto/elliptic"
	"crypto/rsa"
	"crypto/sha1"
	"crypto/sha256"
	"crypto/sha512"
	"errors"
	"fmt"
	"math/big"
	"strings"
)

const certSuffix = "-cert-v01@openssh.com"

// IsCertName reports whether a public key algorithm / key format name is an
// OpenSSH certificate name (PROTOCOL.certkeys).
func IsCertName(n string) bool { return strings.HasSuffix(n, certSuffix) }

// Underlying maps a certificate algorithm name to the signature algorithm it
// uses ("rsa-sha2-256-cert-v01@openssh.com" -> "rsa-sha2-256"); other names are
// returned unchanged.
func Underlying(n string) string { return strings.TrimSuffix(n, certSuffix) }

// CertOf maps a plain algorithm name to its certificate form.
func CertOf(n string) string { return Underlying(n) + certSuffix }

// KeyInfo is a decoded public key blob.
type KeyInfo struct {
	Format string           // first string of the blob (key format, e.g. "ssh-rsa" or a cert name)
	Pub    crypto.PublicKey // *rsa.PublicKey, *ecdsa.PublicKey or ed25519.PublicKey
	Cert   bool
}

func mpint(b []byte) (*big.Int, error) {
	if len(b) > 0 && b[0]&0x80 != 0 {
		return nil, errors.New("negative mpint")
	}
	return new(big.Int).SetBytes(b), nil
}

func curveByID(id string) elliptic.Curve {
	switch id {
	case "nistp256":
		return elliptic.P256()
	case "nistp384":
		return elliptic.P384()
	case "nistp521":
		return elliptic.P521()
	}
	return nil
}

// ParseKeyBlob decodes an RFC 4253 §6.6 / RFC 5656 §3.1 / RFC 8709 §4 public
// key blob, or an OpenSSH certificate blob (only as far as the certified key).
func ParseKeyBlob(blob []byte) (*KeyInfo, error) {
	r := &Rd{B: blob}
	k := &KeyInfo{Format: string(r.Str())}
	base := k.Format
	if IsCertName(base) {
		k.Cert = true
		base = Underlying(base)
		r.Str() // nonce
	}
	switch {
	case base == "ssh-rsa":
		eb, nb := r.Str(), r.Str()
		if r.Err != nil {
			return nil, r.Err
		}
		e, err := mpint(eb)
		if err != nil {
			return nil, err
		}
		n, err := mpint(nb)
		if err != nil {
			return nil, err
		}
		if !e.IsInt64() || e.Int64() < 3 || e.Int64() > 1<<31-1 {
			return nil, errors.New("rsa exponent out of range")
		}
		k.Pub = &rsa.PublicKey{N: n, E: int(e.Int64())}
	case strings.HasPrefix(base, "ecdsa-sha2-"):
		id := string(r.Str())
		q := r.Str()
		if r.Err != nil {
			return nil, r.Err
		}
		c := curveByID(id)
		if c == nil || "ecdsa-sha2-"+id != base {
			return nil, fmt.Errorf("curve %q does not match %q", id, base)
		}
		bl := (c.Params().BitSize + 7) / 8
		if len(q) != 1+2*bl || q[0] != 4 {
			return nil, errors.New("bad EC point encoding")
		}
		x := new(big.Int).SetBytes(q[1 : 1+bl])
		y := new(big.Int).SetBytes(q[1+bl:])
		k.Pub = &ecdsa.PublicKey{Curve: c, X: x, Y: y}
	case base == "ssh-ed25519":
		p := r.Str()
		if r.Err != nil {
			return nil, r.Err
		}
		if len(p) != ed25519.PublicKeySize {
			return nil, errors.New("bad ed25519 key length")
		}
		k.Pub = ed25519.PublicKey(append([]byte(nil), p...))
	default:
		return nil, fmt.Errorf("unknown key format %q", k.Format)
	}
	if !k.Cert && !r.Done() {
		return nil, errors.New("trailing bytes after key")
	}
	return k, nil
}

// Family lists the public key algorithm names usable with a key format
// (RFC 8332 §3: the "ssh-rsa" key format is used by "ssh-rsa", "rsa-sha2-256"
// and "rsa-sha2-512"; every other format names exactly one algorithm; the
// certificate formats mirror this).
func Family(keyFormat string) []string {
	switch keyFormat {
	case "ssh-rsa":
		return []string{"rsa-sha2-256", "rsa-sha2-512", "ssh-rsa"}
	case "ssh-rsa" + certSuffix:
		return []string{"rsa-sha2-256" + certSuffix, "rsa-sha2-512" + certSuffix, "ssh-rsa" + certSuffix}
	}
	return []string{keyFormat}
}

// KeyFormatOf is the key format an algorithm name signs with ("" if unknown).
func KeyFormatOf(algo string) string {
	cert := IsCertName(algo)
	u := Underlying(algo)
	var f string
	switch u {
	case "ssh-rsa", "rsa-sha2-256", "rsa-sha2-512":
		f = "ssh-rsa"
	case "ssh-ed25519", "ecdsa-sha2-nistp256", "ecdsa-sha2-nistp384", "ecdsa-sha2-nistp521":
		f = u
	default:
		return ""
	}
	if cert {
		return CertOf(f)
	}
	return f
}

// ParseSignature splits an SSH signature (string format, string blob).
func ParseSignature(sig []byte) (format string, blob []byte, err error) {
	r := &Rd{B: sig}
	format = string(r.Str())
	blob = r.Str()
	if r.Err != nil {
		return "", nil, r.Err
	}
	if !r.Done() {
		return "", nil, errors.New("trailing bytes after signature")
	}
	return format, blob, nil
}

// Verify checks an SSH signature over data with a standard-library public
// key. It returns the signature format name.
func Verify(pub crypto.PublicKey, sig, data []byte) (string, error) {
	format, blob, err := ParseSignature(sig)
	if err != nil {
		return "", err
	}
	switch k := pub.(type) {
	case *rsa.PublicKey:
		var h crypto.Hash
		var d []byte
		switch format {
		case "ssh-rsa":
			s := sha1.Sum(data)
			h, d = crypto.SHA1, s[:]
		case "rsa-sha2-256":
			s := sha256.Sum256(data)
			h, d = crypto.SHA256, s[:]
		case "rsa-sha2-512":
			s := sha512.Sum512(data)
			h, d = crypto.SHA512, s[:]
		default:
			return format, fmt.Errorf("signature format %q with an RSA key", format)
		}
		// RFC 8332 §3: the blob is the PKCS#1 v1.5 signature, as long as the
		// modulus (some implementations strip leading zeros: left-pad).
		n := (k.N.BitLen() + 7) / 8
		if len(blob) > n {
			return format, errors.New("rsa signature longer than modulus")
		}
		if len(blob) < n {
			blob = append(make([]byte, n-len(blob)), blob...)
		}
		return format, rsa.VerifyPKCS1v15(k, h, d, blob)
	case *ecdsa.PublicKey:
		var d []byte
		var want string
		switch k.Curve.Params().BitSize {
		case 256:
			s := sha256.Sum256(data)
			d, want = s[:], "ecdsa-sha2-nistp256"
		case 384:
			s := sha512.Sum384(data)
			d, want = s[:], "ecdsa-sha2-nistp384"
		case 521:
			s := sha512.Sum512(data)
			d, want = s[:], "ecdsa-sha2-nistp521"
		default:
			return format, errors.New("unsupported curve")
		}
		if format != want {
			return format, fmt.Errorf("signature format %q with a %s key", format, want)
		}
		r := &Rd{B: blob}
		rb, sb := r.Str(), r.Str()
		if r.Err != nil || !r.Done() {
			return format, errors.New("bad ecdsa signature blob")
		}
		ri, err := mpint(rb)
		if err != nil {
			return format, err
		}
		si, err := mpint(sb)
		if err != nil {
			return format, err
		}
		if !ecdsa.Verify(k, d, ri, si) {
			return format, errors.New("ecdsa verification failed")
		}
		return format, nil
	case ed25519.PublicKey:
		if format != "ssh-ed25519" {
			return format, fmt.Errorf("signature format %q with an ed25519 key", format)
		}
		if len(blob) != ed25519.SignatureSize || !ed25519.Verify(k, data, blob) {
			return format, errors.New("ed25519 verification failed")
		}
		return format, nil
	}
	return format, errors.New("unsupported public key type")
}

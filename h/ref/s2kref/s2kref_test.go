package s2kref

import (
	"bytes"
	"crypto/md5"
	"crypto/sha1"
	"crypto/sha256"
	"crypto/sha512"
	"encoding/hex"
	"testing"

	"verif/clib/gcrypts2k"
	"verif/ref/md4rmd"
)

func hf(id byte) HashFunc {
	switch id {
	case HashMD5:
		return func(m []byte) []byte { s := md5.Sum(m); return s[:] }
	case HashSHA1:
		return func(m []byte) []byte { s := sha1.Sum(m); return s[:] }
	case HashRIPEMD160:
		return md4rmd.RIPEMD160
	case HashSHA256:
		return func(m []byte) []byte { s := sha256.Sum256(m); return s[:] }
	case HashSHA384:
		return func(m []byte) []byte { s := sha512.Sum384(m); return s[:] }
	case HashSHA512:
		return func(m []byte) []byte { s := sha512.Sum512(m); return s[:] }
	case HashSHA224:
		return func(m []byte) []byte { s := sha256.Sum224(m); return s[:] }
	}
	return nil
}

func TestDecodeCount(t *testing.T) {
	// RFC 4880 §3.7.1.3 / GnuPG documentation: 1024 .. 65011712, default 65536 at 96
	for c, want := range map[byte]int{0: 1024, 1: 1088, 15: 1984, 16: 2048, 96: 65536, 255: 65011712, 0xf0: 33554432} {
		if g := DecodeCount(c); g != want {
			t.Errorf("count(%d)=%d want %d", c, g, want)
		}
	}
	prev := 0
	for c := 0; c < 256; c++ {
		if g := DecodeCount(byte(c)); g <= prev {
			t.Errorf("not strictly increasing at %d", c)
		} else {
			prev = g
		}
	}
}

// Vectors computed with python hashlib directly from the RFC text
// (salt 0102030405060708, passphrase "hello" unless noted).
func TestHashlibVectors(t *testing.T) {
	salt, _ := hex.DecodeString("0102030405060708")
	vec := []struct {
		hash   byte
		count  int
		klen   int
		pass   []byte
		expect string
	}{
		{HashSHA1, 1024, 20, []byte("hello"), "78ac53f14d5e1e72bf295afa33fd0ee737a89305"},
		{HashSHA1, 65536, 33, []byte("hello"), "6718096ff54fe07be0a809521dd71ab72d2b04a0a803589d6a9c7b2f11a6d0847d"},
		{HashMD5, 1088, 64, []byte("hello"), "1989e95b46b1ac45100026991d1189f0ccf3211565859077ef374327edf694468287f8aa252784a1a0d0b86cb30c1b493fadaf3164d2e27fc9d0ed5eaed5b30e"},
		{HashRIPEMD160, (16 + 5) << 8, 21, []byte("hello"), "ecef562886e0e06c54deb0067c15c31f1875004510"},
		{HashSHA512, 1024, 129, []byte("hello"), "812ee7f6751112839859c9bacb2713be10ed79a31b9f5fd6c5d0f58d77c68616e5d74161ff5df085ef8dca4c201c72cacee10fb8310709f312c2af60b5789fc10d751d716913444a6d0b23d8f658a0380989a72b133be70af97af00b13b4f304f064d8e903803c9e61f2f22826861505a4bfbba67951199daef64cb1f06824b7cd"},
		{HashSHA256, 1024, 32, bytes.Repeat([]byte("x"), 1100), "5700f356ee4b5ed8ee30f871f124824ce3c670ab149d5ddec1cbb1bfb34cdab9"},
	}
	for i, v := range vec {
		got := Iterated(hf(v.hash), salt, v.pass, v.count, v.klen)
		if hex.EncodeToString(got) != v.expect {
			t.Errorf("vector %d: got %x", i, got)
		}
	}
	// simple: sha1("hello"), and two MD5 contexts
	if g := Simple(hf(HashSHA1), []byte("hello"), 20); hex.EncodeToString(g) != "aaf4c61ddcc5e8a2dabede0f3b482cd9aea9434d" {
		t.Errorf("simple sha1: %x", g)
	}
	a := md5.Sum([]byte("abc"))
	b := md5.Sum([]byte("\x00abc"))
	c := md5.Sum([]byte("\x00\x00abc"))
	want := append(append(a[:], b[:]...), c[:]...)[:33]
	if g := Simple(hf(HashMD5), []byte("abc"), 33); !bytes.Equal(g, want) {
		t.Errorf("simple md5 3 contexts: %x", g)
	}
}

// libgcrypt (GnuPG's implementation) agrees with the ref on a grid.
func TestAgainstLibgcrypt(t *testing.T) {
	salt, _ := hex.DecodeString("a1b2c3d4e5f60718")
	n := 0
	for _, id := range []byte{1, 2, 3, 8, 9, 10, 11} {
		for _, kl := range []int{1, 16, 20, 21, 32, 33, 64, 65, 129} {
			for _, pl := range []int{1, 5, 56, 100, 1016, 1017, 1500} {
				pass := bytes.Repeat([]byte{byte(pl), 'p'}, pl)[:pl]
				for _, mode := range []int{0, 1, 3} {
					for _, c := range []byte{0, 1, 17, 96} {
						if mode != 3 && c != 0 {
							continue
						}
						spec := &Spec{Mode: mode, HashID: id, Salt: salt, CountC: c}
						want := spec.Derive(hf(id), pass, kl)
						got, err := gcrypts2k.Derive(mode, id, pass, salt, uint64(DecodeCount(c)), kl)
						if err != nil {
							t.Fatalf("gcrypt: %v", err)
						}
						n++
						if !bytes.Equal(got, want) {
							t.Errorf("mode %d hash %d kl %d pl %d c %d: gcrypt %x ref %x", mode, id, kl, pl, c, got, want)
						}
					}
				}
			}
		}
	}
	t.Logf("%d comparisons", n)
	// empty passphrase: report what libgcrypt does (not a failure)
	_, err := gcrypts2k.Derive(3, 2, nil, salt, 1024, 20)
	t.Logf("libgcrypt with empty passphrase: err=%v", err)
}

func TestParseSpec(t *testing.T) {
	s, err := ParseSpec([]byte{3, 8, 1, 2, 3, 4, 5, 6, 7, 8, 96, 99})
	if err != nil || s.Len != 11 || s.CountC != 96 || s.HashID != 8 || !bytes.Equal(s.Salt, []byte{1, 2, 3, 4, 5, 6, 7, 8}) {
		t.Errorf("%+v %v", s, err)
	}
	if _, err := ParseSpec([]byte{2, 8}); err == nil {
		t.Errorf("mode 2 accepted")
	}
	if _, err := ParseSpec([]byte{1, 8, 1, 2}); err == nil {
		t.Errorf("short accepted")
	}
}

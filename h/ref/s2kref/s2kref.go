// Package s2kref is an executable specification of the OpenPGP string-to-key
// specifiers of RFC 4880 §3.7.1 (simple, salted, iterated and salted),
// written from the RFC text. It is hash-agnostic (one-shot hash function over
// the complete message, built explicitly) and shares no code with
// golang.org/x/crypto/openpgp/s2k.
package s2kref

import (
	"errors"
	"fmt"
)

// HashFunc is a one-shot hash over the complete message.
type HashFunc func(msg []byte) []byte

// Modes (RFC 4880 §3.7.1).
const (
	ModeSimple   = 0
	ModeSalted   = 1
	ModeIterated = 3
)

// DecodeCount is the §3.7.1.3 formula:
//
//	#define EXPBIAS 6
//	count = ((Int32)16 + (c & 15)) << ((c >> 4) + EXPBIAS);
func DecodeCount(c byte) int {
	const expbias = 6
	mantissa := 16 + int(c%16)
	exponent := int(c/16) + expbias
	v := mantissa
	for i := 0; i < exponent; i++ {
		v *= 2
	}
	return v
}

// context computes hash context number ctx (0-based): "preloaded" with ctx
// octets of zeros, then fed data (§3.7.1.1: "If the hash size is less than
// the key size, multiple instances of the hash context are created ... these
// instances are preloaded with 0, 1, 2, ... octets of zeros").
func context(h HashFunc, ctx int, data []byte) []byte {
	if ctx == 0 {
		return h(data) // no preload: the message is the data itself
	}
	msg := make([]byte, ctx, ctx+len(data))
	msg = append(msg, data...)
	return h(msg)
}

// derive concatenates the context outputs, leftmost octets used as key.
func derive(h HashFunc, data []byte, keyLen int) []byte {
	var out []byte
	for ctx := 0; len(out) < keyLen; ctx++ {
		d := context(h, ctx, data)
		if len(d) == 0 {
			panic("s2kref: empty digest")
		}
		out = append(out, d...)
	}
	return out[:keyLen]
}

// Simple is §3.7.1.1: the passphrase is hashed directly.
func Simple(h HashFunc, pass []byte, keyLen int) []byte {
	return derive(h, pass, keyLen)
}

// Salted is §3.7.1.2: the salt (8 octets on the wire) followed by the passphrase.
func Salted(h HashFunc, salt, pass []byte, keyLen int) []byte {
	data := append(append([]byte{}, salt...), pass...)
	return derive(h, data, keyLen)
}

// IteratedData builds the octet string that §3.7.1.3 hashes in each context:
// salt‖passphrase repeated until exactly count octets have been produced
// ("the salt combined with the passphrase ... hashed repeatedly ... until the
// number of octets specified by the octet count has been hashed"); "the one
// exception is that if the octet count is less than the size of the salt
// plus passphrase, the full salt plus passphrase will be hashed even though
// that is greater than the octet count".
func IteratedData(salt, pass []byte, count int) []byte {
	unit := append(append([]byte{}, salt...), pass...)
	if count < len(unit) {
		return unit
	}
	data := make([]byte, 0, count)
	for len(data) < count {
		rem := count - len(data)
		if rem >= len(unit) {
			data = append(data, unit...)
		} else {
			data = append(data, unit[:rem]...)
		}
	}
	return data
}

// Iterated is §3.7.1.3 with the already decoded octet count.
func Iterated(h HashFunc, salt, pass []byte, count, keyLen int) []byte {
	return derive(h, IteratedData(salt, pass, count), keyLen)
}

// Spec is a parsed specifier.
type Spec struct {
	Mode   int
	HashID byte
	Salt   []byte // 8 octets for modes 1 and 3
	CountC byte   // coded count for mode 3
	Len    int    // octets consumed
}

// ParseSpec parses the wire form: type, hash algorithm id, [8 salt octets],
// [coded count].
func ParseSpec(b []byte) (*Spec, error) {
	if len(b) < 2 {
		return nil, errors.New("s2kref: short specifier")
	}
	s := &Spec{Mode: int(b[0]), HashID: b[1]}
	switch s.Mode {
	case ModeSimple:
		s.Len = 2
	case ModeSalted:
		if len(b) < 10 {
			return nil, errors.New("s2kref: short salted specifier")
		}
		s.Salt, s.Len = append([]byte{}, b[2:10]...), 10
	case ModeIterated:
		if len(b) < 11 {
			return nil, errors.New("s2kref: short iterated specifier")
		}
		s.Salt, s.CountC, s.Len = append([]byte{}, b[2:10]...), b[10], 11
	default:
		return nil, fmt.Errorf("s2kref: unknown S2K type %d", s.Mode)
	}
	return s, nil
}

// Derive runs the specifier with hash h (the caller maps HashID to h).
func (s *Spec) Derive(h HashFunc, pass []byte, keyLen int) []byte {
	switch s.Mode {
	case ModeSimple:
		return Simple(h, pass, keyLen)
	case ModeSalted:
		return Salted(h, s.Salt, pass, keyLen)
	case ModeIterated:
		return Iterated(h, s.Salt, pass, DecodeCount(s.CountC), keyLen)
	}
	panic("s2kref: bad mode")
}

// HashIDs of RFC 4880 §9.4 that the property names.
const (
	HashMD5       = 1
	HashSHA1      = 2
	HashRIPEMD160 = 3
	HashSHA256    = 8
	HashSHA384    = 9
	HashSHA512    = 10
	HashSHA224    = 11
)

// Package bcryptref is an executable specification of bcrypt (Provos &
// Mazières, "A Future-Adaptable Password Scheme", USENIX 1999) in the
// $2a$/$2b$ form used by OpenBSD: EksBlowfish over a Blowfish whose initial
// P-array and S-boxes are computed at start-up from the hexadecimal digits
// of π (math/big, Machin's formula). It imports nothing from
// golang.org/x/crypto.
package bcryptref

import (
	"errors"
	"fmt"
	"math/big"
	"sync"
)

// ---- π ----

// arctanInv returns atan(1/x)·2^prec as an integer (alternating series).
func arctanInv(x int64, prec uint) *big.Int {
	one := new(big.Int).Lsh(big.NewInt(1), prec)
	bx := big.NewInt(x)
	x2 := big.NewInt(x * x)
	term := new(big.Int).Div(one, bx)
	sum := new(big.Int).Set(term)
	for k := int64(1); term.Sign() != 0; k++ {
		term.Div(term, x2)
		t := new(big.Int).Div(term, big.NewInt(2*k+1))
		if k%2 == 1 {
			sum.Sub(sum, t)
		} else {
			sum.Add(sum, t)
		}
	}
	return sum
}

// piWords returns the first n 32-bit words of the fractional part of π.
func piWords(n int) []uint32 {
	bits := uint(32 * n)
	prec := bits + 128 // guard bits
	// π = 16·atan(1/5) − 4·atan(1/239)
	pi := new(big.Int).Mul(arctanInv(5, prec), big.NewInt(16))
	pi.Sub(pi, new(big.Int).Mul(arctanInv(239, prec), big.NewInt(4)))
	// drop the integer part 3 and the guard bits
	frac := new(big.Int).Sub(pi, new(big.Int).Lsh(big.NewInt(3), prec))
	frac.Rsh(frac, prec-bits)
	out := make([]uint32, n)
	mask := big.NewInt(0xffffffff)
	for i := n - 1; i >= 0; i-- {
		out[i] = uint32(new(big.Int).And(frac, mask).Uint64())
		frac.Rsh(frac, 32)
	}
	return out
}

// ---- Blowfish ----

// State is a Blowfish key-schedule state.
type State struct {
	P [18]uint32
	S [4][256]uint32
}

var (
	initOnce  sync.Once
	initState State
)

// InitState returns the initial Blowfish state: P then S1..S4 filled with the
// hexadecimal digits of π (Schneier, "Description of a New Variable-Length
// Key, 64-Bit Block Cipher (Blowfish)", 1993).
func InitState() State {
	initOnce.Do(func() {
		w := piWords(18 + 4*256)
		copy(initState.P[:], w[:18])
		for b := 0; b < 4; b++ {
			copy(initState.S[b][:], w[18+256*b:18+256*(b+1)])
		}
	})
	return initState
}

func (s *State) f(x uint32) uint32 {
	return ((s.S[0][x>>24] + s.S[1][x>>16&0xff]) ^ s.S[2][x>>8&0xff]) + s.S[3][x&0xff]
}

// Encrypt is the 16-round Blowfish block encryption of (l, r).
func (s *State) Encrypt(l, r uint32) (uint32, uint32) {
	for i := 0; i < 16; i++ {
		l ^= s.P[i]
		r ^= s.f(l)
		l, r = r, l
	}
	l, r = r, l // undo the last swap
	r ^= s.P[16]
	l ^= s.P[17]
	return l, r
}

// cyclicWord reads the next big-endian 32-bit word from data taken cyclically.
func cyclicWord(data []byte, pos *int) uint32 {
	var w uint32
	for k := 0; k < 4; k++ {
		w = w<<8 | uint32(data[*pos])
		*pos = (*pos + 1) % len(data)
	}
	return w
}

// ExpandKey is ExpandKey(state, salt, key) of the bcrypt paper (§3). A nil
// salt means the all-zero salt (the plain Blowfish key schedule).
func (s *State) ExpandKey(salt, key []byte) {
	kp := 0
	for i := range s.P {
		s.P[i] ^= cyclicWord(key, &kp)
	}
	sp := 0
	var l, r uint32
	next := func() (uint32, uint32) {
		if salt != nil {
			l ^= cyclicWord(salt, &sp)
			r ^= cyclicWord(salt, &sp)
		}
		l, r = s.Encrypt(l, r)
		return l, r
	}
	for i := 0; i < 18; i += 2 {
		s.P[i], s.P[i+1] = next()
	}
	for b := 0; b < 4; b++ {
		for i := 0; i < 256; i += 2 {
			s.S[b][i], s.S[b][i+1] = next()
		}
	}
}

// NewBlowfish is the standard Blowfish key schedule (for the test vectors).
func NewBlowfish(key []byte) *State {
	s := InitState()
	s.ExpandKey(nil, key)
	return &s
}

// EksBlowfishSetup is EksBlowfishSetup(cost, salt, key) of the paper.
func EksBlowfishSetup(cost uint, salt, key []byte) *State {
	s := InitState()
	s.ExpandKey(salt, key)
	for i := uint64(0); i < 1<<cost; i++ {
		s.ExpandKey(nil, key)
		s.ExpandKey(nil, salt)
	}
	return &s
}

// MaxKey is the number of key bytes Blowfish's key schedule consumes (18 words).
const MaxKey = 72

// EffectiveKey returns the 72 bytes the key schedule actually sees for a
// password under $2a$/$2b$ semantics: password‖NUL cut to at most 72 bytes,
// then read cyclically to fill 18 words.
func EffectiveKey(pw []byte) [MaxKey]byte {
	k := append(append([]byte(nil), pw...), 0)
	if len(k) > MaxKey {
		k = k[:MaxKey]
	}
	var out [MaxKey]byte
	for i := range out {
		out[i] = k[i%len(k)]
	}
	return out
}

// Raw computes the 24-byte bcrypt output (of which 23 bytes are encoded).
func Raw(pw []byte, cost uint, salt []byte) [24]byte {
	key := append(append([]byte(nil), pw...), 0)
	if len(key) > MaxKey {
		key = key[:MaxKey]
	}
	s := EksBlowfishSetup(cost, salt, key)
	magic := []byte("OrpheanBeholderScryDoubt")
	var out [24]byte
	for b := 0; b < 3; b++ {
		p := 0
		blk := magic[8*b : 8*b+8]
		l := cyclicWord(blk, &p)
		r := cyclicWord(blk, &p)
		for i := 0; i < 64; i++ {
			l, r = s.Encrypt(l, r)
		}
		out[8*b], out[8*b+1], out[8*b+2], out[8*b+3] = byte(l>>24), byte(l>>16), byte(l>>8), byte(l)
		out[8*b+4], out[8*b+5], out[8*b+6], out[8*b+7] = byte(r>>24), byte(r>>16), byte(r>>8), byte(r)
	}
	return out
}

// ---- bcrypt's base64 ----

// Alphabet is bcrypt's radix-64 alphabet.
const Alphabet = "./ABCDEFGHIJKLMNOPQRSTUVWXYZabcdefghijklmnopqrstuvwxyz0123456789"

// B64Encode encodes without padding (OpenBSD encode_base64).
func B64Encode(src []byte) string {
	var out []byte
	for i := 0; i < len(src); i += 3 {
		c1 := src[i]
		out = append(out, Alphabet[c1>>2])
		c1 = (c1 & 0x03) << 4
		if i+1 >= len(src) {
			out = append(out, Alphabet[c1])
			break
		}
		c2 := src[i+1]
		out = append(out, Alphabet[c1|c2>>4])
		c1 = (c2 & 0x0f) << 2
		if i+2 >= len(src) {
			out = append(out, Alphabet[c1])
			break
		}
		c3 := src[i+2]
		out = append(out, Alphabet[c1|c3>>6], Alphabet[c3&0x3f])
	}
	return string(out)
}

// B64Index returns the 6-bit value of c or -1.
func B64Index(c byte) int {
	for i := 0; i < 64; i++ {
		if Alphabet[i] == c {
			return i
		}
	}
	return -1
}

// B64Decode decodes n bytes from s (unused trailing bits are ignored).
func B64Decode(s string, n int) ([]byte, error) {
	var acc, nbits uint
	var out []byte
	for i := 0; i < len(s) && len(out) < n; i++ {
		v := B64Index(s[i])
		if v < 0 {
			return nil, fmt.Errorf("bcryptref: bad base64 character %q", s[i])
		}
		acc = acc<<6 | uint(v)
		nbits += 6
		if nbits >= 8 {
			nbits -= 8
			out = append(out, byte(acc>>nbits))
			acc &= 1<<nbits - 1
		}
	}
	if len(out) != n {
		return nil, errors.New("bcryptref: short base64 input")
	}
	return out, nil
}

// Hash returns "$" + version + "$" + cost + "$" + salt22 + hash31 where
// version is "2a", "2b" or "2y" (identical algorithms for passwords up to 72
// bytes) and salt is 16 raw bytes.
func Hash(pw []byte, version string, cost uint, salt []byte) string {
	if len(salt) != 16 {
		panic("bcryptref: salt must be 16 bytes")
	}
	raw := Raw(pw, cost, salt)
	return fmt.Sprintf("$%s$%02d$%s%s", version, cost, B64Encode(salt), B64Encode(raw[:23]))
}

// Parsed is a well-formed hash string taken apart.
type Parsed struct {
	Version string
	Cost    uint
	Salt    []byte // 16 raw bytes
	Salt22  string
	Hash31  string
}

// Parse takes apart a 60-character $2a$/$2b$/$2y$ hash (strict format).
func Parse(h string) (*Parsed, error) {
	if len(h) != 60 || h[0] != '$' || h[1] != '2' || h[3] != '$' || h[6] != '$' {
		return nil, errors.New("bcryptref: not a bcrypt hash")
	}
	if h[2] != 'a' && h[2] != 'b' && h[2] != 'y' {
		return nil, errors.New("bcryptref: unsupported version")
	}
	if h[4] < '0' || h[4] > '9' || h[5] < '0' || h[5] > '9' {
		return nil, errors.New("bcryptref: bad cost")
	}
	cost := uint(h[4]-'0')*10 + uint(h[5]-'0')
	if cost < 4 || cost > 31 {
		return nil, errors.New("bcryptref: cost out of range")
	}
	salt, err := B64Decode(h[7:29], 16)
	if err != nil {
		return nil, err
	}
	if _, err := B64Decode(h[29:], 23); err != nil {
		return nil, err
	}
	return &Parsed{Version: h[1:3], Cost: cost, Salt: salt, Salt22: h[7:29], Hash31: h[29:]}, nil
}

// Verify recomputes the hash of pw under h's version, cost and salt and
// compares the decoded 23 bytes.
func Verify(h string, pw []byte) (bool, error) {
	p, err := Parse(h)
	if err != nil {
		return false, err
	}
	raw := Raw(pw, p.Cost, p.Salt)
	want, _ := B64Decode(p.Hash31, 23)
	for i := range want {
		if want[i] != raw[i] {
			return false, nil
		}
	}
	return true, nil
}

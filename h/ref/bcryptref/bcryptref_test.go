package bcryptref

import (
	"bytes"
	"encoding/hex"
	"testing"
)

func TestPi(t *testing.T) {
	s := InitState()
	// first and last words of the published Blowfish tables
	if s.P[0] != 0x243f6a88 || s.P[1] != 0x85a308d3 || s.P[17] != 0x8979fb1b {
		t.Fatalf("P: %08x %08x %08x", s.P[0], s.P[1], s.P[17])
	}
	if s.S[0][0] != 0xd1310ba6 || s.S[0][255] != 0x6e85076a || s.S[1][0] != 0x4b7a70e9 || s.S[3][255] != 0x3ac372e6 {
		t.Fatalf("S: %08x %08x %08x %08x", s.S[0][0], s.S[0][255], s.S[1][0], s.S[3][255])
	}
}

// Eric Young's Blowfish ECB vectors (as published with Schneier's reference).
func TestBlowfishECB(t *testing.T) {
	for _, v := range [][3]string{
		{"0000000000000000", "0000000000000000", "4ef997456198dd78"},
		{"ffffffffffffffff", "ffffffffffffffff", "51866fd5b85ecb8a"},
		{"3000000000000000", "1000000000000001", "7d856f9a613063f2"},
		{"1111111111111111", "1111111111111111", "2466dd878b963c9d"},
		{"0123456789abcdef", "1111111111111111", "61f9c3802281b096"},
		{"fedcba9876543210", "0123456789abcdef", "0aceab0fc6a0a28d"},
		{"7ca110454a1a6e57", "01a1d6d039776742", "59c68245eb05282b"},
	} {
		k, _ := hex.DecodeString(v[0])
		p, _ := hex.DecodeString(v[1])
		c, _ := hex.DecodeString(v[2])
		s := NewBlowfish(k)
		l := uint32(p[0])<<24 | uint32(p[1])<<16 | uint32(p[2])<<8 | uint32(p[3])
		r := uint32(p[4])<<24 | uint32(p[5])<<16 | uint32(p[6])<<8 | uint32(p[7])
		l, r = s.Encrypt(l, r)
		got := []byte{byte(l >> 24), byte(l >> 16), byte(l >> 8), byte(l), byte(r >> 24), byte(r >> 16), byte(r >> 8), byte(r)}
		if !bytes.Equal(got, c) {
			t.Errorf("key %s: got %x want %s", v[0], got, v[2])
		}
	}
}

// Openwall crypt_blowfish / OpenBSD regression vectors.
var vectors = []struct{ hash, pw string }{
	{"$2a$05$CCCCCCCCCCCCCCCCCCCCC.E5YPO9kmyuRGyh0XouQYb4YMJKvyOeW", "U*U"},
	{"$2a$05$CCCCCCCCCCCCCCCCCCCCC.VGOzA784oUp/Z0DY336zx7pLYAy0lwK", "U*U*"},
	{"$2a$05$XXXXXXXXXXXXXXXXXXXXXOAcXxm9kjPGEMsLznoKqmqw7tc8WCx4a", "U*U*U"},
	{"$2a$05$CCCCCCCCCCCCCCCCCCCCC.7uG0VCzI2bS7j6ymqJi9CdcdxiRTWNy", ""},
	{"$2a$05$abcdefghijklmnopqrstuu5s2v8.iXieOjg/.AySBTTZIIVFJeBui", "0123456789abcdefghijklmnopqrstuvwxyzABCDEFGHIJKLMNOPQRSTUVWXYZ0123456789chars after 72 are ignored"},
	{"$2b$05$/OK.fbVrR/bpIqNJ5ianF.CE5elHaaO4EbggVDjb8P19RukzXSM3e", "\xff\xff\xa3"},
	{"$2y$05$/OK.fbVrR/bpIqNJ5ianF.CE5elHaaO4EbggVDjb8P19RukzXSM3e", "\xff\xff\xa3"},
	// ("$2a$05$/OK.fbVrR/bpIqNJ5ianF.nqd1wy..." for "\xff\xff\xa3" is crypt_blowfish's $2a$
	// collision countermeasure, not the OpenBSD algorithm: deliberately not reproduced.)
	{"$2a$06$DCq7YPn5Rq63x1Lad4cll.TV4S6ytwfsfvkgY8jIucDrjc8deX1s.", ""},
	{"$2a$08$HqWuK6/Ng6sg9gQzbLrgb.Tl.ZHfXLhvt/SgVyWhQqgqcZ7ZuUtye", ""},
	{"$2a$06$m0CrhHm10qJ3lXRY.5zDGO3rS2KdeeWLuGmsfGlMfOxih58VYVfxe", "a"},
	{"$2a$06$If6bvum7DFjUnE9p2uDeDu0YHzrHM6tf.iqN8.yx.jNN1ILEf7h0i", "abc"},
}

func TestVectors(t *testing.T) {
	for _, v := range vectors {
		p, err := Parse(v.hash)
		if err != nil {
			t.Fatal(err)
		}
		if got := Hash([]byte(v.pw), p.Version, p.Cost, p.Salt); got != v.hash {
			t.Errorf("Hash(%q) = %s want %s", v.pw, got, v.hash)
		}
		ok, err := Verify(v.hash, []byte(v.pw))
		if !ok || err != nil {
			t.Errorf("Verify(%s) = %v %v", v.hash, ok, err)
		}
		if ok, _ := Verify(v.hash, []byte(v.pw+"x")); ok && len(v.pw) < 72 {
			t.Errorf("Verify accepts a wrong password for %s", v.hash)
		}
	}
}

func TestBase64(t *testing.T) {
	for n := 0; n <= 24; n++ {
		b := make([]byte, n)
		for i := range b {
			b[i] = byte(37*i + 11*n + 200)
		}
		e := B64Encode(b)
		if want := (n*8 + 5) / 6; len(e) != want {
			t.Fatalf("n=%d len %d want %d", n, len(e), want)
		}
		d, err := B64Decode(e, n)
		if err != nil || !bytes.Equal(d, b) {
			t.Fatalf("n=%d roundtrip %x %v", n, d, err)
		}
	}
	if B64Encode([]byte{0x10, 0x41, 0x04}) != "CCCC" {
		t.Fatal("alphabet")
	}
}

func TestEffectiveKey(t *testing.T) {
	a := EffectiveKey([]byte("ab"))
	b := EffectiveKey([]byte("ab\x00ab"))
	if a != b {
		t.Fatal("cyclic equivalence")
	}
	p71 := bytes.Repeat([]byte{'x'}, 71)
	if EffectiveKey(p71) != EffectiveKey(append(append([]byte(nil), p71...), 0)) {
		t.Fatal("71 vs 71+NUL")
	}
	p72 := bytes.Repeat([]byte{'x'}, 72)
	if EffectiveKey(p72) != EffectiveKey(append(append([]byte(nil), p72...), 'y')) {
		t.Fatal("72 vs 73")
	}
	if EffectiveKey(p71) == EffectiveKey(p72) {
		t.Fatal("71 vs 72")
	}
}

// Package sshwirecodec is an executable specification of the RFC 4251 §5 data
// type representations (byte, boolean, uint32, uint64, string, mpint,
// name-list) plus the two conventions documented on ssh.Marshal/ssh.Unmarshal
// (`sshtype:"a|b"` on the first field: message number prefix; `ssh:"rest"` on
// the last []byte field: remainder of the packet, no length prefix).
//
// It is written from the RFC text, shares no code with golang.org/x/crypto,
// and favours obvious arithmetic over speed. A struct is described by a Desc
// (obtained from a Go struct type by Describe, i.e. by reflection over the
// field list and tags only) and a message value is a []any with one element
// per field.
package sshwirecodec

import (
	"fmt"
	"math/big"
	"reflect"
	"strings"
)

// Kind is an RFC 4251 representation.
type Kind uint8

const (
	Byte     Kind = iota + 1 // byte                      Go: uint8
	Bool                     // boolean                   Go: bool
	Uint32                   // uint32                    Go: uint32 (also named types)
	Uint64                   // uint64                    Go: uint64
	String                   // string                    Go: string
	Bytes                    // string (binary)           Go: []byte
	Mpint                    // mpint                     Go: *big.Int
	NameList                 // name-list                 Go: []string
	Fixed                    // byte[n]                   Go: [n]byte (value carried as []byte)
	Rest                     // remainder of the packet   Go: []byte `ssh:"rest"`
)

func (k Kind) String() string {
	switch k {
	case Byte:
		return "byte"
	case Bool:
		return "bool"
	case Uint32:
		return "uint32"
	case Uint64:
		return "uint64"
	case String:
		return "string"
	case Bytes:
		return "bytes"
	case Mpint:
		return "mpint"
	case NameList:
		return "namelist"
	case Fixed:
		return "fixed"
	case Rest:
		return "rest"
	}
	return "?"
}

// Field describes one struct field.
type Field struct {
	Name string
	Kind Kind
	N    int // Fixed: array length
}

// Desc describes a message struct.
type Desc struct {
	Name   string
	Types  []byte // allowed message numbers (first one is written); empty: no prefix byte
	Fields []Field
}

var bigIntPtr = reflect.TypeOf((*big.Int)(nil))

// Describe derives the description of a struct type from its field list.
func Describe(t reflect.Type) (Desc, error) {
	for t.Kind() == reflect.Pointer {
		t = t.Elem()
	}
	if t.Kind() != reflect.Struct {
		return Desc{}, fmt.Errorf("sshwirecodec: %v is not a struct", t)
	}
	d := Desc{Name: t.Name()}
	for i := 0; i < t.NumField(); i++ {
		sf := t.Field(i)
		if i == 0 {
			if tag := sf.Tag.Get("sshtype"); tag != "" {
				for _, p := range strings.Split(tag, "|") {
					n := 0
					if p == "" {
						return Desc{}, fmt.Errorf("sshwirecodec: empty sshtype alternative in %q", tag)
					}
					for _, c := range p {
						if c < '0' || c > '9' {
							return Desc{}, fmt.Errorf("sshwirecodec: bad sshtype %q", tag)
						}
						n = n*10 + int(c-'0')
						if n > 255 {
							return Desc{}, fmt.Errorf("sshwirecodec: sshtype out of range %q", tag)
						}
					}
					if n == 0 {
						return Desc{}, fmt.Errorf("sshwirecodec: sshtype 0 in %q", tag)
					}
					d.Types = append(d.Types, byte(n))
				}
			}
		}
		f := Field{Name: sf.Name}
		ft := sf.Type
		switch ft.Kind() {
		case reflect.Uint8:
			f.Kind = Byte
		case reflect.Bool:
			f.Kind = Bool
		case reflect.Uint32:
			f.Kind = Uint32
		case reflect.Uint64:
			f.Kind = Uint64
		case reflect.String:
			f.Kind = String
		case reflect.Array:
			if ft.Elem().Kind() != reflect.Uint8 {
				return Desc{}, fmt.Errorf("sshwirecodec: unsupported array field %s", sf.Name)
			}
			f.Kind, f.N = Fixed, ft.Len()
		case reflect.Slice:
			switch ft.Elem().Kind() {
			case reflect.Uint8:
				f.Kind = Bytes
				if sf.Tag.Get("ssh") == "rest" {
					f.Kind = Rest
					if i != t.NumField()-1 {
						return Desc{}, fmt.Errorf("sshwirecodec: rest field %s is not last", sf.Name)
					}
				}
			case reflect.String:
				f.Kind = NameList
			default:
				return Desc{}, fmt.Errorf("sshwirecodec: unsupported slice field %s", sf.Name)
			}
		case reflect.Pointer:
			if ft != bigIntPtr {
				return Desc{}, fmt.Errorf("sshwirecodec: unsupported pointer field %s", sf.Name)
			}
			f.Kind = Mpint
		default:
			return Desc{}, fmt.Errorf("sshwirecodec: unsupported field %s (%v)", sf.Name, ft)
		}
		d.Fields = append(d.Fields, f)
	}
	return d, nil
}

// Values extracts the field values of a struct (or pointer to struct) that
// matches d. Slices are copied.
func Values(d Desc, s any) []any {
	v := reflect.ValueOf(s)
	for v.Kind() == reflect.Pointer {
		v = v.Elem()
	}
	out := make([]any, len(d.Fields))
	for i, f := range d.Fields {
		fv := v.Field(i)
		switch f.Kind {
		case Byte:
			out[i] = uint8(fv.Uint())
		case Bool:
			out[i] = fv.Bool()
		case Uint32:
			out[i] = uint32(fv.Uint())
		case Uint64:
			out[i] = fv.Uint()
		case String:
			out[i] = fv.String()
		case Bytes, Rest:
			out[i] = append([]byte(nil), fv.Bytes()...)
		case Fixed:
			b := make([]byte, f.N)
			for j := 0; j < f.N; j++ {
				b[j] = byte(fv.Index(j).Uint())
			}
			out[i] = b
		case NameList:
			l := make([]string, fv.Len())
			for j := range l {
				l[j] = fv.Index(j).String()
			}
			out[i] = l
		case Mpint:
			if fv.IsNil() {
				out[i] = (*big.Int)(nil)
			} else {
				out[i] = new(big.Int).Set(fv.Interface().(*big.Int))
			}
		}
	}
	return out
}

// Fill stores vals into the struct pointed to by p (inverse of Values).
func Fill(d Desc, p any, vals []any) {
	v := reflect.ValueOf(p).Elem()
	for i, f := range d.Fields {
		fv := v.Field(i)
		switch f.Kind {
		case Byte:
			fv.SetUint(uint64(vals[i].(uint8)))
		case Bool:
			fv.SetBool(vals[i].(bool))
		case Uint32:
			fv.SetUint(uint64(vals[i].(uint32)))
		case Uint64:
			fv.SetUint(vals[i].(uint64))
		case String:
			fv.SetString(vals[i].(string))
		case Bytes, Rest:
			b := vals[i].([]byte)
			if b == nil {
				fv.Set(reflect.Zero(fv.Type()))
			} else {
				fv.SetBytes(append([]byte{}, b...))
			}
		case Fixed:
			b := vals[i].([]byte)
			for j := 0; j < f.N; j++ {
				fv.Index(j).SetUint(uint64(b[j]))
			}
		case NameList:
			l := vals[i].([]string)
			if l == nil {
				fv.Set(reflect.Zero(fv.Type()))
			} else {
				fv.Set(reflect.ValueOf(append([]string{}, l...)))
			}
		case Mpint:
			fv.Set(reflect.ValueOf(new(big.Int).Set(vals[i].(*big.Int))))
		}
	}
}

// EqualField compares two field values; nil and empty slices are the same
// value on the wire and are treated as equal.
func EqualField(f Field, a, b any) bool {
	switch f.Kind {
	case Byte:
		return a.(uint8) == b.(uint8)
	case Bool:
		return a.(bool) == b.(bool)
	case Uint32:
		return a.(uint32) == b.(uint32)
	case Uint64:
		return a.(uint64) == b.(uint64)
	case String:
		return a.(string) == b.(string)
	case Bytes, Rest, Fixed:
		x, y := a.([]byte), b.([]byte)
		if len(x) != len(y) {
			return false
		}
		for i := range x {
			if x[i] != y[i] {
				return false
			}
		}
		return true
	case NameList:
		x, y := a.([]string), b.([]string)
		if len(x) != len(y) {
			return false
		}
		for i := range x {
			if x[i] != y[i] {
				return false
			}
		}
		return true
	case Mpint:
		x, y := a.(*big.Int), b.(*big.Int)
		if x == nil || y == nil {
			return x == y
		}
		return x.Cmp(y) == 0
	}
	return false
}

// FirstDiff returns the index of the first differing field or -1.
func FirstDiff(d Desc, a, b []any) int {
	for i, f := range d.Fields {
		if !EqualField(f, a[i], b[i]) {
			return i
		}
	}
	return -1
}

// ---------------------------------------------------------------- encoding

func u32(n uint32) []byte { return []byte{byte(n >> 24), byte(n >> 16), byte(n >> 8), byte(n)} }

func lenPrefixed(b []byte) []byte {
	out := u32(uint32(len(b)))
	return append(out, b...)
}

// MpintBody returns the RFC 4251 mpint body: two's complement, big endian,
// shortest possible length; zero is the empty string.
//
// Method: find the smallest byte count k such that -2^(8k-1) <= n < 2^(8k-1)
// (k = 0 only for n = 0), then write (n mod 2^(8k)) as exactly k bytes.
func MpintBody(n *big.Int) []byte {
	if n.Sign() == 0 {
		return []byte{}
	}
	k := 1
	for {
		half := new(big.Int).Lsh(big.NewInt(1), uint(8*k-1)) // 2^(8k-1)
		lo := new(big.Int).Neg(half)
		if n.Cmp(lo) >= 0 && n.Cmp(half) < 0 {
			break
		}
		k++
	}
	mod := new(big.Int).Lsh(big.NewInt(1), uint(8*k))
	r := new(big.Int).Mod(n, mod) // Euclidean modulus: 0 <= r < 2^(8k)
	return r.FillBytes(make([]byte, k))
}

// MpintValue interprets any two's complement body (also a non-minimal one).
func MpintValue(body []byte) *big.Int {
	v := new(big.Int)
	for _, c := range body {
		v.Lsh(v, 8)
		v.Add(v, big.NewInt(int64(c)))
	}
	if len(body) > 0 && body[0] >= 0x80 {
		v.Sub(v, new(big.Int).Lsh(big.NewInt(1), uint(8*len(body))))
	}
	return v
}

// MpintMinimal reports whether body carries no unnecessary leading 0x00/0xff
// byte (RFC 4251: "Unnecessary leading bytes with the value 0 or 255 MUST NOT
// be included").
func MpintMinimal(body []byte) bool {
	if len(body) == 0 {
		return true
	}
	if body[0] == 0x00 {
		return len(body) >= 2 && body[1] >= 0x80
	}
	if body[0] == 0xff {
		return len(body) == 1 || body[1] < 0x80
	}
	return true
}

// EncodeField is the wire form of one field.
func EncodeField(f Field, v any) []byte {
	switch f.Kind {
	case Byte:
		return []byte{v.(uint8)}
	case Bool:
		if v.(bool) {
			return []byte{1}
		}
		return []byte{0}
	case Uint32:
		return u32(v.(uint32))
	case Uint64:
		n := v.(uint64)
		return append(u32(uint32(n>>32)), u32(uint32(n))...)
	case String:
		return lenPrefixed([]byte(v.(string)))
	case Bytes:
		return lenPrefixed(v.([]byte))
	case Mpint:
		return lenPrefixed(MpintBody(v.(*big.Int)))
	case NameList:
		return lenPrefixed([]byte(strings.Join(v.([]string), ",")))
	case Fixed:
		return append([]byte{}, v.([]byte)...)
	case Rest:
		return append([]byte{}, v.([]byte)...)
	}
	panic("sshwirecodec: bad kind")
}

// Encode is the wire form of a message.
func Encode(d Desc, vals []any) []byte {
	var out []byte
	if len(d.Types) > 0 {
		out = append(out, d.Types[0])
	}
	for i, f := range d.Fields {
		out = append(out, EncodeField(f, vals[i])...)
	}
	return out
}

// Spans returns, for every field, the [start,end) byte range it occupies in
// Encode(d, vals).
func Spans(d Desc, vals []any) [][2]int {
	off := 0
	if len(d.Types) > 0 {
		off = 1
	}
	sp := make([][2]int, len(d.Fields))
	for i, f := range d.Fields {
		n := len(EncodeField(f, vals[i]))
		sp[i] = [2]int{off, off + n}
		off += n
	}
	return sp
}

// ---------------------------------------------------------------- decoding

// Error is a decoding failure with a low-cardinality class.
type Error struct {
	Class string // "empty", "wrong-type", "short:<kind>", "trailing"
	Field int    // -1 when not field specific
}

func (e *Error) Error() string { return fmt.Sprintf("sshwirecodec: %s (field %d)", e.Class, e.Field) }

// Info qualifies a successful decoding.
type Info struct {
	// NonCanonical: the input is not what Encode produces for the decoded
	// value (boolean other than 0/1, mpint with unnecessary leading bytes).
	NonCanonical bool
	Why          string
}

func takeString(data []byte) (body, rest []byte, ok bool) {
	if len(data) < 4 {
		return nil, nil, false
	}
	n := uint64(data[0])<<24 | uint64(data[1])<<16 | uint64(data[2])<<8 | uint64(data[3])
	if uint64(len(data)-4) < n {
		return nil, nil, false
	}
	return data[4 : 4+n], data[4+n:], true
}

// Decode parses data as message d: every field in order, nothing left over
// (unless the last field is Rest), message number (if any) one of d.Types.
func Decode(d Desc, data []byte) ([]any, Info, *Error) {
	var info Info
	if len(d.Types) > 0 {
		if len(data) == 0 {
			return nil, info, &Error{"empty", -1}
		}
		ok := false
		for _, t := range d.Types {
			if data[0] == t {
				ok = true
			}
		}
		if !ok {
			return nil, info, &Error{"wrong-type", -1}
		}
		data = data[1:]
	}
	vals := make([]any, len(d.Fields))
	for i, f := range d.Fields {
		short := &Error{"short:" + f.Kind.String(), i}
		switch f.Kind {
		case Byte:
			if len(data) < 1 {
				return nil, info, short
			}
			vals[i] = data[0]
			data = data[1:]
		case Bool:
			if len(data) < 1 {
				return nil, info, short
			}
			vals[i] = data[0] != 0 // "All non-zero values MUST be interpreted as TRUE"
			if data[0] > 1 {
				info.NonCanonical, info.Why = true, "bool>1"
			}
			data = data[1:]
		case Uint32:
			if len(data) < 4 {
				return nil, info, short
			}
			vals[i] = uint32(data[0])<<24 | uint32(data[1])<<16 | uint32(data[2])<<8 | uint32(data[3])
			data = data[4:]
		case Uint64:
			if len(data) < 8 {
				return nil, info, short
			}
			var n uint64
			for _, c := range data[:8] {
				n = n<<8 | uint64(c)
			}
			vals[i] = n
			data = data[8:]
		case Fixed:
			if len(data) < f.N {
				return nil, info, short
			}
			vals[i] = append([]byte{}, data[:f.N]...)
			data = data[f.N:]
		case String, Bytes, Mpint, NameList:
			body, rest, ok := takeString(data)
			if !ok {
				return nil, info, short
			}
			data = rest
			switch f.Kind {
			case String:
				vals[i] = string(body)
			case Bytes:
				vals[i] = append([]byte{}, body...)
			case Mpint:
				vals[i] = MpintValue(body)
				if !MpintMinimal(body) {
					info.NonCanonical, info.Why = true, "mpint-nonminimal"
				}
			case NameList:
				if len(body) == 0 {
					vals[i] = []string{}
				} else {
					vals[i] = strings.Split(string(body), ",")
				}
			}
		case Rest:
			vals[i] = append([]byte{}, data...)
			data = nil
		}
	}
	if len(data) != 0 {
		return nil, info, &Error{"trailing", -1}
	}
	return vals, info, nil
}

package sshwirecodec

import (
	"bytes"
	"encoding/hex"
	"math/big"
	"reflect"
	"strings"
	"testing"
)

func unhex(s string) []byte {
	b, err := hex.DecodeString(strings.ReplaceAll(s, " ", ""))
	if err != nil {
		panic(err)
	}
	return b
}

func bigHex(s string) *big.Int {
	neg := strings.HasPrefix(s, "-")
	s = strings.TrimPrefix(s, "-")
	n, ok := new(big.Int).SetString(s, 16)
	if !ok {
		panic(s)
	}
	if neg {
		n.Neg(n)
	}
	return n
}

// RFC 4251 §5 examples.
func TestRFC4251Vectors(t *testing.T) {
	mp := []struct{ v, enc string }{
		{"0", "00 00 00 00"},
		{"9a378f9b2e332a7", "00 00 00 08 09 a3 78 f9 b2 e3 32 a7"},
		{"80", "00 00 00 02 00 80"},
		{"-1234", "00 00 00 02 ed cc"},
		{"-deadbeef", "00 00 00 05 ff 21 52 41 11"},
	}
	for _, c := range mp {
		got := EncodeField(Field{Kind: Mpint}, bigHex(c.v))
		if !bytes.Equal(got, unhex(c.enc)) {
			t.Errorf("mpint %s: got %x want %s", c.v, got, c.enc)
		}
		if v := MpintValue(unhex(c.enc)[4:]); v.Cmp(bigHex(c.v)) != 0 {
			t.Errorf("mpint decode %s: got %x", c.enc, v)
		}
		if !MpintMinimal(unhex(c.enc)[4:]) {
			t.Errorf("mpint %s reported non-minimal", c.enc)
		}
	}
	nl := []struct {
		v   []string
		enc string
	}{
		{[]string{}, "00 00 00 00"},
		{[]string{"zlib"}, "00 00 00 04 7a 6c 69 62"},
		{[]string{"zlib", "none"}, "00 00 00 09 7a 6c 69 62 2c 6e 6f 6e 65"},
	}
	for _, c := range nl {
		got := EncodeField(Field{Kind: NameList}, c.v)
		if !bytes.Equal(got, unhex(c.enc)) {
			t.Errorf("name-list %v: got %x want %s", c.v, got, c.enc)
		}
	}
	if got := EncodeField(Field{Kind: String}, "testing"); !bytes.Equal(got, unhex("00 00 00 07 74 65 73 74 69 6e 67")) {
		t.Errorf("string: %x", got)
	}
	if got := EncodeField(Field{Kind: Uint32}, uint32(699921578)); !bytes.Equal(got, unhex("29 b7 f4 aa")) {
		t.Errorf("uint32: %x", got)
	}
	if got := EncodeField(Field{Kind: Uint64}, uint64(0x0102030405060708)); !bytes.Equal(got, unhex("01 02 03 04 05 06 07 08")) {
		t.Errorf("uint64: %x", got)
	}
}

// Boundary table written out by hand (two's complement at byte boundaries).
func TestMpintBoundaries(t *testing.T) {
	cases := []struct {
		v    int64
		body string
	}{
		{0, ""}, {1, "01"}, {-1, "ff"}, {127, "7f"}, {-127, "81"}, {128, "0080"}, {-128, "80"},
		{129, "0081"}, {-129, "ff7f"}, {255, "00ff"}, {-255, "ff01"}, {256, "0100"}, {-256, "ff00"},
		{257, "0101"}, {-257, "feff"}, {32767, "7fff"}, {-32767, "8001"}, {32768, "008000"}, {-32768, "8000"},
		{-32769, "ff7fff"}, {65535, "00ffff"}, {-65535, "ff0001"}, {65536, "010000"}, {-65536, "ff0000"},
	}
	for _, c := range cases {
		got := MpintBody(big.NewInt(c.v))
		if hex.EncodeToString(got) != c.body {
			t.Errorf("MpintBody(%d) = %x want %s", c.v, got, c.body)
		}
		if v := MpintValue(unhex(c.body)); v.Cmp(big.NewInt(c.v)) != 0 {
			t.Errorf("MpintValue(%s) = %v want %d", c.body, v, c.v)
		}
	}
	// self-consistency over ±2^k, ±(2^k±1): decode(encode(n)) = n, minimal,
	// and no shorter two's complement string has the same value.
	for k := 0; k <= 1100; k++ {
		p := new(big.Int).Lsh(big.NewInt(1), uint(k))
		for _, d := range []int64{-1, 0, 1} {
			for _, sgn := range []int{1, -1} {
				n := new(big.Int).Add(p, big.NewInt(d))
				if sgn < 0 {
					n.Neg(n)
				}
				b := MpintBody(n)
				if MpintValue(b).Cmp(n) != 0 || !MpintMinimal(b) {
					t.Fatalf("k=%d d=%d sgn=%d: body %x", k, d, sgn, b)
				}
				if len(b) > 0 && MpintValue(b[1:]).Cmp(n) == 0 {
					t.Fatalf("k=%d: shorter body has same value", k)
				}
			}
		}
	}
	for _, s := range []string{"00", "0001", "007f", "ffff", "ff80", "000080"} {
		if MpintMinimal(unhex(s)) {
			t.Errorf("%s reported minimal", s)
		}
	}
}

type tmsg struct {
	A uint32 `sshtype:"60|61"`
	B string
	C []string
	D *big.Int
	E bool
	F [3]byte
	G uint8
	H uint64
	I []byte
	R []byte `ssh:"rest"`
}

func TestDescribeEncodeDecode(t *testing.T) {
	d, err := Describe(reflect.TypeOf(tmsg{}))
	if err != nil {
		t.Fatal(err)
	}
	if !bytes.Equal(d.Types, []byte{60, 61}) || len(d.Fields) != 10 || d.Fields[9].Kind != Rest || d.Fields[5].N != 3 {
		t.Fatalf("desc %+v", d)
	}
	m := tmsg{A: 7, B: "x,y", C: []string{"a", "", "b"}, D: big.NewInt(-129), E: true, F: [3]byte{1, 2, 3}, G: 9, H: 1 << 40, I: []byte{5}, R: []byte{0xaa, 0xbb}}
	vals := Values(d, &m)
	enc := Encode(d, vals)
	want := unhex("3c 00000007 00000003 782c79 00000004 612c2c62 00000002 ff7f 01 010203 09 0000010000000000 00000001 05 aabb")
	if !bytes.Equal(enc, want) {
		t.Fatalf("enc %x\nwant %x", enc, want)
	}
	got, info, derr := Decode(d, enc)
	if derr != nil || info.NonCanonical || FirstDiff(d, got, vals) != -1 {
		t.Fatalf("decode: %v %+v diff=%d", derr, info, FirstDiff(d, got, vals))
	}
	var m2 tmsg
	Fill(d, &m2, got)
	if !reflect.DeepEqual(m, m2) {
		t.Fatalf("fill: %+v", m2)
	}
	sp := Spans(d, vals)
	if sp[0] != [2]int{1, 5} || sp[9] != [2]int{len(enc) - 2, len(enc)} {
		t.Fatalf("spans %v", sp)
	}
	// second message number accepted, others rejected
	enc[0] = 61
	if _, _, e := Decode(d, enc); e != nil {
		t.Fatal(e)
	}
	enc[0] = 62
	if _, _, e := Decode(d, enc); e == nil || e.Class != "wrong-type" {
		t.Fatal(e)
	}
	if _, _, e := Decode(d, nil); e == nil || e.Class != "empty" {
		t.Fatal(e)
	}
	// truncations: every proper prefix that cuts into a non-rest field fails
	enc[0] = 60
	for n := 0; n < len(enc)-2; n++ {
		if _, _, e := Decode(d, enc[:n]); e == nil {
			t.Fatalf("prefix %d accepted", n)
		}
	}
	// trailing bytes without rest
	type nr struct {
		A uint32 `sshtype:"5"`
		S string
	}
	dn, _ := Describe(reflect.TypeOf(nr{}))
	e2 := Encode(dn, []any{uint32(1), "ab"})
	if _, _, e := Decode(dn, append(e2, 0)); e == nil || e.Class != "trailing" {
		t.Fatal(e)
	}
	// non canonical forms
	type nc struct {
		B bool
		M *big.Int
	}
	dc, _ := Describe(reflect.TypeOf(nc{}))
	v, info, e := Decode(dc, unhex("07 00000002 0001"))
	if e != nil || !info.NonCanonical || v[0].(bool) != true || v[1].(*big.Int).Int64() != 1 {
		t.Fatalf("%v %+v %v", v, info, e)
	}
	// unsupported kinds are refused by Describe
	for _, bad := range []any{struct{ X int }{}, struct{ X []int }{}, struct{ X *int }{}, struct{ X [2]int }{}, struct {
		R []byte `ssh:"rest"`
		X uint32
	}{}, struct {
		X uint32 `sshtype:"0"`
	}{}, struct {
		X uint32 `sshtype:"300"`
	}{}} {
		if _, err := Describe(reflect.TypeOf(bad)); err == nil {
			t.Errorf("Describe(%T) accepted", bad)
		}
	}
}

package ref

// scrypt per RFC 7914, written from the RFC text: PBKDF2-HMAC-SHA256 (RFC
// 8018 over crypto/hmac), Salsa20/8 core, scryptBlockMix, scryptROMix. No
// import of golang.org/x/crypto.

import (
	"crypto/hmac"
	"crypto/sha256"
	"encoding/binary"
	"hash"
)

// PBKDF2 is RFC 8018 §5.2 with HMAC over h.
func PBKDF2(h func() hash.Hash, pw, salt []byte, iter, dkLen int) []byte {
	prf := hmac.New(h, pw)
	hl := prf.Size()
	var out []byte
	for blk := uint32(1); len(out) < dkLen; blk++ {
		prf.Reset()
		prf.Write(salt)
		var ib [4]byte
		binary.BigEndian.PutUint32(ib[:], blk)
		prf.Write(ib[:])
		u := prf.Sum(nil)
		t := append([]byte(nil), u...)
		for i := 1; i < iter; i++ {
			prf.Reset()
			prf.Write(u)
			u = prf.Sum(nil)
			for j := 0; j < hl; j++ {
				t[j] ^= u[j]
			}
		}
		out = append(out, t...)
	}
	return out[:dkLen]
}

func rotl(x uint32, n uint) uint32 { return x<<n | x>>(32-n) }

// Salsa20Core is the Salsa20/rounds core (RFC 7914 §3 gives rounds=8).
func Salsa20Core(in [16]uint32, rounds int) (out [16]uint32) {
	x := in
	for i := 0; i < rounds; i += 2 {
		x[4] ^= rotl(x[0]+x[12], 7)
		x[8] ^= rotl(x[4]+x[0], 9)
		x[12] ^= rotl(x[8]+x[4], 13)
		x[0] ^= rotl(x[12]+x[8], 18)
		x[9] ^= rotl(x[5]+x[1], 7)
		x[13] ^= rotl(x[9]+x[5], 9)
		x[1] ^= rotl(x[13]+x[9], 13)
		x[5] ^= rotl(x[1]+x[13], 18)
		x[14] ^= rotl(x[10]+x[6], 7)
		x[2] ^= rotl(x[14]+x[10], 9)
		x[6] ^= rotl(x[2]+x[14], 13)
		x[10] ^= rotl(x[6]+x[2], 18)
		x[3] ^= rotl(x[15]+x[11], 7)
		x[7] ^= rotl(x[3]+x[15], 9)
		x[11] ^= rotl(x[7]+x[3], 13)
		x[15] ^= rotl(x[11]+x[7], 18)
		x[1] ^= rotl(x[0]+x[3], 7)
		x[2] ^= rotl(x[1]+x[0], 9)
		x[3] ^= rotl(x[2]+x[1], 13)
		x[0] ^= rotl(x[3]+x[2], 18)
		x[6] ^= rotl(x[5]+x[4], 7)
		x[7] ^= rotl(x[6]+x[5], 9)
		x[4] ^= rotl(x[7]+x[6], 13)
		x[5] ^= rotl(x[4]+x[7], 18)
		x[11] ^= rotl(x[10]+x[9], 7)
		x[8] ^= rotl(x[11]+x[10], 9)
		x[9] ^= rotl(x[8]+x[11], 13)
		x[10] ^= rotl(x[9]+x[8], 18)
		x[12] ^= rotl(x[15]+x[14], 7)
		x[13] ^= rotl(x[12]+x[15], 9)
		x[14] ^= rotl(x[13]+x[12], 13)
		x[15] ^= rotl(x[14]+x[13], 18)
	}
	for i := range x {
		out[i] = x[i] + in[i]
	}
	return
}

func salsa208Bytes(b []byte) {
	var in [16]uint32
	for i := range in {
		in[i] = binary.LittleEndian.Uint32(b[4*i:])
	}
	o := Salsa20Core(in, 8)
	for i := range o {
		binary.LittleEndian.PutUint32(b[4*i:], o[i])
	}
}

func scryptBlockMix(b []byte, r int) []byte {
	x := append([]byte(nil), b[(2*r-1)*64:]...)
	y := make([]byte, len(b))
	for i := 0; i < 2*r; i++ {
		for j := 0; j < 64; j++ {
			x[j] ^= b[i*64+j]
		}
		salsa208Bytes(x)
		var dst int
		if i%2 == 0 {
			dst = (i / 2) * 64
		} else {
			dst = (r + i/2) * 64
		}
		copy(y[dst:], x)
	}
	return y
}

func scryptROMix(b []byte, r, n int) []byte {
	x := append([]byte(nil), b...)
	v := make([][]byte, n)
	for i := 0; i < n; i++ {
		v[i] = x
		x = scryptBlockMix(x, r)
	}
	for i := 0; i < n; i++ {
		j := int(binary.LittleEndian.Uint64(x[(2*r-1)*64:]) % uint64(n))
		t := make([]byte, len(x))
		for k := range t {
			t[k] = x[k] ^ v[j][k]
		}
		x = scryptBlockMix(t, r)
	}
	return x
}

// Scrypt is RFC 7914 §6 for valid parameters (caller validates).
func Scrypt(pw, salt []byte, n, r, p, dkLen int) []byte {
	b := PBKDF2(sha256.New, pw, salt, 1, p*128*r)
	for i := 0; i < p; i++ {
		copy(b[i*128*r:], scryptROMix(b[i*128*r:(i+1)*128*r], r, n))
	}
	return PBKDF2(sha256.New, pw, b, 1, dkLen)
}

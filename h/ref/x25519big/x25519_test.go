package x25519big

import (
	"bytes"
	"encoding/hex"
	"math/big"
	"testing"
)

func h32(s string) (o [32]byte) {
	b, err := hex.DecodeString(s)
	if err != nil || len(b) != 32 {
		panic("bad hex")
	}
	copy(o[:], b)
	return
}

// RFC 7748 §5.2 test vectors.
func TestRFC7748Vectors(t *testing.T) {
	for _, v := range [][3]string{
		{"a546e36bf0527c9d3b16154b82465edd62144c0ac1fc5a18506a2244ba449ac4", "e6db6867583030db3594c1a424b15f7c726624ec26b3353b10a903a6d0ab1c4c", "c3da55379de9c6908e94ea4df28d084f32eccf03491c71f754b4075577a28552"},
		{"4b66e9d4d1b4673c5ad22691957d6af5c11b6421e0ea01d42ca4169e7918ba0d", "e5210f12786811d3f4b7959d0538ae2c31dbe7106fc03c3efc4cd549c715a493", "95cbde9476e8907d7aade45cb4b873f88b595a68799fa152e6f8f7647aac7957"},
	} {
		k, u, w := h32(v[0]), h32(v[1]), h32(v[2])
		if got := X25519(&k, &u); got != w {
			t.Errorf("got %x want %x", got, w)
		}
	}
}

// RFC 7748 §5.2 iteration test: after 1 and after 1000 iterations.
func TestRFC7748Iterated(t *testing.T) {
	k, u := Base, Base
	for i := 1; i <= 1000; i++ {
		r := X25519(&k, &u)
		u, k = k, r
		if i == 1 && k != h32("422c8e7a6227d7bca1350b3e2bb7279f7897b87bb6854b783c60e80311ae3079") {
			t.Fatalf("iter 1: %x", k)
		}
	}
	if k != h32("684cf59ba83309552800ef566f2f4d3c1c3887c49360e3875f2eb94d99532c51") {
		t.Fatalf("iter 1000: %x", k)
	}
}

// RFC 7748 §6.1 Diffie-Hellman example.
func TestRFC7748DH(t *testing.T) {
	a := h32("77076d0a7318a57d3c16c17251b26645df4c2f87ebc0992ab177fba51db92c2a")
	b := h32("5dab087e624a8a4b79e17f8b83800ee66f3bb1292618b6fd1c2f8b27ff88e0eb")
	A, B := X25519(&a, &Base), X25519(&b, &Base)
	if A != h32("8520f0098930a754748b7ddcb43ef75a0dbf3a0d26381af4eba4a98eaa9b4e6a") || B != h32("de9edb7d7b7dc1b4d35b61c2ece435373f8343c85b78674dadfc7e146f882b4f") {
		t.Fatal("public keys")
	}
	k1, k2 := X25519(&a, &B), X25519(&b, &A)
	if k1 != k2 || k1 != h32("4a5d9d5ba4ce2de1728e3bf480350f25e07e21c947d19e3376f09b3c1e161742") {
		t.Fatal("shared")
	}
}

func TestLowOrder(t *testing.T) {
	lo := LowOrderCanonical()
	one, m1 := big.NewInt(1), new(big.Int).Sub(P, big.NewInt(1))
	// order-8 values double to an order-4 u (1 or p-1); order-4 values double to 0.
	for _, i := range []int{3, 4} {
		d := Double(lo[i])
		if d == nil || (d.Cmp(one) != 0 && d.Cmp(m1) != 0) {
			t.Errorf("low order %d doubles to %v", i, d)
		}
	}
	for _, i := range []int{1, 2} {
		if d := Double(lo[i]); d == nil || d.Sign() != 0 {
			t.Errorf("order-4 %d doubles to %v", i, d)
		}
	}
	// published little-endian encodings of the two order-8 values
	e3, e4 := EncodeU(lo[3]), EncodeU(lo[4])
	if e3 != h32("e0eb7a7c3b41b8ae1656e3faf19fc46ada098deb9c32b1fd866205165f49b800") || e4 != h32("5f9c95bca3508c24b1d0b1559c83ef5b04445cc4581c8e86d8224eddd09f1157") {
		t.Errorf("encodings %x %x", e3, e4)
	}
	enc, desc := LowOrderEncodings()
	if len(enc) != 14 { // c+p < 2^255 only for c < 19: 0 and 1 have a +p alias (2*2*2); p-1, ord8a, ord8b do not (3*2)
		t.Errorf("expected 14 encodings, got %d: %v", len(enc), desc)
	}
	scalars := [][32]byte{{}, h32("ffffffffffffffffffffffffffffffffffffffffffffffffffffffffffffffff"), h32("a546e36bf0527c9d3b16154b82465edd62144c0ac1fc5a18506a2244ba449ac4")}
	for i, e := range enc {
		for _, s := range scalars {
			out := X25519(&s, &e)
			if !IsZero(&out) {
				t.Errorf("%s (%x): non-zero output %x", desc[i], e, out)
			}
		}
	}
	// and neighbours are not low order
	for _, s := range []string{"0200000000000000000000000000000000000000000000000000000000000000", "ebffffffffffffffffffffffffffffffffffffffffffffffffffffffffffff7f", "efffffffffffffffffffffffffffffffffffffffffffffffffffffffffffff7f"} {
		u := h32(s)
		out := X25519(&scalars[2], &u)
		if IsZero(&out) {
			t.Errorf("%s gives zero", s)
		}
	}
}

// Non-canonical decoding: u and u+p (where it fits) and bit 255 are aliases.
func TestAliases(t *testing.T) {
	k := h32("4b66e9d4d1b4673c5ad22691957d6af5c11b6421e0ea01d42ca4169e7918ba0d")
	u := [32]byte{5}
	w := X25519(&k, &u)
	up := EncodeUraw(new(big.Int).Add(big.NewInt(5), P))
	if got := X25519(&k, &up); got != w {
		t.Error("u+p")
	}
	up[31] |= 0x80
	if got := X25519(&k, &up); got != w {
		t.Error("bit 255")
	}
	if bytes.Equal(up[:], u[:]) {
		t.Error("alias equals canonical")
	}
}

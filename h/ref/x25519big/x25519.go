// Package x25519big is an executable transcription of RFC 7748 §5 (the X25519
// function) over math/big: decodeUCoordinate (mask bit 255, little-endian,
// reduce mod p), decodeScalar25519 (clamp), the Montgomery ladder pseudo-code
// with cswap, and encodeUCoordinate. Slow and obvious; shares no code with
// golang.org/x/crypto or crypto/ecdh / crypto/internal/fips140/edwards25519.
package x25519big

import "math/big"

var (
	// P = 2^255 - 19
	P   = new(big.Int).Sub(new(big.Int).Lsh(big.NewInt(1), 255), big.NewInt(19))
	a24 = big.NewInt(121665)
)

// DecodeU is RFC 7748 decodeUCoordinate for bits=255: the most significant
// bit of the last byte is masked, the value is NOT required to be canonical
// (it is reduced mod p by the field arithmetic).
func DecodeU(u *[32]byte) *big.Int {
	var be [32]byte
	for i := range u {
		be[31-i] = u[i]
	}
	be[0] &= 0x7f
	return new(big.Int).SetBytes(be[:])
}

// EncodeU is encodeUCoordinate (value reduced mod p, 32 bytes little-endian).
func EncodeU(v *big.Int) (out [32]byte) {
	x := new(big.Int).Mod(v, P)
	be := x.FillBytes(make([]byte, 32))
	for i := range out {
		out[i] = be[31-i]
	}
	return
}

// DecodeScalar is decodeScalar25519: clamp and read little-endian.
func DecodeScalar(k *[32]byte) *big.Int {
	c := *k
	c[0] &= 248
	c[31] &= 127
	c[31] |= 64
	var be [32]byte
	for i := range c {
		be[31-i] = c[i]
	}
	return new(big.Int).SetBytes(be[:])
}

func mod(x *big.Int) *big.Int    { return x.Mod(x, P) }
func add(a, b *big.Int) *big.Int { return mod(new(big.Int).Add(a, b)) }
func sub(a, b *big.Int) *big.Int { return mod(new(big.Int).Sub(a, b)) }
func mul(a, b *big.Int) *big.Int { return mod(new(big.Int).Mul(a, b)) }

// X25519 is the function of RFC 7748 §5. The result may be all zero (small
// order input); that is reported by IsZero, not by an error.
func X25519(scalar, u *[32]byte) [32]byte {
	k := DecodeScalar(scalar)
	x1 := mod(DecodeU(u))
	x2, z2 := big.NewInt(1), big.NewInt(0)
	x3, z3 := new(big.Int).Set(x1), big.NewInt(1)
	swap := uint(0)
	for t := 254; t >= 0; t-- {
		kt := k.Bit(t)
		swap ^= kt
		if swap == 1 {
			x2, x3 = x3, x2
			z2, z3 = z3, z2
		}
		swap = kt
		A := add(x2, z2)
		AA := mul(A, A)
		B := sub(x2, z2)
		BB := mul(B, B)
		E := sub(AA, BB)
		C := add(x3, z3)
		D := sub(x3, z3)
		DA := mul(D, A)
		CB := mul(C, B)
		t0 := add(DA, CB)
		x3 = mul(t0, t0)
		t1 := sub(DA, CB)
		z3 = mul(x1, mul(t1, t1))
		x2 = mul(AA, BB)
		z2 = mul(E, add(AA, mul(a24, E)))
	}
	if swap == 1 {
		x2, x3 = x3, x2
		z2, z3 = z3, z2
	}
	// x2 * z2^(p-2)
	inv := new(big.Int).Exp(z2, new(big.Int).Sub(P, big.NewInt(2)), P)
	return EncodeU(mul(x2, inv))
}

// IsZero reports whether the 32 bytes are all zero.
func IsZero(b *[32]byte) bool {
	var acc byte
	for _, x := range b {
		acc |= x
	}
	return acc == 0
}

// Base is the u-coordinate 9.
var Base = [32]byte{9}

// LowOrderCanonical returns the canonical u-coordinates (0 <= u < p) of the
// points of order dividing 8 on Curve25519 and its twist: u = 0 (order 2),
// u = 1 and u = p-1 (order 4) and the two order-8 values published at
// https://cr.yp.to/ecdh.html. The unit test proves the list instead of
// trusting it: each value is mapped to 0 by the ladder for clamped scalars
// (all clamped scalars are multiples of 8), the order-8 values double (affine
// Montgomery doubling) to u = 1 / u = p-1, and an exhaustive argument is not
// needed because the check only uses the list as *inputs* — the verdict for
// every input comes from the ladder itself.
func LowOrderCanonical() []*big.Int {
	u8a, _ := new(big.Int).SetString("325606250916557431795983626356110631294008115727848805560023387167927233504", 10)
	u8b, _ := new(big.Int).SetString("39382357235489614581723060781553021112529911719440698176882885853963445705823", 10)
	return []*big.Int{
		big.NewInt(0),
		big.NewInt(1),
		new(big.Int).Sub(P, big.NewInt(1)),
		u8a,
		u8b,
	}
}

// Double is the Montgomery doubling map on u-coordinates (affine), returning
// (nil) when the result is the point at infinity / denominator zero.
func Double(u *big.Int) *big.Int {
	A := big.NewInt(486662)
	u2 := mul(u, u)
	num := sub(u2, big.NewInt(1))
	num = mul(num, num)
	den := mul(big.NewInt(4), mul(u, add(add(u2, mul(A, u)), big.NewInt(1))))
	if den.Sign() == 0 {
		return nil
	}
	inv := new(big.Int).Exp(den, new(big.Int).Sub(P, big.NewInt(2)), P)
	return mul(num, inv)
}

// LowOrderEncodings returns every 32-byte string whose decoded u-coordinate
// (top bit masked, reduced mod p) is a small-order u: for each canonical value
// c and each k >= 0 with c + k·p < 2^255, the encoding with bit 255 clear and
// with bit 255 set.
func LowOrderEncodings() (enc [][32]byte, desc []string) {
	lim := new(big.Int).Lsh(big.NewInt(1), 255)
	names := []string{"0", "1", "p-1", "ord8a", "ord8b"}
	for ci, c := range LowOrderCanonical() {
		for k := 0; k < 3; k++ {
			v := new(big.Int).Add(c, new(big.Int).Mul(big.NewInt(int64(k)), P))
			if v.Cmp(lim) >= 0 {
				break
			}
			be := v.FillBytes(make([]byte, 32))
			var le [32]byte
			for i := range le {
				le[i] = be[31-i]
			}
			for _, top := range []byte{0, 0x80} {
				e := le
				e[31] |= top
				enc = append(enc, e)
				d := names[ci]
				if k > 0 {
					d += "+p"
				}
				if top != 0 {
					d += "|bit255"
				}
				desc = append(desc, d)
			}
		}
	}
	return
}

// EncodeUraw writes v (< 2^256) little-endian WITHOUT reducing: used to build
// non-canonical test inputs.
func EncodeUraw(v *big.Int) (out [32]byte) {
	be := v.FillBytes(make([]byte, 32))
	for i := range out {
		out[i] = be[31-i]
	}
	return
}

// Package chachastream is an executable specification of the ChaCha20 keystream
// (RFC 8439 §2.1–2.4) and of the HChaCha20/XChaCha20 nonce extension
// (draft-irtf-cfrg-xchacha §2.2–2.3), written directly from the RFC pseudocode:
// a 16-word state array, quarter rounds addressed by index, 10 double rounds,
// state addition, little-endian serialisation. No sharing with x/crypto; slow
// and obvious on purpose. The keystream is addressed by *byte position*
// (64*counter + offset), which is what the C03 position model needs.
package chachastream

import "fmt"

// MaxPos is the length of the IETF ChaCha20 keystream in bytes: 2^32 blocks of
// 64 bytes (32-bit block counter, RFC 8439 §2.3).
const MaxPos = uint64(1) << 38

func rotl(x uint32, n uint) uint32 { return x<<n | x>>(32-n) }

// qround is RFC 8439 §2.1 applied to state words a,b,c,d (§2.2).
func qround(st *[16]uint32, a, b, c, d int) {
	st[a] += st[b]
	st[d] ^= st[a]
	st[d] = rotl(st[d], 16)
	st[c] += st[d]
	st[b] ^= st[c]
	st[b] = rotl(st[b], 12)
	st[a] += st[b]
	st[d] ^= st[a]
	st[d] = rotl(st[d], 8)
	st[c] += st[d]
	st[b] ^= st[c]
	st[b] = rotl(st[b], 7)
}

func le32(b []byte) uint32 {
	return uint32(b[0]) | uint32(b[1])<<8 | uint32(b[2])<<16 | uint32(b[3])<<24
}

func put32(b []byte, v uint32) {
	b[0], b[1], b[2], b[3] = byte(v), byte(v>>8), byte(v>>16), byte(v>>24)
}

func innerBlock(st *[16]uint32) {
	qround(st, 0, 4, 8, 12)
	qround(st, 1, 5, 9, 13)
	qround(st, 2, 6, 10, 14)
	qround(st, 3, 7, 11, 15)
	qround(st, 0, 5, 10, 15)
	qround(st, 1, 6, 11, 12)
	qround(st, 2, 7, 8, 13)
	qround(st, 3, 4, 9, 14)
}

func initState(key []byte, w12, w13, w14, w15 uint32) [16]uint32 {
	if len(key) != 32 {
		panic("chachastream: key must be 32 bytes")
	}
	var st [16]uint32
	st[0], st[1], st[2], st[3] = 0x61707865, 0x3320646e, 0x79622d32, 0x6b206574
	for i := 0; i < 8; i++ {
		st[4+i] = le32(key[4*i:])
	}
	st[12], st[13], st[14], st[15] = w12, w13, w14, w15
	return st
}

// Block is chacha20_block(key, counter, nonce) of RFC 8439 §2.3.
func Block(key []byte, counter uint32, nonce12 []byte) [64]byte {
	if len(nonce12) != 12 {
		panic("chachastream: nonce must be 12 bytes")
	}
	st := initState(key, counter, le32(nonce12[0:]), le32(nonce12[4:]), le32(nonce12[8:]))
	w := st
	for i := 0; i < 10; i++ {
		innerBlock(&w)
	}
	var out [64]byte
	for i := 0; i < 16; i++ {
		put32(out[4*i:], w[i]+st[i])
	}
	return out
}

// HChaCha20 is draft-irtf-cfrg-xchacha §2.2: the 20 rounds without the final
// addition; output words 0..3 and 12..15.
func HChaCha20(key, nonce16 []byte) [32]byte {
	if len(nonce16) != 16 {
		panic("chachastream: HChaCha20 nonce must be 16 bytes")
	}
	st := initState(key, le32(nonce16[0:]), le32(nonce16[4:]), le32(nonce16[8:]), le32(nonce16[12:]))
	for i := 0; i < 10; i++ {
		innerBlock(&st)
	}
	var out [32]byte
	for i := 0; i < 4; i++ {
		put32(out[4*i:], st[i])
		put32(out[16+4*i:], st[12+i])
	}
	return out
}

// Derive maps (key, nonce) to the (key, 12-byte nonce) actually fed to the
// block function: identity for 12-byte nonces; for 24-byte nonces the XChaCha20
// construction (§2.3): subkey = HChaCha20(key, nonce[0:16]), nonce' =
// 00 00 00 00 || nonce[16:24].
func Derive(key, nonce []byte) (k [32]byte, n [12]byte) {
	switch len(nonce) {
	case 12:
		copy(k[:], key)
		copy(n[:], nonce)
	case 24:
		k = HChaCha20(key, nonce[:16])
		copy(n[4:], nonce[16:24])
	default:
		panic(fmt.Sprintf("chachastream: nonce length %d", len(nonce)))
	}
	if len(key) != 32 {
		panic("chachastream: key must be 32 bytes")
	}
	return
}

// StreamAt returns keystream bytes [pos, pos+n) of the ChaCha20 (12-byte nonce)
// or XChaCha20 (24-byte nonce) keystream, where byte 0 is the first byte of
// block counter 0. It panics if the range leaves the 2^38-byte keystream: the
// specification defines no bytes there.
func StreamAt(key, nonce []byte, pos uint64, n int) []byte {
	if n < 0 || pos > MaxPos || uint64(n) > MaxPos-pos {
		panic("chachastream: range outside the keystream")
	}
	k, nn := Derive(key, nonce)
	out := make([]byte, 0, n)
	for n > 0 {
		blk := Block(k[:], uint32(pos/64), nn[:])
		off := int(pos % 64)
		take := 64 - off
		if take > n {
			take = n
		}
		out = append(out, blk[off:off+take]...)
		pos += uint64(take)
		n -= take
	}
	return out
}

// XOR returns src XOR StreamAt(key, nonce, pos, len(src)).
func XOR(key, nonce []byte, pos uint64, src []byte) []byte {
	ks := StreamAt(key, nonce, pos, len(src))
	for i := range ks {
		ks[i] ^= src[i]
	}
	return ks
}

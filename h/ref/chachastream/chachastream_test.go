package chachastream

import (
	"bytes"
	"encoding/hex"
	"strings"
	"testing"
)

func unhex(s string) []byte {
	s = strings.NewReplacer(" ", "", "\n", "", "\t", "", ":", "").Replace(s)
	b, err := hex.DecodeString(s)
	if err != nil {
		panic(err)
	}
	return b
}

func seqKey() []byte {
	k := make([]byte, 32)
	for i := range k {
		k[i] = byte(i)
	}
	return k
}

// RFC 8439 §2.1.1
func TestQuarterRound(t *testing.T) {
	var st [16]uint32
	st[0], st[1], st[2], st[3] = 0x11111111, 0x01020304, 0x9b8d6f43, 0x01234567
	qround(&st, 0, 1, 2, 3)
	if st[0] != 0xea2a92f4 || st[1] != 0xcb1cf8ce || st[2] != 0x4581472e || st[3] != 0x5881c4bb {
		t.Fatalf("got %08x %08x %08x %08x", st[0], st[1], st[2], st[3])
	}
}

// RFC 8439 §2.3.2
func TestBlockVector(t *testing.T) {
	want := unhex(`10 f1 e7 e4 d1 3b 59 15 50 0f dd 1f a3 20 71 c4
		c7 d1 f4 c7 33 c0 68 03 04 22 aa 9a c3 d4 6c 4e
		d2 82 64 46 07 9f aa 09 14 c2 d7 05 d9 8b 02 a2
		b5 12 9c d1 de 16 4e b9 cb d0 83 e8 a2 50 3c 4e`)
	got := Block(seqKey(), 1, unhex("00 00 00 09 00 00 00 4a 00 00 00 00"))
	if !bytes.Equal(got[:], want) {
		t.Fatalf("got %x", got)
	}
}

// RFC 8439 §2.4.2 (counter starts at 1 → position 64)
func TestEncryptVector(t *testing.T) {
	pt := []byte("Ladies and Gentlemen of the class of '99: If I could offer you only one tip for the future, sunscreen would be it.")
	want := unhex(`6e 2e 35 9a 25 68 f9 80 41 ba 07 28 dd 0d 69 81
		e9 7e 7a ec 1d 43 60 c2 0a 27 af cc fd 9f ae 0b
		f9 1b 65 c5 52 47 33 ab 8f 59 3d ab cd 62 b3 57
		16 39 d6 24 e6 51 52 ab 8f 53 0c 35 9f 08 61 d8
		07 ca 0d bf 50 0d 6a 61 56 a3 8e 08 8a 22 b6 5e
		52 bc 51 4d 16 cc f8 06 81 8c e9 1a b7 79 37 36
		5a f9 0b bf 74 a3 5b e6 b4 0b 8e ed f2 78 5e 42
		87 4d`)
	got := XOR(seqKey(), unhex("00 00 00 00 00 00 00 4a 00 00 00 00"), 64, pt)
	if !bytes.Equal(got, want) {
		t.Fatalf("got %x", got)
	}
	// position addressing: any sub-range equals the slice of the whole
	for _, c := range [][2]int{{0, 1}, {5, 70}, {63, 2}, {64, 50}, {100, 14}} {
		part := XOR(seqKey(), unhex("00 00 00 00 00 00 00 4a 00 00 00 00"), 64+uint64(c[0]), pt[c[0]:c[0]+c[1]])
		if !bytes.Equal(part, want[c[0]:c[0]+c[1]]) {
			t.Fatalf("range %v", c)
		}
	}
}

// RFC 8439 §2.6.2: the Poly1305 key generation block (counter 0)
func TestKeyGenVector(t *testing.T) {
	key := unhex("80 81 82 83 84 85 86 87 88 89 8a 8b 8c 8d 8e 8f 90 91 92 93 94 95 96 97 98 99 9a 9b 9c 9d 9e 9f")
	nonce := unhex("00 00 00 00 00 01 02 03 04 05 06 07")
	want := unhex("8a d5 a0 8b 90 5f 81 cc 81 50 40 27 4a b2 94 71 a8 33 b6 37 e3 fd 0d a5 08 db b8 e2 fd d1 a6 46")
	got := StreamAt(key, nonce, 0, 32)
	if !bytes.Equal(got, want) {
		t.Fatalf("got %x", got)
	}
}

// draft-irtf-cfrg-xchacha §2.2.1
func TestHChaCha20Vector(t *testing.T) {
	want := unhex("82413b42 27b27bfe d30e4250 8a877d73 a0f9e4d5 8a74a853 c12ec413 26d3ecdc")
	got := HChaCha20(seqKey(), unhex("00 00 00 09 00 00 00 4a 00 00 00 00 31 41 59 27"))
	if !bytes.Equal(got[:], want) {
		t.Fatalf("got %x", got)
	}
}

// libsodium test/default/xchacha20.c, first crypto_stream_xchacha20 vector
// (keystream from counter 0).
func TestXChaCha20Vector(t *testing.T) {
	key := unhex("9d23bd4149cb979ccf3c5c94dd217e9808cb0e50cd0f67812235eaaf601d6232")
	nonce := unhex("c047548266b7c370d33566a2425cbf30d82d1eaf5294109e")
	want := unhex("a21209096594de8c5667b1d13ad93f744106d054df210e4782cd396fec692d3515a20bf351eec011a92c367888bc464c32f0807acd6c203a247e0db854148468e9f96bee4cf718d68d5f637cbd5a376457788e6fae90fc31097cfc")
	got := StreamAt(key, nonce, 0, len(want))
	if !bytes.Equal(got, want) {
		t.Fatalf("got %x", got)
	}
}

func TestRangeLimits(t *testing.T) {
	k, n := seqKey(), make([]byte, 12)
	if len(StreamAt(k, n, MaxPos-3, 3)) != 3 {
		t.Fatal("last bytes")
	}
	if len(StreamAt(k, n, MaxPos, 0)) != 0 {
		t.Fatal("empty at end")
	}
	defer func() {
		if recover() == nil {
			t.Fatal("no panic beyond the keystream")
		}
	}()
	StreamAt(k, n, MaxPos-3, 4)
}

package kdf

import (
	"bytes"
	"fmt"
	"math/rand/v2"
	"runtime"
	"sync"
	"sync/atomic"

	"golang.org/x/crypto/scrypt"
	"verif/mon"
	"verif/ref"
)

// Shared-value concurrency for C16: scrypt.Key is a package-level function that
// programs call from many goroutines. 4-8 goroutines call it at once with
// identical arguments read from the same slices (even cases) or with their own
// arguments (odd cases), different cost parameters side by side (scratch sizes
// of one class and of different classes); every expected key is computed
// single-threaded beforehand from the RFC 7914 reference; judged after join.
func c16Conc(m *mon.M) {
	type job struct {
		pw, salt    []byte
		n, r, p, kl int
		want, got   []byte
		err         error
		pan         any
	}
	costs := [][3]int{{16, 1, 1}, {16, 2, 1}, {16, 3, 1}, {16, 3, 2}, {32, 2, 2}, {64, 1, 3}, {128, 1, 1}, {64, 8, 1}, {256, 2, 1}, {16, 8, 2}}
	run := func(stream string, procs int) {
		m.Cases(stream, m.N(24, 480), func(i int64, r *rand.Rand) {
			if procs > 0 {
				defer runtime.GOMAXPROCS(runtime.GOMAXPROCS(procs))
			}
			shared := i%2 == 0
			mode := "distinct"
			if shared {
				mode = "shared"
			}
			nG := 4 + r.IntN(5)
			spw, ssalt := mon.Bytes(r, 1+r.IntN(40)), mon.Bytes(r, r.IntN(40))
			pwCopy, saltCopy := bytes.Clone(spw), bytes.Clone(ssalt)
			sc := costs[r.IntN(len(costs))]
			jobs := make([][]*job, nG)
			for g := range jobs {
				for o := 0; o < 3+r.IntN(3); o++ {
					j := &job{pw: spw, salt: ssalt, n: sc[0], r: sc[1], p: sc[2], kl: 1 + r.IntN(100)}
					if !shared || r.IntN(3) == 0 {
						c := costs[r.IntN(len(costs))]
						j.n, j.r, j.p = c[0], c[1], c[2]
					}
					if !shared {
						j.pw, j.salt = mon.Bytes(r, r.IntN(40)), mon.Bytes(r, r.IntN(40))
					}
					j.want = ref.Scrypt(j.pw, j.salt, j.n, j.r, j.p, j.kl)
					jobs[g] = append(jobs[g], j)
				}
			}
			var inflight, maxSeen atomic.Int32
			var wg sync.WaitGroup
			start := make(chan struct{})
			for g := range jobs {
				wg.Add(1)
				go func(js []*job) {
					defer wg.Done()
					<-start
					for _, j := range js {
						n := inflight.Add(1)
						for {
							o := maxSeen.Load()
							if n <= o || maxSeen.CompareAndSwap(o, n) {
								break
							}
						}
						func() {
							defer func() { j.pan = recover() }()
							j.got, j.err = scrypt.Key(j.pw, j.salt, j.n, j.r, j.p, j.kl)
						}()
						inflight.Add(-1)
						runtime.Gosched()
					}
				}(jobs[g])
			}
			close(start)
			wg.Wait()
			if maxSeen.Load() >= 2 {
				m.Count("concurrent_cases_with_overlap", 1)
			}
			for g, js := range jobs {
				for _, j := range js {
					m.Eval()
					m.Count("concurrent_keys_compared", 1)
					m.Distinct(fmt.Sprintf("conc %s N:%d r:%d p:%d", mode, j.n, j.r, j.p))
					wit := map[string]any{"goroutine": g, "goroutines": nG, "N": j.n, "r": j.r, "p": j.p, "keyLen": j.kl, "pw": mon.FullHex(j.pw), "salt": mon.FullHex(j.salt)}
					switch {
					case j.pan != nil:
						wit["panic"] = fmt.Sprint(j.pan)
						m.Violation("concurrent-panic:"+mode+":scrypt.Key", wit)
					case j.err != nil:
						wit["err"] = j.err.Error()
						m.Violation("concurrent-valid-params-rejected:"+mode+":scrypt.Key", wit)
					case !bytes.Equal(j.got, j.want):
						wit["got"], wit["want"] = mon.Hex(j.got), mon.Hex(j.want)
						m.Violation("concurrent-key-differs:"+mode+":scrypt.Key", wit)
					}
				}
			}
			if !bytes.Equal(spw, pwCopy) || !bytes.Equal(ssalt, saltCopy) {
				m.Violation("concurrent-input-modified:shared:scrypt.Key", nil)
			}
			if i < 1 {
				m.Sample(map[string]any{"stream": stream, "mode": mode, "goroutines": nG, "N": sc[0], "r": sc[1], "p": sc[2]})
			}
		})
	}
	run("conc-pN", 0)
	run("conc-p1", 1)
	m.Gate("concurrent_keys_compared", m.N(150, 3000), "keys from concurrent scrypt.Key calls compared with the reference")
	m.Gate("concurrent_cases_with_overlap", m.N(12, 240), "cases in which at least two calls were observed in flight together")
}

package kdf

import (
	"bytes"
	"fmt"
	"math"
	"math/rand/v2"
	"testing"

	"golang.org/x/crypto/scrypt"
	"verif/ext"
	"verif/mon"
	"verif/ref"
)

// C16: scrypt.Key returns exactly keyLen bytes equal to RFC 7914, or (nil,
// err); never panics for integer arguments that do not exhaust memory.
func TestC16(t *testing.T) {
	m := mon.New(t, "C16")
	defer m.Done()
	m.Rule("case = (pw, salt, N, r, p, keyLen) drawn from the quantifier's boundary sets (valid N=2^1..2^12, invalid N {0,1,3,6,negatives,huge}, r,p in -2..8 and overflow-sized, keyLen -5..300); oracle = ref RFC 7914 (h/ref) + python hashlib.scrypt witness; validity predicate from RFC 7914 §2 + the documented limits; distinct key = (class of N, r, p, keyLen); non-trivial = reached an oracle comparison or an expected-error/panic observation")
	m.Assume("ref scrypt (h/ref/scrypt.go) is validated against the RFC 7914 vectors in its own unit test and cross-checked here against python hashlib (OpenSSL) on valid cases")
	if mon.RaceBuild {
		// race variant: only the shared-value concurrency streams (c16_conc_test.go)
		c16Conc(m)
		return
	}
	defer c16Conc(m)
	py, pyErr := ext.StartPy()
	if pyErr != nil {
		m.Note("python witness unavailable: " + pyErr.Error())
	} else {
		defer py.Close()
	}
	validN := []int{2, 4, 8, 16, 32, 64, 128, 256, 512, 1024, 2048, 4096}
	invalidN := []int{0, 1, 3, 6, 12, 100, 4095, -1, -2, -16, math.MinInt, math.MaxInt, 1 << 31, 1<<31 + 1}
	hugeRP := []int{math.MaxInt/128 + 1, math.MaxInt / 128, 1 << 30, 1<<31 - 1, 1 << 40, math.MaxInt, math.MaxInt/256 + 1}
	total := m.N(1500, 30000)
	m.Cases("main", total, func(i int64, rr *rand.Rand) {
		pw := mon.Bytes(rr, rr.IntN(40))
		salt := mon.Bytes(rr, rr.IntN(40))
		var n, r, p, kl int
		if rr.IntN(4) == 0 {
			n = mon.Pick(rr, invalidN)
		} else {
			n = mon.Pick(rr, validN)
		}
		pickRP := func() int {
			switch rr.IntN(12) {
			case 0:
				return mon.Pick(rr, hugeRP)
			default:
				return rr.IntN(11) - 2
			}
		}
		r, p = pickRP(), pickRP()
		switch rr.IntN(6) {
		case 0:
			kl = rr.IntN(6) - 5 // -5..0
		case 1:
			kl = mon.Pick(rr, []int{0, 1, 31, 32, 33, 63, 64, 65, 300})
		default:
			kl = 1 + rr.IntN(300)
		}
		// validity per RFC 7914 §2 / documented behaviour: N>1 power of two, r,p>0, r*p < 2^30, no overflow
		valid := n > 1 && n&(n-1) == 0 && r > 0 && p > 0
		if valid {
			if uint64(r)*uint64(p) >= 1<<30 || r > math.MaxInt/128/p || r > math.MaxInt/256 || n > math.MaxInt/128/r {
				valid = false
			}
		}
		// only *call* combinations whose validated size is bounded (64 MiB)
		if valid && (128*r*n > 64<<20 || 128*r*p > 64<<20) {
			m.Count("skipped_memory", 1)
			return
		}
		var key []byte
		var err error
		pv, stack := mon.Panics(func() { key, err = scrypt.Key(pw, salt, n, r, p, kl) })
		m.Eval()
		cls := fmt.Sprintf("N:%s r:%s p:%s kl:%s", clsN(n), clsRP(r), clsRP(p), clsKL(kl))
		m.Distinct(cls)
		wit := map[string]any{"pw": mon.FullHex(pw), "salt": mon.FullHex(salt), "N": n, "r": r, "p": p, "keyLen": kl}
		if i < 4 {
			m.Sample(wit)
		}
		if pv != nil {
			m.Count("panics", 1)
			wit["panic"] = fmt.Sprint(pv)
			wit["site"] = mon.PanicSite(stack)
			k := "panic:keyLen<=0"
			if kl > 0 {
				k = "panic:" + cls
			}
			m.Violation(k, wit)
			return
		}
		if !valid {
			m.Count("invalid_param_cases", 1)
			if err == nil || key != nil {
				m.Violation("invalid-params-accepted:"+cls, wit)
			}
			return
		}
		if kl < 0 {
			m.Count("negative_keylen_cases", 1)
			if err == nil || key != nil {
				m.Violation("negative-keylen-accepted", wit)
			}
			return
		}
		if kl == 0 {
			m.Count("zero_keylen_cases", 1)
			// both (empty, nil) and (nil, err) satisfy the statement
			if (err == nil && len(key) != 0) || (err != nil && key != nil) {
				m.Violation("zero-keylen-wrong-shape", wit)
			}
			return
		}
		if err != nil {
			wit["err"] = err.Error()
			m.Violation("valid-params-rejected:"+cls, wit)
			return
		}
		want := ref.Scrypt(pw, salt, n, r, p, kl)
		m.Count("ref_comparisons", 1)
		if !bytes.Equal(key, want) {
			wit["got"], wit["want"] = mon.Hex(key), mon.Hex(want)
			m.Violation("wrong-key:"+cls, wit)
		}
		if py != nil && i%8 == 0 {
			w, e := py.Bytes(map[string]any{"op": "scrypt", "pw": ext.Hx(pw), "salt": ext.Hx(salt), "n": n, "r": r, "p": p, "dklen": kl})
			if e == nil {
				m.Count("python_comparisons", 1)
				if !bytes.Equal(w, want) {
					m.Inconclusive(fmt.Sprintf("oracle conflict ref vs python at case %d", i))
				}
			}
		}
	})
	m.Gate("ref_comparisons", m.N(300, 5000), "valid cases compared with ref")
	m.Gate("invalid_param_cases", m.N(200, 3000), "invalid parameter combinations observed")
}

func clsN(n int) string {
	switch {
	case n < 0:
		return "neg"
	case n < 2:
		return fmt.Sprint(n)
	case n&(n-1) != 0:
		return "nonpow2"
	case n > 4096:
		return "hugepow2"
	}
	return fmt.Sprint(n)
}
func clsRP(v int) string {
	if v > 8 {
		return "huge"
	}
	return fmt.Sprint(v)
}
func clsKL(k int) string {
	switch {
	case k <= 0:
		return fmt.Sprint(k)
	case k <= 32:
		return "1..32"
	case k <= 64:
		return "33..64"
	}
	return ">64"
}

package sshstrict

// This file is a copy of verif/sshref/peer.go (another builder's package, read
// only for us) adapted for C30: a Hook before every regular outgoing packet
// (so that the harness can inject SSH_MSG_IGNORE/DEBUG at every position of
// the peer's own packet sequence, protected with the peer's current keys and
// sequence number), logs of what was sent/received under which sequence
// number, and queueing (instead of dropping) of upper-layer packets that
// arrive while a self-initiated re-exchange waits for the peer's KEXINIT.
// Packet protection, key derivation and encodings stay in verif/sshref.
//
// Peer: a deliberately small SSH endpoint (client or server role) on top of
// sshref.Reader/Writer. It shares no code with golang.org/x/crypto: messages are
// marshalled by hand from RFC 4253/4252/4254, key exchange uses crypto/ecdh
// (curve25519-sha256 per RFC 8731, ecdh-sha2-nistp* per RFC 5656) or math/big
// (diffie-hellman-group14-* per RFC 4253 §8 / RFC 8268), the host key is
// ssh-ed25519 (RFC 8709) via crypto/ed25519.
//
// It is an *endpoint*, not an oracle for the primitives: it exists so that a
// real implementation can be connected to something that derives keys, frames,
// counts sequence numbers and negotiates on its own.

import (
	"bufio"
	"crypto"
	"crypto/ecdh"
	"crypto/ed25519"
	"crypto/rand"
	"encoding/binary"
	"errors"
	"fmt"
	"io"
	"math/big"
	"strings"

	"verif/sshref"
)

// SSH message numbers used by Peer.
const (
	MsgDisconnect      = 1
	MsgIgnore          = 2
	MsgUnimplemented   = 3
	MsgDebug           = 4
	MsgServiceRequest  = 5
	MsgServiceAccept   = 6
	MsgExtInfo         = 7
	MsgKexInit         = 20
	MsgKexECDHInit     = 30 // also SSH_MSG_KEXDH_INIT
	MsgKexECDHReply    = 31 // also SSH_MSG_KEXDH_REPLY
	MsgUserAuthReq     = 50
	MsgUserAuthFail    = 51
	MsgUserAuthOK      = 52
	MsgGlobalRequest   = 80
	MsgRequestSuccess  = 81
	MsgRequestFailure  = 82
	MsgChannelOpen     = 90
	MsgChannelOpenOK   = 91
	MsgChannelOpenFail = 92
	MsgChannelWindow   = 93
	MsgChannelData     = 94
	MsgChannelExtData  = 95
	MsgChannelEOF      = 96
	MsgChannelClose    = 97
	MsgChannelRequest  = 98
	MsgChannelSuccess  = 99
	MsgChannelFailure  = 100
)

const (
	strictClientMarker = "kex-strict-c-v00@openssh.com"
	strictServerMarker = "kex-strict-s-v00@openssh.com"
)

// PeerKexAlgos lists the key exchange methods Peer implements.
var PeerKexAlgos = []string{"curve25519-sha256", "curve25519-sha256@libssh.org", "ecdh-sha2-nistp256", "ecdh-sha2-nistp384", "ecdh-sha2-nistp521",
	"diffie-hellman-group14-sha256", "diffie-hellman-group14-sha1"}

// PeerConfig configures a Peer. Zero values select sensible defaults.
type PeerConfig struct {
	Server   bool
	Version  string             // identification string without CR LF (default "SSH-2.0-sshref_1.0")
	Kex      []string           // preference list (default PeerKexAlgos)
	Ciphers  []string           // preference list (default: all of Ciphers() except "none")
	MACs     []string           // preference list (default: all of MACs() except "none")
	HostKey  ed25519.PrivateKey // server role: ssh-ed25519 host key (required)
	NoStrict bool               // do not advertise strict KEX
	// HostKeyAlgos is the server_host_key_algorithms list to advertise
	// (default "ssh-ed25519", the only one Peer implements; further names may
	// be listed as long as ssh-ed25519 is what gets negotiated).
	HostKeyAlgos []string
	// Follows sets first_kex_packet_follows (RFC 4253 section 7) in every
	// KEXINIT. As client the Peer then sends the first packet of its
	// preferred method (Kex[0]) right behind its KEXINIT; if the guess turns
	// out right (both sides' first kex and first host key algorithm agree)
	// that packet is the exchange's first packet, otherwise the other side
	// has to discard it and the Peer sends the real one.
	Follows bool
	// ServerGuess: as server, with Follows, send a placeholder reply packet
	// right behind KEXINIT (a server cannot compute a real ECDH reply before
	// it has the client's value). Only meaningful when the guess is wrong,
	// because then the client must discard exactly that one packet.
	ServerGuess bool
	Rand     io.Reader          // default crypto/rand.Reader
	// CheckHostKey, client role: called with the server's ed25519 public key
	// (nil: accept any). The signature over H is always verified.
	CheckHostKey func(pub ed25519.PublicKey) error
	// Quirk options passed to every Reader/Writer (e.g. CBCIgnoresEtM to
	// talk to an implementation with that deviation).
	Opts sshref.Options
}

// KexInfo describes the outcome of one key exchange as Peer computed it.
type KexInfo struct {
	Kex, HostKeyAlgo        string
	CipherC2S, CipherS2C    string
	MACC2S, MACS2C          string
	Hash                    crypto.Hash
	K                       []byte // encoded (mpint) shared secret as hashed
	H                       []byte
	SessionID               []byte
	Strict                  bool
	PeerKexInit, OwnKexInit []byte
}

// Peer is one end of an SSH connection.
type Peer struct {
	cfg         PeerConfig
	r           *bufio.Reader
	w           io.Writer
	rd          *sshref.Reader
	wr          *sshref.Writer
	seqIn       uint32
	seqOut      uint32
	ownVersion  string
	peerVersion string
	sessionID   []byte
	strict      bool
	kexDone     int
	Kexes       []KexInfo // one entry per completed key exchange

	// Hook, if set, is called before every regular outgoing packet with the
	// index of that packet among the regular outgoing packets and its
	// message number. It may call Inject.
	Hook func(n int, typ byte)
	// Sent lists the message numbers of the regular outgoing packets, SentSeq
	// the sequence numbers they were protected with; Injected counts the
	// packets sent through Inject.
	Sent     []byte
	SentSeq  []uint32
	Injected int
	// Recv lists message number and sequence number of every packet that
	// was read and verified.
	Recv    []byte
	RecvSeq []uint32
	queued  [][]byte
	// channel state for the session helpers
	peerChan, peerWindow, peerMaxPkt uint32
}

// NewPeer wraps a connection. Nothing is sent until Handshake.
func NewPeer(conn io.ReadWriter, cfg PeerConfig) *Peer {
	if cfg.Version == "" {
		cfg.Version = "SSH-2.0-sshref_1.0"
	}
	if cfg.Rand == nil {
		cfg.Rand = rand.Reader
	}
	if len(cfg.Kex) == 0 {
		cfg.Kex = PeerKexAlgos
	}
	if len(cfg.Ciphers) == 0 {
		for _, c := range sshref.Ciphers() {
			if c != "none" {
				cfg.Ciphers = append(cfg.Ciphers, c)
			}
		}
	}
	if len(cfg.MACs) == 0 {
		for _, m := range sshref.MACs() {
			if m != "none" {
				cfg.MACs = append(cfg.MACs, m)
			}
		}
	}
	p := &Peer{cfg: cfg, r: bufio.NewReaderSize(conn, 1<<16), w: conn}
	p.rd, _ = sshref.NewReader("none", "none", sshref.Keys{})
	p.wr, _ = sshref.NewWriter("none", "none", sshref.Keys{})
	p.wr.Rand = cfg.Rand
	return p
}

// SessionID returns the session identifier (first exchange hash).
func (p *Peer) SessionID() []byte { return p.sessionID }

// PeerVersion returns the other side's identification string.
func (p *Peer) PeerVersion() string { return p.peerVersion }

// SeqIn / SeqOut return the sequence number of the next packet to be
// read / written.
func (p *Peer) SeqIn() uint32  { return p.seqIn }
func (p *Peer) SeqOut() uint32 { return p.seqOut }

// SetSeq overrides the sequence counters (for wrap experiments before any
// authenticated packet was exchanged, or deliberate desynchronisation).
func (p *Peer) SetSeq(in, out uint32) { p.seqIn, p.seqOut = in, out }

// ---- wire helpers ----

type msgBuf struct{ b []byte }

func (m *msgBuf) byte(v byte) *msgBuf { m.b = append(m.b, v); return m }
func (m *msgBuf) bool(v bool) *msgBuf {
	if v {
		return m.byte(1)
	}
	return m.byte(0)
}
func (m *msgBuf) u32(v uint32) *msgBuf {
	m.b = binary.BigEndian.AppendUint32(m.b, v)
	return m
}
func (m *msgBuf) str(s []byte) *msgBuf { m.u32(uint32(len(s))); m.b = append(m.b, s...); return m }
func (m *msgBuf) raw(s []byte) *msgBuf { m.b = append(m.b, s...); return m }
func (m *msgBuf) list(l []string) *msgBuf {
	return m.str([]byte(strings.Join(l, ",")))
}

type msgRd struct {
	b   []byte
	err error
}

func (m *msgRd) take(n int) []byte {
	if m.err != nil || n < 0 || n > len(m.b) {
		m.err = errors.New("sshref: short message")
		return nil
	}
	v := m.b[:n]
	m.b = m.b[n:]
	return v
}
func (m *msgRd) byte() byte {
	v := m.take(1)
	if v == nil {
		return 0
	}
	return v[0]
}
func (m *msgRd) u32() uint32 {
	v := m.take(4)
	if v == nil {
		return 0
	}
	return binary.BigEndian.Uint32(v)
}
func (m *msgRd) str() []byte { return m.take(int(m.u32())) }
func (m *msgRd) list() []string {
	s := string(m.str())
	if s == "" {
		return nil
	}
	return strings.Split(s, ",")
}

// ---- raw packets ----

// WritePacket sends one packet with the current keys and sequence number.
func (p *Peer) WritePacket(payload []byte) error {
	return p.WritePacketPad(payload, -1)
}

// WritePacketPad is WritePacket with an explicit padding_length (see
// Writer.WritePacket).
func (p *Peer) WritePacketPad(payload []byte, padLen int) error {
	if p.Hook != nil && len(payload) > 0 {
		p.Hook(len(p.Sent), payload[0])
	}
	if len(payload) > 0 {
		p.Sent = append(p.Sent, payload[0])
		p.SentSeq = append(p.SentSeq, p.seqOut)
	}
	err := p.wr.WritePacket(p.seqOut, p.w, payload, padLen)
	p.seqOut++
	return err
}

// Inject sends an extra packet with the current keys and sequence number; it
// does not call Hook and is not listed in Sent.
func (p *Peer) Inject(payload []byte) error {
	p.Injected++
	err := p.wr.WritePacket(p.seqOut, p.w, payload, -1)
	p.seqOut++
	return err
}

// WriteRaw sends bytes as they are (no framing) — for injecting garbage.
func (p *Peer) WriteRaw(b []byte) error { _, err := p.w.Write(b); return err }

// ReadRawPacket reads exactly one packet with the current keys; no message is
// interpreted.
func (p *Peer) ReadRawPacket() ([]byte, sshref.PacketInfo, error) {
	info, err := p.rd.ReadPacket(p.seqIn, p.r)
	if err == nil && len(info.Payload) > 0 {
		p.Recv = append(p.Recv, info.Payload[0])
		p.RecvSeq = append(p.RecvSeq, p.seqIn)
	}
	p.seqIn++
	return info.Payload, info, err
}

// ReadPacket returns the next packet for the layer above the transport:
// SSH_MSG_IGNORE/DEBUG/EXT_INFO are skipped, a peer-initiated re-exchange
// (SSH_MSG_KEXINIT) is run to completion transparently, SSH_MSG_DISCONNECT is
// returned as an error.
func (p *Peer) ReadPacket() ([]byte, error) {
	for {
		var pl []byte
		if len(p.queued) > 0 {
			pl, p.queued = p.queued[0], p.queued[1:]
		} else {
			var err error
			pl, _, err = p.ReadRawPacket()
			if err != nil {
				return nil, err
			}
		}
		if len(pl) == 0 {
			return nil, errors.New("sshref: empty payload")
		}
		switch pl[0] {
		case MsgIgnore, MsgDebug, MsgExtInfo:
			continue
		case MsgDisconnect:
			m := &msgRd{b: pl[1:]}
			code := m.u32()
			return nil, fmt.Errorf("sshref: peer disconnected: %d %s", code, m.str())
		case MsgKexInit:
			if p.kexDone > 0 {
				if err := p.kex(pl); err != nil {
					return nil, err
				}
				continue
			}
		}
		return pl, nil
	}
}

// AwaitKex reads until n key exchanges have completed (a re-exchange the
// other side is known to be about to initiate); upper-layer packets that
// arrive meanwhile are kept for ReadPacket.
func (p *Peer) AwaitKex(n int) error {
	for len(p.Kexes) < n {
		pl, _, err := p.ReadRawPacket()
		if err != nil {
			return err
		}
		if len(pl) == 0 {
			continue
		}
		switch pl[0] {
		case MsgKexInit:
			if err := p.kex(append([]byte(nil), pl...)); err != nil {
				return err
			}
		case MsgIgnore, MsgDebug, MsgExtInfo:
		default:
			p.queued = append(p.queued, append([]byte(nil), pl...))
		}
	}
	return nil
}

// ---- version exchange + key exchange ----

// Handshake exchanges identification strings and runs the first key exchange.
func (p *Peer) Handshake() error {
	p.ownVersion = p.cfg.Version
	if _, err := io.WriteString(p.w, p.ownVersion+"\r\n"); err != nil {
		return err
	}
	for i := 0; ; i++ {
		line, err := p.r.ReadString('\n')
		if err != nil {
			return fmt.Errorf("sshref: reading identification: %w", err)
		}
		line = strings.TrimRight(line, "\r\n")
		if strings.HasPrefix(line, "SSH-") {
			p.peerVersion = line
			break
		}
		if p.cfg.Server || i > 50 {
			return errors.New("sshref: no identification string")
		}
	}
	if !strings.HasPrefix(p.peerVersion, "SSH-2.0-") && !strings.HasPrefix(p.peerVersion, "SSH-1.99-") {
		return errors.New("sshref: unsupported protocol version " + p.peerVersion)
	}
	return p.kex(nil)
}

// Rekey initiates a key re-exchange and runs it to completion. Packets of the
// upper layer that arrive meanwhile are not expected (use it at quiet points).
func (p *Peer) Rekey() error { return p.kex(nil) }

func firstCommon(client, server []string) string {
	for _, c := range client {
		for _, s := range server {
			if c == s {
				return c
			}
		}
	}
	return ""
}

func has(l []string, s string) bool {
	for _, x := range l {
		if x == s {
			return true
		}
	}
	return false
}

type kexInit struct {
	kex, hostKey, encC2S, encS2C, macC2S, macS2C, compC2S, compS2C []string
	firstFollows                                                   bool
}

func parseKexInit(pl []byte) (kexInit, error) {
	m := &msgRd{b: pl}
	if m.byte() != MsgKexInit {
		return kexInit{}, errors.New("sshref: expected KEXINIT")
	}
	m.take(16)
	var k kexInit
	k.kex, k.hostKey = m.list(), m.list()
	k.encC2S, k.encS2C, k.macC2S, k.macS2C = m.list(), m.list(), m.list(), m.list()
	k.compC2S, k.compS2C = m.list(), m.list()
	m.list()
	m.list()
	k.firstFollows = m.byte() != 0
	m.u32()
	return k, m.err
}

var dhGroup14P, _ = new(big.Int).SetString("FFFFFFFFFFFFFFFFC90FDAA22168C234C4C6628B80DC1CD129024E088A67CC74020BBEA63B139B22514A08798E3404DDEF9519B3CD3A431B302B0A6DF25F14374FE1356D6D51C245E485B576625E7EC6F44C42E9A637ED6B0BFF5CB6F406B7EDEE386BFB5A899FA5AE9F24117C4B1FE649286651ECE45B3DC2007CB8A163BF0598DA48361C55D39A69163FA8FD24CF5F83655D23DCA3AD961C62F356208552BB9ED529077096966D670C354E4ABC9804F1746C08CA18217C32905E462E36CE3BE39E772C180E86039B2783A2EC07A28FB5C55DF06F4C52C9DE2BCBF6955817183995497CEA956AE515D2261898FA051015728E5A8AACAA68FFFFFFFFFFFFFFFF", 16)

func kexHash(name string) crypto.Hash {
	switch name {
	case "ecdh-sha2-nistp384":
		return crypto.SHA384
	case "ecdh-sha2-nistp521":
		return crypto.SHA512
	case "diffie-hellman-group14-sha1":
		return crypto.SHA1
	}
	return crypto.SHA256
}

func kexCurve(name string) ecdh.Curve {
	switch name {
	case "ecdh-sha2-nistp256":
		return ecdh.P256()
	case "ecdh-sha2-nistp384":
		return ecdh.P384()
	case "ecdh-sha2-nistp521":
		return ecdh.P521()
	case "curve25519-sha256", "curve25519-sha256@libssh.org":
		return ecdh.X25519()
	}
	return nil
}

// kex runs one key exchange. peerInit is the peer's KEXINIT payload if it was
// already read (peer-initiated), else nil.
func (p *Peer) kex(peerInit []byte) error {
	first := p.kexDone == 0
	own := &msgBuf{}
	cookie := make([]byte, 16)
	io.ReadFull(p.cfg.Rand, cookie)
	kexList := append([]string(nil), p.cfg.Kex...)
	if first && !p.cfg.NoStrict {
		if p.cfg.Server {
			kexList = append(kexList, strictServerMarker)
		} else {
			kexList = append(kexList, strictClientMarker)
		}
	}
	hostAlgos := p.cfg.HostKeyAlgos
	if len(hostAlgos) == 0 {
		hostAlgos = []string{"ssh-ed25519"}
	}
	own.byte(MsgKexInit).raw(cookie).list(kexList).list(hostAlgos).
		list(p.cfg.Ciphers).list(p.cfg.Ciphers).list(p.cfg.MACs).list(p.cfg.MACs).
		list([]string{"none"}).list([]string{"none"}).list(nil).list(nil).bool(p.cfg.Follows).u32(0)
	if err := p.WritePacket(own.b); err != nil {
		return err
	}
	// key pair generation for a named method: (ecdh key | DH exponent, public value as sent)
	genKey := func(name string) (*ecdh.PrivateKey, *big.Int, []byte, error) {
		if c := kexCurve(name); c != nil {
			k, err := c.GenerateKey(p.cfg.Rand)
			if err != nil {
				return nil, nil, nil, err
			}
			return k, nil, k.PublicKey().Bytes(), nil
		}
		xb := make([]byte, 40)
		io.ReadFull(p.cfg.Rand, xb)
		x := new(big.Int).SetBytes(xb)
		x.Add(x, big.NewInt(2))
		e := new(big.Int).Exp(big.NewInt(2), x, dhGroup14P)
		return nil, x, sshref.MPInt(e)[4:], nil
	}
	var guessPriv *ecdh.PrivateKey
	var guessX *big.Int
	var guessPub []byte
	guessSent := false
	if p.cfg.Follows {
		if !p.cfg.Server {
			var err error
			if guessPriv, guessX, guessPub, err = genKey(kexList[0]); err != nil {
				return err
			}
			if err := p.WritePacket((&msgBuf{}).byte(MsgKexECDHInit).str(guessPub).b); err != nil {
				return err
			}
			guessSent = true
		} else if p.cfg.ServerGuess {
			junk := make([]byte, 32)
			io.ReadFull(p.cfg.Rand, junk)
			hb := (&msgBuf{}).str([]byte("ssh-ed25519")).str(p.cfg.HostKey.Public().(ed25519.PublicKey)).b
			sg := (&msgBuf{}).str([]byte("ssh-ed25519")).str(make([]byte, 64)).b
			if err := p.WritePacket((&msgBuf{}).byte(MsgKexECDHReply).str(hb).str(junk).str(sg).b); err != nil {
				return err
			}
		}
	}
	for peerInit == nil {
		pl, _, err := p.ReadRawPacket()
		if err != nil {
			return err
		}
		if len(pl) > 0 && pl[0] == MsgKexInit {
			peerInit = append([]byte(nil), pl...)
			break
		}
		if first && len(pl) > 0 && (pl[0] == MsgIgnore || pl[0] == MsgDebug) && p.cfg.NoStrict {
			continue
		}
		if first {
			return fmt.Errorf("sshref: message %d before KEXINIT", pl[0])
		}
		// re-exchange we initiated: upper-layer packets in flight are kept for ReadPacket
		if len(pl) > 0 && pl[0] != MsgIgnore && pl[0] != MsgDebug {
			p.queued = append(p.queued, append([]byte(nil), pl...))
		}
	}
	peer, err := parseKexInit(peerInit)
	if err != nil {
		return err
	}
	ownK, _ := parseKexInit(own.b)
	cl, sv := ownK, peer
	iC, iS := own.b, peerInit
	if p.cfg.Server {
		cl, sv = peer, ownK
		iC, iS = peerInit, own.b
	}
	if first && !p.cfg.NoStrict {
		if p.cfg.Server {
			p.strict = has(peer.kex, strictClientMarker)
		} else {
			p.strict = has(peer.kex, strictServerMarker)
		}
		if p.strict && (p.seqIn != 1) {
			return errors.New("sshref: strict KEX: KEXINIT was not the first packet")
		}
	}
	info := KexInfo{Strict: p.strict, PeerKexInit: peerInit, OwnKexInit: own.b}
	info.Kex = firstCommon(cl.kex, sv.kex)
	info.HostKeyAlgo = firstCommon(cl.hostKey, sv.hostKey)
	info.CipherC2S, info.CipherS2C = firstCommon(cl.encC2S, sv.encC2S), firstCommon(cl.encS2C, sv.encS2C)
	info.MACC2S, info.MACS2C = firstCommon(cl.macC2S, sv.macC2S), firstCommon(cl.macS2C, sv.macS2C)
	if info.Kex == "" || info.HostKeyAlgo == "" || info.CipherC2S == "" || info.CipherS2C == "" ||
		(!sshref.IsAEAD(info.CipherC2S) && info.MACC2S == "") || (!sshref.IsAEAD(info.CipherS2C) && info.MACS2C == "") {
		return fmt.Errorf("sshref: no common algorithms (kex %q hostkey %q enc %q/%q mac %q/%q)", info.Kex, info.HostKeyAlgo, info.CipherC2S, info.CipherS2C, info.MACC2S, info.MACS2C)
	}
	if peer.firstFollows && (peer.kex[0] != info.Kex || peer.hostKey[0] != info.HostKeyAlgo) {
		if _, _, err := p.ReadRawPacket(); err != nil { // wrong guess: discard
			return err
		}
	}
	info.Hash = kexHash(info.Kex)

	// ---- the exchange itself ----
	var qC, qS, hostBlob, sigBlob []byte
	var secret *big.Int
	curve := kexCurve(info.Kex)
	dhSecret := func(theirs []byte, mine *big.Int) (*big.Int, error) {
		y := new(big.Int).SetBytes(theirs)
		if y.Cmp(big.NewInt(1)) <= 0 || y.Cmp(new(big.Int).Sub(dhGroup14P, big.NewInt(1))) >= 0 {
			return nil, errors.New("sshref: DH value out of range")
		}
		return new(big.Int).Exp(y, mine, dhGroup14P), nil
	}
	var x *big.Int
	var priv *ecdh.PrivateKey
	var ownPub []byte
	// our own guess was right iff both sides prefer the same kex and host key algorithm
	guessRight := guessSent && len(peer.kex) > 0 && len(peer.hostKey) > 0 && ownK.kex[0] == peer.kex[0] && ownK.hostKey[0] == peer.hostKey[0]
	if guessRight {
		priv, x, ownPub = guessPriv, guessX, guessPub
	} else if priv, x, ownPub, err = genKey(info.Kex); err != nil {
		return err
	}
	ecdhSecret := func(theirs []byte) (*big.Int, error) {
		pub, err := curve.NewPublicKey(theirs)
		if err != nil {
			return nil, err
		}
		s, err := priv.ECDH(pub)
		if err != nil {
			return nil, err
		}
		return new(big.Int).SetBytes(s), nil
	}
	if p.cfg.Server {
		pl, _, err := p.ReadRawPacket()
		if err != nil {
			return err
		}
		m := &msgRd{b: pl}
		if m.byte() != MsgKexECDHInit {
			return fmt.Errorf("sshref: expected KEX init message, got %d", pl[0])
		}
		qC = append([]byte(nil), m.str()...)
		if m.err != nil {
			return m.err
		}
		qS = ownPub
		if curve != nil {
			secret, err = ecdhSecret(qC)
		} else {
			secret, err = dhSecret(qC, x)
		}
		if err != nil {
			return err
		}
		pub := p.cfg.HostKey.Public().(ed25519.PublicKey)
		hostBlob = (&msgBuf{}).str([]byte("ssh-ed25519")).str(pub).b
	} else {
		qC = ownPub
		if !guessRight { // a right guess already is the first packet of the exchange
			if err := p.WritePacket((&msgBuf{}).byte(MsgKexECDHInit).str(qC).b); err != nil {
				return err
			}
		}
		pl, _, err := p.ReadRawPacket()
		if err != nil {
			return err
		}
		m := &msgRd{b: pl}
		if m.byte() != MsgKexECDHReply {
			return fmt.Errorf("sshref: expected KEX reply message, got %d", pl[0])
		}
		hostBlob = append([]byte(nil), m.str()...)
		qS = append([]byte(nil), m.str()...)
		sigBlob = append([]byte(nil), m.str()...)
		if m.err != nil {
			return m.err
		}
		if curve != nil {
			secret, err = ecdhSecret(qS)
		} else {
			secret, err = dhSecret(qS, x)
		}
		if err != nil {
			return err
		}
	}
	K := sshref.MPInt(secret)
	h := info.Hash.New()
	hs := func(b []byte) { h.Write(sshref.String(b)) }
	vC, vS := p.ownVersion, p.peerVersion
	if p.cfg.Server {
		vC, vS = p.peerVersion, p.ownVersion
	}
	hs([]byte(vC))
	hs([]byte(vS))
	hs(iC)
	hs(iS)
	hs(hostBlob)
	if curve != nil {
		hs(qC)
		hs(qS)
	} else { // e and f are mpints
		h.Write(sshref.MPInt(new(big.Int).SetBytes(qC)))
		h.Write(sshref.MPInt(new(big.Int).SetBytes(qS)))
	}
	h.Write(K)
	H := h.Sum(nil)
	if p.cfg.Server {
		sig := ed25519.Sign(p.cfg.HostKey, H)
		sigBlob = (&msgBuf{}).str([]byte("ssh-ed25519")).str(sig).b
		if err := p.WritePacket((&msgBuf{}).byte(MsgKexECDHReply).str(hostBlob).str(qS).str(sigBlob).b); err != nil {
			return err
		}
	} else {
		hk := &msgRd{b: hostBlob}
		if string(hk.str()) != "ssh-ed25519" {
			return errors.New("sshref: host key is not ssh-ed25519")
		}
		pub := ed25519.PublicKey(append([]byte(nil), hk.str()...))
		sg := &msgRd{b: sigBlob}
		if string(sg.str()) != "ssh-ed25519" {
			return errors.New("sshref: signature is not ssh-ed25519")
		}
		if hk.err != nil || sg.err != nil || len(pub) != ed25519.PublicKeySize || !ed25519.Verify(pub, H, sg.str()) {
			return errors.New("sshref: host key signature invalid")
		}
		if p.cfg.CheckHostKey != nil {
			if err := p.cfg.CheckHostKey(pub); err != nil {
				return err
			}
		}
	}
	if first {
		p.sessionID = H
	}
	info.K, info.H, info.SessionID = K, H, p.sessionID

	// ---- NEWKEYS: each direction switches right after its NEWKEYS ----
	outC, outM, inC, inM := info.CipherC2S, info.MACC2S, info.CipherS2C, info.MACS2C
	if p.cfg.Server {
		outC, outM, inC, inM = info.CipherS2C, info.MACS2C, info.CipherC2S, info.MACC2S
	}
	if err := p.WritePacket([]byte{sshref.MsgNewKeys}); err != nil {
		return err
	}
	ok, err := sshref.DeriveKeys(info.Hash, K, H, p.sessionID, outC, outM, !p.cfg.Server)
	if err != nil {
		return err
	}
	if p.wr, err = sshref.NewWriterOpts(outC, outM, ok, p.cfg.Opts); err != nil {
		return err
	}
	p.wr.Rand = p.cfg.Rand
	if p.strict {
		p.seqOut = 0
	}
	for {
		pl, _, err := p.ReadRawPacket()
		if err != nil {
			return err
		}
		if len(pl) == 1 && pl[0] == sshref.MsgNewKeys {
			break
		}
		if !p.strict && len(pl) > 0 && (pl[0] == MsgIgnore || pl[0] == MsgDebug) {
			continue
		}
		return fmt.Errorf("sshref: expected NEWKEYS, got message %d", pl[0])
	}
	ik, err := sshref.DeriveKeys(info.Hash, K, H, p.sessionID, inC, inM, p.cfg.Server)
	if err != nil {
		return err
	}
	if p.rd, err = sshref.NewReaderOpts(inC, inM, ik, p.cfg.Opts); err != nil {
		return err
	}
	if p.strict {
		p.seqIn = 0
	}
	p.kexDone++
	p.Kexes = append(p.Kexes, info)
	return nil
}

// ---- minimal upper layers (server role) ----

// Disconnect sends SSH_MSG_DISCONNECT.
func (p *Peer) Disconnect(code uint32, msg string) error {
	return p.WritePacket((&msgBuf{}).byte(MsgDisconnect).u32(code).str([]byte(msg)).str(nil).b)
}

// AcceptAuth (server role) accepts the ssh-userauth service and reports
// success to the first authentication request of any method. It returns the
// user name and method that were accepted.
func (p *Peer) AcceptAuth() (user, method string, err error) {
	pl, err := p.ReadPacket()
	if err != nil {
		return "", "", err
	}
	m := &msgRd{b: pl}
	if m.byte() != MsgServiceRequest || string(m.str()) != "ssh-userauth" {
		return "", "", fmt.Errorf("sshref: expected service request ssh-userauth, got message %d", pl[0])
	}
	if err := p.WritePacket((&msgBuf{}).byte(MsgServiceAccept).str([]byte("ssh-userauth")).b); err != nil {
		return "", "", err
	}
	pl, err = p.ReadPacket()
	if err != nil {
		return "", "", err
	}
	m = &msgRd{b: pl}
	if m.byte() != MsgUserAuthReq {
		return "", "", fmt.Errorf("sshref: expected userauth request, got message %d", pl[0])
	}
	user = string(m.str())
	m.str() // service
	method = string(m.str())
	if m.err != nil {
		return "", "", m.err
	}
	return user, method, p.WritePacket([]byte{MsgUserAuthOK})
}

// ServeExec (server role, after AcceptAuth) serves exactly one "session"
// channel: the first "exec" (or "shell") request is answered with handler's
// output on stdout, EOF, exit-status and channel close. It returns after the
// peer closed the channel or disconnected. Data sent by the peer on the
// channel is collected and returned.
func (p *Peer) ServeExec(handler func(cmd string) (stdout []byte, status uint32)) (stdin []byte, err error) {
	const ownChan = 0
	opened, sentClose := false, false
	for {
		pl, err := p.ReadPacket()
		if err != nil {
			if sentClose {
				return stdin, nil
			}
			return stdin, err
		}
		m := &msgRd{b: pl}
		switch m.byte() {
		case MsgGlobalRequest:
			m.str()
			if m.byte() != 0 {
				if err := p.WritePacket([]byte{MsgRequestFailure}); err != nil {
					return stdin, err
				}
			}
		case MsgChannelOpen:
			typ := string(m.str())
			p.peerChan, p.peerWindow, p.peerMaxPkt = m.u32(), m.u32(), m.u32()
			if typ != "session" || opened {
				p.WritePacket((&msgBuf{}).byte(MsgChannelOpenFail).u32(p.peerChan).u32(1).str([]byte("refused")).str(nil).b)
				continue
			}
			opened = true
			if err := p.WritePacket((&msgBuf{}).byte(MsgChannelOpenOK).u32(p.peerChan).u32(ownChan).u32(1 << 21).u32(32768).b); err != nil {
				return stdin, err
			}
		case MsgChannelRequest:
			m.u32()
			typ := string(m.str())
			want := m.byte() != 0
			if typ != "exec" && typ != "shell" {
				if want {
					p.WritePacket((&msgBuf{}).byte(MsgChannelFailure).u32(p.peerChan).b)
				}
				continue
			}
			cmd := ""
			if typ == "exec" {
				cmd = string(m.str())
			}
			if want {
				p.WritePacket((&msgBuf{}).byte(MsgChannelSuccess).u32(p.peerChan).b)
			}
			out, status := handler(cmd)
			for len(out) > 0 {
				n := len(out)
				if n > int(p.peerMaxPkt) {
					n = int(p.peerMaxPkt)
				}
				if n > int(p.peerWindow) {
					n = int(p.peerWindow) // small outputs only: no window bookkeeping beyond the initial window
				}
				if n == 0 {
					return stdin, errors.New("sshref: peer window exhausted")
				}
				if err := p.WritePacket((&msgBuf{}).byte(MsgChannelData).u32(p.peerChan).str(out[:n]).b); err != nil {
					return stdin, err
				}
				p.peerWindow -= uint32(n)
				out = out[n:]
			}
			p.WritePacket((&msgBuf{}).byte(MsgChannelEOF).u32(p.peerChan).b)
			p.WritePacket((&msgBuf{}).byte(MsgChannelRequest).u32(p.peerChan).str([]byte("exit-status")).bool(false).u32(status).b)
			if err := p.WritePacket((&msgBuf{}).byte(MsgChannelClose).u32(p.peerChan).b); err != nil {
				return stdin, err
			}
			sentClose = true
		case MsgChannelData:
			m.u32()
			stdin = append(stdin, m.str()...)
		case MsgChannelWindow:
			m.u32()
			p.peerWindow += m.u32()
		case MsgChannelEOF:
		case MsgChannelClose:
			if !sentClose {
				p.WritePacket((&msgBuf{}).byte(MsgChannelClose).u32(p.peerChan).b)
			}
			return stdin, nil
		default:
			p.WritePacket((&msgBuf{}).byte(MsgUnimplemented).u32(p.seqIn - 1).b)
		}
	}
}

// ---- minimal upper layers (client role) ----

// RequestAuthNone (client role) requests ssh-userauth and tries the "none"
// method; ok reports SSH_MSG_USERAUTH_SUCCESS.
func (p *Peer) RequestAuthNone(user string) (ok bool, err error) {
	if err := p.WritePacket((&msgBuf{}).byte(MsgServiceRequest).str([]byte("ssh-userauth")).b); err != nil {
		return false, err
	}
	pl, err := p.ReadPacket()
	if err != nil {
		return false, err
	}
	if pl[0] != MsgServiceAccept {
		return false, fmt.Errorf("sshref: expected service accept, got message %d", pl[0])
	}
	req := (&msgBuf{}).byte(MsgUserAuthReq).str([]byte(user)).str([]byte("ssh-connection")).str([]byte("none")).b
	if err := p.WritePacket(req); err != nil {
		return false, err
	}
	for {
		pl, err = p.ReadPacket()
		if err != nil {
			return false, err
		}
		switch pl[0] {
		case MsgUserAuthOK:
			return true, nil
		case MsgUserAuthFail:
			return false, nil
		case 53: // banner
			continue
		}
		return false, fmt.Errorf("sshref: unexpected message %d during authentication", pl[0])
	}
}

// Exec (client role, after successful authentication) opens a session
// channel, runs cmd and returns the collected stdout and exit status.
func (p *Peer) Exec(cmd string, stdin []byte) (stdout []byte, status uint32, err error) {
	const ownChan = 7
	if err = p.WritePacket((&msgBuf{}).byte(MsgChannelOpen).str([]byte("session")).u32(ownChan).u32(1 << 21).u32(32768).b); err != nil {
		return
	}
	status = ^uint32(0)
	opened := false
	for {
		var pl []byte
		pl, err = p.ReadPacket()
		if err != nil {
			return
		}
		m := &msgRd{b: pl}
		switch m.byte() {
		case MsgChannelOpenOK:
			m.u32()
			p.peerChan, p.peerWindow, p.peerMaxPkt = m.u32(), m.u32(), m.u32()
			opened = true
			if err = p.WritePacket((&msgBuf{}).byte(MsgChannelRequest).u32(p.peerChan).str([]byte("exec")).bool(true).str([]byte(cmd)).b); err != nil {
				return
			}
			if len(stdin) > 0 {
				if err = p.WritePacket((&msgBuf{}).byte(MsgChannelData).u32(p.peerChan).str(stdin).b); err != nil {
					return
				}
			}
			if err = p.WritePacket((&msgBuf{}).byte(MsgChannelEOF).u32(p.peerChan).b); err != nil {
				return
			}
		case MsgChannelOpenFail:
			return nil, status, errors.New("sshref: channel open refused")
		case MsgChannelData:
			m.u32()
			stdout = append(stdout, m.str()...)
		case MsgChannelExtData:
		case MsgChannelRequest:
			m.u32()
			typ := string(m.str())
			want := m.byte() != 0
			if typ == "exit-status" {
				status = m.u32()
			}
			if want {
				p.WritePacket((&msgBuf{}).byte(MsgChannelFailure).u32(p.peerChan).b)
			}
		case MsgChannelClose:
			if opened {
				p.WritePacket((&msgBuf{}).byte(MsgChannelClose).u32(p.peerChan).b)
			}
			return stdout, status, nil
		case MsgGlobalRequest:
			m.str()
			if m.byte() != 0 {
				p.WritePacket([]byte{MsgRequestFailure})
			}
		case MsgChannelSuccess, MsgChannelFailure, MsgChannelWindow, MsgChannelEOF:
		default:
		}
	}
}

// Package sshstrict holds the C30 check (strict KEX / Terrapin): a
// man-in-the-middle on the byte stream between two real x/crypto/ssh
// endpoints, an offline wire decoder built on verif/sshref, and a non-strict
// reference peer.
package sshstrict

import (
	"io"
	"net"
	"sync"
	"sync/atomic"
	"time"
)

// A buffered in-memory full-duplex byte stream (never net.Pipe: two SSH
// endpoints both write their version line first). Writes never block; reads
// park on a sync.Cond. No netpoller and no timers are involved, so in a
// goroutine dump every party of the closed system is visible and "nobody can
// make progress any more" is decidable.

// activity counts every successful Write and every Close of every duplex in
// the process; the stall detector uses it only to decide when to look.
var activity atomic.Int64

type halfBuf struct {
	mu     sync.Mutex
	cond   *sync.Cond
	data   []byte
	closed bool
}

func newHalf() *halfBuf {
	h := &halfBuf{}
	h.cond = sync.NewCond(&h.mu)
	return h
}

type duplexEnd struct {
	rd, wr *halfBuf
	name   string
}

// newDuplex returns the two ends of one connection.
func newDuplex(nameA, nameB string) (a, b *duplexEnd) {
	x, y := newHalf(), newHalf()
	return &duplexEnd{rd: x, wr: y, name: nameA}, &duplexEnd{rd: y, wr: x, name: nameB}
}

func (d *duplexEnd) Read(p []byte) (int, error) {
	h := d.rd
	h.mu.Lock()
	defer h.mu.Unlock()
	for len(h.data) == 0 && !h.closed {
		h.cond.Wait()
	}
	if len(h.data) == 0 {
		return 0, io.EOF
	}
	n := copy(p, h.data)
	h.data = h.data[n:]
	if len(h.data) == 0 {
		h.data = nil
	}
	return n, nil
}

func (d *duplexEnd) Write(p []byte) (int, error) {
	h := d.wr
	h.mu.Lock()
	defer h.mu.Unlock()
	if h.closed {
		return 0, io.ErrClosedPipe
	}
	h.data = append(h.data, p...)
	activity.Add(1)
	h.cond.Broadcast()
	return len(p), nil
}

// Close ends both directions: the other end reads what is buffered and then
// EOF, its writes fail; local reads return EOF at once.
func (d *duplexEnd) Close() error {
	for _, h := range []*halfBuf{d.rd, d.wr} {
		h.mu.Lock()
		h.closed = true
		if h == d.rd {
			h.data = nil
		}
		h.cond.Broadcast()
		h.mu.Unlock()
	}
	activity.Add(1)
	return nil
}

type duplexAddr string

func (a duplexAddr) Network() string { return "mem" }
func (a duplexAddr) String() string  { return string(a) }

func (d *duplexEnd) LocalAddr() net.Addr                { return duplexAddr(d.name) }
func (d *duplexEnd) RemoteAddr() net.Addr               { return duplexAddr("peer-of-" + d.name) }
func (d *duplexEnd) SetDeadline(t time.Time) error      { return nil }
func (d *duplexEnd) SetReadDeadline(t time.Time) error  { return nil }
func (d *duplexEnd) SetWriteDeadline(t time.Time) error { return nil }

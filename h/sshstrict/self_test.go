package sshstrict

import (
	"bytes"
	"crypto"
	"crypto/rand"
	"fmt"
	"testing"

	"verif/sshref"
)

// Unit tests of the harness parts themselves (not checks).

func TestFramePlain(t *testing.T) {
	rd, _ := sshref.NewReader("none", "none", sshref.Keys{})
	for n := 1; n < 70; n++ {
		pl := bytes.Repeat([]byte{byte(n)}, n)
		f := framePlain(pl)
		if len(f)%8 != 0 || f[4] < 4 {
			t.Fatalf("payload %d: frame %d bytes, padding %d", n, len(f), f[4])
		}
		frame, got, err := readPlain(bytes.NewReader(f))
		if err != nil || !bytes.Equal(got, pl) || !bytes.Equal(frame, f) {
			t.Fatalf("payload %d: readPlain %v", n, err)
		}
		info, err := rd.ReadPacket(uint32(n), bytes.NewReader(f)) // the independent packet layer accepts it
		if err != nil || !bytes.Equal(info.Payload, pl) {
			t.Fatalf("payload %d: sshref rejects the frame: %v", n, err)
		}
	}
}

// feed sends a version line and plaintext packets through a mitm and returns
// what arrives on the other side.
func feed(t *testing.T, ed edit, types []byte) (forwarded []byte, after []byte) {
	cE, cM := newDuplex("a", "ma")
	sM, sE := newDuplex("mb", "b")
	x := newMITM(cM, sM, ed)
	src, dst := cE, sE
	if ed.dir == dirS2C {
		src, dst = sE, cE
	}
	src.Write([]byte("SSH-2.0-x\r\n"))
	for _, ty := range types {
		src.Write(framePlain([]byte{ty, 1, 2, 3}))
	}
	src.Write([]byte("PROTECTED"))
	src.Close()
	var line [11]byte
	if _, err := dst.Read(line[:]); err != nil {
		t.Fatal(err)
	}
	var all []byte
	buf := make([]byte, 4096)
	for {
		n, err := dst.Read(buf)
		all = append(all, buf[:n]...)
		if err != nil {
			break
		}
	}
	x.stop()
	r := bytes.NewReader(all)
	for r.Len() > len("PROTECTED") {
		_, pl, err := readPlain(r)
		if err != nil {
			t.Fatalf("forwarded stream does not parse: %v", err)
		}
		forwarded = append(forwarded, pl[0])
	}
	after = all[len(all)-r.Len():]
	return
}

func TestMITMEdits(t *testing.T) {
	seq := []byte{20, 30, 21}
	for dir := 0; dir < 2; dir++ {
		for _, c := range []struct {
			ed   edit
			want []byte
		}{
			{edit{}, []byte{20, 30, 21}},
			{edit{dir: dir, op: opInject, pos: 0, pkt: []byte{2, 0}}, []byte{2, 20, 30, 21}},
			{edit{dir: dir, op: opInject, pos: 1, pkt: []byte{4, 0}}, []byte{20, 4, 30, 21}},
			{edit{dir: dir, op: opInject, pos: 2, pkt: []byte{3, 0}}, []byte{20, 30, 3, 21}},
			{edit{dir: dir, op: opDelete, pos: 0}, []byte{30, 21}},
			{edit{dir: dir, op: opDelete, pos: 1}, []byte{20, 21}},
			{edit{dir: dir, op: opDelete, pos: 2}, []byte{20, 30}},
			{edit{dir: dir, op: opDup, pos: 0}, []byte{20, 20, 30, 21}},
			{edit{dir: dir, op: opDup, pos: 1}, []byte{20, 30, 30, 21}},
			{edit{dir: dir, op: opSwap, pos: 0}, []byte{30, 20, 21}},
			{edit{dir: dir, op: opSwap, pos: 1}, []byte{20, 21, 30}},
		} {
			got, after := feed(t, c.ed, seq)
			if !bytes.Equal(got, c.want) || string(after) != "PROTECTED" {
				t.Errorf("dir %d %s@%d: forwarded %v want %v, tail %q", dir, opName[c.ed.op], c.ed.pos, got, c.want, after)
			}
		}
	}
}

// The wire decoder must tell a restarted from a continued sequence number
// (and say "both" for AES-GCM, which does not use it).
func TestDecodeWireHypotheses(t *testing.T) {
	K := []byte{0, 0, 0, 4, 1, 2, 3, 4}
	H := bytes.Repeat([]byte{7}, 32)
	for _, su := range append(append([]suite(nil), quickSuites...), moreSuites...) {
		for _, reset := range []bool{true, false} {
			for dir := 0; dir < 2; dir++ {
				kk := kexKeys{Hash: crypto.SHA256, K: K, H: H, SessionID: H, Cipher: [2]string{su.Cipher, su.Cipher}, MAC: [2]string{su.MAC, su.MAC}}
				var stream bytes.Buffer
				w, _ := sshref.NewWriter("none", "none", sshref.Keys{})
				w.Rand = rand.Reader
				seq := uint32(0)
				put := func(pl []byte) {
					if err := w.WritePacket(seq, &stream, pl, -1); err != nil {
						t.Fatal(err)
					}
					seq++
				}
				put([]byte{20, 9, 9})
				put([]byte{30, 9})
				for round := 0; round < 3; round++ {
					put([]byte{21})
					keys, err := sshref.DeriveKeys(kk.Hash, kk.K, kk.H, kk.SessionID, su.Cipher, su.MAC, dir == dirC2S)
					if err != nil {
						t.Fatal(err)
					}
					if w, err = sshref.NewWriter(su.Cipher, su.MAC, keys); err != nil {
						t.Fatal(err)
					}
					w.Rand = rand.Reader
					if reset {
						seq = 0
					}
					put([]byte{5, 1, 2, 3})
					put([]byte{20, 1})
					put([]byte{30, 1})
				}
				res := decodeWire(stream.Bytes(), dir, []kexKeys{kk, kk, kk})
				want := "cont"
				if reset {
					want = "zero"
				}
				if !seqMatters(su.Cipher) {
					want = "both"
				}
				if res.Err != nil || len(res.Follows) != 3 || len(res.Pkts) != 14 {
					t.Fatalf("%s reset=%v dir=%d: err %v, %d follows, %d packets", su, reset, dir, res.Err, len(res.Follows), len(res.Pkts))
				}
				for _, f := range res.Follows {
					if f.Verdict != want {
						t.Errorf("%s reset=%v dir=%d: NEWKEYS #%d verdict %s want %s (%s / %s)", su, reset, dir, f.Index, f.Verdict, want, f.ErrZero, f.ErrCont)
					}
				}
				// a capture cut in the middle of the packet after NEWKEYS is "absent", never a verdict
				b := stream.Bytes()
				cut := decodeWire(b[:len(b)-10], dir, []kexKeys{kk, kk, kk})
				if cut.Err != nil {
					t.Errorf("%s: truncated capture gives error %v", su, cut.Err)
				}
			}
		}
	}
}

// The adapted Peer copy still interoperates with the package it was copied
// from, in both roles, with and without strict KEX, including re-exchanges.
func TestPeerCopyAgainstSshref(t *testing.T) {
	for i, kex := range []string{"curve25519-sha256", "ecdh-sha2-nistp256", "diffie-hellman-group14-sha256"} {
		for _, noStrict := range []bool{false, true} {
			for _, copyIsServer := range []bool{false, true} {
				su := quickSuites[i%len(quickSuites)]
				a, b := newDuplex("a", "b")
				errc := make(chan error, 1)
				var cl interface {
					Handshake() error
					RequestAuthNone(string) (bool, error)
					Rekey() error
					Exec(string, []byte) ([]byte, uint32, error)
				}
				strictSeen := false
				macs := []string(nil)
				if su.MAC != "" {
					macs = []string{su.MAC}
				}
				if copyIsServer {
					sv := NewPeer(b, PeerConfig{Server: true, HostKey: hostKeyPriv(), Kex: []string{kex}, Ciphers: []string{su.Cipher}, MACs: macs, NoStrict: noStrict})
					go func() {
						if err := sv.Handshake(); err != nil {
							errc <- err
							return
						}
						strictSeen = sv.Kexes[0].Strict
						if _, _, err := sv.AcceptAuth(); err != nil {
							errc <- err
							return
						}
						_, err := sv.ServeExec(peerHandler)
						errc <- err
					}()
					cl = sshref.NewPeer(a, sshref.PeerConfig{})
				} else {
					sv := sshref.NewPeer(b, sshref.PeerConfig{Server: true, HostKey: hostKeyPriv(), Kex: []string{kex}, Ciphers: []string{su.Cipher}, MACs: macs})
					go func() {
						if err := sv.Handshake(); err != nil {
							errc <- err
							return
						}
						strictSeen = sv.Kexes[0].Strict
						if _, _, err := sv.AcceptAuth(); err != nil {
							errc <- err
							return
						}
						_, err := sv.ServeExec(peerHandler)
						errc <- err
					}()
					cl = NewPeer(a, PeerConfig{NoStrict: noStrict})
				}
				name := fmt.Sprintf("%s %s noStrict=%v copyIsServer=%v", kex, su, noStrict, copyIsServer)
				if err := cl.Handshake(); err != nil {
					t.Fatalf("%s: %v", name, err)
				}
				if ok, err := cl.RequestAuthNone("u"); err != nil || !ok {
					t.Fatalf("%s: auth %v %v", name, ok, err)
				}
				if err := cl.Rekey(); err != nil {
					t.Fatalf("%s: rekey %v", name, err)
				}
				out, st, err := cl.Exec("small", nil)
				if err != nil || checkOut("small", out, st) != nil {
					t.Fatalf("%s: exec %v", name, err)
				}
				a.Close()
				if err := <-errc; err != nil {
					t.Fatalf("%s: server %v", name, err)
				}
				if strictSeen == noStrict {
					t.Fatalf("%s: strict negotiated = %v", name, strictSeen)
				}
			}
		}
	}
}

// Smoke tests of the two session drivers against the unchanged library.
func TestDriversSmoke(t *testing.T) {
	for _, f := range allFamilies {
		g := startGoGo(f.Name, quickSuites[0], 0, edit{}, true)
		types, _, _, _ := g.x.snapshot()
		if g.cliErr != nil || g.srvErr != nil || g.stalled || len(types[0]) != f.L || len(types[1]) != f.L {
			t.Errorf("%s: %v %v stalled=%v %v %v", f.Name, g.cliErr, g.srvErr, g.stalled, typeNames(types[0]), typeNames(types[1]))
		}
		g.finish()
	}
	g := startGoGo("curve25519-sha256", quickSuites[0], 0, edit{dir: dirS2C, op: opDelete, pos: 0}, true)
	if !g.stalled || g.cliErr == nil || g.srvErr == nil {
		t.Errorf("deleting the server's KEXINIT: stalled=%v %v %v", g.stalled, g.cliErr, g.srvErr)
	}
	g.finish()
	for _, role := range []string{"peer-client", "peer-server"} {
		for _, su := range quickSuites {
			pr := runPeer(role, "curve25519-sha256", su, false, injection{pos: -1})
			if pr.goErr != nil || pr.goRunErr != nil || pr.peerErr != nil || pr.stalled || len(pr.peer.Kexes) != 3 || pr.peer.Kexes[0].Strict {
				t.Errorf("%s %s: go %v/%v peer %v at %s, stalled %v, %d exchanges", role, su, pr.goErr, pr.goRunErr, pr.peerErr, pr.peerStep, pr.stalled, len(pr.peer.Kexes))
			}
		}
	}
}

// first_kex_packet_follows variants of the Peer against the unchanged library.
func TestGuessModesSmoke(t *testing.T) {
	for _, role := range []string{"peer-client", "peer-server"} {
		for _, strict := range []bool{true, false} {
			for _, g := range guessModes {
				pr := runPeerX(role, "curve25519-sha256", quickSuites[1], strict, injection{pos: -1}, g, edit{})
				types, _, _, _ := pr.x.snapshot()
				t.Logf("%s strict=%v follows=%s: go %v/%v peer %v at %s stalled=%v kexes=%d sent=%d plaintext=%v", role, strict, g, pr.goErr, pr.goRunErr, pr.peerErr, pr.peerStep, pr.stalled, len(pr.peer.Kexes), len(pr.peer.Sent), typeNames(types[peerToGoDir(role)]))
				if pr.goErr != nil || pr.goRunErr != nil || pr.peerErr != nil || pr.stalled || len(pr.peer.Kexes) != 3 || pr.peer.Kexes[0].Strict != strict {
					t.Errorf("%s strict=%v follows=%s failed", role, strict, g)
				}
			}
		}
	}
}

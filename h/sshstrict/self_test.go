package sshstrict

import (
	"testing"
)

func TestBaselineProbe(t *testing.T) {
	for _, kex := range []string{"curve25519-sha256", "ecdh-sha2-nistp256", "diffie-hellman-group14-sha256", "diffie-hellman-group-exchange-sha256", "mlkem768x25519-sha256"} {
		g := startGoGo(kex, suite{"aes128-ctr", "hmac-sha2-256"}, 0, edit{}, true)
		types, fwd, capt, _ := g.x.snapshot()
		t.Logf("%s: cli=%v srv=%v stalled=%v c2s=%v s2c=%v fwd=%v cap=%d/%d", kex, g.cliErr, g.srvErr, g.stalled, typeNames(types[0]), typeNames(types[1]), fwd, len(capt[0]), len(capt[1]))
		g.finish()
	}
	// a deletion that must stall
	g := startGoGo("curve25519-sha256", suite{"aes128-ctr", "hmac-sha2-256"}, 0, edit{dir: dirS2C, op: opDelete, pos: 0}, true)
	t.Logf("delete s2c KEXINIT: cli=%v srv=%v stalled=%v giveup=%q", g.cliErr, g.srvErr, g.stalled, g.giveUp)
	g.finish()
	pk, _ := kindPacket("IGNORE", []byte("x"))
	g = startGoGo("curve25519-sha256", suite{"aes128-ctr", "hmac-sha2-256"}, 0, edit{dir: dirS2C, op: opInject, pos: 1, pkt: pk}, true)
	t.Logf("inject: cli=%v srv=%v stalled=%v giveup=%q", g.cliErr, g.srvErr, g.stalled, g.giveUp)
	g.finish()
}

func TestPeerProbe(t *testing.T) {
	for _, role := range []string{"peer-client", "peer-server"} {
		for _, su := range []suite{{"aes128-ctr", "hmac-sha2-256"}, {"chacha20-poly1305@openssh.com", ""}, {"aes128-gcm@openssh.com", ""}, {"aes256-ctr", "hmac-sha2-512-etm@openssh.com"}} {
			pr := runPeer(role, "curve25519-sha256", su, injection{pos: -1})
			t.Logf("%s %s: goErr=%v goRun=%v peerErr=%v step=%s/%s stalled=%v kexes=%d sent=%v recv=%d", role, su, pr.goErr, pr.goRunErr, pr.peerErr, pr.peerStep, pr.goStep, pr.stalled, len(pr.peer.Kexes), typeNames(pr.peer.Sent), len(pr.peer.Recv))
			ts := pr.tap.snap()
			t.Logf("   tap: writes=%d reads=%d nkW=%d nkR=%d readErrs=%v", len(ts.writes), len(ts.reads), ts.nkW, ts.nkR, ts.readErrs)
		}
	}
	pk, _ := kindPacket("IGNORE", []byte("x"))
	for pos := 0; pos < 4; pos++ {
		pr := runPeer("peer-client", "curve25519-sha256", suite{"aes128-ctr", "hmac-sha2-256"}, injection{pos: pos, pkt: pk})
		t.Logf("inject %d: goErr=%v peerErr=%v step=%s stalled=%v kexes=%d", pos, pr.goErr, pr.peerErr, pr.peerStep, pr.stalled, len(pr.peer.Kexes))
	}
}

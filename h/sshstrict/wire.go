package sshstrict

import (
	"bytes"
	"crypto"
	"errors"
	"fmt"
	"io"

	"verif/sshref"
)

// Offline decoding of one direction of a captured connection with verif/sshref
// (an SSH packet layer that shares no code with x/crypto): after every
// SSH_MSG_NEWKEYS the keys of that exchange are derived per RFC 4253 §7.2 and
// the NEXT packet is tried under both hypotheses about the sequence number —
// restarted at 0 (strict KEX) and continued (RFC 4253 §6.4). Whichever
// verifies its MAC/tag is what was on the wire.

// kexKeys is the outcome of one key exchange as observed at an endpoint.
type kexKeys struct {
	Hash            crypto.Hash
	K, H, SessionID []byte
	Cipher, MAC     [2]string // per direction
}

type wirePkt struct {
	Seq     uint32
	Payload []byte
}

// follow says what was found right after one NEWKEYS.
type follow struct {
	Index    int    // 0 = first NEWKEYS of the direction
	Cont     uint32 // what the sequence number would be if it kept counting
	Verdict  string // "zero", "cont", "both" (cipher does not use the number), "absent" (capture ends), "none", "nokeys"
	Cipher   string
	ErrZero  string
	ErrCont  string
	NextType int
}

type wireResult struct {
	Pkts     []wirePkt
	Follows  []follow
	Err      error // decoding stopped for a reason other than the end of the capture
	Trailing int   // undecoded bytes at the end (incomplete last packet)
}

func isShort(err error) bool {
	return errors.Is(err, io.ErrUnexpectedEOF) || errors.Is(err, io.EOF)
}

// decodeWire decodes stream (everything after the identification line of
// direction dir). kex[i] must describe the i-th key exchange.
func decodeWire(stream []byte, dir int, kex []kexKeys) wireResult {
	var res wireResult
	rd, _ := sshref.NewReader("none", "none", sshref.Keys{})
	seq := uint32(0)
	off := 0
	nk := 0
	for off < len(stream) {
		info, err := rd.ReadPacket(seq, bytes.NewReader(stream[off:]))
		if err != nil {
			if isShort(err) {
				res.Trailing = len(stream) - off
				return res
			}
			res.Err = fmt.Errorf("packet %d (seq %d) at offset %d: %w", len(res.Pkts), seq, off, err)
			return res
		}
		off += info.Total
		res.Pkts = append(res.Pkts, wirePkt{seq, info.Payload})
		seq++
		if len(info.Payload) == 0 || info.Payload[0] != msgNewKeys {
			continue
		}
		// key change
		f := follow{Index: nk, Cont: seq, NextType: -1}
		if nk >= len(kex) {
			f.Verdict = "nokeys"
			res.Follows = append(res.Follows, f)
			res.Trailing = len(stream) - off
			return res
		}
		k := kex[nk]
		nk++
		f.Cipher = k.Cipher[dir]
		keys, err := sshref.DeriveKeys(k.Hash, k.K, k.H, k.SessionID, k.Cipher[dir], k.MAC[dir], dir == dirC2S)
		if err != nil {
			res.Err = fmt.Errorf("key derivation for exchange %d: %w", nk-1, err)
			return res
		}
		if off >= len(stream) {
			f.Verdict = "absent"
			res.Follows = append(res.Follows, f)
			// keep a reader so that a later call could continue; nothing follows
			return res
		}
		try := func(s uint32) (*sshref.Reader, sshref.PacketInfo, error) {
			r, err := sshref.NewReader(k.Cipher[dir], k.MAC[dir], keys)
			if err != nil {
				return nil, sshref.PacketInfo{}, err
			}
			info, err := r.ReadPacket(s, bytes.NewReader(stream[off:]))
			return r, info, err
		}
		rz, iz, ez := try(0)
		rc, ic, ec := try(f.Cont)
		if ez != nil {
			f.ErrZero = ez.Error()
		}
		if ec != nil {
			f.ErrCont = ec.Error()
		}
		switch {
		case ez == nil && ec == nil:
			f.Verdict = "both"
			rd, info, seq = rz, iz, 0 // which number is unknowable; continue with either (unused by the cipher)
		case ez == nil:
			f.Verdict = "zero"
			rd, info, seq = rz, iz, 0
		case ec == nil:
			f.Verdict = "cont"
			rd, info, seq = rc, ic, f.Cont
		case isShort(ez) || isShort(ec):
			f.Verdict = "absent"
			res.Follows = append(res.Follows, f)
			res.Trailing = len(stream) - off
			return res
		default:
			f.Verdict = "none"
			res.Follows = append(res.Follows, f)
			res.Err = fmt.Errorf("packet after NEWKEYS #%d verifies under neither sequence number (0: %v; %d: %v)", f.Index, ez, f.Cont, ec)
			return res
		}
		if len(info.Payload) > 0 {
			f.NextType = int(info.Payload[0])
		}
		res.Follows = append(res.Follows, f)
		off += info.Total
		res.Pkts = append(res.Pkts, wirePkt{seq, info.Payload})
		seq++
		if len(info.Payload) > 0 && info.Payload[0] == msgNewKeys {
			res.Err = errors.New("NEWKEYS directly after NEWKEYS")
			return res
		}
	}
	return res
}

package sshstrict

import (
	"bytes"
	"fmt"
	"io"
	"math/rand/v2"
	"strings"
	"testing"

	"golang.org/x/crypto/ssh"
	"verif/mon"
)

// C30: strict KEX (Terrapin). See the Rule text in TestC30.

type family struct {
	Name  string
	Short string
	L     int // plaintext packets per direction up to and including NEWKEYS
}

var allFamilies = []family{
	{"curve25519-sha256", "curve25519", 3},
	{"ecdh-sha2-nistp256", "nistp256", 3},
	{"diffie-hellman-group14-sha256", "dh14", 3},
	{"diffie-hellman-group-exchange-sha256", "dhgex", 4},
	{"mlkem768x25519-sha256", "mlkem768x25519", 3},
}

var quickSuites = []suite{
	{"aes128-ctr", "hmac-sha2-256"},
	{"chacha20-poly1305@openssh.com", ""},
	{"aes128-gcm@openssh.com", ""},
	{"aes256-ctr", "hmac-sha2-512-etm@openssh.com"},
}

var moreSuites = []suite{
	{"aes192-ctr", "hmac-sha1"},
	{"aes256-gcm@openssh.com", ""},
	{"aes128-ctr", "hmac-sha2-256-etm@openssh.com"},
}

func seqMatters(cipher string) bool { return !strings.Contains(cipher, "gcm") }

var quickKinds = []string{"IGNORE", "DEBUG", "UNIMPLEMENTED", "UNKNOWN192"}
var thoroughKinds = []string{"IGNORE", "DEBUG", "UNIMPLEMENTED", "UNKNOWN192", "EXTINFO", "SERVICEREQ", "UNASSIGNED", "KEXINIT-GARBAGE", "NEWKEYS"}

type tamperCase struct {
	fam    family
	ed     edit
	kind   string // inject only
	tapped bool
	rep    int
}

// tampersPerDirection is the closed form of the enumeration below for one
// direction of a family with L plaintext packets and nk injection kinds
// (NEWKEYS, when among the kinds, is not injected directly before NEWKEYS).
func tampersPerDirection(L, nk, reps int, withNewKeysKind bool) int {
	n := nk * L * reps
	if withNewKeysKind {
		n -= reps
	}
	return n + (L - 1) + L + (L - 1)
}

func buildTamperCases(fams []family, kinds []string, reps int, tapped bool) []tamperCase {
	var l []tamperCase
	for _, f := range fams {
		for dir := 0; dir < 2; dir++ {
			for _, k := range kinds {
				for pos := 0; pos < f.L; pos++ {
					if k == "NEWKEYS" && pos == f.L-1 {
						// a forged NEWKEYS directly before the genuine one is indistinguishable from
						// the genuine one followed by garbage in protected territory: out of scope
						continue
					}
					for rep := 0; rep < reps; rep++ {
						l = append(l, tamperCase{f, edit{dir: dir, op: opInject, pos: pos}, k, tapped, rep})
					}
				}
			}
			for pos := 0; pos < f.L-1; pos++ {
				l = append(l, tamperCase{f, edit{dir: dir, op: opDup, pos: pos}, "", tapped, 0})
			}
			for pos := 0; pos < f.L; pos++ {
				l = append(l, tamperCase{f, edit{dir: dir, op: opDelete, pos: pos}, "", tapped, 0})
			}
			for pos := 0; pos < f.L-1; pos++ {
				l = append(l, tamperCase{f, edit{dir: dir, op: opSwap, pos: pos}, "", tapped, 0})
			}
		}
	}
	return l
}

func errClass(err error) string {
	if err == nil {
		return "nil"
	}
	s := err.Error()
	for _, k := range []string{"first packet should be msgKexInit", "sequence number != 1", "unexpected message type", "bogus newkeys",
		"EOF", "closed pipe", "invalid packet length", "packet too large", "MAC failure", "message authentication", "unmarshal", "parse"} {
		if strings.Contains(s, k) {
			return k
		}
	}
	return "other"
}

func kexIndexName(i int) string {
	if i == 0 {
		return "initial"
	}
	return "rekey"
}

func TestC30(t *testing.T) {
	m := mon.New(t, "C30")
	defer m.Done()
	m.Rule("Part A (strict, Go<->Go, both always offer kex-strict): per key exchange family the undisturbed plaintext packet sequence of each direction up to and including the first NEWKEYS is recorded (baseline must complete); then every single edit of that sequence is executed by a man-in-the-middle on the byte stream: injection of each packet kind (IGNORE, DEBUG, UNIMPLEMENTED, type 192 with random body; thorough: also EXT_INFO, SERVICE_REQUEST, unassigned numbers, a garbage KEXINIT, early NEWKEYS, 4 random bodies each, and for curve25519 and dh-gex every message number 1..255) before every packet 0..NEWKEYS, deletion of every packet, duplication of every packet before NEWKEYS, every adjacent swap — both directions, tapped constructors for all families plus the public NewClientConn/NewServerConn. Alarm only if the endpoint receiving the edited direction accepts the key exchange (reads NEWKEYS without error; not judged when NEWKEYS itself was deleted, because ciphertext with a clear length field can be misread as NEWKEYS) or its constructor succeeds; failing and freezing (goroutine dumps identical, nobody runnable) are both legal. " +
		"Part B (strict): per family x cipher suite a tapped connection with RekeyThreshold 1024 moves data until >= 2 re-exchanges completed; the packet after every NEWKEYS must carry sequence number 0 in the tap (written and read, both endpoints) and on the wire (captured bytes decoded by verif/sshref with keys derived from the tapped K/H/session id; the packet after NEWKEYS is tried with 0 and with the continued number; AES-GCM does not use the number and is counted as unobservable). " +
		"Part C (strict mode not negotiated): an independent non-strict Peer plays client against a Go server and server against a Go client (first kex, auth, 3 execs, one Peer-initiated and one Go-initiated re-exchange) and injects IGNORE / DEBUG before every one of its own packets (plaintext phase, first protected packet, authentication, channel traffic, inside re-exchanges): the session must complete with correct outputs, Go must not answer UNIMPLEMENTED, sequence numbers must keep counting (Peer's own MAC verification, wire decode, tap). UNIMPLEMENTED is injected at every position too and only recorded. Part D: the same Peer offering strict KEX (it restarts its own counters at 0) in both roles x families x suites must complete the same story with a Go endpoint, and Go's packet after every NEWKEYS must verify with 0 only; IGNORE/DEBUG from the strict peer after the first exchange are recorded, not judged. Part E: the Peer with first_kex_packet_follows (false / right guess / wrong guess by kex / wrong guess by host key algorithm; Go itself never sets the flag), both roles, strict and not, flag also in both re-exchanges: undisturbed sessions must complete (a wrong guess discarded exactly once, a right guess used); strict: every single edit (4 injection kinds at every position incl. KEXINIT|guessed and guessed|real, deletions, duplications, swaps) of the Peer's plaintext packets by the MITM must keep the Go side from accepting; non-strict: IGNORE/DEBUG sent by the Peer before every packet of its story must be tolerated. A case is distinct by (family, direction/role, edit, kind, position).")
	m.Assume("the tap (ssh.VerifTap, build tag verif) reports the transport's counters faithfully; verif/sshref (packet protection, RFC 4253 key derivation; validated by its own tests against OpenSSH) and the Peer copied from it are correct; the in-memory duplex and the MITM relay bytes faithfully (undisturbed baselines through the same MITM must complete)")

	fams := allFamilies
	suites := quickSuites
	kinds := quickKinds
	reps := 1
	if m.Thorough() {
		suites = append(append([]suite(nil), quickSuites...), moreSuites...)
		kinds = thoroughKinds
		reps = 4
	}

	// ---------------- Part A: baselines ----------------
	baseTypes := map[string][2][]byte{}
	baseOK := map[string]bool{}
	for _, f := range fams {
		g := startGoGo(f.Name, suites[0], 0, edit{}, true)
		types, _, _, _ := g.x.snapshot()
		ok := g.cliErr == nil && g.srvErr == nil && !g.stalled && g.giveUp == ""
		g.finish()
		m.Eval()
		if !ok {
			m.Inconclusive(fmt.Sprintf("baseline %s did not complete: client %v, server %v, stalled %v %s", f.Name, g.cliErr, g.srvErr, g.stalled, g.giveUp))
			continue
		}
		if len(types[0]) != f.L || len(types[1]) != f.L || types[0][0] != msgKexInit || types[1][0] != msgKexInit ||
			types[0][f.L-1] != msgNewKeys || types[1][f.L-1] != msgNewKeys {
			m.Inconclusive(fmt.Sprintf("baseline %s: recorded sequences %v / %v differ from the %d packets per direction the enumeration assumes", f.Name, typeNames(types[0]), typeNames(types[1]), f.L))
			continue
		}
		baseTypes[f.Name] = types
		baseOK[f.Name] = true
		m.Count("baseline_completed:"+f.Short, 1)
		if m.Batch() == 0 {
			m.Sample(map[string]any{"baseline": f.Name, "c2s": typeNames(types[0]), "s2c": typeNames(types[1])})
		}
	}
	for _, f := range fams {
		m.Gate("baseline_completed:"+f.Short, 1, "undisturbed handshake through the MITM completed for this family")
	}

	// ---------------- Part A: tamper enumeration ----------------
	cases := buildTamperCases(fams, kinds, reps, true)
	untappedFams := fams[:1]
	if m.Thorough() {
		untappedFams = fams
	}
	cases = append(cases, buildTamperCases(untappedFams, quickKinds, 1, false)...)
	if m.Thorough() {
		// "arbitrary packets": every message number 1..255 with a random body at every position, two families
		for _, f := range []family{allFamilies[0], allFamilies[3]} {
			for dir := 0; dir < 2; dir++ {
				for pos := 0; pos < f.L; pos++ {
					for t := 1; t < 256; t++ {
						if t == msgNewKeys && pos == f.L-1 {
							continue
						}
						cases = append(cases, tamperCase{f, edit{dir: dir, op: opInject, pos: pos}, fmt.Sprintf("TYPE%d", t), true, 0})
					}
				}
			}
		}
	}
	posName := func(f family, dir, pos int) string {
		return msgName(baseTypes[f.Name][dir][pos])
	}
	m.Cases("tamper", len(cases), func(i int64, r *rand.Rand) {
		c := cases[i]
		if !baseOK[c.fam.Name] {
			return
		}
		ed := c.ed
		where := ""
		switch ed.op {
		case opInject:
			body := mon.Bytes(r, r.IntN(40))
			if c.kind == "UNKNOWN192" || c.kind == "UNASSIGNED" {
				body = mon.Bytes(r, 1+r.IntN(60))
			}
			pkt, err := kindPacket(c.kind, body)
			if err != nil {
				panic(err)
			}
			ed.pkt = pkt
			where = "before-" + posName(c.fam, ed.dir, ed.pos)
		case opSwap:
			where = posName(c.fam, ed.dir, ed.pos) + "<>" + posName(c.fam, ed.dir, ed.pos+1)
		default:
			where = posName(c.fam, ed.dir, ed.pos)
		}
		su := suites[int(i)%len(suites)]
		g := startGoGo(c.fam.Name, su, 0, ed, c.tapped)
		types, fwd, _, applied := g.x.snapshot()
		recvErr, recvTap, recvName := g.srvErr, g.tapS, "server"
		if ed.dir == dirS2C {
			recvErr, recvTap, recvName = g.cliErr, g.tapC, "client"
		}
		_, nkR := recvTap.counts()
		g.finish()
		m.Eval()
		api := "tapped"
		if !c.tapped {
			api = "public"
		}
		opk := opName[ed.op]
		if c.kind != "" {
			opk += ":" + c.kind
		}
		m.Distinct(fmt.Sprintf("%s %s %s %s %s", c.fam.Short, dirName[ed.dir], opk, where, api))
		m.Count("tamper_executed", 1)
		m.Count("tamper_executed:"+api+":"+c.fam.Short, 1)
		m.Count("tamper_op:"+opName[ed.op], 1)
		if !applied {
			m.Count("edit_withheld_only:"+opName[ed.op], 1) // a swap whose second packet causally depends on the first: the MITM just withholds
		}
		if g.giveUp != "" {
			m.Inconclusive(fmt.Sprintf("tamper case %d (%s %s %s %s): %s", i, c.fam.Short, dirName[ed.dir], opk, where, g.giveUp))
			return
		}
		detail := map[string]any{"family": c.fam.Name, "suite": su.String(), "direction": dirName[ed.dir], "edit": opk, "position": ed.pos, "where": where,
			"injected_payload": mon.FullHex(ed.pkt), "sent_by_source": typeNames(types[ed.dir]), "forwarded": typeNames(fwd[ed.dir]), "receiver": recvName,
			"receiver_err": errStr(recvErr), "client_err": errStr(g.cliErr), "server_err": errStr(g.srvErr), "stalled": g.stalled, "api": api,
			"receiver_read_NEWKEYS_ok": nkR}
		key := fmt.Sprintf("strict-handshake-completed-after:%s:%s:%s", dirName[ed.dir], opk, where)
		switch {
		case recvErr == nil:
			m.Count("outcome:completed", 1)
			m.Violation(key, detail)
		case c.tapped && nkR > 0 && ed.op == opDelete && ed.pos == c.fam.L-1:
			// NEWKEYS itself was deleted: what the receiver then parses as plaintext is the sender's
			// protected data; with a cipher whose length field is in clear (AES-GCM, EtM MACs) the
			// first ciphertext byte reads as message number 21 once in 256 times. Indistinguishable
			// for the receiver from the genuine NEWKEYS followed by garbage; the connection fails
			// at the next packet (recvErr != nil here). Recorded, not a verdict.
			m.Count("outcome:failed", 1)
			m.Count("ciphertext_misread_as_NEWKEYS_after_deleting_NEWKEYS(then failed)", 1)
		case c.tapped && nkR > 0:
			m.Count("outcome:kex-accepted-then-failed", 1)
			m.Violation(key, detail)
		case g.stalled:
			m.Count("outcome:froze(legal)", 1)
			m.Count("froze:"+opName[ed.op], 1)
			if ed.op == opInject || ed.op == opDup {
				detail["dump"] = trimTo(g.dump, 12000)
				m.Note(fmt.Sprintf("DIAG unexpected freeze: %v", detail))
			}
		default:
			m.Count("outcome:failed", 1)
			m.Count("receiver_error:"+errClass(recvErr), 1)
		}
		if i%37 == 5 {
			m.Sample(detail)
		}
	})
	nkQuick := len(quickKinds)
	for _, f := range fams {
		m.Gate("tamper_executed:tapped:"+f.Short, 2*tampersPerDirection(f.L, nkQuick, 1, false),
			"every position x kind x direction (inject, delete, duplicate, swap) executed for this family")
	}
	m.Gate("tamper_executed:public:"+fams[0].Short, 2*tampersPerDirection(fams[0].L, nkQuick, 1, false), "same enumeration through ssh.NewClientConn/NewServerConn")

	// ---------------- Part B: sequence numbers restart after every NEWKEYS ----------------
	type seqCase struct {
		fam family
		su  suite
		rep int
	}
	var seqCases []seqCase
	for rep := 0; rep < reps; rep++ {
		for _, f := range fams {
			for _, su := range suites {
				seqCases = append(seqCases, seqCase{f, su, rep})
			}
		}
	}
	m.Cases("seq", len(seqCases), func(i int64, r *rand.Rand) {
		c := seqCases[i]
		g := startGoGo(c.fam.Name, c.su, 1024, edit{}, true)
		label := c.fam.Short + " " + c.su.String()
		m.Eval()
		m.Distinct("seq " + label)
		workErr := ""
		if g.cliErr == nil && g.srvErr == nil {
			done := make(chan struct{}, 1)
			go func() {
				defer func() { done <- struct{}{} }()
				ch, rq, err := g.cliConn.OpenChannel("echo", nil)
				if err != nil {
					workErr = "open: " + err.Error()
					return
				}
				go ssh.DiscardRequests(rq)
				pingpong := func() bool {
					out := mon.Bytes(r, 700)
					if _, err := ch.Write(out); err != nil {
						workErr = "write: " + err.Error()
						return false
					}
					in := make([]byte, len(out))
					if _, err := io.ReadFull(ch, in); err != nil {
						workErr = "read: " + err.Error()
						return false
					}
					if !bytes.Equal(in, out) {
						workErr = "echo differs"
						return false
					}
					return true
				}
				for round := 1; round <= 2; round++ {
					// 2100 bytes each way: both sides cross RekeyThreshold 1024 and request a
					// re-exchange; then park (no clock) until both directions of both
					// endpoints have seen the NEWKEYS of that re-exchange
					for k := 0; k < 3; k++ {
						if !pingpong() {
							return
						}
					}
					g.tapC.waitNewKeys(1 + round)
					g.tapS.waitNewKeys(1 + round)
				}
				for k := 0; k < 2; k++ { // packets after the last NEWKEYS in both directions
					if !pingpong() {
						return
					}
				}
				ch.Close()
			}()
			_, stalled, _, giveUp := await(1, done)
			if stalled || giveUp != "" {
				workErr = fmt.Sprintf("workload did not finish (frozen=%v %s)", stalled, giveUp)
				g.finish()
				<-done
			}
		} else {
			workErr = fmt.Sprintf("handshake failed: client %v, server %v, stalled %v", g.cliErr, g.srvErr, g.stalled)
		}
		tc, ts := g.tapC.snap(), g.tapS.snap()
		_, _, capt, _ := g.x.snapshot()
		g.finish()
		if workErr != "" {
			// not a verdict by itself (the property is about the numbers); the analyses below say why
			m.Count("seq_connection_failed", 1)
			m.Note("seq connection " + label + ": " + workErr)
		}
		analyzeSeq(m, label, true, tc, ts, capt)
		if workErr == "" && tc.nkW >= 3 && tc.nkR >= 3 && ts.nkW >= 3 && ts.nkR >= 3 {
			m.Count("seq_conn_with_2_rekeys", 1)
			m.Count("seq_conn_with_2_rekeys:"+c.fam.Short, 1)
		} else if workErr == "" {
			m.Inconclusive(fmt.Sprintf("seq connection %s: only %d/%d/%d/%d NEWKEYS", label, tc.nkW, tc.nkR, ts.nkW, ts.nkR))
		} else {
			m.Inconclusive("seq connection " + label + " failed: " + workErr)
		}
	})
	for _, f := range fams {
		m.Gate("seq_conn_with_2_rekeys:"+f.Short, len(quickSuites), "connections of this family that completed the first key exchange and two re-exchanges")
	}
	nonGCM := 0
	for _, su := range quickSuites {
		if seqMatters(su.Cipher) {
			nonGCM++
		}
	}
	m.Gate("strict_wire_zero:initial", 2*nonGCM*len(fams), "packet after the first NEWKEYS verified on the wire with sequence number 0 only")
	m.Gate("strict_wire_zero:rekey", 4*nonGCM*len(fams), "packet after a re-exchange NEWKEYS verified on the wire with sequence number 0 only")
	m.Gate("strict_tap_zero:write", 6*len(quickSuites)*len(fams), "tap: packet written after NEWKEYS has sequence number 0")
	m.Gate("strict_tap_zero:read", 6*len(quickSuites)*len(fams), "tap: packet read after NEWKEYS has sequence number 0")

	// ---------------- Part C: strict mode not negotiated ----------------
	type nsFam struct {
		fam   family
		kinds []string
	}
	nsFams := []nsFam{{allFamilies[0], []string{"IGNORE", "DEBUG", "UNIMPLEMENTED"}}, {allFamilies[1], []string{"IGNORE", "DEBUG"}}}
	nsReps := 1
	if m.Thorough() {
		nsFams = []nsFam{{allFamilies[0], []string{"IGNORE", "DEBUG", "UNIMPLEMENTED"}}, {allFamilies[1], []string{"IGNORE", "DEBUG", "UNIMPLEMENTED"}}, {allFamilies[2], []string{"IGNORE", "DEBUG", "UNIMPLEMENTED"}}}
		nsReps = 4
	}
	roles := []string{"peer-client", "peer-server"}
	// regular packets the Peer sends in the story: 3 per key exchange (3 exchanges) plus
	// client: SERVICE_REQUEST, USERAUTH_REQUEST, 3 x (OPEN, REQUEST, EOF, CLOSE), DISCONNECT
	// server: SERVICE_ACCEPT, USERAUTH_SUCCESS, 3 x (OPEN_CONFIRMATION, SUCCESS, DATA, EOF, exit-status, CLOSE)
	storyLen := map[string]int{"peer-client": 24, "peer-server": 29}
	nsBaseOK := map[string]bool{}
	for _, role := range roles {
		for _, nf := range nsFams {
			pr := runPeer(role, nf.fam.Name, suites[0], false, injection{pos: -1})
			m.Eval()
			ok := pr.goErr == nil && pr.goRunErr == nil && pr.peerErr == nil && !pr.stalled && pr.giveUp == "" && len(pr.peer.Kexes) >= 3
			if !ok {
				m.Inconclusive(fmt.Sprintf("non-strict baseline %s %s failed: go %v / %v, peer %v at %s, stalled %v, %d exchanges", role, nf.fam.Short, pr.goErr, pr.goRunErr, pr.peerErr, pr.peerStep, pr.stalled, len(pr.peer.Kexes)))
				// the sequence number analysis still says whether the numbers are the reason
				analyzePeerSeq(m, role+" "+nf.fam.Short+" baseline", pr)
				continue
			}
			if len(pr.peer.Sent) != storyLen[role] {
				m.Inconclusive(fmt.Sprintf("non-strict baseline %s %s: the Peer sent %d regular packets, the enumeration assumes %d: %v", role, nf.fam.Short, len(pr.peer.Sent), storyLen[role], typeNames(pr.peer.Sent)))
				continue
			}
			if pr.peer.Kexes[0].Strict {
				m.Inconclusive("non-strict baseline negotiated strict mode")
				continue
			}
			nsBaseOK[role+nf.fam.Name] = true
			m.Count("nonstrict_baseline_completed:"+role, 1)
			analyzePeerSeq(m, role+" "+nf.fam.Short+" baseline", pr)
			if m.Batch() == 0 && nf.fam.Short == "curve25519" {
				m.Sample(map[string]any{"nonstrict_baseline": role, "peer_sent": typeNames(pr.peer.Sent)})
			}
		}
	}
	type nsCase struct {
		role string
		fam  family
		kind string
		pos  int
		rep  int
	}
	var nsCases []nsCase
	for rep := 0; rep < nsReps; rep++ {
		for _, role := range roles {
			for _, nf := range nsFams {
				for _, k := range nf.kinds {
					for pos := 0; pos < storyLen[role]; pos++ {
						nsCases = append(nsCases, nsCase{role, nf.fam, k, pos, rep})
					}
				}
			}
		}
	}
	m.Cases("nonstrict", len(nsCases), func(i int64, r *rand.Rand) {
		c := nsCases[i]
		if !nsBaseOK[c.role+c.fam.Name] {
			return
		}
		su := suites[(c.pos+int(i)+c.rep)%len(suites)]
		pkt, err := kindPacket(c.kind, mon.Bytes(r, r.IntN(40)))
		if err != nil {
			panic(err)
		}
		pr := runPeer(c.role, c.fam.Name, su, false, injection{pos: c.pos, pkt: pkt})
		m.Eval()
		if pr.giveUp != "" {
			m.Inconclusive(fmt.Sprintf("non-strict case %d: %s", i, pr.giveUp))
			return
		}
		if pr.injectedN < 0 {
			m.Count("nonstrict_position_not_reached", 1)
		}
		phase := peerPhase(pr)
		before := "end"
		if pr.injectedN >= 0 {
			before = msgName(pr.injTyp)
		}
		m.Distinct(fmt.Sprintf("nonstrict %s %s %s pos%d before-%s %s", c.role, c.fam.Short, c.kind, c.pos, before, phase))
		ok := pr.goErr == nil && pr.goRunErr == nil && pr.peerErr == nil && !pr.stalled
		detail := map[string]any{"role": c.role, "family": c.fam.Name, "suite": su.String(), "kind": c.kind, "injected_payload": mon.FullHex(pkt),
			"position": c.pos, "before": before, "phase": phase, "go_constructor_err": errStr(pr.goErr), "go_story_err": errStr(pr.goRunErr), "go_step": pr.goStep,
			"peer_err": errStr(pr.peerErr), "peer_step": pr.peerStep, "frozen": pr.stalled, "peer_sent": typeNames(pr.peer.Sent), "peer_received": typeNames(pr.peer.Recv),
			"exchanges": len(pr.peer.Kexes)}
		if pr.abandoned {
			m.Count("nonstrict_party_blocked_after_close:"+c.kind, 1)
			detail["party_blocked_after_all_connections_closed"] = true
		}
		if c.kind == "UNIMPLEMENTED" {
			// recorded, not judged
			out := "worked"
			if !ok {
				out = "ended-connection"
			}
			m.Count("nonstrict_UNIMPLEMENTED:"+phase+":"+out, 1)
			return
		}
		if pr.injectedN >= 0 {
			m.Count("nonstrict_injected:"+c.role+":"+c.kind, 1)
			m.Count("nonstrict_phase:"+phase, 1)
		}
		if !ok {
			k := "nonstrict-" + c.kind + "-not-skipped:" + c.role + ":" + phase
			if pr.stalled {
				k = "nonstrict-" + c.kind + "-froze-connection:" + c.role + ":" + phase
				detail["dump"] = trimTo(pr.dump, 6000)
			}
			m.Violation(k, detail)
			analyzePeerSeq(m, fmt.Sprintf("%s %s %s@%d", c.role, c.fam.Short, c.kind, c.pos), pr)
			return
		}
		if bytes.IndexByte(pr.peer.Recv, msgUnimplemented) >= 0 {
			m.Violation("nonstrict-"+c.kind+"-answered-UNIMPLEMENTED:"+c.role+":"+phase, detail)
		}
		if len(pr.peer.Kexes) >= 3 {
			m.Count("nonstrict_sessions_with_2_rekeys", 1)
		}
		m.Count("nonstrict_sessions_ok", 1)
		analyzePeerSeq(m, fmt.Sprintf("%s %s %s@%d", c.role, c.fam.Short, c.kind, c.pos), pr)
		if i%41 == 7 {
			m.Sample(detail)
		}
	})
	for _, role := range roles {
		m.Gate("nonstrict_baseline_completed:"+role, 2, "undisturbed non-strict sessions completed in this role")
		for _, k := range []string{"IGNORE", "DEBUG"} {
			m.Gate("nonstrict_injected:"+role+":"+k, 2*storyLen[role], "injection before every regular packet of the Peer, two families")
		}
	}
	for _, ph := range []string{"initial-kex-plaintext", "right-after-NEWKEYS", "session", "re-exchange"} {
		m.Gate("nonstrict_phase:"+ph, 8, "IGNORE/DEBUG injected in this phase")
	}
	m.Gate("nonstrict_sessions_with_2_rekeys", 2*2*(24+29), "injected sessions that went through first kex and two re-exchanges")
	m.Gate("nonstrict_wire_cont:initial", 50, "Go's packet after its first NEWKEYS verified on the wire with the continued sequence number only")
	m.Gate("nonstrict_wire_cont:rekey", 100, "Go's packet after a re-exchange NEWKEYS verified on the wire with the continued sequence number only")
	m.Gate("nonstrict_tap_cont:write", 300, "tap: Go's sequence number keeps counting after a written NEWKEYS")
	m.Gate("nonstrict_tap_cont:read", 300, "tap: Go's sequence number keeps counting after a read NEWKEYS")

	// ---------------- Part D: the independent Peer WITH strict KEX ----------------
	// (a) the restart at 0 as an independent implementation counts it: complete sessions with
	// three key exchanges in both roles; (b) recorded only: IGNORE/DEBUG from a strict peer after
	// the first key exchange (the property does not say what must happen to them).
	type sdCase struct {
		role string
		fam  family
		su   suite
		kind string // "" = no injection
		pos  int
	}
	var sdCases []sdCase
	for _, role := range roles {
		for _, nf := range nsFams {
			for _, su := range suites {
				sdCases = append(sdCases, sdCase{role, nf.fam, su, "", -1})
			}
		}
		for _, k := range []string{"IGNORE", "DEBUG"} {
			for pos := 3; pos < storyLen[role]; pos++ {
				sdCases = append(sdCases, sdCase{role, allFamilies[0], suites[pos%len(suites)], k, pos})
			}
		}
	}
	m.Cases("strict-peer", len(sdCases), func(i int64, r *rand.Rand) {
		c := sdCases[i]
		inj := injection{pos: -1}
		if c.kind != "" {
			pkt, err := kindPacket(c.kind, mon.Bytes(r, r.IntN(40)))
			if err != nil {
				panic(err)
			}
			inj = injection{pos: c.pos, pkt: pkt}
		}
		pr := runPeer(c.role, c.fam.Name, c.su, true, inj)
		m.Eval()
		if pr.giveUp != "" {
			m.Inconclusive(fmt.Sprintf("strict peer case %d: %s", i, pr.giveUp))
			return
		}
		ok := pr.goErr == nil && pr.goRunErr == nil && pr.peerErr == nil && !pr.stalled
		label := fmt.Sprintf("strict-peer %s %s %s", c.role, c.fam.Short, c.su)
		if c.kind != "" {
			out := "worked"
			if !ok {
				out = "ended-connection"
			}
			m.Distinct(fmt.Sprintf("strict-peer %s %s pos%d %s", c.role, c.kind, c.pos, peerPhase(pr)))
			m.Count("strict_peer_"+c.kind+"_after_first_kex:"+peerPhase(pr)+":"+out, 1)
			return
		}
		m.Distinct(label)
		analyzePeerSeq(m, label, pr)
		if ok && len(pr.peer.Kexes) >= 3 && pr.peer.Kexes[0].Strict {
			m.Count("strict_peer_sessions_ok", 1)
			m.Count("strict_peer_sessions_ok:"+c.role, 1)
		} else {
			// why is for the analysis above to say (a missing restart is a violation there)
			m.Inconclusive(fmt.Sprintf("%s did not complete: go %v / %v, peer %v at %s, frozen %v, %d exchanges", label, pr.goErr, pr.goRunErr, pr.peerErr, pr.peerStep, pr.stalled, len(pr.peer.Kexes)))
		}
	})
	for _, role := range roles {
		m.Gate("strict_peer_sessions_ok:"+role, 2*len(quickSuites), "complete sessions (3 key exchanges) between a Go endpoint and the independent peer that restarts its own counters at 0")
	}
	m.Gate("strict_peer_wire_zero:rekey", 2*2*2*3, "Go's packet after a re-exchange NEWKEYS verified on the wire with sequence number 0 only (keys computed by the independent peer)")

	// ---------------- Part E: first_kex_packet_follows (c30_follows_test.go) ----------------
	partFollows(m, suites, roles)
}

func trimTo(s string, n int) string {
	if len(s) > n {
		return s[:n] + "…"
	}
	return s
}

// peerPhase classifies where in the Peer's own packet sequence the injection
// was made.
func peerPhase(pr *peerRun) string {
	if pr.injectedN < 0 {
		return "none"
	}
	sent := pr.peer.Sent
	n := pr.injectedN
	if n > len(sent) {
		n = len(sent)
	}
	nk, open := 0, false
	for _, t := range sent[:n] {
		switch t {
		case msgKexInit:
			open = true
		case msgNewKeys:
			nk++
			open = false
		}
	}
	switch {
	case nk == 0:
		return "initial-kex-plaintext"
	case open || pr.injTyp == msgKexInit:
		return "re-exchange"
	case n > 0 && sent[n-1] == msgNewKeys:
		return "right-after-NEWKEYS"
	}
	return "session"
}

func kexKeysFromTap(k []kexObs) []kexKeys {
	var l []kexKeys
	for _, o := range k { // o.Algs as seen by the client: Write = c2s
		l = append(l, kexKeys{Hash: o.Res.Hash, K: o.Res.K, H: o.Res.H, SessionID: o.Res.SessionID,
			Cipher: [2]string{o.Algs.Write.Cipher, o.Algs.Read.Cipher}, MAC: [2]string{o.Algs.Write.MAC, o.Algs.Read.MAC}})
	}
	return l
}

// analyzeSeq judges the sequence numbers of one strict Go<->Go connection.
func analyzeSeq(m *mon.M, label string, strict bool, tc, ts tapSnap, capt [2][]byte) {
	// tap
	for _, side := range []struct {
		name string
		s    tapSnap
	}{{"client", tc}, {"server", ts}} {
		for _, rw := range []struct {
			name string
			evs  []tapEv
		}{{"write", side.s.writes}, {"read", side.s.reads}} {
			nk := 0
			for j, ev := range rw.evs {
				if j == 0 || len(rw.evs[j-1].Payload) == 0 || rw.evs[j-1].Payload[0] != msgNewKeys {
					continue
				}
				idx := nk
				nk++
				if ev.Seq == 0 {
					if ev.Err == "" {
						m.Count("strict_tap_zero:"+rw.name, 1)
					}
					continue
				}
				next := "read attempt failed: " + ev.Err
				if ev.Err == "" {
					next = msgName(ev.Payload[0])
				}
				m.Violation(fmt.Sprintf("strict-seq-not-reset-after-NEWKEYS:tap:%s-%s:%s", side.name, rw.name, kexIndexName(idx)),
					map[string]any{"connection": label, "endpoint": side.name, "operation": rw.name, "newkeys_index": idx,
						"sequence_number_of_next_packet": ev.Seq, "next_packet": next})
			}
		}
	}
	// wire
	if len(tc.kex) == 0 {
		m.Count("strict_wire_skipped_no_kex", 1)
		return
	}
	keys := kexKeysFromTap(tc.kex)
	for j := range keys {
		if j < len(ts.kex) && (!bytes.Equal(ts.kex[j].Res.K, keys[j].K) || !bytes.Equal(ts.kex[j].Res.H, keys[j].H)) {
			m.Inconclusive("seq " + label + ": client and server taps disagree about K/H")
			return
		}
	}
	for dir := 0; dir < 2; dir++ {
		res := decodeWire(capt[dir], dir, keys)
		for _, f := range res.Follows {
			switch f.Verdict {
			case "zero":
				m.Count("strict_wire_zero:"+kexIndexName(f.Index), 1)
			case "both":
				m.Count("strict_wire_number_unused_by_cipher", 1)
			case "cont":
				m.Violation(fmt.Sprintf("strict-seq-not-reset-after-NEWKEYS:wire:%s:%s", dirName[dir], kexIndexName(f.Index)),
					map[string]any{"connection": label, "direction": dirName[dir], "newkeys_index": f.Index, "cipher": f.Cipher,
						"verifies_with_sequence_number": f.Cont, "with_0": f.ErrZero, "next_packet_type": f.NextType})
			case "absent", "nokeys":
				m.Count("strict_wire_capture_ends_after_newkeys", 1)
			case "none":
				m.Inconclusive(fmt.Sprintf("seq %s %s: packet after NEWKEYS #%d verifies under neither number (0: %s; %d: %s)", label, dirName[dir], f.Index, f.ErrZero, f.Cont, f.ErrCont))
			}
		}
		if res.Err != nil && (len(res.Follows) == 0 || res.Follows[len(res.Follows)-1].Verdict != "none") {
			m.Inconclusive(fmt.Sprintf("seq %s %s: wire decode stopped: %v", label, dirName[dir], res.Err))
			continue
		}
		// the tap's counter must agree with the number each packet verified under
		w := tc.writes
		if dir == dirS2C {
			w = ts.writes
		}
		unused := false
		for _, f := range res.Follows {
			if f.Verdict == "both" {
				unused = true
			}
		}
		n := len(w)
		if len(res.Pkts) < n {
			n = len(res.Pkts)
		}
		for j := 0; j < n; j++ {
			if !bytes.Equal(w[j].Payload, res.Pkts[j].Payload) || (!unused && w[j].Seq != res.Pkts[j].Seq) {
				m.Inconclusive(fmt.Sprintf("seq %s %s: tap and wire disagree at packet %d: tap (seq %d, %s) wire (seq %d, %s)", label, dirName[dir], j,
					w[j].Seq, msgName(w[j].Payload[0]), res.Pkts[j].Seq, msgName(res.Pkts[j].Payload[0])))
				break
			}
			m.Count("strict_tap_wire_packets_agree", 1)
		}
	}
}

// analyzePeerSeq judges the sequence numbers of one session between the Peer
// and a Go endpoint: without strict KEX they must keep counting across every
// NEWKEYS, with strict KEX (pr.strict) they must restart at 0.
func analyzePeerSeq(m *mon.M, label string, pr *peerRun) {
	ts := pr.tap.snap()
	goSide := "server"
	goDir := dirS2C // direction written by the Go endpoint
	if pr.role == "peer-server" {
		goSide, goDir = "client", dirC2S
	}
	for _, rw := range []struct {
		name string
		evs  []tapEv
	}{{"write", ts.writes}, {"read", ts.reads}} {
		nk := 0
		for j, ev := range rw.evs {
			if j == 0 || len(rw.evs[j-1].Payload) == 0 || rw.evs[j-1].Payload[0] != msgNewKeys {
				continue
			}
			idx := nk
			nk++
			prev := rw.evs[j-1].Seq
			if pr.strict {
				switch {
				case ev.Seq == 0 && ev.Err == "":
					m.Count("strict_peer_tap_zero:"+rw.name, 1)
				case ev.Seq != 0:
					m.Violation(fmt.Sprintf("strict-seq-not-reset-after-NEWKEYS:tap:%s-%s:%s", goSide, rw.name, kexIndexName(idx)),
						map[string]any{"session": label, "other_end": "independent strict peer", "endpoint": goSide, "operation": rw.name, "newkeys_index": idx,
							"sequence_number_of_next_packet": ev.Seq, "next_read_error": ev.Err})
				}
				continue
			}
			switch {
			case ev.Err != "" && ev.Seq != 0:
				// the connection ended here; the attempt was made with a continued number
			case ev.Seq > prev && ev.Seq-prev <= 2: // reads: at most the one injected packet was skipped in between
				m.Count("nonstrict_tap_cont:"+rw.name, 1)
			case ev.Seq == 0:
				m.Violation(fmt.Sprintf("nonstrict-seq-reset-after-NEWKEYS:tap:go-%s:%s", rw.name, kexIndexName(idx)),
					map[string]any{"session": label, "operation": rw.name, "newkeys_index": idx, "newkeys_sequence_number": prev, "next_sequence_number": ev.Seq, "next_read_error": ev.Err})
			default:
				m.Inconclusive(fmt.Sprintf("non-strict %s: tap %s sequence number went from %d (NEWKEYS) to %d", label, rw.name, prev, ev.Seq))
			}
		}
	}
	// wire, with the keys the Peer computed itself
	var keys []kexKeys
	for _, k := range pr.peer.Kexes {
		keys = append(keys, kexKeys{Hash: k.Hash, K: k.K, H: k.H, SessionID: k.SessionID,
			Cipher: [2]string{k.CipherC2S, k.CipherS2C}, MAC: [2]string{k.MACC2S, k.MACS2C}})
	}
	_, _, capt, _ := pr.x.snapshot()
	res := decodeWire(capt[goDir], goDir, keys)
	mode, good, bad := "nonstrict", "cont", "zero"
	if pr.strict {
		mode, good, bad = "strict_peer", "zero", "cont"
	}
	for _, f := range res.Follows {
		switch f.Verdict {
		case good:
			m.Count(mode+"_wire_"+good+":"+kexIndexName(f.Index), 1)
		case "both":
			m.Count(mode+"_wire_number_unused_by_cipher", 1)
		case bad:
			if pr.strict {
				m.Violation(fmt.Sprintf("strict-seq-not-reset-after-NEWKEYS:wire:%s:%s", dirName[goDir], kexIndexName(f.Index)),
					map[string]any{"session": label, "other_end": "independent strict peer", "newkeys_index": f.Index, "cipher": f.Cipher, "verifies_with_sequence_number": f.Cont, "with_0": f.ErrZero})
			} else {
				m.Violation(fmt.Sprintf("nonstrict-seq-reset-after-NEWKEYS:wire:go-write:%s", kexIndexName(f.Index)),
					map[string]any{"session": label, "newkeys_index": f.Index, "cipher": f.Cipher, "verifies_with": 0, "with_continued_number": f.ErrCont, "continued_number": f.Cont})
			}
		case "none":
			m.Inconclusive(fmt.Sprintf("%s %s: Go's packet after NEWKEYS #%d verifies under neither number (0: %s; %d: %s)", mode, label, f.Index, f.ErrZero, f.Cont, f.ErrCont))
		}
	}
	if res.Err != nil && (len(res.Follows) == 0 || res.Follows[len(res.Follows)-1].Verdict != "none") {
		m.Inconclusive(fmt.Sprintf("%s %s: wire decode of Go's direction stopped: %v", mode, label, res.Err))
	}
}

package sshstrict

import (
	"bytes"
	"errors"
	"fmt"

	"golang.org/x/crypto/ssh"
)

// Sessions between the independent Peer (npeer.go; non-strict unless asked otherwise) and one real
// x/crypto/ssh endpoint, through a passive mitm that only captures.
//
// Both roles run the same story: first key exchange, authentication "none",
// exec "small", a re-exchange initiated by the Peer, exec "big" (4500 bytes of
// output, which pushes the Go side over its 2048-byte RekeyThreshold so that
// the Go side initiates a re-exchange as well), exec "small2", disconnect.

const peerGoRekeyThreshold = 2048

type peerRun struct {
	role      string // "peer-client" (Go is the server) or "peer-server" (Go is the client)
	peer      *Peer
	tap       *tapRec
	x         *mitm
	goErr     error // Go constructor
	goRunErr  error // Go-side story (peer-server role)
	peerErr   error // Peer-side story
	peerStep  string
	goStep    string
	stalled   bool
	giveUp    string
	dump      string
	injectedN int // index of the regular packet before which the injection was made (-1: none)
	injTyp    byte
	strict    bool // the Peer offers strict KEX
	abandoned bool // a party stayed blocked after all connections were closed
}

type injection struct {
	pos int // before the pos-th regular outgoing packet of the Peer; <0: none
	pkt []byte
}

func checkOut(cmd string, out []byte, status uint32) error {
	if !bytes.Equal(out, outputFor(cmd)) {
		return fmt.Errorf("exec %q: output %d bytes differs from the %d expected", cmd, len(out), len(outputFor(cmd)))
	}
	if status != 0 {
		return fmt.Errorf("exec %q: exit status %d", cmd, status)
	}
	return nil
}

func peerHandler(cmd string) ([]byte, uint32) { return outputFor(cmd), 0 }

// runPeer runs one session. role selects which side the Peer plays.
func runPeer(role, kex string, su suite, strict bool, inj injection) *peerRun {
	return runPeerX(role, kex, su, strict, inj, "none", edit{})
}

// guessModes are the first_kex_packet_follows variants of the Peer:
// "none" (flag false), "right" (flag true, both sides prefer the same kex and
// host key algorithm, so the guessed packet is used), "wrong-kex" (flag true,
// the Peer's first kex algorithm is one the Go side does not offer) and
// "wrong-hostkey" (flag true, the Peer's first host key algorithm differs);
// in the wrong cases the Go side has to discard exactly one packet.
var guessModes = []string{"none", "right", "wrong-kex", "wrong-hostkey"}

func otherKex(kex string) string {
	if kex == "curve25519-sha256" {
		return "ecdh-sha2-nistp256"
	}
	return "curve25519-sha256"
}

// peerToGoDir is the MITM direction that carries the Peer's packets.
func peerToGoDir(role string) int {
	if role == "peer-client" {
		return dirC2S
	}
	return dirS2C
}

// runPeerX is runPeer with a first_kex_packet_follows mode for the Peer and an
// edit the MITM performs (plaintext phase of the edit's direction).
func runPeerX(role, kex string, su suite, strict bool, inj injection, guess string, ed edit) *peerRun {
	pr := &peerRun{role: role, strict: strict, tap: newTapRec(), injectedN: -1}
	pE, mP := newDuplex("peer", "mitm-p")
	mG, gE := newDuplex("mitm-g", "go")
	pcfg := PeerConfig{Kex: []string{kex}, Ciphers: []string{su.Cipher}, NoStrict: !strict}
	if su.MAC != "" {
		pcfg.MACs = []string{su.MAC}
	}
	switch guess {
	case "right":
		pcfg.Follows = true
	case "wrong-kex":
		pcfg.Follows, pcfg.ServerGuess = true, true
		pcfg.Kex = []string{otherKex(kex), kex}
	case "wrong-hostkey":
		pcfg.Follows, pcfg.ServerGuess = true, true
		pcfg.HostKeyAlgos = []string{"rsa-sha2-512", "ssh-ed25519"}
	}
	done := make(chan struct{}, 2)
	var goConn ssh.Conn
	if role == "peer-client" {
		pr.x = newMITM(mP, mG, ed)
	} else {
		pcfg.Server = true
		pcfg.HostKey = hostKeyPriv()
		pr.x = newMITM(mG, mP, ed)
	}
	p := NewPeer(pE, pcfg)
	pr.peer = p
	if inj.pos >= 0 {
		p.Hook = func(n int, typ byte) {
			if n == inj.pos {
				pr.injectedN, pr.injTyp = n, typ
				p.Inject(inj.pkt)
			}
		}
	}
	step := func(s string) { pr.peerStep = s }
	if role == "peer-client" {
		scfg := &ssh.ServerConfig{Config: goConfig(kex, su, peerGoRekeyThreshold), NoClientAuth: true}
		scfg.AddHostKey(hostSigner())
		go func() {
			defer func() { done <- struct{}{} }()
			sc, chans, reqs, err := ssh.VerifNewServerConn(gE, scfg, pr.tap.tap())
			pr.goErr = err
			if err == nil {
				goConn = sc
				go serveGo(chans, reqs)
			}
		}()
		go func() {
			defer func() { done <- struct{}{} }()
			pr.peerErr = func() error {
				step("handshake")
				if err := p.Handshake(); err != nil {
					return err
				}
				step("auth")
				ok, err := p.RequestAuthNone("u")
				if err != nil {
					return err
				}
				if !ok {
					return errors.New("authentication none refused")
				}
				for i, cmd := range []string{"small", "big", "small2"} {
					if i == 1 {
						step("peer-rekey")
						if err := p.Rekey(); err != nil {
							return err
						}
					}
					step("exec-" + cmd)
					out, st, err := p.Exec(cmd, nil)
					if err != nil {
						return err
					}
					if err := checkOut(cmd, out, st); err != nil {
						return err
					}
					if i == 1 {
						// the Go side crossed its RekeyThreshold while answering and has
						// requested a re-exchange; wait for it (no clock involved)
						step("await-go-rekey")
						if err := p.AwaitKex(3); err != nil {
							return err
						}
					}
				}
				step("disconnect")
				return p.Disconnect(11, "bye")
			}()
		}()
	} else {
		ccfg := &ssh.ClientConfig{Config: goConfig(kex, su, peerGoRekeyThreshold), User: "u", HostKeyCallback: ssh.FixedHostKey(hostSigner().PublicKey()),
			HostKeyAlgorithms: []string{"ssh-ed25519"}}
		go func() {
			defer func() { done <- struct{}{} }()
			c, chans, reqs, err := ssh.VerifNewClientConn(gE, "mem", ccfg, pr.tap.tap())
			pr.goErr = err
			if err != nil {
				return
			}
			goConn = c
			cl := ssh.NewClient(c, chans, reqs)
			pr.goRunErr = func() error {
				for _, cmd := range []string{"small", "big", "small2"} {
					pr.goStep = "exec-" + cmd
					s, err := cl.NewSession()
					if err != nil {
						return err
					}
					out, err := s.Output(cmd)
					if err != nil {
						return err
					}
					if err := checkOut(cmd, out, 0); err != nil {
						return err
					}
				}
				pr.goStep = "close"
				return nil
			}()
			cl.Close()
		}()
		go func() {
			defer func() { done <- struct{}{} }()
			pr.peerErr = func() error {
				step("handshake")
				if err := p.Handshake(); err != nil {
					return err
				}
				step("auth")
				if _, _, err := p.AcceptAuth(); err != nil {
					return err
				}
				for i, cmd := range []string{"small", "big", "small2"} {
					if i == 1 {
						step("peer-rekey")
						if err := p.Rekey(); err != nil {
							return err
						}
					}
					step("serve-" + cmd)
					if _, err := p.ServeExec(peerHandler); err != nil {
						return err
					}
					if i == 1 {
						step("await-go-rekey")
						if err := p.AwaitKex(3); err != nil {
							return err
						}
					}
				}
				step("done")
				return nil
			}()
		}()
	}
	var got int
	got, pr.stalled, pr.dump, pr.giveUp = await(2, done)
	pr.x.stop()
	pE.Close()
	gE.Close()
	if got < 2 {
		// everything is closed now; a party that still does not return is blocked for good
		// (frozen again) and is left behind
		g2, frozen, _, _ := await(2-got, done)
		if g2 < 2-got {
			pr.abandoned = true
			if !frozen {
				pr.giveUp = "a party neither returned nor froze after everything was closed"
			}
		}
	}
	if goConn != nil {
		goConn.Close()
	}
	return pr
}

package sshstrict

import (
	"bytes"
	"fmt"
	"math/rand/v2"

	"verif/mon"
)

// Part E of C30: first_kex_packet_follows (RFC 4253 section 7).
//
// Go never sets the flag, so only the independent Peer can: in both roles, with
// the flag false / true with a right guess / true with a wrong guess because
// its first kex algorithm differs / because its first host key algorithm
// differs. A wrong guess must be discarded exactly once, a right guess must be
// used: undisturbed sessions including two re-exchanges, all with the flag,
// must complete. Strict: every single edit of the Peer's plaintext packets
// (now KEXINIT, guessed packet, real kex packet, NEWKEYS) by the MITM must keep
// the Go side from completing. Non-strict: IGNORE/DEBUG sent by the Peer before
// every one of its packets (whole story) must be tolerated.

// guessL is the number of plaintext packets the Peer sends up to NEWKEYS in
// the given first_kex_packet_follows mode (ECDH style methods).
func guessL(g string) int {
	if g == "wrong-kex" || g == "wrong-hostkey" {
		return 4
	}
	return 3
}

// guessStoryLen is the number of regular packets of the Peer's whole story:
// a wrong guess costs one more packet in each of the three key exchanges.
func guessStoryLen(role, g string) int {
	n := 24
	if role == "peer-server" {
		n = 29
	}
	if guessL(g) == 4 {
		n += 3
	}
	return n
}

// guessNames names the Peer's plaintext packets.
func guessNames(role, g string) []string {
	k := "KEX30"
	if role == "peer-server" {
		k = "KEX31"
	}
	switch {
	case guessL(g) == 4:
		return []string{"KEXINIT", "guessed", k, "NEWKEYS"}
	case g == "right" && role == "peer-client":
		return []string{"KEXINIT", "guessed(right)", "NEWKEYS"}
	}
	return []string{"KEXINIT", k, "NEWKEYS"}
}

// peerWhere names an injection position of the Peer's own sequence relative
// to the packets of a key exchange ("" elsewhere).
func peerWhere(pr *peerRun) string {
	if pr.injectedN < 0 {
		return ""
	}
	isKex := func(t byte) bool { return t >= 30 && t <= 49 }
	sent := pr.peer.Sent
	var prev byte
	if pr.injectedN > 0 && pr.injectedN <= len(sent) {
		prev = sent[pr.injectedN-1]
	}
	switch {
	case pr.injTyp == msgKexInit:
		return "before-KEXINIT"
	case isKex(pr.injTyp) && prev == msgKexInit:
		// two kex packets in a row behind KEXINIT: the first is a wrongly guessed one
		if pr.injectedN+1 < len(sent) && isKex(sent[pr.injectedN+1]) {
			return "after-KEXINIT-before-guessed"
		}
		return "after-KEXINIT-before-kex-packet"
	case isKex(pr.injTyp) && isKex(prev):
		return "after-guessed-before-real"
	case pr.injTyp == msgNewKeys:
		return "before-NEWKEYS"
	}
	return ""
}

type followsCase struct {
	fam    family
	role   string
	strict bool
	guess  string
	ed     edit   // strict: MITM edit
	kind   string // injected kind
	hook   int    // non-strict: position in the Peer's own packet sequence
}

func partFollows(m *mon.M, suites []suite, roles []string) {
	eFams := []family{allFamilies[0]}
	if m.Thorough() {
		eFams = []family{allFamilies[0], allFamilies[1]}
	}
	baseOK := map[string]bool{}
	bkey := func(role string, strict bool, g string, f family) string {
		return fmt.Sprintf("%s|%v|%s|%s", role, strict, g, f.Short)
	}
	strictName := map[bool]string{true: "strict", false: "nonstrict"}
	for _, f := range eFams {
		for _, role := range roles {
			for _, strict := range []bool{true, false} {
				for gi, g := range guessModes {
					var pr *peerRun
					ok := false
					for attempt := 0; attempt < 2 && !ok; attempt++ {
						pr = runPeerX(role, f.Name, suites[(gi+attempt)%len(suites)], strict, injection{pos: -1}, g, edit{})
						m.Eval()
						ok = pr.goErr == nil && pr.goRunErr == nil && pr.peerErr == nil && !pr.stalled && pr.giveUp == "" && len(pr.peer.Kexes) >= 3
					}
					types, _, _, _ := pr.x.snapshot()
					seq := types[peerToGoDir(role)]
					label := fmt.Sprintf("%s %s follows=%s %s", role, strictName[strict], g, f.Short)
					if pr.giveUp != "" {
						m.Inconclusive("follows baseline " + label + ": " + pr.giveUp)
						continue
					}
					if !ok {
						// the Peer followed RFC 4253 section 7 and nobody touched the stream, twice
						m.Violation(fmt.Sprintf("first-kex-packet-follows-handshake-failed:%s:follows=%s:%s", role, g, strictName[strict]),
							map[string]any{"session": label, "go_constructor_err": errStr(pr.goErr), "go_story_err": errStr(pr.goRunErr), "peer_err": errStr(pr.peerErr),
								"peer_step": pr.peerStep, "frozen": pr.stalled, "exchanges_completed": len(pr.peer.Kexes), "peer_plaintext_packets": typeNames(seq),
								"peer_sent": typeNames(pr.peer.Sent), "note": "a wrong guess must be discarded exactly once, a right guess must be used"})
						continue
					}
					if len(seq) != guessL(g) || len(pr.peer.Sent) != guessStoryLen(role, g) || pr.peer.Kexes[0].Strict != strict {
						m.Inconclusive(fmt.Sprintf("follows baseline %s: plaintext %v, %d regular packets, strict %v: not what the enumeration assumes", label, typeNames(seq), len(pr.peer.Sent), pr.peer.Kexes[0].Strict))
						continue
					}
					baseOK[bkey(role, strict, g, f)] = true
					m.Count("follows_baseline_completed:"+role+":"+g, 1)
					analyzePeerSeq(m, "follows baseline "+label, pr)
				}
			}
		}
	}
	var cases []followsCase
	for _, f := range eFams {
		for _, role := range roles {
			for _, g := range guessModes {
				L := guessL(g)
				dir := peerToGoDir(role)
				for _, k := range quickKinds {
					for pos := 0; pos < L; pos++ {
						cases = append(cases, followsCase{f, role, true, g, edit{dir: dir, op: opInject, pos: pos}, k, -1})
					}
				}
				for pos := 0; pos < L-1; pos++ {
					cases = append(cases, followsCase{f, role, true, g, edit{dir: dir, op: opDup, pos: pos}, "", -1})
				}
				for pos := 0; pos < L; pos++ {
					cases = append(cases, followsCase{f, role, true, g, edit{dir: dir, op: opDelete, pos: pos}, "", -1})
				}
				for pos := 0; pos < L-1; pos++ {
					cases = append(cases, followsCase{f, role, true, g, edit{dir: dir, op: opSwap, pos: pos}, "", -1})
				}
				if g == "none" {
					continue // non-strict without the flag is Part C
				}
				for _, k := range []string{"IGNORE", "DEBUG"} {
					for pos := 0; pos < guessStoryLen(role, g); pos++ {
						cases = append(cases, followsCase{f, role, false, g, edit{}, k, pos})
					}
				}
			}
		}
	}
	m.Cases("follows", len(cases), func(i int64, r *rand.Rand) {
		c := cases[i]
		if !baseOK[bkey(c.role, c.strict, c.guess, c.fam)] {
			return
		}
		su := suites[int(i)%len(suites)]
		var pkt []byte
		if c.kind != "" {
			body := mon.Bytes(r, r.IntN(40))
			if c.kind == "UNKNOWN192" {
				body = mon.Bytes(r, 1+r.IntN(60))
			}
			var err error
			if pkt, err = kindPacket(c.kind, body); err != nil {
				panic(err)
			}
		}
		if !c.strict {
			followsNonStrict(m, i, c, su, pkt)
			return
		}
		// strict: MITM edit of the Peer's plaintext packets
		ed := c.ed
		ed.pkt = pkt
		names := guessNames(c.role, c.guess)
		where := ""
		switch ed.op {
		case opInject:
			where = "before-" + names[0]
			if ed.pos > 0 {
				where = "after-" + names[ed.pos-1] + "-before-" + names[ed.pos]
			}
		case opSwap:
			where = names[ed.pos] + "<>" + names[ed.pos+1]
		default:
			where = names[ed.pos]
		}
		pr := runPeerX(c.role, c.fam.Name, su, true, injection{pos: -1}, c.guess, ed)
		m.Eval()
		types, fwd, _, applied := pr.x.snapshot()
		_, nkR := pr.tap.counts()
		opk := opName[ed.op]
		if c.kind != "" {
			opk += ":" + c.kind
		}
		m.Distinct(fmt.Sprintf("follows strict %s %s %s %s %s", c.role, c.fam.Short, c.guess, opk, where))
		m.Count("follows_strict_edits_executed:"+c.role+":"+c.guess, 1)
		if ed.op == opInject {
			m.Count("follows_strict_inject_at:"+where, 1)
		}
		if !applied {
			m.Count("follows_edit_withheld_only:"+opName[ed.op], 1)
		}
		if pr.giveUp != "" {
			m.Inconclusive(fmt.Sprintf("follows strict case %d (%s %s %s %s): %s", i, c.role, c.guess, opk, where, pr.giveUp))
			return
		}
		detail := map[string]any{"role": c.role, "family": c.fam.Name, "suite": su.String(), "follows": c.guess, "direction": dirName[ed.dir], "edit": opk, "position": ed.pos, "where": where,
			"injected_payload": mon.FullHex(ed.pkt), "sent_by_peer": typeNames(types[ed.dir]), "forwarded": typeNames(fwd[ed.dir]),
			"go_constructor_err": errStr(pr.goErr), "go_story_err": errStr(pr.goRunErr), "peer_err": errStr(pr.peerErr), "peer_step": pr.peerStep, "frozen": pr.stalled,
			"go_read_NEWKEYS_ok": nkR, "exchanges_completed_by_peer": len(pr.peer.Kexes)}
		key := fmt.Sprintf("strict-handshake-completed-after:%s:%s:%s:follows=%s", dirName[ed.dir], opk, where, c.guess)
		switch {
		case pr.goErr == nil:
			m.Count("follows_outcome:completed", 1)
			m.Violation(key, detail)
		case nkR > 0 && ed.op == opDelete && ed.pos == len(names)-1:
			m.Count("follows_outcome:failed", 1) // ciphertext misread as NEWKEYS, see Part A
		case nkR > 0:
			m.Count("follows_outcome:kex-accepted-then-failed", 1)
			m.Violation(key, detail)
		case pr.stalled:
			m.Count("follows_outcome:froze(legal)", 1)
		default:
			m.Count("follows_outcome:failed", 1)
			m.Count("follows_go_error:"+errClass(pr.goErr), 1)
		}
		if i%53 == 11 {
			m.Sample(detail)
		}
	})
	for _, role := range roles {
		for _, g := range guessModes {
			m.Gate("follows_baseline_completed:"+role+":"+g, 2, "undisturbed sessions (strict and non-strict, 3 key exchanges each with the flag) completed")
			m.Gate("follows_strict_edits_executed:"+role+":"+g, tampersPerDirection(guessL(g), len(quickKinds), 1, false), "every single edit of the Peer's plaintext packets executed")
			if g != "none" {
				m.Gate("follows_nonstrict_injected:"+role+":"+g, 2*guessStoryLen(role, g), "IGNORE and DEBUG before every packet of the Peer's story")
			}
		}
	}
	m.Gate("follows_strict_inject_at:after-KEXINIT-before-guessed", 2*2*len(quickKinds), "strict: injection between the Peer's KEXINIT and its wrongly guessed packet, both roles, both kinds of wrong guess")
	m.Gate("follows_strict_inject_at:after-guessed-before-KEX30", 2*len(quickKinds), "strict: injection between the guessed and the real kex packet (Go as server)")
	m.Gate("follows_strict_inject_at:after-guessed-before-KEX31", 2*len(quickKinds), "strict: injection between the guessed and the real kex packet (Go as client)")
	m.Gate("follows_nonstrict_injected_at:after-KEXINIT-before-guessed", 2*2*2*3, "non-strict: IGNORE/DEBUG between KEXINIT and the wrongly guessed packet, first exchange and both re-exchanges")
	m.Gate("follows_nonstrict_injected_at:after-guessed-before-real", 2*2*2*3, "non-strict: IGNORE/DEBUG between the guessed and the real kex packet, first exchange and both re-exchanges")
}

func followsNonStrict(m *mon.M, i int64, c followsCase, su suite, pkt []byte) {
	pr := runPeerX(c.role, c.fam.Name, su, false, injection{pos: c.hook, pkt: pkt}, c.guess, edit{})
	m.Eval()
	if pr.giveUp != "" {
		m.Inconclusive(fmt.Sprintf("follows non-strict case %d: %s", i, pr.giveUp))
		return
	}
	phase, where := peerPhase(pr), peerWhere(pr)
	m.Distinct(fmt.Sprintf("follows nonstrict %s %s %s %s pos%d %s %s", c.role, c.fam.Short, c.guess, c.kind, c.hook, phase, where))
	if pr.injectedN >= 0 {
		m.Count("follows_nonstrict_injected:"+c.role+":"+c.guess, 1)
		if where != "" {
			m.Count("follows_nonstrict_injected_at:"+where, 1)
		}
	}
	ok := pr.goErr == nil && pr.goRunErr == nil && pr.peerErr == nil && !pr.stalled
	if !ok || bytes.IndexByte(pr.peer.Recv, msgUnimplemented) >= 0 {
		detail := map[string]any{"role": c.role, "family": c.fam.Name, "suite": su.String(), "follows": c.guess, "kind": c.kind, "injected_payload": mon.FullHex(pkt),
			"position": c.hook, "phase": phase, "where": where, "go_constructor_err": errStr(pr.goErr), "go_story_err": errStr(pr.goRunErr), "go_step": pr.goStep,
			"peer_err": errStr(pr.peerErr), "peer_step": pr.peerStep, "frozen": pr.stalled, "peer_sent": typeNames(pr.peer.Sent), "peer_received": typeNames(pr.peer.Recv)}
		at := phase
		if where != "" {
			at += ":" + where
		}
		what := "not-skipped"
		if ok {
			what = "answered-UNIMPLEMENTED"
		} else if pr.stalled {
			what = "froze-connection"
			detail["dump"] = trimTo(pr.dump, 6000)
		}
		m.Violation(fmt.Sprintf("nonstrict-%s-%s:%s:%s:follows=%s", c.kind, what, c.role, at, c.guess), detail)
	} else if len(pr.peer.Kexes) >= 3 {
		m.Count("follows_nonstrict_sessions_ok", 1)
	}
	analyzePeerSeq(m, fmt.Sprintf("follows=%s %s %s@%d", c.guess, c.role, c.kind, c.hook), pr)
}

package sshstrict

import (
	"encoding/binary"
	"fmt"
	"io"
	"sync"
)

// SSH message numbers the harness names.
const (
	msgDisconnect     = 1
	msgIgnore         = 2
	msgUnimplemented  = 3
	msgDebug          = 4
	msgServiceRequest = 5
	msgServiceAccept  = 6
	msgExtInfo        = 7
	msgKexInit        = 20
	msgNewKeys        = 21
)

const (
	dirC2S = 0
	dirS2C = 1
)

var dirName = [2]string{"c2s", "s2c"}

type opKind int

const (
	opNone   opKind = iota
	opInject        // write pkt right after packet pos-1 was forwarded (pos 0: right after the version line)
	opDelete        // drop packet pos
	opDup           // forward packet pos twice
	opSwap          // forward packet pos+1 before packet pos
)

var opName = map[opKind]string{opNone: "none", opInject: "inject", opDelete: "delete", opDup: "dup", opSwap: "swap"}

// edit is one manipulation of the plaintext packet sequence of one direction.
type edit struct {
	dir int
	op  opKind
	pos int
	pkt []byte // payload to inject (opInject)
}

// framePlain frames payload as an unprotected binary packet (RFC 4253 §6 with
// cipher none: block size 8, at least 4 bytes of padding, no MAC).
func framePlain(payload []byte) []byte {
	pad := 8 - (5+len(payload))%8
	if pad < 4 {
		pad += 8
	}
	out := make([]byte, 4, 5+len(payload)+pad)
	binary.BigEndian.PutUint32(out, uint32(1+len(payload)+pad))
	out = append(out, byte(pad))
	out = append(out, payload...)
	for i := 0; i < pad; i++ {
		out = append(out, byte(0xa0+i))
	}
	return out
}

// readPlain reads one unprotected packet and returns the frame as it was on
// the wire and the payload inside it.
func readPlain(r io.Reader) (frame, payload []byte, err error) {
	var hdr [4]byte
	if _, err = io.ReadFull(r, hdr[:]); err != nil {
		return nil, nil, err
	}
	n := binary.BigEndian.Uint32(hdr[:])
	if n < 2 || n > 1<<20 {
		return hdr[:], nil, fmt.Errorf("mitm: implausible plaintext packet length %d", n)
	}
	frame = make([]byte, 4+n)
	copy(frame, hdr[:])
	if _, err = io.ReadFull(r, frame[4:]); err != nil {
		return frame, nil, err
	}
	pad := int(frame[4])
	if pad+1 > int(n) {
		return frame, nil, fmt.Errorf("mitm: padding %d longer than packet %d", pad, n)
	}
	return frame, frame[5 : 4+int(n)-pad], nil
}

// mitm relays two byte streams between a client-facing and a server-facing
// duplex end. Until the first NEWKEYS of a direction it parses that direction
// into packets and applies the edit; afterwards it copies bytes. Everything
// forwarded after the version line is captured.
type mitm struct {
	side [2]*duplexEnd // side[dirC2S] is read for c2s (client-facing), side[dirS2C] for s2c (server-facing)
	ed   edit

	mu      sync.Mutex
	types   [2][]byte // message numbers as sent by the source, up to and including NEWKEYS
	fwd     [2][]byte // message numbers as forwarded (after the edit), plaintext phase only
	capture [2][]byte // bytes forwarded after the version line
	version [2]string
	applied bool
	perr    [2]error
	wg      sync.WaitGroup
}

func newMITM(clientFacing, serverFacing *duplexEnd, ed edit) *mitm {
	x := &mitm{ed: ed}
	x.side[dirC2S] = clientFacing
	x.side[dirS2C] = serverFacing
	x.wg.Add(2)
	go x.pump(dirC2S)
	go x.pump(dirS2C)
	return x
}

func (x *mitm) forward(dir int, dst io.Writer, b []byte, typ int) error {
	x.mu.Lock()
	x.capture[dir] = append(x.capture[dir], b...)
	if typ >= 0 {
		x.fwd[dir] = append(x.fwd[dir], byte(typ))
	}
	x.mu.Unlock()
	_, err := dst.Write(b)
	return err
}

func (x *mitm) pump(dir int) {
	defer x.wg.Done()
	src, dst := x.side[dir], x.side[1-dir]
	defer dst.Close()
	err := x.relay(dir, src, dst)
	x.mu.Lock()
	x.perr[dir] = err
	x.mu.Unlock()
}

func (x *mitm) relay(dir int, src, dst *duplexEnd) error {
	// identification string: bytes up to LF, forwarded untouched
	var line []byte
	var one [1]byte
	for {
		if _, err := io.ReadFull(src, one[:]); err != nil {
			return err
		}
		line = append(line, one[0])
		if one[0] == '\n' || len(line) > 300 {
			break
		}
	}
	x.mu.Lock()
	x.version[dir] = string(line)
	x.mu.Unlock()
	if _, err := dst.Write(line); err != nil {
		return err
	}
	mine := x.ed.op != opNone && x.ed.dir == dir
	markApplied := func() { x.mu.Lock(); x.applied = true; x.mu.Unlock() }
	maybeInject := func(next int) error {
		if mine && x.ed.op == opInject && x.ed.pos == next {
			markApplied()
			return x.forward(dir, dst, framePlain(x.ed.pkt), int(x.ed.pkt[0]))
		}
		return nil
	}
	if err := maybeInject(0); err != nil {
		return err
	}
	var held []byte
	heldType := -1
	for idx := 0; ; idx++ {
		frame, payload, err := readPlain(src)
		if err != nil {
			return err
		}
		if len(payload) == 0 {
			return fmt.Errorf("mitm: empty payload in plaintext phase")
		}
		typ := int(payload[0])
		x.mu.Lock()
		x.types[dir] = append(x.types[dir], byte(typ))
		x.mu.Unlock()
		switch {
		case mine && x.ed.op == opDelete && x.ed.pos == idx:
			markApplied()
		case mine && x.ed.op == opDup && x.ed.pos == idx:
			markApplied()
			if err := x.forward(dir, dst, frame, typ); err != nil {
				return err
			}
			if err := x.forward(dir, dst, frame, typ); err != nil {
				return err
			}
		case mine && x.ed.op == opSwap && x.ed.pos == idx:
			held, heldType = frame, typ
		case mine && x.ed.op == opSwap && x.ed.pos+1 == idx:
			markApplied()
			if err := x.forward(dir, dst, frame, typ); err != nil {
				return err
			}
			if err := x.forward(dir, dst, held, heldType); err != nil {
				return err
			}
		default:
			if err := x.forward(dir, dst, frame, typ); err != nil {
				return err
			}
		}
		if typ == msgNewKeys {
			break
		}
		if err := maybeInject(idx + 1); err != nil {
			return err
		}
	}
	// protected territory: copy bytes
	buf := make([]byte, 32<<10)
	for {
		n, err := src.Read(buf)
		if n > 0 {
			if werr := x.forward(dir, dst, buf[:n], -1); werr != nil {
				return werr
			}
		}
		if err != nil {
			return err
		}
	}
}

// snapshot returns copies of the recorded state.
func (x *mitm) snapshot() (types, fwd [2][]byte, capture [2][]byte, applied bool) {
	x.mu.Lock()
	defer x.mu.Unlock()
	for d := 0; d < 2; d++ {
		types[d] = append([]byte(nil), x.types[d]...)
		fwd[d] = append([]byte(nil), x.fwd[d]...)
		capture[d] = append([]byte(nil), x.capture[d]...)
	}
	return types, fwd, capture, x.applied
}

// stop closes both sides and waits for the pumps.
func (x *mitm) stop() {
	x.side[0].Close()
	x.side[1].Close()
	x.wg.Wait()
}

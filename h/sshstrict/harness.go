package sshstrict

import (
	"crypto/ed25519"
	"encoding/binary"
	"errors"
	"fmt"
	"io"
	"runtime"
	"strings"
	"sync"
	"time"

	"golang.org/x/crypto/ssh"
	"verif/mon"
)

// ---- tap recorder -----------------------------------------------------------

type tapEv struct {
	Seq     uint32
	Payload []byte
	Err     string // reads only: the transport returned this error (Payload empty)
}

type kexObs struct {
	Algs ssh.NegotiatedAlgorithms
	Res  ssh.VerifKexResult
}

// tapRec records what crosses the handshakeTransport/transport boundary of
// one endpoint: packets handed to the transport with the outgoing sequence
// number, packets the transport returned with the incoming sequence number,
// and every key exchange result.
type tapRec struct {
	mu       sync.Mutex
	writes   []tapEv
	reads    []tapEv
	readErrs []string
	kex      []kexObs
	nkW, nkR int // NEWKEYS written / read without error
	cond     *sync.Cond
}

func newTapRec() *tapRec {
	t := &tapRec{}
	t.cond = sync.NewCond(&t.mu)
	return t
}

// waitNewKeys parks until at least n NEWKEYS were written and n were read.
func (t *tapRec) waitNewKeys(n int) {
	t.mu.Lock()
	for t.nkW < n || t.nkR < n {
		t.cond.Wait()
	}
	t.mu.Unlock()
}

func (t *tapRec) tap() *ssh.VerifTap {
	return &ssh.VerifTap{
		BeforeWrite: func(seq uint32, p []byte) {
			t.mu.Lock()
			t.writes = append(t.writes, tapEv{Seq: seq, Payload: p})
			t.mu.Unlock()
		},
		AfterWrite: func(seq uint32, p []byte, err error) {
			if err == nil && len(p) > 0 && p[0] == msgNewKeys {
				t.mu.Lock()
				t.nkW++
				t.cond.Broadcast()
				t.mu.Unlock()
			}
		},
		AfterRead: func(seq uint32, p []byte, err error) {
			t.mu.Lock()
			if err != nil {
				t.readErrs = append(t.readErrs, err.Error())
				t.reads = append(t.reads, tapEv{Seq: seq, Err: err.Error()})
			} else {
				t.reads = append(t.reads, tapEv{Seq: seq, Payload: p})
				if len(p) > 0 && p[0] == msgNewKeys {
					t.nkR++
					t.cond.Broadcast()
				}
			}
			t.mu.Unlock()
		},
		KeyChange: func(a ssh.NegotiatedAlgorithms, k ssh.VerifKexResult) {
			t.mu.Lock()
			t.kex = append(t.kex, kexObs{a, k})
			t.mu.Unlock()
		},
	}
}

func (t *tapRec) counts() (nkW, nkR int) {
	t.mu.Lock()
	defer t.mu.Unlock()
	return t.nkW, t.nkR
}

type tapSnap struct {
	writes, reads []tapEv
	readErrs      []string
	kex           []kexObs
	nkW, nkR      int
}

func (t *tapRec) snap() tapSnap {
	t.mu.Lock()
	defer t.mu.Unlock()
	return tapSnap{append([]tapEv(nil), t.writes...), append([]tapEv(nil), t.reads...), append([]string(nil), t.readErrs...),
		append([]kexObs(nil), t.kex...), t.nkW, t.nkR}
}

// ---- waiting without verdicts from the clock --------------------------------

// await waits until n values arrived on ch. The clock only decides when to
// look: if no byte moved on any duplex for a while, goroutine dumps are
// compared (mon.Quiescent); a frozen system — identical dumps, nobody
// runnable — can never change again in this closed system, which is reported
// as stalled. giveUp is returned non-empty if neither happened for very long.
func await(n int, ch <-chan struct{}) (got int, stalled bool, dump string, giveUp string) {
	last := activity.Load()
	idle := 0
	start := time.Now()
	tick := time.NewTicker(10 * time.Millisecond)
	defer tick.Stop()
	for got < n {
		select {
		case <-ch:
			got++
		case <-tick.C:
			a := activity.Load()
			if a != last {
				last, idle = a, 0
				continue
			}
			idle++
			if idle < 8 {
				continue
			}
			frozen, gs, d := mon.Quiescent(3, 25*time.Millisecond, "os/signal.loop", "runtime.ensureSigM", "signal.signal_recv")
			if frozen && !allParked(gs) {
				frozen = false
			}
			if frozen {
				// nobody can run any more: whoever finished has already reported
				for got < n {
					select {
					case <-ch:
						got++
						continue
					default:
					}
					break
				}
				if got >= n {
					return got, false, "", ""
				}
				return got, true, d, ""
			}
			idle = 4
			if time.Since(start) > 10*time.Minute {
				return got, false, d, "endpoints neither finished nor froze within 10 minutes"
			}
		}
	}
	return got, false, "", ""
}

// parkedStates are the goroutine states that only another goroutine of this
// process can end (there is no network and no timer in the closed system).
var parkedStates = map[string]bool{
	"chan receive": true, "chan send": true, "select": true, "sync.Cond.Wait": true, "sync.Mutex.Lock": true,
	"sync.RWMutex.Lock": true, "sync.RWMutex.RLock": true, "semacquire": true, "sync.WaitGroup.Wait": true,
	"chan receive (nil chan)": true, "chan send (nil chan)": true, "select (no cases)": true,
	"GC worker (idle)": true, "GC sweep wait": true, "GC scavenge wait": true, "finalizer wait": true,
	"force gc (idle)": true, "cleanup wait": true, "IO wait": true,
}

// allParked is a second, stricter look at the goroutines mon.Quiescent
// called frozen: every one except the caller must be in a state from the
// list above (anything unknown counts as "may still move").
func allParked(gs []mon.G) bool {
	self := make([]byte, 64)
	self = self[:runtime.Stack(self, false)]
	me := ""
	if f := strings.Fields(string(self)); len(f) > 1 {
		me = f[1]
	}
	for _, g := range gs {
		if g.ID == me {
			continue
		}
		if !parkedStates[g.State] {
			return false
		}
	}
	return true
}

// ---- Go <-> Go through the MITM ----------------------------------------------

var hostSeed = func() []byte {
	s := make([]byte, ed25519.SeedSize)
	for i := range s {
		s[i] = byte(7*i + 1)
	}
	return s
}()

func hostKeyPriv() ed25519.PrivateKey { return ed25519.NewKeyFromSeed(hostSeed) }

func hostSigner() ssh.Signer {
	s, err := ssh.NewSignerFromKey(hostKeyPriv())
	if err != nil {
		panic(err)
	}
	return s
}

type suite struct{ Cipher, MAC string }

func (s suite) String() string {
	if s.MAC == "" {
		return s.Cipher
	}
	return s.Cipher + "+" + s.MAC
}

func goConfig(kex string, su suite, rekey uint64) ssh.Config {
	c := ssh.Config{KeyExchanges: []string{kex}, Ciphers: []string{su.Cipher}, RekeyThreshold: rekey}
	if su.MAC != "" {
		c.MACs = []string{su.MAC}
	}
	return c
}

// outputFor is what the exec handlers of every server in this package answer.
func outputFor(cmd string) []byte {
	switch cmd {
	case "big":
		b := make([]byte, 4500)
		for i := range b {
			b[i] = byte('a' + i%23)
		}
		return b
	}
	return []byte("out:" + cmd)
}

// serveGo serves the channels of a Go server connection: "echo" channels copy
// data back, "session" channels answer exec requests with outputFor.
func serveGo(chans <-chan ssh.NewChannel, reqs <-chan *ssh.Request) {
	go ssh.DiscardRequests(reqs)
	for nc := range chans {
		switch nc.ChannelType() {
		case "echo":
			ch, rq, err := nc.Accept()
			if err != nil {
				continue
			}
			go ssh.DiscardRequests(rq)
			go func() {
				io.Copy(ch, ch)
				ch.Close()
			}()
		case "session":
			ch, rq, err := nc.Accept()
			if err != nil {
				continue
			}
			go func() {
				for r := range rq {
					if r.Type != "exec" || len(r.Payload) < 4 {
						if r.WantReply {
							r.Reply(false, nil)
						}
						continue
					}
					n := binary.BigEndian.Uint32(r.Payload)
					if int(n) > len(r.Payload)-4 {
						r.Reply(false, nil)
						continue
					}
					if r.WantReply {
						r.Reply(true, nil)
					}
					ch.Write(outputFor(string(r.Payload[4 : 4+n])))
					ch.SendRequest("exit-status", false, []byte{0, 0, 0, 0})
					ch.Close()
				}
			}()
		default:
			nc.Reject(ssh.UnknownChannelType, "no")
		}
	}
}

// goGo is one client/server pair of real endpoints connected through a mitm.
type goGo struct {
	x            *mitm
	cE, sE       *duplexEnd
	tapC, tapS   *tapRec
	cliConn      ssh.Conn
	srvConn      *ssh.ServerConn
	cliErr       error
	srvErr       error
	stalled      bool
	giveUp       string
	dump         string
	cliChans     <-chan ssh.NewChannel
	cliReqs      <-chan *ssh.Request
	endpointDone chan struct{}
	abandoned    bool // a constructor stayed blocked after all connections were closed
}

// startGoGo connects a client and a server through a MITM performing ed and
// waits until both constructors returned or the system froze. tapped selects
// ssh.VerifNewClientConn/VerifNewServerConn (taps recording) or the plain
// public constructors.
func startGoGo(kex string, su suite, rekey uint64, ed edit, tapped bool) *goGo {
	g := &goGo{tapC: newTapRec(), tapS: newTapRec(), endpointDone: make(chan struct{}, 2)}
	var cM, sM *duplexEnd
	g.cE, cM = newDuplex("client", "mitm-c")
	sM, g.sE = newDuplex("mitm-s", "server")
	g.x = newMITM(cM, sM, ed)
	scfg := &ssh.ServerConfig{Config: goConfig(kex, su, rekey), NoClientAuth: true}
	scfg.AddHostKey(hostSigner())
	ccfg := &ssh.ClientConfig{Config: goConfig(kex, su, rekey), User: "u", HostKeyCallback: ssh.FixedHostKey(hostSigner().PublicKey())}
	go func() {
		defer func() { g.endpointDone <- struct{}{} }()
		var chans <-chan ssh.NewChannel
		var reqs <-chan *ssh.Request
		if tapped {
			g.srvConn, chans, reqs, g.srvErr = ssh.VerifNewServerConn(g.sE, scfg, g.tapS.tap())
		} else {
			g.srvConn, chans, reqs, g.srvErr = ssh.NewServerConn(g.sE, scfg)
		}
		if g.srvErr == nil {
			go serveGo(chans, reqs)
		}
	}()
	go func() {
		defer func() { g.endpointDone <- struct{}{} }()
		if tapped {
			g.cliConn, g.cliChans, g.cliReqs, g.cliErr = ssh.VerifNewClientConn(g.cE, "mem", ccfg, g.tapC.tap())
		} else {
			g.cliConn, g.cliChans, g.cliReqs, g.cliErr = ssh.NewClientConn(g.cE, "mem", ccfg)
		}
		if g.cliErr == nil {
			go ssh.DiscardRequests(g.cliReqs)
			go func() {
				for nc := range g.cliChans {
					nc.Reject(ssh.Prohibited, "no")
				}
			}()
		}
	}()
	var got int
	got, g.stalled, g.dump, g.giveUp = await(2, g.endpointDone)
	if g.stalled || g.giveUp != "" {
		// release everybody; the constructors then return with errors
		g.x.stop()
		g.cE.Close()
		g.sE.Close()
		if g2, _, _, _ := await(2-got, g.endpointDone); g2 < 2-got {
			g.abandoned = true
		}
	}
	return g
}

// finish closes everything that is still open.
func (g *goGo) finish() {
	if g.cliConn != nil {
		g.cliConn.Close()
	}
	if g.srvConn != nil {
		g.srvConn.Close()
	}
	g.x.stop()
	g.cE.Close()
	g.sE.Close()
}

func errStr(err error) string {
	if err == nil {
		return ""
	}
	return err.Error()
}

// ---- injected packet bodies ----------------------------------------------------

func sshString(b []byte) []byte {
	out := make([]byte, 4, 4+len(b))
	binary.BigEndian.PutUint32(out, uint32(len(b)))
	return append(out, b...)
}

// kindPacket builds the payload for an injection kind. body supplies the
// variable part.
func kindPacket(kind string, body []byte) ([]byte, error) {
	switch kind {
	case "IGNORE":
		return append([]byte{msgIgnore}, sshString(body)...), nil
	case "DEBUG":
		p := []byte{msgDebug, 1}
		p = append(p, sshString(body)...)
		return append(p, sshString([]byte("en"))...), nil
	case "UNIMPLEMENTED":
		p := []byte{msgUnimplemented, 0, 0, 0, 0}
		if len(body) >= 4 {
			copy(p[1:], body[:4])
		}
		return p, nil
	case "UNKNOWN192":
		return append([]byte{192}, body...), nil
	case "EXTINFO":
		return []byte{msgExtInfo, 0, 0, 0, 0}, nil
	case "SERVICEREQ":
		return append([]byte{msgServiceRequest}, sshString([]byte("ssh-userauth"))...), nil
	case "NEWKEYS":
		return []byte{msgNewKeys}, nil
	case "KEXINIT-GARBAGE":
		return append([]byte{msgKexInit}, body...), nil
	case "UNASSIGNED":
		if len(body) == 0 {
			body = []byte{8}
		}
		// a message number nobody assigned: 8..19, 22..29, 101..127 or 194..255
		free := []byte{8, 9, 12, 19, 22, 29, 101, 127, 194, 255}
		return append([]byte{free[int(body[0])%len(free)]}, body[1:]...), nil
	}
	var t int
	if n, _ := fmt.Sscanf(kind, "TYPE%d", &t); n == 1 && t > 0 && t < 256 {
		return append([]byte{byte(t)}, body...), nil
	}
	return nil, errors.New("unknown kind " + kind)
}

func msgName(t byte) string {
	switch t {
	case msgDisconnect:
		return "DISCONNECT"
	case msgIgnore:
		return "IGNORE"
	case msgUnimplemented:
		return "UNIMPLEMENTED"
	case msgDebug:
		return "DEBUG"
	case msgServiceRequest:
		return "SERVICE_REQUEST"
	case msgServiceAccept:
		return "SERVICE_ACCEPT"
	case msgExtInfo:
		return "EXT_INFO"
	case msgKexInit:
		return "KEXINIT"
	case msgNewKeys:
		return "NEWKEYS"
	}
	if t >= 30 && t <= 49 {
		return fmt.Sprintf("KEX%d", t)
	}
	return fmt.Sprintf("MSG%d", t)
}

func typeNames(ts []byte) []string {
	l := make([]string, len(ts))
	for i, t := range ts {
		l[i] = msgName(t)
	}
	return l
}

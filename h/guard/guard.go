// Package guard is the hand-written "sanitizer" for assembly entry points: it
// places operands so that they end (or start) exactly at a PROT_NONE page and
// runs the call under debug.SetPanicOnFault, so a one-byte over-read or
// over-write by SIMD code faults and is reported as a recoverable panic. The Go
// race detector, checkptr and -asan do not instrument assembly; this does.
package guard

import (
	"fmt"
	"runtime/debug"
	"syscall"
)

const page = 4096

// Arena is a mapping [guard][data pages …][guard].
type Arena struct {
	raw  []byte
	data []byte
}

// New maps an arena with room for n data bytes between two PROT_NONE pages.
func New(n int) *Arena {
	pages := (n + page - 1) / page
	if pages == 0 {
		pages = 1
	}
	raw, err := syscall.Mmap(-1, 0, (pages+2)*page, syscall.PROT_READ|syscall.PROT_WRITE, syscall.MAP_ANON|syscall.MAP_PRIVATE)
	if err != nil {
		panic(err)
	}
	if err := syscall.Mprotect(raw[:page], syscall.PROT_NONE); err != nil {
		panic(err)
	}
	if err := syscall.Mprotect(raw[(pages+1)*page:], syscall.PROT_NONE); err != nil {
		panic(err)
	}
	return &Arena{raw: raw, data: raw[page : (pages+1)*page : (pages+1)*page]}
}

// Free unmaps the arena.
func (a *Arena) Free() { syscall.Munmap(a.raw) }

// Cap is the usable size.
func (a *Arena) Cap() int { return len(a.data) }

// Data is the whole usable region.
func (a *Arena) Data() []byte { return a.data }

// End returns a slice of length n (cap n) that ends exactly at the trailing
// guard page, filled with a copy of src (if non-nil).
func (a *Arena) End(n int, src []byte) []byte {
	if n > len(a.data) {
		panic(fmt.Sprintf("guard: %d > arena %d", n, len(a.data)))
	}
	s := a.data[len(a.data)-n : len(a.data) : len(a.data)]
	if src != nil {
		copy(s, src)
	}
	return s
}

// Start returns a slice of length n that starts exactly after the leading
// guard page (cap n).
func (a *Arena) Start(n int, src []byte) []byte {
	if n > len(a.data) {
		panic(fmt.Sprintf("guard: %d > arena %d", n, len(a.data)))
	}
	s := a.data[0:n:n]
	if src != nil {
		copy(s, src)
	}
	return s
}

// Fault describes a memory fault caught while running fn.
type Fault struct{ Err string }

// Run executes fn with SetPanicOnFault; a fault (access to a guard page) is
// returned as *Fault, other panics are re-raised to the caller as (nil, pv).
func Run(fn func()) (f *Fault, pv any) {
	old := debug.SetPanicOnFault(true)
	defer debug.SetPanicOnFault(old)
	defer func() {
		if v := recover(); v != nil {
			if e, ok := v.(interface{ Addr() uintptr }); ok {
				f = &Fault{Err: fmt.Sprintf("%v addr=%#x", v, e.Addr())}
				return
			}
			pv = v
		}
	}()
	fn()
	return nil, nil
}

// Package mon is the monitor library shared by every check: deterministic
// per-case PRNGs, verdict/evidence bookkeeping, panic capture, crash
// attribution (progress file) and the result file the driver merges.
//
// Three-valued verdicts: Violation (with witness), held-on-what-was-observed
// (evidence counters), Inconclusive (reason). Never fold one into another.
package mon

import (
	"encoding/binary"
	"encoding/hex"
	"encoding/json"
	"fmt"
	"hash/fnv"
	"math/rand/v2"
	"os"
	"runtime/debug"
	"sort"
	"strconv"
	"strings"
	"sync"
	"sync/atomic"
	"syscall"
	"testing"
	"time"
)

// Violation is one observed contradiction of the property.
type Violation struct {
	Key    string `json:"key"`    // stable, specific key (matched against known_findings.txt)
	Detail any    `json:"detail"` // witness: inputs, history, trace …
	Batch  int    `json:"batch"`
	Case   int64  `json:"case"` // case index (replayable with VERIF_ONLY)
}

type gate struct {
	Counter string `json:"counter"`
	Min     int64  `json:"min"`
	Why     string `json:"why"`
}

// Result is what a child writes and the driver merges.
type Result struct {
	Property     string           `json:"property"`
	Seed         int64            `json:"seed"`
	Tier         string           `json:"tier"`
	Batch        int              `json:"batch"`
	NBatch       int              `json:"nbatch"`
	Evaluations  int64            `json:"evaluations"`
	Counters     map[string]int64 `json:"counters"`
	Samples      []any            `json:"samples"`
	Violations   []Violation      `json:"violations"`
	Inconclusive []string         `json:"inconclusive"`
	Gates        []gate           `json:"gates"`
	Rule         string           `json:"rule"`
	Assumptions  []string         `json:"assumptions"`
	Exhaustive   bool             `json:"exhaustive"`
	Notes        []string         `json:"notes"`
	DistinctN    int              `json:"distinct_n"`
	Completed    bool             `json:"completed"`
	WallS        float64          `json:"wall_s"`
}

// M is the per-check monitor state. Safe for concurrent use.
type M struct {
	t        testing.TB
	mu       sync.Mutex
	res      Result
	distinct map[uint64]struct{}
	only     int64 // VERIF_ONLY: run only this case index (-1: all)
	out      string
	progress []byte // mmap'd: current case index (crash attribution)
	start    time.Time
	curCase  atomic.Int64
	maxSamp  int
	maxViol  int
}

func envInt(name string, def int64) int64 {
	if s := os.Getenv(name); s != "" {
		if v, err := strconv.ParseInt(s, 10, 64); err == nil {
			return v
		}
	}
	return def
}

// New creates the monitor for property prop from the VERIF_* environment.
func New(t testing.TB, prop string) *M {
	m := &M{t: t, distinct: map[uint64]struct{}{}, start: time.Now(), maxSamp: 6, maxViol: 20}
	m.res.Property = prop
	m.res.Seed = envInt("VERIF_SEED", 1)
	m.res.Tier = os.Getenv("VERIF_TIER")
	if m.res.Tier != "thorough" {
		m.res.Tier = "quick"
	}
	m.res.Batch = int(envInt("VERIF_BATCH", 0))
	m.res.NBatch = int(envInt("VERIF_NBATCH", 1))
	if m.res.NBatch < 1 {
		m.res.NBatch = 1
	}
	m.res.Counters = map[string]int64{}
	m.only = envInt("VERIF_ONLY", -1)
	m.out = os.Getenv("VERIF_OUT")
	m.curCase.Store(-1)
	if m.out != "" {
		if f, err := os.OpenFile(m.out+".progress", os.O_RDWR|os.O_CREATE|os.O_TRUNC, 0o644); err == nil {
			f.Truncate(16)
			if b, err := syscall.Mmap(int(f.Fd()), 0, 16, syscall.PROT_READ|syscall.PROT_WRITE, syscall.MAP_SHARED); err == nil {
				m.progress = b
				binary.LittleEndian.PutUint64(b[0:], ^uint64(0))
			}
			f.Close()
		}
	}
	return m
}

func (m *M) Quick() bool    { return m.res.Tier == "quick" }
func (m *M) Thorough() bool { return m.res.Tier == "thorough" }
func (m *M) Seed() int64    { return m.res.Seed }
func (m *M) Batch() int     { return m.res.Batch }
func (m *M) NBatch() int    { return m.res.NBatch }
func (m *M) Replaying() bool { return m.only >= 0 }

// N picks the case count for the tier.
func (m *M) N(quick, thorough int) int {
	if m.Thorough() {
		return thorough
	}
	return quick
}

// Rand returns the PRNG for (seed, property, stream, index); independent of
// batch layout, so a case is a pure function of (VERIF_SEED, property, index).
func (m *M) Rand(stream string, idx int64) *rand.Rand {
	h := fnv.New64a()
	fmt.Fprintf(h, "%d|%s|%s|%d", m.res.Seed, m.res.Property, stream, idx)
	a := h.Sum64()
	fmt.Fprintf(h, "|x")
	b := h.Sum64()
	return rand.New(rand.NewPCG(a, b))
}

// Cases runs fn for every case index in [0,total) that belongs to this batch
// (i mod nbatch == batch), or only VERIF_ONLY when replaying. A panic escaping
// fn is recorded as a violation keyed by the panic site.
func (m *M) Cases(stream string, total int, fn func(i int64, r *rand.Rand)) {
	for i := int64(0); i < int64(total); i++ {
		if int(i%int64(m.res.NBatch)) != m.res.Batch {
			continue
		}
		if m.only >= 0 && i != m.only {
			continue
		}
		m.begin(i)
		m.guard(stream, i, func() { fn(i, m.Rand(stream, i)) })
	}
	m.begin(-1)
}

// Each runs fn for every index (no batching split) — for small exhaustive
// enumerations that only batch 0 performs.
func (m *M) Each(stream string, total int, fn func(i int64, r *rand.Rand)) {
	if m.res.Batch != 0 {
		return
	}
	for i := int64(0); i < int64(total); i++ {
		if m.only >= 0 && i != m.only {
			continue
		}
		m.begin(i)
		m.guard(stream, i, func() { fn(i, m.Rand(stream, i)) })
	}
	m.begin(-1)
}

func (m *M) begin(i int64) {
	m.curCase.Store(i)
	if m.progress != nil {
		binary.LittleEndian.PutUint64(m.progress[0:], uint64(i))
	}
}

func (m *M) guard(stream string, i int64, fn func()) {
	defer func() {
		if v := recover(); v != nil {
			st := string(debug.Stack())
			m.Violation("panic:"+PanicSite(st), map[string]any{"stream": stream, "panic": fmt.Sprint(v), "stack": trimStack(st)})
		}
	}()
	fn()
}

// Panics runs fn and reports whether it panicked (value, stack).
func Panics(fn func()) (pv any, stack string) {
	defer func() {
		if v := recover(); v != nil {
			pv = v
			stack = string(debug.Stack())
		}
	}()
	fn()
	return nil, ""
}

// PanicSite returns the first golang.org/x/crypto frame of a stack (function
// name only, no line numbers: keys must be stable).
func PanicSite(stack string) string {
	lines := strings.Split(stack, "\n")
	seenPanic := false
	for _, l := range lines {
		if strings.HasPrefix(l, "panic(") {
			seenPanic = true
			continue
		}
		if !seenPanic {
			continue
		}
		if strings.HasPrefix(l, "golang.org/x/crypto/") {
			if k := strings.LastIndex(l, "("); k > 0 {
				l = l[:k]
			}
			return strings.TrimPrefix(l, "golang.org/x/crypto/")
		}
	}
	// no x/crypto frame below the panic: report the first non-runtime frame
	seenPanic = false
	for _, l := range lines {
		if strings.HasPrefix(l, "panic(") {
			seenPanic = true
			continue
		}
		if seenPanic && !strings.HasPrefix(l, "\t") && !strings.HasPrefix(l, "runtime") {
			if k := strings.LastIndex(l, "("); k > 0 {
				l = l[:k]
			}
			return l
		}
	}
	return "unknown"
}

func trimStack(s string) string {
	if len(s) > 3000 {
		return s[:3000] + "…"
	}
	return s
}

// Eval counts one evaluation (one execution handed to the oracle).
func (m *M) Eval() { m.mu.Lock(); m.res.Evaluations++; m.mu.Unlock() }

// EvalN counts n evaluations.
func (m *M) EvalN(n int) { m.mu.Lock(); m.res.Evaluations += int64(n); m.mu.Unlock() }

// Distinct registers a distinct non-trivial case class key.
func (m *M) Distinct(key string) {
	h := fnv.New64a()
	h.Write([]byte(key))
	v := h.Sum64()
	m.mu.Lock()
	m.distinct[v] = struct{}{}
	m.mu.Unlock()
}

// Count adds to a named counter (observations the evidence reports / gates use).
func (m *M) Count(name string, d int) { m.mu.Lock(); m.res.Counters[name] += int64(d); m.mu.Unlock() }

// Get reads a counter.
func (m *M) Get(name string) int64 { m.mu.Lock(); defer m.mu.Unlock(); return m.res.Counters[name] }

// Sample keeps up to a handful of written-out cases.
func (m *M) Sample(v any) {
	m.mu.Lock()
	if len(m.res.Samples) < m.maxSamp {
		m.res.Samples = append(m.res.Samples, v)
	}
	m.mu.Unlock()
}

// Violation records a contradiction of the property with its witness.
func (m *M) Violation(key string, detail any) {
	m.mu.Lock()
	defer m.mu.Unlock()
	m.res.Counters["violations_seen"]++
	for _, v := range m.res.Violations {
		if v.Key == key {
			return // one witness per key is enough
		}
	}
	if len(m.res.Violations) < m.maxViol {
		m.res.Violations = append(m.res.Violations, Violation{Key: key, Detail: detail, Batch: m.res.Batch, Case: m.curCase.Load()})
	}
}

// Violations returns the number of violations recorded so far.
func (m *M) Violations() int { m.mu.Lock(); defer m.mu.Unlock(); return len(m.res.Violations) }

// Inconclusive records that part of the run could not decide.
func (m *M) Inconclusive(reason string) {
	m.mu.Lock()
	m.res.Inconclusive = append(m.res.Inconclusive, reason)
	m.mu.Unlock()
}

// Gate requires that the (merged over batches) counter reaches min; otherwise
// the run is inconclusive: the monitor did not observe what it is for.
func (m *M) Gate(counter string, min int, why string) {
	m.mu.Lock()
	m.res.Gates = append(m.res.Gates, gate{counter, int64(min), why})
	m.mu.Unlock()
}

func (m *M) Rule(s string)         { m.mu.Lock(); m.res.Rule = s; m.mu.Unlock() }
func (m *M) Assume(s string)       { m.mu.Lock(); m.res.Assumptions = append(m.res.Assumptions, s); m.mu.Unlock() }
func (m *M) Note(s string)         { m.mu.Lock(); m.res.Notes = append(m.res.Notes, s); m.mu.Unlock() }
func (m *M) SetExhaustive(b bool)  { m.mu.Lock(); m.res.Exhaustive = b; m.mu.Unlock() }

// Done writes the result file. Must be called (defer) by every check.
func (m *M) Done() {
	m.mu.Lock()
	defer m.mu.Unlock()
	m.res.Completed = true
	m.res.WallS = time.Since(m.start).Seconds()
	m.res.DistinctN = len(m.distinct)
	if m.out == "" {
		// standalone `go test`: print a summary and fail on violations
		b, _ := json.MarshalIndent(m.res, "", " ")
		m.t.Logf("%s", b)
		if len(m.res.Violations) > 0 {
			m.t.Errorf("%d violation(s)", len(m.res.Violations))
		}
		return
	}
	b, err := json.Marshal(m.res)
	if err != nil {
		// a detail that cannot be marshaled must not lose the verdict
		for i := range m.res.Violations {
			m.res.Violations[i].Detail = fmt.Sprintf("%+v", m.res.Violations[i].Detail)
		}
		m.res.Samples = nil
		b, _ = json.Marshal(m.res)
	}
	keys := make([]uint64, 0, len(m.distinct))
	for k := range m.distinct {
		keys = append(keys, k)
	}
	sort.Slice(keys, func(i, j int) bool { return keys[i] < keys[j] })
	kb := make([]byte, 8*len(keys))
	for i, k := range keys {
		binary.LittleEndian.PutUint64(kb[8*i:], k)
	}
	os.WriteFile(m.out+".keys", kb, 0o644)
	tmp := m.out + ".tmp"
	os.WriteFile(tmp, b, 0o644)
	os.Rename(tmp, m.out)
}

// ---- small helpers used by workloads ----

// Bytes returns n pseudo-random bytes.
func Bytes(r *rand.Rand, n int) []byte {
	b := make([]byte, n)
	for i := 0; i+8 <= n; i += 8 {
		binary.LittleEndian.PutUint64(b[i:], r.Uint64())
	}
	for i := n &^ 7; i < n; i++ {
		b[i] = byte(r.Uint32())
	}
	return b
}

// Pick returns one element of xs.
func Pick[T any](r *rand.Rand, xs []T) T { return xs[r.IntN(len(xs))] }

// LogUniform returns an integer in [lo,hi] roughly log-uniformly.
func LogUniform(r *rand.Rand, lo, hi int) int {
	if hi <= lo {
		return lo
	}
	span := hi - lo + 1
	bits := 0
	for (1 << bits) < span {
		bits++
	}
	b := r.IntN(bits + 1)
	v := r.IntN(1 << b)
	if v >= span {
		v = r.IntN(span)
	}
	return lo + v
}

// Hex is a short hex rendering for witnesses (full bytes up to 256, else
// prefix + length).
func Hex(b []byte) string {
	if len(b) <= 256 {
		return hex.EncodeToString(b)
	}
	return fmt.Sprintf("%s…(%d bytes)", hex.EncodeToString(b[:64]), len(b))
}

// FullHex is a complete hex rendering (for replay witnesses).
func FullHex(b []byte) string { return hex.EncodeToString(b) }

// Reader adapts a *rand.Rand to io.Reader (deterministic randomness for APIs
// that take an entropy source).
type Reader struct{ R *rand.Rand }

func (r Reader) Read(p []byte) (int, error) {
	for i := range p {
		p[i] = byte(r.R.Uint32())
	}
	return len(p), nil
}

//go:build race

package mon

// RaceBuild reports whether this binary was built with -race (the driver's "race" variant).
const RaceBuild = true

package mon

import (
	"regexp"
	"runtime"
	"sort"
	"strings"
	"time"
)

// GoroutineDump returns the stacks of all goroutines.
func GoroutineDump() string {
	buf := make([]byte, 1<<20)
	for {
		n := runtime.Stack(buf, true)
		if n < len(buf) {
			return string(buf[:n])
		}
		buf = make([]byte, 2*len(buf))
	}
}

// RunTimed runs fn in a new goroutine and waits up to d (a generous watchdog
// that only decides *when to look*). If fn has not returned it captures a
// goroutine dump; the goroutine is left behind. A panic in fn is returned.
func RunTimed(d time.Duration, fn func()) (done bool, pv any, pstack string, dump string) {
	type res struct {
		pv any
		st string
	}
	ch := make(chan res, 1)
	go func() {
		pv, st := Panics(fn)
		ch <- res{pv, st}
	}()
	t := time.NewTimer(d)
	defer t.Stop()
	select {
	case r := <-ch:
		return true, r.pv, r.st, ""
	case <-t.C:
		return false, nil, "", GoroutineDump()
	}
}

// G is one goroutine of a dump.
type G struct {
	ID     string
	State  string   // e.g. "chan send", "sync.Mutex.Lock", "running", "runnable", "select", "IO wait", "sleep"
	Frames []string // function names, innermost first
	Raw    string
}

var gHdr = regexp.MustCompile(`^goroutine (\d+) (?:gp=\S+ m=\S+ (?:mp=\S+ )?)?\[([^\],]+)(?:, [^\]]*)?\]:`)

// ParseDump splits a goroutine dump.
func ParseDump(dump string) []G {
	var gs []G
	for _, blk := range strings.Split(dump, "\n\n") {
		blk = strings.TrimSpace(blk)
		lines := strings.Split(blk, "\n")
		m := gHdr.FindStringSubmatch(lines[0])
		if m == nil {
			continue
		}
		g := G{ID: m[1], State: m[2], Raw: blk}
		for _, l := range lines[1:] {
			if strings.HasPrefix(l, "\t") || strings.HasPrefix(l, "created by") {
				continue
			}
			if k := strings.LastIndex(l, "("); k > 0 {
				l = l[:k]
			}
			g.Frames = append(g.Frames, l)
		}
		gs = append(gs, g)
	}
	return gs
}

// Has reports whether any frame contains sub.
func (g G) Has(sub string) bool {
	for _, f := range g.Frames {
		if strings.Contains(f, sub) {
			return true
		}
	}
	return false
}

func sig(gs []G, self string) string {
	var l []string
	for _, g := range gs {
		if g.ID == self {
			continue
		}
		l = append(l, g.ID+"|"+g.State+"|"+strings.Join(g.Frames, ";"))
	}
	sort.Strings(l)
	return strings.Join(l, "\n")
}

var parkedStates = map[string]bool{
	"chan receive": true, "chan send": true, "select": true, "select (no cases)": true,
	"chan receive (nil chan)": true, "chan send (nil chan)": true,
	"sync.Mutex.Lock": true, "sync.RWMutex.RLock": true, "sync.RWMutex.Lock": true,
	"sync.Cond.Wait": true, "sync.WaitGroup.Wait": true, "IO wait": true,
}

// Quiescent takes n dumps gap apart and reports whether the system is frozen:
// the set of goroutines, their states and stacks are identical in all dumps
// and no goroutine other than the caller (and runtime/testing helpers that
// only wait on it) is running, runnable, sleeping or in a syscall. If frozen
// is true nothing can ever change again in a closed system, so a goroutine
// parked inside an operation is parked forever. ignore lists frame substrings
// of goroutines that may be disregarded (e.g. the harness's own timers).
func Quiescent(n int, gap time.Duration, ignore ...string) (frozen bool, gs []G, dump string) {
	selfDump := make([]byte, 64)
	selfDump = selfDump[:runtime.Stack(selfDump, false)]
	self := ""
	if m := regexp.MustCompile(`^goroutine (\d+) `).FindSubmatch(selfDump); m != nil {
		self = string(m[1])
	}
	filter := func(in []G) []G {
		var out []G
	next:
		for _, g := range in {
			for _, ig := range ignore {
				if g.Has(ig) {
					continue next
				}
			}
			out = append(out, g)
		}
		return out
	}
	var prev string
	for i := 0; i < n; i++ {
		if i > 0 {
			time.Sleep(gap)
		}
		dump = GoroutineDump()
		gs = filter(ParseDump(dump))
		s := sig(gs, self)
		if i > 0 && s != prev {
			return false, gs, dump
		}
		prev = s
	}
	for _, g := range gs {
		if g.ID == self {
			continue
		}
		if !parkedStates[g.State] {
			// whitelist: only states that nothing but another goroutine of the
			// closed system can end count as parked ("GC assist wait",
			// "semacquire", "sleep", "syscall", "running", "runnable" … do not)
			return false, gs, dump
		}
	}
	return true, gs, dump
}

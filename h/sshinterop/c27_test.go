package sshinterop

// C27: Go SSH endpoints interoperate with OpenSSH for every mutually supported
// algorithm.
//
// Part 1 (the claimed direction): a real OpenSSH 9.x client binary against the
// real Go server. The verdict is OpenSSH's own: exit status, its -vvv account
// of what was negotiated, and the bytes it delivered.
//
// Part 2 (substitutes for the direction that cannot be observed here because
// the image has no sshd) lives in c27sub_test.go and is labelled as such.

import (
	"bytes"
	"fmt"
	"math/rand/v2"
	"os"
	"slices"
	"strconv"
	"strings"
	"sync/atomic"
	"testing"
	"time"

	"golang.org/x/crypto/ssh"
	"verif/ext"
	"verif/mon"
)

const (
	sshWatchdog    = 240 * time.Second // only decides when to look; expiry is never a verdict
	serverWatchdog = 60 * time.Second
)

// bgKex etc.: the fixed, modern background every one-dimensional sweep uses,
// so that a failure is attributable to the swept algorithm.
const (
	bgKex     = "curve25519-sha256"
	bgHostKey = ssh.KeyAlgoED25519
	bgCipher  = "aes128-ctr"
	bgMAC     = "hmac-sha2-256"
	bgKey     = "ed25519"
)

type algLists struct {
	kex, hostKey, cipher, mac []string // mutually supported (OpenSSH ∩ Go), in Go's order
	goOnly, sshOnly           map[string][]string
}

func sshQ(what string) ([]string, error) {
	so, se, err := ext.Run(nil, nil, sshBin, "-Q", what)
	if err != nil {
		return nil, fmt.Errorf("ssh -Q %s: %v %s", what, err, se)
	}
	return strings.Fields(so), nil
}

func intersect(goList, sshList []string) (both, goOnly, sshOnly []string) {
	for _, a := range goList {
		if slices.Contains(sshList, a) {
			both = append(both, a)
		} else {
			goOnly = append(goOnly, a)
		}
	}
	for _, a := range sshList {
		if !slices.Contains(goList, a) {
			sshOnly = append(sshOnly, a)
		}
	}
	return
}

func computeLists() (*algLists, error) {
	sup, ins := ssh.SupportedAlgorithms(), ssh.InsecureAlgorithms()
	l := &algLists{goOnly: map[string][]string{}, sshOnly: map[string][]string{}}
	for _, d := range []struct {
		q    string
		gl   []string
		dst  *[]string
		name string
	}{
		{"kex", append(allOf(sup, ins, func(a ssh.Algorithms) []string { return a.KeyExchanges }), "curve25519-sha256@libssh.org"), &l.kex, "kex"},
		{"HostKeyAlgorithms", allOf(sup, ins, func(a ssh.Algorithms) []string { return a.HostKeys }), &l.hostKey, "hostkey"},
		{"cipher", allOf(sup, ins, func(a ssh.Algorithms) []string { return a.Ciphers }), &l.cipher, "cipher"},
		{"mac", allOf(sup, ins, func(a ssh.Algorithms) []string { return a.MACs }), &l.mac, "mac"},
	} {
		sl, err := sshQ(d.q)
		if err != nil {
			return nil, err
		}
		*d.dst, l.goOnly[d.name], l.sshOnly[d.name] = intersect(d.gl, sl)
	}
	// ssh-dss host keys are outside the statement's list (Ed25519, ECDSA, RSA,
	// certificates): not part of the verdict.
	l.hostKey = slices.DeleteFunc(l.hostKey, func(a string) bool { return strings.HasPrefix(a, "ssh-dss") })
	if len(l.kex) < 8 || len(l.hostKey) < 10 || len(l.cipher) < 6 || len(l.mac) < 4 {
		return nil, fmt.Errorf("implausibly small mutual lists: %+v", l)
	}
	return l, nil
}

func isAEAD(c string) bool {
	return strings.Contains(c, "gcm@") || strings.Contains(c, "chacha20-poly1305")
}
func isCBC(c string) bool { return strings.HasSuffix(c, "-cbc") }
func isEtM(m string) bool { return strings.Contains(m, "-etm@") }

// knownBadPair: CBC ciphers with *-etm MACs are mis-framed by the package
// (known finding recorded under C25, key cbc-ignores-etm): not re-reported here.
func knownBadPair(c, m string) bool { return isCBC(c) && isEtM(m) }

// authVariant is one way the OpenSSH client authenticates.
type authVariant struct {
	key    string
	cert   bool
	pinAlg string // PubkeyAcceptedAlgorithms
}

func authVariants() []authVariant {
	var v []authVariant
	for _, kt := range clientKeyTypes {
		algs := []string{kt.format}
		if kt.format == ssh.KeyAlgoRSA {
			algs = []string{ssh.KeyAlgoRSASHA256, ssh.KeyAlgoRSASHA512, ssh.KeyAlgoRSA}
		}
		for _, a := range algs {
			v = append(v, authVariant{kt.name, false, a})
			v = append(v, authVariant{kt.name, true, a + "-cert-v01@openssh.com"})
		}
	}
	return v
}

const (
	rkNone = iota
	rkClient
	rkServer
	rkBoth
)

var rkNames = []string{"none", "client", "server", "both"}

// planItem is one planned OpenSSH connection; nil fields are filled from the
// per-case PRNG.
type planItem struct {
	class    string // which list this case belongs to
	dim      string // stable description of what the case sweeps (violation key suffix)
	c        sshCase
	size     int    // payload size; -1: random 0..200000
	rekey    int    // rk*; -1: random
	random   bool   // all algorithm dimensions random
	defaults bool   // nothing pinned: client and server defaults
	steer    string // "lz"/"hb": the Go server's ephemeral value is chosen so that K has this shape
	prefDim  string // preference-order case: the dimension whose client offer has 2-3 names in an order unlike the server's
	prefKind int    // 0 reversed, 1 rotated
	av       *authVariant
}

// sweepSize: the Go server asks for a re-key asynchronously when it handles
// the first packet after its budget is used up; more packets after that point
// make it all but certain that the exchange completes before the session ends.
func sweepSize(rk int) int {
	if rk == rkServer {
		return 65536
	}
	return 32768
}

func buildPlan(l *algLists, thorough bool) (plan []planItem, skippedKnown int) {
	bg := func() sshCase {
		return sshCase{Kex: bgKex, HostKeyAlg: bgHostKey, Cipher: bgCipher, MAC: bgMAC, KeyName: bgKey, Cmd: "cat"}
	}
	modes := func(i int) []int {
		if thorough {
			return []int{rkClient, rkServer}
		}
		return []int{rkClient + i%2}
	}
	for i, k := range l.kex {
		for _, rk := range modes(i) {
			c := bg()
			c.Kex = k
			plan = append(plan, planItem{class: "kex", dim: "kex=" + k, c: c, size: sweepSize(rk), rekey: rk})
		}
	}
	for i, h := range l.hostKey {
		for _, rk := range modes(i) {
			c := bg()
			c.HostKeyAlg = h
			plan = append(plan, planItem{class: "hostkey", dim: "hostkey=" + h, c: c, size: sweepSize(rk), rekey: rk})
		}
	}
	for _, ci := range l.cipher {
		c := bg()
		c.Cipher = ci
		plan = append(plan, planItem{class: "cipher", dim: "cipher=" + ci, c: c, size: 200000, rekey: rkBoth})
	}
	for _, ma := range l.mac {
		c := bg()
		c.MAC = ma
		plan = append(plan, planItem{class: "mac", dim: "mac=" + ma, c: c, size: 200000, rekey: rkBoth})
	}
	for _, av := range authVariants() {
		av := av
		c := bg()
		plan = append(plan, planItem{class: "userkey", dim: fmt.Sprintf("userkey=%s,cert=%v,alg=%s", av.key, av.cert, av.pinAlg), c: c, size: -2, rekey: rkNone, av: &av})
	}
	for _, n := range []int{0, 1, 2, 127, 255, -1} {
		c := bg()
		c.Cmd = "exit " + strconv.Itoa(n)
		plan = append(plan, planItem{class: "exit", dim: "exit-status", c: c, size: n, rekey: rkNone})
	}
	for _, sz := range []int{0, 1, 32768, 200000} {
		for rk := rkNone; rk <= rkBoth; rk++ {
			plan = append(plan, planItem{class: "size", dim: fmt.Sprintf("size=%d,rekey=%s", sz, rkNames[rk]), c: bg(), size: sz, rekey: rk})
		}
	}
	for _, k := range l.kex {
		if !steerableByRand(k) {
			continue
		}
		for _, mode := range []string{"lz", "hb"} {
			c := bg()
			c.Kex = k
			rk, size := rkClient, 40000 // the re-keys are steered too
			if strings.Contains(k, "group-exchange") || strings.Contains(k, "group16") {
				rk, size = rkNone, 5000 // large groups: one steered exchange
			}
			plan = append(plan, planItem{class: "steer", dim: "kex=" + k + ",K=" + mode, c: c, size: size, rekey: rk, steer: mode})
		}
	}
	nper := 2
	if thorough {
		nper = 8
	}
	for _, d := range prefDims {
		for k := 0; k < nper; k++ {
			plan = append(plan, planItem{class: "pref", dim: fmt.Sprintf("preference-order:%s:%s", d, []string{"reversed", "rotated"}[k%2]), c: bg(), size: 32768, rekey: rkClient + k/2%2, prefDim: d, prefKind: k})
		}
	}
	for _, rk := range []int{rkNone, rkBoth} {
		// nothing pinned on either side: OpenSSH's default proposal against the package's default config
		plan = append(plan, planItem{class: "defaults", dim: "defaults,rekey=" + rkNames[rk], c: sshCase{KeyName: bgKey, Cmd: "cat"}, size: 65536, rekey: rk, defaults: true})
	}
	nmix := 10
	if thorough {
		nmix = 60
	}
	for i := 0; i < nmix; i++ {
		plan = append(plan, planItem{class: "mix", dim: "mix", c: bg(), size: -1, rekey: -1, random: true})
	}
	for _, ci := range l.cipher {
		for _, ma := range l.mac {
			if knownBadPair(ci, ma) {
				skippedKnown++
			}
		}
	}
	if thorough {
		i := 0
		for _, k := range l.kex {
			for _, h := range l.hostKey {
				c := bg()
				c.Kex, c.HostKeyAlg = k, h
				plan = append(plan, planItem{class: "kexXhostkey", dim: "kex=" + k + ",hostkey=" + h, c: c, size: 20000, rekey: rkClient + i%2})
				i++
			}
		}
		for _, ci := range l.cipher {
			macs := l.mac
			if isAEAD(ci) {
				macs = l.mac[:1] // the MAC is not used: one case
			}
			for _, ma := range macs {
				if knownBadPair(ci, ma) {
					continue
				}
				c := bg()
				c.Cipher, c.MAC = ci, ma
				plan = append(plan, planItem{class: "cipherXmac", dim: "cipher=" + ci + ",mac=" + ma, c: c, size: 100000, rekey: rkBoth})
			}
		}
	}
	return plan, skippedKnown
}

// resolve fills the PRNG-determined parts of a planned case.
func (p planItem) resolve(l *algLists, r *rand.Rand) (sshCase, authVariant, int) {
	c := p.c
	avs := authVariants()
	av := authVariant{bgKey, false, ""}
	if p.av != nil {
		av = *p.av
	}
	if p.random {
		c.Kex = mon.Pick(r, l.kex)
		c.HostKeyAlg = mon.Pick(r, l.hostKey)
		for {
			c.Cipher, c.MAC = mon.Pick(r, l.cipher), mon.Pick(r, l.mac)
			if !knownBadPair(c.Cipher, c.MAC) {
				break
			}
		}
		av = mon.Pick(r, avs)
	}
	if p.prefDim != "" {
		// the lists are in the Go server's order (Supported ++ Insecure; host keys
		// in AddHostKey order); what the server really sent is read from the log
		switch p.prefDim {
		case "kex":
			o := prefOffer(r, slices.DeleteFunc(slices.Clone(l.kex), func(k string) bool { return strings.HasSuffix(k, "@libssh.org") }), p.prefKind)
			c.KexOffer, c.Kex = strings.Join(o, ","), o[0]
		case "hostkey":
			o := prefOffer(r, slices.DeleteFunc(goServerOrder("hostkey"), func(h string) bool { return !slices.Contains(l.hostKey, h) }), p.prefKind)
			c.HostKeyOffer, c.HostKeyAlg = strings.Join(o, ","), o[0]
		case "cipher":
			o := prefOffer(r, l.cipher, p.prefKind)
			c.CipherOffer, c.Cipher = strings.Join(o, ","), o[0]
		case "mac":
			o := prefOffer(r, l.mac, p.prefKind) // background cipher aes128-ctr: MAC in use, no CBC
			c.MACOffer, c.MAC = strings.Join(o, ","), o[0]
		}
	}
	c.KeyName, c.UseCert, c.PubkeyAlg = av.key, av.cert, av.pinAlg
	rk := p.rekey
	if rk < 0 {
		rk = r.IntN(4)
	}
	if rk == rkClient || rk == rkBoth {
		c.ClientRekey = "16K"
	}
	if rk == rkServer || rk == rkBoth {
		c.ServerRekey = 16384
	}
	size := p.size
	switch {
	case p.class == "exit":
		n := p.size
		if n < 0 {
			n = r.IntN(256)
			c.Cmd = "exit " + strconv.Itoa(n)
		}
		size = 0
	case size == -1:
		if r.IntN(2) == 0 {
			size = r.IntN(200001)
		} else {
			size = mon.LogUniform(r, 0, 200000)
		}
	case size == -2:
		size = 1 + r.IntN(4096)
	}
	c.Payload = mon.Bytes(r, size)
	return c, av, rk
}

// ---- stall probe ------------------------------------------------------------

func procStat(pid int) (state string, ticks uint64, ok bool) {
	b, err := os.ReadFile(fmt.Sprintf("/proc/%d/stat", pid))
	if err != nil {
		return "", 0, false
	}
	s := string(b)
	k := strings.LastIndex(s, ")")
	if k < 0 {
		return "", 0, false
	}
	f := strings.Fields(s[k+1:])
	if len(f) < 13 {
		return "", 0, false
	}
	ut, _ := strconv.ParseUint(f[11], 10, 64)
	st, _ := strconv.ParseUint(f[12], 10, 64)
	return f[0], ut + st, true
}

// tcpQueues sums the tx/rx queue sizes of every loopback TCP socket that uses
// the port (both ends of the connection live on this host).
func tcpQueues(port int) (sum uint64, n int) {
	b, err := os.ReadFile("/proc/net/tcp")
	if err != nil {
		return 0, 0
	}
	hp := fmt.Sprintf(":%04X", port)
	for _, ln := range strings.Split(string(b), "\n")[1:] {
		f := strings.Fields(ln)
		if len(f) < 5 || f[3] != "01" { // ESTABLISHED only
			continue
		}
		if !strings.HasSuffix(f[1], hp) && !strings.HasSuffix(f[2], hp) {
			continue
		}
		q := strings.Split(f[4], ":")
		if len(q) != 2 {
			continue
		}
		a, _ := strconv.ParseUint(q[0], 16, 64)
		c, _ := strconv.ParseUint(q[1], 16, 64)
		sum += a + c
		n++
	}
	return
}

type stallInfo struct {
	Frozen bool
	Where  string
	Detail map[string]any
}

// probeStall decides whether the whole closed system (Go process, OpenSSH
// client process, the loopback socket between them) is frozen: identical
// goroutine dumps with nobody runnable, the client asleep without consuming
// CPU, nothing in flight in the socket queues.
func probeStall(pid, port int) stallInfo {
	st0, t0, ok0 := procStat(pid)
	goFrozen, gs, dump := mon.Quiescent(3, 500*time.Millisecond, "os/exec.", "os.(*Process)", "sshinterop.runSSH", "testing.", "os/signal.")
	st1, t1, ok1 := procStat(pid)
	q, nq := tcpQueues(port)
	info := stallInfo{Detail: map[string]any{"go_frozen": goFrozen, "ssh_state": st0 + "/" + st1, "ssh_cpu_ticks": []uint64{t0, t1}, "socket_queue_bytes": q, "sockets": nq, "dump": dump}}
	where := ""
	for _, g := range gs {
		if !g.Has("sshinterop.(*goServer).session") {
			continue
		}
		for _, f := range g.Frames {
			if strings.HasPrefix(f, "golang.org/x/crypto/") {
				where = strings.TrimPrefix(f, "golang.org/x/crypto/") + "[" + g.State + "]"
				break
			}
		}
	}
	info.Where = where
	info.Frozen = goFrozen && ok0 && ok1 && st0 == "S" && st1 == "S" && t0 == t1 && nq == 2 && q == 0 && where != ""
	return info
}

// ---- one connection -----------------------------------------------------------

type env struct {
	stalls atomic.Int32
	m      *mon.M
	lists  *algLists
	mt     *material
}

func sizeClass(n int) string {
	switch {
	case n == 0:
		return "0"
	case n == 1:
		return "1"
	case n < 16384:
		return "<16K"
	case n == 32768:
		return "32K"
	case n == 65536:
		return "64K"
	case n < 100000:
		return "<100K"
	case n == 200000:
		return "200K"
	}
	return "<=200K"
}

func failStage(l sshLog, log string) string {
	low := strings.ToLower(log)
	packet := strings.Contains(low, "bad packet length") || strings.Contains(low, "corrupted mac") || strings.Contains(low, "message authentication code incorrect") || strings.Contains(low, "padding error")
	switch {
	case l.NewKeysRx == 0:
		switch {
		case strings.Contains(low, "incorrect signature") || strings.Contains(low, "signature verification failed") || strings.Contains(low, "bad signature") || strings.Contains(low, "kex_verify_host_key"):
			return "kex-hostsig"
		case l.HostKeyVerifyFailed:
			return "hostkey-check"
		case strings.Contains(low, "no matching") || strings.Contains(low, "unable to negotiate"):
			return "negotiation"
		case strings.Contains(low, "invalid format"):
			return "kex-reply-invalid-format"
		case packet:
			return "kex-packet"
		}
		return "kex"
	case !l.Authenticated:
		if packet {
			return "packet-after-newkeys"
		}
		return "auth"
	case len(l.Kex) >= 2 && l.NewKeysRx < len(l.Kex):
		return "rekey"
	case packet:
		return "session-packet"
	}
	return "session"
}

func (e *env) runOpenSSH(p planItem, i int64, r *rand.Rand) {
	m := e.m
	c, _, rk := p.resolve(e.lists, r)
	key := e.mt.client.keys[c.KeyName]
	var steer *steerRand
	if p.steer != "" {
		steer = newSteerRand(c.Kex, p.steer)
	}
	srv, err := startServer(e.mt.host, serverOpts{expectKey: key.Pub, wantCert: c.UseCert, userCA: e.mt.client.userCA, rekeyThreshold: c.ServerRekey, defaults: p.defaults, steer: steer})
	if err != nil {
		m.Inconclusive("cannot listen on loopback: " + err.Error())
		return
	}
	port := srv.port()
	var stall *stallInfo
	res := runSSH(c.args(e.mt, port), c.Payload, e.watchdog(sshWatchdog), func(pid int) { s := probeStall(pid, port); stall = &s })
	// never wait unboundedly for the Go side: it may be the party that is stuck
	finished := !res.TimedOut && srv.waitDone(serverWatchdog)
	srv.stop()
	if !finished {
		srv.waitDone(10 * time.Second) // a server goroutine that still hangs is left behind
	}
	rep := srv.report()
	l := parseSSHLog(res.Log)
	desc := map[string]any{
		"class": p.class, "dim": p.dim, "kex": c.Kex, "hostkey_alg": c.HostKeyAlg, "cipher": c.Cipher, "mac": c.MAC,
		"user_key": c.KeyName, "user_cert": c.UseCert, "pubkey_alg": c.PubkeyAlg, "cmd": c.Cmd, "payload_len": len(c.Payload),
		"rekey": rkNames[rk], "argv": strings.Join(c.args(e.mt, port), " "),
	}
	prefOffer, prefServerFirst := "", ""
	if p.prefDim != "" {
		prefOffer = map[string]string{"kex": c.KexOffer, "hostkey": c.HostKeyOffer, "cipher": c.CipherOffer, "mac": c.MACOffer}[p.prefDim]
		if sp := serverProposal(res.Log); sp != nil {
			prefServerFirst = serverFirst(sp[p.prefDim], strings.Split(prefOffer, ","))
		}
		desc["preference"] = map[string]any{"dimension": p.prefDim, "client_offer": prefOffer, "expected_rfc4253_7_1": strings.Split(prefOffer, ",")[0], "server_preference_would_pick": prefServerFirst}
	}
	if steer != nil {
		served, confirmed, tries, failed := steer.stats()
		desc["steered_shape_of_K"] = map[string]any{"shape": p.steer, "exchanges_served": served, "confirmed_by_tapped_K": confirmed, "candidates_tried": tries, "search_failures": failed}
	}
	witness := func(extra map[string]any) map[string]any {
		w := map[string]any{"case": desc, "ssh_exit": res.Exit, "ssh_stdout_len": len(res.Stdout), "go_server": rep.String(),
			"openssh_says": l.FatalLines, "ssh_log_tail": tailLog(res.Log, 7000), "payload_hex": mon.Hex(c.Payload)}
		for k, v := range extra {
			w[k] = v
		}
		return w
	}
	if !res.Started {
		m.Inconclusive("cannot start " + sshBin + ": " + res.Err)
		return
	}
	m.Count("openssh_connections", 1)
	if res.TimedOut {
		m.Count("openssh_watchdog", 1)
		if stall != nil && stall.Frozen {
			e.stalls.Add(1)
			m.Eval()
			m.Violation("stall:openssh-client-vs-go-server:"+stall.Where, witness(stall.Detail))
			return
		}
		why := "not frozen"
		if stall != nil {
			why = fmt.Sprintf("go_frozen=%v ssh=%v queues=%v where=%q", stall.Detail["go_frozen"], stall.Detail["ssh_state"], stall.Detail["socket_queue_bytes"], stall.Where)
		}
		m.Inconclusive(fmt.Sprintf("openssh case %d (%s) exceeded the %v watchdog (%s)", i, p.dim, sshWatchdog, why))
		return
	}
	if res.Exit < 0 || res.Err != "" {
		m.Inconclusive(fmt.Sprintf("openssh case %d (%s): client process ended abnormally: %s", i, p.dim, res.Err))
		return
	}
	m.Eval()
	bad := func(kind string, extra map[string]any) {
		m.Violation("openssh-client-vs-go-server:"+kind+":"+p.dim, witness(extra))
	}
	ok := true
	wantExit := 0
	if p.class == "exit" {
		wantExit, _ = strconv.Atoi(strings.TrimPrefix(c.Cmd, "exit "))
	}
	// 1. OpenSSH's verdict
	if !l.Authenticated || (res.Exit == 255 && wantExit != 255) || (res.Exit == 255 && l.ExitStatus != 255) {
		bad(failStage(l, res.Log), nil)
		return
	}
	if res.Exit != wantExit || l.ExitStatus != wantExit {
		bad("exit-status", map[string]any{"want_exit": wantExit, "openssh_logged_exit_status": l.ExitStatus})
		ok = false
	}
	// 2. what OpenSSH says was negotiated, at every key exchange
	if len(l.Kex) == 0 || len(l.Kex) != len(l.HostKeyAlg) || len(l.Kex) != len(l.S2C) || len(l.Kex) != len(l.C2S) {
		m.Inconclusive(fmt.Sprintf("openssh case %d: cannot parse the client's -vvv account", i))
		return
	}
	if p.defaults {
		// nothing was pinned: what OpenSSH negotiated first is the expectation for
		// every later exchange and for the Go side's account
		if l.S2C[0] != l.C2S[0] {
			m.Inconclusive(fmt.Sprintf("openssh case %d: defaults negotiated different algorithms per direction", i))
			return
		}
		c.Kex, c.HostKeyAlg, c.Cipher, c.MAC = l.Kex[0], l.HostKeyAlg[0], l.S2C[0][0], l.S2C[0][1]
		desc["negotiated_by_defaults"] = []string{c.Kex, c.HostKeyAlg, c.Cipher, c.MAC}
	}
	wantMAC := c.MAC
	if isAEAD(c.Cipher) {
		wantMAC = "<implicit>"
	}
	for k := range l.Kex {
		if l.Kex[k] != c.Kex || l.HostKeyAlg[k] != c.HostKeyAlg || l.S2C[k] != [2]string{c.Cipher, wantMAC} || l.C2S[k] != [2]string{c.Cipher, wantMAC} {
			bad("negotiated-other", map[string]any{"exchange": k, "openssh_negotiated": []any{l.Kex[k], l.HostKeyAlg[k], l.S2C[k], l.C2S[k]}})
			ok = false
			break
		}
	}
	// 3. the Go side's account
	if rep.HandshakeErr != "" || rep.Algs == nil {
		bad("go-server-handshake-error", nil)
		return
	}
	a := rep.Algs
	macOK := func(d ssh.DirectionAlgorithms) bool { return d.MAC == c.MAC || isAEAD(c.Cipher) }
	if a.KeyExchange != c.Kex || a.HostKey != c.HostKeyAlg || a.Read.Cipher != c.Cipher || a.Write.Cipher != c.Cipher || !macOK(a.Read) || !macOK(a.Write) {
		bad("go-algorithms-differ", nil)
		ok = false
	}
	wantKeyType := key.Format
	if c.UseCert {
		wantKeyType += "-cert-v01@openssh.com"
	}
	if rep.User != sshUser || rep.AuthKeyType != wantKeyType {
		bad("auth-key-type", map[string]any{"want_key_type": wantKeyType})
		ok = false
	}
	if len(rep.Execs) != 1 || rep.Execs[0] != c.Cmd {
		bad("exec-command", nil)
		ok = false
	}
	if len(rep.SessionErrs) > 0 {
		bad("go-session-error", nil)
		ok = false
	}
	// 4. data, byte for byte
	if p.class != "exit" && (!bytes.Equal(res.Stdout, c.Payload) || rep.CatBytes != len(c.Payload)) {
		first := 0
		for first < len(res.Stdout) && first < len(c.Payload) && res.Stdout[first] == c.Payload[first] {
			first++
		}
		bad("data-mismatch", map[string]any{"first_difference_at": first, "stdout_hex": mon.Hex(res.Stdout)})
		ok = false
	}
	if p.class == "exit" && len(res.Stdout) != 0 {
		bad("data-mismatch", map[string]any{"stdout_hex": mon.Hex(res.Stdout)})
		ok = false
	}
	if !finished {
		m.Inconclusive(fmt.Sprintf("openssh case %d (%s): Go server connection did not end within %v after the client exited", i, p.dim, serverWatchdog))
		return
	}
	if !ok {
		return
	}
	// ---- evidence ----
	m.Count("openssh_ok", 1)
	m.Count("openssh_ok_"+p.class, 1)
	if p.prefDim != "" {
		if prefServerFirst != "" && prefServerFirst != strings.Split(prefOffer, ",")[0] {
			m.Count("openssh_pref_first_choices_differ_"+p.prefDim, 1)
		} else {
			m.Count("openssh_pref_not_discriminating", 1)
		}
	}
	if steer != nil {
		_, confirmed, tries, _ := steer.stats()
		m.Count("openssh_steer_candidates_tried", tries)
		m.Count("openssh_steered_exchanges_"+p.steer, confirmed)
		m.Count(fmt.Sprintf("steered %s kex %s", p.steer, c.Kex), confirmed)
		if confirmed >= 1 {
			m.Count("openssh_steered_cases_"+p.steer, 1)
		} else {
			m.Count("openssh_steer_unconfirmed", 1)
		}
	}
	m.Count("openssh_key_exchanges", len(l.Kex))
	m.Count("openssh_rekeys_client_initiated", l.ClientInit)
	m.Count("openssh_rekeys_server_initiated", l.ServerInit)
	if len(l.Kex) >= 2 {
		m.Count("openssh_connections_with_rekey", 1)
		m.Count("rekeyed kex "+c.Kex, 1)
		m.Count("rekeyed hostkey "+c.HostKeyAlg, 1)
		m.Count("rekeyed cipher "+c.Cipher, 1)
		if !isAEAD(c.Cipher) {
			m.Count("rekeyed mac "+c.MAC, 1)
		}
	}
	m.Count("ok kex "+c.Kex, 1)
	m.Count("ok hostkey "+c.HostKeyAlg, 1)
	m.Count("ok cipher "+c.Cipher, 1)
	if !isAEAD(c.Cipher) {
		m.Count("ok mac "+c.MAC, 1)
	}
	m.Count(fmt.Sprintf("ok userauth %s", wantKeyType), 1)
	if len(l.SignAlgs) > 0 {
		m.Count("ok userauth signature "+l.SignAlgs[len(l.SignAlgs)-1], 1)
	}
	if strings.Contains(c.HostKeyAlg, "-cert-") {
		m.Count("openssh_ok_host_certificate", 1)
	}
	if c.UseCert {
		m.Count("openssh_ok_user_certificate", 1)
	}
	if p.class == "exit" {
		m.Count("openssh_exit_status_cases", 1)
		if wantExit != 0 {
			m.Count("openssh_exit_status_nonzero", 1)
		}
	} else {
		m.Count("openssh_bytes_echoed", len(c.Payload))
		m.Count("openssh_payload_"+sizeClass(len(c.Payload)), 1)
	}
	m.Distinct(fmt.Sprintf("openssh %s %s %s %s %s key=%s cert=%v alg=%s size=%s rekey=%s cmd=%s", p.class, c.Kex, c.HostKeyAlg, c.Cipher, c.MAC, c.KeyName, c.UseCert, c.PubkeyAlg, sizeClass(len(c.Payload)), rkNames[rk], strings.Fields(c.Cmd)[0]))
	if p.class == "mix" || (p.class == "kex" && strings.Contains(c.Kex, "group-exchange")) || (p.class == "steer" && i%3 == 0) || (p.class == "pref" && i%2 == 0) {
		delete(desc, "argv")
		m.Sample(map[string]any{"part": "openssh->go", "case": desc, "ssh_exit": res.Exit, "key_exchanges": len(l.Kex), "client_initiated_rekeys": l.ClientInit, "server_initiated_rekeys": l.ServerInit, "openssh_sign_alg": l.SignAlgs, "go_server": rep.String()})
	}
}

// controls: the oracle must be able to say no.
func (e *env) runControl(which int) {
	m := e.m
	c := sshCase{Kex: bgKex, HostKeyAlg: bgHostKey, Cipher: bgCipher, MAC: bgMAC, KeyName: bgKey, Cmd: "cat", Payload: []byte("control")}
	name := "wrong-known-hosts"
	if which == 0 {
		c.KnownHosts = e.mt.host.wrongHosts
	} else {
		name = "unknown-user-key"
		c.Identity = e.mt.client.stranger
	}
	srv, err := startServer(e.mt.host, serverOpts{expectKey: e.mt.client.keys[bgKey].Pub, userCA: e.mt.client.userCA})
	if err != nil {
		m.Inconclusive("cannot listen on loopback: " + err.Error())
		return
	}
	res := runSSH(c.args(e.mt, srv.port()), c.Payload, sshWatchdog, nil)
	srv.stop()
	srv.waitDone(10 * time.Second)
	l := parseSSHLog(res.Log)
	refused := res.Started && !res.TimedOut && res.Exit == 255 && !l.Authenticated && len(res.Stdout) == 0 &&
		((which == 0 && l.HostKeyVerifyFailed) || (which == 1 && l.PermissionDenied))
	if !refused {
		m.Inconclusive(fmt.Sprintf("negative control %s: the OpenSSH client did not refuse (exit %d, %v): its verdict cannot be trusted here", name, res.Exit, l.FatalLines))
		return
	}
	m.Count("control_refused_"+name, 1)
}

func TestC27(t *testing.T) {
	m := mon.New(t, "C27")
	defer m.Done()
	m.Rule("Part 1 (claimed: Go server <- OpenSSH client): a fixed plan of real /usr/bin/ssh invocations against a real ssh.NewServerConn server on loopback TCP, one algorithm pinned per dimension on the client (-o KexAlgorithms/HostKeyAlgorithms/Ciphers/MACs/PubkeyAcceptedAlgorithms), the server offering everything it implements. " +
		"Lists = `ssh -Q` ∩ SupportedAlgorithms()+InsecureAlgorithms() computed at run time. Plan: every kex, host key algorithm (plain and -cert-v01 through a @cert-authority line), cipher, MAC and user key/certificate/signature algorithm once against a fixed background (32 KiB or 200 KB echoed through `cat`, re-key forced by RekeyLimit=16K and/or Config.RekeyThreshold=16384), preference-order cases (client offers 2-3 algorithms of one dimension reversed/rotated against the server's order, first choices differing; expectation RFC 4253 7.1 = the client's first supported choice, in both directions), exit-status values, payload sizes {0,1,32 KiB,200 KB} x re-key initiator {none,client,server,both}, sessions in which the shape of K is forced at every exchange (leading 00 + byte < 0x80; top bit set) for every kex whose server-side ephemeral value comes from Config.Rand (curve25519 x2, DH fixed groups, group exchange), PRNG-determined mixed configurations with payloads 0..200000; thorough adds the kex x hostkey and cipher x MAC products. " +
		"A case is distinct by (class, algorithms, key, size class, re-key mode). Verdict = OpenSSH's exit status and -vvv account + byte equality + the Go side's Algorithms()/auth/exec record. " +
		"Part 2 (substitutes, NOT OpenSSH interoperability evidence): real Go client against sshref.Peer (independent implementation) in server role for every kex it implements and every cipher x MAC; real Go client against steerPeer (independent server that picks its ephemeral key last) with the same two shapes of K forced for curve25519, ECDH P-256/384/521 and DH group1/14/16; real Go client <-> real Go server for every kex and host key algorithm with the captured byte stream decrypted by sshref from the tapped K/H and the exchange hash recomputed by ref/sshkexhash.")
	m.Assume("OpenSSH 9.x client (/usr/bin/ssh, ssh-keygen) is the oracle of part 1; its -vvv log format is parsed (a log that cannot be parsed is inconclusive, never a violation)")
	m.Assume("key material is fresh per process (crypto/rand, ssh-keygen) and OpenSSH's ephemeral values cannot be seeded: the plan and payloads are a pure function of the seed, the key values are not")
	m.Assume("sshref (own vector tests) and ref/sshkexhash (RFC vectors) for part 2")
	m.Note("There is no sshd in this image: the direction Go client -> OpenSSH server is NOT observed. Part 2 results are substitutes and are labelled sub_* in the counters.")

	lists, err := computeLists()
	if err != nil {
		m.Inconclusive("algorithm lists: " + err.Error())
		return
	}
	mt, err := getMaterial()
	if err != nil {
		m.Inconclusive("key material: " + err.Error())
		return
	}
	e := &env{m: m, lists: lists, mt: mt}
	for _, d := range []string{"kex", "hostkey", "cipher", "mac"} {
		m.Note(fmt.Sprintf("%s: not mutual — Go only %v, OpenSSH only %v", d, lists.goOnly[d], lists.sshOnly[d]))
	}
	m.Note("CBC ciphers x *-etm MACs are skipped: known finding C25 cbc-ignores-etm (OpenSSH refuses with Bad packet length); counted as skipped_known_c25_cbc_etm")

	plan, skipped := buildPlan(lists, m.Thorough())
	if parts := os.Getenv("SSHINTEROP_PARTS"); parts != "" && !strings.Contains(parts, "openssh") {
		plan = nil // development aid
	}
	m.Each("controls", 2, func(i int64, r *rand.Rand) { e.runControl(int(i)) })
	m.Each("skipped", 1, func(i int64, r *rand.Rand) { m.Count("skipped_known_c25_cbc_etm", skipped) })
	m.Cases("openssh", len(plan), func(i int64, r *rand.Rand) { e.runOpenSSH(plan[i], i, r) })

	e.runSubstitutes()

	nav := len(authVariants())
	if m.Thorough() {
		nprod := 0
		for _, p := range plan {
			if p.class == "cipherXmac" {
				nprod++
			}
		}
		m.Gate("openssh_ok_kexXhostkey", len(lists.kex)*len(lists.hostKey), "thorough: the full kex x host key algorithm product")
		m.Gate("openssh_ok_cipherXmac", nprod, "thorough: the full cipher x MAC product (AEAD ciphers once, known CBC x EtM pairs skipped)")
	}
	m.Gate("openssh_ok_kex", len(lists.kex), "every mutually supported key exchange completed with the OpenSSH client at least once")
	m.Gate("openssh_ok_hostkey", len(lists.hostKey), "every mutually supported host key algorithm (plain and certificate) was accepted by the OpenSSH client")
	m.Gate("openssh_ok_cipher", len(lists.cipher), "every mutually supported cipher carried 200 KB each way")
	m.Gate("openssh_ok_mac", len(lists.mac), "every mutually supported MAC carried 200 KB each way")
	m.Gate("openssh_ok_userkey", nav, "every user key type / certificate / signature algorithm authenticated")
	m.Gate("openssh_exit_status_nonzero", 4, "non-zero exit-status values delivered")
	m.Gate("openssh_rekeys_client_initiated", 20, "re-keys started by the OpenSSH client (RekeyLimit)")
	for _, d := range prefDims {
		m.Gate("openssh_pref_first_choices_differ_"+d, 2, "OpenSSH client offering 2-3 "+d+" algorithms in an order unlike the Go server's, first choices differing (server's order read from the client's log): the client's first choice must be negotiated in both directions and the session must work")
	}
	nsteer := 0
	var unsteerable []string
	for _, k := range lists.kex {
		if steerableByRand(k) {
			nsteer++
		} else {
			unsteerable = append(unsteerable, k)
		}
	}
	m.Note(fmt.Sprintf("shape of K steered through ServerConfig.Rand for %d kex; not steerable (Go 1.26 ecdsa.GenerateKey ignores a custom reader): %v — those are steered only in part 2a (independent server chooses its key last)", nsteer, unsteerable))
	m.Gate("openssh_steered_cases_lz", nsteer, "OpenSSH client sessions in which the Go server's K was forced to start with 00 followed by a byte < 0x80 (mpint one byte shorter), per steerable kex, confirmed through the tapped K")
	m.Gate("openssh_steered_cases_hb", nsteer, "OpenSSH client sessions in which the Go server's K was forced to have its top bit set (mpint needs a 00 pad), per steerable kex")
	m.Gate("openssh_ok_defaults", 2, "unpinned OpenSSH client against the default server configuration")
	m.Gate("openssh_rekeys_server_initiated", 10, "re-keys started by the Go server (RekeyThreshold)")
	m.Gate("openssh_payload_0", 4, "empty payload")
	m.Gate("openssh_payload_1", 4, "one-byte payload")
	m.Gate("openssh_payload_200K", 4, "200 KB payload")
	m.Gate("control_refused_wrong-known-hosts", 1, "the OpenSSH client refuses a server whose host key is not the known one")
	m.Gate("control_refused_unknown-user-key", 1, "the Go server refuses a key that is not the expected one")
}

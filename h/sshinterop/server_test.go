package sshinterop

// The real Go server the OpenSSH client talks to: ssh.NewServerConn on an
// accepted loopback TCP connection, public-key authentication through
// PublicKeyCallback, "session" channels with exec requests:
//
//	cat      echo stdin to stdout until EOF, then exit-status 0
//	exit N   exit-status N
//
// Everything else is refused. The server reports what it saw.

import (
	"bytes"
	"encoding/binary"
	"errors"
	"fmt"
	"io"
	"net"
	"os"
	"strconv"
	"strings"
	"sync"
	"testing"
	"time"

	"golang.org/x/crypto/ssh"
)

func TestMain(m *testing.M) {
	rc := m.Run()
	if mat != nil && os.Getenv("VERIF_SCRATCH_DIR") == "" {
		os.RemoveAll(mat.dir)
	}
	os.Exit(rc)
}

func allOf(a ssh.Algorithms, b ssh.Algorithms, f func(ssh.Algorithms) []string) []string {
	return append(append([]string(nil), f(a)...), f(b)...)
}

// serverOpts selects what one server instance accepts.
type serverOpts struct {
	// expectKey: the public key that must authenticate; wantCert: it must be
	// presented inside a certificate issued by userCA.
	expectKey      ssh.PublicKey
	wantCert       bool
	userCA         ssh.PublicKey
	rekeyThreshold uint64     // 0: package default (no server-initiated re-key in these transfers)
	defaults       bool       // leave every algorithm list to the package defaults
	steer          *steerRand // non-nil: Config.Rand + tap that steer the shape of K (steer_test.go)
}

// serverReport is what the Go side observed on one connection.
type serverReport struct {
	HandshakeErr string
	User         string
	ClientVer    string
	Algs         *ssh.NegotiatedAlgorithms
	AuthKeyType  string // type of the key the accepted request carried
	AuthOffers   []string
	Execs        []string
	CatBytes     int
	SessionErrs  []string
	WaitErr      string
}

type goServer struct {
	ln   net.Listener
	done chan struct{}
	mu   sync.Mutex
	rep  serverReport
	conn net.Conn
}

func (s *goServer) note(f func(r *serverReport)) { s.mu.Lock(); f(&s.rep); s.mu.Unlock() }

func (s *goServer) report() serverReport {
	s.mu.Lock()
	defer s.mu.Unlock()
	r := s.rep
	r.AuthOffers = append([]string(nil), r.AuthOffers...)
	r.Execs = append([]string(nil), r.Execs...)
	r.SessionErrs = append([]string(nil), r.SessionErrs...)
	return r
}

func (s *goServer) port() int { return s.ln.Addr().(*net.TCPAddr).Port }

// stop closes listener and connection (used after the client exited or the
// watchdog fired).
func (s *goServer) stop() {
	s.ln.Close()
	s.mu.Lock()
	c := s.conn
	s.mu.Unlock()
	if c != nil {
		c.Close()
	}
}

// waitDone waits (bounded) for the serving goroutine to end.
func (s *goServer) waitDone(d time.Duration) bool {
	t := time.NewTimer(d)
	defer t.Stop()
	select {
	case <-s.done:
		return true
	case <-t.C:
		return false
	}
}

func newServerConfig(hs *hostKeySet, o serverOpts, s *goServer) *ssh.ServerConfig {
	sup, ins := ssh.SupportedAlgorithms(), ssh.InsecureAlgorithms()
	cfg := &ssh.ServerConfig{}
	if !o.defaults {
		cfg.KeyExchanges = allOf(sup, ins, func(a ssh.Algorithms) []string { return a.KeyExchanges })
		cfg.Ciphers = allOf(sup, ins, func(a ssh.Algorithms) []string { return a.Ciphers })
		cfg.MACs = allOf(sup, ins, func(a ssh.Algorithms) []string { return a.MACs })
		cfg.PublicKeyAuthAlgorithms = allOf(sup, ins, func(a ssh.Algorithms) []string { return a.PublicKeyAuths })
	}
	cfg.RekeyThreshold = o.rekeyThreshold
	hs.addAll(cfg)
	checker := &ssh.CertChecker{IsUserAuthority: func(auth ssh.PublicKey) bool {
		return o.userCA != nil && bytes.Equal(auth.Marshal(), o.userCA.Marshal())
	}}
	cfg.PublicKeyCallback = func(c ssh.ConnMetadata, key ssh.PublicKey) (*ssh.Permissions, error) {
		s.note(func(r *serverReport) { r.AuthOffers = append(r.AuthOffers, key.Type()) })
		if c.User() != sshUser || o.expectKey == nil {
			return nil, errors.New("unknown user")
		}
		if o.wantCert {
			cert, ok := key.(*ssh.Certificate)
			if !ok || !bytes.Equal(cert.Key.Marshal(), o.expectKey.Marshal()) {
				return nil, errors.New("certificate for the expected key required")
			}
			if _, err := checker.Authenticate(c, key); err != nil {
				return nil, err
			}
		} else if !bytes.Equal(key.Marshal(), o.expectKey.Marshal()) {
			return nil, errors.New("not the expected key")
		}
		return &ssh.Permissions{Extensions: map[string]string{"verif-key-type": key.Type()}}, nil
	}
	return cfg
}

// startServer listens on 127.0.0.1:0 and serves exactly one connection.
func startServer(hs *hostKeySet, o serverOpts) (*goServer, error) {
	ln, err := net.Listen("tcp", "127.0.0.1:0")
	if err != nil {
		return nil, err
	}
	s := &goServer{ln: ln, done: make(chan struct{})}
	cfg := newServerConfig(hs, o, s)
	go func() {
		defer close(s.done)
		nc, err := ln.Accept()
		if err != nil {
			s.note(func(r *serverReport) { r.HandshakeErr = "accept: " + err.Error() })
			return
		}
		s.mu.Lock()
		s.conn = nc
		s.mu.Unlock()
		defer nc.Close()
		var conn *ssh.ServerConn
		var chans <-chan ssh.NewChannel
		var reqs <-chan *ssh.Request
		if o.steer != nil {
			// same code below the prologue; the tap tells the Rand reader the
			// client's ephemeral value before the server draws its own
			cfg.Rand = o.steer
			conn, chans, reqs, err = ssh.VerifNewServerConn(nc, cfg, o.steer.tap())
		} else {
			conn, chans, reqs, err = ssh.NewServerConn(nc, cfg)
		}
		if err != nil {
			s.note(func(r *serverReport) { r.HandshakeErr = err.Error() })
			return
		}
		s.note(func(r *serverReport) {
			r.User = conn.User()
			r.ClientVer = string(conn.ClientVersion())
			if am, ok := conn.Conn.(ssh.AlgorithmsConnMetadata); ok {
				a := am.Algorithms()
				r.Algs = &a
			}
			if conn.Permissions != nil {
				r.AuthKeyType = conn.Permissions.Extensions["verif-key-type"]
			}
		})
		go func() {
			for rq := range reqs {
				if rq.WantReply {
					rq.Reply(false, nil)
				}
			}
		}()
		var wg sync.WaitGroup
		chansDone := make(chan struct{})
		go func() {
			defer close(chansDone)
			for nch := range chans {
				if nch.ChannelType() != "session" {
					nch.Reject(ssh.UnknownChannelType, "only session")
					continue
				}
				ch, rq, err := nch.Accept()
				if err != nil {
					s.note(func(r *serverReport) { r.SessionErrs = append(r.SessionErrs, "accept: "+err.Error()) })
					continue
				}
				wg.Add(1)
				go func() { defer wg.Done(); s.session(ch, rq) }()
			}
		}()
		err = conn.Wait()
		<-chansDone
		wg.Wait()
		if err != nil {
			s.note(func(r *serverReport) { r.WaitErr = err.Error() })
		}
	}()
	return s, nil
}

func (s *goServer) session(ch ssh.Channel, reqs <-chan *ssh.Request) {
	defer func() { ch.Close(); go ssh.DiscardRequests(reqs) }()
	fail := func(what string, err error) {
		s.note(func(r *serverReport) { r.SessionErrs = append(r.SessionErrs, what+": "+err.Error()) })
	}
	for rq := range reqs {
		if rq.Type != "exec" || len(rq.Payload) < 4 || int(binary.BigEndian.Uint32(rq.Payload)) != len(rq.Payload)-4 {
			if rq.WantReply {
				rq.Reply(false, nil)
			}
			continue
		}
		cmd := string(rq.Payload[4:])
		s.note(func(r *serverReport) { r.Execs = append(r.Execs, cmd) })
		status := uint32(0)
		switch {
		case cmd == "cat":
			rq.Reply(true, nil)
			n, err := io.Copy(ch, ch)
			s.note(func(r *serverReport) { r.CatBytes += int(n) })
			if err != nil {
				fail("cat", err)
				status = 1
			}
		case strings.HasPrefix(cmd, "exit "):
			v, err := strconv.ParseUint(cmd[5:], 10, 32)
			if err != nil {
				rq.Reply(false, nil)
				continue
			}
			rq.Reply(true, nil)
			status = uint32(v)
		default:
			rq.Reply(false, nil)
			continue
		}
		if err := ch.CloseWrite(); err != nil {
			fail("closewrite", err)
		}
		if _, err := ch.SendRequest("exit-status", false, binary.BigEndian.AppendUint32(nil, status)); err != nil {
			fail("exit-status", err)
		}
		return
	}
}

func (r serverReport) String() string {
	a := "<none>"
	if r.Algs != nil {
		a = fmt.Sprintf("%+v", *r.Algs)
	}
	return fmt.Sprintf("handshakeErr=%q user=%q client=%q algs=%s authKey=%q offers=%v execs=%q catBytes=%d sessionErrs=%q waitErr=%q",
		r.HandshakeErr, r.User, r.ClientVer, a, r.AuthKeyType, r.AuthOffers, r.Execs, r.CatBytes, r.SessionErrs, r.WaitErr)
}

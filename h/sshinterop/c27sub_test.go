package sshinterop

// C27 part 2: substitutes for the direction "Go client -> OpenSSH server",
// which cannot be observed in this image (no sshd). NOT OpenSSH
// interoperability evidence; every counter is prefixed sub_.
//
// (a) the real Go client (ssh.NewClientConn, public-key authentication, a
//     session with stdin/stdout and re-keys forced by Config.RekeyThreshold)
//     against sshref.Peer in server role: an endpoint that shares no code with
//     x/crypto (own KEXINIT negotiation, own exchange hash, own key
//     derivation, own packet protection, signature check with crypto/ed25519).
//     The session layer above Peer.ReadPacket/WritePacket is written here.
// (b) the real Go client against the real Go server for every key exchange
//     and host key algorithm (including those Peer does not implement:
//     DH group1/16, group exchange, mlkem768x25519), with the client's byte
//     stream captured; the exchange hash is recomputed by ref/sshkexhash from
//     the decrypted handshake messages, and both directions are decrypted by
//     sshref with keys it derives itself from the tapped K and H.

import (
	"bytes"
	"crypto/ed25519"
	"encoding/binary"
	"errors"
	"fmt"
	"io"
	"math/rand/v2"
	"net"
	"os"
	"slices"
	"strconv"
	"strings"
	"sync"
	"sync/atomic"
	"time"

	"golang.org/x/crypto/ssh"
	"verif/mon"
	kh "verif/ref/sshkexhash"
	"verif/sshref"
)

const subWatchdog = 180 * time.Second

// ---- tiny wire helpers (RFC 4251) -------------------------------------------

type wbuf struct{ b []byte }

func (w *wbuf) byte(v byte) *wbuf { w.b = append(w.b, v); return w }
func (w *wbuf) bool(v bool) *wbuf {
	if v {
		return w.byte(1)
	}
	return w.byte(0)
}
func (w *wbuf) u32(v uint32) *wbuf { w.b = binary.BigEndian.AppendUint32(w.b, v); return w }
func (w *wbuf) str(s []byte) *wbuf { w.u32(uint32(len(s))); w.b = append(w.b, s...); return w }

func msg(t byte) *wbuf { return (&wbuf{}).byte(t) }

// ---- (a) sshref.Peer as server ----------------------------------------------

type peerReport struct {
	Err            string
	Stdin          []byte
	Cmd            string
	Kexes          []sshref.KexInfo
	AuthUser       string
	AuthAlgo       string
	AuthTries      []string
	SigOK          bool
	WindowOverrun  int
	PacketOverrun  int
	ServerRekeys   int
	ClientVersion  string
	SawClientClose bool
}

type peerPlan struct {
	hostKey   ed25519.PrivateKey
	clientPub ed25519.PublicKey
	exit      uint32
	rnd       *rand.Rand
	window    uint32 // receive window the peer grants
	maxPkt    uint32
}

// peerAuth implements RFC 4252 public-key authentication (ssh-ed25519 only)
// on the server side, verifying the signature with crypto/ed25519 over the
// session identifier Peer computed itself.
func peerAuth(p peerConn, plan *peerPlan, rep *peerReport) error {
	pl, err := p.ReadPacket()
	if err != nil {
		return err
	}
	r := &kh.Reader{B: pl}
	if r.Byte() != sshref.MsgServiceRequest || string(r.String()) != "ssh-userauth" || !r.Done() {
		return fmt.Errorf("expected service request ssh-userauth, got message %d", pl[0])
	}
	if err := p.WritePacket(msg(sshref.MsgServiceAccept).str([]byte("ssh-userauth")).b); err != nil {
		return err
	}
	for tries := 0; tries < 10; tries++ {
		pl, err := p.ReadPacket()
		if err != nil {
			return err
		}
		r := &kh.Reader{B: pl}
		if r.Byte() != sshref.MsgUserAuthReq {
			return fmt.Errorf("expected userauth request, got message %d", pl[0])
		}
		user, service, method := r.String(), r.String(), string(r.String())
		rep.AuthTries = append(rep.AuthTries, method)
		fail := func() error {
			return p.WritePacket(msg(sshref.MsgUserAuthFail).str([]byte("publickey")).bool(false).b)
		}
		if r.Err != nil || method != "publickey" || string(service) != "ssh-connection" {
			if err := fail(); err != nil {
				return err
			}
			continue
		}
		hasSig := r.Byte() != 0
		algo, blob := r.String(), r.String()
		kb := &kh.Reader{B: blob}
		ktype, kpub := string(kb.String()), kb.String()
		if r.Err != nil || string(algo) != "ssh-ed25519" || ktype != "ssh-ed25519" || !kb.Done() || !bytes.Equal(kpub, plan.clientPub) {
			if err := fail(); err != nil {
				return err
			}
			continue
		}
		if !hasSig {
			if !r.Done() {
				return errors.New("trailing bytes in publickey query")
			}
			if err := p.WritePacket(msg(60).str(algo).str(blob).b); err != nil {
				return err
			}
			continue
		}
		sb := &kh.Reader{B: r.String()}
		sfmt, sig := string(sb.String()), sb.String()
		if !r.Done() || !sb.Done() || sfmt != "ssh-ed25519" {
			return errors.New("malformed publickey signature")
		}
		signed := (&wbuf{}).str(p.SessionID()).byte(sshref.MsgUserAuthReq).str(user).str(service).str([]byte("publickey")).bool(true).str(algo).str(blob).b
		rep.AuthUser, rep.AuthAlgo = string(user), string(algo)
		if !ed25519.Verify(plan.clientPub, signed, sig) {
			fail()
			return errors.New("user authentication signature does not verify over sshref's session identifier")
		}
		rep.SigOK = true
		return p.WritePacket([]byte{sshref.MsgUserAuthOK})
	}
	return errors.New("too many authentication attempts")
}

// peerSession serves one "session" channel: exec <cmd>, collect stdin until
// EOF (granting window as it consumes), re-key, echo everything back in
// PRNG-sized chunks with another re-key in the middle, EOF, exit-status, CLOSE.
func peerSession(p peerConn, plan *peerPlan, rep *peerReport) error {
	const ownChan = 5
	var peerChan, peerWindow, peerMaxPkt uint32
	window := plan.window
	var consumed uint32
	opened, gotEOF := false, false
	for !gotEOF {
		pl, err := p.ReadPacket()
		if err != nil {
			return err
		}
		r := &kh.Reader{B: pl}
		switch r.Byte() {
		case sshref.MsgGlobalRequest:
			r.String()
			if r.Byte() != 0 {
				if err := p.WritePacket([]byte{sshref.MsgRequestFailure}); err != nil {
					return err
				}
			}
		case sshref.MsgChannelOpen:
			typ := string(r.String())
			pc, pw, pm := r.U32(), r.U32(), r.U32()
			if typ != "session" || opened || r.Err != nil {
				p.WritePacket(msg(sshref.MsgChannelOpenFail).u32(pc).u32(1).str([]byte("refused")).str(nil).b)
				continue
			}
			opened, peerChan, peerWindow, peerMaxPkt = true, pc, pw, pm
			if err := p.WritePacket(msg(sshref.MsgChannelOpenOK).u32(peerChan).u32(ownChan).u32(window).u32(plan.maxPkt).b); err != nil {
				return err
			}
		case sshref.MsgChannelRequest:
			if r.U32() != ownChan {
				return errors.New("channel request for unknown channel")
			}
			typ := string(r.String())
			want := r.Byte() != 0
			if typ == "exec" && rep.Cmd == "" {
				rep.Cmd = string(r.String())
				if !r.Done() {
					return errors.New("malformed exec request")
				}
				if want {
					if err := p.WritePacket(msg(sshref.MsgChannelSuccess).u32(peerChan).b); err != nil {
						return err
					}
				}
			} else if want {
				if err := p.WritePacket(msg(sshref.MsgChannelFailure).u32(peerChan).b); err != nil {
					return err
				}
			}
		case sshref.MsgChannelData:
			if r.U32() != ownChan {
				return errors.New("data for unknown channel")
			}
			d := r.String()
			if !r.Done() {
				return errors.New("malformed channel data")
			}
			n := uint32(len(d))
			if n > plan.maxPkt {
				rep.PacketOverrun++
			}
			if n > window {
				rep.WindowOverrun++
				window = n
			}
			window -= n
			consumed += n
			rep.Stdin = append(rep.Stdin, d...)
			if consumed >= plan.window/2 {
				if err := p.WritePacket(msg(sshref.MsgChannelWindow).u32(peerChan).u32(consumed).b); err != nil {
					return err
				}
				window += consumed
				consumed = 0
			}
		case sshref.MsgChannelWindow:
			r.U32()
			peerWindow += r.U32()
		case sshref.MsgChannelEOF:
			gotEOF = true
		case sshref.MsgChannelClose:
			return errors.New("client closed the channel before EOF")
		default:
			return fmt.Errorf("unexpected message %d before EOF", pl[0])
		}
	}
	if !opened || rep.Cmd == "" {
		return errors.New("EOF without an exec request")
	}
	// quiet point: the client has nothing more to send on the channel
	if err := p.Rekey(); err != nil {
		return fmt.Errorf("server-initiated re-key: %w", err)
	}
	rep.ServerRekeys++
	out := rep.Stdin
	if uint32(len(out)) > peerWindow {
		return fmt.Errorf("harness limitation: client window %d smaller than the payload", peerWindow)
	}
	half, rekeyed := len(out)/2, false
	for sent := 0; sent < len(out); {
		n := 1 + plan.rnd.IntN(int(min(peerMaxPkt, 32768)))
		n = min(n, len(out)-sent)
		if err := p.WritePacket(msg(sshref.MsgChannelData).u32(peerChan).str(out[sent : sent+n]).b); err != nil {
			return err
		}
		sent += n
		if !rekeyed && sent >= half && sent < len(out) {
			rekeyed = true
			if err := p.Rekey(); err != nil {
				return fmt.Errorf("server-initiated re-key in mid transfer: %w", err)
			}
			rep.ServerRekeys++
		}
	}
	if err := p.WritePacket(msg(sshref.MsgChannelEOF).u32(peerChan).b); err != nil {
		return err
	}
	if err := p.WritePacket(msg(sshref.MsgChannelRequest).u32(peerChan).str([]byte("exit-status")).bool(false).u32(plan.exit).b); err != nil {
		return err
	}
	if err := p.WritePacket(msg(sshref.MsgChannelClose).u32(peerChan).b); err != nil {
		return err
	}
	for {
		pl, err := p.ReadPacket()
		if err != nil {
			return nil // connection torn down by the client after its CLOSE: fine
		}
		if pl[0] == sshref.MsgChannelClose {
			rep.SawClientClose = true
			return nil
		}
	}
}

func servePeer(nc net.Conn, plan *peerPlan) *peerReport {
	rep := &peerReport{}
	p := sshref.NewPeer(nc, sshref.PeerConfig{Server: true, HostKey: plan.hostKey})
	err := p.Handshake()
	if err == nil {
		rep.ClientVersion = p.PeerVersion()
		err = peerAuth(p, plan, rep)
	}
	if err == nil {
		err = peerSession(p, plan, rep)
	}
	rep.Kexes = p.Kexes
	if err != nil {
		rep.Err = err.Error()
	}
	return rep
}

// serveSteerPeer is servePeer with the endpoint that picks its ephemeral key
// after it has seen the client's (steer_test.go).
func serveSteerPeer(nc net.Conn, plan *peerPlan, kex, mode string) (*peerReport, *steerPeer) {
	rep := &peerReport{}
	p := newSteerPeer(nc, plan.hostKey, kex, mode)
	err := p.Handshake()
	if err == nil {
		rep.ClientVersion = p.vC
		err = peerAuth(p, plan, rep)
	}
	if err == nil {
		err = peerSession(p, plan, rep)
	}
	if err != nil {
		rep.Err = err.Error()
	}
	return rep, p
}

// ---- the Go client workload (shared by (a) and (b)) ------------------------------

type clientReport struct {
	DialErr, SessionErr string
	Out                 []byte
	Exit                int // -1: no exit status seen
	Algs                *ssh.NegotiatedAlgorithms
	ServerVersion       string
}

// goClientCat runs: connect, authenticate, session "cat", write payload in
// PRNG-sized chunks, close stdin, read stdout to EOF, wait for exit status.
//
// pace (may be nil) is called after every chunk with the number of bytes
// written so far, uploaded() when stdin was closed, beforeClose() after stdout
// reached EOF: the harness uses them to hold the workload until a re-key that
// the package has certainly requested is complete (scheduling aid, no verdict).
type workloadHooks struct {
	pace        func(written int)
	uploaded    func()
	beforeClose func()
}

func goClientCat(nc net.Conn, cfg *ssh.ClientConfig, tap *ssh.VerifTap, payload []byte, chunks []int, hooks workloadHooks) (rep clientReport) {
	rep.Exit = -1
	var cc ssh.Conn
	var chans <-chan ssh.NewChannel
	var reqs <-chan *ssh.Request
	var err error
	if tap != nil {
		cc, chans, reqs, err = ssh.VerifNewClientConn(nc, "verifhost:22", cfg, tap)
	} else {
		cc, chans, reqs, err = ssh.NewClientConn(nc, "verifhost:22", cfg)
	}
	if err != nil {
		rep.DialErr = err.Error()
		return
	}
	client := ssh.NewClient(cc, chans, reqs)
	defer client.Close()
	rep.ServerVersion = string(cc.ServerVersion())
	if am, ok := cc.(ssh.AlgorithmsConnMetadata); ok {
		a := am.Algorithms()
		rep.Algs = &a
	}
	sess, err := client.NewSession()
	if err != nil {
		rep.SessionErr = "NewSession: " + err.Error()
		return
	}
	defer sess.Close()
	stdin, err1 := sess.StdinPipe()
	stdout, err2 := sess.StdoutPipe()
	if err1 != nil || err2 != nil {
		rep.SessionErr = fmt.Sprint("pipes: ", err1, err2)
		return
	}
	if err := sess.Start("cat"); err != nil {
		rep.SessionErr = "Start: " + err.Error()
		return
	}
	werr := make(chan error, 1)
	go func() {
		rest := payload
		for _, n := range chunks {
			if len(rest) == 0 {
				break
			}
			n = min(n, len(rest))
			if _, err := stdin.Write(rest[:n]); err != nil {
				werr <- err
				return
			}
			rest = rest[n:]
			if hooks.pace != nil {
				hooks.pace(len(payload) - len(rest))
			}
		}
		if len(rest) > 0 {
			if _, err := stdin.Write(rest); err != nil {
				werr <- err
				return
			}
		}
		err := stdin.Close()
		if hooks.uploaded != nil {
			hooks.uploaded()
		}
		werr <- err
	}()
	out, rerr := io.ReadAll(stdout)
	rep.Out = out
	if err := <-werr; err != nil {
		rep.SessionErr = "stdin: " + err.Error()
	}
	if rerr != nil {
		rep.SessionErr += " stdout: " + rerr.Error()
	}
	if hooks.beforeClose != nil {
		hooks.beforeClose()
	}
	err = sess.Wait()
	var ee *ssh.ExitError
	switch {
	case err == nil:
		rep.Exit = 0
	case errors.As(err, &ee):
		rep.Exit = ee.ExitStatus()
	default:
		rep.SessionErr += " Wait: " + err.Error()
	}
	return
}

// waitFor polls cond (harness scheduling aid; expiry only means "not seen").
func waitFor(cond func() bool, limit time.Duration) bool {
	for t0 := time.Now(); !cond(); time.Sleep(time.Millisecond) {
		if time.Since(t0) > limit {
			return false
		}
	}
	return true
}

func chunkSizes(r *rand.Rand, total int) []int {
	var c []int
	for left := total; left > 0; {
		n := 1 + mon.LogUniform(r, 0, 70000)
		c = append(c, n)
		left -= n
	}
	return c
}

func subSize(r *rand.Rand, i int64) int {
	switch i % 5 {
	case 0:
		return 200000
	case 1:
		return 32768
	case 2:
		return r.IntN(200001)
	case 3:
		return []int{0, 1}[r.IntN(2)]
	}
	return mon.LogUniform(r, 2, 200000)
}

// subStall analyses an in-process case that did not finish: closed system
// (both ends and the loopback socket are ours).
func (e *env) subStall(part, dim string, desc map[string]any) {
	frozen, gs, dump := mon.Quiescent(3, 500*time.Millisecond, "testing.")
	var parked []string
	for _, g := range gs {
		if !g.Has("sshinterop.goClientCat") {
			continue
		}
		for _, f := range g.Frames {
			if strings.HasPrefix(f, "golang.org/x/crypto/") {
				parked = append(parked, strings.TrimPrefix(f, "golang.org/x/crypto/")+"["+g.State+"]")
				break
			}
		}
	}
	slices.Sort(parked)
	where := strings.Join(slices.Compact(parked), "+")
	if frozen && where != "" {
		e.stalls.Add(1)
		e.m.Eval()
		desc["dim"] = dim
		e.m.Violation("stall:"+part+":"+where, map[string]any{"case": desc, "dump": dump})
		return
	}
	e.m.Inconclusive(fmt.Sprintf("%s case (%s) exceeded the watchdog (frozen=%v where=%q)", part, dim, frozen, where))
}

// watchdog: generous; after a stall was already established in this process the
// following cases are looked at sooner (the verdict never depends on it: only
// the quiescence analysis decides).
func (e *env) watchdog(normal time.Duration) time.Duration {
	if e.stalls.Load() > 0 {
		return 25 * time.Second
	}
	if s, err := strconv.Atoi(os.Getenv("SSHINTEROP_WATCHDOG_S")); err == nil && s > 0 {
		return time.Duration(s) * time.Second // development aid (mutant trials)
	}
	return normal
}

type subPeerCase struct {
	class, dim       string
	kex, cipher, mac string
	prefDim          string // preference-order case: dimension with a 3-name client offer ordered unlike the peer's list
	prefKind         int
}

// peerOrder: sshref.Peer's (server) preference order per category, restricted
// to what the Go client implements.
func peerOrder(dim string) []string {
	sup, ins := ssh.SupportedAlgorithms(), ssh.InsecureAlgorithms()
	var goList, peerList []string
	switch dim {
	case "kex":
		goList, peerList = allOf(sup, ins, func(a ssh.Algorithms) []string { return a.KeyExchanges }), sshref.PeerKexAlgos
	case "cipher":
		goList, peerList = allOf(sup, ins, func(a ssh.Algorithms) []string { return a.Ciphers }), sshref.Ciphers()
	case "mac":
		goList, peerList = allOf(sup, ins, func(a ssh.Algorithms) []string { return a.MACs }), sshref.MACs()
	}
	var out []string
	for _, a := range peerList {
		if a != "none" && slices.Contains(goList, a) {
			out = append(out, a)
		}
	}
	return out
}

func (e *env) runPeerCase(sc subPeerCase, i int64, r *rand.Rand) {
	m := e.m
	offers := map[string][]string{"kex": {sc.kex}, "cipher": {sc.cipher}, "mac": {sc.mac}}
	prefDiffers := false
	if sc.prefDim != "" {
		order := peerOrder(sc.prefDim)
		o := prefOffer(r, order, sc.prefKind)
		offers[sc.prefDim] = o
		switch sc.prefDim {
		case "kex":
			sc.kex = o[0]
		case "cipher":
			sc.cipher = o[0]
		case "mac":
			sc.mac = o[0]
		}
		prefDiffers = serverFirst(order, o) != o[0]
	}
	size := subSize(r, i)
	if sc.class == "kex" {
		size = 32768 + r.IntN(100000)
	}
	payload := mon.Bytes(r, size)
	thr := uint64([]int{4096, 8192, 16384, 65536}[r.IntN(4)])
	if size >= 32768 {
		thr = uint64([]int{4096, 8192}[r.IntN(2)])
		if strings.HasPrefix(sc.kex, "diffie-hellman") {
			thr = 16384 // modular exponentiation per re-key: keep the number of re-keys moderate
		}
	}
	// With size >= 2*thr+1 the package has certainly requested a re-key once
	// 2*thr+1 bytes are written in small packets (request = first packet after
	// the budget is used up); the upload then waits until the client has computed
	// the new keys (observed through the KeyChange tap), so that re-keys started
	// by the Go client are forced and counted exactly: the peer starts none
	// before it has seen EOF. Forced cases therefore run through
	// ssh.VerifNewClientConn (same code below the prologue), the others through
	// the public ssh.NewClientConn.
	forced := uint64(size) >= 2*thr+1
	var kexAtUploadEnd int32
	var clientKex atomic.Int32
	var tap *ssh.VerifTap
	if forced {
		tap = &ssh.VerifTap{KeyChange: func(ssh.NegotiatedAlgorithms, ssh.VerifKexResult) { clientKex.Add(1) }}
	}
	plan := &peerPlan{hostKey: e.mt.peerHost, clientPub: e.mt.goEd.pub, exit: uint32(r.IntN(256)),
		rnd: rand.New(rand.NewPCG(r.Uint64(), r.Uint64())), window: uint32([]int{16384, 65536, 1 << 20}[r.IntN(3)]), maxPkt: uint32([]int{4096, 16384, 32768}[r.IntN(3)])}
	chunks := chunkSizes(r, size)
	if forced {
		// packets of at most thr/2 bytes until 2*thr+1 bytes are out: at least one
		// packet follows the one that used up the budget, i.e. the request is made
		var small []int
		for sum := 0; sum < int(2*thr+1); {
			n := 1 + r.IntN(int(thr/2))
			small = append(small, n)
			sum += n
		}
		chunks = append(small, chunks...)
	}
	desc := map[string]any{"part": "go-client->sshref.Peer (substitute)", "class": sc.class, "kex": sc.kex, "cipher": sc.cipher, "mac": sc.mac, "payload_len": size,
		"client_rekey_threshold": thr, "peer_window": plan.window, "peer_max_packet": plan.maxPkt, "exit": plan.exit}
	if sc.prefDim != "" {
		desc["preference"] = map[string]any{"dimension": sc.prefDim, "go_client_offer": offers[sc.prefDim], "expected_rfc4253_7_1": offers[sc.prefDim][0], "peer_order": peerOrder(sc.prefDim)}
	}

	ln, err := net.Listen("tcp", "127.0.0.1:0")
	if err != nil {
		m.Inconclusive("cannot listen on loopback: " + err.Error())
		return
	}
	defer ln.Close()
	srvRep := make(chan *peerReport, 1)
	var sconn net.Conn
	var smu sync.Mutex
	go func() {
		nc, err := ln.Accept()
		if err != nil {
			srvRep <- &peerReport{Err: "accept: " + err.Error()}
			return
		}
		smu.Lock()
		sconn = nc
		smu.Unlock()
		rep := servePeer(nc, plan)
		nc.Close()
		srvRep <- rep
	}()
	cfg := &ssh.ClientConfig{User: sshUser, Auth: []ssh.AuthMethod{ssh.PublicKeys(e.mt.goEd.signer)},
		HostKeyCallback: ssh.FixedHostKey(e.mt.peerHostPub), HostKeyAlgorithms: []string{ssh.KeyAlgoED25519}}
	cfg.KeyExchanges, cfg.Ciphers, cfg.MACs, cfg.RekeyThreshold = offers["kex"], offers["cipher"], offers["mac"], thr
	var crep clientReport
	var prep *peerReport
	cconn, err := net.Dial("tcp", ln.Addr().String())
	if err != nil {
		m.Inconclusive("cannot dial loopback: " + err.Error())
		return
	}
	done, pv, pstack, _ := mon.RunTimed(e.watchdog(subWatchdog), func() {
		hooks := workloadHooks{}
		if forced {
			waited := false
			hooks.pace = func(written int) {
				if !waited && uint64(written) >= 2*thr+1 {
					waited = true
					waitFor(func() bool { return clientKex.Load() >= 2 }, 60*time.Second)
				}
				if written == len(payload) {
					kexAtUploadEnd = clientKex.Load() // the peer has not seen EOF yet
				}
			}
		}
		crep = goClientCat(cconn, cfg, tap, payload, chunks, hooks)
		cconn.Close()
		prep = <-srvRep
	})
	if !done {
		e.subStall("go-client-vs-sshref", sc.dim, desc)
		cconn.Close()
		smu.Lock()
		if sconn != nil {
			sconn.Close()
		}
		smu.Unlock()
		return
	}
	if pv != nil {
		m.Violation("panic:"+mon.PanicSite(pstack), map[string]any{"case": desc, "panic": fmt.Sprint(pv), "stack": pstack})
		return
	}
	m.Eval()
	m.Count("sub_peer_connections", 1)
	witness := func(extra map[string]any) map[string]any {
		w := map[string]any{"case": desc, "payload_hex": mon.Hex(payload),
			"go_client":   fmt.Sprintf("dialErr=%q sessionErr=%q out=%d bytes exit=%d algs=%+v", crep.DialErr, crep.SessionErr, len(crep.Out), crep.Exit, crep.Algs),
			"sshref_peer": fmt.Sprintf("err=%q stdin=%d bytes cmd=%q kexes=%d auth=%q/%q tries=%v sigOK=%v windowOverrun=%d packetOverrun=%d serverRekeys=%d", prep.Err, len(prep.Stdin), prep.Cmd, len(prep.Kexes), prep.AuthUser, prep.AuthAlgo, prep.AuthTries, prep.SigOK, prep.WindowOverrun, prep.PacketOverrun, prep.ServerRekeys)}
		for k, v := range extra {
			w[k] = v
		}
		return w
	}
	bad := func(kind string, extra map[string]any) {
		m.Violation("go-client-vs-sshref:"+kind+":"+sc.dim, witness(extra))
	}
	ok := true
	switch {
	case crep.DialErr != "" && len(prep.Kexes) == 0:
		bad("handshake", nil)
		return
	case crep.DialErr != "":
		bad("auth", nil)
		return
	case prep.Err != "" || crep.SessionErr != "":
		if len(prep.Kexes) >= 2 {
			bad("session-after-rekey", nil)
		} else {
			bad("session", nil)
		}
		return
	}
	for k, ki := range prep.Kexes {
		macOK := func(x string) bool { return x == sc.mac || isAEAD(sc.cipher) }
		if ki.Kex != sc.kex || ki.CipherC2S != sc.cipher || ki.CipherS2C != sc.cipher || !macOK(ki.MACC2S) || !macOK(ki.MACS2C) || ki.HostKeyAlgo != ssh.KeyAlgoED25519 {
			bad("negotiated-other", map[string]any{"exchange": k, "peer_negotiated": fmt.Sprintf("%s %s %s/%s %s/%s", ki.Kex, ki.HostKeyAlgo, ki.CipherC2S, ki.CipherS2C, ki.MACC2S, ki.MACS2C)})
			ok = false
			break
		}
		if !ki.Strict {
			bad("strict-kex-not-negotiated", nil)
			ok = false
			break
		}
	}
	if a := crep.Algs; a == nil || a.KeyExchange != sc.kex || a.HostKey != ssh.KeyAlgoED25519 || a.Read.Cipher != sc.cipher || a.Write.Cipher != sc.cipher ||
		(!isAEAD(sc.cipher) && (a.Read.MAC != sc.mac || a.Write.MAC != sc.mac)) {
		bad("go-algorithms-differ", nil)
		ok = false
	}
	if !prep.SigOK || prep.AuthUser != sshUser {
		bad("auth", nil)
		ok = false
	}
	if prep.Cmd != "cat" {
		bad("exec-command", nil)
		ok = false
	}
	if !bytes.Equal(prep.Stdin, payload) {
		bad("data-mismatch-upload", map[string]any{"peer_got_hex": mon.Hex(prep.Stdin)})
		ok = false
	}
	if !bytes.Equal(crep.Out, payload) {
		bad("data-mismatch-download", map[string]any{"client_got_hex": mon.Hex(crep.Out)})
		ok = false
	}
	if crep.Exit != int(plan.exit) {
		bad("exit-status", nil)
		ok = false
	}
	// channel-layer findings are not specific to the algorithms of the case
	if prep.WindowOverrun > 0 {
		m.Violation("go-client-vs-sshref:window-overrun", witness(nil))
		ok = false
	}
	if prep.PacketOverrun > 0 {
		m.Violation("go-client-vs-sshref:max-packet-overrun", witness(nil))
		ok = false
	}
	if !ok {
		return
	}
	clientInit := int(kexAtUploadEnd) - 1
	if forced {
		m.Count("sub_peer_via_tapped_client_conn", 1)
	} else {
		m.Count("sub_peer_via_public_NewClientConn", 1)
	}
	m.Count("sub_peer_ok", 1)
	m.Count("sub_peer_ok_"+sc.class, 1)
	if prefDiffers {
		m.Count("sub_peer_pref_first_choices_differ_"+sc.prefDim, 1)
	}
	m.Count("sub_peer_key_exchanges", len(prep.Kexes))
	m.Count("sub_peer_rekeys_started_by_peer", prep.ServerRekeys)
	m.Count("sub_peer_rekeys_started_by_go_client", max(clientInit, 0))
	m.Count("sub_peer_bytes_each_way", size)
	m.Count("sub_peer_payload_"+sizeClass(size), 1)
	if size > int(plan.window) {
		m.Count("sub_peer_upload_needed_window_adjust", 1)
	}
	m.Count("sub peer ok kex "+sc.kex, 1)
	m.Count("sub peer ok cipher "+sc.cipher, 1)
	if !isAEAD(sc.cipher) {
		m.Count("sub peer ok mac "+sc.mac, 1)
	}
	m.Distinct(fmt.Sprintf("peer %s %s %s %s size=%s thr=%d win=%d", sc.class, sc.kex, sc.cipher, sc.mac, sizeClass(size), thr, plan.window))
	if i%17 == 3 {
		m.Sample(map[string]any{"case": desc, "key_exchanges": len(prep.Kexes), "go_client_exit": crep.Exit, "peer_saw_client_close": prep.SawClientClose})
	}
}

// runSteerPeerCase: the Go client against steerPeer, which forces the shape
// of K at every key exchange of the connection.
func (e *env) runSteerPeerCase(kex, mode string, i int64, r *rand.Rand) {
	m := e.m
	dim := "kex=" + kex + ",K=" + mode
	size := 20000 + r.IntN(30000)
	payload := mon.Bytes(r, size)
	var thr uint64 = 16384
	if strings.Contains(kex, "nistp384") || strings.Contains(kex, "nistp521") || strings.Contains(kex, "group16") {
		thr = 0 // expensive searches: only the peer's own re-keys
	}
	plan := &peerPlan{hostKey: e.mt.peerHost, clientPub: e.mt.goEd.pub, exit: uint32(r.IntN(256)),
		rnd: rand.New(rand.NewPCG(r.Uint64(), r.Uint64())), window: 1 << 20, maxPkt: 32768}
	chunks := chunkSizes(r, size)
	desc := map[string]any{"part": "go-client->steerPeer (substitute; independent server chooses its key last)", "kex": kex, "shape_of_K": mode, "payload_len": size, "client_rekey_threshold": thr, "exit": plan.exit}
	ln, err := net.Listen("tcp", "127.0.0.1:0")
	if err != nil {
		m.Inconclusive("cannot listen on loopback: " + err.Error())
		return
	}
	defer ln.Close()
	type srvOut struct {
		rep *peerReport
		p   *steerPeer
	}
	srvRep := make(chan srvOut, 1)
	var sconn net.Conn
	var smu sync.Mutex
	go func() {
		nc, err := ln.Accept()
		if err != nil {
			srvRep <- srvOut{&peerReport{Err: "accept: " + err.Error()}, &steerPeer{}}
			return
		}
		smu.Lock()
		sconn = nc
		smu.Unlock()
		rep, p := serveSteerPeer(nc, plan, kex, mode)
		nc.Close()
		srvRep <- srvOut{rep, p}
	}()
	cfg := &ssh.ClientConfig{User: sshUser, Auth: []ssh.AuthMethod{ssh.PublicKeys(e.mt.goEd.signer)},
		HostKeyCallback: ssh.FixedHostKey(e.mt.peerHostPub), HostKeyAlgorithms: []string{ssh.KeyAlgoED25519}}
	cfg.KeyExchanges, cfg.Ciphers, cfg.MACs, cfg.RekeyThreshold = []string{kex}, []string{steerCipher}, []string{steerMAC}, thr
	cconn, err := net.Dial("tcp", ln.Addr().String())
	if err != nil {
		m.Inconclusive("cannot dial loopback: " + err.Error())
		return
	}
	var crep clientReport
	var so srvOut
	done, pv, pstack, _ := mon.RunTimed(e.watchdog(subWatchdog), func() {
		crep = goClientCat(cconn, cfg, nil, payload, chunks, workloadHooks{})
		cconn.Close()
		so = <-srvRep
	})
	if !done {
		e.subStall("go-client-vs-steered-peer", dim, desc)
		cconn.Close()
		smu.Lock()
		if sconn != nil {
			sconn.Close()
		}
		smu.Unlock()
		return
	}
	if pv != nil {
		m.Violation("panic:"+mon.PanicSite(pstack), map[string]any{"case": desc, "panic": fmt.Sprint(pv), "stack": pstack})
		return
	}
	m.Eval()
	prep, sp := so.rep, so.p
	m.Count("sub_steer_peer_connections", 1)
	bad := func(kind string) {
		m.Violation("go-client-vs-steered-peer:"+kind+":"+dim, map[string]any{"case": desc, "payload_hex": mon.Hex(payload),
			"go_client":  fmt.Sprintf("dialErr=%q sessionErr=%q out=%d bytes exit=%d algs=%+v", crep.DialErr, crep.SessionErr, len(crep.Out), crep.Exit, crep.Algs),
			"steer_peer": fmt.Sprintf("err=%q stdin=%d bytes cmd=%q kexes=%d shapes=%v tries=%d sigOK=%v", prep.Err, len(prep.Stdin), prep.Cmd, sp.Kexes, sp.Shapes, sp.Tries, prep.SigOK)})
	}
	switch {
	case crep.DialErr != "" && sp.Kexes == 0:
		bad("handshake")
		return
	case crep.DialErr != "":
		bad("auth")
		return
	case prep.Err != "" || crep.SessionErr != "":
		bad("session")
		return
	case !prep.SigOK || prep.Cmd != "cat" || !bytes.Equal(prep.Stdin, payload) || !bytes.Equal(crep.Out, payload) || crep.Exit != int(plan.exit):
		bad("data-or-status")
		return
	case crep.Algs == nil || crep.Algs.KeyExchange != kex:
		bad("go-algorithms-differ")
		return
	}
	m.Count("sub_steer_peer_ok", 1)
	m.Count("sub_steer_peer_candidates_tried", sp.Tries)
	m.Count("sub_steer_peer_exchanges_"+mode, sp.Steered)
	m.Count(fmt.Sprintf("sub steered %s kex %s", mode, kex), sp.Steered)
	if sp.Steered >= 1 {
		m.Count("sub_steer_peer_cases_"+mode, 1)
	}
	m.Distinct(fmt.Sprintf("steerpeer %s %s thr=%d", kex, mode, thr))
	if i%5 == 0 {
		m.Sample(map[string]any{"case": desc, "key_exchanges": sp.Kexes, "shapes_of_K": sp.Shapes, "candidates_tried": sp.Tries})
	}
}

// ---- (b) Go client <-> Go server, wire decoded by sshref ---------------------------

type recConn struct {
	net.Conn
	mu       sync.Mutex
	c2s, s2c []byte
}

func (c *recConn) Read(p []byte) (int, error) {
	n, err := c.Conn.Read(p)
	c.mu.Lock()
	c.s2c = append(c.s2c, p[:n]...)
	c.mu.Unlock()
	return n, err
}

func (c *recConn) Write(p []byte) (int, error) {
	n, err := c.Conn.Write(p)
	c.mu.Lock()
	c.c2s = append(c.c2s, p[:n]...)
	c.mu.Unlock()
	return n, err
}

type tapKex struct {
	algs ssh.NegotiatedAlgorithms
	k    ssh.VerifKexResult
}

type decoded struct {
	version  []byte
	payloads [][]byte
	newKeys  int
	// cutShort: the stream ends inside a key exchange the tap never saw
	// completed (connection closed during a re-key): the bytes after that
	// NEWKEYS cannot be read by anybody.
	cutShort bool
}

// decodeStream lets sshref follow one direction of the captured connection.
// It installs keys it derives itself from the i-th tapped (K, H, session id)
// right after the i-th NEWKEYS.
func decodeStream(stream []byte, c2s bool, kexes []tapKex, strict bool) (d decoded, err error) {
	k := bytes.Index(stream, []byte("\r\n"))
	if k < 0 || !bytes.HasPrefix(stream, []byte("SSH-2.0-")) {
		return d, errors.New("no identification line")
	}
	d.version = stream[:k]
	rd := bytes.NewReader(stream[k+2:])
	dec := sshref.NewDecoder(0)
	for rd.Len() > 0 {
		seq, info, err := dec.Next(rd)
		if err != nil {
			return d, fmt.Errorf("packet %d (seq %d, after %d NEWKEYS): %w", len(d.payloads), seq, d.newKeys, err)
		}
		if len(info.Payload) == 0 {
			return d, fmt.Errorf("packet %d: empty payload", len(d.payloads))
		}
		d.payloads = append(d.payloads, info.Payload)
		if info.Payload[0] == sshref.MsgNewKeys {
			if d.newKeys >= len(kexes) {
				if kexes != nil && d.newKeys >= 1 {
					d.cutShort = true
					return d, nil
				}
				return d, fmt.Errorf("NEWKEYS #%d on the wire but only %d key exchanges tapped", d.newKeys+1, len(kexes))
			}
			tk := kexes[d.newKeys]
			da := tk.algs.Read
			if c2s {
				da = tk.algs.Write
			}
			keys, err := sshref.DeriveKeys(tk.k.Hash, tk.k.K, tk.k.H, tk.k.SessionID, da.Cipher, da.MAC, c2s)
			if err != nil {
				return d, err
			}
			if err := dec.Rekey(da.Cipher, da.MAC, keys, strict); err != nil {
				return d, err
			}
			d.newKeys++
		}
	}
	return d, nil
}

func nameListHas(kexinit []byte, name string) bool {
	r := &kh.Reader{B: kexinit}
	r.Byte()
	if len(r.B) < 16 {
		return false
	}
	r.B = r.B[16:]
	return slices.Contains(strings.Split(string(r.String()), ","), name)
}

// recomputeHashes recomputes every exchange hash of the connection from the
// decrypted handshake messages (K taken from the tap) with ref/sshkexhash.
func recomputeHashes(kex string, c2s, s2c decoded, kexes []tapKex) (n int, err error) {
	meth, ok := kh.Methods[kex]
	if !ok {
		return 0, fmt.Errorf("reference does not know %s", kex)
	}
	// split each direction into key exchanges: KEXINIT ... NEWKEYS
	split := func(d decoded) (out [][][]byte) {
		var cur [][]byte
		in := false
		for _, p := range d.payloads {
			switch {
			case p[0] == sshref.MsgKexInit:
				in, cur = true, [][]byte{p}
			case in && p[0] == sshref.MsgNewKeys:
				out = append(out, cur)
				in = false
			case in && p[0] >= 30 && p[0] <= 49:
				cur = append(cur, p)
			}
		}
		return
	}
	cx, sx := split(c2s), split(s2c)
	// the connection may be closed while a re-key is in flight: the last tapped
	// exchange may be incomplete on the wire in one or both directions
	complete := min(len(cx), len(sx))
	if complete > len(kexes) || complete < len(kexes)-1 || complete < 1 {
		return 0, fmt.Errorf("key exchanges on the wire: c2s %d, s2c %d; tapped %d", len(cx), len(sx), len(kexes))
	}
	for i := 0; i < complete; i++ {
		cm, sm := cx[i], sx[i]
		pr := kh.Prologue{VC: c2s.version, VS: s2c.version, IC: cm[0], IS: sm[0]}
		K := kexes[i].k.K
		if len(K) < 4 || int(binary.BigEndian.Uint32(K)) != len(K)-4 {
			return n, fmt.Errorf("exchange %d: tapped K is not a length-prefixed value", i)
		}
		kInt := kh.MpintFromBody(K[4:])
		var H []byte
		switch meth.Family {
		case kh.FamDH, kh.FamECDH, kh.FamX25519, kh.FamHybrid:
			if len(cm) != 2 || len(sm) != 2 || cm[1][0] != 30 || sm[1][0] != 31 {
				return n, fmt.Errorf("exchange %d: unexpected message sequence", i)
			}
			cr, sr := &kh.Reader{B: cm[1][1:]}, &kh.Reader{B: sm[1][1:]}
			qc := cr.String()
			pr.KS = sr.String()
			qs := sr.String()
			sr.String()
			if !cr.Done() || !sr.Done() {
				return n, fmt.Errorf("exchange %d: malformed kex messages", i)
			}
			switch meth.Family {
			case kh.FamDH:
				H = kh.DH(meth.Hash, pr, kh.MpintFromBody(qc), kh.MpintFromBody(qs), kInt)
			case kh.FamHybrid:
				H = kh.Hybrid(meth.Hash, pr, qc, qs, K[4:])
			default:
				H = kh.ECDH(meth.Hash, pr, qc, qs, kInt)
			}
		case kh.FamGEX:
			if len(cm) != 3 || len(sm) != 3 || cm[1][0] != 34 || sm[1][0] != 31 || cm[2][0] != 32 || sm[2][0] != 33 {
				return n, fmt.Errorf("exchange %d: unexpected group-exchange message sequence", i)
			}
			rq, gr, ir, rr := &kh.Reader{B: cm[1][1:]}, &kh.Reader{B: sm[1][1:]}, &kh.Reader{B: cm[2][1:]}, &kh.Reader{B: sm[2][1:]}
			mn, nn, mx := rq.U32(), rq.U32(), rq.U32()
			p, g := gr.Mpint(), gr.Mpint()
			ev := ir.Mpint()
			pr.KS = rr.String()
			f := rr.Mpint()
			rr.String()
			if !rq.Done() || !gr.Done() || !ir.Done() || !rr.Done() {
				return n, fmt.Errorf("exchange %d: malformed group-exchange messages", i)
			}
			H = kh.GEX(meth.Hash, pr, mn, nn, mx, p, g, ev, f, kInt)
		default:
			return n, fmt.Errorf("no layout for %s", kex)
		}
		if !bytes.Equal(H, kexes[i].k.H) {
			return n, fmt.Errorf("exchange %d: reference exchange hash %x, package used %x", i, H, kexes[i].k.H)
		}
		if !bytes.Equal(pr.KS, kexes[i].k.HostKey) {
			return n, fmt.Errorf("exchange %d: host key blob on the wire differs from the one in the kex result", i)
		}
		n++
	}
	return n, nil
}

func channelData(d decoded) []byte {
	var out []byte
	for _, p := range d.payloads {
		if p[0] == sshref.MsgChannelData && len(p) >= 9 {
			out = append(out, p[9:]...)
		}
	}
	return out
}

type subTapCase struct {
	class, dim      string
	kex, hostKeyAlg string
	cipher, mac     string // "": PRNG
	clientKeyFormat string
	prefDim         string // preference-order case
	prefKind        int
}

// goServerOrder: the order in which the harness's Go server lists a category
// (newServerConfig: Supported ++ Insecure; host keys in AddHostKey order). What
// the server really sent is re-read from its KEXINIT on the captured wire.
func goServerOrder(dim string) []string {
	sup, ins := ssh.SupportedAlgorithms(), ssh.InsecureAlgorithms()
	switch dim {
	case "kex":
		return allOf(sup, ins, func(a ssh.Algorithms) []string { return a.KeyExchanges })
	case "cipher":
		return allOf(sup, ins, func(a ssh.Algorithms) []string { return a.Ciphers })
	case "mac":
		return allOf(sup, ins, func(a ssh.Algorithms) []string { return a.MACs })
	}
	var hk []string
	for _, suffix := range []string{"", "-cert-v01@openssh.com"} {
		for _, f := range hostFormats {
			if f == ssh.KeyAlgoRSA {
				hk = append(hk, ssh.KeyAlgoRSASHA256+suffix, ssh.KeyAlgoRSASHA512+suffix, ssh.KeyAlgoRSA+suffix)
			} else {
				hk = append(hk, f+suffix)
			}
		}
	}
	return hk
}

func (e *env) runTapCase(tc subTapCase, i int64, r *rand.Rand) {
	m := e.m
	ciphers := allOf(ssh.SupportedAlgorithms(), ssh.InsecureAlgorithms(), func(a ssh.Algorithms) []string { return a.Ciphers })
	macs := allOf(ssh.SupportedAlgorithms(), ssh.InsecureAlgorithms(), func(a ssh.Algorithms) []string { return a.MACs })
	offers := map[string][]string{}
	if tc.prefDim != "" {
		o := prefOffer(r, goServerOrder(tc.prefDim), tc.prefKind)
		offers[tc.prefDim] = o
		tc.kex, tc.hostKeyAlg, tc.cipher, tc.mac = bgKex, bgHostKey, bgCipher, bgMAC
		switch tc.prefDim {
		case "kex":
			tc.kex = o[0]
		case "hostkey":
			tc.hostKeyAlg = o[0]
		case "cipher":
			tc.cipher = o[0]
		case "mac":
			tc.mac = o[0]
		}
	}
	cipher, mac := tc.cipher, tc.mac
	for cipher == "" {
		c, ma := mon.Pick(r, ciphers), mon.Pick(r, macs)
		if !knownBadPair(c, ma) {
			cipher, mac = c, ma
		}
	}
	size := []int{20000, 60000, r.IntN(100001), 1}[i%4]
	if tc.class == "kex" {
		// every kex: at least one completed re-key (session id != H). The re-key is
		// requested by the first packet after the threshold was crossed and data
		// cannot flow while it runs, so >= 4 thresholds of payload force one.
		size = 65536 + r.IntN(65536)
	}
	payload := mon.Bytes(r, size)
	var cthr, sthr uint64
	switch r.IntN(3) {
	case 0:
		cthr = 8192
	case 1:
		sthr = 16384
	default:
		cthr, sthr = 16384, 8192
	}
	slow := strings.Contains(tc.kex, "group16") || strings.Contains(tc.kex, "group-exchange")
	if slow {
		cthr, sthr = 0, 16384
	}
	chunks := chunkSizes(r, size)
	ck := e.mt.goClient[tc.clientKeyFormat]
	desc := map[string]any{"part": "go-client<->go-server, wire decoded by sshref (substitute)", "class": tc.class, "kex": tc.kex, "hostkey_alg": tc.hostKeyAlg, "cipher": cipher, "mac": mac,
		"client_key": tc.clientKeyFormat, "payload_len": size, "client_rekey_threshold": cthr, "server_rekey_threshold": sthr}
	srv, err := startServer(e.mt.host, serverOpts{expectKey: ck.PublicKey(), rekeyThreshold: sthr})
	if err != nil {
		m.Inconclusive("cannot listen on loopback: " + err.Error())
		return
	}
	defer srv.stop()
	nc, err := net.Dial("tcp", srv.ln.Addr().String())
	if err != nil {
		m.Inconclusive("cannot dial loopback: " + err.Error())
		return
	}
	rc := &recConn{Conn: nc}
	var tmu sync.Mutex
	var kexes []tapKex
	tap := &ssh.VerifTap{KeyChange: func(a ssh.NegotiatedAlgorithms, k ssh.VerifKexResult) {
		tmu.Lock()
		kexes = append(kexes, tapKex{a, k})
		tmu.Unlock()
	}}
	offer := func(dim, pin string) []string {
		if o, ok := offers[dim]; ok {
			return o
		}
		return []string{pin}
	}
	cfg := &ssh.ClientConfig{User: sshUser, Auth: []ssh.AuthMethod{ssh.PublicKeys(ck)}, HostKeyAlgorithms: offer("hostkey", tc.hostKeyAlg)}
	cfg.KeyExchanges, cfg.Ciphers, cfg.MACs, cfg.RekeyThreshold = offer("kex", tc.kex), offer("cipher", cipher), offer("mac", mac), cthr
	if tc.prefDim != "" {
		desc["preference"] = map[string]any{"dimension": tc.prefDim, "go_client_offer": offers[tc.prefDim], "expected_rfc4253_7_1": offers[tc.prefDim][0]}
	}
	chk := &ssh.CertChecker{IsHostAuthority: func(auth ssh.PublicKey, addr string) bool {
		return bytes.Equal(auth.Marshal(), e.mt.host.ca.PublicKey().Marshal())
	}}
	cfg.HostKeyCallback = func(hostname string, remote net.Addr, key ssh.PublicKey) error {
		if _, isCert := key.(*ssh.Certificate); isCert {
			return chk.CheckHostKey(hostname, remote, key)
		}
		if want := e.mt.host.plain[key.Type()]; want == nil || !bytes.Equal(want.PublicKey().Marshal(), key.Marshal()) {
			return errors.New("not the expected host key")
		}
		return nil
	}
	var crep clientReport
	done, pv, pstack, _ := mon.RunTimed(e.watchdog(subWatchdog), func() {
		hooks := workloadHooks{}
		if tc.class == "kex" {
			// >= 4 thresholds of payload: a re-key is certainly requested; keep the
			// connection until it is complete
			hooks.beforeClose = func() {
				waitFor(func() bool { tmu.Lock(); defer tmu.Unlock(); return len(kexes) >= 2 }, 60*time.Second)
			}
		}
		crep = goClientCat(rc, cfg, tap, payload, chunks, hooks)
		rc.Close()
		<-srv.done
	})
	if !done {
		e.subStall("go-client-vs-go-server", tc.dim, desc)
		rc.Close()
		return
	}
	if pv != nil {
		m.Violation("panic:"+mon.PanicSite(pstack), map[string]any{"case": desc, "panic": fmt.Sprint(pv), "stack": pstack})
		return
	}
	srep := srv.report()
	m.Eval()
	m.Count("sub_tap_connections", 1)
	tmu.Lock()
	ks := append([]tapKex(nil), kexes...)
	tmu.Unlock()
	rc.mu.Lock()
	c2sRaw, s2cRaw := rc.c2s, rc.s2c
	rc.mu.Unlock()
	witness := func(extra map[string]any) map[string]any {
		w := map[string]any{"case": desc, "payload_hex": mon.Hex(payload), "go_server": srep.String(),
			"go_client":            fmt.Sprintf("dialErr=%q sessionErr=%q out=%d bytes exit=%d algs=%+v", crep.DialErr, crep.SessionErr, len(crep.Out), crep.Exit, crep.Algs),
			"tapped_key_exchanges": len(ks), "c2s_bytes": len(c2sRaw), "s2c_bytes": len(s2cRaw)}
		for k, v := range extra {
			w[k] = v
		}
		return w
	}
	bad := func(kind string, extra map[string]any) {
		m.Violation("go-client-vs-go-server:"+kind+":"+tc.dim, witness(extra))
	}
	if crep.DialErr != "" || crep.SessionErr != "" || srep.HandshakeErr != "" || len(srep.SessionErrs) > 0 {
		bad("connection", nil)
		return
	}
	ok := true
	macBad := func(a *ssh.NegotiatedAlgorithms) bool {
		return !isAEAD(cipher) && (a.Read.MAC != mac || a.Write.MAC != mac)
	}
	if a := crep.Algs; a == nil || a.KeyExchange != tc.kex || a.HostKey != tc.hostKeyAlg || a.Read.Cipher != cipher || a.Write.Cipher != cipher || macBad(a) ||
		srep.Algs == nil || srep.Algs.KeyExchange != tc.kex || srep.Algs.HostKey != tc.hostKeyAlg || srep.Algs.Read.Cipher != cipher || srep.Algs.Write.Cipher != cipher || macBad(srep.Algs) {
		bad("negotiated-other", nil)
		ok = false
	}
	if !bytes.Equal(crep.Out, payload) || srep.CatBytes != size || crep.Exit != 0 {
		bad("data-mismatch", map[string]any{"client_got_hex": mon.Hex(crep.Out)})
		ok = false
	}
	if len(ks) == 0 {
		m.Inconclusive("tap saw no key exchange")
		return
	}
	// ---- the wire, as an independent implementation reads it ----
	strict := false
	var dc, ds decoded
	// the first KEXINITs are in the clear: read them to learn whether strict KEX is on
	if pc, err := decodeStream(c2sRaw, true, nil, false); len(pc.payloads) > 0 {
		_ = err
		if ps, _ := decodeStream(s2cRaw, false, nil, false); len(ps.payloads) > 0 {
			strict = nameListHas(pc.payloads[0], "kex-strict-c-v00@openssh.com") && nameListHas(ps.payloads[0], "kex-strict-s-v00@openssh.com")
		}
	}
	dc, errC := decodeStream(c2sRaw, true, ks, strict)
	ds, errS := decodeStream(s2cRaw, false, ks, strict)
	if errC != nil {
		bad("wire-client-to-server-unreadable-by-sshref", map[string]any{"sshref": errC.Error(), "strict": strict})
		return
	}
	if errS != nil {
		bad("wire-server-to-client-unreadable-by-sshref", map[string]any{"sshref": errS.Error(), "strict": strict})
		return
	}
	if !bytes.Equal(channelData(dc), payload) || !bytes.Equal(channelData(ds), payload) {
		bad("wire-data-mismatch", nil)
		ok = false
	}
	nh, err := recomputeHashes(tc.kex, dc, ds, ks)
	if err != nil {
		bad("exchange-hash", map[string]any{"reference": err.Error()})
		ok = false
	}
	if !ok {
		return
	}
	m.Count("sub_tap_ok", 1)
	m.Count("sub_tap_ok_"+tc.class, 1)
	if tc.prefDim != "" && len(ds.payloads) > 0 {
		// the server's real order: its first KEXINIT on the captured wire
		if sl, err := kexInitLists(ds.payloads[0]); err == nil {
			real := map[string][]string{"kex": sl[0], "hostkey": sl[1], "cipher": sl[3], "mac": sl[5]}[tc.prefDim]
			if o := offers[tc.prefDim]; serverFirst(real, o) != o[0] {
				m.Count("sub_tap_pref_first_choices_differ_"+tc.prefDim, 1)
			}
		}
	}
	m.Count("sub_tap_key_exchanges", len(ks))
	m.Count("sub_tap_exchange_hashes_recomputed", nh)
	m.Count("sub_tap_packets_decrypted_by_sshref", len(dc.payloads)+len(ds.payloads))
	if len(ks) >= 2 {
		m.Count("sub_tap_connections_with_rekey", 1)
		if tc.class == "kex" {
			m.Count("sub_tap_kex_with_rekey", 1)
		}
	}
	if strict {
		m.Count("sub_tap_strict_kex", 1)
	}
	m.Count("sub tap ok kex "+tc.kex, 1)
	m.Count("sub tap ok hostkey "+tc.hostKeyAlg, 1)
	m.Count("sub tap ok cipher "+cipher, 1)
	m.Distinct(fmt.Sprintf("tap %s %s %s %s %s key=%s size=%s thr=%d/%d", tc.class, tc.kex, tc.hostKeyAlg, cipher, mac, tc.clientKeyFormat, sizeClass(size), cthr, sthr))
	if tc.kex == ssh.KeyExchangeMLKEM768X25519 || i%13 == 5 {
		m.Sample(map[string]any{"case": desc, "key_exchanges": len(ks), "packets_c2s": len(dc.payloads), "packets_s2c": len(ds.payloads), "exchange_hashes_recomputed": nh, "strict": strict})
	}
}

// ---- plans -----------------------------------------------------------------------

func (e *env) runSubstitutes() {
	m := e.m
	parts := os.Getenv("SSHINTEROP_PARTS") // development aid: "peer", "tap"; empty = everything
	sup, ins := ssh.SupportedAlgorithms(), ssh.InsecureAlgorithms()
	goKex := append(allOf(sup, ins, func(a ssh.Algorithms) []string { return a.KeyExchanges }), "curve25519-sha256@libssh.org")
	goCiphers := allOf(sup, ins, func(a ssh.Algorithms) []string { return a.Ciphers })
	goMACs := allOf(sup, ins, func(a ssh.Algorithms) []string { return a.MACs })
	goHostAlgs := slices.DeleteFunc(allOf(sup, ins, func(a ssh.Algorithms) []string { return a.HostKeys }), func(a string) bool { return strings.HasPrefix(a, "ssh-dss") })

	// (a) Go client -> sshref.Peer
	var pp []subPeerCase
	var peerKex []string
	for _, k := range goKex {
		if slices.Contains(sshref.PeerKexAlgos, k) {
			peerKex = append(peerKex, k)
		}
	}
	reps := m.N(1, 3)
	for rep := 0; rep < reps; rep++ {
		for _, k := range peerKex {
			pp = append(pp, subPeerCase{class: "kex", dim: "kex=" + k, kex: k, cipher: bgCipher, mac: bgMAC})
		}
	}
	npairs, skipped := 0, 0
	for rep := 0; rep < reps; rep++ {
		for _, c := range goCiphers {
			if sshref.Cipher(c) == nil {
				continue
			}
			ml := goMACs
			if isAEAD(c) {
				ml = goMACs[:1]
			}
			for _, ma := range ml {
				if sshref.MAC(ma) == nil {
					continue
				}
				if knownBadPair(c, ma) {
					skipped++
					continue
				}
				pp = append(pp, subPeerCase{class: "cipherXmac", dim: "cipher=" + c + ",mac=" + ma, kex: bgKex, cipher: c, mac: ma})
				npairs++
			}
		}
	}
	for rep := 0; rep < reps; rep++ {
		for _, d := range []string{"kex", "cipher", "mac"} {
			for k := 0; k < 2; k++ {
				pp = append(pp, subPeerCase{class: "pref", dim: fmt.Sprintf("preference-order:%s:%s", d, []string{"reversed", "rotated"}[k]), kex: bgKex, cipher: bgCipher, mac: bgMAC, prefDim: d, prefKind: k})
			}
		}
	}
	m.Each("sub-skipped", 1, func(int64, *rand.Rand) { m.Count("sub_skipped_known_c25_cbc_etm", skipped/reps) })
	if parts != "" && !strings.Contains(parts, "peer") {
		pp = nil
	}
	m.Cases("sub-peer", len(pp), func(i int64, r *rand.Rand) { e.runPeerCase(pp[i], i, r) })

	// (a') Go client -> steerPeer: shape of K forced at every exchange
	type steerCase struct{ kex, mode string }
	var sp []steerCase
	for _, k := range steerPeerKex {
		if slices.Contains(goKex, k) {
			sp = append(sp, steerCase{k, "lz"}, steerCase{k, "hb"})
		}
	}
	nsp := len(sp) / 2
	if parts != "" && !strings.Contains(parts, "steer") {
		sp = nil
	}
	m.Cases("sub-steer-peer", len(sp), func(i int64, r *rand.Rand) { e.runSteerPeerCase(sp[i].kex, sp[i].mode, i, r) })
	m.Gate("sub_steer_peer_cases_lz", nsp, "substitute: Go client sessions against the independent server in which K was forced to start with 00 + byte < 0x80, per kex (curve25519 x2, ECDH P-256/384/521, DH group1/14/16)")
	m.Gate("sub_steer_peer_cases_hb", nsp, "substitute: Go client sessions against the independent server in which K was forced to have its top bit set, per kex")

	// (b) Go client <-> Go server, tapped
	var tp []subTapCase
	ckf := hostFormats // client key formats rotate
	notInPeer := slices.DeleteFunc(slices.Clone(goKex), func(k string) bool { return slices.Contains(sshref.PeerKexAlgos, k) })
	for rep := 0; rep < reps; rep++ {
		for i, k := range goKex {
			tp = append(tp, subTapCase{class: "kex", dim: "kex=" + k, kex: k, hostKeyAlg: goHostAlgs[(i+rep)%len(goHostAlgs)], clientKeyFormat: ckf[(i+rep)%len(ckf)]})
		}
		for i, h := range goHostAlgs {
			tp = append(tp, subTapCase{class: "hostkey", dim: "hostkey=" + h, kex: notInPeer[(i+rep)%len(notInPeer)], hostKeyAlg: h, clientKeyFormat: ckf[(i+rep+2)%len(ckf)]})
		}
	}
	if m.Thorough() {
		for _, k := range notInPeer {
			for _, c := range goCiphers {
				ma := goMACs[len(tp)%len(goMACs)]
				if knownBadPair(c, ma) {
					ma = bgMAC
				}
				tp = append(tp, subTapCase{class: "kexXcipher", dim: "kex=" + k + ",cipher=" + c, kex: k, hostKeyAlg: bgHostKey, cipher: c, mac: ma, clientKeyFormat: ssh.KeyAlgoED25519})
			}
		}
	}
	for rep := 0; rep < reps; rep++ {
		for _, d := range prefDims {
			for k := 0; k < 2; k++ {
				tp = append(tp, subTapCase{class: "pref", dim: fmt.Sprintf("preference-order:%s:%s", d, []string{"reversed", "rotated"}[k]), clientKeyFormat: ssh.KeyAlgoED25519, prefDim: d, prefKind: k})
			}
		}
	}
	for _, d := range prefDims {
		m.Gate("sub_tap_pref_first_choices_differ_"+d, 2, "substitute: Go client offering 3 "+d+" algorithms in an order unlike the Go server's (order read from the server's KEXINIT on the wire), first choices differing: both ends must report the client's first choice")
	}
	if parts != "" && !strings.Contains(parts, "tap") {
		tp = nil
	}
	m.Cases("sub-tap", len(tp), func(i int64, r *rand.Rand) { e.runTapCase(tp[i], i, r) })

	m.Gate("sub_peer_ok_kex", len(peerKex), "substitute: the Go client completed a session with re-keys against sshref.Peer for every kex the peer implements")
	m.Gate("sub_peer_ok_cipherXmac", npairs/reps, "substitute: the Go client completed a session with re-keys against sshref.Peer for every cipher x MAC pair (minus the known CBC x EtM pairs)")
	for _, d := range []string{"kex", "cipher", "mac"} {
		m.Gate("sub_peer_pref_first_choices_differ_"+d, 2, "substitute: Go client offering 3 "+d+" algorithms in an order unlike sshref.Peer's, first choices differing: both must settle on the client's first choice")
	}
	m.Gate("sub_peer_rekeys_started_by_go_client", 20, "substitute: re-keys started by the Go client (RekeyThreshold) and completed during the upload against sshref.Peer")
	m.Gate("sub_peer_rekeys_started_by_peer", 60, "substitute: re-keys started by sshref.Peer")
	m.Gate("sub_tap_ok_kex", len(goKex), "substitute: every kex of the package (incl. mlkem768x25519, DH group1/16, group exchange) ran Go<->Go with the exchange hash recomputed and the wire decrypted by sshref")
	m.Gate("sub_tap_ok_hostkey", len(goHostAlgs), "substitute: every host key algorithm accepted by the Go client with the wire decrypted by sshref")
	m.Gate("sub_tap_kex_with_rekey", len(goKex), "substitute: every kex re-keyed at least once on a tapped connection (exchange hash with session id != H)")
	m.Gate("sub_tap_connections_with_rekey", 10, "substitute: tapped connections that re-keyed")
}

package sshinterop

import (
	"os"
	"testing"
	"time"
)

func TestExplore(t *testing.T) {
	if os.Getenv("SSHINTEROP_EXPLORE") == "" {
		t.Skip()
	}
	mt, err := getMaterial()
	if err != nil {
		t.Fatal(err)
	}
	c := &sshCase{Kex: "curve25519-sha256", HostKeyAlg: "rsa-sha2-512", Cipher: "aes128-ctr", MAC: "hmac-sha2-256", KeyName: "rsa", PubkeyAlg: "rsa-sha2-512", Cmd: "cat", Payload: make([]byte, 40000), ClientRekey: "16K"}
	k := mt.client.keys[c.KeyName]
	srv, err := startServer(mt.host, serverOpts{expectKey: k.Pub, userCA: mt.client.userCA})
	if err != nil {
		t.Fatal(err)
	}
	t0 := time.Now()
	res := runSSH(c.args(mt, srv.port()), c.Payload, 60*time.Second, nil)
	t.Logf("took %v cpu %v", time.Since(t0), res.UserCPU)
	srv.stop()
	<-srv.done
	t.Logf("exit=%d timedout=%v err=%q stdout=%d bytes", res.Exit, res.TimedOut, res.Err, len(res.Stdout))
	t.Logf("server: %s", srv.report())
	t.Logf("parsed: %+v", parseSSHLog(res.Log))
	t.Logf("log:\n%s", res.Log)
}

package sshinterop

// Running the OpenSSH client and reading its own account (-vvv on stderr).

import (
	"bytes"
	"errors"
	"os"
	"os/exec"
	"regexp"
	"strconv"
	"strings"
	"syscall"
	"time"
)

// sshCase is one OpenSSH client invocation against one Go server instance.
type sshCase struct {
	Kex, HostKeyAlg, Cipher, MAC string
	KeyName                      string // clientKeySet key name
	UseCert                      bool
	PubkeyAlg                    string // PubkeyAcceptedAlgorithms pin ("" = default)
	Cmd                          string // "cat" or "exit N"
	Payload                      []byte
	ClientRekey                  string // RekeyLimit value ("" = default)
	ServerRekey                  uint64 // Config.RekeyThreshold (0 = default)
	// Offers: comma lists given to the client instead of the single pinned
	// algorithm (preference-order cases); Kex etc. then hold the expectation.
	KexOffer, HostKeyOffer, CipherOffer, MACOffer string
	KnownHosts                                    string // override (negative control)
	Identity                                      string // override (negative control)
}

// sshResult is what came back.
type sshResult struct {
	Started  bool
	TimedOut bool
	Exit     int // -1 if killed by a signal / not started
	Stdout   []byte
	Log      string // stderr (-vvv)
	Err      string
	UserCPU  time.Duration
}

const sshBin = "/usr/bin/ssh"

func (c *sshCase) args(mt *material, port int) []string {
	kh := c.KnownHosts
	if kh == "" {
		kh = mt.host.knownHosts
	}
	id := c.Identity
	if id == "" {
		k := mt.client.keys[c.KeyName]
		id = k.Path
		if c.UseCert {
			id = k.CertKey
		}
	}
	a := []string{"-F", "none", "-vvv", "-T", "-a", "-x",
		"-o", "BatchMode=yes", "-o", "StrictHostKeyChecking=yes",
		"-o", "UserKnownHostsFile=" + kh, "-o", "GlobalKnownHostsFile=/dev/null",
		"-o", "HostKeyAlias=" + hostAlias, "-o", "CheckHostIP=no", "-o", "UpdateHostKeys=no",
		"-o", "IdentitiesOnly=yes", "-o", "IdentityAgent=none", "-i", id,
		"-o", "PreferredAuthentications=publickey", "-o", "Compression=no",
		"-o", "ControlMaster=no", "-o", "ControlPath=none", "-o", "EscapeChar=none",
		"-o", "NumberOfPasswordPrompts=0", "-o", "ServerAliveInterval=0", "-o", "TCPKeepAlive=no",
		"-p", strconv.Itoa(port)}
	pick := func(offer, pin string) string {
		if offer != "" {
			return offer
		}
		return pin
	}
	for _, o := range [][2]string{{"KexAlgorithms", pick(c.KexOffer, c.Kex)}, {"HostKeyAlgorithms", pick(c.HostKeyOffer, c.HostKeyAlg)}, {"Ciphers", pick(c.CipherOffer, c.Cipher)}, {"MACs", pick(c.MACOffer, c.MAC)}} {
		if o[1] != "" {
			a = append(a, "-o", o[0]+"="+o[1])
		}
	}
	if c.PubkeyAlg != "" {
		a = append(a, "-o", "PubkeyAcceptedAlgorithms="+c.PubkeyAlg)
	}
	if c.ClientRekey != "" {
		a = append(a, "-o", "RekeyLimit="+c.ClientRekey)
	}
	a = append(a, sshUser+"@127.0.0.1", c.Cmd)
	return a
}

// runSSH runs the client. watchdog only bounds how long we wait: on expiry
// onStall (if any) may look at the still-running process, then the process is
// killed and the result is reported as TimedOut — never judged by itself.
func runSSH(args []string, stdin []byte, watchdog time.Duration, onStall func(pid int)) sshResult {
	cmd := exec.Command(sshBin, args...)
	cmd.Stdin = bytes.NewReader(stdin)
	var so, se bytes.Buffer
	cmd.Stdout, cmd.Stderr = &so, &se
	cmd.Env = append(os.Environ(), "LC_ALL=C", "SSH_AUTH_SOCK=", "SSH_ASKPASS=/bin/false", "DISPLAY=")
	cmd.WaitDelay = 5 * time.Second
	res := sshResult{Exit: -1}
	if err := cmd.Start(); err != nil {
		res.Err = err.Error()
		return res
	}
	res.Started = true
	waited := make(chan error, 1)
	go func() { waited <- cmd.Wait() }()
	tm := time.NewTimer(watchdog)
	defer tm.Stop()
	var err error
	select {
	case err = <-waited:
	case <-tm.C:
		res.TimedOut = true
		if onStall != nil {
			onStall(cmd.Process.Pid)
		}
		cmd.Process.Kill()
		err = <-waited
	}
	res.Stdout, res.Log = so.Bytes(), se.String()
	if cmd.ProcessState != nil {
		res.UserCPU = cmd.ProcessState.UserTime() + cmd.ProcessState.SystemTime()
		if ws, ok := cmd.ProcessState.Sys().(syscall.WaitStatus); ok && ws.Exited() {
			res.Exit = ws.ExitStatus()
		}
	}
	var ee *exec.ExitError
	if err != nil && !errors.As(err, &ee) {
		res.Err = err.Error()
	}
	return res
}

// ---- OpenSSH's own account -------------------------------------------------

type sshLog struct {
	Kex, HostKeyAlg        []string    // one entry per key exchange
	S2C, C2S               [][2]string // cipher, MAC per key exchange
	NewKeysSent, NewKeysRx int
	ClientInit, ServerInit int // re-exchanges (after the first) by who sent KEXINIT first
	Authenticated          bool
	AuthMethod             string
	SignAlgs               []string // "signing using X" lines
	ServerAccepts          []string // "Server accepts key" lines
	OfferedCert            bool
	ExitStatus             int // from "Exit status N"; -1 if absent
	RemoteVersion          string
	HostKeyVerifyFailed    bool
	PermissionDenied       bool
	FatalLines             []string
}

var (
	reKex     = regexp.MustCompile(`(?m)^debug1: kex: algorithm: (\S+)`)
	reHK      = regexp.MustCompile(`(?m)^debug1: kex: host key algorithm: (\S+)`)
	reS2C     = regexp.MustCompile(`(?m)^debug1: kex: server->client cipher: (\S+) MAC: (\S+) compression: (\S+)`)
	reC2S     = regexp.MustCompile(`(?m)^debug1: kex: client->server cipher: (\S+) MAC: (\S+) compression: (\S+)`)
	reAuth    = regexp.MustCompile(`(?m)^Authenticated to \S+ \(\[[^\]]*\]:\d+\) using "([^"]+)"`)
	reSign    = regexp.MustCompile(`(?m)^debug3: sign_and_send_pubkey: using \S+ with (\S+) \S+ signing using (\S+)|^debug3: sign_and_send_pubkey: signing using (\S+) `)
	reAccepts = regexp.MustCompile(`(?m)^debug1: Server accepts key: \S+ (\S+) `)
	reExit    = regexp.MustCompile(`(?m)^debug1: Exit status (-?\d+)`)
	reInit    = regexp.MustCompile(`(?m)^debug1: SSH2_MSG_KEXINIT (sent|received)`)
	reRemote  = regexp.MustCompile(`(?m)^debug1: Remote protocol version \S+, remote software version (.*)$`)
)

func parseSSHLog(log string) sshLog {
	log = strings.ReplaceAll(log, "\r\n", "\n")
	var l sshLog
	l.ExitStatus = -1
	for _, m := range reKex.FindAllStringSubmatch(log, -1) {
		l.Kex = append(l.Kex, m[1])
	}
	for _, m := range reHK.FindAllStringSubmatch(log, -1) {
		l.HostKeyAlg = append(l.HostKeyAlg, m[1])
	}
	for _, m := range reS2C.FindAllStringSubmatch(log, -1) {
		l.S2C = append(l.S2C, [2]string{m[1], m[2]})
	}
	for _, m := range reC2S.FindAllStringSubmatch(log, -1) {
		l.C2S = append(l.C2S, [2]string{m[1], m[2]})
	}
	l.NewKeysSent = strings.Count(log, "debug1: SSH2_MSG_NEWKEYS sent")
	l.NewKeysRx = strings.Count(log, "debug1: SSH2_MSG_NEWKEYS received")
	// who started each key exchange: order of "KEXINIT sent" / "KEXINIT received"
	pending, nk := "", 0
	for _, m := range reInit.FindAllStringSubmatch(log, -1) {
		if pending == "" {
			pending = m[1]
			continue
		}
		if pending != m[1] {
			if nk > 0 {
				if pending == "sent" {
					l.ClientInit++
				} else {
					l.ServerInit++
				}
			}
			nk++
			pending = ""
		}
	}
	if m := reAuth.FindStringSubmatch(log); m != nil {
		l.Authenticated, l.AuthMethod = true, m[1]
	}
	for _, m := range reSign.FindAllStringSubmatch(log, -1) {
		if m[2] != "" {
			l.SignAlgs = append(l.SignAlgs, m[2])
		} else {
			l.SignAlgs = append(l.SignAlgs, m[3])
		}
	}
	for _, m := range reAccepts.FindAllStringSubmatch(log, -1) {
		l.ServerAccepts = append(l.ServerAccepts, m[1])
	}
	if m := reExit.FindStringSubmatch(log); m != nil {
		l.ExitStatus, _ = strconv.Atoi(m[1])
	}
	if m := reRemote.FindStringSubmatch(log); m != nil {
		l.RemoteVersion = strings.TrimSpace(m[1])
	}
	l.HostKeyVerifyFailed = strings.Contains(log, "Host key verification failed") || strings.Contains(log, "No ED25519 host key is known") || strings.Contains(log, "REMOTE HOST IDENTIFICATION HAS CHANGED")
	l.PermissionDenied = strings.Contains(log, "Permission denied (")
	for _, ln := range strings.Split(log, "\n") {
		if ln == "" || strings.HasPrefix(ln, "debug") || strings.HasPrefix(ln, "Authenticated to") || strings.HasPrefix(ln, "OpenSSH_") || strings.HasPrefix(ln, "Transferred:") || strings.HasPrefix(ln, "Bytes per second:") {
			continue
		}
		l.FatalLines = append(l.FatalLines, ln)
	}
	return l
}

// tailLog keeps the informative end of a -vvv log for witnesses.
func tailLog(log string, n int) string {
	if len(log) <= n {
		return log
	}
	return "…" + log[len(log)-n:]
}

package sshinterop

// Steering the shape of the shared secret K.
//
// How K is encoded (mpint: minimal length, 00 pad when the top bit is set)
// enters the exchange hash and every derived key. Two shapes are rare or
// special and must be forced, not awaited:
//
//	"lz": the secret, written with the full length of the method (32 bytes
//	      for X25519, the byte length of p for DH, the field size for ECDH),
//	      starts with a 00 byte followed by a byte < 0x80  (mpint is one byte
//	      shorter, no pad): about 1 exchange in 512;
//	"hb": its top bit is set (mpint needs a 00 pad): about 1 in 2.
//
// Part 1 (OpenSSH client -> Go server): the Go server draws its ephemeral
// value from ServerConfig.Rand after it has read the client's value, so a
// Rand reader that has seen that value (VerifTap.AfterRead) searches for a
// private scalar giving the wanted shape and returns exactly the bytes the
// key exchange consumes (curve25519: 32 bytes; DH / group exchange: the
// rand.Int draw). ecdh-sha2-nistp* is not steerable this way: since Go 1.26
// ecdsa.GenerateKey ignores a custom reader.
//
// Part 2a (Go client -> independent server): steerPeer is a small server-side
// SSH endpoint written here on top of sshref's packet layer, key derivation
// and ref/sshkexhash; it chooses its ephemeral key after it has seen the Go
// client's value.

import (
	"bufio"
	"crypto"
	"crypto/ecdh"
	"crypto/ed25519"
	crand "crypto/rand"
	"errors"
	"fmt"
	"io"
	"math/big"
	"slices"
	"strings"
	"sync"

	"golang.org/x/crypto/ssh"
	kh "verif/ref/sshkexhash"
	"verif/sshref"
)

const steerMaxTries = 40000

// shapeOf classifies a secret written with the full length of the method.
// "hb" looks at the minimal big-endian form (what an mpint starts from): for
// P-521 the full-length top byte only has one bit.
func shapeOf(secret []byte) string {
	if len(secret) >= 2 && secret[0] == 0 && secret[1] < 0x80 && secret[1] != 0 {
		return "lz"
	}
	for _, c := range secret {
		if c != 0 {
			if c&0x80 != 0 {
				return "hb"
			}
			break
		}
	}
	return "plain"
}

func fixedLen(v *big.Int, n int) []byte {
	b := v.Bytes()
	if len(b) >= n {
		return b
	}
	return append(make([]byte, n-len(b)), b...)
}

func hashByName(n string) crypto.Hash {
	switch n {
	case "sha1":
		return crypto.SHA1
	case "sha384":
		return crypto.SHA384
	case "sha512":
		return crypto.SHA512
	}
	return crypto.SHA256
}

// searchX25519 / searchNIST / searchDH find an own private value whose shared
// secret with the peer's value has the wanted shape.
func searchECDH(curve ecdh.Curve, peer []byte, mode string) (priv *ecdh.PrivateKey, secret []byte, tries int, err error) {
	pub, err := curve.NewPublicKey(peer)
	if err != nil {
		return nil, nil, 0, err
	}
	for tries = 1; tries <= steerMaxTries; tries++ {
		k, err := curve.GenerateKey(crand.Reader)
		if err != nil {
			return nil, nil, tries, err
		}
		s, err := k.ECDH(pub)
		if err != nil {
			continue
		}
		if shapeOf(s) == mode {
			return k, s, tries, nil
		}
	}
	return nil, nil, tries, errors.New("no private value with the wanted shape found")
}

func searchDH(e, p *big.Int, mode string) (y, k *big.Int, tries int, err error) {
	n := (p.BitLen() + 7) / 8
	buf := make([]byte, 32)
	for tries = 1; tries <= steerMaxTries; tries++ {
		crand.Read(buf)
		y = new(big.Int).SetBytes(buf)
		if y.Sign() == 0 {
			continue
		}
		k = new(big.Int).Exp(e, y, p)
		if shapeOf(fixedLen(k, n)) == mode {
			return y, k, tries, nil
		}
	}
	return nil, nil, tries, errors.New("no exponent with the wanted shape found")
}

// ---- part 1: steering the Go server through Config.Rand ----------------------

type steerRand struct {
	mu        sync.Mutex
	kex, mode string
	meth      kh.Method
	p         *big.Int // DH / group exchange modulus
	armed     bool
	peerPub   []byte   // X25519
	e         *big.Int // DH
	wantLen   int
	predicted []*big.Int // secrets (as integers) the served values lead to
	Served    int
	Tries     int
	Confirmed int // key exchanges whose K (from the tap) equals the prediction
	Failed    []string
}

// steerableByRand reports whether the Go side of kex draws its ephemeral value
// from Config.Rand in a way this reader can steer.
func steerableByRand(kex string) bool {
	m, ok := kh.Methods[kex]
	return ok && (m.Family == kh.FamX25519 || m.Family == kh.FamDH || m.Family == kh.FamGEX)
}

func newSteerRand(kex, mode string) *steerRand {
	s := &steerRand{kex: kex, mode: mode, meth: kh.Methods[kex]}
	if s.meth.Family == kh.FamDH {
		s.p = kh.MODP(s.meth.Group)
	}
	return s
}

func (s *steerRand) Read(b []byte) (int, error) {
	s.mu.Lock()
	if !s.armed || len(b) != s.wantLen {
		s.mu.Unlock()
		return crand.Read(b)
	}
	defer s.mu.Unlock()
	s.armed = false
	switch s.meth.Family {
	case kh.FamX25519:
		k, secret, tries, err := searchECDH(ecdh.X25519(), s.peerPub, s.mode)
		s.Tries += tries
		if err != nil {
			s.Failed = append(s.Failed, err.Error())
			return crand.Read(b)
		}
		copy(b, k.Bytes())
		s.predicted = append(s.predicted, new(big.Int).SetBytes(secret))
	default:
		y, k, tries, err := searchDH(s.e, s.p, s.mode)
		s.Tries += tries
		if err != nil {
			s.Failed = append(s.Failed, err.Error())
			return crand.Read(b)
		}
		copy(b, fixedLen(y, len(b))) // rand.Int: big-endian, top bits masked (they are zero)
		s.predicted = append(s.predicted, k)
	}
	s.Served++
	return len(b), nil
}

func (s *steerRand) tap() *ssh.VerifTap {
	return &ssh.VerifTap{
		BeforeWrite: func(seq uint32, pkt []byte) {
			if s.meth.Family == kh.FamGEX && len(pkt) > 0 && pkt[0] == 31 {
				r := &kh.Reader{B: pkt[1:]}
				p := r.Mpint()
				r.Mpint()
				if r.Done() {
					s.mu.Lock()
					s.p = p
					s.mu.Unlock()
				}
			}
		},
		AfterRead: func(seq uint32, pkt []byte, err error) {
			if err != nil || len(pkt) == 0 {
				return
			}
			s.mu.Lock()
			defer s.mu.Unlock()
			r := &kh.Reader{B: pkt[1:]}
			switch {
			case s.meth.Family == kh.FamX25519 && pkt[0] == 30:
				q := r.String()
				if r.Done() && len(q) == 32 {
					s.peerPub, s.wantLen, s.armed = slices.Clone(q), 32, true
				}
			case (s.meth.Family == kh.FamDH && pkt[0] == 30) || (s.meth.Family == kh.FamGEX && pkt[0] == 32 && s.p != nil):
				e := r.Mpint()
				if r.Done() && e.Sign() > 0 {
					// rand.Int(rand, max) reads ceil(bitlen(max-1)/8) bytes; max is p-1 or p>>1
					s.e, s.wantLen, s.armed = e, (s.p.BitLen()+7)/8, true
				}
			}
		},
		KeyChange: func(a ssh.NegotiatedAlgorithms, k ssh.VerifKexResult) {
			s.mu.Lock()
			defer s.mu.Unlock()
			if len(s.predicted) == 0 || len(k.K) < 4 {
				return
			}
			if new(big.Int).SetBytes(k.K[4:]).Cmp(s.predicted[len(s.predicted)-1]) == 0 {
				s.Confirmed++
			}
		},
	}
}

func (s *steerRand) stats() (served, confirmed, tries int, failed []string) {
	s.mu.Lock()
	defer s.mu.Unlock()
	return s.Served, s.Confirmed, s.Tries, slices.Clone(s.Failed)
}

// ---- part 2a: an independent server that picks its key last -----------------------

// peerConn is what the authentication and session layers of part 2 need.
type peerConn interface {
	ReadPacket() ([]byte, error)
	WritePacket([]byte) error
	SessionID() []byte
	Rekey() error
}

const (
	steerCipher = "aes128-ctr"
	steerMAC    = "hmac-sha2-256"
)

// steerPeerKex lists the methods steerPeer implements.
var steerPeerKex = []string{"curve25519-sha256", "curve25519-sha256@libssh.org", "ecdh-sha2-nistp256", "ecdh-sha2-nistp384", "ecdh-sha2-nistp521",
	"diffie-hellman-group1-sha1", "diffie-hellman-group14-sha1", "diffie-hellman-group14-sha256", "diffie-hellman-group16-sha512"}

type steerPeer struct {
	r              *bufio.Reader
	w              io.Writer
	rd             *sshref.Reader
	wr             *sshref.Writer
	seqIn, seqOut  uint32
	vC, vS         string
	sid            []byte
	hostKey        ed25519.PrivateKey
	kex, mode      string
	strict         bool
	Kexes, Steered int
	Tries          int
	Shapes         []string
}

func newSteerPeer(conn io.ReadWriter, hostKey ed25519.PrivateKey, kex, mode string) *steerPeer {
	p := &steerPeer{r: bufio.NewReaderSize(conn, 1<<16), w: conn, hostKey: hostKey, kex: kex, mode: mode, vS: "SSH-2.0-verifsteer_1.0"}
	p.rd, _ = sshref.NewReader("none", "none", sshref.Keys{})
	p.wr, _ = sshref.NewWriter("none", "none", sshref.Keys{})
	return p
}

func (p *steerPeer) SessionID() []byte { return p.sid }

func (p *steerPeer) WritePacket(pl []byte) error {
	err := p.wr.WritePacket(p.seqOut, p.w, pl, -1)
	p.seqOut++
	return err
}

func (p *steerPeer) readRaw() ([]byte, error) {
	info, err := p.rd.ReadPacket(p.seqIn, p.r)
	p.seqIn++
	if err == nil && len(info.Payload) == 0 {
		err = errors.New("empty payload")
	}
	return info.Payload, err
}

func (p *steerPeer) ReadPacket() ([]byte, error) {
	for {
		pl, err := p.readRaw()
		if err != nil {
			return nil, err
		}
		switch pl[0] {
		case sshref.MsgIgnore, sshref.MsgDebug, sshref.MsgExtInfo:
			continue
		case sshref.MsgDisconnect:
			return nil, errors.New("peer disconnected")
		case sshref.MsgKexInit:
			if err := p.kexRun(slices.Clone(pl)); err != nil {
				return nil, err
			}
			continue
		}
		return pl, nil
	}
}

func (p *steerPeer) Handshake() error {
	if _, err := io.WriteString(p.w, p.vS+"\r\n"); err != nil {
		return err
	}
	line, err := p.r.ReadString('\n')
	if err != nil {
		return err
	}
	p.vC = strings.TrimRight(line, "\r\n")
	if !strings.HasPrefix(p.vC, "SSH-2.0-") {
		return errors.New("unexpected identification " + p.vC)
	}
	return p.kexRun(nil)
}

func (p *steerPeer) Rekey() error { return p.kexRun(nil) }

func kexInitLists(pl []byte) (lists [][]string, err error) {
	r := &kh.Reader{B: pl}
	if r.Byte() != sshref.MsgKexInit || len(r.B) < 16 {
		return nil, errors.New("not a KEXINIT")
	}
	r.B = r.B[16:]
	for i := 0; i < 10; i++ {
		lists = append(lists, strings.Split(string(r.String()), ","))
	}
	return lists, r.Err
}

// kexRun performs one key exchange in server role. peerInit is the client's
// KEXINIT payload if it was already read.
func (p *steerPeer) kexRun(peerInit []byte) error {
	first := p.Kexes == 0
	cookie := make([]byte, 16)
	crand.Read(cookie)
	kexList := p.kex
	if first {
		kexList += ",kex-strict-s-v00@openssh.com"
	}
	own := msg(sshref.MsgKexInit)
	own.b = append(own.b, cookie...)
	for _, l := range []string{kexList, "ssh-ed25519", steerCipher, steerCipher, steerMAC, steerMAC, "none", "none", "", ""} {
		own.str([]byte(l))
	}
	own.bool(false).u32(0)
	if err := p.WritePacket(own.b); err != nil {
		return err
	}
	for peerInit == nil {
		pl, err := p.readRaw()
		if err != nil {
			return err
		}
		if pl[0] == sshref.MsgKexInit {
			peerInit = slices.Clone(pl)
		} else if first {
			return fmt.Errorf("message %d before KEXINIT", pl[0])
		} // re-exchange started here at a quiet point: in-flight packets are dropped
	}
	cl, err := kexInitLists(peerInit)
	if err != nil {
		return err
	}
	if !slices.Contains(cl[0], p.kex) || !slices.Contains(cl[1], "ssh-ed25519") || !slices.Contains(cl[2], steerCipher) || !slices.Contains(cl[3], steerCipher) ||
		!slices.Contains(cl[4], steerMAC) || !slices.Contains(cl[5], steerMAC) {
		return fmt.Errorf("client proposal lacks the pinned algorithms: %v", cl[:6])
	}
	if first {
		p.strict = slices.Contains(cl[0], "kex-strict-c-v00@openssh.com")
	}
	meth := kh.Methods[p.kex]
	pl, err := p.readRaw()
	if err != nil {
		return err
	}
	rd := &kh.Reader{B: pl}
	if rd.Byte() != 30 {
		return fmt.Errorf("expected message 30, got %d", pl[0])
	}
	hostBlob := (&wbuf{}).str([]byte("ssh-ed25519")).str(p.hostKey.Public().(ed25519.PublicKey)).b
	pr := kh.Prologue{VC: []byte(p.vC), VS: []byte(p.vS), IC: peerInit, IS: own.b, KS: hostBlob}
	var H, K, replyVal []byte
	var shape string
	switch meth.Family {
	case kh.FamX25519, kh.FamECDH:
		curve := map[string]ecdh.Curve{"": ecdh.X25519(), "P-256": ecdh.P256(), "P-384": ecdh.P384(), "P-521": ecdh.P521()}[meth.Curve]
		qc := rd.String()
		if !rd.Done() {
			return errors.New("malformed ECDH init")
		}
		k, secret, tries, err := searchECDH(curve, qc, p.mode)
		p.Tries += tries
		if err != nil {
			return err
		}
		shape = shapeOf(secret)
		kInt := new(big.Int).SetBytes(secret)
		K = sshref.MPInt(kInt)
		qs := k.PublicKey().Bytes()
		H = kh.ECDH(meth.Hash, pr, qc, qs, kInt)
		replyVal = (&wbuf{}).str(qs).b
	case kh.FamDH:
		prime := kh.MODP(meth.Group)
		e := rd.Mpint()
		if !rd.Done() || e.Cmp(big.NewInt(1)) <= 0 || e.Cmp(new(big.Int).Sub(prime, big.NewInt(1))) >= 0 {
			return errors.New("DH value out of range")
		}
		y, kInt, tries, err := searchDH(e, prime, p.mode)
		p.Tries += tries
		if err != nil {
			return err
		}
		shape = shapeOf(fixedLen(kInt, (prime.BitLen()+7)/8))
		f := new(big.Int).Exp(big.NewInt(2), y, prime)
		K = sshref.MPInt(kInt)
		H = kh.DH(meth.Hash, pr, e, f, kInt)
		replyVal = sshref.MPInt(f)
	default:
		return errors.New("steerPeer does not implement " + p.kex)
	}
	if first {
		p.sid = H
	}
	sig := (&wbuf{}).str([]byte("ssh-ed25519")).str(ed25519.Sign(p.hostKey, H)).b
	reply := msg(31).str(hostBlob)
	reply.b = append(reply.b, replyVal...)
	if err := p.WritePacket(reply.str(sig).b); err != nil {
		return err
	}
	if err := p.WritePacket([]byte{sshref.MsgNewKeys}); err != nil {
		return err
	}
	hash := hashByName(meth.Hash)
	ok, err := sshref.DeriveKeys(hash, K, H, p.sid, steerCipher, steerMAC, false)
	if err != nil {
		return err
	}
	if p.wr, err = sshref.NewWriter(steerCipher, steerMAC, ok); err != nil {
		return err
	}
	if p.strict {
		p.seqOut = 0
	}
	for {
		pl, err := p.readRaw()
		if err != nil {
			return err
		}
		if len(pl) == 1 && pl[0] == sshref.MsgNewKeys {
			break
		}
		if p.strict || (pl[0] != sshref.MsgIgnore && pl[0] != sshref.MsgDebug) {
			return fmt.Errorf("expected NEWKEYS, got message %d", pl[0])
		}
	}
	ik, err := sshref.DeriveKeys(hash, K, H, p.sid, steerCipher, steerMAC, true)
	if err != nil {
		return err
	}
	if p.rd, err = sshref.NewReader(steerCipher, steerMAC, ik); err != nil {
		return err
	}
	if p.strict {
		p.seqIn = 0
	}
	p.Kexes++
	p.Shapes = append(p.Shapes, shape)
	if shape == p.mode {
		p.Steered++
	}
	return nil
}

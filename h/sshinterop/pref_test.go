package sshinterop

// Preference order (RFC 4253 §7.1): for every category the negotiated
// algorithm is the first one on the CLIENT's list that the server also
// supports. With a single pinned algorithm per dimension the order never
// matters, so these helpers build client offers of 2-3 mutually supported
// algorithms whose order differs from the server's (reversed, rotated), such
// that the client's first choice is not the server's first choice.

import (
	"math/rand/v2"
	"regexp"
	"slices"
	"strings"
)

var prefDims = []string{"kex", "hostkey", "cipher", "mac"}

// prefOffer picks 3 (or 2) algorithms of serverOrder and returns them in an
// order that differs from the server's: kind 0 reversed, kind 1 rotated left.
// In both the client's first choice differs from the server's first choice
// among the offered ones.
func prefOffer(r *rand.Rand, serverOrder []string, kind int) []string {
	n := min(3, len(serverOrder))
	idx := r.Perm(len(serverOrder))[:n]
	slices.Sort(idx)
	sub := make([]string, n)
	for i, k := range idx {
		sub[i] = serverOrder[k]
	}
	if kind%2 == 0 || n < 3 {
		slices.Reverse(sub)
		return sub
	}
	return append(sub[1:], sub[0])
}

// serverFirst is the algorithm a server-preference (wrong) selection would
// pick: the first of the server's list that the client offers.
func serverFirst(serverOrder, offer []string) string {
	for _, s := range serverOrder {
		if slices.Contains(offer, s) {
			return s
		}
	}
	return ""
}

// serverProposal extracts the server's first KEXINIT name-lists from an
// OpenSSH -vvv log (kex, hostkey, cipher s->c, MAC s->c).
var reProposal = regexp.MustCompile(`(?s)debug2: peer server KEXINIT proposal\s*\ndebug2: KEX algorithms: (\S*)\s*\ndebug2: host key algorithms: (\S*)\s*\ndebug2: ciphers ctos: (\S*)\s*\ndebug2: ciphers stoc: (\S*)\s*\ndebug2: MACs ctos: (\S*)\s*\ndebug2: MACs stoc: (\S*)`)

func serverProposal(log string) map[string][]string {
	m := reProposal.FindStringSubmatch(strings.ReplaceAll(log, "\r\n", "\n"))
	if m == nil {
		return nil
	}
	return map[string][]string{"kex": strings.Split(m[1], ","), "hostkey": strings.Split(m[2], ","), "cipher": strings.Split(m[4], ","), "mac": strings.Split(m[6], ",")}
}

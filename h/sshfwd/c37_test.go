package sshfwd

import (
	"fmt"
	"math/rand/v2"
	"net"
	"strconv"
	"strings"
	"testing"
	"unicode"

	"verif/mon"
)

// ---------------------------------------------------------------------------
// Plans
// ---------------------------------------------------------------------------

const (
	kListenTCPStr  = iota // Client.Listen("tcp"/"tcp4"/"tcp6", "host:port")
	kListenTCPAddr        // Client.ListenTCP(&net.TCPAddr{IP, Port})
	kListenUnix           // Client.ListenUnix(path)
	kListenUnixStr        // Client.Listen("unix", path)
)

type lplan struct {
	kind  int
	netw  string
	host  string
	ip    net.IP
	port  int
	path  string
	eager bool // the application runs an Accept loop (else it calls Accept only where the plan says)

	// server application's policy for this listener's requests
	deny             bool
	denyTries        int // refuse the first n tcpip-forward requests (old-OpenSSH retry path)
	denyTriesPlanned int
	assign           uint32 // port replied for a port-0 request
	badReply         bool   // malformed port reply
	junkReply        bool   // unexpected payload on a non-port-0 success reply
	burst            int    // forwarded opens sent right after the success reply, before Listen returns
	cancelFail       bool   // the server refuses the cancel request
}

func (p lplan) kindName() string {
	return [...]string{"Listen(tcp)", "ListenTCP", "ListenUnix", "Listen(unix)"}[p.kind]
}

func (p lplan) String() string {
	var s string
	switch p.kind {
	case kListenTCPStr:
		s = fmt.Sprintf("Listen(%q,%q)", p.netw, net.JoinHostPort(p.host, strconv.Itoa(p.port)))
	case kListenTCPAddr:
		s = fmt.Sprintf("ListenTCP(%v:%d)", p.ip, p.port)
	case kListenUnix:
		s = fmt.Sprintf("ListenUnix(%q)", p.path)
	default:
		s = fmt.Sprintf("Listen(unix,%q)", p.path)
	}
	return fmt.Sprintf("%s eager=%v deny=%v denyTries=%d assign=%d badReply=%v burst=%d cancelFail=%v", s, p.eager, p.deny, p.denyTries, p.assign, p.badReply, p.burst, p.cancelFail)
}

func (p lplan) isUnix() bool { return p.kind == kListenUnix || p.kind == kListenUnixStr }

const (
	sListen = iota
	sOpen
	sAccept
	sClose
	sDrain
	sAcceptAfterClose
	sDrop
	sCloseInject // Close; the server opens n forwards for the address inside the cancel round trip
)

const (
	tExact = iota
	tOtherHost
	tOtherPort
	tPortWrap
	tCaseFlip
	tIPForm
	tNetSwap
	tUnreg
	tMalformed
	nTargets
)

var targetNames = [...]string{"exact", "other-host", "other-port", "port+65536", "case-flip", "ip-form", "network-swap", "unregistered", "malformed"}

type step struct {
	op         int
	li         int
	n          int
	async      bool
	tk         int
	alt        int
	serverSide bool
}

type plan struct {
	class         string
	serverVersion string
	lps           []lplan
	steps         []step
	finalDrain    []bool
	closeOrder    []int
	probeAfter    bool
}

var hostPool = []string{"", "localhost", "LOCALHOST", "0.0.0.0", "127.0.0.1", "::", "::1", "example.com", "a", "b", "*"}
var ipPool = []net.IP{nil, net.IPv4zero, net.IPv4(127, 0, 0, 1), net.ParseIP("::1"), net.IPv6unspecified, net.IPv4(10, 0, 0, 1)}
var portPool = []int{80, 8080, 1, 65535, 22, 4242}
var pathPool = []string{"/tmp/s", "/tmp/s/", "/tmp/S", "s", "a:80", "/run/x.sock", ""}
var malformations = []string{"truncated", "trailing", "origin-port-0", "origin-port-65536", "origin-not-ip"}

func genListener(r *rand.Rand, kind int) lplan {
	p := lplan{kind: kind}
	switch kind {
	case kListenTCPStr:
		p.netw = mon.Pick(r, []string{"tcp", "tcp", "tcp4", "tcp6"})
		p.host = mon.Pick(r, hostPool)
		p.port = mon.Pick(r, portPool)
	case kListenTCPAddr:
		p.ip = mon.Pick(r, ipPool)
		p.port = mon.Pick(r, portPool)
	default:
		p.path = mon.Pick(r, pathPool)
	}
	return p
}

func swapCase(s string) string {
	rs := []rune(s)
	for i, c := range rs {
		if unicode.IsUpper(c) {
			rs[i] = unicode.ToLower(c)
		} else {
			rs[i] = unicode.ToUpper(c)
		}
	}
	return string(rs)
}

func otherHost(h string, alt int) string {
	for k := 0; k < len(hostPool); k++ {
		c := hostPool[(alt+k)%len(hostPool)]
		if c != h {
			return c
		}
	}
	return h + "x"
}

// ---------------------------------------------------------------------------
// Runner
// ---------------------------------------------------------------------------

type runner struct {
	e  *env
	pl *plan
	ls []*lst // by plan listener index; nil until (unless) registered
}

// base address of plan listener li: as registered, else as planned.
func (rn *runner) baseAddr(li int) (network, host string, port uint32, path string) {
	if l := rn.ls[li]; l != nil {
		return l.network, l.host, l.port, l.path
	}
	p := rn.pl.lps[li]
	if p.isUnix() {
		return "unix", "", 0, p.path
	}
	host = p.host
	if p.kind == kListenTCPAddr {
		host = p.ip.String()
	}
	port = uint32(p.port)
	if port == 0 {
		port = p.assign
	}
	return "tcp", host, port, ""
}

// mkOpen builds one forwarded open aimed relative to listener li (e.mu held).
func (rn *runner) mkOpen(li, tk, alt int) *openRec {
	e := rn.e
	network, host, port, path := rn.baseAddr(li)
	mal := ""
	intent := targetNames[tk]
	switch tk {
	case tOtherHost:
		if network == "tcp" {
			host = otherHost(host, alt)
		} else {
			path += "x"
		}
	case tOtherPort:
		if network == "tcp" {
			port = port + 1 + uint32(alt%3)
		} else {
			path += "/"
		}
	case tPortWrap:
		if network == "tcp" {
			port += 65536
		} else if len(path) > 0 {
			path = path[:len(path)-1]
		} else {
			path = "/"
		}
	case tCaseFlip:
		if network == "tcp" {
			if sc := swapCase(host); sc != host {
				host = sc
			} else {
				host = otherHost(host, alt)
				intent = targetNames[tOtherHost]
			}
		} else {
			if sc := swapCase(path); sc != path {
				path = sc
			} else {
				path += "x"
			}
		}
	case tIPForm:
		alts := map[string]string{"127.0.0.1": "::ffff:127.0.0.1", "0.0.0.0": "::ffff:0.0.0.0", "::1": "0:0:0:0:0:0:0:1", "::": "0:0:0:0:0:0:0:0", "10.0.0.1": "::ffff:10.0.0.1"}
		if a, ok := alts[host]; ok && network == "tcp" {
			host = a
		} else if network == "tcp" {
			host = otherHost(host, alt)
			intent = targetNames[tOtherHost]
		} else {
			path = "./" + path
		}
	case tNetSwap:
		if network == "tcp" {
			network, path = "unix", net.JoinHostPort(host, strconv.FormatUint(uint64(port), 10))
		} else {
			h, ps, err := net.SplitHostPort(path)
			pn, perr := strconv.ParseUint(ps, 10, 32)
			if err == nil && perr == nil {
				network, host, port = "tcp", h, uint32(pn)
			} else {
				network, host, port = "tcp", path, 1
			}
		}
	case tUnreg:
		if alt%2 == 0 {
			network, host, port = "tcp", "nowhere.invalid", 9
		} else {
			network, path = "unix", "/nonexistent/sock"
		}
	case tMalformed:
		mal = malformations[alt%len(malformations)]
		intent += ":" + mal
	}
	return e.newOpenLocked(network, host, port, path, mal, intent)
}

// countProbe records (at send time) which near-miss situation an open creates
// with respect to listeners that are registered and not closed.
func (rn *runner) countProbeLocked(o *openRec) {
	e := rn.e
	exact := false
	samePort, sameHost, netSwap, wrap, sem := false, false, false, false, false
	for _, l := range e.lsts {
		if l.closeCalled.Load() {
			continue
		}
		if exactMatch(o, l) {
			exact = true
			continue
		}
		if o.network != l.network {
			os, ls := o.addr(), l.addr()
			if os[strings.IndexByte(os, ':')+1:] == ls[strings.IndexByte(ls, ':')+1:] {
				netSwap = true
			}
			continue
		}
		if o.network == "tcp" {
			if semEq(o, l) {
				sem = true
			}
			if o.port == l.port && o.host != l.host {
				samePort = true
			}
			if o.host == l.host && o.port != l.port {
				sameHost = true
				if o.port%65536 == l.port%65536 {
					wrap = true
				}
			}
		}
	}
	m := e.m
	if exact {
		m.Count("probe_exact_registered_open_listener", 1)
		return
	}
	m.Count("probe_no_exact_listener", 1)
	if samePort {
		m.Count("probe_same_port_other_host", 1)
	}
	if sameHost {
		m.Count("probe_same_host_other_port", 1)
	}
	if wrap {
		m.Count("probe_port_plus_65536", 1)
	}
	if netSwap {
		m.Count("probe_other_network_same_string", 1)
	}
	if sem {
		m.Count("probe_semantically_equal_host", 1)
	}
}

func (rn *runner) open(li, tk, alt, n int, async bool) {
	rn.e.doOpens(n, !async, func() *openRec {
		o := rn.mkOpen(li, tk, alt)
		rn.countProbeLocked(o)
		return o
	})
}

func (rn *runner) closed(l *lst) bool {
	rn.e.mu.Lock()
	defer rn.e.mu.Unlock()
	return l.closes > 0
}

func (rn *runner) drain(l *lst) {
	e := rn.e
	for i := 0; i < 45; i++ {
		e.mu.Lock()
		n := e.unacceptedLocked(l)
		e.mu.Unlock()
		if n == 0 || !e.doAccept(l) {
			return
		}
	}
}

func (rn *runner) exec(st step) {
	e := rn.e
	if e.isDead() {
		return
	}
	var l *lst
	if st.li >= 0 && st.li < len(rn.ls) {
		l = rn.ls[st.li]
	}
	e.mu.Lock()
	dropped := e.dropped
	e.mu.Unlock()
	switch st.op {
	case sListen:
		if rn.ls[st.li] == nil {
			rn.ls[st.li] = e.doListen(rn.pl.lps[st.li])
		}
	case sOpen:
		if !dropped {
			rn.open(st.li, st.tk, st.alt, st.n, st.async)
		}
	case sAccept:
		if l != nil && !rn.closed(l) {
			e.doAccept(l)
		}
	case sDrain:
		if l != nil && !rn.closed(l) && !l.eager {
			rn.drain(l)
		}
	case sClose:
		if l != nil {
			e.doClose(l)
		}
	case sCloseInject:
		if l != nil {
			e.doCloseInject(l, st.n)
		}
	case sAcceptAfterClose:
		if l != nil && rn.closed(l) {
			e.acceptUntilErr(l, "after-close")
		}
	case sDrop:
		if dropped {
			return
		}
		// The application services its listeners before the transport goes away:
		// no open, unserviced listener keeps two or more un-accepted forwards
		// (repeated to a fixpoint: one listener's backlog can hold up another's).
		for pass := 0; pass < 100; pass++ {
			progress := false
			for _, x := range rn.ls {
				if x == nil || x.eager || rn.closed(x) {
					continue
				}
				e.mu.Lock()
				n := e.unacceptedLocked(x)
				e.mu.Unlock()
				if n >= 2 && e.doAccept(x) {
					progress = true
				}
			}
			if !progress {
				break
			}
		}
		e.mu.Lock()
		still := e.backlogLocked(2, "")
		e.mu.Unlock()
		if still {
			e.m.Count("conn_end_skipped_unserviced_backlog", 1)
			return
		}
		if !e.settle() {
			return
		}
		e.mu.Lock()
		nBlocked := 0
		for _, x := range e.lsts {
			if x.acceptPending && !x.acceptEnded {
				nBlocked++
			}
		}
		e.mu.Unlock()
		if nBlocked > 0 {
			e.m.Count("conn_end_while_accept_blocked", nBlocked)
		}
		e.m.Count("conn_end_steps", 1)
		e.dropConn(st.serverSide)
		e.settle()
		rn.acceptAll()
	}
}

// acceptAll: every closed (or, after the connection ended, every) listener's
// Accept must come back with an error. Two passes: a listener judged only when
// no other listener is left unserviced.
func (rn *runner) acceptAll() {
	e := rn.e
	for pass := 0; pass < 2; pass++ {
		for _, l := range rn.ls {
			if l == nil || e.isDead() {
				continue
			}
			e.mu.Lock()
			when := ""
			switch {
			case l.closeRetSeq != 0:
				when = "after-close"
			case e.dropped:
				when = "after-conn-end"
			}
			e.mu.Unlock()
			if when != "" {
				e.acceptUntilErr(l, when)
			}
		}
	}
}

func (rn *runner) endPhase() {
	e := rn.e
	pl := rn.pl
	if e.isDead() {
		return
	}
	e.mu.Lock()
	dropped := e.dropped
	e.mu.Unlock()
	if !dropped {
		for li, l := range rn.ls {
			if l != nil && !l.eager && !rn.closed(l) && pl.finalDrain[li] {
				rn.drain(l)
			}
		}
		e.settle()
	}
	for _, li := range pl.closeOrder {
		if l := rn.ls[li]; l != nil && !rn.closed(l) {
			e.doClose(l)
		}
	}
	rn.acceptAll()
	if e.isDead() {
		return
	}
	if !dropped && pl.probeAfter {
		// after every Close returned, forwards for those addresses have no listener: rejected
		seen := map[string]bool{}
		for li, l := range rn.ls {
			if l == nil || seen[l.addr()] {
				continue
			}
			seen[l.addr()] = true
			e.settle()
			rn.open(li, tExact, 0, 1, false)
			e.m.Count("probe_after_close_returned", 1)
		}
	}
	e.pendingCheck()
	if !dropped {
		e.leakCheck("before-conn-end")
	}
}

func runPlan(m *mon.M, pl *plan) (trace []string, ok bool) {
	e, err := newEnv(m, pl.serverVersion)
	if err != nil {
		m.Inconclusive("handshake failed: " + err.Error())
		return nil, false
	}
	rn := &runner{e: e, pl: pl, ls: make([]*lst, len(pl.lps))}
	for _, st := range pl.steps {
		rn.exec(st)
	}
	rn.endPhase()
	if !e.isDead() {
		m.Count("scenarios_completed", 1)
		m.Count("scenarios_completed:"+pl.class, 1)
	} else {
		m.Count("scenarios_stopped_at_detected_hang", 1)
	}
	e.teardown()
	return e.traceCopy(), true
}

// ---------------------------------------------------------------------------
// Plan generators (pure functions of the case PRNG and index)
// ---------------------------------------------------------------------------

func seqOrder(n int) []int {
	o := make([]int, n)
	for i := range o {
		o[i] = i
	}
	return o
}

func allTrue(n int, v bool) []bool {
	b := make([]bool, n)
	for i := range b {
		b[i] = v
	}
	return b
}

// class 0: one (or two) listener(s); k in 2..20 forwards arrive that the
// application does not accept; then it closes the listener.
func genBacklog(j int64, r *rand.Rand) *plan {
	kind := int(j % 4)
	k := 2 + int((j/4)%19)
	pl := &plan{class: "backlog-then-close", probeAfter: true}
	lp := genListener(r, kind)
	pl.lps = append(pl.lps, lp)
	pl.steps = append(pl.steps, step{op: sListen, li: 0})
	by := -1
	if r.IntN(4) == 0 {
		b := genListener(r, r.IntN(4))
		b.eager = true
		pl.lps = append(pl.lps, b)
		by = 1
		pl.steps = append(pl.steps, step{op: sListen, li: 1})
	}
	// some forwards are accepted first (before / after the forward arrives)
	for a := r.IntN(3); a > 0; a-- {
		if r.IntN(2) == 0 {
			pl.steps = append(pl.steps, step{op: sAccept, li: 0}, step{op: sOpen, li: 0, tk: tExact, n: 1})
			pl.steps = append(pl.steps, step{op: sAccept, li: 0})
		} else {
			pl.steps = append(pl.steps, step{op: sOpen, li: 0, tk: tExact, n: 1}, step{op: sAccept, li: 0})
		}
	}
	if by >= 0 {
		pl.steps = append(pl.steps, step{op: sOpen, li: by, tk: tExact, n: 1})
	}
	// the backlog: in one burst or one by one
	if r.IntN(2) == 0 {
		pl.steps = append(pl.steps, step{op: sOpen, li: 0, tk: tExact, n: k})
	} else {
		for x := 0; x < k; x++ {
			pl.steps = append(pl.steps, step{op: sOpen, li: 0, tk: tExact, n: 1})
		}
	}
	pl.steps = append(pl.steps, step{op: sClose, li: 0})
	if r.IntN(2) == 0 {
		pl.steps = append(pl.steps, step{op: sAcceptAfterClose, li: 0})
	}
	if r.IntN(3) == 0 {
		pl.steps = append(pl.steps, step{op: sClose, li: 0})
	}
	pl.finalDrain = allTrue(len(pl.lps), false)
	pl.closeOrder = seqOrder(len(pl.lps))
	return pl
}

// class 1: one listener, every forward accepted (at most one un-accepted at
// any time); Accept before / after the forward; Close with 0 or 1 pending;
// Accept after Close; second Close; cancel refused.
func genTame(j int64, r *rand.Rand) *plan {
	pl := &plan{class: "serviced-single", probeAfter: true}
	lp := genListener(r, int(j%4))
	lp.eager = (j/4)%2 == 0
	lp.cancelFail = (j/8)%2 == 0
	lp.junkReply = r.IntN(5) == 0
	pl.lps = []lplan{lp}
	pl.steps = append(pl.steps, step{op: sListen, li: 0})
	k := int((j / 16) % 21) // 0..20 forwards
	for x := 0; x < k; x++ {
		switch {
		case lp.eager:
			pl.steps = append(pl.steps, step{op: sOpen, li: 0, tk: tExact, n: 1})
		case r.IntN(2) == 0:
			pl.steps = append(pl.steps, step{op: sAccept, li: 0}, step{op: sOpen, li: 0, tk: tExact, n: 1}, step{op: sDrain, li: 0})
		default:
			pl.steps = append(pl.steps, step{op: sOpen, li: 0, tk: tExact, n: 1}, step{op: sAccept, li: 0})
		}
		if r.IntN(6) == 0 {
			pl.steps = append(pl.steps, step{op: sOpen, li: 0, tk: 1 + r.IntN(nTargets-1), alt: r.IntN(10), n: 1})
		}
	}
	switch r.IntN(3) {
	case 0: // one forward left in the buffer at Close
		if !lp.eager {
			pl.steps = append(pl.steps, step{op: sOpen, li: 0, tk: tExact, n: 1})
		}
	case 1: // Accept blocked at Close
		pl.steps = append(pl.steps, step{op: sAccept, li: 0})
	}
	pl.steps = append(pl.steps, step{op: sClose, li: 0}, step{op: sAcceptAfterClose, li: 0})
	pl.steps = append(pl.steps, step{op: sOpen, li: 0, tk: tExact, n: 1}) // after Close: rejected
	if (j/2)%2 == 0 {
		pl.steps = append(pl.steps, step{op: sClose, li: 0}, step{op: sAcceptAfterClose, li: 0})
	}
	pl.finalDrain = []bool{true}
	pl.closeOrder = []int{0}
	return pl
}

// class 2: several serviced listeners whose addresses differ in exactly one
// respect; forwards for each of them and for near misses.
func genGrid(j int64, r *rand.Rand) *plan {
	pl := &plan{class: "address-grid", probeAfter: true}
	h1 := mon.Pick(r, hostPool)
	h2 := otherHost(h1, r.IntN(10))
	p1 := mon.Pick(r, portPool)
	p2 := p1%65535 + 1
	mk := func(kind int, host string, port int, path string) lplan {
		lp := lplan{kind: kind, netw: "tcp", host: host, port: port, path: path}
		lp.eager = r.IntN(3) != 0
		return lp
	}
	pl.lps = append(pl.lps, mk(kListenTCPStr, h1, p1, ""), mk(kListenTCPStr, h2, p1, ""), mk(kListenTCPStr, h1, p2, ""))
	switch j % 3 {
	case 0: // a unix path that spells a tcp address
		pl.lps = append(pl.lps, mk(kListenUnix, "", 0, net.JoinHostPort(h1, strconv.Itoa(p1))))
	case 1:
		ip := mon.Pick(r, ipPool[1:])
		pl.lps = append(pl.lps, lplan{kind: kListenTCPAddr, ip: ip, port: p1, eager: true}, mk(kListenUnixStr, "", 0, mon.Pick(r, pathPool)))
	default:
		pl.lps = append(pl.lps, mk(kListenUnix, "", 0, "/tmp/s"), mk(kListenUnixStr, "", 0, "/tmp/s/"))
	}
	n := len(pl.lps)
	for li := 0; li < n; li++ {
		pl.steps = append(pl.steps, step{op: sListen, li: li})
	}
	probe := func(li, tk int) {
		pl.steps = append(pl.steps, step{op: sOpen, li: li, tk: tk, alt: r.IntN(10), n: 1})
		if !pl.lps[li].eager {
			// a lazy listener accepts what is (rightly) queued for it
			for x := 0; x < n; x++ {
				if !pl.lps[x].eager {
					pl.steps = append(pl.steps, step{op: sDrain, li: x})
				}
			}
		}
	}
	for li := 0; li < n; li++ {
		probe(li, tExact)
	}
	for li := 0; li < n; li++ {
		for tk := 1; tk < nTargets; tk++ {
			if r.IntN(3) != 0 || tk == tOtherHost || tk == tNetSwap {
				probe(li, tk)
			}
		}
	}
	// close one listener; its address must now be rejected while its neighbours still receive
	c := r.IntN(n)
	pl.steps = append(pl.steps, step{op: sDrain, li: c}, step{op: sClose, li: c}, step{op: sAcceptAfterClose, li: c})
	for li := 0; li < n; li++ {
		probe(li, tExact)
	}
	pl.finalDrain = allTrue(n, true)
	pl.closeOrder = r.Perm(n)
	return pl
}

// class 3: the transport ends while Accept calls are blocked.
func genDrop(j int64, r *rand.Rand) *plan {
	pl := &plan{class: "conn-end"}
	n := 1 + int(j%3)
	for li := 0; li < n; li++ {
		lp := genListener(r, r.IntN(4))
		lp.eager = li == 0 || r.IntN(2) == 0 // at least one Accept is blocked when the transport ends
		pl.lps = append(pl.lps, lp)
		pl.steps = append(pl.steps, step{op: sListen, li: li})
	}
	for li := 0; li < n; li++ {
		for x := r.IntN(3); x > 0; x-- {
			pl.steps = append(pl.steps, step{op: sOpen, li: li, tk: tExact, n: 1})
			if !pl.lps[li].eager {
				pl.steps = append(pl.steps, step{op: sAccept, li: li})
			}
		}
		if !pl.lps[li].eager {
			switch r.IntN(3) {
			case 0:
				pl.steps = append(pl.steps, step{op: sAccept, li: li}) // blocked Accept
			case 1:
				pl.steps = append(pl.steps, step{op: sOpen, li: li, tk: tExact, n: 1}) // one buffered
			}
		}
	}
	if r.IntN(3) == 0 { // forwards in flight when the transport ends
		pl.steps = append(pl.steps, step{op: sOpen, li: 0, tk: tExact, n: 1 + r.IntN(3), async: true})
	}
	pl.steps = append(pl.steps, step{op: sDrop, serverSide: (j/3)%2 == 0})
	for li := 0; li < n; li++ {
		pl.steps = append(pl.steps, step{op: sClose, li: li})
		if r.IntN(2) == 0 {
			pl.steps = append(pl.steps, step{op: sClose, li: li})
		}
	}
	if r.IntN(2) == 0 {
		pl.lps = append(pl.lps, genListener(r, r.IntN(4)))
		pl.steps = append(pl.steps, step{op: sListen, li: n}) // Listen on a dead connection: error
	}
	pl.finalDrain = allTrue(len(pl.lps), false)
	pl.closeOrder = seqOrder(len(pl.lps))
	return pl
}

// class 4: Close races forwards that are in flight; forwards that arrive
// between the server's success reply and Listen's return.
func genInflight(j int64, r *rand.Rand) *plan {
	pl := &plan{class: "in-flight", probeAfter: true}
	lp := genListener(r, int(j%4))
	lp.eager = (j/4)%2 == 0
	lp.burst = int((j / 8) % 4)
	lp.cancelFail = r.IntN(4) == 0
	pl.lps = []lplan{lp}
	pl.steps = append(pl.steps, step{op: sListen, li: 0})
	if lp.burst > 0 && !lp.eager {
		pl.steps = append(pl.steps, step{op: sDrain, li: 0})
	}
	if r.IntN(2) == 0 {
		pl.steps = append(pl.steps, step{op: sOpen, li: 0, tk: tExact, n: 1}, step{op: sAccept, li: 0})
	}
	k := 1 + int((j/32)%20)
	if lp.eager && r.IntN(2) == 0 {
		k = 1 + r.IntN(6)
	}
	pl.steps = append(pl.steps, step{op: sOpen, li: 0, tk: tExact, n: k, async: true})
	if r.IntN(3) == 0 {
		pl.steps = append(pl.steps, step{op: sOpen, li: 0, tk: tUnreg, alt: r.IntN(2), n: 1, async: true})
	}
	pl.steps = append(pl.steps, step{op: sClose, li: 0}, step{op: sAcceptAfterClose, li: 0})
	if r.IntN(2) == 0 {
		pl.steps = append(pl.steps, step{op: sClose, li: 0})
	}
	pl.finalDrain = []bool{false}
	pl.closeOrder = []int{0}
	return pl
}

// class 5: port 0 (server-assigned port), equal addresses registered twice,
// the old-OpenSSH explicit-port retry path, refused / malformed replies.
func genPort0(j int64, r *rand.Rand) *plan {
	pl := &plan{class: "port0-and-equal-addresses", probeAfter: true}
	host := mon.Pick(r, hostPool)
	a1 := uint32(mon.Pick(r, []int{4242, 1, 65535, 50000}))
	a2 := a1
	if (j/2)%2 == 0 {
		a2 = a1 + 1
	}
	l0 := lplan{kind: kListenTCPStr, netw: "tcp", host: host, port: 0, assign: a1, eager: r.IntN(2) == 0}
	l1 := lplan{kind: kListenTCPStr, netw: "tcp", host: host, port: 0, assign: a2, eager: r.IntN(2) == 0}
	pl.lps = []lplan{l0, l1}
	switch j % 4 {
	case 0: // explicit registration equal to the assigned one
		pl.lps = append(pl.lps, lplan{kind: kListenTCPStr, netw: "tcp", host: host, port: int(a1), eager: true})
	case 1: // ListenTCP port 0 against a server that announces OpenSSH 5.x
		pl.serverVersion = "SSH-2.0-OpenSSH_5.9"
		d := r.IntN(4)
		pl.lps = append(pl.lps, lplan{kind: kListenTCPAddr, ip: mon.Pick(r, ipPool), port: 0, denyTries: d, denyTriesPlanned: d + 1, eager: true})
	case 2: // refused and malformed replies
		pl.lps = append(pl.lps, lplan{kind: kListenTCPStr, netw: "tcp", host: host, port: 0, assign: 7, badReply: true},
			lplan{kind: r.IntN(4), netw: "tcp", host: "b", ip: net.IPv4zero, port: 81, path: "/denied", deny: true})
	default: // equal unix paths
		p := mon.Pick(r, pathPool)
		pl.lps = append(pl.lps, lplan{kind: kListenUnix, path: p, eager: r.IntN(2) == 0}, lplan{kind: kListenUnixStr, path: p, eager: true})
	}
	n := len(pl.lps)
	for li := 0; li < n; li++ {
		pl.steps = append(pl.steps, step{op: sListen, li: li})
	}
	drainAll := func() {
		for x := 0; x < n; x++ {
			if !pl.lps[x].eager {
				pl.steps = append(pl.steps, step{op: sDrain, li: x})
			}
		}
	}
	for round := 0; round < 2; round++ {
		for li := 0; li < n; li++ {
			pl.steps = append(pl.steps, step{op: sOpen, li: li, tk: tExact, n: 1})
			drainAll()
			if r.IntN(3) == 0 {
				pl.steps = append(pl.steps, step{op: sOpen, li: li, tk: 1 + r.IntN(nTargets-1), alt: r.IntN(10), n: 1})
				drainAll()
			}
		}
	}
	// close one member (first or last registered), look again, then the rest
	c := 0
	if (j/4)%2 == 0 {
		c = 1
	}
	pl.steps = append(pl.steps, step{op: sClose, li: c}, step{op: sAcceptAfterClose, li: c})
	for li := 0; li < n; li++ {
		pl.steps = append(pl.steps, step{op: sOpen, li: li, tk: tExact, n: 1})
		drainAll()
	}
	pl.finalDrain = allTrue(n, true)
	if r.IntN(2) == 0 {
		pl.closeOrder = seqOrder(n)
	} else {
		pl.closeOrder = r.Perm(n)
	}
	return pl
}

// class 7: a forward arrives while the listener is closing: the server
// application, on receiving the cancel request and before replying, opens
// k in 1..3 forwarded channels for exactly that address (success and failure
// replies; no / one buffered forward before the Close; Accept idle / parked /
// looping).
func genDuringCancel(j int64, r *rand.Rand) *plan {
	pl := &plan{class: "forward-during-cancel", probeAfter: true}
	lp := genListener(r, int(j%4))
	k := 1 + int((j/4)%3)
	lp.cancelFail = (j/12)%2 == 1
	mode := (j / 24) % 4 // 0,1: lazy idle; 2: lazy with Accept parked; 3: Accept loop
	lp.eager = mode == 3
	pl.lps = []lplan{lp}
	pl.steps = append(pl.steps, step{op: sListen, li: 0})
	for a := r.IntN(3); a > 0; a-- {
		pl.steps = append(pl.steps, step{op: sOpen, li: 0, tk: tExact, n: 1}, step{op: sAccept, li: 0})
	}
	switch {
	case mode == 1 && r.IntN(2) == 0:
		pl.steps = append(pl.steps, step{op: sOpen, li: 0, tk: tExact, n: 1}) // one forward buffered before Close
	case mode == 2:
		pl.steps = append(pl.steps, step{op: sAccept, li: 0})
	}
	pl.steps = append(pl.steps, step{op: sCloseInject, li: 0, n: k})
	if r.IntN(2) == 0 {
		pl.steps = append(pl.steps, step{op: sAcceptAfterClose, li: 0})
	}
	if r.IntN(3) == 0 {
		pl.steps = append(pl.steps, step{op: sClose, li: 0})
	}
	pl.finalDrain = []bool{false}
	pl.closeOrder = []int{0}
	return pl
}

// class 6: free mixture of everything.
func genMixed(j int64, r *rand.Rand) *plan {
	pl := &plan{class: "mixed", probeAfter: r.IntN(2) == 0}
	n := 2 + r.IntN(3)
	for li := 0; li < n; li++ {
		lp := genListener(r, r.IntN(4))
		lp.eager = r.IntN(2) == 0
		lp.cancelFail = r.IntN(6) == 0
		lp.burst = []int{0, 0, 0, 1, 2}[r.IntN(5)]
		if lp.kind == kListenTCPStr && r.IntN(5) == 0 {
			lp.port, lp.assign = 0, uint32(mon.Pick(r, portPool))
		}
		pl.lps = append(pl.lps, lp)
	}
	pl.steps = append(pl.steps, step{op: sListen, li: 0})
	registered := 1
	nsteps := 8 + r.IntN(25)
	for s := 0; s < nsteps; s++ {
		li := r.IntN(registered)
		switch x := r.IntN(20); {
		case x < 2 && registered < n:
			pl.steps = append(pl.steps, step{op: sListen, li: registered})
			registered++
		case x < 9:
			tk := tExact
			if r.IntN(3) == 0 {
				tk = r.IntN(nTargets)
			}
			cnt := 1
			if r.IntN(3) == 0 {
				cnt = mon.LogUniform(r, 1, 20)
			}
			pl.steps = append(pl.steps, step{op: sOpen, li: li, tk: tk, alt: r.IntN(10), n: cnt, async: r.IntN(4) == 0})
		case x < 13:
			pl.steps = append(pl.steps, step{op: sAccept, li: li})
		case x < 15:
			pl.steps = append(pl.steps, step{op: sDrain, li: li})
		case x < 18:
			pl.steps = append(pl.steps, step{op: sClose, li: li})
			if r.IntN(2) == 0 {
				pl.steps = append(pl.steps, step{op: sAcceptAfterClose, li: li})
			}
		case x < 19:
			pl.steps = append(pl.steps, step{op: sAcceptAfterClose, li: li})
		default:
			if r.IntN(4) == 0 {
				pl.steps = append(pl.steps, step{op: sDrop, serverSide: r.IntN(2) == 0})
			}
		}
	}
	for ; registered < n; registered++ {
		if r.IntN(2) == 0 {
			pl.steps = append(pl.steps, step{op: sListen, li: registered})
		}
	}
	pl.finalDrain = make([]bool, n)
	for i := range pl.finalDrain {
		pl.finalDrain[i] = r.IntN(2) == 0
	}
	pl.closeOrder = r.Perm(n)
	return pl
}

func genPlan(i int64, r *rand.Rand) *plan {
	// the class rotates against the index so that every batch layout sees all classes
	j := i / 8
	switch (i + i/16 + i/256) % 8 {
	case 0:
		return genBacklog(j, r)
	case 1:
		return genTame(j, r)
	case 2:
		return genGrid(j, r)
	case 3:
		return genDrop(j, r)
	case 4:
		return genInflight(j, r)
	case 5:
		return genPort0(j, r)
	case 7:
		return genDuringCancel(j, r)
	}
	return genMixed(j, r)
}

// ---------------------------------------------------------------------------
// The check
// ---------------------------------------------------------------------------

// C37: for every number and timing of forwarded-tcpip / forwarded-streamlocal
// opens the peer sends, closing a listener obtained from Client.Listen /
// ListenTCP / ListenUnix returns, later Accept calls return an error, and
// forwards are delivered only to a listener registered for exactly their
// address (others are rejected).
func TestC37(t *testing.T) {
	m := mon.New(t, "C37")
	defer m.Done()
	m.Rule("case = one scenario on its own connection: a real ssh.Client (public API) over a buffered in-memory duplex to a real ssh.NewServerConn whose application is the harness. The harness grants/refuses tcpip-forward / streamlocal-forward / cancel requests (port 0 -> assigned port, equal addresses granted twice, OpenSSH_5 retry path, malformed reply) and opens 0..20 forwarded-tcpip / forwarded-streamlocal channels per listener (own RFC 4254 §7.2 encoder) for registered addresses, near misses (other host, other port, port+65536, case, IP spelling, other network with equal string), unregistered addresses and malformed payloads, before / after / between Accept calls; the application accepts eagerly (Accept loop) or lazily, closes listeners with 0, 1, 2..20 un-accepted forwards, while Accept is blocked, while forwards are in flight, twice, after the transport ended. Case classes by index mod 8 force: backlog-then-close, fully serviced listener, address grid, transport end with blocked Accept, in-flight races, port-0/equal addresses, free mixture, forward-during-cancel (server opens 1..3 forwards for the address between receiving cancel-* and replying, reply held until the client is quiescent). Oracle: registry of forward requests as seen by the server application; each open's outcome (token written by the server on the confirmed channel and read from the accepted conn / OPEN_FAILURE / unanswered) judged against it. Liveness verdicts only from the closed-system wait-for analysis: operation parked in x/crypto frames, every goroutine parked in 3 identical dumps (mon.Quiescent), key derived from the dump. distinct = (listener kind, un-accepted class, settled/in-flight, Accept blocked, second close, after conn end) per Close and (target class -> outcome) per open")
	m.Assume("the harness application services its listeners as documented unless the scenario is about not doing so for the listener being closed: at most 30 un-accepted forwards per connection (below the mux's 36-slot buffering, beyond which the read loop stalls by documented design); Listen is not called and the transport is not ended while an open, unserviced listener holds >= 2 un-accepted forwards")
	m.Assume("goroutine states reported by runtime.Stack are accurate; the duplex has no timers or netpoller, so a snapshot in which every goroutine is parked on a channel/mutex/cond is a stable state")
	m.Assume("when the server grants the same address twice, which of the equal listeners a Close affects is not determined by the property; such groups are judged as a group (counted: equal_addr_*)")

	total := m.N(960, 9600)
	m.Cases("scenario", total, func(i int64, r *rand.Rand) {
		pl := genPlan(i, r)
		m.Count("scenarios:"+pl.class, 1)
		before := m.Violations()
		trace, ok := runPlan(m, pl)
		if !ok {
			return
		}
		kinds := ""
		for _, lp := range pl.lps {
			kinds += fmt.Sprintf("%d%v", lp.kind, lp.eager)[:2]
		}
		m.Distinct("scenario " + pl.class + " " + kinds)
		if i < 8 || (m.Violations() > before && i < 64) {
			if len(trace) > 60 {
				trace = append(trace[:60:60], "…")
			}
			m.Sample(map[string]any{"case": i, "class": pl.class, "trace": trace})
		}
	})

	m.Gate("close_after_2plus_forwards_not_accepted", 60, "Close of a listener for which >= 2 forwards were sent that the application never accepted (the situation the repository's tests never create)")
	m.Gate("close_returned", 300, "Close calls observed to return")
	m.Gate("accept_error_after_close", 200, "Accept after Close observed to return an error")
	m.Gate("conn_end_while_accept_blocked", 60, "transport ended while an Accept call was parked")
	m.Gate("accept_error_after_conn_end", 60, "Accept observed to return an error after the transport ended")
	m.Gate("close_while_accept_blocked", 60, "Close while Accept is parked on the same listener")
	m.Gate("close_while_forwards_in_flight", 60, "Close racing forwards that are in flight")
	m.Gate("close_again_on_closed_listener", 60, "second Close on the same listener")
	m.Gate("close_returned_error_cancel_refused", 20, "server refuses cancel-tcpip-forward / cancel-streamlocal-forward; Close still returns")
	m.Gate("delivered_exact", 500, "forwards delivered to the listener registered for exactly their address")
	m.Gate("rejected_unregistered", 300, "forwards for unregistered addresses seen rejected")
	m.Gate("probe_same_port_other_host", 100, "forward for a registered port with another host while that port's listeners are open")
	m.Gate("probe_other_network_same_string", 40, "forwarded-streamlocal path equal to a registered tcp host:port string, or vice versa")
	m.Gate("probe_after_close_returned", 200, "forward for an address whose listener's Close has returned")
	m.Gate("listen_port0_server_assigned", 60, "port 0 request answered with a server-assigned port")
	m.Gate("listen_equal_address_again", 40, "same address registered twice")
	for _, kn := range []string{"Listen(tcp)", "ListenTCP", "ListenUnix", "Listen(unix)"} {
		m.Gate("cancel_window_close_returned:"+kn, 15, "Close of a "+kn+" listener returned although the peer opened 1..3 forwards for its address between receiving the cancel request and replying")
	}
	m.Gate("cancel_window_forward_rejected", 100, "forwards sent inside the cancel round trip of a Close seen rejected")
	m.Gate("burst_at_registration_resolved", 20, "forward sent between the server's success reply and Listen's return")
}

package sshfwd

import (
	"bytes"
	"crypto/ed25519"
	"errors"
	"fmt"
	"io"
	"net"
	"runtime"
	"sort"
	"strconv"
	"strings"
	"sync"
	"sync/atomic"
	"time"

	"golang.org/x/crypto/ssh"
	"verif/mon"
)

// ---------------------------------------------------------------------------
// Closed-system observation: goroutine snapshots
// ---------------------------------------------------------------------------

type gsnap struct {
	id    int
	state string
}

var (
	stackMu  sync.Mutex
	stackBuf = make([]byte, 1<<20)
)

// lockStack takes stackMu without ever parking on it: a goroutine of the case
// (the server's request handler inside settleExcept) that waited in
// sync.Mutex.Lock for the snapshot of the scenario goroutine would look parked
// in exactly that snapshot.
func lockStack() {
	for !stackMu.TryLock() {
		runtime.Gosched()
	}
}

// snapshot returns (id, state) of every goroutine. runtime.Stack(all) stops
// the world, so the snapshot is one consistent instant.
func snapshot() []gsnap {
	lockStack()
	defer stackMu.Unlock()
	var b []byte
	for {
		n := runtime.Stack(stackBuf, true)
		if n < len(stackBuf) {
			b = stackBuf[:n]
			break
		}
		stackBuf = make([]byte, 2*len(stackBuf))
	}
	var out []gsnap
	pfx := []byte("goroutine ")
	for len(b) > 0 {
		line := b
		if i := bytes.IndexByte(b, '\n'); i >= 0 {
			line, b = b[:i], b[i+1:]
		} else {
			b = nil
		}
		if !bytes.HasPrefix(line, pfx) {
			continue
		}
		rest := line[len(pfx):]
		j := 0
		for j < len(rest) && rest[j] >= '0' && rest[j] <= '9' {
			j++
		}
		if j == 0 {
			continue
		}
		id, _ := strconv.Atoi(string(rest[:j]))
		lb := bytes.IndexByte(rest, '[')
		rb := bytes.LastIndexByte(rest, ']')
		if lb < 0 || rb < lb {
			continue
		}
		st := string(rest[lb+1 : rb])
		if k := strings.IndexByte(st, ','); k >= 0 {
			st = st[:k]
		}
		out = append(out, gsnap{id, st})
	}
	return out
}

// dumpAll is mon.GoroutineDump with a reused buffer (a fresh 1 MiB allocation
// per dump is very expensive under the race detector).
func dumpAll() string {
	lockStack()
	defer stackMu.Unlock()
	for {
		n := runtime.Stack(stackBuf, true)
		if n < len(stackBuf) {
			return string(stackBuf[:n])
		}
		stackBuf = make([]byte, 2*len(stackBuf))
	}
}

// quiescent is mon.Quiescent (same definition of "frozen": n dumps gap apart
// with identical goroutine sets, states and stacks, and nobody but the caller
// running, runnable, sleeping or in a syscall) on top of dumpAll.
func quiescent(n int, gap time.Duration) (frozen bool, gs []mon.G, dump string) {
	self := ""
	{
		b := make([]byte, 64)
		b = b[:runtime.Stack(b, false)]
		if f := strings.Fields(string(b)); len(f) > 1 {
			self = f[1]
		}
	}
	sig := func(gs []mon.G) string {
		var l []string
		for _, g := range gs {
			if g.ID != self {
				l = append(l, g.ID+"|"+g.State+"|"+strings.Join(g.Frames, ";"))
			}
		}
		sort.Strings(l)
		return strings.Join(l, "\n")
	}
	prev := ""
	for i := 0; i < n; i++ {
		if i > 0 {
			time.Sleep(gap)
		}
		dump = dumpAll()
		gs = parseDump(dump)
		s := sig(gs)
		if i > 0 && s != prev {
			return false, gs, dump
		}
		prev = s
	}
	for _, g := range gs {
		if g.ID == self {
			continue
		}
		switch g.State {
		case "running", "runnable", "sleep", "syscall", "semacquire":
			return false, gs, dump
		}
	}
	return true, gs, dump
}

// parseDump is mon.ParseDump without regular expressions (slow under -race).
func parseDump(dump string) []mon.G {
	var gs []mon.G
	for _, blk := range strings.Split(dump, "\n\n") {
		blk = strings.TrimSpace(blk)
		if !strings.HasPrefix(blk, "goroutine ") {
			continue
		}
		lines := strings.Split(blk, "\n")
		h := lines[0][len("goroutine "):]
		sp := strings.IndexByte(h, ' ')
		lb := strings.IndexByte(h, '[')
		rb := strings.LastIndexByte(h, ']')
		if sp <= 0 || lb < 0 || rb < lb {
			continue
		}
		st := h[lb+1 : rb]
		if k := strings.IndexByte(st, ','); k >= 0 {
			st = st[:k]
		}
		g := mon.G{ID: h[:sp], State: st, Raw: blk}
		for _, l := range lines[1:] {
			if strings.HasPrefix(l, "\t") || strings.HasPrefix(l, "created by") {
				continue
			}
			if k := strings.LastIndex(l, "("); k > 0 {
				l = l[:k]
			}
			g.Frames = append(g.Frames, l)
		}
		gs = append(gs, g)
	}
	return gs
}

// parked: blocked on a channel, mutex or cond — states that only another
// goroutine of the process can end (no timer, no netpoller, no syscall). Bare
// "semacquire" is NOT parked: a goroutine that wants to start a GC cycle waits
// there for the world semaphore the snapshot itself holds.
func parked(state string) bool {
	for _, p := range []string{"chan receive", "chan send", "select", "sync."} {
		if strings.HasPrefix(state, p) {
			return true
		}
	}
	return false
}

// ---------------------------------------------------------------------------
// Case environment: one real client, one real server connection, harness app
// ---------------------------------------------------------------------------

var (
	hostKeyOnce sync.Once
	hostSigner  ssh.Signer
)

func signer() ssh.Signer {
	hostKeyOnce.Do(func() {
		seed := bytes.Repeat([]byte{0x37}, ed25519.SeedSize)
		s, err := ssh.NewSignerFromKey(ed25519.NewKeyFromSeed(seed))
		if err != nil {
			panic(err)
		}
		hostSigner = s
	})
	return hostSigner
}

const (
	outPending = iota
	outConfirmed
	outRejected
	outConnErr
)

type openRec struct {
	id           int
	chanType     string
	network      string // "tcp" | "unix" as implied by the channel type
	host         string
	port         uint32
	path         string
	payload      []byte
	malformed    string // "" or what is wrong with the payload
	intent       string // generator's intent (evidence only; the oracle recomputes the class)
	duringCancel bool   // sent by the server after it received the cancel request of a Close and before it replied
	quiet        bool   // sent while no other open of the connection was unresolved and the system was settled
	sentSeq      int64
	outcome      int
	reason       ssh.RejectionReason
	rejectMsg    string
	connErr      string
	resSeq       int64
	delivered    *lst
	ch           ssh.Channel
	done         chan struct{}
}

func (o *openRec) addr() string {
	if o.network == "unix" {
		return "unix:" + o.path
	}
	return "tcp:" + net.JoinHostPort(o.host, strconv.FormatUint(uint64(o.port), 10))
}

type acceptRes struct {
	err    error
	id     int
	tokErr error
}

type lst struct {
	id      int
	plan    lplan
	network string
	host    string // as carried by the forward request the server saw
	port    uint32 // requested port, or the port the server assigned for a port-0 request
	path    string
	l       net.Listener
	eager   bool

	closeCalled atomic.Bool
	// guarded by env.mu
	listenSeq     int64
	closeCallSeq  int64
	closeRetSeq   int64
	closes        int
	acceptPending bool
	acceptEnded   bool
	acceptErr     string
	nAccepted     int
	acceptReturns int // number of Accept calls that returned
}

func (l *lst) addr() string {
	if l.network == "unix" {
		return "unix:" + l.path
	}
	return "tcp:" + net.JoinHostPort(l.host, strconv.FormatUint(uint64(l.port), 10))
}

type srvReq struct {
	typ   string
	host  string
	port  uint32
	path  string
	ok    bool
	reply bool
}

type env struct {
	m   *mon.M
	pre map[int]bool // goroutines that predate the case (goroutine ids are not monotonic across Ps)

	cEnd, sEnd *duplexEnd
	client     *ssh.Client
	sconn      *ssh.ServerConn

	seq atomic.Int64

	mu           sync.Mutex
	lsts         []*lst
	opens        []*openRec
	trace        []string
	curListen    *lplan // policy for the forward request(s) of the Listen in progress
	lastFwd      srvReq // last forward request the server granted
	fwdReqs      int
	cancelOK     map[string]bool // addr key -> reply for cancel requests (default true)
	cancelInject map[string]int  // addr key -> forwards the server opens between receiving the cancel request and replying
	reqsSeen     int
	reqsDone     int
	conns        []net.Conn
	dropped      bool
	dead         bool // a hang was detected: the rest of the scenario is skipped
	settledOK    bool // nothing was started since the last successful settle()
	incon        bool
	tearing      bool // teardown: Accept results are no longer judged
}

func (e *env) tick() int64 { return e.seq.Add(1) }

func (e *env) logf(format string, a ...any) {
	e.mu.Lock()
	if len(e.trace) < 400 {
		e.trace = append(e.trace, fmt.Sprintf(format, a...))
	}
	e.mu.Unlock()
}

func (e *env) traceCopy() []string {
	e.mu.Lock()
	defer e.mu.Unlock()
	return append([]string(nil), e.trace...)
}

func newEnv(m *mon.M, serverVersion string) (*env, error) {
	e := &env{m: m, cancelOK: map[string]bool{}, cancelInject: map[string]int{}}
	e.pre = map[int]bool{}
	for _, g := range snapshot() {
		e.pre[g.id] = true
	}
	e.cEnd, e.sEnd = newDuplex()
	scfg := &ssh.ServerConfig{NoClientAuth: true, ServerVersion: serverVersion}
	scfg.AddHostKey(signer())
	type sres struct {
		c     *ssh.ServerConn
		chans <-chan ssh.NewChannel
		reqs  <-chan *ssh.Request
		err   error
	}
	sch := make(chan sres, 1)
	go func() {
		c, chans, reqs, err := ssh.NewServerConn(e.sEnd, scfg)
		sch <- sres{c, chans, reqs, err}
	}()
	ccfg := &ssh.ClientConfig{User: "u", HostKeyCallback: ssh.InsecureIgnoreHostKey()}
	cc, cchans, creqs, err := ssh.NewClientConn(e.cEnd, "harness:22", ccfg)
	if err != nil {
		e.cEnd.Close()
		e.sEnd.Close()
		<-sch
		return nil, fmt.Errorf("client handshake: %w", err)
	}
	sr := <-sch
	if sr.err != nil {
		e.cEnd.Close()
		e.sEnd.Close()
		return nil, fmt.Errorf("server handshake: %w", sr.err)
	}
	e.client = ssh.NewClient(cc, cchans, creqs)
	e.sconn = sr.c
	go srvRequests(e, sr.reqs)
	go srvChannels(sr.chans)
	return e, nil
}

// srvChannels: the client never opens channels in this harness.
func srvChannels(chans <-chan ssh.NewChannel) {
	for nc := range chans {
		nc.Reject(ssh.Prohibited, "harness: no client channels")
	}
}

// srvRequests is the server application's global request handler. It always
// replies to every request at once (the harness never withholds a reply).
func srvRequests(e *env, reqs <-chan *ssh.Request) {
	for r := range reqs {
		e.mu.Lock()
		e.reqsSeen++
		e.mu.Unlock()
		ok, payload, burst, before := e.decide(r)
		if before {
			// forwards for exactly the address being cancelled, sent inside the
			// cancel round trip: written now, and the reply is held back until the
			// client has done with them whatever it will do unprompted (every other
			// goroutine of the case is parked).
			for _, o := range burst {
				e.sendOpen(o)
			}
			burst = nil
			e.settleExcept(goid())
		}
		if r.WantReply {
			r.Reply(ok, payload)
		}
		for _, o := range burst {
			e.sendOpen(o)
		}
		e.mu.Lock()
		e.reqsDone++
		e.mu.Unlock()
	}
}

func (e *env) decide(r *ssh.Request) (bool, []byte, []*openRec, bool) {
	ok, payload, burst := e.decide0(r)
	return ok, payload, burst, len(burst) > 0 && strings.HasPrefix(r.Type, "cancel-")
}

func (e *env) decide0(r *ssh.Request) (ok bool, payload []byte, burst []*openRec) {
	e.mu.Lock()
	defer e.mu.Unlock()
	switch r.Type {
	case "tcpip-forward":
		host, port, pok := parseTCPForwardReq(r.Payload)
		p := e.curListen
		if !pok || p == nil {
			return false, nil, nil
		}
		e.fwdReqs++
		if p.denyTries > 0 {
			p.denyTries--
			return false, nil, nil
		}
		if p.deny {
			return false, nil, nil
		}
		eff := port
		if port == 0 {
			eff = p.assign
			if p.badReply {
				payload = []byte{0, 0}
			} else {
				payload = putU32(nil, p.assign)
			}
		} else if p.junkReply {
			payload = []byte("junk")
		}
		e.lastFwd = srvReq{typ: r.Type, host: host, port: eff, ok: true}
		for i := 0; i < p.burst; i++ {
			burst = append(burst, e.newOpenLocked("tcp", host, eff, "", "", "burst-at-registration"))
		}
		return true, payload, burst
	case "streamlocal-forward@openssh.com":
		path, pok := parseUnixForwardReq(r.Payload)
		p := e.curListen
		if !pok || p == nil {
			return false, nil, nil
		}
		e.fwdReqs++
		if p.deny {
			return false, nil, nil
		}
		e.lastFwd = srvReq{typ: r.Type, path: path, ok: true}
		for i := 0; i < p.burst; i++ {
			burst = append(burst, e.newOpenLocked("unix", "", 0, path, "", "burst-at-registration"))
		}
		return true, nil, burst
	case "cancel-tcpip-forward":
		host, port, pok := parseTCPForwardReq(r.Payload)
		if !pok {
			return false, nil, nil
		}
		k := "tcp:" + net.JoinHostPort(host, strconv.FormatUint(uint64(port), 10))
		for n := e.cancelInject[k]; n > 0; n-- {
			o := e.newOpenLocked("tcp", host, port, "", "", "during-cancel")
			o.duringCancel = true
			burst = append(burst, o)
		}
		delete(e.cancelInject, k)
		if v, have := e.cancelOK[k]; have {
			return v, nil, burst
		}
		return true, nil, burst
	case "cancel-streamlocal-forward@openssh.com":
		path, pok := parseUnixForwardReq(r.Payload)
		if !pok {
			return false, nil, nil
		}
		for n := e.cancelInject["unix:"+path]; n > 0; n-- {
			o := e.newOpenLocked("unix", "", 0, path, "", "during-cancel")
			o.duringCancel = true
			burst = append(burst, o)
		}
		delete(e.cancelInject, "unix:"+path)
		if v, have := e.cancelOK["unix:"+path]; have {
			return v, nil, burst
		}
		return true, nil, burst
	}
	return false, nil, nil
}

// newOpenLocked builds an open record (e.mu held).
func (e *env) newOpenLocked(network, host string, port uint32, path, malformed, intent string) *openRec {
	o := &openRec{id: len(e.opens), network: network, host: host, port: port, path: path, malformed: malformed, intent: intent, done: make(chan struct{})}
	oport := uint32(1024 + o.id)
	ohost := "192.0.2.7"
	if o.id%3 == 1 {
		ohost = "2001:db8::7"
	}
	if network == "unix" {
		o.chanType = "forwarded-streamlocal@openssh.com"
		o.payload = fwdUnixPayload(path, "")
		switch malformed {
		case "truncated":
			o.payload = o.payload[:len(o.payload)-2]
		case "trailing":
			o.payload = append(o.payload, 0, 0, 0, 1, 'x')
		case "":
		default:
			o.malformed = "truncated"
			o.payload = o.payload[:len(o.payload)-2]
		}
	} else {
		o.chanType = "forwarded-tcpip"
		switch malformed {
		case "origin-port-0":
			oport = 0
		case "origin-port-65536":
			oport = 65536
		case "origin-not-ip":
			ohost = "origin.example"
		}
		o.payload = fwdTCPPayload(host, port, ohost, oport)
		switch malformed {
		case "truncated":
			o.payload = o.payload[:len(o.payload)-3]
		case "trailing":
			o.payload = append(o.payload, 0xde, 0xad)
		}
	}
	e.opens = append(e.opens, o)
	return o
}

// sendOpen: the server application opens one forwarded channel; the outcome is
// observed by its own goroutine (CHANNEL_OPEN_CONFIRMATION / _FAILURE / error).
func (e *env) sendOpen(o *openRec) {
	e.mu.Lock()
	o.sentSeq = e.tick()
	e.settledOK = false
	e.mu.Unlock()
	go srvOpen(e, o)
}

func srvOpen(e *env, o *openRec) {
	ch, reqs, err := e.sconn.OpenChannel(o.chanType, o.payload)
	var oce *ssh.OpenChannelError
	e.mu.Lock()
	o.resSeq = e.tick()
	switch {
	case err == nil:
		o.outcome = outConfirmed
		o.ch = ch
	case errors.As(err, &oce):
		o.outcome = outRejected
		o.reason = oce.Reason
		o.rejectMsg = oce.Message
		e.judgeRejectLocked(o)
	default:
		o.outcome = outConnErr
		o.connErr = err.Error()
	}
	e.mu.Unlock()
	if err == nil {
		go ssh.DiscardRequests(reqs)
		ch.Write(putU32(nil, uint32(o.id)))
	}
	close(o.done)
}

// ---- oracle: the registry of forward requests, as the server application saw them ----

func exactMatch(o *openRec, l *lst) bool {
	if o.network != l.network {
		return false
	}
	if o.network == "unix" {
		return o.path == l.path
	}
	return o.host == l.host && o.port == l.port
}

// semEq: not the same string, but arguably the same address (case-insensitive
// host name or equal IP). Delivery on such a match is tolerated (and counted);
// x/crypto compares strings, so the count is expected to stay 0.
func semEq(o *openRec, l *lst) bool {
	if o.network != "tcp" || l.network != "tcp" || o.port != l.port {
		return false
	}
	if strings.EqualFold(o.host, l.host) {
		return true
	}
	a, b := net.ParseIP(o.host), net.ParseIP(l.host)
	return a != nil && b != nil && a.Equal(b)
}

func relation(o *openRec, l *lst) string {
	if o.network != l.network {
		os, ls := o.addr(), l.addr()
		if os[strings.IndexByte(os, ':')+1:] == ls[strings.IndexByte(ls, ':')+1:] {
			return "network-differs-addr-string-equal"
		}
		return "network-differs"
	}
	if o.network == "unix" {
		return "unix-path-differs"
	}
	switch {
	case o.port == l.port:
		return "port-only-match"
	case o.host == l.host && o.port%65536 == l.port%65536:
		return "host-match-port-mod-65536"
	case o.host == l.host:
		return "host-only-match"
	}
	return "unrelated-address"
}

func (e *env) exactListenersLocked(o *openRec) []*lst {
	var out []*lst
	for _, l := range e.lsts {
		if exactMatch(o, l) {
			out = append(out, l)
		}
	}
	return out
}

// groupTainted: two or more listeners were registered for exactly this address
// (a server that grants the same bind twice) and at least one of them has been
// closed. x/crypto identifies entries by address only, so which of the equal
// listeners is affected is not determined by the property's text; the harness
// then judges the group (any member may receive, rejections are accepted) and
// only counts what it sees.
func (e *env) groupTaintedLocked(ls []*lst) bool {
	if len(ls) < 2 {
		return false
	}
	for _, l := range ls {
		if l.closeCalled.Load() {
			return true
		}
	}
	return false
}

func (e *env) witnessLocked(o *openRec, l *lst) map[string]any {
	w := map[string]any{"trace": append([]string(nil), e.trace...)}
	if o != nil {
		w["open"] = map[string]any{"id": o.id, "type": o.chanType, "addr": o.addr(), "payload": mon.FullHex(o.payload), "malformed": o.malformed, "intent": o.intent, "sentSeq": o.sentSeq, "quiet": o.quiet,
			"outcome": [...]string{"unanswered", "confirmed", "rejected", "connection error"}[o.outcome], "reject_reason": fmt.Sprint(o.reason), "reject_message": o.rejectMsg}
	}
	if l != nil {
		w["listener"] = map[string]any{"id": l.id, "addr": l.addr(), "kind": l.plan.kindName(), "listenSeq": l.listenSeq, "closeCallSeq": l.closeCallSeq, "closeRetSeq": l.closeRetSeq}
	}
	var regs []string
	for _, x := range e.lsts {
		regs = append(regs, fmt.Sprintf("L%d %s listen@%d close@%d..%d", x.id, x.addr(), x.listenSeq, x.closeCallSeq, x.closeRetSeq))
	}
	w["registry"] = regs
	return w
}

// judgeDeliveryLocked: listener l's Accept returned the channel of open o.
func (e *env) judgeDeliveryLocked(o *openRec, l *lst) {
	m := e.m
	m.Eval()
	o.delivered = l
	if !exactMatch(o, l) {
		if semEq(o, l) {
			m.Count("delivered_semantic_equal_address", 1)
		} else {
			m.Violation("misdelivery:"+relation(o, l), e.witnessLocked(o, l))
			return
		}
	}
	m.Count("delivered_exact", 1)
	if o.malformed != "" {
		m.Count("delivered_malformed:"+o.malformed, 1)
	}
	group := e.exactListenersLocked(o)
	if o.duringCancel {
		// sent after the peer had received this listener's cancel request, i.e. after Close was called
		if l.closeRetSeq != 0 && len(group) == 1 {
			m.Violation("accept-after-close-delivers-forward-sent-during-close:"+l.network, e.witnessLocked(o, l))
		} else {
			m.Count("cancel_window_forward_delivered_before_close_returned", 1)
		}
	} else if l.closeRetSeq != 0 && o.sentSeq > l.closeRetSeq {
		if len(group) >= 2 {
			m.Count("equal_addr_delivered_to_closed_sibling", 1)
		} else {
			m.Violation("delivered-after-close", e.witnessLocked(o, l))
		}
	} else if l.closeRetSeq != 0 {
		m.Count("accept_after_close_returned_buffered_forward", 1)
	}
	if o.sentSeq < l.listenSeq {
		m.Count("delivered_open_sent_before_listen_returned", 1)
	}
	if o.intent == "burst-at-registration" {
		m.Count("burst_at_registration_resolved", 1)
	}
	m.Distinct("open " + o.intent + " -> delivered")
}

// judgeRejectLocked: the harness saw CHANNEL_OPEN_FAILURE for o. Rejection is
// what the property prescribes for unregistered addresses and is accepted for
// registered ones unless the listener was idle: registered (Listen had
// returned), not closed, the only unresolved open of a settled connection.
func (e *env) judgeRejectLocked(o *openRec) {
	m := e.m
	m.Eval()
	m.Count(fmt.Sprintf("rejected_reason_%d", o.reason), 1)
	if o.intent == "burst-at-registration" {
		m.Count("burst_at_registration_resolved", 1)
	}
	m.Distinct("open " + o.intent + " -> rejected")
	if o.duringCancel {
		m.Count("cancel_window_forward_rejected", 1)
	}
	group := e.exactListenersLocked(o)
	if len(group) == 0 {
		m.Count("rejected_unregistered", 1)
		return
	}
	m.Count("rejected_registered_address", 1)
	if !o.quiet || o.malformed != "" || e.dropped || e.groupTaintedLocked(group) {
		return
	}
	for _, l := range group {
		if l.listenSeq != 0 && l.listenSeq < o.sentSeq && !l.closeCalled.Load() && !l.acceptEnded {
			m.Violation("rejected-registered-idle-listener", e.witnessLocked(o, l))
			return
		}
	}
}

// ---------------------------------------------------------------------------
// Waiting without verdicts: settle / await
// ---------------------------------------------------------------------------

var lastSnap []gsnap

func (e *env) allParked() bool {
	sn := snapshot()
	for _, g := range sn {
		if !e.pre[g.id] && !parked(g.state) {
			return false
		}
	}
	lastSnap = sn
	return true
}

func pause(it int) {
	switch {
	case it < 20:
		runtime.Gosched()
	case it < 200:
		time.Sleep(50 * time.Microsecond)
	default:
		time.Sleep(time.Millisecond)
	}
}

const settleLimit = 120 * time.Second

// goid returns the calling goroutine's id.
func goid() int {
	b := make([]byte, 64)
	b = b[:runtime.Stack(b, false)]
	if f := strings.Fields(string(b)); len(f) > 1 {
		id, _ := strconv.Atoi(f[1])
		return id
	}
	return -1
}

// settleExcept: settle() for a goroutine of the case itself (the server's
// request handler): every other goroutine of the case is parked.
func (e *env) settleExcept(self int) bool {
	t0 := time.Now()
	for it := 0; ; it++ {
		all := true
		for _, g := range snapshot() {
			if !e.pre[g.id] && g.id != self && !parked(g.state) {
				all = false
				break
			}
		}
		if all {
			return true
		}
		if time.Since(t0) > settleLimit {
			e.inconclusive("case goroutines did not settle inside the cancel round trip")
			return false
		}
		pause(it)
	}
}

// settle waits until every goroutine of the case is parked. One stop-the-world
// snapshot with all parties parked on channels/mutexes/conds is a stable state
// of the closed system (a wake-up makes the woken goroutine runnable before the
// waker parks). This decides only when the scenario continues.
func (e *env) settle() bool {
	t0 := time.Now()
	for it := 0; ; it++ {
		if e.allParked() {
			e.mu.Lock()
			e.settledOK = true
			e.mu.Unlock()
			return true
		}
		if time.Since(t0) > settleLimit {
			e.inconclusive("case goroutines did not settle within the scheduling limit")
			return false
		}
		pause(it)
	}
}

func (e *env) inconclusive(why string) {
	e.mu.Lock()
	first := !e.incon
	e.incon = true
	e.dead = true
	e.mu.Unlock()
	if first {
		e.m.Inconclusive(why)
	}
}

const (
	stReturned = iota
	stBlocked
	stUnsettled
)

// await waits until pred() holds (returned), or a snapshot shows every
// goroutine of the case parked while pred() is still false (blocked).
func (e *env) await(pred func() bool) int {
	t0 := time.Now()
	for it := 0; ; it++ {
		if pred() {
			return stReturned
		}
		if e.allParked() {
			if pred() {
				return stReturned
			}
			return stBlocked
		}
		if time.Since(t0) > settleLimit {
			return stUnsettled
		}
		pause(it)
	}
}

// ---------------------------------------------------------------------------
// Wait-for analysis of a frozen system (verdict level)
// ---------------------------------------------------------------------------

const xssh = "golang.org/x/crypto/ssh."

func shortFrame(f string) string {
	f = strings.TrimPrefix(f, xssh)
	f = strings.ReplaceAll(f, "(*", "")
	f = strings.ReplaceAll(f, ")", "")
	return f
}

func firstXFrame(g mon.G) string {
	for _, f := range g.Frames {
		if strings.HasPrefix(f, xssh) {
			return f
		}
	}
	return ""
}

// flMethod: the forwardList method (of those that take the list mutex) the
// goroutine is inside, "" if none.
func flMethod(g mon.G) string {
	for _, f := range g.Frames {
		if strings.HasPrefix(f, xssh+"(*forwardList).") {
			switch m := strings.TrimPrefix(f, xssh+"(*forwardList)."); m {
			case "add", "remove", "closeAll", "forward":
				return m
			}
		}
	}
	return ""
}

// waitFor derives the violation key from the dump: the goroutine of the
// operation (found by the harness frame opFrame) and what it waits for.
func waitFor(gs []mon.G, opFrame, opName, suffix string) (key string, summary map[string]any, ok bool) {
	var op *mon.G
	for i := range gs {
		if gs[i].Has(opFrame) {
			op = &gs[i]
			break
		}
	}
	if op == nil {
		return "", nil, false
	}
	x := firstXFrame(*op)
	if x == "" || !parked(op.State) {
		return "", nil, false
	}
	summary = map[string]any{"operation_goroutine": op.Raw}
	state := strings.TrimPrefix(op.State, "sync.")
	findHolder := func(except string) *mon.G {
		for i := range gs {
			g := &gs[i]
			if g.ID == except {
				continue
			}
			if meth := flMethod(*g); meth != "" && g.State != "sync.Mutex.Lock" {
				return g
			}
		}
		return nil
	}
	if meth := flMethod(*op); meth != "" && op.State == "sync.Mutex.Lock" {
		if h := findHolder(op.ID); h != nil {
			summary["mutex_holder_goroutine"] = h.Raw
			return fmt.Sprintf("deadlock:forwardList.%s[%s]-holds-mutex/%s[%s]", flMethod(*h), h.State, meth, state), summary, true
		}
		return fmt.Sprintf("deadlock:forwardList-mutex-holder-unknown/%s[%s]", meth, state), summary, true
	}
	key = fmt.Sprintf("hang:%s@%s[%s]", opName, shortFrame(x), state)
	if suffix != "" {
		key += ":" + suffix
	}
	// an internal waiter on the forward list explains an indirect hang
	for i := range gs {
		g := &gs[i]
		if meth := flMethod(*g); meth != "" && g.State == "sync.Mutex.Lock" && g.ID != op.ID {
			summary["forward_list_waiter"] = g.Raw
			if h := findHolder(g.ID); h != nil {
				summary["mutex_holder_goroutine"] = h.Raw
				key += fmt.Sprintf("/forwardList.%s[%s]-holds-mutex/%s[Mutex.Lock]", flMethod(*h), h.State, meth)
			}
			break
		}
	}
	return key, summary, true
}

func trimDump(d string) string {
	if len(d) > 60000 {
		return d[:60000] + "\n…(truncated)"
	}
	return d
}

// frozenVerdict is called when an operation that must return is blocked in a
// settled system. It confirms with mon.Quiescent that the whole process is
// frozen and derives the key from the dump. Returns true if a violation was
// recorded.
func (e *env) frozenVerdict(opFrame, opName, suffix string, extra map[string]any) bool {
	return e.frozenVerdictRekey(opFrame, opName, suffix, extra, nil)
}

func (e *env) frozenVerdictRekey(opFrame, opName, suffix string, extra map[string]any, rekey func(string) string) bool {
	// the harness must not owe the system anything
	e.mu.Lock()
	owed := e.reqsSeen != e.reqsDone
	e.mu.Unlock()
	frozen, gs, dump := quiescent(3, 200*time.Millisecond)
	if !frozen {
		return false
	}
	if owed {
		e.inconclusive("system frozen while the harness server still owed a reply (harness fault)")
		return true
	}
	key, summary, ok := waitFor(gs, opFrame, opName, suffix)
	if !ok {
		diag := ""
		for _, g := range gs {
			if id, _ := strconv.Atoi(g.ID); !e.pre[id] {
				fr := g.Frames
				if len(fr) > 12 {
					fr = fr[:12]
				}
				diag += fmt.Sprintf("\n g%s [%s] %s", g.ID, g.State, strings.Join(fr, " < "))
			}
		}
		e.inconclusive("system frozen but the blocked operation is not parked inside x/crypto frames: " + opName + diag + "\ntrace: " + strings.Join(e.traceCopy(), " | "))
		return true
	}
	e.mu.Lock()
	w := e.witnessLocked(nil, nil)
	e.dead = true
	e.mu.Unlock()
	w["wait_for"] = summary
	w["goroutine_dump"] = trimDump(dump)
	for k, v := range extra {
		w[k] = v
	}
	if rekey != nil {
		w["wait_for_pattern"] = key
		key = rekey(key)
	}
	e.m.Violation(key, w)
	if strings.HasPrefix(key, "deadlock:") {
		e.m.Count("deadlocks_detected", 1)
	} else {
		e.m.Count("hangs_detected", 1)
	}
	return true
}

// ---------------------------------------------------------------------------
// Application-side operations (each in a named function: dump frames)
// ---------------------------------------------------------------------------

func opListen(c *ssh.Client, p *lplan, out chan<- listenRes) {
	var l net.Listener
	var err error
	pv, st := mon.Panics(func() {
		switch p.kind {
		case kListenTCPStr:
			l, err = c.Listen(p.netw, net.JoinHostPort(p.host, strconv.Itoa(p.port)))
		case kListenTCPAddr:
			l, err = c.ListenTCP(&net.TCPAddr{IP: p.ip, Port: p.port})
		case kListenUnix:
			l, err = c.ListenUnix(p.path)
		case kListenUnixStr:
			l, err = c.Listen("unix", p.path)
		}
	})
	out <- listenRes{l, err, pv, st}
}

type listenRes struct {
	l   net.Listener
	err error
	pv  any
	st  string
}

func opClose(l net.Listener, out chan<- error) {
	out <- l.Close()
}

func opAccept(e *env, l *lst, loop bool) {
	for {
		c, err := l.l.Accept()
		res := acceptRes{err: err, id: -1}
		if err == nil {
			var b [4]byte
			if _, rerr := io.ReadFull(c, b[:]); rerr != nil {
				res.tokErr = rerr
			} else {
				v, _, _ := getU32(b[:])
				res.id = int(v)
			}
		}
		e.onAccept(l, c, res)
		if err != nil || !loop {
			return
		}
	}
}

func (e *env) onAccept(l *lst, c net.Conn, res acceptRes) {
	e.mu.Lock()
	defer e.mu.Unlock()
	l.acceptReturns++
	if !l.eager {
		l.acceptPending = false
	}
	if e.tearing {
		if c != nil {
			e.conns = append(e.conns, c)
		}
		if res.err != nil {
			l.acceptPending = false
		}
		return
	}
	if res.err != nil {
		l.acceptPending = false
		l.acceptEnded = true
		l.acceptErr = res.err.Error()
		e.m.Eval()
		switch {
		case l.closeRetSeq != 0 || l.closeCalled.Load():
			e.m.Count("accept_error_after_close", 1)
		case e.dropped:
			e.m.Count("accept_error_after_conn_end", 1)
		default:
			e.m.Count("accept_error_while_open", 1)
		}
		if len(e.trace) < 400 {
			e.trace = append(e.trace, fmt.Sprintf("  L%d.Accept -> err %q", l.id, l.acceptErr))
		}
		return
	}
	l.nAccepted++
	e.conns = append(e.conns, c)
	if res.tokErr != nil || res.id < 0 || res.id >= len(e.opens) {
		e.m.Count("accepted_conn_token_unreadable", 1)
		if !e.dropped {
			e.incon = true
			e.m.Inconclusive("accepted connection did not carry the harness token: " + fmt.Sprint(res.tokErr))
		}
		return
	}
	o := e.opens[res.id]
	if len(e.trace) < 400 {
		e.trace = append(e.trace, fmt.Sprintf("  L%d.Accept -> open#%d %s", l.id, o.id, o.addr()))
	}
	if o.delivered != nil {
		e.m.Violation("open-delivered-twice", e.witnessLocked(o, l))
		return
	}
	e.judgeDeliveryLocked(o, l)
}

// ---------------------------------------------------------------------------
// Scenario steps
// ---------------------------------------------------------------------------

func (e *env) isDead() bool {
	e.mu.Lock()
	defer e.mu.Unlock()
	return e.dead
}

// unaccepted: opens for exactly l's address that are neither delivered nor
// rejected (they sit in or before the forward list).
func (e *env) unacceptedLocked(l *lst) int {
	n := 0
	for _, o := range e.opens {
		if o.outcome == outPending && o.sentSeq != 0 && exactMatch(o, l) {
			n++
		}
	}
	return n
}

func (e *env) unresolvedLocked() int {
	n := 0
	for _, o := range e.opens {
		if o.outcome == outPending && o.sentSeq != 0 {
			n++
		}
	}
	return n
}

// backlogElsewhere: some listener other than those with address addr, still
// open and with no Accept outstanding, has un-accepted forwards. Its owner (the
// harness application) is not servicing it, which the package documents as a
// reason for the connection to stall; blocked operations are then not judged.
func (e *env) backlogLocked(min int, exceptAddr string) bool {
	for _, l := range e.lsts {
		if l.addr() == exceptAddr {
			continue
		}
		if l.eager && !l.acceptEnded {
			continue // an Accept loop is running
		}
		u := e.unacceptedLocked(l)
		if l.acceptPending {
			u-- // one outstanding Accept call takes one forward
		}
		if u >= min {
			return true
		}
	}
	return false
}

func (e *env) doListen(p lplan) *lst {
	if e.isDead() {
		return nil
	}
	e.mu.Lock()
	if e.backlogLocked(2, "") {
		// Listen (forwardList.add) behind an unserviced listener is outside the property.
		e.mu.Unlock()
		e.m.Count("listen_skipped_unserviced_backlog", 1)
		return nil
	}
	pc := p
	if pc.burst > 0 {
		// A forward sent at registration is routed to the first entry with that
		// address, which may belong to an equal-address listener nobody is
		// accepting on; Listen (forwardList.add) would then wait behind it, and
		// Listen is not what C37 is about.
		lazy := false
		for _, x := range e.lsts {
			if !x.eager && !x.acceptEnded {
				lazy = true
			}
		}
		switch {
		case e.backlogLocked(1, ""):
			pc.burst = 0
			e.m.Count("listen_burst_suppressed_unserviced_backlog", 1)
		case lazy && pc.burst > 1:
			pc.burst = 1
			e.m.Count("listen_burst_limited_lazy_listener_present", 1)
		}
	}
	e.curListen = &pc
	e.lastFwd = srvReq{}
	e.settledOK = false
	e.mu.Unlock()
	e.logf("Listen %s", p.String())
	out := make(chan listenRes, 1)
	go opListen(e.client, &p, out)
	var res listenRes
	got := false
	st := e.await(func() bool {
		select {
		case res = <-out:
			got = true
		default:
		}
		return got
	})
	e.mu.Lock()
	e.curListen = nil
	fwd := e.lastFwd
	dropped := e.dropped
	e.mu.Unlock()
	if st != stReturned {
		diag := ""
		for _, g := range parseDump(dumpAll()) {
			if true {
				fr := g.Frames
				if len(fr) > 8 {
					fr = fr[:8]
				}
				diag += fmt.Sprintf("\n g%s [%s] %s", g.ID, g.State, strings.Join(fr, " < "))
			}
		}
		diag += fmt.Sprintf("\nlastSnap=%v", lastSnap)
		e.inconclusive("Listen did not return (not part of the property): state " + fmt.Sprint(st) + diag + "\ntrace: " + strings.Join(e.traceCopy(), " | "))
		return nil
	}
	if res.pv != nil {
		e.m.Violation("panic:"+mon.PanicSite(res.st), map[string]any{"op": "Listen " + p.String(), "panic": fmt.Sprint(res.pv), "stack": res.st})
		return nil
	}
	e.m.Eval()
	if res.err != nil {
		e.logf("  -> err %v", res.err)
		switch {
		case dropped:
			e.m.Count("listen_error_after_conn_end", 1)
		case p.deny:
			e.m.Count("listen_denied_by_server", 1)
		case p.badReply:
			e.m.Count("listen_error_malformed_port_reply", 1)
		default:
			e.m.Count("listen_error_other", 1)
		}
		return nil
	}
	if !fwd.ok {
		e.inconclusive("Listen succeeded although the harness server granted nothing")
		return nil
	}
	l := &lst{id: 0, plan: p, eager: p.eager, l: res.l}
	if fwd.typ == "tcpip-forward" {
		l.network, l.host, l.port = "tcp", fwd.host, fwd.port
	} else {
		l.network, l.path = "unix", fwd.path
	}
	e.mu.Lock()
	l.id = len(e.lsts)
	l.listenSeq = e.tick()
	dups := 0
	for _, x := range e.lsts {
		if x.addr() == l.addr() {
			dups++
		}
	}
	e.lsts = append(e.lsts, l)
	if p.cancelFail {
		e.cancelOK[l.addr()] = false
	}
	e.mu.Unlock()
	e.logf("  -> L%d registered as %s (eager=%v)", l.id, l.addr(), l.eager)
	e.m.Count("listen_ok:"+p.kindName(), 1)
	if p.port == 0 && l.network == "tcp" {
		e.m.Count("listen_port0_server_assigned", 1)
		if ta, ok := res.l.Addr().(*net.TCPAddr); ok && uint32(ta.Port) == l.port {
			e.m.Count("listen_port0_addr_reports_assigned_port", 1)
		}
	}
	if dups > 0 {
		e.m.Count("listen_equal_address_again", 1)
	}
	if p.denyTriesPlanned > 0 {
		e.m.Count("listen_old_openssh_retry_path", 1)
	}
	if l.eager {
		e.mu.Lock()
		l.acceptPending = true
		e.mu.Unlock()
		go opAccept(e, l, true)
	}
	return l
}

// doOpens sends n forwarded opens built by mk. sync: wait until the system has
// settled afterwards (every open is then delivered, rejected, or parked in/at
// the forward list).
func (e *env) doOpens(n int, sync bool, mk func() *openRec) []*openRec {
	if e.isDead() {
		return nil
	}
	var out []*openRec
	for i := 0; i < n; i++ {
		e.mu.Lock()
		if e.dropped || e.unresolvedLocked() >= maxUnresolved {
			e.mu.Unlock()
			e.m.Count("opens_capped", 1)
			break
		}
		o := mk()
		// quiet: alone on a settled connection, and the system settles again before anything else is sent
		o.quiet = sync && n == 1 && e.settledOK && e.unresolvedLocked() == 0
		if len(e.trace) < 400 {
			e.trace = append(e.trace, fmt.Sprintf("Open#%d %s %s quiet=%v sync=%v %s", o.id, o.chanType, o.addr(), o.quiet, sync, o.malformed))
		}
		e.mu.Unlock()
		e.sendOpen(o)
		e.m.Count("opens_sent", 1)
		out = append(out, o)
	}
	if sync && e.settle() {
		e.checkStarved("after-open")
	}
	return out
}

// maxUnresolved bounds the un-accepted opens of one connection below the
// buffering of the mux (16 incomingChannels + 16 per-type handler queue + the
// goroutines' hands + 1-slot entry buffer = 36): beyond that the mux read loop
// itself stalls until the application accepts, which the package documents
// ("the listener must be serviced, or the SSH connection may hang") and which
// is not the forward-list behaviour C37 is about.
const maxUnresolved = 30

// doAccept: one Accept call on a lazy listener (no new call if one is
// outstanding). Returns true if an Accept call returned.
func (e *env) doAccept(l *lst) bool {
	if e.isDead() || l == nil {
		return false
	}
	e.mu.Lock()
	if l.acceptEnded || l.eager {
		e.mu.Unlock()
		return false
	}
	base := l.acceptReturns
	start := !l.acceptPending
	if start {
		l.acceptPending = true
		e.settledOK = false
		if e.unacceptedLocked(l) == 0 {
			e.m.Count("accept_called_before_forward", 1)
		} else {
			e.m.Count("accept_called_after_forward", 1)
		}
	}
	e.mu.Unlock()
	if start {
		e.logf("L%d.Accept()", l.id)
		go opAccept(e, l, false)
	}
	st := e.await(func() bool {
		e.mu.Lock()
		defer e.mu.Unlock()
		return l.acceptReturns > base
	})
	switch st {
	case stUnsettled:
		e.inconclusive("Accept neither returned nor settled")
	case stBlocked:
		e.m.Count("accept_left_blocked", 1)
		e.checkStarved("accept-blocked")
	}
	return st == stReturned
}

// checkStarved is called in a settled system. It looks for forwarded opens
// that nobody will ever answer although the application does its part:
//   - an open for an address nobody registered (or with a malformed payload)
//     that was sent into a quiet connection must have been rejected by now;
//   - opens for exactly one registered, open listener whose Accept is parked,
//     with no other unresolved open on the connection, must have been handed
//     to that Accept (or rejected).
func (e *env) checkStarved(where string) {
	if e.isDead() {
		return
	}
	e.mu.Lock()
	var bad *openRec
	cls := ""
	unres := e.unresolvedLocked()
	for _, o := range e.opens {
		if o.outcome != outPending || o.sentSeq == 0 || e.dropped {
			continue
		}
		group := e.exactListenersLocked(o)
		if o.quiet && len(group) == 0 {
			bad, cls = o, "unregistered-address"
			if o.malformed != "" {
				cls = "malformed-payload"
			}
			break
		}
		if len(group) == 1 {
			l := group[0]
			if l.acceptPending && !l.acceptEnded && !l.closeCalled.Load() && l.listenSeq != 0 && l.listenSeq < o.sentSeq && e.unacceptedLocked(l) == unres {
				bad, cls = o, "registered-listener-in-accept"
				break
			}
		}
	}
	e.mu.Unlock()
	if bad == nil {
		return
	}
	frozen, _, dump := quiescent(3, 200*time.Millisecond)
	if !frozen {
		return
	}
	e.mu.Lock()
	if bad.outcome == outPending {
		w := e.witnessLocked(bad, nil)
		w["where"] = where
		w["goroutine_dump"] = trimDump(dump)
		e.m.Violation("forward-dropped:"+cls, w)
		e.dead = true
	}
	e.mu.Unlock()
}

// doClose calls Close on l and judges "Close returns".
func (e *env) doClose(l *lst) { e.doCloseInject(l, 0) }

// doCloseInject: Close, with inject forwards for exactly l's address sent by
// the server between receiving the cancel request and replying to it.
func (e *env) doCloseInject(l *lst, inject int) {
	if e.isDead() || l == nil {
		return
	}
	e.mu.Lock()
	if l.closes > 0 || e.dropped {
		inject = 0
	}
	if inject > 0 {
		e.cancelInject[l.addr()] = inject
	}
	k := e.unacceptedLocked(l)
	appK := 0 // forwards sent for this listener that the application never got from Accept
	for _, o := range e.opens {
		if o.sentSeq != 0 && exactMatch(o, l) && o.delivered == nil && o.outcome != outConnErr {
			appK++
		}
	}
	settled := e.settledOK
	blockedAccept := l.acceptPending
	second := l.closes > 0
	l.closes++
	backlogOther := e.backlogLocked(2, l.addr())
	l.closeCalled.Store(true)
	if l.closeCallSeq == 0 {
		l.closeCallSeq = e.tick()
	}
	dropped := e.dropped
	e.settledOK = false
	e.mu.Unlock()
	m := e.m
	e.logf("L%d.Close() unaccepted=%d settled=%v acceptBlocked=%v second=%v", l.id, k, settled, blockedAccept, second)
	m.Count("close_calls", 1)
	if second {
		m.Count("close_again_on_closed_listener", 1)
	} else {
		switch {
		case k == 0:
			m.Count("close_with_0_unaccepted", 1)
		case k == 1:
			m.Count("close_with_1_unaccepted", 1)
		default:
			m.Count("close_with_2plus_unaccepted", 1)
			if settled {
				m.Count("close_with_2plus_unaccepted_settled", 1)
			}
			if k >= 6 {
				m.Count("close_with_6to20_unaccepted", 1)
			}
		}
		if appK >= 2 {
			m.Count("close_after_2plus_forwards_not_accepted", 1)
		}
		if !settled {
			m.Count("close_while_forwards_in_flight", 1)
		}
		if blockedAccept {
			m.Count("close_while_accept_blocked", 1)
		}
		if backlogOther {
			m.Count("close_while_other_listener_has_backlog", 1)
		}
	}
	if dropped {
		m.Count("close_after_conn_end", 1)
	}
	m.Distinct(fmt.Sprintf("close kind=%s k=%s settled=%v acceptBlocked=%v second=%v dropped=%v otherBacklog=%v duringCancel=%d", l.plan.kindName(), kClass(k), settled, blockedAccept, second, dropped, backlogOther, inject))
	if inject > 0 {
		m.Count("cancel_window_close_calls:"+l.plan.kindName(), 1)
		m.Count(fmt.Sprintf("cancel_window_close_calls_pending_before_%d", k), 1)
	}
	// A hang of this Close with fewer than two un-accepted forwards before the
	// call is not the known forward-backlog deadlock even if the parked pair
	// looks the same: the forwards that block arrived during the cancel round trip.
	var rekey func(string) string
	if inject > 0 && k < 2 && !backlogOther {
		rekey = func(pattern string) string {
			return "hang:Close-with-forward-during-cancel:" + l.network + ":" + strings.TrimPrefix(pattern, "deadlock:")
		}
	}
	out := make(chan error, 1)
	go opClose(l.l, out)
	var cerr error
	got := false
	pred := func() bool {
		select {
		case cerr = <-out:
			got = true
		default:
		}
		return got
	}
	for tries := 0; ; tries++ {
		st := e.await(pred)
		if st == stReturned {
			break
		}
		if st == stUnsettled || tries > 50 {
			e.inconclusive("Close neither returned nor was the process found frozen")
			return
		}
		// Close is parked and so is everybody else.
		if e.frozenVerdictRekey("sshfwd.opClose", "Close", "", map[string]any{"closing": l.addr(), "unaccepted_forwards_for_listener_before_close": k, "forwards_sent_during_cancel_round_trip": inject}, rekey) {
			return
		}
	}
	m.Eval()
	e.mu.Lock()
	if l.closeRetSeq == 0 {
		l.closeRetSeq = e.tick()
	}
	cv, chas := e.cancelOK[l.addr()]
	cancelFail := chas && !cv
	e.mu.Unlock()
	m.Count("close_returned", 1)
	if inject > 0 {
		m.Count("cancel_window_close_returned:"+l.plan.kindName(), 1)
	}
	switch {
	case cerr == nil:
		m.Count("close_returned_nil", 1)
	case dropped:
		m.Count("close_returned_error_conn_ended", 1)
	case cancelFail:
		m.Count("close_returned_error_cancel_refused", 1)
	default:
		m.Count("close_returned_error_other", 1)
	}
	e.logf("  -> Close returned %v", cerr)
}

func kClass(k int) string {
	switch {
	case k <= 2:
		return strconv.Itoa(k)
	case k <= 5:
		return "3-5"
	case k <= 12:
		return "6-12"
	}
	return "13-20"
}

// acceptUntilErr: after Close returned (or the connection ended) Accept must
// come back with an error; forwards sent before the Close returned may still be
// handed out first (the entry's buffer), which is accepted and counted.
func (e *env) acceptUntilErr(l *lst, when string) {
	for i := 0; i < 64; i++ {
		if e.isDead() {
			return
		}
		e.mu.Lock()
		ended := l.acceptEnded
		base := l.acceptReturns
		start := !ended && !l.acceptPending
		if start {
			l.acceptPending = true
			e.settledOK = false
		}
		group := 0
		openSibling := false
		for _, x := range e.lsts {
			if x != l && x.addr() == l.addr() {
				group++
				if x.closeRetSeq == 0 {
					openSibling = true
				}
			}
		}
		e.mu.Unlock()
		if ended {
			return
		}
		if start {
			e.logf("L%d.Accept() [%s]", l.id, when)
			e.m.Count("accept_calls_"+when, 1)
			go opAccept(e, l, false)
		}
		st := e.await(func() bool {
			e.mu.Lock()
			defer e.mu.Unlock()
			return l.acceptEnded || l.acceptReturns > base
		})
		if st == stReturned {
			continue
		}
		if st == stUnsettled {
			e.inconclusive("Accept " + when + " neither returned nor settled")
			return
		}
		// Accept is parked in a settled system although the listener was closed / the connection ended.
		if when == "after-close" && openSibling {
			// an equal-address sibling is still open: which entry a Close removes is
			// not determined (see groupTainted); judged when the whole group is closed.
			e.m.Count("equal_addr_accept_after_close_left_blocked", 1)
			return
		}
		e.mu.Lock()
		bl := e.backlogLocked(1, l.addr())
		e.mu.Unlock()
		if bl {
			e.m.Count("accept_"+when+"_blocked_behind_unserviced_listener", 1)
			return
		}
		if e.frozenVerdict("sshfwd.opAccept", "Accept", when, map[string]any{"listener": l.addr(), "equal_address_listeners": group + 1}) {
			return
		}
	}
	e.inconclusive("Accept kept returning connections " + when)
}

// dropConn: the transport ends (both directions).
func (e *env) dropConn(serverSide bool) {
	e.mu.Lock()
	if e.dropped {
		e.mu.Unlock()
		return
	}
	e.dropped = true
	e.settledOK = false
	e.mu.Unlock()
	e.logf("transport closed (by %s)", map[bool]string{true: "server end", false: "client end"}[serverSide])
	if serverSide {
		e.sEnd.Close()
		e.cEnd.Close()
	} else {
		e.cEnd.Close()
		e.sEnd.Close()
	}
}

// finalChecks runs at the end of a scenario whose operations all returned:
// every listener is closed and its Accept has erred.
func (e *env) pendingCheck() {
	if e.isDead() {
		return
	}
	if !e.settle() {
		return
	}
	e.mu.Lock()
	var bad []*openRec
	var cls []string
	for _, o := range e.opens {
		if o.sentSeq == 0 {
			continue
		}
		switch o.outcome {
		case outConfirmed:
			if o.delivered == nil && !e.dropped {
				// confirmed but the Accept that confirmed it has not reported: cannot happen in a settled system
				bad = append(bad, o)
				cls = append(cls, "confirmed-without-accept")
			}
			continue
		case outRejected, outConnErr:
			continue
		}
		group := e.exactListenersLocked(o)
		excused := e.dropped
		for _, l := range group {
			if l.closeCallSeq != 0 && (l.closeRetSeq == 0 || o.sentSeq < l.closeRetSeq) {
				excused = true // sent before the Close returned: may be dropped with the closed listener
			}
		}
		if e.groupTaintedLocked(group) {
			excused = true
		}
		if o.duringCancel && len(group) == 1 && !e.dropped {
			excused = false // sent inside the cancel round trip of a Close that has returned: rejected, not parked in the dead listener
		}
		if excused {
			e.m.Count("forward_unanswered_after_listener_close", 1)
			continue
		}
		c := "registered-address"
		if len(group) == 0 {
			c = "unregistered-address"
		}
		if o.duringCancel {
			c = "sent-during-cancel-of-close"
		}
		if o.malformed != "" {
			c = "malformed-payload"
		}
		bad = append(bad, o)
		cls = append(cls, c)
	}
	e.mu.Unlock()
	if len(bad) == 0 {
		e.m.Count("final_all_forwards_resolved", 1)
		return
	}
	frozen, _, dump := quiescent(3, 200*time.Millisecond)
	if !frozen {
		e.inconclusive("unresolved forwards but the system is not frozen")
		return
	}
	e.mu.Lock()
	for i, o := range bad {
		if o.outcome != outPending && cls[i] != "confirmed-without-accept" {
			continue
		}
		w := e.witnessLocked(o, nil)
		w["goroutine_dump"] = trimDump(dump)
		e.m.Violation("forward-dropped:"+cls[i], w)
	}
	e.dead = true
	e.mu.Unlock()
}

// leakCheck: at quiescence no goroutine may remain inside a forwardList method
// (the idle handleChannels loops, parked on their input channel, are fine).
func (e *env) leakCheck(stage string) {
	if e.isDead() {
		return
	}
	if !e.settle() {
		return
	}
	gs := parseDump(dumpAll())
	found := false
	for _, g := range gs {
		id, _ := strconv.Atoi(g.ID)
		if !e.pre[id] && flMethod(g) != "" {
			found = true
		}
	}
	if !found {
		e.m.Count("leak_check_clean:"+stage, 1)
		return
	}
	frozen, gs, dump := quiescent(3, 200*time.Millisecond)
	if !frozen {
		e.inconclusive("goroutine inside forwardList but the system is not frozen")
		return
	}
	for _, g := range gs {
		id, _ := strconv.Atoi(g.ID)
		if !e.pre[id] && flMethod(g) != "" {
			e.mu.Lock()
			w := e.witnessLocked(nil, nil)
			e.mu.Unlock()
			w["goroutine"] = g.Raw
			w["goroutine_dump"] = trimDump(dump)
			e.m.Violation(fmt.Sprintf("leak:forwardList.%s[%s]:%s", flMethod(g), strings.TrimPrefix(g.State, "sync."), stage), w)
			e.mu.Lock()
			e.dead = true
			e.mu.Unlock()
			return
		}
	}
}

// teardown releases everything the case created, also after a detected hang:
// the transport is closed; if goroutines remain, every listener's Accept is
// called repeatedly (that frees a forward parked on an entry channel and with
// it the list mutex), accepted connections are closed.
func (e *env) teardown() {
	wasDead := e.isDead()
	e.dropConn(true)
	e.mu.Lock()
	e.tearing = true
	lsts := append([]*lst(nil), e.lsts...)
	e.mu.Unlock()
	closeAll := func() {
		e.mu.Lock()
		conns := e.conns
		e.conns = nil
		var chs []ssh.Channel
		for _, o := range e.opens {
			if o.ch != nil {
				chs = append(chs, o.ch)
				o.ch = nil
			}
		}
		e.mu.Unlock()
		for _, c := range conns {
			c.Close()
		}
		for _, c := range chs {
			c.Close()
		}
	}
	closeAll()
	e.client.Close()
	e.sconn.Close()
	left := func() (l []gsnap, allParked bool) {
		allParked = true
		for _, g := range snapshot() {
			if !e.pre[g.id] {
				l = append(l, g)
				if !parked(g.state) {
					allParked = false
				}
			}
		}
		return
	}
	waitGone := func() bool {
		t0 := time.Now()
		for it := 0; ; it++ {
			l, all := left()
			if len(l) == 0 {
				return true
			}
			if all || time.Since(t0) > settleLimit {
				return false
			}
			pause(it)
		}
	}
	for round := 0; round < 4; round++ {
		if waitGone() {
			e.m.Count("teardown_clean", 1)
			return
		}
		for _, l := range lsts {
			for i := 0; i < 45; i++ {
				e.mu.Lock()
				base := l.acceptReturns
				start := !l.acceptPending
				if start {
					l.acceptPending = true
				}
				e.mu.Unlock()
				if start {
					go opAccept(e, l, false)
				}
				st := e.await(func() bool {
					e.mu.Lock()
					defer e.mu.Unlock()
					return l.acceptReturns > base
				})
				if st != stReturned {
					break
				}
			}
		}
		closeAll()
	}
	// something is parked for good
	gs := parseDump(dumpAll())
	var raw []string
	flLeft := ""
	for _, g := range gs {
		id, _ := strconv.Atoi(g.ID)
		if e.pre[id] {
			continue
		}
		raw = append(raw, g.Raw)
		if meth := flMethod(g); meth != "" && flLeft == "" {
			flLeft = fmt.Sprintf("forwardList.%s[%s]", meth, strings.TrimPrefix(g.State, "sync."))
		} else if g.Has(xssh+"(*forwardList).handleChannels") && flLeft == "" {
			flLeft = fmt.Sprintf("forwardList.handleChannels[%s]", strings.TrimPrefix(g.State, "sync."))
		}
	}
	e.m.Count("teardown_leftover_goroutines", 1)
	if flLeft != "" && !wasDead {
		frozen, _, dump := quiescent(3, 200*time.Millisecond)
		if frozen {
			e.mu.Lock()
			w := e.witnessLocked(nil, nil)
			e.mu.Unlock()
			w["leftover"] = raw
			w["goroutine_dump"] = trimDump(dump)
			e.m.Violation("leak:"+flLeft+":after-conn-end", w)
			return
		}
	}
	if len(raw) > 6 {
		raw = raw[:6]
	}
	e.m.Note("goroutines left after teardown (not on the forward list, or after a detected hang): " + strings.Join(raw, "\n--\n"))
}

package sshfwd

import (
	"bytes"
	"encoding/hex"
	"io"
	"testing"
)

// Hand-encoded vectors (RFC 4251 §5 data types: uint32 big endian, string =
// uint32 length + bytes) for the harness's own encoders.
func TestWireVectors(t *testing.T) {
	want, _ := hex.DecodeString("00000009" + hex.EncodeToString([]byte("localhost")) + "00001f90" +
		"00000009" + hex.EncodeToString([]byte("127.0.0.1")) + "0000d431")
	if got := fwdTCPPayload("localhost", 8080, "127.0.0.1", 54321); !bytes.Equal(got, want) {
		t.Fatalf("fwdTCPPayload %x want %x", got, want)
	}
	want, _ = hex.DecodeString("00000006" + hex.EncodeToString([]byte("/tmp/s")) + "00000000")
	if got := fwdUnixPayload("/tmp/s", ""); !bytes.Equal(got, want) {
		t.Fatalf("fwdUnixPayload %x want %x", got, want)
	}
	req, _ := hex.DecodeString("00000000" + "00000050")
	if h, p, ok := parseTCPForwardReq(req); !ok || h != "" || p != 80 {
		t.Fatalf("parseTCPForwardReq %q %d %v", h, p, ok)
	}
	if _, _, ok := parseTCPForwardReq(req[:7]); ok {
		t.Fatal("truncated request accepted")
	}
	if _, _, ok := parseTCPForwardReq(append(req, 0)); ok {
		t.Fatal("trailing byte accepted")
	}
	ureq, _ := hex.DecodeString("00000001" + "78")
	if p, ok := parseUnixForwardReq(ureq); !ok || p != "x" {
		t.Fatalf("parseUnixForwardReq %q %v", p, ok)
	}
	if _, _, ok := getStr([]byte{0xff, 0xff, 0xff, 0xff, 1}); ok {
		t.Fatal("oversized string accepted")
	}
}

func TestDuplex(t *testing.T) {
	a, b := newDuplex()
	if n, err := a.Write([]byte("hello")); n != 5 || err != nil {
		t.Fatal(n, err)
	}
	buf := make([]byte, 3)
	if n, _ := b.Read(buf); n != 3 || string(buf) != "hel" {
		t.Fatal(n, string(buf))
	}
	a.Close()
	rest, err := io.ReadAll(b)
	if err != nil || string(rest) != "lo" {
		t.Fatal(string(rest), err)
	}
	if _, err := b.Write([]byte("x")); err == nil {
		t.Fatal("write to closed duplex succeeded")
	}
	if _, err := a.Read(buf); err == nil {
		t.Fatal("read on closed end succeeded")
	}
}

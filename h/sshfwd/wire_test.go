package sshfwd

import (
	"bytes"
	"encoding/hex"
	"io"
	"strings"
	"testing"

	"verif/mon"
)

// Hand-encoded vectors (RFC 4251 §5 data types: uint32 big endian, string =
// uint32 length + bytes) for the harness's own encoders.
func TestWireVectors(t *testing.T) {
	want, _ := hex.DecodeString("00000009" + hex.EncodeToString([]byte("localhost")) + "00001f90" +
		"00000009" + hex.EncodeToString([]byte("127.0.0.1")) + "0000d431")
	if got := fwdTCPPayload("localhost", 8080, "127.0.0.1", 54321); !bytes.Equal(got, want) {
		t.Fatalf("fwdTCPPayload %x want %x", got, want)
	}
	want, _ = hex.DecodeString("00000006" + hex.EncodeToString([]byte("/tmp/s")) + "00000000")
	if got := fwdUnixPayload("/tmp/s", ""); !bytes.Equal(got, want) {
		t.Fatalf("fwdUnixPayload %x want %x", got, want)
	}
	req, _ := hex.DecodeString("00000000" + "00000050")
	if h, p, ok := parseTCPForwardReq(req); !ok || h != "" || p != 80 {
		t.Fatalf("parseTCPForwardReq %q %d %v", h, p, ok)
	}
	if _, _, ok := parseTCPForwardReq(req[:7]); ok {
		t.Fatal("truncated request accepted")
	}
	if _, _, ok := parseTCPForwardReq(append(req, 0)); ok {
		t.Fatal("trailing byte accepted")
	}
	ureq, _ := hex.DecodeString("00000001" + "78")
	if p, ok := parseUnixForwardReq(ureq); !ok || p != "x" {
		t.Fatalf("parseUnixForwardReq %q %v", p, ok)
	}
	if _, _, ok := getStr([]byte{0xff, 0xff, 0xff, 0xff, 1}); ok {
		t.Fatal("oversized string accepted")
	}
}

func TestDuplex(t *testing.T) {
	a, b := newDuplex()
	if n, err := a.Write([]byte("hello")); n != 5 || err != nil {
		t.Fatal(n, err)
	}
	buf := make([]byte, 3)
	if n, _ := b.Read(buf); n != 3 || string(buf) != "hel" {
		t.Fatal(n, string(buf))
	}
	a.Close()
	rest, err := io.ReadAll(b)
	if err != nil || string(rest) != "lo" {
		t.Fatal(string(rest), err)
	}
	if _, err := b.Write([]byte("x")); err == nil {
		t.Fatal("write to closed duplex succeeded")
	}
	if _, err := a.Read(buf); err == nil {
		t.Fatal("read on closed end succeeded")
	}
}

func TestParseDumpAgreesWithMon(t *testing.T) {
	d := dumpAll()
	a, b := parseDump(d), mon.ParseDump(d)
	if len(a) == 0 || len(a) != len(b) {
		t.Fatalf("%d vs %d goroutines", len(a), len(b))
	}
	for i := range a {
		if a[i].ID != b[i].ID || a[i].State != b[i].State || strings.Join(a[i].Frames, ";") != strings.Join(b[i].Frames, ";") {
			t.Fatalf("goroutine %d differs: %+v vs %+v", i, a[i], b[i])
		}
	}
	k, _, ok := waitFor(parseDump(sampleDeadlockDump), "sshfwd.opClose", "Close", "")
	if !ok || k != "deadlock:forwardList.forward[chan send]-holds-mutex/remove[Mutex.Lock]" {
		t.Fatalf("key %q ok=%v", k, ok)
	}
}

const sampleDeadlockDump = `goroutine 30 [chan send]:
golang.org/x/crypto/ssh.(*forwardList).forward(0x1, {0x2, 0x3})
	/repo/ssh/tcpip.go:309 +0x265
golang.org/x/crypto/ssh.(*forwardList).handleChannels(0x3e43dbcd8160, 0x3e43dbc965b0)
	/repo/ssh/tcpip.go:270 +0x43a
created by golang.org/x/crypto/ssh.(*Client).handleForwards in goroutine 29
	/repo/ssh/tcpip.go:106 +0x8c

goroutine 31 [chan receive]:
golang.org/x/crypto/ssh.(*forwardList).handleChannels(0x3e43dbcd8160, 0x3e43dbc965b0)
	/repo/ssh/tcpip.go:228 +0x50
created by golang.org/x/crypto/ssh.(*Client).handleForwards in goroutine 29
	/repo/ssh/tcpip.go:107 +0x8c

goroutine 50 [sync.Mutex.Lock]:
internal/sync.runtime_SemacquireMutex(0x6a0da0?, 0x1?, 0x3e43dbc2fea0?)
	/go/src/runtime/sema.go:95 +0x25
internal/sync.(*Mutex).lockSlow(0x3e43dbcd8160)
	/go/src/internal/sync/mutex.go:149 +0x15d
sync.(*Mutex).Lock(...)
	/go/src/sync/mutex.go:46
golang.org/x/crypto/ssh.(*forwardList).remove(0x3e43dbcd8160, {0x6c7f8e, 0x3}, {0x3e43dbca03a0, 0xa})
	/repo/ssh/tcpip.go:283 +0x74
golang.org/x/crypto/ssh.(*tcpListener).Close(0x3e43dbcdc1e0)
	/repo/ssh/tcpip.go:360 +0xc7
verif/sshfwd.opClose(...)
	/verif/h/sshfwd/harness_test.go:874
created by verif/sshfwd.(*env).doClose in goroutine 4
	/verif/h/sshfwd/harness_test.go:1302 +0xb7d
`

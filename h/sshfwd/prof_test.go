package sshfwd

import (
	"os"
	"testing"
	"time"
)

func TestSnapCost(t *testing.T) {
	if os.Getenv("C37_PROF") == "" {
		t.Skip()
	}
	t0 := time.Now()
	n := 0
	for time.Since(t0) < time.Second {
		snapshot()
		n++
	}
	t.Logf("snapshots/s with %d goroutines: %d", len(snapshot()), n)
}

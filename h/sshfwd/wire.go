// Package sshfwd holds the C37 harness: remote-forward listeners of the real
// ssh.Client driven by a harness-owned server application.
package sshfwd

import "encoding/binary"

// Independent encoders/decoders for the few RFC 4254 / OpenSSH PROTOCOL
// payloads the harness's server application produces and inspects. They do not
// use ssh.Marshal/Unmarshal (oracle independence).

func putU32(b []byte, v uint32) []byte {
	return append(b, byte(v>>24), byte(v>>16), byte(v>>8), byte(v))
}

func putStr(b []byte, s string) []byte {
	b = putU32(b, uint32(len(s)))
	return append(b, s...)
}

func getU32(b []byte) (uint32, []byte, bool) {
	if len(b) < 4 {
		return 0, nil, false
	}
	return binary.BigEndian.Uint32(b), b[4:], true
}

func getStr(b []byte) (string, []byte, bool) {
	n, rest, ok := getU32(b)
	if !ok || uint64(n) > uint64(len(rest)) {
		return "", nil, false
	}
	return string(rest[:n]), rest[n:], true
}

// fwdTCPPayload is the channel-specific data of a "forwarded-tcpip" open
// (RFC 4254 §7.2): string address that was connected, uint32 port that was
// connected, string originator IP address, uint32 originator port.
func fwdTCPPayload(host string, port uint32, ohost string, oport uint32) []byte {
	b := putStr(nil, host)
	b = putU32(b, port)
	b = putStr(b, ohost)
	return putU32(b, oport)
}

// fwdUnixPayload is the channel-specific data of a
// "forwarded-streamlocal@openssh.com" open (OpenSSH PROTOCOL §2.4): string
// socket path, string reserved.
func fwdUnixPayload(path, reserved string) []byte {
	return putStr(putStr(nil, path), reserved)
}

// parseTCPForwardReq parses the data of "tcpip-forward"/"cancel-tcpip-forward"
// (RFC 4254 §7.1): string address to bind, uint32 port to bind.
func parseTCPForwardReq(b []byte) (host string, port uint32, ok bool) {
	host, b, ok = getStr(b)
	if !ok {
		return
	}
	port, b, ok = getU32(b)
	return host, port, ok && len(b) == 0
}

// parseUnixForwardReq parses "streamlocal-forward@openssh.com" /
// "cancel-streamlocal-forward@openssh.com": string socket path.
func parseUnixForwardReq(b []byte) (path string, ok bool) {
	path, b, ok = getStr(b)
	return path, ok && len(b) == 0
}

package hashes

import (
	"bytes"
	"math/rand/v2"

	"verif/mon"
)

// Helpers for the buffer-ownership side of the hash contracts: Write must not
// retain or modify p; slices handed out by Sum / filled by Read must never
// change later; Sum(b) must append (prefix kept, nothing outside b's capacity
// touched); Read must stay inside dst.

const sentinel08 = 0x5C

// guarded is a slice cut out of a larger sentinel-filled backing array.
type guarded struct {
	back   []byte
	lo, hi int // the slice handed out is back[lo:lo+k] with capacity ending at hi
}

// mkGuarded returns a k-byte random slice with `spare` bytes of extra capacity;
// 16 sentinel bytes lie before it and 16 after its capacity.
func mkGuarded(r *rand.Rand, k, spare int) ([]byte, *guarded) {
	back := bytes.Repeat([]byte{sentinel08}, 16+k+spare+16)
	copy(back[16:], mon.Bytes(r, k))
	g := &guarded{back: back, lo: 16, hi: 16 + k + spare}
	return back[16 : 16+k : 16+k+spare], g
}

// mkDst returns an n-byte destination whose *capacity runs on into* the
// trailing sentinels (an overrun by the callee would land there).
func mkDst(n int) ([]byte, *guarded) {
	back := bytes.Repeat([]byte{sentinel08}, 16+n+16)
	return back[16 : 16+n], &guarded{back: back, lo: 16, hi: 16 + n}
}

func (g *guarded) intact() bool {
	for _, b := range g.back[:g.lo] {
		if b != sentinel08 {
			return false
		}
	}
	for _, b := range g.back[g.hi:] {
		if b != sentinel08 {
			return false
		}
	}
	return true
}

// sumPrefix draws the argument for Sum: nil, or a guarded non-empty/empty
// prefix with no / too little / enough spare capacity. class names the counter.
func sumPrefix(r *rand.Rand, size int) (prefix []byte, g *guarded, class string) {
	switch r.IntN(6) {
	case 2:
		prefix, g = mkGuarded(r, 1+r.IntN(8), 0)
		return prefix, g, "sum_prefix_no_spare"
	case 3:
		prefix, g = mkGuarded(r, 1+r.IntN(5), size+r.IntN(50))
		return prefix, g, "sum_prefix_spare_fits"
	case 4:
		prefix, g = mkGuarded(r, 1+r.IntN(5), 1+r.IntN(size-1))
		return prefix, g, "sum_prefix_spare_short"
	case 5:
		prefix, g = mkGuarded(r, 0, size+10)
		return prefix, g, "sum_empty_prefix_spare"
	}
	return nil, nil, "sum_nil"
}

// ring keeps the last few slices the code under test handed out (or filled)
// together with snapshots; they must never change afterwards.
type retained struct {
	buf, snap []byte
	src       string
}

type ring struct {
	items []retained
	next  int
}

func (g *ring) keep(b []byte, src string) {
	if len(b) == 0 {
		return
	}
	it := retained{buf: b, snap: append([]byte{}, b...), src: src}
	if len(g.items) < 8 {
		g.items = append(g.items, it)
		return
	}
	g.items[g.next] = it
	g.next = (g.next + 1) % 8
}

// verify returns the first retained slice that changed (and re-snapshots it so
// one defect is reported once), plus the number of slices checked.
func (g *ring) verify() (bad *retained, checked int) {
	for i := range g.items {
		it := &g.items[i]
		checked++
		if !bytes.Equal(it.buf, it.snap) {
			cp := *it
			cp.buf = append([]byte{}, it.buf...)
			it.snap = append(it.snap[:0], it.buf...)
			if bad == nil {
				bad = &cp
			}
		}
	}
	return bad, checked
}

func scribble(b []byte, v byte) {
	for i := range b {
		b[i] = v
	}
}

package hashes

import (
	"bytes"
	"fmt"
	"hash"
	"math/rand/v2"
	"testing"

	"golang.org/x/crypto/md4"
	"golang.org/x/crypto/ripemd160"
	"verif/clib/gcrypthash"
	"verif/clib/nettlehash"
	"verif/ext"
	"verif/mon"
	"verif/ref/md4rmd"
)

type v14 struct {
	name   string
	size   int
	mk     func() hash.Hash
	ref    func([]byte) []byte
	gcry   int
	nettle func([]byte) []byte
	py     string
}

// oracle14 returns the agreed digest of msg; ok=false when the oracles
// disagree among themselves (recorded as inconclusive).
func oracle14(m *mon.M, v *v14, msg []byte, i int64) (want []byte, ok bool) {
	want = v.ref(msg)
	m.Count("oracle_ref", 1)
	if g, err := gcrypthash.Hash(v.gcry, msg, v.size); err == nil {
		m.Count("oracle_gcrypt", 1)
		if !bytes.Equal(g, want) {
			m.Inconclusive(fmt.Sprintf("oracle conflict ref vs libgcrypt: %s len %d case %d", v.name, len(msg), i))
			return want, false
		}
	}
	m.Count("oracle_nettle", 1)
	if !bytes.Equal(v.nettle(msg), want) {
		m.Inconclusive(fmt.Sprintf("oracle conflict ref vs nettle: %s len %d case %d", v.name, len(msg), i))
		return want, false
	}
	return want, true
}

// C14: MD4 and RIPEMD-160 equal RFC 1320 / the RIPEMD-160 paper for every
// message and chunking; Sum leaves the running state usable.
func TestC14(t *testing.T) {
	m := mon.New(t, "C14")
	defer m.Done()
	m.Rule("case = one Write/Sum/Reset history on md4 (even index) or ripemd160 (odd index): message length from the index-scheduled class list {0,1,k·64+{55,56,57,63,64,65} (k=0..3),1999,2000, 8×random 0..2000}; written in random chunkings (single, first chunk at 63/64/65, 1..3-byte chunks, with empty writes, random cuts); a Sum is forced mid-stream at a random cut (its digest is compared with the oracles for that prefix) and more Sums at random; every 4th sweep writes garbage, Sums, Resets first; final Sum is taken twice (random prefix / spare capacity). Buffer ownership: every Write goes through one reused buffer overwritten after the call (and must come back unmodified), the last 8 slices returned by Sum are re-compared with snapshots after every later operation of any instance, Sum(b) gets guarded prefixes (no/short/enough spare capacity). Concurrency stream conc: per round 6 goroutines each obtain their own MD4/RIPEMD-160 object from the shared registered constructor (crypto.MD4.New / crypto.RIPEMD160.New) after a barrier and drive it through Write/Sum with Gosched between calls, every 4th round under GOMAXPROCS(1); expected digests precomputed from the reference; the verif,race variant runs only this stream under the race detector. Oracle = executable RFC 1320 / RIPEMD-160 spec (h/ref/md4rmd) which must agree with libgcrypt and nettle on the same message (else inconclusive); python hashlib ripemd160 on every 16th case. One message of 2^29+3 bytes per hash (bit length crosses 2^32) is compared against libgcrypt+nettle. distinct = (hash, length class, chunk style, ops)")
	m.Assume("h/ref/md4rmd passes the RFC 1320 test suite and the RIPEMD-160 paper's test values (incl. 10^6×'a') in its own unit test and is cross-checked against libgcrypt 1.10 and nettle 3.8 on every comparison; Go runtime panic reporting")
	if mon.RaceBuild {
		// race-detector variant: only the shared-value concurrency streams
		conc14(m)
		return
	}
	py, err := ext.StartPy()
	if err != nil {
		m.Note("python witness unavailable: " + err.Error())
		py = nil
	} else {
		defer py.Close()
	}
	vs := []*v14{
		{"md4", 16, md4.New, md4rmd.MD4, gcrypthash.MD4, nettlehash.MD4, ""},
		{"ripemd160", 20, ripemd160.New, md4rmd.RIPEMD160, gcrypthash.RMD160, nettlehash.RIPEMD160, "ripemd160"},
	}
	type lc struct {
		name string
		n    int
	}
	var lcs []lc
	lcs = append(lcs, lc{"0", 0}, lc{"1", 1})
	for k := 0; k < 4; k++ {
		for _, d := range []int{55, 56, 57, 63, 64, 65} {
			lcs = append(lcs, lc{fmt.Sprintf("%d·64+%d", k, d), k*64 + d})
		}
	}
	lcs = append(lcs, lc{"1999", 1999}, lc{"2000", 2000})
	for j := 0; j < 8; j++ {
		lcs = append(lcs, lc{"rand", -1})
	}
	total := m.N(4000, 200000)
	wbuf := make([]byte, 4096) // the ONE reused buffer every Write goes through
	rg := &ring{}              // slices returned by Sum, re-verified after every later call of any instance
	m.Cases("hist", total, func(i int64, r *rand.Rand) {
		v := vs[i%2]
		blk := i / 2
		l := lcs[blk%int64(len(lcs))]
		sweep := blk / int64(len(lcs))
		n := l.n
		if n < 0 {
			n = r.IntN(2001)
			// half of the random lengths are pulled to a padding boundary further out
			if r.IntN(2) == 0 {
				n = (4+r.IntN(27))*64 + mon.Pick(r, []int{55, 56, 57, 63, 64, 65}) - 64
				m.Count("far_boundary_lengths", 1)
			}
		}
		msg := mon.Bytes(r, n)
		chunks, style := cuts08(r, n, 64)
		h := v.mk()
		var log []op08
		var written []byte
		ops := ""
		fail := func(key string, extra map[string]any) {
			w := map[string]any{"hash": v.name, "msg": mon.FullHex(msg), "history": log}
			for k, x := range extra {
				w[k] = x
			}
			m.Violation(key, w)
		}
		dead := false
		recheck := func(after string) {
			bad, n := rg.verify()
			m.Count("retained_slice_rechecks", n)
			if bad != nil {
				fail("returned-slice-changed-later:"+bad.src, map[string]any{"after_op": after, "was": mon.Hex(bad.snap), "now": mon.Hex(bad.buf)})
			}
		}
		write := func(p []byte) {
			if dead {
				return
			}
			var wn int
			var werr error
			arg := wbuf[:len(p):len(p)]
			copy(arg, p)
			pv, _ := mon.Panics(func() { wn, werr = h.Write(arg) })
			m.Eval()
			log = append(log, op08{Op: "write", Data: mon.FullHex(p), Res: panicRes(pv)})
			m.Count("writes_via_scribbled_buffer", 1)
			if !bytes.Equal(arg, p) {
				fail("write-modifies-input:"+v.name, map[string]any{"after": mon.Hex(arg)})
				dead = true
				return
			}
			scribble(arg, 0xA5) // Write must not retain p
			recheck("write")
			if pv != nil {
				fail("unexpected-panic:write:"+v.name, map[string]any{"panic": fmt.Sprint(pv)})
				dead = true
				return
			}
			if wn != len(p) || werr != nil {
				fail("write-result:"+v.name, map[string]any{"n": wn, "err": fmt.Sprint(werr)})
				dead = true
				return
			}
			written = append(written, p...)
		}
		sum := func(phase string) {
			if dead {
				return
			}
			prefix, guard, pclass := sumPrefix(r, v.size)
			pfx := append([]byte{}, prefix...)
			var got []byte
			pv, _ := mon.Panics(func() { got = h.Sum(prefix) })
			m.Eval()
			log = append(log, op08{Op: "sum", Data: mon.FullHex(pfx), Res: panicRes(pv) + " " + pclass})
			if guard != nil && (!guard.intact() || !bytes.Equal(guard.back[guard.lo:guard.lo+len(pfx)], pfx)) {
				fail("sum-writes-outside-append-region:"+v.name, map[string]any{"class": pclass, "backing": mon.Hex(guard.back), "prefix": mon.Hex(pfx)})
				dead = true
				return
			}
			if pv == nil {
				m.Count(pclass, 1)
				rg.keep(got, v.name+":sum")
			}
			recheck("sum")
			if pv != nil {
				fail("unexpected-panic:sum:"+v.name, map[string]any{"panic": fmt.Sprint(pv), "written_len": len(written)})
				dead = true
				return
			}
			want, ok := oracle14(m, v, written, i)
			if !ok {
				return
			}
			m.Count("sum_comparisons", 1)
			switch len(written) % 64 {
			case 55, 56, 57, 63, 0:
				m.Count("sum_at_padding_boundary", 1)
			}
			if !bytes.Equal(got, append(pfx, want...)) {
				// phase tells whether an earlier Sum on this object could be the culprit
				fail("wrong-digest:"+v.name+":"+phase, map[string]any{"got": mon.Hex(got), "want": mon.Hex(append(pfx, want...)), "written_len": len(written)})
				dead = true
			}
		}
		if sweep%4 == 2 {
			// Reset after use must give a fresh state
			write(mon.Bytes(r, 1+r.IntN(130)))
			sum("first")
			h.Reset()
			log = append(log, op08{Op: "reset"})
			written = nil
			m.Count("resets", 1)
			ops += "+reset"
		}
		// forced mid-stream Sum position: after chunk index fc (if there are ≥ 2 chunks), else
		// the message is split in two writes around a random cut
		if len(chunks) < 2 && n >= 2 {
			c0 := 1 + r.IntN(n-1)
			chunks = []int{c0, n - c0}
			style = "two"
		}
		fc := -1
		if len(chunks) >= 2 {
			fc = r.IntN(len(chunks) - 1)
		}
		sums := 0
		rest := msg
		for ci, cn := range chunks {
			write(rest[:cn])
			rest = rest[cn:]
			if ci == fc || r.IntN(6) == 0 {
				ph := "after-sum"
				if sums == 0 && sweep%4 != 2 {
					ph = "first"
				}
				sum(ph)
				sums++
				if ci < len(chunks)-1 {
					m.Count("sum_mid_stream", 1)
				}
			}
		}
		if sums > 0 {
			ops += "+sum-mid"
		}
		ph := "after-sum"
		if sums == 0 && sweep%4 != 2 {
			ph = "first"
		}
		sum(ph)
		sum("after-sum") // Sum must not have changed the state
		if py != nil && v.py != "" && i%16 == 1 && !dead {
			if p, err := py.Bytes(map[string]any{"op": "hash", "name": v.py, "msg": ext.Hx(written)}); err == nil {
				m.Count("oracle_python", 1)
				if !bytes.Equal(p, v.ref(written)) {
					m.Inconclusive(fmt.Sprintf("oracle conflict ref vs hashlib: %s case %d", v.name, i))
				}
			}
		}
		// continue after the final Sum: the state stays usable
		if r.IntN(3) == 0 {
			write(mon.Bytes(r, 1+r.IntN(70)))
			sum("after-sum")
			m.Count("continued_after_final_sum", 1)
			ops += "+continue"
		}
		if l.name != "rand" {
			m.Count("boundary_length_histories", 1)
		}
		m.Count("histories_"+v.name, 1)
		m.Distinct(fmt.Sprintf("%s len=%s chunks=%s ops=%s", v.name, l.name, style, ops))
		if i%293 == 31 {
			m.Sample(map[string]any{"hash": v.name, "msg_len": n, "chunks": chunks, "ops": len(log), "digest": mon.Hex(v.ref(msg))})
		}
	})
	// bit length crossing 2^32: 2^29+3 bytes, streamed from a 1 MiB buffer
	m.Cases("long", len(vs), func(i int64, r *rand.Rand) { // md4 in batch 0, ripemd160 in batch 1
		v := vs[i]
		buf := mon.Bytes(r, 1<<20)
		tail := mon.Bytes(r, 3)
		h := v.mk()
		for k := 0; k < 512; k++ {
			h.Write(buf)
		}
		h.Write(tail)
		got := h.Sum(nil)
		got2 := h.Sum(nil)
		m.Eval()
		g, gerr := gcrypthash.HashRepeated(v.gcry, buf, 512, tail, v.size)
		var nt []byte
		if v.name == "md4" {
			nt = nettlehash.MD4Repeated(buf, 512, tail)
		} else {
			nt = nettlehash.RIPEMD160Repeated(buf, 512, tail)
		}
		if gerr != nil || !bytes.Equal(g, nt) {
			m.Inconclusive("long message: libgcrypt and nettle disagree or failed: " + v.name)
			return
		}
		m.Count("bit_length_crosses_2^32", 1)
		m.Distinct(v.name + " len=2^29+3")
		if !bytes.Equal(got, g) || !bytes.Equal(got2, g) {
			m.Violation("wrong-digest-long:"+v.name, map[string]any{"seed_stream": "long", "len": (1 << 29) + 3, "got": mon.Hex(got), "got_second_sum": mon.Hex(got2), "want": mon.Hex(g)})
		}
	})
	conc14(m)
	m.Gate("histories_md4", m.N(2000, 100000), "MD4 histories")
	m.Gate("histories_ripemd160", m.N(2000, 100000), "RIPEMD-160 histories")
	m.Gate("boundary_length_histories", m.N(3000, 150000), "lengths scheduled at k·64+{55,56,57,63,64,65}, 0, 1, 1999, 2000")
	m.Gate("sum_mid_stream", m.N(3000, 150000), "Sum taken with more data written afterwards")
	m.Gate("sum_at_padding_boundary", m.N(3000, 150000), "Sum with len%64 ∈ {55,56,57,63,0}")
	m.Gate("resets", m.N(500, 25000), "Reset after use")
	m.Gate("writes_via_scribbled_buffer", m.N(10000, 500000), "Writes fed through one reused buffer that is overwritten right after the call")
	m.Gate("retained_slice_rechecks", m.N(100000, 5000000), "earlier Sum results re-compared with their snapshots after later calls (same hash, other hash, other instances)")
	m.Gate("sum_prefix_no_spare", m.N(1500, 75000), "Sum(b) with non-empty b and no spare capacity, guard bytes around the backing array")
	m.Gate("sum_prefix_spare_fits", m.N(1500, 75000), "Sum(b) with spare capacity for the whole digest")
	m.Gate("sum_prefix_spare_short", m.N(1500, 75000), "Sum(b) with spare capacity smaller than the digest")
	m.Gate("sum_comparisons", m.N(10000, 500000), "digests compared with three agreeing oracles")
	m.Gate("bit_length_crosses_2^32", 2, "one 2^29+3-byte message per hash")
}

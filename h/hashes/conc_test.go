package hashes

import (
	"bytes"
	"crypto"
	"encoding"
	"fmt"
	"hash"
	"io"
	"math/rand/v2"
	"runtime"
	"sync"
	"sync/atomic"

	"golang.org/x/crypto/sha3"
	"verif/mon"
	"verif/ref/md4rmd"
)

// Shared-value concurrency streams (C08, C14).
//
// (a) shared: the package-level one-shot functions sha3.Sum224/256/384/512 and
//     sha3.ShakeSum128/256 (and the crypto.MD4 / crypto.RIPEMD160 registered
//     constructors) are called from several goroutines at once.
// (b) distinct: every goroutine owns its own hash object (fresh, Clone()d from a
//     common parent, or restored with UnmarshalBinary from a common parent) and
//     drives it while the others run. No object is ever touched by two
//     goroutines; clones/unmarshaled copies are created single-threaded before
//     the barrier. This exposes package-level scratch state, pools, and clones
//     that share storage with their parent.
//
// All expected outputs are computed single-threaded from the reference before
// the goroutines start; goroutines meet at a barrier; results are judged after
// the join. Interleavings are chosen by the Go scheduler (plus a GOMAXPROCS(1)
// pass with Gosched between the calls), not enumerated.

type cop struct {
	kind byte // 'w' write, 's' sum, 'r' read
	data []byte
	n    int
}

type cjob struct {
	api   string // key suffix
	mode  string // "shared" | "distinct"
	run   func(yield func()) [][]byte
	want  [][]byte
	descr map[string]any
	got   [][]byte
	pv    any
}

// runJobs starts one goroutine per job, releases them together, and judges
// after the join. Returns whether all goroutines were in flight at once.
func runJobs(m *mon.M, jobs []*cjob, single bool) {
	if single {
		prev := runtime.GOMAXPROCS(1) // sync.Pool is per-P: one P makes pool slips collide
		defer runtime.GOMAXPROCS(prev)
		m.Count("conc_rounds_gomaxprocs1", 1)
	}
	var inflight, maxSeen atomic.Int32
	var wg sync.WaitGroup
	g := int32(len(jobs))
	for _, j := range jobs {
		wg.Add(1)
		go func(j *cjob) {
			defer wg.Done()
			// in flight from here to the end of the own sequence; nobody leaves before
			// everybody has arrived, so the last arrival sees all of them in flight
			n := inflight.Add(1)
			for {
				if cur := maxSeen.Load(); n <= cur || maxSeen.CompareAndSwap(cur, n) {
					break
				}
			}
			for maxSeen.Load() < g { // barrier: monotonic, reaches g only when all g are in flight
				runtime.Gosched()
			}
			j.pv, _ = mon.Panics(func() { j.got = j.run(runtime.Gosched) })
			inflight.Add(-1)
		}(j)
	}
	wg.Wait()
	m.Count("conc_rounds", 1)
	if maxSeen.Load() >= 2 {
		m.Count("conc_rounds_overlap_observed", 1)
	}
	for _, j := range jobs {
		m.Eval()
		m.Count("conc_jobs_"+j.mode, 1)
		if j.pv != nil {
			j.descr["panic"] = fmt.Sprint(j.pv)
			m.Violation("concurrent-panic:"+j.mode+":"+j.api, j.descr)
			continue
		}
		ok := len(j.got) == len(j.want)
		for k := 0; ok && k < len(j.want); k++ {
			ok = bytes.Equal(j.got[k], j.want[k])
		}
		if !ok {
			j.descr["got"], j.descr["want"] = hexList(j.got), hexList(j.want)
			j.descr["gomaxprocs1"] = single
			m.Violation("concurrent-output-differs:"+j.mode+":"+j.api, j.descr)
		}
	}
}

func hexList(xs [][]byte) []string {
	out := make([]string, len(xs))
	for i, x := range xs {
		out[i] = mon.Hex(x)
	}
	return out
}

// planOps draws a legal op sequence: writes with Sums in between, a final Sum,
// then (xof) a few Reads.
func planOps(r *rand.Rand, maxMsg, rate int, xof bool) []cop {
	var ops []cop
	total := r.IntN(maxMsg + 1)
	if r.IntN(3) == 0 {
		total = (1+r.IntN(2))*rate + r.IntN(3) - 1
	}
	chunks, _ := cuts08(r, total, rate)
	for _, n := range chunks {
		ops = append(ops, cop{kind: 'w', data: mon.Bytes(r, n)})
		if r.IntN(2) == 0 {
			ops = append(ops, cop{kind: 's'})
		}
	}
	ops = append(ops, cop{kind: 's'}, cop{kind: 's'})
	if xof {
		for k := 1 + r.IntN(3); k > 0; k-- {
			ops = append(ops, cop{kind: 'r', n: 1 + r.IntN(rate+40)})
		}
	}
	return ops
}

// execOps drives h through ops, yielding between calls; one output per s/r op.
func execOps(h hash.Hash, ops []cop, yield func()) [][]byte {
	var out [][]byte
	for _, o := range ops {
		switch o.kind {
		case 'w':
			h.Write(o.data)
		case 's':
			out = append(out, h.Sum(nil))
		case 'r':
			b := make([]byte, o.n)
			h.(io.Reader).Read(b)
			out = append(out, b)
		}
		yield()
	}
	return out
}

// wantOps computes the reference outputs for ops applied after prefix.
func wantOps(prefix []byte, ops []cop, size int, ref func(msg []byte, out int) []byte) [][]byte {
	msg := append([]byte{}, prefix...)
	off := 0
	var out [][]byte
	for _, o := range ops {
		switch o.kind {
		case 'w':
			msg = append(msg, o.data...)
		case 's':
			out = append(out, ref(msg, size))
		case 'r':
			w := ref(msg, off+o.n)
			out = append(out, w[off:])
			off += o.n
		}
	}
	return out
}

func opsDescr(ops []cop) []string {
	var d []string
	for _, o := range ops {
		switch o.kind {
		case 'w':
			d = append(d, "w:"+mon.FullHex(o.data))
		case 's':
			d = append(d, "s")
		case 'r':
			d = append(d, fmt.Sprintf("r:%d", o.n))
		}
	}
	return d
}

// conc08 runs the C08 concurrency streams and registers their gates.
func conc08(m *mon.M) {
	vs := variants08()
	rounds := m.N(160, 4000)
	m.Cases("conc", rounds, func(i int64, r *rand.Rand) {
		var jobs []*cjob
		// --- (a) shared: package-level one-shot functions, 3 goroutines ---
		for k := 0; k < 3; k++ {
			msg := mon.Bytes(r, r.IntN(400))
			which := r.IntN(6)
			j := &cjob{mode: "shared", descr: map[string]any{"msg": mon.FullHex(msg)}}
			reps := 2 + r.IntN(3)
			switch which {
			case 0, 1, 2, 3:
				v := vs[which]
				j.api = "sha3.Sum" + v.name[5:]
				w := v.ref(nil, nil, msg, v.size)
				j.run = func(yield func()) [][]byte {
					var out [][]byte
					for q := 0; q < reps; q++ {
						var d []byte
						switch which {
						case 0:
							a := sha3.Sum224(msg)
							d = a[:]
						case 1:
							a := sha3.Sum256(msg)
							d = a[:]
						case 2:
							a := sha3.Sum384(msg)
							d = a[:]
						default:
							a := sha3.Sum512(msg)
							d = a[:]
						}
						out = append(out, d)
						yield()
					}
					return out
				}
				for q := 0; q < reps; q++ {
					j.want = append(j.want, w)
				}
			default:
				v := vs[which] // 4: shake128, 5: shake256
				n := 1 + r.IntN(300)
				j.api = "sha3.ShakeSum" + v.name[5:]
				w := v.ref(nil, nil, msg, n)
				j.run = func(yield func()) [][]byte {
					var out [][]byte
					for q := 0; q < reps; q++ {
						d := make([]byte, n)
						if which == 4 {
							sha3.ShakeSum128(d, msg)
						} else {
							sha3.ShakeSum256(d, msg)
						}
						out = append(out, d)
						yield()
					}
					return out
				}
				for q := 0; q < reps; q++ {
					j.want = append(j.want, w)
				}
			}
			m.Count("conc_oneshot_jobs", 1)
			jobs = append(jobs, j)
		}
		// --- (b) distinct objects: a parent, its clone, an unmarshaled copy, and a fresh one ---
		pv := vs[sched08[(i+i/16)%16]]
		var n, s []byte
		if pv.kind == kCSHAKE {
			n, s = nsPick08(r, pv.rate), nsPick08(r, pv.rate)
		}
		ref := func(msg []byte, out int) []byte { return pv.ref(n, s, msg, out) }
		xof := pv.kind == kSHAKE || pv.kind == kCSHAKE || (pv.kind == kKeccak && r.IntN(2) == 0)
		prefix := mon.Bytes(r, r.IntN(2*pv.rate))
		parent := pv.mk(append([]byte{}, n...), append([]byte{}, s...))
		parent.Write(prefix)
		add := func(h hash.Hash, api string, pre []byte) {
			ops := planOps(r, 300, pv.rate, xof)
			j := &cjob{api: api, mode: "distinct", want: wantOps(pre, ops, pv.size, ref),
				descr: map[string]any{"variant": pv.name, "N": mon.FullHex(n), "S": mon.FullHex(s), "prefix": mon.FullHex(pre), "ops": opsDescr(ops)}}
			j.run = func(yield func()) [][]byte { return execOps(h, ops, yield) }
			jobs = append(jobs, j)
		}
		// clone (created before the barrier, single-threaded)
		switch p := parent.(type) {
		case sha3.ShakeHash:
			add(p.Clone(), pv.name+":clone", prefix)
			m.Count("conc_clone_jobs", 1)
		case hash.Cloner:
			if c, err := p.Clone(); err == nil {
				add(c, pv.name+":clone", prefix)
				m.Count("conc_clone_jobs", 1)
			}
		}
		// unmarshaled copies (twin is run single-threaded first: no reference exists for
		// marshaling itself, so a copy that is already wrong alone is not judged here)
		if mb, ok := parent.(encoding.BinaryMarshaler); ok {
			if blob, err := mb.MarshalBinary(); err == nil {
				mkCopy := func() hash.Hash {
					h := pv.mk(append([]byte{}, n...), append([]byte{}, s...))
					if u, ok := h.(encoding.BinaryUnmarshaler); ok && u.UnmarshalBinary(blob) == nil {
						return h
					}
					return nil
				}
				if twin, cp := mkCopy(), mkCopy(); twin != nil && cp != nil {
					probe := []cop{{kind: 'w', data: mon.Bytes(r, 1+r.IntN(20))}, {kind: 's'}}
					var g [][]byte
					ppv, _ := mon.Panics(func() { g = execOps(twin, probe, func() {}) })
					w := wantOps(prefix, probe, pv.size, ref)
					if ppv == nil && len(g) == 1 && bytes.Equal(g[0], w[0]) {
						add(cp, pv.name+":unmarshaled", prefix)
						m.Count("conc_unmarshaled_jobs", 1)
					} else {
						m.Count("conc_unmarshal_not_equivalent_alone", 1)
					}
				}
			}
		}
		add(parent, pv.name+":parent", prefix)
		add(pv.mk(append([]byte{}, n...), append([]byte{}, s...)), pv.name+":fresh", nil)
		// a second, different variant so that families overlap too
		ov := vs[sched08[(i+3+i/16)%16]]
		if ov.kind != kCSHAKE {
			ops := planOps(r, 300, ov.rate, ov.kind == kSHAKE)
			h := ov.mk(nil, nil)
			oref := func(msg []byte, out int) []byte { return ov.ref(nil, nil, msg, out) }
			j := &cjob{api: ov.name + ":fresh", mode: "distinct", want: wantOps(nil, ops, ov.size, oref),
				descr: map[string]any{"variant": ov.name, "ops": opsDescr(ops)}}
			j.run = func(yield func()) [][]byte { return execOps(h, ops, yield) }
			jobs = append(jobs, j)
		}
		m.Distinct(fmt.Sprintf("conc %s xof=%v jobs=%d single=%v", pv.name, xof, len(jobs), i%4 == 3))
		runJobs(m, jobs, i%4 == 3)
	})
	m.Gate("conc_rounds_overlap_observed", m.N(150, 3800), "rounds in which ≥2 goroutines were in flight together (barrier)")
	m.Gate("conc_rounds_gomaxprocs1", m.N(35, 900), "rounds run under GOMAXPROCS(1) with Gosched between calls")
	m.Gate("conc_oneshot_jobs", m.N(450, 11000), "goroutines calling sha3.Sum*/ShakeSum* concurrently")
	m.Gate("conc_clone_jobs", m.N(100, 2500), "a Clone driven in parallel with its parent")
	m.Gate("conc_unmarshaled_jobs", m.N(100, 2500), "an UnmarshalBinary copy driven in parallel with its parent")
	m.Gate("conc_jobs_distinct", m.N(600, 15000), "distinct hash objects driven concurrently")
}

// conc14 runs the C14 concurrency streams and registers their gates.
func conc14(m *mon.M) {
	rounds := m.N(200, 5000)
	m.Cases("conc", rounds, func(i int64, r *rand.Rand) {
		var jobs []*cjob
		for k := 0; k < 6; k++ {
			name, size, ch := "md4", 16, crypto.MD4
			rf := md4rmd.MD4
			if k%2 == 1 {
				name, size, ch, rf = "ripemd160", 20, crypto.RIPEMD160, md4rmd.RIPEMD160
			}
			ops := planOps(r, 400, 64, false)
			ref := func(msg []byte, _ int) []byte { return rf(msg) }
			j := &cjob{api: name, mode: "distinct", want: wantOps(nil, ops, size, ref),
				descr: map[string]any{"hash": name, "ops": opsDescr(ops)}}
			// the registered constructor is the shared value: every goroutine calls it after the barrier
			j.run = func(yield func()) [][]byte {
				h := ch.New()
				yield()
				return execOps(h, ops, yield)
			}
			jobs = append(jobs, j)
		}
		m.Distinct(fmt.Sprintf("conc md4+ripemd160 single=%v", i%4 == 3))
		runJobs(m, jobs, i%4 == 3)
	})
	m.Gate("conc_rounds_overlap_observed", m.N(190, 4800), "rounds in which ≥2 goroutines were in flight together (barrier)")
	m.Gate("conc_rounds_gomaxprocs1", m.N(45, 1200), "rounds run under GOMAXPROCS(1) with Gosched between calls")
	m.Gate("conc_jobs_distinct", m.N(1200, 30000), "distinct MD4/RIPEMD-160 objects (from the shared registered constructors) driven concurrently")
}

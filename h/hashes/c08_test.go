package hashes

import (
	"bytes"
	"fmt"
	"hash"
	"io"
	"math/rand/v2"
	"testing"

	"golang.org/x/crypto/sha3"
	"verif/clib/gcrypthash"
	"verif/clib/nettlehash"
	"verif/ext"
	"verif/mon"
	"verif/ref/keccak"
)

// ---- variants under test -------------------------------------------------

type k08 int

const (
	kSHA3 k08 = iota
	kSHAKE
	kCSHAKE
	kKeccak
)

func (k k08) String() string { return [...]string{"sha3", "shake", "cshake", "keccak"}[k] }

type v08 struct {
	name       string
	kind       k08
	rate, size int
	mk         func(n, s []byte) hash.Hash
	ref        func(n, s, msg []byte, out int) []byte
	gcry       int // libgcrypt algorithm (0: none)
	nettleBits int // nettle SHA3 size (0: none)
	py         string
}

func variants08() []*v08 {
	fix := func(name string, rate, size int, mk func() hash.Hash, gc, nb int, py string) *v08 {
		return &v08{name: name, kind: kSHA3, rate: rate, size: size,
			mk:  func(_, _ []byte) hash.Hash { return mk() },
			ref: func(_, _, m []byte, out int) []byte { return keccak.Sponge(rate, keccak.DsSHA3, m, out) },
			gcry: gc, nettleBits: nb, py: py}
	}
	return []*v08{
		fix("sha3-224", 144, 28, sha3.New224, gcrypthash.SHA3_224, 224, "sha3_224"),
		fix("sha3-256", 136, 32, sha3.New256, gcrypthash.SHA3_256, 256, "sha3_256"),
		fix("sha3-384", 104, 48, sha3.New384, gcrypthash.SHA3_384, 384, "sha3_384"),
		fix("sha3-512", 72, 64, sha3.New512, gcrypthash.SHA3_512, 512, "sha3_512"),
		{name: "shake128", kind: kSHAKE, rate: 168, size: 32,
			mk:  func(_, _ []byte) hash.Hash { return sha3.NewShake128() },
			ref: func(_, _, m []byte, out int) []byte { return keccak.SHAKE128(m, out) }, gcry: gcrypthash.SHAKE128, py: "shake_128"},
		{name: "shake256", kind: kSHAKE, rate: 136, size: 64,
			mk:  func(_, _ []byte) hash.Hash { return sha3.NewShake256() },
			ref: func(_, _, m []byte, out int) []byte { return keccak.SHAKE256(m, out) }, gcry: gcrypthash.SHAKE256, py: "shake_256"},
		{name: "cshake128", kind: kCSHAKE, rate: 168, size: 32,
			mk:  func(n, s []byte) hash.Hash { return sha3.NewCShake128(n, s) },
			ref: func(n, s, m []byte, out int) []byte { return keccak.CSHAKE128(n, s, m, out) }, gcry: gcrypthash.SHAKE128, py: "shake_128"},
		{name: "cshake256", kind: kCSHAKE, rate: 136, size: 64,
			mk:  func(n, s []byte) hash.Hash { return sha3.NewCShake256(n, s) },
			ref: func(n, s, m []byte, out int) []byte { return keccak.CSHAKE256(n, s, m, out) }, gcry: gcrypthash.SHAKE256, py: "shake_256"},
		{name: "keccak256", kind: kKeccak, rate: 136, size: 32,
			mk:  func(_, _ []byte) hash.Hash { return sha3.NewLegacyKeccak256() },
			ref: func(_, _, m []byte, out int) []byte { return keccak.Sponge(136, keccak.DsKeccak, m, out) }},
		{name: "keccak512", kind: kKeccak, rate: 72, size: 64,
			mk:  func(_, _ []byte) hash.Hash { return sha3.NewLegacyKeccak512() },
			ref: func(_, _, m []byte, out int) []byte { return keccak.Sponge(72, keccak.DsKeccak, m, out) }},
	}
}

// schedule: wrapper/legacy code gets 3/4 of the histories, the plain stdlib
// wrappers 1/4. Index by (i + i/16) % 16 so every batch sees every variant.
var sched08 = []int{4, 5, 6, 7, 8, 9, 6, 7, 4, 5, 8, 9, 0, 1, 2, 3}

// ---- model ---------------------------------------------------------------

type sq08 int

const (
	sqAbsorbing sq08 = iota
	sqSqueezing
	sqMaybe // only zero-length Reads so far: "any output has been read" is under-determined
)

type inst08 struct {
	id      int
	h       hash.Hash
	msg     []byte
	off     int
	sq      sq08
	viaCopy bool // squeezing state inherited through Clone (no Read on this object itself)
	dead    bool
}

type op08 struct {
	Op   string `json:"op"`
	On   int    `json:"on"`
	Data string `json:"data,omitempty"`
	N    int    `json:"n,omitempty"`
	Res  string `json:"res,omitempty"`
}

type run08 struct {
	m      *mon.M
	r      *rand.Rand
	i      int64
	v      *v08
	n, s   []byte
	log    []op08
	nextID int
	py     *ext.Py
	flags  map[string]bool
	wbuf   []byte // the ONE reused buffer every Write goes through (scribbled after each call)
	ring   *ring  // slices handed out by Sum / filled by Read (shared by all histories of the process)
	nArg   []byte // the caller-owned N and S slices given to the constructor (scribbled afterwards)
	sArg   []byte
	scribN byte
}

// scribbleNS overwrites the caller's N/S slices: the hash must not depend on them any more.
func (c *run08) scribbleNS() {
	if len(c.nArg)+len(c.sArg) == 0 {
		return
	}
	c.scribN += 0x11
	scribble(c.nArg, 0xA5^c.scribN)
	scribble(c.sArg, 0x5A^c.scribN)
	c.m.Count("cshake_ns_scribbles", 1)
}

// recheck re-verifies every retained output slice after an operation.
func (c *run08) recheck(after string) {
	bad, n := c.ring.verify()
	c.m.Count("retained_slice_rechecks", n)
	if bad != nil {
		c.m.Violation("returned-slice-changed-later:"+bad.src, c.wit(map[string]any{"after_op": after, "was": mon.Hex(bad.snap), "now": mon.Hex(bad.buf)}))
	}
}

func (c *run08) wit(extra map[string]any) map[string]any {
	w := map[string]any{"variant": c.v.name, "N": mon.FullHex(c.n), "S": mon.FullHex(c.s), "history": c.log}
	for k, v := range extra {
		w[k] = v
	}
	return w
}

func (c *run08) logOp(op string, on int, data []byte, n int, res string) {
	o := op08{Op: op, On: on, N: n, Res: res}
	if data != nil {
		o.Data = mon.FullHex(data)
	}
	c.log = append(c.log, o)
}

// want computes the reference output and cross-checks it with the in-process
// witnesses where one exists. ok=false: the oracles disagree (inconclusive).
func (c *run08) want(msg []byte, out int) (w []byte, ok bool) {
	w = c.v.ref(c.n, c.s, msg, out)
	c.m.Count("ref_computations", 1)
	hasW := c.v.gcry != 0 && (c.v.kind != kCSHAKE || (len(c.n) == 0 && len(c.s) == 0))
	if !hasW {
		return w, true
	}
	if g, err := gcrypthash.Hash(c.v.gcry, msg, out); err == nil {
		c.m.Count("witness_gcrypt", 1)
		if !bytes.Equal(g, w) {
			c.m.Inconclusive(fmt.Sprintf("oracle conflict ref vs libgcrypt: %s case %d", c.v.name, c.i))
			return w, false
		}
	}
	if c.v.nettleBits != 0 && out == c.v.size {
		c.m.Count("witness_nettle", 1)
		if !bytes.Equal(nettlehash.SHA3(c.v.nettleBits, msg), w) {
			c.m.Inconclusive(fmt.Sprintf("oracle conflict ref vs nettle: %s case %d", c.v.name, c.i))
			return w, false
		}
	}
	return w, true
}

// pyCheck: python hashlib as a further witness on final states.
func (c *run08) pyCheck(msg []byte, out int, w []byte) {
	if c.py == nil || c.v.py == "" || (c.v.kind == kCSHAKE && (len(c.n) != 0 || len(c.s) != 0)) {
		return
	}
	if c.v.kind == kSHA3 && out != c.v.size {
		return
	}
	q := map[string]any{"op": "hash", "name": c.v.py, "msg": ext.Hx(msg), "outlen": out}
	p, err := c.py.Bytes(q)
	if err != nil {
		return
	}
	c.m.Count("witness_python", 1)
	if !bytes.Equal(p, w) {
		c.m.Inconclusive(fmt.Sprintf("oracle conflict ref vs hashlib: %s case %d", c.v.name, c.i))
	}
}

func (c *run08) fail(in *inst08, key string, extra map[string]any) {
	c.m.Violation(key, c.wit(extra))
	in.dead = true // model and object may have diverged: stop judging this instance
}

func (c *run08) write(in *inst08, p []byte) {
	if in.dead {
		return
	}
	var n int
	var err error
	arg := c.wbuf[:len(p):len(p)]
	copy(arg, p)
	pv, _ := mon.Panics(func() { n, err = in.h.Write(arg) })
	c.m.Eval()
	c.logOp("write", in.id, p, 0, panicRes(pv))
	c.m.Count("writes_via_scribbled_buffer", 1)
	if !bytes.Equal(arg, p) {
		c.fail(in, "write-modifies-input:"+c.v.name, map[string]any{"after": mon.Hex(arg)})
		return
	}
	scribble(arg, 0xA5) // Write must not retain p
	c.recheck("write")
	switch in.sq {
	case sqSqueezing:
		if len(p) == 0 {
			return // "will panic" for an empty Write: accept either
		}
		if pv == nil {
			k := "write-accepted-after-read:" + c.v.name
			if in.viaCopy {
				k = "write-accepted-on-squeezing-clone:" + c.v.name
			}
			c.fail(in, k, nil)
			return
		}
		c.m.Count("write_after_read_panics", 1)
		return
	case sqMaybe:
		if pv != nil {
			in.sq = sqSqueezing
			c.m.Count("zero_read_counts_as_read", 1)
			return
		}
		in.sq = sqAbsorbing
	}
	if pv != nil {
		c.fail(in, "unexpected-panic:write:"+c.v.name, map[string]any{"panic": fmt.Sprint(pv)})
		return
	}
	if n != len(p) || err != nil {
		c.fail(in, "write-result:"+c.v.name, map[string]any{"n": n, "err": fmt.Sprint(err)})
		return
	}
	in.msg = append(in.msg, p...)
}

func panicRes(pv any) string {
	if pv == nil {
		return ""
	}
	return "panic: " + fmt.Sprint(pv)
}

func (c *run08) sum(in *inst08) {
	if in.dead {
		return
	}
	prefix, guard, pclass := sumPrefix(c.r, c.v.size)
	pfx := append([]byte{}, prefix...)
	var got []byte
	pv, _ := mon.Panics(func() { got = in.h.Sum(prefix) })
	c.m.Eval()
	c.logOp("sum", in.id, pfx, 0, panicRes(pv)+" "+pclass)
	if guard != nil {
		// append contract: the prefix bytes stay, nothing outside b[:cap(b)] is touched
		if !guard.intact() || !bytes.Equal(guard.back[guard.lo:guard.lo+len(pfx)], pfx) {
			c.fail(in, "sum-writes-outside-append-region:"+c.v.name, map[string]any{"class": pclass, "backing": mon.Hex(guard.back), "prefix": mon.Hex(pfx)})
			return
		}
	}
	if pv == nil {
		c.m.Count(pclass, 1)
		c.ring.keep(got, c.v.name+":sum")
	}
	c.recheck("sum")
	switch in.sq {
	case sqSqueezing:
		if pv != nil {
			c.m.Count("sum_after_read_panics", 1)
			return
		}
		if in.viaCopy {
			// a squeezing state reached only through Clone: the text does not say
			// Sum must panic; but if it returns, it must return the digest.
			if w, ok := c.want(in.msg, c.v.size); ok && !bytes.Equal(got, append(pfx, w...)) {
				c.fail(in, "sum-on-squeezing-clone-returns-garbage:"+c.v.name, map[string]any{"got": mon.Hex(got)})
			}
			return
		}
		c.fail(in, "sum-accepted-after-read:"+c.v.name, map[string]any{"got": mon.Hex(got)})
		return
	case sqMaybe:
		if pv != nil {
			in.sq = sqSqueezing
			c.m.Count("zero_read_counts_as_read", 1)
			return
		}
		in.sq = sqAbsorbing
	}
	if pv != nil {
		c.fail(in, "unexpected-panic:sum:"+c.v.name, map[string]any{"panic": fmt.Sprint(pv)})
		return
	}
	w, ok := c.want(in.msg, c.v.size)
	if !ok {
		return
	}
	c.m.Count("sum_comparisons", 1)
	if !bytes.Equal(got, append(pfx, w...)) {
		c.fail(in, "wrong-digest:"+c.v.name, map[string]any{"got": mon.Hex(got), "want": mon.Hex(append(pfx, w...)), "msg_len": len(in.msg)})
	}
}

func (c *run08) canRead(in *inst08) bool {
	_, ok := in.h.(io.Reader)
	return ok && c.v.kind != kSHA3
}

func (c *run08) read(in *inst08, n int) {
	if in.dead || !c.canRead(in) {
		return
	}
	buf, guard := mkDst(n)
	var rn int
	var err error
	pv, _ := mon.Panics(func() { rn, err = in.h.(io.Reader).Read(buf) })
	c.m.Eval()
	c.logOp("read", in.id, nil, n, panicRes(pv))
	c.m.Count("read_sentinel_checks", 1)
	if !guard.intact() {
		c.fail(in, "read-writes-outside-dst:"+c.v.name, map[string]any{"n": n, "backing": mon.Hex(guard.back)})
		return
	}
	c.ring.keep(buf, c.v.name+":read")
	c.recheck("read")
	if pv != nil {
		c.fail(in, "unexpected-panic:read:"+c.v.name, map[string]any{"panic": fmt.Sprint(pv)})
		return
	}
	if rn != n || err != nil {
		c.fail(in, "read-result:"+c.v.name, map[string]any{"n": rn, "err": fmt.Sprint(err)})
		return
	}
	if n == 0 {
		if in.sq == sqAbsorbing {
			in.sq = sqMaybe
			c.m.Count("zero_len_first_read", 1)
		}
		return
	}
	in.sq = sqSqueezing
	w, ok := c.want(in.msg, in.off+n)
	if !ok {
		in.off += n
		return
	}
	c.m.Count("read_comparisons", 1)
	if in.off/c.v.rate != (in.off+n-1)/c.v.rate {
		c.m.Count("read_crosses_rate_boundary", 1)
	}
	if in.off > 0 {
		c.m.Count("read_continues_stream", 1)
	}
	if !bytes.Equal(buf, w[in.off:]) {
		c.fail(in, "wrong-output:"+c.v.name, map[string]any{"got": mon.Hex(buf), "want": mon.Hex(w[in.off:]), "offset": in.off, "msg_len": len(in.msg)})
		return
	}
	in.off += n
}

// clone returns nil where the variant has no clone operation.
func (c *run08) clone(in *inst08) *inst08 {
	if in.dead {
		return nil
	}
	var h2 hash.Hash
	var pv any
	switch h := in.h.(type) {
	case sha3.ShakeHash:
		pv, _ = mon.Panics(func() { h2 = h.Clone() })
	case hash.Cloner:
		var err error
		var cl hash.Cloner
		pv, _ = mon.Panics(func() { cl, err = h.Clone() })
		if pv == nil && err != nil {
			c.logOp("clone", in.id, nil, 0, "err: "+err.Error())
			c.fail(in, "clone-error:"+c.v.name, map[string]any{"err": err.Error()})
			return nil
		}
		h2 = cl
	default:
		return nil
	}
	c.m.Eval()
	id := c.nextID
	c.nextID++
	c.logOp("clone", in.id, nil, id, panicRes(pv))
	if pv != nil {
		c.fail(in, "unexpected-panic:clone:"+c.v.name, map[string]any{"panic": fmt.Sprint(pv)})
		return nil
	}
	c.m.Count("clones", 1)
	c.scribbleNS() // Clone re-runs the constructor closure: it must not look at the caller's N/S again
	c.recheck("clone")
	if in.sq != sqAbsorbing {
		c.m.Count("clones_of_squeezing_state", 1)
	}
	return &inst08{id: id, h: h2, msg: append([]byte{}, in.msg...), off: in.off, sq: in.sq,
		viaCopy: in.sq != sqAbsorbing}
}

// reset: Reset "resets the Hash to its initial state". After a Read the
// ShakeHash text also says later Write/Sum "will panic"; we accept both
// consistent readings (Reset re-enables both, or neither) and flag only a mix.
func (c *run08) reset(in *inst08) {
	if in.dead {
		return
	}
	pv, _ := mon.Panics(func() { in.h.Reset() })
	c.m.Eval()
	c.logOp("reset", in.id, nil, 0, panicRes(pv))
	if pv != nil {
		c.fail(in, "unexpected-panic:reset:"+c.v.name, map[string]any{"panic": fmt.Sprint(pv)})
		return
	}
	c.m.Count("resets", 1)
	c.scribbleNS()
	c.recheck("reset")
	was := in.sq
	in.msg, in.off = nil, 0
	if was == sqAbsorbing {
		return
	}
	c.m.Count("resets_after_read", 1)
	c.flags["reset-after-read"] = true
	// probe: Sum, then a real Write
	var s0 []byte
	pvS, _ := mon.Panics(func() { s0 = in.h.Sum(nil) })
	p := mon.Bytes(c.r, 1+c.r.IntN(20))
	pvW, _ := mon.Panics(func() { in.h.Write(p) })
	c.m.EvalN(2)
	c.logOp("sum", in.id, []byte{}, 0, panicRes(pvS))
	c.logOp("write", in.id, p, 0, panicRes(pvW))
	word := func(pv any) string {
		if pv != nil {
			return "panics"
		}
		return "ok"
	}
	switch {
	case pvS == nil && pvW == nil:
		c.m.Count("reset_after_read_restores_both", 1)
		in.sq, in.viaCopy = sqAbsorbing, false
		if w, ok := c.want(nil, c.v.size); ok && !bytes.Equal(s0, w) {
			c.fail(in, "wrong-digest-after-reset:"+c.v.name, map[string]any{"got": mon.Hex(s0), "want": mon.Hex(w)})
			return
		}
		in.msg = append(in.msg, p...)
	case pvS != nil && pvW != nil:
		if c.v.kind == kKeccak {
			// the legacy state's own Reset comment is explicit: "setting Sponge.state to absorbing"
			c.fail(in, "reset-after-read:still-squeezing:keccak", map[string]any{"sum_panic": fmt.Sprint(pvS), "write_panic": fmt.Sprint(pvW)})
			return
		}
		c.m.Count("reset_after_read_keeps_both_panicking", 1)
		in.dead = true // consistent second reading; nothing further is specified for this object
	default:
		c.fail(in, fmt.Sprintf("reset-after-read:write-%s-sum-%s:%s", word(pvW), word(pvS), c.v.kind),
			map[string]any{"sum_panic": fmt.Sprint(pvS), "write_panic": fmt.Sprint(pvW),
				"note": "after Read then Reset, Write and Sum disagree about whether the hash is back in its initial state"})
	}
}

// ---- workload generation ---------------------------------------------------

type lenClass struct {
	name string
	f    func(rate int, r *rand.Rand) int
}

func lenClasses08() []lenClass {
	cs := []lenClass{
		{"0", func(int, *rand.Rand) int { return 0 }},
		{"1", func(int, *rand.Rand) int { return 1 }},
	}
	for k := 1; k <= 3; k++ {
		for d := -2; d <= 2; d++ {
			k, d := k, d
			cs = append(cs, lenClass{fmt.Sprintf("%drate%+d", k, d), func(rate int, _ *rand.Rand) int { return k*rate + d }})
		}
	}
	for j := 0; j < 5; j++ {
		cs = append(cs, lenClass{"rand", func(_ int, r *rand.Rand) int { return r.IntN(1001) }})
	}
	cs = append(cs, lenClass{"5rate", func(rate int, _ *rand.Rand) int { return 5 * rate }})
	cs = append(cs, lenClass{"1000", func(int, *rand.Rand) int { return 1000 }})
	return cs
}

// cuts splits total into chunk lengths.
func cuts08(r *rand.Rand, total, rate int) (chunks []int, style string) {
	switch st := r.IntN(6); {
	case st == 0 || total == 0:
		if total == 0 && r.IntN(2) == 0 {
			return nil, "none"
		}
		return []int{total}, "single"
	case st == 1:
		style = "first@rate"
		first := rate + r.IntN(3) - 1
		if first > total {
			first = total
		}
		chunks = []int{first}
		total -= first
	case st == 2 && total <= 300:
		style = "tiny"
		for total > 0 {
			n := 1 + r.IntN(3)
			if n > total {
				n = total
			}
			chunks = append(chunks, n)
			total -= n
		}
		return chunks, style
	case st == 3:
		style = "with-empty"
		chunks = append(chunks, 0)
	default:
		style = "random"
	}
	k := 1 + r.IntN(6)
	for j := 0; j < k && total > 0; j++ {
		n := 1 + r.IntN(total)
		if j == k-1 {
			n = total
		}
		chunks = append(chunks, n)
		total -= n
		if style == "with-empty" && r.IntN(3) == 0 {
			chunks = append(chunks, 0)
		}
	}
	if total > 0 {
		chunks = append(chunks, total)
	}
	return chunks, style
}

func outTotal08(r *rand.Rand, v *v08) (int, string) {
	switch r.IntN(12) {
	case 0:
		return 0, "0"
	case 1:
		return 1, "1"
	case 2:
		return v.size, "size"
	case 3:
		return v.rate - 1, "rate-1"
	case 4:
		return v.rate, "rate"
	case 5:
		return v.rate + 1, "rate+1"
	case 6:
		return 2*v.rate + r.IntN(3) - 1, "2rate±1"
	case 7:
		return 1000, "1000"
	}
	return r.IntN(1001), "rand"
}

func nsPick08(r *rand.Rand, rate int) []byte {
	sizes := []int{0, 0, 1, 31, 32, rate - 8, rate - 7, rate - 6, 167, 168, 169, 300}
	return mon.Bytes(r, mon.Pick(r, sizes))
}

// ---- the check -------------------------------------------------------------

// C08: SHA-3, SHAKE, cSHAKE and legacy Keccak match FIPS 202 / SP 800-185 /
// original Keccak over Write/Sum/Clone/Read/Reset histories.
func TestC08(t *testing.T) {
	m := mon.New(t, "C08")
	defer m.Done()
	m.Rule("case = one history on one variant (index-scheduled: shake128/256, cshake128/256, legacy keccak256/512 get 3/4 of the cases, sha3-224/256/384/512 1/4): message length from the index-scheduled class list {0,1,k·rate+d (k=1..3,d=-2..2),5·rate,1000,random 0..1000}, written in random chunkings (single, first chunk at rate±1, 1..3-byte chunks, with empty writes, random cuts), interleaved with Sum (random prefix/capacity), Clone (ShakeHash.Clone / hash.Cloner; clones are kept and later diverged), Reset, mid-stream Read; every XOF history ends with Sum, Clone, Read of 0..1000 bytes in random chunks, then Write and Sum attempts that must panic, then checks on clones taken before and after the Read; cSHAKE N,S from {0,1,31,32,rate-8,rate-7,rate-6,167,168,169,300}² with empty/empty and (empty, rate-7 bytes: prefix fills one block exactly) each forced every 9th sweep. Buffer ownership: every Write goes through one reused buffer that is overwritten after the call (and must come back unmodified), the caller-owned N/S slices are overwritten after the constructor and after every Clone/Reset, the last 8 slices returned by Sum / filled by Read / one-shot helpers are re-compared with snapshots after every later operation of any instance, Sum(b) gets guarded prefixes (no/short/enough spare capacity) and Read destinations sit between sentinel bytes. Concurrency stream conc: per round 3 goroutines call sha3.Sum*/ShakeSum* while 4-5 more each drive their own object (a parent, its Clone, an UnmarshalBinary copy, fresh ones of two variants) through Write/Sum/Read with Gosched between calls, released by a barrier, every 4th round under GOMAXPROCS(1); expected outputs precomputed single-threaded from the reference; the verif,race variant runs only this stream under the race detector. Oracle = executable FIPS 202/SP 800-185 spec (h/ref/keccak) as a pure function of (variant,N,S,bytes written since Reset, bytes read); panics judged both ways where documented (Write/Sum after Read on ShakeHash, Write/Sum after Read on the legacy state via io.Reader); zero-length first Read, Sum on a squeezing clone and Reset-after-Read accept every consistent reading. distinct = (variant, length class, chunk style, N/S size class, set of interleaved op kinds, output class)")
	m.Assume("h/ref/keccak derives ρ offsets and ι constants from the FIPS 202 algorithms and passes FIPS 202 / SP 800-185 sample / Keccak-256/512 known answers in its own unit test; cross-checked here on every comparison against libgcrypt (SHA3, SHAKE), nettle (SHA3) and on final states against python hashlib; cSHAKE with non-empty N/S and legacy Keccak have the ref as only oracle (same sponge code, different domain byte/prefix)")
	if mon.RaceBuild {
		// race-detector variant: only the shared-value concurrency streams
		conc08(m)
		return
	}
	py, err := ext.StartPy()
	if err != nil {
		m.Note("python witness unavailable: " + err.Error())
		py = nil
	} else {
		defer py.Close()
	}
	vs := variants08()
	lcs := lenClasses08()
	total := m.N(5000, 200000)
	wbuf := make([]byte, 2048)
	rg := &ring{}
	m.Cases("hist", total, func(i int64, r *rand.Rand) {
		blk := i / 16
		v := vs[sched08[(i+blk)%16]]
		lc := lcs[blk%int64(len(lcs))]
		c := &run08{m: m, r: r, i: i, v: v, flags: map[string]bool{}, wbuf: wbuf, ring: rg}
		if i%16 == 0 {
			c.py = py
		}
		nsClass := "-"
		if v.kind == kCSHAKE {
			switch (blk / int64(len(lcs))) % 9 {
			case 0: // empty N and S: must equal SHAKE
			case 1: // bytepad input is exactly one rate block: 2 + 2 + 3 + (rate-7)
				c.s = mon.Bytes(r, v.rate-7)
			default:
				c.n, c.s = nsPick08(r, v.rate), nsPick08(r, v.rate)
			}
			pre := keccak.CSHAKEPrefixUnpadded(c.n, c.s)
			switch {
			case len(c.n) == 0 && len(c.s) == 0:
				nsClass = "empty"
				m.Count("cshake_empty_NS_equals_shake", 1)
			case pre%v.rate == 0:
				nsClass = "prefix=k·rate"
				m.Count("cshake_prefix_exactly_fills_block", 1)
			case pre < v.rate:
				nsClass = "prefix<rate"
			default:
				nsClass = "prefix>rate"
			}
			m.Count("cshake_histories", 1)
		}
		msgLen := lc.f(v.rate, r)
		if msgLen < 0 {
			msgLen = 0
		}
		full := mon.Bytes(r, msgLen)
		chunks, style := cuts08(r, msgLen, v.rate)
		c.nArg, c.sArg = append([]byte{}, c.n...), append([]byte{}, c.s...)
		root := &inst08{id: 0, h: v.mk(c.nArg, c.sArg)}
		if len(c.nArg)+len(c.sArg) > 0 {
			m.Count("cshake_ns_scribbled_histories", 1)
		}
		c.scribbleNS() // the constructor must have copied N and S
		c.nextID = 1
		var kept []*inst08
		isXOF := v.kind == kSHAKE || v.kind == kCSHAKE
		// special endings forced by index so that gates hold for every seed
		forceResetAfterRead := (blk%4 == 1) && v.kind != kSHA3
		forceMidRead := (blk%8 == 3) && v.kind != kSHA3
		forceZeroRead := (blk%16 == 6) && v.kind != kSHA3

		rest := full
		for ci, n := range chunks {
			if root.dead {
				break
			}
			// interleaved extra operation before this chunk
			switch x := r.IntN(20); {
			case x < 5:
				c.sum(root)
				c.flags["sum-mid"] = true
				m.Count("sum_mid_stream", 1)
			case x < 8:
				if cl := c.clone(root); cl != nil {
					c.flags["clone-mid"] = true
					c.sum(cl)
					if len(kept) < 3 {
						kept = append(kept, cl)
					}
				}
			case x == 8:
				// Reset while absorbing: start over with the remaining chunks
				c.reset(root)
				c.flags["reset-mid"] = true
				m.Count("reset_while_absorbing", 1)
			case x == 9 && c.canRead(root) || forceMidRead && ci == len(chunks)/2 && c.canRead(root):
				// mid-stream Read: later Writes must panic; Reset and carry on
				c.read(root, 1+r.IntN(2*v.rate))
				c.flags["read-mid"] = true
				c.write(root, mon.Bytes(r, 1+r.IntN(10)))
				if r.IntN(2) == 0 {
					c.sum(root)
				}
				c.reset(root)
			}
			c.write(root, rest[:n])
			rest = rest[n:]
		}
		if forceZeroRead && c.canRead(root) {
			c.read(root, 0)
			c.flags["zero-read"] = true
			if r.IntN(2) == 0 {
				c.sum(root)
			} else {
				c.write(root, mon.Bytes(r, 1+r.IntN(5)))
			}
		}
		// --- ending ---
		if len(root.msg)%v.rate == 0 && len(root.msg) > 0 {
			m.Count("msg_len_multiple_of_rate", 1)
		}
		if d := len(root.msg) % v.rate; d == v.rate-1 {
			m.Count("msg_len_rate_minus_1", 1) // domain byte and final pad bit share one byte
		}
		c.sum(root)
		c.sum(root) // twice: Sum must not change state
		var before *inst08
		if cl := c.clone(root); cl != nil {
			before = cl
		}
		outN, outClass := 0, "-"
		if c.canRead(root) && (isXOF || r.IntN(2) == 0) {
			outN, outClass = outTotal08(r, v)
			oc, _ := cuts08(r, outN, v.rate)
			if root.sq == sqAbsorbing && outN > 0 {
				m.Count("xof_endings", 1)
			}
			for _, n := range oc {
				c.read(root, n)
			}
			if outN == 0 || root.sq != sqSqueezing {
				c.read(root, 1+r.IntN(40))
			}
			if !root.dead {
				if w, ok := c.want(root.msg, root.off); ok {
					c.pyCheck(root.msg, root.off, w)
				}
			}
			// documented panics
			c.write(root, mon.Bytes(r, 1+r.IntN(10)))
			c.sum(root)
			// the failed attempts must not have disturbed the stream … not demanded; but a
			// clone taken now continues the stream and inherits the squeezing state
			if after := c.clone(root); after != nil {
				// the clone inherits the squeezing state without a Read of its own:
				// probe Sum/Write before its first Read in 2 of 3 histories
				switch r.IntN(3) {
				case 0:
					c.sum(after)
					c.write(after, mon.Bytes(r, 1+r.IntN(4)))
					m.Count("squeezing_clone_sum_before_own_read", 1)
				case 1:
					c.write(after, mon.Bytes(r, 1+r.IntN(4)))
					c.sum(after)
					m.Count("squeezing_clone_sum_before_own_read", 1)
				}
				c.read(after, 1+r.IntN(v.rate+2))
				c.read(root, 1+r.IntN(v.rate+2)) // root unaffected by the clone's Read
				c.sum(after)
				c.write(after, mon.Bytes(r, 1+r.IntN(4)))
				m.Count("clone_after_read_checked", 1)
			}
			if forceResetAfterRead {
				c.reset(root)
				ch2, _ := cuts08(r, r.IntN(2*v.rate+3), v.rate)
				for _, n := range ch2 {
					c.write(root, mon.Bytes(r, n))
				}
				c.sum(root)
				c.read(root, 1+r.IntN(300))
			}
		} else if !root.dead {
			if w, ok := c.want(root.msg, v.size); ok {
				c.pyCheck(root.msg, v.size, w)
			}
			if r.IntN(4) == 0 {
				c.reset(root)
				c.write(root, mon.Bytes(r, r.IntN(200)))
				c.sum(root)
			}
		}
		// clone taken before the Read is unaffected by it, then diverges
		if before != nil {
			kept = append(kept, before)
		}
		for _, cl := range kept {
			c.sum(cl)
			if r.IntN(4) == 0 {
				c.reset(cl) // Clone then Reset: the clone's initial state is that of the ORIGINAL N/S
				m.Count("clone_then_reset", 1)
			}
			extra := mon.Bytes(r, 1+r.IntN(v.rate+5))
			c.write(cl, extra)
			m.Count("clones_diverged", 1)
			c.sum(cl)
			if c.canRead(cl) {
				oc, _ := cuts08(r, 1+r.IntN(400), v.rate)
				for _, n := range oc {
					c.read(cl, n)
				}
			}
		}
		// one-shot functions on the planned message
		c.oneShot(full)

		ops := ""
		for _, f := range []string{"sum-mid", "clone-mid", "reset-mid", "read-mid", "zero-read", "reset-after-read"} {
			if c.flags[f] {
				ops += "+" + f
			}
		}
		m.Count("histories_"+v.kind.String(), 1)
		if lc.name != "rand" {
			m.Count("boundary_length_histories", 1)
		}
		m.Distinct(fmt.Sprintf("%s len=%s chunks=%s ns=%s ops=%s out=%s", v.name, lc.name, style, nsClass, ops, outClass))
		if i%331 == 47 {
			m.Sample(map[string]any{"variant": v.name, "msg_len": msgLen, "chunks": chunks, "N_len": len(c.n), "S_len": len(c.s), "out_len": outN, "ops": len(c.log), "interleaved": ops})
		}
	})
	conc08(m)
	q := func(a, b int) int { return m.N(a, b) }
	m.Gate("histories_shake", q(1000, 40000), "SHAKE histories")
	m.Gate("histories_cshake", q(1000, 40000), "cSHAKE histories")
	m.Gate("histories_keccak", q(1000, 40000), "legacy Keccak histories")
	m.Gate("histories_sha3", q(1000, 40000), "SHA-3 histories")
	m.Gate("boundary_length_histories", q(3000, 120000), "message length scheduled at 0,1,k·rate±2")
	m.Gate("write_after_read_panics", q(2000, 80000), "documented Write-after-Read panic observed")
	m.Gate("sum_after_read_panics", q(1500, 60000), "documented Sum-after-Read panic observed")
	m.Gate("clone_after_read_checked", q(1200, 48000), "clone of a squeezing state continued and probed")
	m.Gate("squeezing_clone_sum_before_own_read", q(500, 20000), "Sum/Write on a clone of a squeezing state before the clone itself was read from")
	m.Gate("clones_diverged", q(2500, 100000), "clones written to independently and compared")
	m.Gate("resets_after_read", q(500, 20000), "Reset after Read followed by Sum+Write probe")
	m.Gate("cshake_empty_NS_equals_shake", q(50, 2000), "cSHAKE with empty N and S compared with SHAKE definition (and gcrypt SHAKE)")
	m.Gate("cshake_prefix_exactly_fills_block", q(50, 2000), "encode_string(N)||encode_string(S) with left_encode(rate) is a whole number of rate blocks (bytepad adds nothing)")
	m.Gate("read_crosses_rate_boundary", q(1000, 40000), "a Read spanning a permutation boundary")
	m.Gate("writes_via_scribbled_buffer", q(20000, 800000), "Writes fed through one reused buffer that is overwritten right after the call")
	m.Gate("cshake_ns_scribbled_histories", q(700, 28000), "cSHAKE histories whose caller-owned N/S slices were overwritten after the constructor and after every Clone/Reset")
	m.Gate("cshake_ns_scribbles", q(2000, 80000), "N/S overwrites performed")
	m.Gate("retained_slice_rechecks", q(200000, 8000000), "earlier Sum results / Read destinations re-compared with their snapshots after later calls")
	m.Gate("sum_prefix_no_spare", q(1500, 60000), "Sum(b) with non-empty b and no spare capacity, guard bytes around the backing array")
	m.Gate("sum_prefix_spare_fits", q(1500, 60000), "Sum(b) with spare capacity for the whole digest")
	m.Gate("sum_prefix_spare_short", q(1500, 60000), "Sum(b) with spare capacity smaller than the digest")
	m.Gate("read_sentinel_checks", q(20000, 800000), "Read destinations surrounded by sentinel bytes")
	m.Gate("sum_comparisons", q(10000, 400000), "Sum outputs compared with the reference")
	m.Gate("read_comparisons", q(5000, 200000), "Read outputs compared with the reference")
}

// oneShot checks the package-level Sum*/ShakeSum* helpers.
func (c *run08) oneShot(msg []byte) {
	var got []byte
	out := c.v.size
	switch c.v.name {
	case "sha3-224":
		a := sha3.Sum224(msg)
		got = a[:]
	case "sha3-256":
		a := sha3.Sum256(msg)
		got = a[:]
	case "sha3-384":
		a := sha3.Sum384(msg)
		got = a[:]
	case "sha3-512":
		a := sha3.Sum512(msg)
		got = a[:]
	case "shake128":
		out = c.r.IntN(400)
		got = make([]byte, out)
		sha3.ShakeSum128(got, msg)
	case "shake256":
		out = c.r.IntN(400)
		got = make([]byte, out)
		sha3.ShakeSum256(got, msg)
	default:
		return
	}
	c.m.Eval()
	c.ring.keep(got, c.v.name+":oneshot")
	c.m.Count("oneshot_comparisons", 1)
	w, ok := c.want(msg, out)
	if ok && !bytes.Equal(got, w) {
		c.m.Violation("wrong-oneshot:"+c.v.name, map[string]any{"msg": mon.FullHex(msg), "got": mon.Hex(got), "want": mon.Hex(w)})
	}
}

package kdf2

import (
	"bytes"
	"crypto/sha1"
	"crypto/sha256"
	"crypto/sha512"
	"encoding/hex"
	"fmt"
	"hash"
	"io"
	"math/rand/v2"
	"strings"
	"testing"

	"golang.org/x/crypto/hkdf"
	"golang.org/x/crypto/pbkdf2"
	"verif/ext"
	"verif/mon"
	"verif/ref/kdfref"
)

// C18: pbkdf2.Key and hkdf.Extract/Expand/New equal RFC 8018 / RFC 5869; any
// sequence of Reads on an HKDF reader yields successive bytes of the single
// RFC 5869 stream, exactly 255·HashLen bytes are available and a Read beyond
// the limit fails.

type c18Hash struct {
	name string // python hashlib / openssl digest name
	new  func() hash.Hash
	size int
	bs   int
}

var c18Hashes = []c18Hash{
	{"sha1", sha1.New, 20, 64},
	{"sha256", sha256.New, 32, 64},
	{"sha512", sha512.New, 64, 128},
}

func c18Input(r *rand.Rand, h c18Hash, allowNil bool) []byte {
	switch r.IntN(8) {
	case 0:
		if allowNil {
			return nil
		}
		return []byte{}
	case 1:
		return []byte{}
	case 2:
		return mon.Bytes(r, h.bs) // exactly one block (HMAC key boundary)
	case 3:
		return mon.Bytes(r, h.bs+1+r.IntN(80)) // longer than a block: HMAC hashes the key
	case 4:
		return mon.Bytes(r, h.bs-1)
	}
	return mon.Bytes(r, 1+r.IntN(100))
}

func opensslHKDF(h c18Hash, secret, salt, info []byte, n int) ([]byte, error) {
	args := []string{"kdf", "-keylen", fmt.Sprint(n), "-kdfopt", "digest:" + strings.ToUpper(h.name), "-kdfopt", "hexkey:" + hex.EncodeToString(secret)}
	if len(salt) > 0 {
		args = append(args, "-kdfopt", "hexsalt:"+hex.EncodeToString(salt))
	}
	if len(info) > 0 {
		args = append(args, "-kdfopt", "hexinfo:"+hex.EncodeToString(info))
	}
	args = append(args, "HKDF")
	out, _, err := ext.Run(nil, nil, "openssl", args...)
	if err != nil {
		return nil, err
	}
	b, err := hex.DecodeString(strings.ReplaceAll(strings.TrimSpace(out), ":", ""))
	if err != nil || len(b) != n {
		return nil, fmt.Errorf("openssl kdf: unparsable output")
	}
	return b, nil
}

// hkdfModel follows one reader against the reference stream.
type hkdfModel struct {
	m      *mon.M
	name   string
	r      io.Reader
	ref    []byte // the whole 255·HashLen stream
	c      int    // bytes consumed so far
	hLen   int
	wit    map[string]any
	trace  [][3]int // (n, k, err != nil) of the most recent reads
	buf    []byte
	failed bool
}

func (x *hkdfModel) traceString() string {
	var sb strings.Builder
	for _, t := range x.trace {
		e := "nil"
		if t[2] != 0 {
			e = "err"
		}
		fmt.Fprintf(&sb, "%d→%d,%s ", t[0], t[1], e)
	}
	return sb.String()
}

func (x *hkdfModel) viol(key string, extra map[string]any) {
	w := map[string]any{"reader": x.name, "last_reads(n→k,err)": x.traceString(), "consumed_before": x.c}
	for k, v := range x.wit {
		w[k] = v
	}
	for k, v := range extra {
		w[k] = v
	}
	x.m.Violation(key, w)
	x.failed = true
}

// read performs Read(n) and judges it. Returns false once the history is no
// longer worth continuing (model and reader have diverged).
func (x *hkdfModel) read(n int, nilBuf bool) bool {
	if x.failed {
		return false
	}
	m := x.m
	limit := len(x.ref)
	var p []byte
	if !(n == 0 && nilBuf) {
		if cap(x.buf) < n {
			x.buf = make([]byte, n)
		}
		p = x.buf[:n]
		for j := range p {
			p[j] = 0xA5
		}
	}
	k, err := x.r.Read(p)
	m.Eval()
	ei := 0
	if err != nil {
		ei = 1
	}
	if len(x.trace) >= 40 {
		x.trace = append(x.trace[:0], x.trace[10:]...)
	}
	x.trace = append(x.trace, [3]int{n, k, ei})
	if k < 0 || k > n {
		x.viol("hkdf-read-count-out-of-range", map[string]any{"n": n, "k": k})
		return false
	}
	// whatever was returned must be the next bytes of the one RFC stream
	if x.c+k > limit {
		x.viol("hkdf-output-beyond-255-blocks", map[string]any{"n": n, "k": k, "limit": limit})
		return false
	}
	if !bytes.Equal(p[:k], x.ref[x.c:x.c+k]) {
		d := 0
		for d < k && p[d] == x.ref[x.c+d] {
			d++
		}
		x.viol("hkdf-stream-mismatch", map[string]any{"n": n, "k": k, "first_bad_offset": x.c + d, "block(1-based)": (x.c+d)/x.hLen + 1, "got": mon.Hex(p[:k]), "want": mon.Hex(x.ref[x.c : x.c+k])})
		return false
	}
	if x.c%x.hLen != 0 && k > 0 {
		m.Count("reads_starting_inside_a_block", 1)
	}
	if k > 0 && (x.c+k-1)/x.hLen == 254 {
		m.Count("reads_touching_block_255", 1)
	}
	switch {
	case n == 0:
		m.Count("zero_length_reads", 1)
		if x.c == limit {
			m.Count("zero_length_reads_at_limit", 1)
		}
		if err != nil {
			x.viol("hkdf-zero-length-read-fails", map[string]any{"err": err.Error()})
			return false
		}
	case x.c+n <= limit: // enough output is left: the read must succeed
		if err != nil {
			x.viol("hkdf-read-within-limit-fails", map[string]any{"n": n, "k": k, "err": err.Error(), "limit": limit})
			return false
		}
		if k < n {
			m.Count("short_reads(allowed by io.Reader)", 1)
			if k == 0 {
				x.viol("hkdf-no-progress-read", map[string]any{"n": n})
				return false
			}
		}
		if x.c+k == limit {
			m.Count("reads_ending_exactly_at_limit", 1)
		}
	default: // the request exceeds what is left
		m.Count("over_limit_reads", 1)
		if x.c == limit {
			m.Count("reads_after_limit", 1)
		}
		if err == nil && (k == n || k == 0) {
			// k == n is excluded above by the beyond-limit check unless n fits; k == 0 with nil error is no failure report at all
			x.viol("hkdf-over-limit-read-does-not-fail", map[string]any{"n": n, "k": k, "remaining": limit - x.c})
			return false
		}
		if err == nil {
			m.Count("over_limit_short_read_without_error(allowed by io.Reader)", 1)
		} else if k > 0 {
			m.Count("over_limit_error_with_partial_data(allowed, prefix-consistent)", 1)
		} else {
			m.Count("over_limit_failed_nothing_consumed", 1)
		}
	}
	x.c += k
	return true
}

func TestC18(t *testing.T) {
	m := mon.New(t, "C18")
	defer m.Done()
	m.Rule("pbkdf2 cases: hash in {SHA-1, SHA-256, SHA-512} (by index), password/salt 0..~200 bytes incl. empty, exactly one HMAC block and longer than a block, iter 1..50, keyLen from {1, HashLen-1, HashLen, HashLen+1, 2·HashLen, 2·HashLen+1, 200} or random 1..200; output compared with the RFC 8018 reference (h/ref/kdfref, own HMAC) and, every 4th case, python hashlib.pbkdf2_hmac. hkdf histories: hash by index, secret/salt/info nil, empty, block-sized, over-block and random; Extract compared with the reference; two readers (hkdf.New and hkdf.Expand over hkdf.Extract's PRK) are driven in interleaved fashion through a read-size history of one of 6 shapes fixed by index (small reads then landing at limit−{0,1,2,HashLen∓1}; one read of exactly the limit; one read of limit+1 then the full limit; sum to limit−1 then 2,1,1,0; HashLen±1 reads across all 255 blocks; log-uniform sizes past the limit with retries), zero-length reads (empty and nil slices) sprinkled in; model state = bytes consumed c: a Read(n) with c+n ≤ 255·HashLen must return the reference bytes ref[c:c+n] with nil error, a Read that exceeds the rest must report an error (any bytes it still returns must be the next reference bytes and are counted as consumed; an io.Reader-style short read without error is tolerated but a full or empty read without error is not), nothing beyond 255·HashLen is ever returned, Read(0) returns (0,nil). All input slices are guarded copies (exact or spare capacity with a sentinel) that must be unchanged after the calls and after the read history; the last 8 PBKDF2 keys and PRKs are kept and re-verified after later calls." + concRule + " distinct = (hash, history shape, input shapes)")
	m.Assume("h/ref/kdfref (own HMAC per RFC 2104, PBKDF2 per RFC 8018 §5.2, HKDF per RFC 5869 §2) passes the RFC 2202/4231/6070/7914/5869 vectors; SHA-1/SHA-2 compression from the Go standard library is trusted (shared with the code under test), cross-checked by python hashlib (OpenSSL) for PBKDF2 and by `openssl kdf HKDF` for a sample of full HKDF streams")
	if mon.RaceBuild {
		// race variant: only the shared-value concurrency streams (the race detector costs 5-15x)
		concGates(m, c18Concurrent(m), true)
		return
	}
	py, pyErr := ext.StartPy()
	if pyErr != nil {
		m.Note("python witness unavailable: " + pyErr.Error())
	} else {
		defer py.Close()
	}

	// ---------- PBKDF2 ----------
	nP := m.N(1500, 40000)
	keptP := newRetained(m, "pbkdf2.Key", 8)
	keptH := newRetained(m, "hkdf.Extract", 8)
	m.Cases("pbkdf2", nP, func(i int64, r *rand.Rand) {
		h := c18Hashes[i%3]
		pw := c18Input(r, h, true)
		if r.IntN(10) == 0 {
			pw = mon.Bytes(r, 150+r.IntN(60))
		}
		salt := c18Input(r, h, true)
		iter := 1 + r.IntN(50)
		if i%10 == 0 {
			iter = 1
		}
		var kl int
		fixed := []int{1, h.size - 1, h.size, h.size + 1, 2 * h.size, 2*h.size + 1, 200}
		if (i/3)%2 == 0 {
			kl = fixed[(i/6)%int64(len(fixed))]
		} else {
			kl = 1 + r.IntN(200)
		}
		want := kdfref.PBKDF2(h.new, pw, salt, iter, kl)
		gpw, gsalt := newGbuf(pw, gbufSpare()), newGbuf(salt, gbufSpare())
		got := pbkdf2.Key(gpw.S(), gsalt.S(), iter, kl, h.new)
		keptP.add(got, fmt.Sprintf("pbkdf2 case %d", i))
		m.Eval()
		blocks := (kl + h.size - 1) / h.size
		m.Distinct(fmt.Sprintf("pbkdf2 %s blocks=%d tail=%v iter1=%v pw:%s salt:%s", h.name, blocks, kl%h.size != 0, iter == 1, c18LenClass(len(pw), h), c18LenClass(len(salt), h)))
		m.Count("pbkdf2_ref_comparisons", 1)
		if blocks > 1 {
			m.Count("pbkdf2_multi_block_outputs", 1)
		}
		if len(pw) > h.bs {
			m.Count("pbkdf2_password_longer_than_hmac_block", 1)
		}
		wit := map[string]any{"hash": h.name, "pw": mon.FullHex(pw), "salt": mon.FullHex(salt), "iter": iter, "keyLen": kl}
		if i < 3 {
			m.Sample(map[string]any{"pbkdf2": wit, "want": mon.Hex(want)})
		}
		if py != nil && i%4 == 0 {
			w, e := py.Bytes(map[string]any{"op": "pbkdf2", "hash": h.name, "pw": ext.Hx(pw), "salt": ext.Hx(salt), "iter": iter, "dklen": kl})
			if e == nil {
				m.Count("pbkdf2_python_comparisons", 1)
				if !bytes.Equal(w, want) {
					m.Inconclusive(fmt.Sprintf("oracle conflict ref vs python pbkdf2 at case %d", i))
					return
				}
			}
		}
		if !bytes.Equal(got, want) {
			wit["got"], wit["want"] = mon.Hex(got), mon.Hex(want)
			m.Violation("pbkdf2-wrong-key:"+h.name, wit)
		}
		checkInputs(m, "pbkdf2.Key", wit, map[string]*gbuf{"password": gpw, "salt": gsalt})
		keptP.recheck()
	})
	m.Gate("pbkdf2_ref_comparisons", nP, "every PBKDF2 case compared with the RFC 8018 reference")
	m.Gate("pbkdf2_multi_block_outputs", nP/4, "outputs spanning several PRF blocks (block index > 1), forced by the fixed keyLen list")

	// ---------- HKDF ----------
	nH := m.N(3000, 100000)
	shapes := []string{"small-then-land-near-limit", "one-read-of-limit", "limit+1-then-limit", "to-limit-1-then-2,1,1,0", "hashlen±1-across-all-blocks", "loguniform-past-limit"}
	m.Cases("hkdf", nH, func(i int64, r *rand.Rand) {
		h := c18Hashes[(i/6)%3]
		shape := int(i % 6)
		secret := c18Input(r, h, true)
		salt := c18Input(r, h, true)
		info := c18Input(r, h, true)
		if r.IntN(12) == 0 {
			info = mon.Bytes(r, 300)
		}
		limit := 255 * h.size
		wit := map[string]any{"hash": h.name, "secret": mon.FullHex(secret), "salt": mon.FullHex(salt), "info": mon.FullHex(info), "salt_nil": salt == nil, "info_nil": info == nil, "shape": shapes[shape]}

		prkWant := kdfref.HKDFExtract(h.new, secret, salt)
		gsec, gsalt, ginfo := newGbuf(secret, gbufSpare()), newGbuf(salt, gbufSpare()), newGbuf(info, gbufSpare())
		prkGot := hkdf.Extract(h.new, gsec.S(), gsalt.S())
		checkInputs(m, "hkdf.Extract", wit, map[string]*gbuf{"secret": gsec, "salt": gsalt})
		keptH.add(prkGot, fmt.Sprintf("hkdf case %d", i))
		m.Eval()
		m.Count("hkdf_extract_comparisons", 1)
		if !bytes.Equal(prkGot, prkWant) {
			wit["got"], wit["want"] = mon.Hex(prkGot), mon.Hex(prkWant)
			m.Violation("hkdf-extract-wrong-prk:"+h.name, wit)
			return
		}
		ref := kdfref.HKDFExpand(h.new, prkWant, info, limit)
		if i%25 == 7 {
			if w, err := opensslHKDF(h, secret, salt, info, limit); err == nil {
				m.Count("hkdf_openssl_full_stream_comparisons", 1)
				if !bytes.Equal(w, ref) {
					m.Inconclusive(fmt.Sprintf("oracle conflict ref vs openssl HKDF at case %d", i))
					return
				}
			} else {
				m.Count("hkdf_openssl_unavailable", 1)
			}
		}
		if i < 3 {
			m.Sample(map[string]any{"hkdf": wit, "prk": mon.Hex(prkWant), "stream_prefix": mon.Hex(ref[:40])})
		}
		m.Distinct(fmt.Sprintf("hkdf %s %s secret:%s salt:%s info:%s", h.name, shapes[shape], c18LenClass(len(secret), h), c18LenClass(len(salt), h), c18LenClass(len(info), h)))

		// two readers that must both follow the same stream, driven interleaved
		// the readers get guarded slices (the reader keeps a reference to info); the PRK handed to Expand is
		// a guarded copy of Extract's result
		gprk := newGbuf(prkGot, gbufSpare())
		ginfo2 := newGbuf(info, gbufSpare())
		a := &hkdfModel{m: m, name: "New", r: hkdf.New(h.new, gsec.S(), gsalt.S(), ginfo.S()), ref: ref, hLen: h.size, wit: wit}
		b := &hkdfModel{m: m, name: "Expand(Extract)", r: hkdf.Expand(h.new, gprk.S(), ginfo2.S()), ref: ref, hLen: h.size, wit: wit}
		checkInputs(m, "hkdf.New/Expand", wit, map[string]*gbuf{"secret": gsec, "salt": gsalt, "info(New)": ginfo, "pseudorandomKey": gprk, "info(Expand)": ginfo2})
		defer func() {
			// after the whole read history: inputs still untouched, earlier PRKs unchanged
			checkInputs(m, "hkdf.Reader.Read", wit, map[string]*gbuf{"secret": gsec, "salt": gsalt, "info(New)": ginfo, "pseudorandomKey": gprk, "info(Expand)": ginfo2})
			keptH.recheck()
		}()
		both := func(n int) bool {
			nb := r.IntN(2) == 0
			ok1 := a.read(n, nb)
			ok2 := b.read(n, nb)
			return ok1 && ok2
		}
		small := func() int {
			switch r.IntN(8) {
			case 0:
				return 0
			case 1:
				return 1
			case 2:
				return h.size - 1
			case 3:
				return h.size
			case 4:
				return h.size + 1
			case 5:
				return 2*h.size + 1
			}
			return r.IntN(3*h.size + 1)
		}
		switch shape {
		case 0:
			for k := 0; k < 10; k++ {
				if !both(small()) {
					return
				}
			}
			// only reader b is advanced a little more, so that the two readers sit at different offsets
			b.read(1+r.IntN(h.size), false)
			land := []int{0, 1, 2, h.size - 1, h.size, h.size + 1}[(i/18)%6]
			a.read(limit-land-a.c, false)
			b.read(limit-land-b.c, false)
			for k := 0; k < 6; k++ {
				both([]int{0, 1, 2, h.size - 1, h.size, h.size + 1, land, land + 1}[r.IntN(8)])
			}
			both(land + 1)
			if land > 0 {
				a.read(limit-a.c, false)
				b.read(limit-b.c, false)
			}
			both(1)
			both(0)
		case 1:
			both(limit)
			both(1)
			both(0)
			both(h.size)
		case 2:
			both(limit + 1)
			both(0)
			both(limit) // nothing was consumed (or only a prefix-consistent part): the rest is still there
			a.read(limit-a.c, false)
			b.read(limit-b.c, false)
			both(1)
		case 3:
			for a.c < limit-1-4*h.size {
				if !both(1 + r.IntN(4*h.size)) {
					return
				}
			}
			a.read(limit-1-a.c, false)
			b.read(limit-1-b.c, false)
			both(2)
			both(1)
			both(1)
			both(0)
		case 4:
			d := []int{h.size - 1, h.size + 1}[(i/18)%2]
			for a.c+d <= limit {
				if !both(d) {
					return
				}
			}
			both(d) // crosses the limit unless it landed exactly
			a.read(limit-a.c, false)
			b.read(limit-b.c, false)
			both(1)
		case 5:
			for k := 0; k < 60 && (a.c < limit || k < 10); k++ {
				n := mon.LogUniform(r, 0, limit/2)
				if !both(n) {
					return
				}
				if a.c+n > limit { // it failed: retry with what is left, then go past the end
					a.read(limit-a.c, false)
					b.read(limit-b.c, false)
					both(1 + r.IntN(100))
					both(0)
				}
			}
			a.read(limit-a.c, false) // make sure the end is reached whatever the sizes were
			b.read(limit-b.c, false)
			both(1)
		}
		if !a.failed && !b.failed {
			if a.c == limit && b.c == limit {
				m.Count("hkdf_histories_that_consumed_all_255_blocks", 1)
			}
			m.Count("hkdf_histories_completed", 1)
		}
	})
	concGates(m, c18Concurrent(m), true)
	m.Gate("input_immutability_checks", 2*nP+12*nH, "password/salt/secret/info/PRK slices (guarded copies, with and without spare capacity) compared with their snapshot after the calls and after the whole read history")
	m.Gate("input_immutability_checks_with_spare_capacity", nP+nH, "of which slices with cap > len whose spare capacity carries a sentinel")
	m.Gate("retained_outputs_rechecked", nP+nH, "keys/PRKs returned by earlier calls re-verified after later calls")
	m.Gate("hkdf_extract_comparisons", nH, "every history starts with an Extract comparison")
	m.Gate("hkdf_histories_completed", nH, "every history was followed to its end by the stream model")
	m.Gate("hkdf_histories_that_consumed_all_255_blocks", nH, "every history reads the stream up to exactly 255·HashLen on both readers")
	m.Gate("over_limit_reads", 2*nH, "reads that exceed the remaining output (each history issues several on both readers)")
	m.Gate("reads_after_limit", nH, "reads issued after the stream was exhausted")
	m.Gate("reads_ending_exactly_at_limit", nH, "reads that end exactly at 255·HashLen")
	m.Gate("reads_touching_block_255", nH, "reads returning bytes of the last block (counter 0xff)")
	m.Gate("zero_length_reads", nH/2, "zero-length reads")
	m.Gate("reads_starting_inside_a_block", nH, "reads that continue from a partially consumed block")
}

func c18LenClass(n int, h c18Hash) string {
	switch {
	case n == 0:
		return "0"
	case n < h.bs:
		return "<block"
	case n == h.bs:
		return "=block"
	}
	return ">block"
}

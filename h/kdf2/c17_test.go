package kdf2

import (
	"bytes"
	crand "crypto/rand"
	"errors"
	"fmt"
	"io"
	"math/rand/v2"
	"testing"
	"unicode/utf8"

	"golang.org/x/crypto/bcrypt"
	"verif/clib/nettlebcrypt"
	"verif/clib/xcryptbf"
	"verif/ext"
	"verif/mon"
	"verif/ref/bcryptref"
)

// C17: bcrypt hashes verify exactly the right passwords and interoperate;
// malformed hash strings give errors, never panics.

// c17Safety2a reports whether crypt_blowfish-derived implementations (libxcrypt,
// nettle) apply their "$2a$" collision countermeasure to this password: a
// non-benign sign extension happened but the sign-extended and the correct key
// expansions coincide. In that case their $2a$ output deliberately differs
// from the OpenBSD algorithm (their $2b$/$2y$ output does not), so $2a$
// comparisons with those witnesses are skipped. (Predicate validated against
// both libraries in a probe: it matched 71/71 divergences in 3000 passwords.)
func c17Safety2a(pw []byte) bool {
	key := append(append([]byte(nil), pw...), 0)
	pos := 0
	var diff uint32
	sign := false
	for i := 0; i < 18; i++ {
		var t0, t1 uint32
		for j := 0; j < 4; j++ {
			c := key[pos]
			t0 = t0<<8 | uint32(c)
			t1 = t1<<8 | uint32(int32(int8(c)))
			if j != 0 && c&0x80 != 0 {
				sign = true
			}
			pos = (pos + 1) % len(key)
		}
		diff |= t0 ^ t1
	}
	return sign && diff == 0
}

// c17Password draws a password of the given length in one of several styles.
func c17Password(r *rand.Rand, n int, style int) []byte {
	pw := make([]byte, n)
	switch style {
	case 0: // printable ASCII
		for i := range pw {
			pw[i] = byte(0x20 + r.IntN(95))
		}
	case 1: // valid UTF-8 with multi-byte runes (bytes >= 0x80), no NUL
		var b []byte
		for len(b) < n {
			var ru rune
			switch r.IntN(3) {
			case 0:
				ru = rune(0x21 + r.IntN(90))
			case 1:
				ru = rune(0x80 + r.IntN(0x700))
			default:
				ru = rune(0x800 + r.IntN(0x5000))
			}
			e := utf8.AppendRune(nil, ru)
			if len(b)+len(e) > n {
				e = []byte{byte(0x21 + r.IntN(90))}
			}
			b = append(b, e...)
		}
		pw = b
	case 2: // arbitrary non-NUL bytes, many >= 0x80 (sign-extension class), runs of 0xff
		for i := range pw {
			switch r.IntN(4) {
			case 0:
				pw[i] = 0xff
			case 1:
				pw[i] = byte(0x80 + r.IntN(128))
			default:
				pw[i] = byte(1 + r.IntN(255))
			}
		}
	default: // arbitrary bytes with NULs
		for i := range pw {
			if r.IntN(5) == 0 {
				pw[i] = 0
			} else {
				pw[i] = byte(r.IntN(256))
			}
		}
		if n > 0 && bytes.IndexByte(pw, 0) < 0 {
			pw[r.IntN(n)] = 0
		}
	}
	return pw
}

var c17Lens = []int{0, 1, 2, 3, 4, 5, 7, 8, 9, 15, 16, 17, 23, 24, 25, 35, 36, 37, 54, 55, 56, 57, 63, 64, 65, 69, 70, 71, 72}

func c17Len(i int64, r *rand.Rand) int {
	switch i % 6 {
	case 0:
		return 72
	case 1:
		return 71
	case 2:
		return c17Lens[(i/6)%int64(len(c17Lens))]
	}
	return r.IntN(73)
}

func c17Cost(i int64) int {
	switch i % 8 {
	case 6:
		return 5
	case 7:
		return 6
	}
	return 4
}

type c17Witnesses struct {
	m  *mon.M
	py *ext.Py
}

func with2b(h string) string { return "$2b" + h[3:] }

// verify asks every applicable witness whether hash h (60 chars, $2a/$2b/$2y)
// is the hash of pw. It returns the list of witnesses that REJECT and the
// number of witnesses asked. The reference comes first and always applies.
func (w *c17Witnesses) verify(h string, pw []byte) (rejecting []string, asked int) {
	m := w.m
	ok, err := bcryptref.Verify(h, pw)
	asked++
	m.Count("witness:ref", 1)
	if err != nil || !ok {
		rejecting = append(rejecting, "ref")
	}
	hasNUL := bytes.IndexByte(pw, 0) >= 0
	skip2a := h[2] == 'a' && c17Safety2a(pw)
	if skip2a {
		m.Count("crypt_blowfish_2a_countermeasure_cases(asked as $2b$ instead)", 1)
	}
	hw := h
	if skip2a {
		hw = with2b(h)
	}
	// nettle takes an explicit key length: NUL bytes are fine
	asked++
	m.Count("witness:nettle", 1)
	if hasNUL {
		m.Count("witness:nettle NUL-password", 1)
	}
	if !nettlebcrypt.Verify(pw, hw) {
		rejecting = append(rejecting, "nettle")
	}
	if !hasNUL {
		asked++
		m.Count("witness:libxcrypt", 1)
		if out, err := xcryptbf.Crypt(pw, hw); err != nil || out != hw {
			rejecting = append(rejecting, "libxcrypt")
		}
		if w.py != nil && utf8.Valid(pw) {
			if out, err := w.py.Str(map[string]any{"op": "crypt", "pw": string(pw), "setting": hw}); err == nil && out != "" {
				asked++
				m.Count("witness:python-crypt", 1)
				if out != hw {
					rejecting = append(rejecting, "python-crypt")
				}
			}
		}
	}
	return
}

type fixedReader struct{ b []byte }

func (f *fixedReader) Read(p []byte) (int, error) {
	n := copy(p, f.b)
	f.b = f.b[n:]
	if n == 0 {
		return 0, io.EOF
	}
	return n, nil
}

// c17Generate calls GenerateFromPassword with crypto/rand.Reader replaced by a
// reader that yields the given salt (deterministic, replayable cases).
func c17Generate(pw []byte, cost int, salt []byte) ([]byte, error) {
	old := crand.Reader
	crand.Reader = &fixedReader{append(append([]byte(nil), salt...), bytes.Repeat([]byte{0x5a}, 64)...)}
	defer func() { crand.Reader = old }()
	return bcrypt.GenerateFromPassword(pw, cost)
}

func c17Salt(r *rand.Rand) []byte {
	switch r.IntN(10) {
	case 0:
		return make([]byte, 16)
	case 1:
		return bytes.Repeat([]byte{0xff}, 16)
	}
	return mon.Bytes(r, 16)
}

func TestC17(t *testing.T) {
	m := mon.New(t, "C17")
	defer m.Done()
	m.Rule("roundtrip cases: password length forced by index (72, 71, a fixed boundary list 0..72, random 0..72), style by index (ASCII, multi-byte UTF-8, arbitrary non-NUL bytes with many >=0x80 and 0xff runs, bytes with NULs), cost 4 (5 and 6 for 1/8 each), salt through a replaced crypto/rand.Reader (zero, all-ones, random): GenerateFromPassword output must be $2a$-formatted, equal the reference hash for that salt, report its cost, verify under itself, under the reference and under every applicable witness (nettle: all passwords; libxcrypt crypt_r: NUL-free; python crypt: NUL-free valid UTF-8); then near-miss candidates (one byte changed at forced and random positions incl. 0, len-1, 71; shorter by one; one byte longer; +NUL; cyclic repetition pw‖NUL‖pw[:k]; byte→NUL; >72-byte extensions) must be accepted iff the 72-byte effective key (password‖NUL cut to 72 bytes, read cyclically) is the same — for candidates longer than 72 bytes only 'a different key is never accepted' is judged (undocumented). Passwords of 73..80 bytes must be refused by GenerateFromPassword with ErrPasswordTooLong. foreign cases: hash made by libxcrypt / nettle / reference under $2a$, $2b$, $2y$ must be accepted with the right password, rejected with a near miss, and Cost must return its cost. malformed cases: from a valid hash every proper prefix, one or two substitutions at every one of the 60 positions, appended bytes, and random strings: outcome table in c17Substitution (documented or format-forced errors are judged; older major version, unknown minor letter, non-canonical unused bits of the last salt/hash character, Cost on a 59-byte prefix are observed only); nothing may panic. Every call receives guarded private copies of its input slices (capacity exact, +1, +2, +16 with a sentinel in the spare part) that must be byte-identical afterwards; once per roundtrip/foreign case the same hashedPassword and password slices are used for right/wrong/right Compare and 3x Cost without restoring them; the last 8 returned hashes are kept and re-verified after later calls." + concRule)
	m.Assume("h/ref/bcryptref (Blowfish tables computed from π with math/big, EksBlowfish from the USENIX'99 paper) passes Eric Young's Blowfish vectors and the OpenBSD/Openwall bcrypt vectors; nettle and libxcrypt pass the same vectors in their clib unit tests; x/crypto/blowfish is not used by any oracle")
	m.Assume("crypt_blowfish-derived witnesses alter $2a$ hashes for passwords that trigger their sign-extension collision countermeasure; those passwords are presented to them under $2b$ (same algorithm, no countermeasure)")
	if mon.RaceBuild {
		// race variant: only the shared-value concurrency streams (the race detector costs 5-15x)
		concGates(m, c17Concurrent(m), false)
		return
	}
	py, pyErr := ext.StartPy()
	if pyErr != nil {
		m.Note("python witness unavailable: " + pyErr.Error())
		py = nil
	} else {
		defer py.Close()
		if out, err := py.Str(map[string]any{"op": "crypt", "pw": "U*U", "setting": "$2a$05$CCCCCCCCCCCCCCCCCCCCC."}); err != nil || out != "$2a$05$CCCCCCCCCCCCCCCCCCCCC.E5YPO9kmyuRGyh0XouQYb4YMJKvyOeW" {
			m.Note("python crypt does not support bcrypt here; witness disabled")
			py.Close()
			py = nil
		}
	}
	w := &c17Witnesses{m: m, py: py}

	// every call hands private, guarded copies of its inputs to the package (with and without spare
	// capacity) and checks afterwards that neither content nor spare capacity was written to
	cmp := func(h, pw []byte) (err error, pv any, site string) {
		gh, gp := newGbuf(h, gbufSpare()), newGbuf(pw, gbufSpare())
		var stack string
		pv, stack = mon.Panics(func() { err = bcrypt.CompareHashAndPassword(gh.S(), gp.S()) })
		if pv != nil {
			site = mon.PanicSite(stack)
		}
		checkInputs(m, "CompareHashAndPassword", map[string]any{"hashedPassword": string(h)}, map[string]*gbuf{"hashedPassword": gh, "password": gp})
		return
	}
	cost := func(h []byte) (c int, err error, pv any, site string) {
		gh := newGbuf(h, gbufSpare())
		var stack string
		pv, stack = mon.Panics(func() { c, err = bcrypt.Cost(gh.S()) })
		if pv != nil {
			site = mon.PanicSite(stack)
		}
		checkInputs(m, "Cost", map[string]any{"hashedPassword": string(h)}, map[string]*gbuf{"hashedPassword": gh})
		return
	}
	generate := func(pw []byte, c int, salt []byte) (hb []byte, err error) {
		gp := newGbuf(pw, gbufSpare())
		hb, err = c17Generate(gp.S(), c, salt)
		checkInputs(m, "GenerateFromPassword", map[string]any{"cost": c}, map[string]*gbuf{"password": gp})
		return
	}
	// repeatability: the SAME hashedPassword and password slices (never restored in between) are
	// presented right / wrong / right again, and Cost three times: verdicts must not depend on history
	repeatOnSameSlices := func(h string, pw []byte, c int, wit map[string]any) {
		spare := gbufSpare()
		gh, gp := newGbuf([]byte(h), spare), newGbuf(pw, gbufSpare())
		wrong := append([]byte(nil), pw...)
		if len(wrong) == 0 {
			wrong = []byte{1}
		} else {
			wrong[0] ^= 0x20
		}
		gw := newGbuf(wrong, gbufSpare())
		var verdicts []string
		var costs []string
		pv, stack := mon.Panics(func() {
			for k := 0; k < 3; k++ {
				cand := gp
				if k == 1 {
					cand = gw
				}
				e := bcrypt.CompareHashAndPassword(gh.S(), cand.S())
				verdicts = append(verdicts, fmt.Sprint(e))
				cc, ce := bcrypt.Cost(gh.S())
				costs = append(costs, fmt.Sprint(cc, ce))
				m.EvalN(2)
			}
		})
		m.Count("repeatability_triples_on_same_slice", 1)
		w := map[string]any{"verdicts(right,wrong,right)": verdicts, "costs": costs, "hash_slice_now": string(gh.full[:gh.n]), "hash_len": gh.n, "hash_cap": len(gh.full)}
		for k, v := range wit {
			w[k] = v
		}
		if pv != nil {
			w["panic"] = fmt.Sprint(pv)
			m.Violation("panic:compare:"+mon.PanicSite(stack), w)
			return
		}
		mis := bcrypt.ErrMismatchedHashAndPassword.Error()
		if verdicts[0] != "<nil>" || verdicts[1] != mis || verdicts[2] != "<nil>" {
			m.Violation("compare-verdict-depends-on-earlier-calls-on-same-slice", w)
		}
		want := fmt.Sprint(c, error(nil))
		if costs[0] != want || costs[1] != want || costs[2] != want {
			m.Violation("cost-depends-on-earlier-calls-on-same-slice", w)
		}
		checkInputs(m, "CompareHashAndPassword(x3)+Cost(x3)", wit, map[string]*gbuf{"hashedPassword": gh, "password": gp, "wrong_password": gw})
	}
	kept := newRetained(m, "GenerateFromPassword", 8)

	// judgeCandidate: CompareHashAndPassword(h, cand) against the effective-key oracle.
	judgeCandidate := func(h string, pw, cand []byte, kind string, wit map[string]any) {
		same := bcryptref.EffectiveKey(cand) == bcryptref.EffectiveKey(pw)
		err, pv, site := cmp([]byte(h), append([]byte(nil), cand...))
		m.Eval()
		m.Distinct(fmt.Sprintf("candidate %s len(pw)=%d same=%v", kind, len(pw), same))
		wc := map[string]any{"candidate": mon.FullHex(cand), "candidate_kind": kind, "same_effective_key": same}
		for k, v := range wit {
			wc[k] = v
		}
		if pv != nil {
			wc["panic"] = fmt.Sprint(pv)
			m.Violation("panic:compare:"+site, wc)
			return
		}
		// the reference must agree with the effective-key predicate, otherwise the oracle itself is in doubt
		if ok, rerr := bcryptref.Verify(h, cand); rerr != nil || ok != same {
			m.Inconclusive(fmt.Sprintf("reference hash and effective-key predicate disagree for candidate kind %s", kind))
			return
		}
		if same {
			m.Count("same_key_candidates", 1)
		} else {
			m.Count("different_key_candidates", 1)
		}
		if len(cand) > 72 {
			m.Count("candidates_longer_than_72", 1)
			if err == nil && !same {
				m.Violation("different-key-accepted:long-candidate:"+kind, wc)
			}
			if err != nil && same {
				m.Count("long_same_key_candidate_rejected(undocumented, not judged)", 1)
			}
			return
		}
		if same && err != nil {
			wc["err"] = err.Error()
			m.Violation("same-key-rejected:"+kind, wc)
		}
		if !same && err == nil {
			m.Violation("different-key-accepted:"+kind, wc)
		}
		if !same && err != nil && !errors.Is(err, bcrypt.ErrMismatchedHashAndPassword) {
			wc["err"] = err.Error()
			m.Violation("wrong-password-error-is-not-ErrMismatchedHashAndPassword", wc)
		}
	}

	nearMisses := func(i int64, r *rand.Rand, h string, pw []byte, wit map[string]any, budget int) {
		type cand struct {
			kind string
			b    []byte
		}
		var must, opt []cand // must: always run (the gates rely on them); opt: sampled down to the budget
		n := len(pw)
		flip := func(dst *[]cand, pos int, kind string) {
			if pos < 0 || pos >= n {
				return
			}
			c := append([]byte(nil), pw...)
			c[pos] ^= byte(1 << r.IntN(8))
			*dst = append(*dst, cand{kind, c})
			m.Count(fmt.Sprintf("flip_position_%02d", pos), 1)
		}
		// one candidate with a different key is always present
		if n > 0 {
			flip(&must, 0, "flip-first")
		} else {
			must = append(must, cand{"longer-by-one", []byte{byte(1 + r.IntN(255))}})
		}
		// cyclic repetition: pw‖NUL‖pw[:k] is a different byte string read as the same key stream
		k := 0
		if n > 0 {
			k = r.IntN(n + 1)
		}
		rep := append(append(append([]byte(nil), pw...), 0), pw[:k]...)
		must = append(must, cand{"cyclic-repetition", rep})
		// over the cases every position 0..71 is hit (i%6==0 cases have 72-byte passwords and i/6 walks the positions)
		flip(&must, int(i/6)%72, "flip-forced-pos")

		flip(&opt, n-1, "flip-last")
		if n > 0 {
			flip(&opt, r.IntN(n), "flip-random")
			opt = append(opt, cand{"shorter-by-one", append([]byte(nil), pw[:n-1]...)})
			c := append([]byte(nil), pw...)
			j := r.IntN(n)
			if c[j] != 0 {
				c[j] = 0
				opt = append(opt, cand{"byte-to-NUL", c})
			} else {
				c[j] = byte(1 + r.IntN(255))
				opt = append(opt, cand{"NUL-to-byte", c})
			}
			opt = append(opt, cand{"longer-by-one", append(append([]byte(nil), pw...), byte(1+r.IntN(255)))})
		}
		opt = append(opt, cand{"plus-NUL", append(append([]byte(nil), pw...), 0)})
		if k < n {
			bad := append(append([]byte(nil), rep...), pw[k]^0x01)
			opt = append(opt, cand{"cyclic-repetition-then-wrong-byte", bad})
		}
		opt = append(opt, cand{"pw-NUL-pw-NUL", append(append(append(append([]byte(nil), pw...), 0), pw...), 0)})
		if n >= 71 {
			opt = append(opt, cand{"extension-beyond-72", append(append([]byte(nil), pw...), mon.Bytes(r, 1+r.IntN(8))...)})
			opt = append(opt, cand{"flip-71-or-beyond", func() []byte {
				c := append(append([]byte(nil), pw...), mon.Bytes(r, 4)...)
				c[71+r.IntN(len(c)-71)] ^= 0x10
				return c
			}()})
		}
		for len(must)+len(opt) > budget && len(opt) > 0 {
			j := r.IntN(len(opt))
			opt = append(opt[:j], opt[j+1:]...)
		}
		cs := append(must, opt...)
		for _, c := range cs {
			judgeCandidate(h, pw, c.b, c.kind, wit)
		}
	}

	// ---------- roundtrip ----------
	nR := m.N(500, 16000)
	m.Cases("roundtrip", nR, func(i int64, r *rand.Rand) {
		n := c17Len(i, r)
		style := int((i / 2) % 4)
		pw := c17Password(r, n, style)
		if i%50 == 49 {
			pw = []byte("\xff\xff\xa3") // the classic crypt_blowfish $2a$ countermeasure password
		}
		c := c17Cost(i)
		salt := c17Salt(r)
		wit := map[string]any{"password": mon.FullHex(pw), "cost": c, "salt": mon.FullHex(salt)}
		hb, err := generate(pw, c, salt)
		m.Eval()
		m.Distinct(fmt.Sprintf("generate len=%d style=%d cost=%d", len(pw), style, c))
		if err != nil || len(hb) == 0 {
			wit["err"] = fmt.Sprint(err)
			m.Violation("generate-fails-for-password-of-at-most-72-bytes", wit)
			return
		}
		h := string(hb)
		wit["hash"] = h
		if i < 4 {
			m.Sample(wit)
		}
		m.Count(fmt.Sprintf("generated len=%d", min(len(pw), 72)/8*8), 1)
		if len(pw) == 72 {
			m.Count("generated_72_byte_passwords", 1)
		}
		if bytes.IndexByte(pw, 0) >= 0 {
			m.Count("generated_passwords_with_NUL", 1)
		}
		for _, b := range pw {
			if b >= 0x80 {
				m.Count("generated_passwords_with_high_bytes", 1)
				break
			}
		}
		want := bcryptref.Hash(pw, "2a", uint(c), salt)
		m.Count("generate_vs_reference", 1)
		if h != want {
			wit["want"] = want
			if p, perr := bcryptref.Parse(h); perr != nil {
				m.Violation("generated-hash-is-not-well-formed", wit)
			} else if !bytes.Equal(p.Salt, salt) {
				// the salt was not taken from the 16 bytes we supplied: the comparison by value is void,
				// fall back to verification under the hash's own salt
				m.Count("generate_used_other_salt_bytes", 1)
			} else {
				m.Violation("generated-hash-differs-from-reference", wit)
			}
		}
		if cc, cerr, pv, _ := cost(hb); pv != nil || cerr != nil || cc != c {
			wit["cost_returned"], wit["cost_err"] = cc, fmt.Sprint(cerr)
			m.Violation("cost-of-generated-hash-wrong", wit)
		}
		if e, pv, site := cmp(hb, pw); pv != nil {
			m.Violation("panic:compare:"+site, wit)
		} else if e != nil {
			wit["err"] = e.Error()
			m.Violation("self-roundtrip-fails", wit)
		}
		kept.add(hb, fmt.Sprintf("roundtrip case %d", i))
		repeatOnSameSlices(h, pw, c, wit)
		rej, asked := w.verify(h, pw)
		m.Count("generated_hash_witness_verifications", asked)
		if len(rej) > 0 {
			if len(rej) == asked {
				wit["rejected_by"] = rej
				m.Violation("generated-hash-rejected-by-all-witnesses", wit)
			} else if rej[0] != "ref" {
				// the reference accepts but a C witness does not: a witness peculiarity or a reference bug — not a verdict
				m.Inconclusive(fmt.Sprintf("witnesses disagree on a generated hash: rejected by %v of %d (case %d)", rej, asked, i))
			} else {
				m.Inconclusive(fmt.Sprintf("reference rejects a generated hash that other witnesses accept (case %d)", i))
			}
			return
		}
		nearMisses(i, r, h, pw, wit, m.N(7, 12))
		// results returned by earlier GenerateFromPassword calls must not have changed meanwhile
		kept.recheck()
		if string(hb) != h {
			m.Violation("output-changed-after-later-calls:GenerateFromPassword", map[string]any{"when_returned": h, "now": string(hb)})
		}
	})

	// ---------- > 72 bytes must be refused by Generate ----------
	nL := m.N(64, 640)
	m.Cases("too-long", nL, func(i int64, r *rand.Rand) {
		n := 73 + int(i%8)
		pw := c17Password(r, n, int(i/8)%4)
		var hb []byte
		var err error
		pv, stack := mon.Panics(func() { hb, err = generate(pw, 4, c17Salt(r)) })
		m.Eval()
		m.Distinct(fmt.Sprintf("too-long len=%d", n))
		m.Count("too_long_generate_calls", 1)
		wit := map[string]any{"password": mon.FullHex(pw), "len": n}
		if pv != nil {
			m.Violation("panic:generate:"+mon.PanicSite(stack), wit)
		} else if !errors.Is(err, bcrypt.ErrPasswordTooLong) || hb != nil {
			wit["err"], wit["hash"] = fmt.Sprint(err), string(hb)
			m.Violation("generate-accepts-password-longer-than-72-bytes", wit)
		}
	})

	// ---------- foreign hashes ----------
	nF := m.N(400, 12000)
	versions := []string{"2a", "2b", "2y"}
	m.Cases("foreign", nF, func(i int64, r *rand.Rand) {
		n := c17Len(i, r)
		style := int((i / 2) % 4)
		pw := c17Password(r, n, style)
		c := c17Cost(i)
		salt := c17Salt(r)
		ver := versions[(i/3)%3]
		hasNUL := bytes.IndexByte(pw, 0) >= 0
		want := bcryptref.Hash(pw, ver, uint(c), salt)
		setting := want[:29]
		// producer by index; fall back to the next applicable one
		var h, producer string
		tryProducers := []int{int(i % 3), int((i + 1) % 3), int((i + 2) % 3)}
		skip2a := ver == "2a" && c17Safety2a(pw)
		for _, p := range tryProducers {
			switch p {
			case 0: // libxcrypt
				if hasNUL || skip2a {
					continue
				}
				out, err := xcryptbf.Crypt(pw, setting)
				if err != nil {
					continue
				}
				h, producer = out, "libxcrypt"
			case 1: // nettle
				if skip2a {
					continue
				}
				out, err := nettlebcrypt.Hash(pw, "$"+ver+"$", c, salt)
				if err != nil {
					continue
				}
				h, producer = out, "nettle"
			case 2:
				h, producer = want, "ref"
			}
			if h != "" {
				break
			}
		}
		if skip2a {
			m.Count("crypt_blowfish_2a_countermeasure_cases(foreign: reference hash used)", 1)
		}
		wit := map[string]any{"password": mon.FullHex(pw), "cost": c, "salt": mon.FullHex(salt), "hash": h, "producer": producer, "version": ver}
		if h != want {
			m.Inconclusive(fmt.Sprintf("oracle conflict: %s hash differs from the reference hash (case %d, version %s)", producer, i, ver))
			return
		}
		if producer != "ref" && py != nil && !hasNUL && utf8.Valid(pw) && !skip2a && i%4 == 0 {
			if out, err := py.Str(map[string]any{"op": "crypt", "pw": string(pw), "setting": setting}); err == nil && out != "" {
				m.Count("foreign_python_crypt_agrees", 1)
				if out != want {
					m.Inconclusive(fmt.Sprintf("oracle conflict: python crypt differs from the reference (case %d)", i))
					return
				}
			}
		}
		m.Count("foreign:"+producer+":"+ver, 1)
		m.Count("foreign_hashes", 1)
		m.Distinct(fmt.Sprintf("foreign %s %s len=%d style=%d cost=%d", producer, ver, len(pw), style, c))
		if i < 3 {
			m.Sample(wit)
		}
		err, pv, site := cmp([]byte(h), append([]byte(nil), pw...))
		m.Eval()
		if pv != nil {
			m.Violation("panic:compare:"+site, wit)
			return
		}
		if err != nil {
			wit["err"] = err.Error()
			m.Violation("foreign-hash-rejected:$"+ver+"$", wit)
			return
		}
		if cc, cerr, pv, _ := cost([]byte(h)); pv != nil || cerr != nil || cc != c {
			wit["cost_returned"], wit["cost_err"] = cc, fmt.Sprint(cerr)
			m.Violation("cost-of-foreign-hash-wrong", wit)
		}
		repeatOnSameSlices(h, pw, c, wit)
		nearMisses(i, r, h, pw, wit, m.N(4, 8))
	})

	// ---------- malformed hashes ----------
	nM := m.N(96, 3000)
	m.Cases("malformed", nM, func(i int64, r *rand.Rand) {
		n := 1 + r.IntN(40)
		pw := c17Password(r, n, int(i%3))
		c := 4
		ver := versions[i%3]
		salt := mon.Bytes(r, 16)
		h := bcryptref.Hash(pw, ver, uint(c), salt)
		base := map[string]any{"password": mon.FullHex(pw), "valid_hash": h}
		if e, pv, _ := cmp([]byte(h), pw); pv != nil || e != nil {
			m.Violation("foreign-hash-rejected:$"+ver+"$", base)
			return
		}
		m.Distinct("malformed base " + ver)
		c17Malformed(m, r, i, h, pw, c, base, cmp, cost)
	})

	// cost below MinCost → DefaultCost (documented), above MaxCost → error (documented)
	m.Each("cost-argument", 4, func(i int64, r *rand.Rand) {
		pw := []byte("pw")
		switch i {
		case 0, 1:
			arg := []int{0, 3}[i]
			hb, err := generate(pw, arg, mon.Bytes(r, 16))
			m.Eval()
			m.Count("cost_below_min_calls", 1)
			if err != nil {
				m.Violation("generate-cost-below-min-fails", map[string]any{"cost": arg, "err": err.Error()})
				return
			}
			if cc, cerr := bcrypt.Cost(hb); cerr != nil || cc != bcrypt.DefaultCost {
				m.Violation("generate-cost-below-min-is-not-DefaultCost", map[string]any{"cost": arg, "got": cc})
			}
			if ok, _ := bcryptref.Verify(string(hb), pw); !ok {
				m.Violation("generated-hash-differs-from-reference", map[string]any{"cost": arg, "hash": string(hb)})
			}
		default:
			arg := []int{32, 100}[i-2]
			hb, err := generate(pw, arg, mon.Bytes(r, 16))
			m.Eval()
			m.Count("cost_above_max_calls", 1)
			if err == nil || hb != nil {
				m.Violation("generate-cost-above-max-accepted", map[string]any{"cost": arg})
			}
		}
	})

	concGates(m, c17Concurrent(m), false)
	m.Gate("repeatability_triples_on_same_slice", nR+nF, "right/wrong/right Compare and 3x Cost on the same slices, once per roundtrip and per foreign case")
	m.Gate("input_immutability_checks", 10*nR, "input slices compared with their snapshot after the call")
	m.Gate("input_immutability_checks_with_spare_capacity", 5*nR, "of which slices with cap > len whose spare capacity carries a sentinel")
	m.Gate("retained_outputs_rechecked", nR, "hashes returned by earlier GenerateFromPassword calls re-verified after later calls")
	m.Gate("generate_vs_reference", nR, "every generated hash compared with the reference hash")
	m.Gate("generated_72_byte_passwords", nR/6, "72-byte passwords (length forced by index)")
	m.Gate("generated_passwords_with_NUL", nR/8, "passwords containing NUL (style forced by index)")
	m.Gate("generated_passwords_with_high_bytes", nR/4, "passwords containing bytes >= 0x80 (styles forced by index)")
	m.Gate("witness:nettle", nR, "nettle asked about every generated hash")
	m.Gate("witness:libxcrypt", nR/2, "libxcrypt asked about every NUL-free generated hash")
	m.Gate("different_key_candidates", nR, "near-miss candidates with a different effective key (at least one per roundtrip case by construction)")
	m.Gate("same_key_candidates", nR, "candidates that are a different byte string with the same effective key (cyclic repetition, one per case by construction)")
	m.Gate("too_long_generate_calls", nL, "GenerateFromPassword called with 73..80 bytes")
	m.Gate("foreign_hashes", nF, "foreign hashes presented to CompareHashAndPassword")
	m.Gate("malformed:truncations", 60*nM, "every proper prefix of a valid hash")
	m.Gate("malformed:substitutions", 60*nM, "at least one substitution at every position of a valid hash")
	m.Gate("malformed:random_strings", 4*nM, "random strings as hashes")
}

package kdf2

import (
	"fmt"
	"hash"
	"runtime"
	"sync"
	"sync/atomic"

	"verif/mon"
)

// Shared-value concurrency harness (C15, C17, C18): several goroutines call
// package-level functions at once — with identical arguments taken from the
// same read-only slices ("shared") and with different arguments / distinct
// reader objects ("distinct"). Every expected result is computed beforehand,
// single-threaded, from the independent reference; goroutines meet at a
// barrier, results are judged after the join. Interleavings are chosen by the
// Go scheduler; overlap is observed with an in-flight counter, not assumed.

var (
	concInflight atomic.Int32
	concOverlaps atomic.Int64 // observations of >= 2 calls in flight
)

func concObserve() {
	if concInflight.Load() >= 2 {
		concOverlaps.Add(1)
	}
}

// yieldHash wraps a hash so that Write is a legal suspension point.
type yieldHash struct{ hash.Hash }

func (y *yieldHash) Write(p []byte) (int, error) {
	concObserve()
	runtime.Gosched()
	return y.Hash.Write(p)
}

func yielding(h func() hash.Hash) func() hash.Hash {
	return func() hash.Hash { return &yieldHash{h()} }
}

type concCall struct {
	api  string // e.g. "argon2.IDKey"
	mode string // "shared" | "distinct"
	what string // "key", "verdict", "cost", "stream", "prk", "hash"
	run  func() string
	want string
	wit  map[string]any
}

// concPass runs lists[g] on goroutine g, all at once, and judges after join.
// It returns whether at least two calls were seen in flight together.
func concPass(m *mon.M, pass string, lists [][]concCall) bool {
	G := len(lists)
	got := make([][]string, G)
	var ready atomic.Int32
	start := make(chan struct{})
	var wg sync.WaitGroup
	before := concOverlaps.Load()
	for g := 0; g < G; g++ {
		got[g] = make([]string, len(lists[g]))
		wg.Add(1)
		go func(g int) {
			defer wg.Done()
			ready.Add(1)
			<-start
			for k, c := range lists[g] {
				func() {
					defer func() {
						if v := recover(); v != nil {
							got[g][k] = fmt.Sprintf("panic: %v", v)
						}
						concObserve()
						concInflight.Add(-1)
					}()
					if concInflight.Add(1) >= 2 {
						concOverlaps.Add(1)
					}
					got[g][k] = c.run()
				}()
			}
		}(g)
	}
	for ready.Load() < int32(G) {
		runtime.Gosched()
	}
	close(start)
	wg.Wait()
	for g := range lists {
		for k, c := range lists[g] {
			m.Eval()
			m.Count("concurrent_calls", 1)
			m.Count("concurrent_calls:"+c.mode+":"+c.api, 1)
			if got[g][k] != c.want {
				w := map[string]any{"api": c.api, "mode": c.mode, "pass": pass, "goroutines": G, "goroutine": g, "call": k, "got": got[g][k], "want(single-threaded reference)": c.want}
				for kk, v := range c.wit {
					w[kk] = v
				}
				m.Violation(fmt.Sprintf("concurrent-%s-differs:%s:%s", c.what, c.mode, c.api), w)
			}
		}
	}
	return concOverlaps.Load() > before
}

// concRound runs the same call lists twice: on the process's GOMAXPROCS and
// under GOMAXPROCS(1) (sync.Pool is per-P: that is where pool slips collide;
// with one P goroutines interleave only at suspension points).
func concRound(m *mon.M, lists [][]concCall) {
	m.Count("concurrent_rounds", 1)
	if concPass(m, "multi-P", lists) {
		m.Count("concurrent_rounds_with_overlap:multi-P", 1)
	}
	prev := runtime.GOMAXPROCS(1)
	ov := concPass(m, "GOMAXPROCS(1)", lists)
	runtime.GOMAXPROCS(prev)
	if ov {
		m.Count("concurrent_rounds_with_overlap:GOMAXPROCS(1)", 1)
	}
}

package kdf2

import (
	"bytes"
	"fmt"
	"sync/atomic"

	"verif/mon"
)

// Input-immutability and output-retention monitors shared by C15, C17, C18.
//
// gbuf is a private copy of an input slice handed to the code under test,
// optionally followed by spare capacity (cap > len) that is pre-filled with a
// sentinel: an append on the callee's side that forgets to limit the capacity
// writes into the caller's memory and shows up there.

const gbufSentinel = 0xC3

type gbuf struct {
	full  []byte
	n     int
	snap  []byte
	isNil bool
}

var gbufCtr atomic.Int64

// gbufSpare cycles through the capacity shapes: exact, +2, +16, +1.
func gbufSpare() int { return []int{0, 2, 16, 1}[gbufCtr.Add(1)%4] }

func newGbuf(b []byte, spare int) *gbuf {
	if b == nil {
		return &gbuf{isNil: true}
	}
	full := make([]byte, len(b)+spare)
	copy(full, b)
	for i := len(b); i < len(full); i++ {
		full[i] = gbufSentinel
	}
	return &gbuf{full: full, n: len(b), snap: append([]byte{}, b...)}
}

// S is the slice to pass to the code under test (len n, cap n+spare).
func (g *gbuf) S() []byte {
	if g.isNil {
		return nil
	}
	return g.full[:g.n]
}

// Changed returns "" if content and spare capacity are untouched.
func (g *gbuf) Changed() string {
	if g.isNil {
		return ""
	}
	if !bytes.Equal(g.full[:g.n], g.snap) {
		return "content"
	}
	for _, c := range g.full[g.n:] {
		if c != gbufSentinel {
			return "spare-capacity"
		}
	}
	return ""
}

// checkInputs judges a set of named guarded inputs after a call to api.
func checkInputs(m *mon.M, api string, wit map[string]any, in map[string]*gbuf) bool {
	ok := true
	for name, g := range in {
		m.Count("input_immutability_checks", 1)
		if !g.isNil && len(g.full) > g.n {
			m.Count("input_immutability_checks_with_spare_capacity", 1)
		}
		if what := g.Changed(); what != "" {
			ok = false
			w := map[string]any{"api": api, "input": name, "what_changed": what, "before": mon.FullHex(g.snap), "after_incl_spare": mon.FullHex(g.full), "len": g.n, "cap": len(g.full)}
			for k, v := range wit {
				w[k] = v
			}
			m.Violation(fmt.Sprintf("input-modified:%s:%s:%s", api, name, what), w)
		}
	}
	return ok
}

// retained remembers results returned earlier (the very slices the API handed
// out) together with a snapshot; a pooled or aliased result buffer would be
// changed by later calls.
type retained struct {
	m    *mon.M
	api  string
	ring []retainedEntry
	next int
}

type retainedEntry struct {
	got  []byte
	snap []byte
	desc string
}

func newRetained(m *mon.M, api string, size int) *retained {
	return &retained{m: m, api: api, ring: make([]retainedEntry, 0, size)}
}

func (r *retained) add(got []byte, desc string) {
	e := retainedEntry{got: got, snap: append([]byte(nil), got...), desc: desc}
	if len(r.ring) < cap(r.ring) {
		r.ring = append(r.ring, e)
		return
	}
	r.ring[r.next] = e
	r.next = (r.next + 1) % len(r.ring)
}

// recheck verifies every remembered result against its snapshot.
func (r *retained) recheck() {
	for _, e := range r.ring {
		r.m.Count("retained_outputs_rechecked", 1)
		if !bytes.Equal(e.got, e.snap) {
			r.m.Violation("output-changed-after-later-calls:"+r.api, map[string]any{"result_of": e.desc, "when_returned": mon.Hex(e.snap), "now": mon.Hex(e.got)})
		}
	}
}

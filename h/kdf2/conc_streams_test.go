package kdf2

import (
	"bytes"
	"fmt"
	"io"
	"math/rand/v2"

	"golang.org/x/crypto/argon2"
	"golang.org/x/crypto/bcrypt"
	"golang.org/x/crypto/hkdf"
	"golang.org/x/crypto/pbkdf2"
	"verif/mon"
	"verif/ref/argon2ref"
	"verif/ref/bcryptref"
	"verif/ref/kdfref"
)

const concRule = " Shared-value concurrency streams: per round 4..8 goroutines meet at a barrier and call the package-level functions at once, (shared) with identical arguments read from the same password/salt/hash slices and (distinct) with per-goroutine arguments and per-goroutine reader objects; every expected value is precomputed single-threaded from the reference and compared after the join; each round is run on the process's GOMAXPROCS and again under GOMAXPROCS(1); hash constructors handed to pbkdf2/hkdf yield (runtime.Gosched) in Write; overlap is observed with an in-flight counter; under the race variant the Go race detector watches the same streams. Interleavings are scheduler-chosen, not enumerated."

func concGates(m *mon.M, rounds int, gomaxprocs1Guaranteed bool) {
	m.Gate("concurrent_rounds", rounds, "shared-value concurrency rounds run")
	m.Gate("concurrent_rounds_with_overlap:multi-P", rounds/2, "rounds in which at least two calls were observed in flight together (in-flight counter)")
	if gomaxprocs1Guaranteed {
		m.Gate("concurrent_rounds_with_overlap:GOMAXPROCS(1)", rounds/2, "rounds under GOMAXPROCS(1) in which calls interleaved at a suspension point inside the call")
	}
}

// ---------- C15 ----------

func c15Concurrent(m *mon.M, purego bool) int {
	nC := m.N(12, 160)
	kls := []uint32{16, 32, 33, 64, 65, 97, 128}
	m.Cases("concurrent", nC, func(i int64, r *rand.Rand) {
		if !purego {
			argon2.VerifSetSSE4(i%4 < 2)
		}
		type par struct {
			id       bool
			pw, salt []byte
			t, mem   uint32
			p        uint8
			kl       uint32
		}
		draw := func() par {
			p := []uint8{1, 2, 3, 4}[r.IntN(4)]
			return par{id: r.IntN(2) == 0, pw: mon.Bytes(r, r.IntN(40)), salt: mon.Bytes(r, 8+r.IntN(24)), t: uint32(1 + r.IntN(2)),
				mem: uint32(1 + r.IntN(96)), p: p, kl: kls[r.IntN(len(kls))]}
		}
		mk := func(q par, mode string) concCall {
			y, fn, api := argon2ref.Argon2i, argon2.Key, "argon2.Key"
			if q.id {
				y, fn, api = argon2ref.Argon2id, argon2.IDKey, "argon2.IDKey"
			}
			unit := 4 * uint32(q.p)
			blocks := q.mem / unit * unit
			if blocks < 2*unit {
				blocks = 2 * unit
			}
			want := mon.FullHex(argon2ref.Hash(y, q.pw, q.salt, nil, nil, q.t, q.mem, blocks, uint32(q.p), int(q.kl)))
			return concCall{api: api, mode: mode, what: "key", want: want,
				run: func() string { return mon.FullHex(fn(q.pw, q.salt, q.t, q.mem, q.p, q.kl)) },
				wit: map[string]any{"pw": mon.FullHex(q.pw), "salt": mon.FullHex(q.salt), "time": q.t, "memory": q.mem, "threads": q.p, "keyLen": q.kl}}
		}
		G := 4 + r.IntN(5)
		sharedA, sharedB := draw(), draw()
		sharedB.id = !sharedA.id
		sa, sb := mk(sharedA, "shared"), mk(sharedB, "shared")
		lists := make([][]concCall, G)
		for g := range lists {
			lists[g] = []concCall{sa, mk(draw(), "distinct"), sb, sa}
		}
		concRound(m, lists)
		m.Distinct(fmt.Sprintf("concurrent G=%d sse4=%v", G, i%4 < 2))
	})
	if !purego {
		argon2.VerifSetSSE4(true)
	}
	return nC
}

// ---------- C17 ----------

func c17Concurrent(m *mon.M) int {
	nC := m.N(12, 160)
	versions := []string{"2a", "2b", "2y"}
	mis := bcrypt.ErrMismatchedHashAndPassword.Error()
	m.Cases("concurrent", nC, func(i int64, r *rand.Rand) {
		type pair struct {
			h         []byte
			pw, wrong []byte
		}
		draw := func() pair {
			pw := c17Password(r, 1+r.IntN(72), r.IntN(4))
			wrong := append([]byte(nil), pw...)
			wrong[r.IntN(len(wrong))] ^= 0x04
			return pair{h: []byte(bcryptref.Hash(pw, versions[r.IntN(3)], 4, mon.Bytes(r, 16))), pw: pw, wrong: wrong}
		}
		calls := func(q pair, mode string) []concCall {
			wit := map[string]any{"hashedPassword": string(q.h), "password": mon.FullHex(q.pw)}
			return []concCall{
				{api: "bcrypt.CompareHashAndPassword", mode: mode, what: "verdict", want: "<nil>", wit: wit,
					run: func() string { return fmt.Sprint(bcrypt.CompareHashAndPassword(q.h, q.pw)) }},
				{api: "bcrypt.Cost", mode: mode, what: "cost", want: "4 <nil>", wit: wit,
					run: func() string { c, e := bcrypt.Cost(q.h); return fmt.Sprint(c, e) }},
				{api: "bcrypt.CompareHashAndPassword", mode: mode, what: "verdict", want: mis, wit: wit,
					run: func() string { return fmt.Sprint(bcrypt.CompareHashAndPassword(q.h, q.wrong)) }},
				{api: "bcrypt.CompareHashAndPassword", mode: mode, what: "verdict", want: "<nil>", wit: wit,
					run: func() string { return fmt.Sprint(bcrypt.CompareHashAndPassword(q.h, q.pw)) }},
			}
		}
		gen := func(pw []byte, mode string) concCall {
			return concCall{api: "bcrypt.GenerateFromPassword", mode: mode, what: "hash", want: "valid hash of the password, cost 4", wit: map[string]any{"password": mon.FullHex(pw)},
				run: func() string {
					hb, err := bcrypt.GenerateFromPassword(pw, 4)
					if err != nil {
						return "error: " + err.Error()
					}
					ok, verr := bcryptref.Verify(string(hb), pw)
					if verr != nil || !ok || string(hb[:7]) != "$2a$04$" {
						return "hash not verified by the reference: " + string(hb)
					}
					return "valid hash of the password, cost 4"
				}}
		}
		G := 4 + r.IntN(5)
		shared := draw()
		sc := calls(shared, "shared")
		sg := gen(shared.pw, "shared")
		lists := make([][]concCall, G)
		for g := range lists {
			d := draw()
			l := append([]concCall{}, sc...)
			l = append(l, calls(d, "distinct")...)
			l = append(l, sg, gen(d.pw, "distinct"), sc[0])
			// different goroutines start at different places of the list
			k := g % len(l)
			lists[g] = append(append([]concCall{}, l[k:]...), l[:k]...)
		}
		snap := append([]byte(nil), shared.h...)
		concRound(m, lists)
		if !bytes.Equal(snap, shared.h) {
			m.Violation("input-modified:CompareHashAndPassword:hashedPassword:content", map[string]any{"before": string(snap), "after": string(shared.h), "stream": "concurrent"})
		}
		m.Distinct(fmt.Sprintf("concurrent G=%d", G))
	})
	return nC
}

// ---------- C18 ----------

func c18Concurrent(m *mon.M) int {
	nC := m.N(24, 400)
	m.Cases("concurrent", nC, func(i int64, r *rand.Rand) {
		h := c18Hashes[i%3]
		yh := yielding(h.new)
		limit := 255 * h.size
		pbk := func(mode string, pw, salt []byte, iter, kl int) concCall {
			return concCall{api: "pbkdf2.Key", mode: mode, what: "key", want: mon.FullHex(kdfref.PBKDF2(h.new, pw, salt, iter, kl)),
				run: func() string { return mon.FullHex(pbkdf2.Key(pw, salt, iter, kl, yh)) },
				wit: map[string]any{"hash": h.name, "pw": mon.FullHex(pw), "salt": mon.FullHex(salt), "iter": iter, "keyLen": kl}}
		}
		ext := func(mode string, secret, salt []byte) concCall {
			return concCall{api: "hkdf.Extract", mode: mode, what: "prk", want: mon.FullHex(kdfref.HKDFExtract(h.new, secret, salt)),
				run: func() string { return mon.FullHex(hkdf.Extract(yh, secret, salt)) },
				wit: map[string]any{"hash": h.name, "secret": mon.FullHex(secret), "salt": mon.FullHex(salt)}}
		}
		// rd: a reader object of its own per call (inputs may be shared slices), read in the given chunk sizes;
		// toLimit: afterwards read on to exactly 255·HashLen and require one more byte to fail
		rd := func(mode string, useNew bool, secret, salt, info []byte, chunks []int, toLimit bool) concCall {
			prk := kdfref.HKDFExtract(h.new, secret, salt)
			stream := kdfref.HKDFExpand(h.new, prk, info, limit)
			total := 0
			for _, c := range chunks {
				total += c
			}
			want := mon.FullHex(stream[:total])
			if toLimit {
				want = mon.FullHex(stream) + "|then-error"
			}
			api := "hkdf.Expand.Read"
			if useNew {
				api = "hkdf.New.Read"
			}
			return concCall{api: api, mode: mode, what: "stream", want: want,
				wit: map[string]any{"hash": h.name, "secret": mon.FullHex(secret), "salt": mon.FullHex(salt), "info": mon.FullHex(info), "chunks": fmt.Sprint(chunks), "to_limit": toLimit},
				run: func() string {
					var rr io.Reader
					if useNew {
						rr = hkdf.New(yh, secret, salt, info)
					} else {
						rr = hkdf.Expand(yh, prk, info)
					}
					var out []byte
					for _, c := range chunks {
						b := make([]byte, c)
						n, err := rr.Read(b)
						out = append(out, b[:n]...)
						if err != nil || n != c {
							return mon.FullHex(out) + fmt.Sprintf("|read(%d)=%d,%v", c, n, err)
						}
					}
					if !toLimit {
						return mon.FullHex(out)
					}
					b := make([]byte, limit-len(out))
					n, err := rr.Read(b)
					out = append(out, b[:n]...)
					if err != nil || n != len(b) {
						return mon.FullHex(out) + fmt.Sprintf("|read(%d)=%d,%v", len(b), n, err)
					}
					if n, err := rr.Read(make([]byte, 1)); err == nil || n != 0 {
						return mon.FullHex(out) + fmt.Sprintf("|read-after-limit=%d,%v", n, err)
					}
					return mon.FullHex(out) + "|then-error"
				}}
		}
		chunks := func() []int {
			k := 2 + r.IntN(6)
			c := make([]int, k)
			for j := range c {
				c[j] = []int{0, 1, h.size - 1, h.size, h.size + 1, 1 + r.IntN(3*h.size)}[r.IntN(6)]
			}
			return c
		}
		G := 4 + r.IntN(5)
		sPw, sSalt, sSecret, sInfo := c18Input(r, h, true), c18Input(r, h, true), c18Input(r, h, true), c18Input(r, h, true)
		sIter, sKl := 1+r.IntN(12), 1+r.IntN(3*h.size)
		snaps := [][]byte{append([]byte(nil), sPw...), append([]byte(nil), sSalt...), append([]byte(nil), sSecret...), append([]byte(nil), sInfo...)}
		sp := pbk("shared", sPw, sSalt, sIter, sKl)
		se := ext("shared", sSecret, sSalt)
		lists := make([][]concCall, G)
		for g := range lists {
			l := []concCall{
				sp, se,
				rd("shared", true, sSecret, sSalt, sInfo, chunks(), g == 0), // shared input slices, reader object per goroutine
				pbk("distinct", c18Input(r, h, true), c18Input(r, h, true), 1+r.IntN(12), 1+r.IntN(3*h.size)),
				ext("distinct", c18Input(r, h, true), c18Input(r, h, true)),
				rd("distinct", g%2 == 0, c18Input(r, h, true), c18Input(r, h, true), c18Input(r, h, true), chunks(), g == 1),
				sp,
			}
			k := g % len(l)
			lists[g] = append(append([]concCall{}, l[k:]...), l[:k]...)
		}
		concRound(m, lists)
		for j, cur := range [][]byte{sPw, sSalt, sSecret, sInfo} {
			if !bytes.Equal(cur, snaps[j]) {
				m.Violation("input-modified:concurrent:shared-slice", map[string]any{"which": []string{"password", "salt", "secret", "info"}[j], "before": mon.FullHex(snaps[j]), "after": mon.FullHex(cur)})
			}
		}
		m.Distinct(fmt.Sprintf("concurrent %s G=%d", h.name, G))
	})
	return nC
}

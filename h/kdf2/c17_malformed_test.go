package kdf2

import (
	"fmt"
	"math/rand/v2"

	"verif/mon"
	"verif/ref/bcryptref"
)

type c17CmpFn func(h, pw []byte) (err error, pv any, site string)
type c17CostFn func(h []byte) (c int, err error, pv any, site string)

type c17Expect int

const (
	expMustErr c17Expect = iota // every reading of the property demands an error
	expMustOK                   // a well-formed hash of this password: must be accepted / cost returned
	expObserve                  // under-determined: recorded, not judged
	expSkip                     // not called (would run for minutes: cost > 7)
)

// c17Substitution is the outcome table for replacing the character at pos of
// a valid 60-character hash "$2v$NN$" + salt22 + hash31 (cost field "04") by
// c ≠ original. It returns what CompareHashAndPassword(…, right password) and
// Cost must do, the cost Cost must report when it succeeds (-1: not judged),
// and a class name used in violation keys and counters.
//
//	pos 0      '$'         anything else: error (documented: InvalidHashPrefixError)
//	pos 1      major '2'   > '2': error (documented: HashVersionTooNewError); < '2': observed
//	                       (the documentation only speaks of "newer" versions)
//	pos 2      minor       'a','b','y': still a well-formed hash of the same password (same algorithm) → accepted;
//	                       '$': shifts the fields, the cost field becomes "$0" → error; others: observed
//	pos 3, 6   separators  anything but '$' is not a bcrypt hash under any reading → error
//	pos 4, 5   cost "04"   not two decimal digits → error; digits outside 4..31 → error (documented: InvalidCostError);
//	                       another valid cost → Cost returns it, Compare must reject (only run up to cost 7)
//	pos 7..27  salt        outside the alphabet → error; other alphabet character → other salt → error
//	pos 28     salt tail   only the top 2 bits of the last salt character are used: same top bits → observed, else error
//	pos 29..58 hash        any change → error
//	pos 59     hash tail   only the top 4 bits are used: same top bits → observed, else error
func c17Substitution(h string, pos int, c byte) (cmpExp, costExp c17Expect, costVal int, class string) {
	orig := h[pos]
	inAlpha := bcryptref.B64Index(c) >= 0
	switch {
	case pos == 0:
		return expMustErr, expMustErr, -1, "prefix-not-dollar"
	case pos == 1:
		if c > '2' {
			return expMustErr, expMustErr, -1, "major-version-newer"
		}
		return expObserve, expObserve, -1, "major-version-older"
	case pos == 2:
		switch c {
		case 'a', 'b', 'y':
			return expMustOK, expMustOK, 4, "other-known-minor-version"
		case '$':
			return expMustErr, expMustErr, -1, "minor-version-dollar"
		}
		return expObserve, expObserve, -1, "unknown-minor-version"
	case pos == 3 || pos == 6:
		return expMustErr, expMustErr, -1, "separator-not-dollar"
	case pos == 4 || pos == 5:
		f := []byte(h[4:6])
		f[pos-4] = c
		if f[0] < '0' || f[0] > '9' || f[1] < '0' || f[1] > '9' {
			return expMustErr, expMustErr, -1, "cost-field-not-two-digits"
		}
		v := int(f[0]-'0')*10 + int(f[1]-'0')
		if v < 4 || v > 31 {
			return expMustErr, expMustErr, -1, "cost-out-of-range"
		}
		if v > 7 {
			return expSkip, expMustOK, v, "other-valid-cost"
		}
		return expMustErr, expMustOK, v, "other-valid-cost"
	case pos < 28:
		if !inAlpha {
			return expMustErr, expObserve, 4, "salt-char-outside-alphabet"
		}
		return expMustErr, expObserve, 4, "other-salt"
	case pos == 28:
		if !inAlpha {
			return expMustErr, expObserve, 4, "salt-char-outside-alphabet"
		}
		if bcryptref.B64Index(c)>>4 == bcryptref.B64Index(orig)>>4 {
			return expObserve, expObserve, 4, "noncanonical-salt-tail"
		}
		return expMustErr, expObserve, 4, "other-salt"
	case pos < 59:
		return expMustErr, expObserve, 4, "other-hash-value"
	default:
		if inAlpha && bcryptref.B64Index(c)>>2 == bcryptref.B64Index(orig)>>2 {
			return expObserve, expObserve, 4, "noncanonical-hash-tail"
		}
		return expMustErr, expObserve, 4, "other-hash-value"
	}
}

func c17Malformed(m *mon.M, r *rand.Rand, i int64, h string, pw []byte, c int, base map[string]any, cmp c17CmpFn, cost c17CostFn) {
	wit := func(s []byte, class string) map[string]any {
		w := map[string]any{"hash_presented": string(s), "hash_presented_hex": mon.FullHex(s), "class": class}
		for k, v := range base {
			w[k] = v
		}
		return w
	}
	// call runs both entry points on s and judges them.
	call := func(s []byte, cmpExp, costExp c17Expect, costVal int, class string) {
		if cmpExp != expSkip {
			err, pv, site := cmp(append([]byte(nil), s...), pw)
			m.Eval()
			switch {
			case pv != nil:
				w := wit(s, class)
				w["panic"] = fmt.Sprint(pv)
				m.Violation("panic:compare:"+site, w)
			case cmpExp == expMustErr && err == nil:
				m.Violation("malformed-hash-accepted:compare:"+class, wit(s, class))
			case cmpExp == expMustOK && err != nil:
				w := wit(s, class)
				w["err"] = err.Error()
				m.Violation("wellformed-hash-rejected:compare:"+class, w)
			case cmpExp == expObserve && err == nil:
				m.Count("observed_not_judged:compare_accepts:"+class, 1)
			}
		}
		cc, err, pv, site := cost(append([]byte(nil), s...))
		m.Eval()
		switch {
		case pv != nil:
			w := wit(s, class)
			w["panic"] = fmt.Sprint(pv)
			m.Violation("panic:cost:"+site, w)
		case costExp == expMustErr && err == nil:
			w := wit(s, class)
			w["cost_returned"] = cc
			m.Violation("malformed-hash-accepted:cost:"+class, w)
		case costExp == expMustOK && (err != nil || cc != costVal):
			w := wit(s, class)
			w["cost_returned"], w["err"], w["cost_expected"] = cc, fmt.Sprint(err), costVal
			m.Violation("cost-wrong:"+class, w)
		case costExp == expObserve && err == nil:
			if costVal >= 0 && cc != costVal {
				w := wit(s, class)
				w["cost_returned"], w["cost_expected"] = cc, costVal
				m.Violation("cost-wrong:"+class, w)
			}
			m.Count("observed_not_judged:cost_succeeds:"+class, 1)
		}
	}

	// T: every proper prefix
	for k := 0; k < 60; k++ {
		costExp := expMustErr
		if k == 59 {
			costExp = expObserve // "$2$"-style hashes are 59 characters: a header-only reader is not excluded by the text
		}
		call([]byte(h[:k]), expMustErr, costExp, c, fmt.Sprintf("truncation(len<%d)", []int{7, 29, 59, 60}[truncBucket(k)]))
		m.Count("malformed:truncations", 1)
	}
	// S: substitutions at every position
	specials := []byte{0x00, 0xff, ' ', '+', '-', '=', '$', '.', '/', '0', '1', '2', '3', '9', 'a', 'b', 'x', 'y', 'A', 'z', '\n', 0x7f, 0x80}
	for pos := 0; pos < 60; pos++ {
		var reps []byte
		add := func(c byte) {
			if c == h[pos] {
				return
			}
			for _, x := range reps {
				if x == c {
					return
				}
			}
			reps = append(reps, c)
		}
		add(bcryptref.Alphabet[r.IntN(64)])
		add(mon.Pick(r, specials))
		switch pos {
		case 1:
			add('1')
			add('3')
		case 2:
			add([]byte{'a', 'b', 'y', '$', 'x', 0}[(i/3)%6])
		case 3, 6:
			add([]byte{'X', '/', '.', 0, ' ', '0'}[i%6])
		case 4:
			add([]byte{'+', '-', ' ', '1', '3', '4'}[i%6])
		case 5:
			add([]byte{'5', '0', '3', '9', 'x', '6'}[i%6])
		case 28, 59:
			// one character sharing the used bits, one not
			oi := bcryptref.B64Index(h[pos])
			add(bcryptref.Alphabet[oi^1])
			add(bcryptref.Alphabet[oi^0x20])
		}
		if len(reps) == 0 {
			add(h[pos] ^ 0x01)
		}
		for _, c := range reps {
			s := []byte(h)
			s[pos] = c
			cmpExp, costExp, costVal, class := c17Substitution(h, pos, c)
			call(s, cmpExp, costExp, costVal, class)
			m.Distinct(fmt.Sprintf("substitution pos=%d class=%s", pos, class))
		}
		m.Count("malformed:substitutions", 1)
	}
	// X: bytes appended to a valid hash
	for k := 0; k < 3; k++ {
		var tail []byte
		switch k {
		case 0:
			tail = []byte{mon.Pick(r, []byte{'\n', 0, ' ', 'A', '$'})}
		case 1:
			tail = []byte(bcryptref.B64Encode(mon.Bytes(r, 1+r.IntN(12))))
		default:
			tail = mon.Bytes(r, 1+r.IntN(40))
		}
		call(append([]byte(h), tail...), expMustErr, expMustErr, -1, "trailing-bytes")
		m.Count("malformed:extensions", 1)
	}
	// R: random strings
	for k := 0; k < 6; k++ {
		var s []byte
		cmpExp, costExp := expMustErr, expObserve
		switch k {
		case 0:
			s = mon.Bytes(r, r.IntN(100))
			if len(s) < 7 || s[0] != '$' {
				costExp = expMustErr
			}
		case 1:
			s = append([]byte("$2a$"), mon.Bytes(r, r.IntN(80))...)
		case 2: // well-formed header and alphabet, random salt and hash: a hash of some other password
			s = []byte("$2" + string("aby"[r.IntN(3)]) + "$04$" + bcryptref.B64Encode(mon.Bytes(r, 16)) + bcryptref.B64Encode(mon.Bytes(r, 23)))
		case 3:
			s = []byte(h)
			for j := 0; j < 3; j++ {
				s[r.IntN(60)] = byte(r.IntN(256))
			}
			if string(s) == h {
				s[59] ^= 0x40
			}
			// three random substitutions: judged only for "no panic" unless they surely break the string
			cmpExp = expObserve
		case 4:
			s = mon.Bytes(r, 59+r.IntN(3))
			s[0] = '$'
			costExp = expObserve
		default:
			s = nil
			if r.IntN(2) == 0 {
				s = []byte{}
			}
			costExp = expMustErr
		}
		// never let a random string select an expensive cost: patch a decimal cost field above 07
		if len(s) >= 7 {
			for _, o := range []int{3, 4} { // cost field position with and without a minor version
				if o+1 < len(s) && s[o] >= '0' && s[o] <= '9' && s[o+1] >= '0' && s[o+1] <= '9' && (s[o] > '0' || s[o+1] > '7') {
					s[o] = 'Z'
				}
			}
		}
		call(s, cmpExp, costExp, -1, "random-string")
		m.Count("malformed:random_strings", 1)
	}
}

func truncBucket(k int) int {
	switch {
	case k < 7:
		return 0
	case k < 29:
		return 1
	case k < 59:
		return 2
	}
	return 3
}

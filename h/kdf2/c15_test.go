package kdf2

import (
	"bytes"
	"fmt"
	"math/rand/v2"
	"os"
	"strings"
	"testing"

	"golang.org/x/crypto/argon2"
	"verif/clib/gcryptkdf"
	"verif/clib/sodiumpwhash"
	"verif/mon"
	"verif/ref/argon2ref"
)

// C15: argon2.Key / argon2.IDKey equal RFC 9106 (v0x13) for all parameters,
// on every block-function path (SSE4.1, SSE2 fallback, pure Go).

var (
	c15KeyLens = []uint32{1, 4, 16, 31, 32, 33, 63, 64, 65, 96, 97, 128, 129, 300}
	c15Lanes   = []uint8{1, 2, 3, 4, 5, 8, 16}
	c15MemCls  = []string{"below8p", "mult4p", "nonmult4p", "just-above-min", "seg>128"}
)

const c15Combos = 2 * 5 * 7 * 14 // mode × memory class × lanes × keyLen

// c15Combo is a pure function of the case index (not of the seed): the class
// dimensions cycle deterministically so that the gates hold by construction;
// the seed varies everything inside a class.
func c15Combo(i int64) (mode, memCls, laneIdx, klIdx int) {
	c := int((i * 389) % c15Combos) // 389 is coprime to 980: a full cycle visits every combination once
	return c % 2, (c / 2) % 5, (c / 10) % 7, (c / 70) % 14
}

func c15KLClass(kl uint32) string {
	switch {
	case kl < 64:
		return "<64"
	case kl == 64:
		return "=64"
	case kl%64 == 0:
		return ">64 mult64"
	case kl%32 == 0:
		return ">64 mult32"
	}
	return ">64 other"
}

func TestC15(t *testing.T) {
	m := mon.New(t, "C15")
	defer m.Done()
	variant := os.Getenv("VERIF_VARIANT")
	purego := strings.Contains(variant, "purego")
	m.Rule("case i = (mode, memory class, lanes, keyLen) taken from a fixed full-cycle enumeration of {argon2i,argon2id} × {m<8p, m multiple of 4p, m not a multiple of 4p, m just above 8p, segment length > 128} × lanes {1,2,3,4,5,8,16} × keyLen {1,4,16,31,32,33,63,64,65,96,97,128,129,300} (pure function of i, so every class is hit whatever the seed), with the seed choosing t in 1..3, the memory value inside its class, password (empty / 1..64 / 200 bytes) and salt (empty / 8 / 16 / 1..64 / 200 bytes); thorough adds lanes {6,7,31,32,64,128,255} and random keyLen 1..300. Each case is run on every block-function path of the build (SSE4.1 and SSE2 fallback in the default build, pure Go in the purego build) and each output is compared with the single-threaded RFC 9106 reference (h/ref/argon2ref); libgcrypt (non-empty pw/salt) and libsodium (1 lane, 16-byte salt, m>=8, keyLen>=16) are computed alongside and must agree with the reference, else the case is inconclusive. For m < 8p the reference uses 8p blocks while hashing the requested m (the property's statement). distinct = (mode, path, memory class, lanes, keyLen class, pw/salt emptiness); every case reaches the oracle, so every case is non-trivial. Password and salt are passed as guarded copies (exact capacity or spare capacity with a sentinel) that must be unchanged afterwards; the last 9 returned keys are kept and re-verified after later calls lanes stream: threads in {1,2,3,4,7,8,15,16,31,32,63,64,65,100,127,128,129,191,192,193,254,255} (thorough: every value 1..255), each with Key and IDKey at time 1 and the minimal memory 8*threads, with one memory value that is not a multiple of 4*threads and one below 8*threads, on every path, compared with the reference and libgcrypt (libsodium for one lane); a panic is a violation." + concRule)
	m.Assume("h/ref/argon2ref (own BLAKE2b per RFC 7693, H', G, indexing per RFC 9106 §3) passes the RFC 9106 §5 vectors and the phc-winner-argon2 vectors and agrees with libgcrypt and libsodium in its unit test; libgcrypt GCRY_KDF_ARGON2 passes the same vectors (h/clib/gcryptkdf test)")
	m.Assume("the Go race detector observes the lane goroutines (registry: race=true); data-race reports are turned into violations by the driver")

	type path struct {
		name string
		set  func()
	}
	var paths []path
	if purego {
		paths = []path{{"purego", func() {}}}
	} else if argon2.VerifCPUHasSSE4() {
		paths = []path{{"sse4", func() { argon2.VerifSetSSE4(true) }}, {"sse2", func() { argon2.VerifSetSSE4(false) }}}
		defer argon2.VerifSetSSE4(true)
	} else {
		m.Note("CPU without SSE4.1: only the SSE2 path of the default build is exercised")
		paths = []path{{"sse2", func() { argon2.VerifSetSSE4(false) }}}
	}

	total := m.N(400, 8000)
	bigLanes := []uint8{6, 7, 31, 32, 64, 128, 255}
	// expected class counts (pure function of total): gate minimums
	exp := map[string]int{}
	for i := int64(0); i < int64(total); i++ {
		mode, mc, li, ki := c15Combo(i)
		exp[fmt.Sprintf("mode:%d", mode)]++
		exp["mem:"+c15MemCls[mc]]++
		if c15Lanes[li] > 1 {
			exp["lanes>1"]++
		}
		klOverridden := m.Thorough() && i%13 == 3
		lanesOverridden := m.Thorough() && i%97 == 5
		if c15KeyLens[ki] > 64 && !klOverridden {
			exp["keylen>64"]++
		}
		if mc == 4 && c15Lanes[li] <= 2 && !lanesOverridden {
			exp["segment>128_blocks"]++
		}
	}

	kept := newRetained(m, "argon2", 9)
	m.Cases("main", total, func(i int64, r *rand.Rand) {
		mode, mc, li, ki := c15Combo(i)
		p := c15Lanes[li]
		kl := c15KeyLens[ki]
		if m.Thorough() && i%97 == 5 {
			p = bigLanes[(i/97)%int64(len(bigLanes))]
			m.Count("lanes_extended", 1)
		}
		if m.Thorough() && i%13 == 3 {
			kl = uint32(1 + r.IntN(300))
		}
		tm := uint32(1 + r.IntN(3))
		unit := 4 * uint32(p)
		var mem uint32
		memCls := c15MemCls[mc]
		switch mc {
		case 0: // below the minimum (0 excluded: quantifier says 1..)
			mem = 1 + uint32(r.IntN(int(2*unit)-1))
		case 1: // exact multiple of 4p, 8p .. 256 KiB-ish
			kmax := 256 / unit
			if kmax < 3 {
				kmax = 3
			}
			mem = unit * (2 + uint32(r.IntN(int(kmax)-1)))
		case 2: // non-multiple
			kmax := 256 / unit
			if kmax < 3 {
				kmax = 3
			}
			mem = unit*(2+uint32(r.IntN(int(kmax)-1))) + 1 + uint32(r.IntN(int(unit)-1))
		case 3: // 8p .. 12p-1: the first values above the minimum (rounds to 8p)
			mem = 2*unit + uint32(r.IntN(int(unit)))
		case 4: // segment length above 128: second address block for the data-independent passes
			if p <= 2 {
				mem = unit*(129+uint32(r.IntN(32))) + uint32(r.IntN(int(unit)))
			} else { // too expensive with many lanes: medium segments instead
				memCls = "seg 17..48 (many lanes)"
				mem = unit*(17+uint32(r.IntN(32))) + uint32(r.IntN(int(unit)))
			}
		}
		var pw, salt []byte
		switch r.IntN(8) {
		case 0:
			pw = nil
		case 1:
			pw = mon.Bytes(r, 200)
		default:
			pw = mon.Bytes(r, 1+r.IntN(64))
		}
		switch r.IntN(8) {
		case 0:
			salt = nil
		case 1:
			salt = mon.Bytes(r, 200)
		case 2:
			salt = mon.Bytes(r, 8)
		case 3:
			salt = mon.Bytes(r, 1+r.IntN(64))
		default:
			salt = mon.Bytes(r, 16)
		}
		// forced emptiness classes (by index, for the gates)
		if i%16 == 7 {
			pw = nil
		}
		if i%16 == 11 {
			salt = nil
		}
		if i%16 == 13 {
			pw, salt = nil, nil
		}

		y := argon2ref.Argon2i
		modeName := "argon2i"
		fn := argon2.Key
		if mode == 1 {
			y, modeName, fn = argon2ref.Argon2id, "argon2id", argon2.IDKey
		}
		blocks := mem / unit * unit
		if blocks < 2*unit {
			blocks = 2 * unit
		}
		want := argon2ref.Hash(y, pw, salt, nil, nil, tm, mem, blocks, uint32(p), int(kl))

		wit := map[string]any{"mode": modeName, "pw": mon.FullHex(pw), "salt": mon.FullHex(salt), "time": tm, "memory": mem, "threads": p, "keyLen": kl, "memory_class": memCls}
		// witnesses must agree with the reference, otherwise nothing is judged
		conflict := false
		nwit := 0
		if gcryptkdf.Usable(pw, salt) {
			g, err := gcryptkdf.Argon2(y, pw, salt, nil, nil, tm, mem, uint32(p), int(kl))
			if err != nil {
				m.Count("libgcrypt_errors", 1)
			} else {
				nwit++
				m.Count("witness:libgcrypt", 1)
				if mem < 2*unit {
					m.Count("witness:libgcrypt m<8p", 1)
				}
				if !bytes.Equal(g, want) {
					conflict = true
					m.Inconclusive(fmt.Sprintf("oracle conflict ref vs libgcrypt at case %d (%s t=%d m=%d p=%d keyLen=%d)", i, modeName, tm, mem, p, kl))
				}
			}
		}
		if p == 1 && sodiumpwhash.Usable(mode == 1, len(salt), tm, mem, int(kl)) {
			s, err := sodiumpwhash.Hash(mode == 1, pw, salt, tm, mem, int(kl))
			if err != nil {
				m.Count("libsodium_errors", 1)
			} else {
				nwit++
				m.Count("witness:libsodium", 1)
				if !bytes.Equal(s, want) {
					conflict = true
					m.Inconclusive(fmt.Sprintf("oracle conflict ref vs libsodium at case %d (%s t=%d m=%d keyLen=%d)", i, modeName, tm, mem, kl))
				}
			}
		}
		if nwit == 0 {
			m.Count("ref_only_cases", 1) // empty pw/salt: no C library accepts them with these lanes
		}
		if conflict {
			return
		}
		if i < 5 {
			m.Sample(map[string]any{"case": wit, "want": mon.Hex(want), "witnesses": nwit})
		}

		outs := map[string][]byte{}
		for _, pa := range paths {
			pa.set()
			gp, gs := newGbuf(pw, gbufSpare()), newGbuf(salt, gbufSpare())
			got := fn(gp.S(), gs.S(), tm, mem, p, kl)
			checkInputs(m, modeName+":"+pa.name, wit, map[string]*gbuf{"password": gp, "salt": gs})
			kept.add(got, fmt.Sprintf("case %d path %s", i, pa.name))
			outs[pa.name] = got
			m.Eval()
			m.Count("path:"+pa.name, 1)
			m.Distinct(fmt.Sprintf("%s %s mem:%s lanes=%d kl%s pw0=%v salt0=%v", modeName, pa.name, memCls, p, c15KLClass(kl), len(pw) == 0, len(salt) == 0))
			if uint32(len(got)) != kl {
				wit["got_len"] = len(got)
				m.Violation("wrong-length:"+modeName+":"+pa.name, wit)
				continue
			}
			if !bytes.Equal(got, want) {
				w := map[string]any{}
				for k, v := range wit {
					w[k] = v
				}
				w["path"], w["got"], w["want"], w["witnesses_agreeing_with_ref"] = pa.name, mon.Hex(got), mon.Hex(want), nwit
				m.Violation("wrong-key:"+modeName+":"+pa.name, w)
			}
		}
		if len(paths) == 2 && !bytes.Equal(outs["sse4"], outs["sse2"]) {
			wit["sse4"], wit["sse2"] = mon.Hex(outs["sse4"]), mon.Hex(outs["sse2"])
			m.Violation("path-divergence:"+modeName+":sse4-vs-sse2", wit)
		}
		// keys returned by earlier calls (this case's and the previous cases') must not have changed
		kept.recheck()
		// evidence counters for the classes the property's quantifier names
		m.Count(fmt.Sprintf("mode:%d", mode), 1)
		m.Count("mem:"+c15MemCls[mc], 1)
		if mc == 4 && p <= 2 {
			m.Count("segment>128_blocks", 1)
		}
		if p > 1 {
			m.Count("lanes>1", 1)
		}
		if kl > 64 {
			m.Count("keylen>64", 1)
		}
		if len(pw) == 0 {
			m.Count("empty_password", 1)
		}
		if len(salt) == 0 {
			m.Count("empty_salt", 1)
		}
		if len(pw) == 200 || len(salt) == 200 {
			m.Count("long_pw_or_salt", 1)
		}
	})

	// ---------- lanes: the parallelism degree swept over its whole uint8 range ----------
	laneList := []uint8{1, 2, 3, 4, 7, 8, 15, 16, 31, 32, 63, 64, 65, 100, 127, 128, 129, 191, 192, 193, 254, 255}
	if m.Thorough() {
		laneList = laneList[:0]
		for v := 1; v <= 255; v++ {
			laneList = append(laneList, uint8(v))
		}
	}
	nLanes := 4 * len(laneList)
	expWide := 0
	for _, v := range laneList {
		if v >= 64 {
			expWide += 4
		}
	}
	m.Cases("lanes", nLanes, func(i int64, r *rand.Rand) {
		p := laneList[i/4]
		sub := int(i % 4)
		unit := 4 * uint32(p)
		mode := sub % 2 // sub 0: Key, 1: IDKey at the minimal memory 8p; 2, 3: memory shapes, mode alternating with the lane index
		var mem uint32
		shape := "m=8p"
		switch sub {
		case 0, 1:
			mem = 2 * unit
		case 2:
			mode = int(i/4) % 2
			shape = "not-multiple-of-4p"
			mem = unit*(2+uint32(r.IntN(2))) + 1 + uint32(r.IntN(int(unit)-1))
		default:
			mode = int(i/4+1) % 2
			shape = "below-8p"
			mem = 1 + uint32(r.IntN(int(2*unit)-1))
		}
		kl := uint32(32)
		if sub >= 2 {
			kl = c15KeyLens[r.IntN(len(c15KeyLens))]
		}
		pw, salt := mon.Bytes(r, 1+r.IntN(32)), mon.Bytes(r, 16)
		y, modeName, fn := argon2ref.Argon2i, "argon2i", argon2.Key
		if mode == 1 {
			y, modeName, fn = argon2ref.Argon2id, "argon2id", argon2.IDKey
		}
		blocks := mem / unit * unit
		if blocks < 2*unit {
			blocks = 2 * unit
		}
		want := argon2ref.Hash(y, pw, salt, nil, nil, 1, mem, blocks, uint32(p), int(kl))
		wit := map[string]any{"mode": modeName, "pw": mon.FullHex(pw), "salt": mon.FullHex(salt), "time": 1, "memory": mem, "threads": p, "keyLen": kl, "memory_shape": shape}
		nwit := 0
		if g, err := gcryptkdf.Argon2(y, pw, salt, nil, nil, 1, mem, uint32(p), int(kl)); err == nil {
			nwit++
			m.Count("lanes_witness:libgcrypt", 1)
			if !bytes.Equal(g, want) {
				m.Inconclusive(fmt.Sprintf("oracle conflict ref vs libgcrypt in lanes case %d (%s m=%d p=%d)", i, modeName, mem, p))
				return
			}
		}
		if p == 1 && sodiumpwhash.Usable(mode == 1, 16, 1, mem, int(kl)) {
			if sd, err := sodiumpwhash.Hash(mode == 1, pw, salt, 1, mem, int(kl)); err == nil {
				nwit++
				m.Count("lanes_witness:libsodium", 1)
				if !bytes.Equal(sd, want) {
					m.Inconclusive(fmt.Sprintf("oracle conflict ref vs libsodium in lanes case %d", i))
					return
				}
			}
		}
		for _, pa := range paths {
			pa.set()
			gp, gs := newGbuf(pw, gbufSpare()), newGbuf(salt, gbufSpare())
			var got []byte
			pv, stack := mon.Panics(func() { got = fn(gp.S(), gs.S(), 1, mem, p, kl) })
			m.Eval()
			m.Distinct(fmt.Sprintf("lanes=%d %s %s %s", p, modeName, pa.name, shape))
			if pv != nil {
				w := map[string]any{"path": pa.name, "panic": fmt.Sprint(pv), "site": mon.PanicSite(stack)}
				for k, v := range wit {
					w[k] = v
				}
				m.Violation(fmt.Sprintf("panic:lanes=%d", p), w)
				continue
			}
			checkInputs(m, modeName+":"+pa.name, wit, map[string]*gbuf{"password": gp, "salt": gs})
			if !bytes.Equal(got, want) {
				w := map[string]any{"path": pa.name, "got": mon.Hex(got), "want": mon.Hex(want), "witnesses_agreeing_with_ref": nwit}
				for k, v := range wit {
					w[k] = v
				}
				m.Violation(fmt.Sprintf("wrong-key:lanes=%d:%s:%s", p, modeName, pa.name), w)
			}
		}
		m.Count("lanes_cases", 1)
		m.Count("lanes_cases:"+shape, 1)
		if p >= 64 {
			m.Count("lanes_cases_with_threads>=64", 1)
		}
	})
	m.Gate("lanes_cases", nLanes, "every lane count of the list run with Key and IDKey at m=8p and with a non-multiple and a below-minimum memory value")
	m.Gate("lanes_cases_with_threads>=64", expWide, "lane counts for which 4*threads no longer fits in a uint8")
	m.Gate("lanes_cases:not-multiple-of-4p", len(laneList), "memory rounded down to a multiple of 4*threads, once per lane count")
	m.Gate("lanes_cases:below-8p", len(laneList), "memory raised to the 8*threads minimum, once per lane count")
	m.Gate("lanes_witness:libgcrypt", nLanes, "libgcrypt computed every lanes case and agreed with the reference")

	nConc := c15Concurrent(m, purego)
	concGates(m, nConc, true)

	// The documentation states a precondition ("must be greater than zero") but
	// no behaviour for time=0 / threads=0: observed, not judged.
	m.Each("precondition", 2, func(i int64, r *rand.Rand) {
		tm, p := uint32(0), uint8(1)
		if i == 1 {
			tm, p = 1, 0
		}
		pv, _ := mon.Panics(func() { argon2.IDKey([]byte("pw"), []byte("saltsalt"), tm, 32, p, 32) })
		if pv != nil {
			m.Count("precondition_violation_panics(observed, not judged)", 1)
		}
	})

	np := len(paths)
	for _, k := range []string{"mode:0", "mode:1", "lanes>1", "keylen>64", "segment>128_blocks"} {
		m.Gate(k, exp[k], "every case of this class reached the oracle comparison (count fixed by construction)")
	}
	for _, c := range c15MemCls {
		m.Gate("mem:"+c, exp["mem:"+c], "memory class reached the oracle comparison (count fixed by construction)")
	}
	for _, pa := range paths {
		m.Gate("path:"+pa.name, total, "every case was run on this block-function path")
	}
	_ = np
	m.Gate("input_immutability_checks", 2*total, "password and salt slices (guarded copies, with and without spare capacity) compared with their snapshot after every call")
	m.Gate("input_immutability_checks_with_spare_capacity", total/2, "of which slices with cap > len whose spare capacity carries a sentinel")
	m.Gate("retained_outputs_rechecked", total, "keys returned by earlier calls re-verified after later calls")
	m.Gate("empty_password", total/16, "empty passwords forced by index")
	m.Gate("empty_salt", total/16, "empty salts forced by index")
	m.Gate("witness:libgcrypt", total/4, "libgcrypt computed the same case and agreed with the reference")
}

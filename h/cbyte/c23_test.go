package cbyte

import (
	"bytes"
	encasn1 "encoding/asn1"
	"fmt"
	"math/big"
	"math/rand/v2"
	"strings"
	"testing"
	"time"

	"golang.org/x/crypto/cryptobyte"
	"golang.org/x/crypto/cryptobyte/asn1"
	"verif/mon"
	"verif/ref/der"
)

// ---------------------------------------------------------------------------
// Readers under test, each with its X.690-derived predicate. Values are
// compared in a canonical string form.
// ---------------------------------------------------------------------------

type predResult struct {
	zone   der.Zone
	reason string
	val    string
	total  int // bytes consumed when accepted
}

type reader struct {
	name string
	// run decodes into a destination whose pre-state is chosen by p: 0 = zero value, 1 = all-ones / long garbage,
	// 2 = a plausible previous (bigger) value
	run  func(in []byte, p int) (ok bool, val string, rest []byte)
	pred func(in []byte) predResult
	std  func(in []byte) (ok bool, val string, rest []byte) // encoding/asn1 counterpart (nil: none)
}

func rej(reason string) predResult { return predResult{zone: der.Reject, reason: reason} }

// element parses the leading TLV and requires the tag.
func element(in []byte, tag byte) (der.TLV, string) {
	t, why := der.ParseTLV(in)
	if why != "" {
		return t, why
	}
	if t.Tag != tag {
		return t, "tag-mismatch"
	}
	return t, ""
}

func predInt(tag byte, lo, hi *big.Int) func([]byte) predResult {
	return func(in []byte) predResult {
		t, why := element(in, tag)
		if why != "" {
			return rej(why)
		}
		v, why := der.CheckInt(t.Content)
		if why != "" {
			return rej(why)
		}
		if (lo != nil && v.Cmp(lo) < 0) || (hi != nil && v.Cmp(hi) > 0) {
			return rej("integer-out-of-range-for-type")
		}
		return predResult{der.Accept, "", canonBig(v), t.Total}
	}
}

type integer interface {
	~int | ~int8 | ~int16 | ~int32 | ~int64 | ~uint | ~uint8 | ~uint16 | ~uint32 | ~uint64
}

func runInt[T integer]() func([]byte, int) (bool, string, []byte) {
	return func(in []byte, p int) (bool, string, []byte) {
		s := cryptobyte.String(in)
		v := preInt[T](p)
		ok := s.ReadASN1Integer(&v)
		return ok, fmt.Sprint(v), s
	}
}

func stdInt[T integer]() func([]byte) (bool, string, []byte) {
	return func(in []byte) (bool, string, []byte) {
		var v T
		rest, err := encasn1.Unmarshal(in, &v)
		return err == nil, fmt.Sprint(v), rest
	}
}

// ---- destination pre-states ----

func preInt[T integer](p int) T {
	switch p {
	case 1:
		return ^T(0)
	case 2:
		x := uint64(0x7b5a6c3d2e1f4a59)
		return T(x)
	}
	return 0
}

func preBig(p int) *big.Int {
	switch p {
	case 1:
		return new(big.Int).Neg(new(big.Int).Sub(bigPow2(200), big.NewInt(12345)))
	case 2:
		return new(big.Int).Sub(bigPow2(521), big.NewInt(1))
	}
	return new(big.Int)
}

func preBytes(p int) []byte {
	switch p {
	case 1:
		b := make([]byte, 40, 64)
		for i := range b[:64] {
			b[:64][i] = 0xff
		}
		return b
	case 2:
		return append(make([]byte, 0, 16), 0x02, 0x01, 0x7f)
	}
	return nil
}

func preOID(p int) encasn1.ObjectIdentifier {
	switch p {
	case 1:
		o := make(encasn1.ObjectIdentifier, 24, 32)
		for i := range o {
			o[i] = 1<<31 - 1
		}
		return o
	case 2:
		return append(make(encasn1.ObjectIdentifier, 0, 16), 2, 999, 3, 4, 5, 6, 7, 8, 9, 10)
	}
	return nil
}

func preBitString(p int) encasn1.BitString {
	switch p {
	case 1:
		return encasn1.BitString{Bytes: preBytes(1), BitLength: 1 << 30}
	case 2:
		return encasn1.BitString{Bytes: []byte{0xaa, 0x80}, BitLength: 9}
	}
	return encasn1.BitString{}
}

func preTime(p int) time.Time {
	switch p {
	case 1:
		return time.Unix(1<<40, 999999999).In(time.FixedZone("garbage", -7*3600-60))
	case 2:
		return time.Date(9999, 12, 31, 23, 59, 59, 5, time.UTC)
	}
	return time.Time{}
}

func bounds(bits uint, signed bool) (*big.Int, *big.Int) {
	if signed {
		return new(big.Int).Neg(bigPow2(bits - 1)), new(big.Int).Sub(bigPow2(bits-1), big.NewInt(1))
	}
	return big.NewInt(0), new(big.Int).Sub(bigPow2(bits), big.NewInt(1))
}

// canonBig: decimal for machine-sized values (so that typed readers compare with fmt.Sprint), hex beyond.
func canonBig(v *big.Int) string {
	if v.BitLen() <= 70 {
		return v.String()
	}
	return "0x" + v.Text(16)
}

func oidString(arcs []*big.Int) string {
	var s []string
	for _, a := range arcs {
		s = append(s, a.String())
	}
	return strings.Join(s, ".")
}

func predOID(in []byte) predResult {
	t, why := element(in, tagOID)
	if why != "" {
		return rej(why)
	}
	arcs, z, why := der.CheckOID(t.Content)
	if z == der.Reject {
		return rej(why)
	}
	return predResult{z, why, oidString(arcs), t.Total}
}

func predBits(asBytes bool) func([]byte) predResult {
	return func(in []byte) predResult {
		t, why := element(in, tagBits)
		if why != "" {
			return rej(why)
		}
		data, bl, why := der.CheckBitString(t.Content)
		if why != "" {
			return rej(why)
		}
		if asBytes {
			if bl != 8*len(data) {
				return rej("bitstring-not-whole-bytes")
			}
			return predResult{der.Accept, "", string(data), t.Total}
		}
		return predResult{der.Accept, "", fmt.Sprintf("%s/%d", data, bl), t.Total}
	}
}

func predBool(in []byte) predResult {
	t, why := element(in, tagBool)
	if why != "" {
		return rej(why)
	}
	v, why := der.CheckBool(t.Content)
	if why != "" {
		return rej(why)
	}
	return predResult{der.Accept, "", fmt.Sprint(v), t.Total}
}

func predTime(tag byte) func([]byte) predResult {
	return func(in []byte) predResult {
		t, why := element(in, tag)
		if why != "" {
			return rej(why)
		}
		var v der.Time
		var z der.Zone
		if tag == tagUTC {
			v, z, why = der.CheckUTCTime(t.Content)
		} else {
			v, z, why = der.CheckGeneralizedTime(t.Content)
		}
		if z == der.Reject {
			p := rej(why)
			if v.Valid { // not DER, but the instant is unambiguous: if the reader accepts anyway the value is still checked
				p.val, p.total = fmt.Sprint(v.Unix), t.Total
			}
			return p
		}
		return predResult{z, why, fmt.Sprint(v.Unix), t.Total}
	}
}

// predTLV: ReadASN1-family with an expected tag (any = accept every tag).
func predTLV(tag byte, anyTag, withHeader bool) func([]byte) predResult {
	return func(in []byte) predResult {
		t, why := der.ParseTLV(in)
		if why != "" {
			return rej(why)
		}
		if !anyTag && t.Tag != tag {
			return rej("tag-mismatch")
		}
		v := fmt.Sprintf("%02x:", t.Tag) + string(t.Content)
		if withHeader {
			v = fmt.Sprintf("%02x:", t.Tag) + string(in[:t.Total])
		}
		return predResult{der.Accept, "", v, t.Total}
	}
}

// optional: absent (first octet differs from tag, or empty input) → accepted, nothing consumed.
func predOptional(tag byte, def string, inner func(content []byte) predResult) func([]byte) predResult {
	return func(in []byte) predResult {
		if len(in) == 0 || in[0] != tag {
			return predResult{der.Accept, "", "absent:" + def, 0}
		}
		t, why := element(in, tag)
		if why != "" {
			return rej(why)
		}
		if inner == nil {
			return predResult{der.Accept, "", "present:" + string(t.Content), t.Total}
		}
		p := inner(t.Content)
		if p.zone == der.Reject {
			return rej("inner:" + p.reason)
		}
		if p.total != len(t.Content) {
			return rej("trailing-data-inside-explicit-tag")
		}
		return predResult{p.zone, p.reason, "present:" + p.val, t.Total}
	}
}

func i64lohi() (*big.Int, *big.Int) { return bounds(64, true) }

func predOctetInner(c []byte) predResult {
	t, why := element(c, tagOctet)
	if why != "" {
		return rej(why)
	}
	return predResult{der.Accept, "", string(t.Content), t.Total}
}

func tagsFor(in []byte) (own, other byte) {
	own = 0x30
	if len(in) > 0 {
		own = in[0]
	}
	other = own ^ 0x01
	if other&0x1f == 0x1f {
		other = own ^ 0x02
	}
	return
}

func unixOf(t time.Time) string { return fmt.Sprint(t.Unix()) }

func buildReaders() []reader {
	var rs []reader
	addInt := func(name string, bits uint, signed bool, run func([]byte, int) (bool, string, []byte), std func([]byte) (bool, string, []byte)) {
		lo, hi := bounds(bits, signed)
		rs = append(rs, reader{"ReadASN1Integer(*" + name + ")", run, predInt(tagInt, lo, hi), std})
	}
	addInt("int8", 8, true, runInt[int8](), nil)
	addInt("int16", 16, true, runInt[int16](), nil)
	addInt("int32", 32, true, runInt[int32](), stdInt[int32]())
	addInt("int64", 64, true, runInt[int64](), stdInt[int64]())
	addInt("int", 64, true, runInt[int](), stdInt[int]())
	addInt("uint8", 8, false, runInt[uint8](), nil)
	addInt("uint16", 16, false, runInt[uint16](), nil)
	addInt("uint32", 32, false, runInt[uint32](), nil)
	addInt("uint64", 64, false, runInt[uint64](), nil)
	addInt("uint", 64, false, runInt[uint](), nil)
	rs = append(rs, reader{"ReadASN1Integer(*big.Int)", func(in []byte, p int) (bool, string, []byte) {
		s := cryptobyte.String(in)
		v := preBig(p)
		ok := s.ReadASN1Integer(v)
		return ok, canonBig(v), s
	}, predInt(tagInt, nil, nil), func(in []byte) (bool, string, []byte) {
		var v *big.Int
		rest, err := encasn1.Unmarshal(in, &v)
		if err != nil {
			return false, "", nil
		}
		return true, canonBig(v), rest
	}})
	rs = append(rs, reader{"ReadASN1Integer(*[]byte)", func(in []byte, p int) (bool, string, []byte) {
		s := cryptobyte.String(in)
		v := preBytes(p)
		ok := s.ReadASN1Integer(&v)
		if !ok {
			return false, "raw:" + string(v), s
		}
		// documented: big-endian, no leading zeroes, zero = single zero byte
		n := new(big.Int).SetBytes(v)
		if len(v) == 0 || (len(v) > 1 && v[0] == 0) {
			return true, fmt.Sprintf("malformed-magnitude:%x", v), s
		}
		return true, canonBig(n), s
	}, predInt(tagInt, big.NewInt(0), nil), nil})
	rs = append(rs, reader{"ReadASN1Int64WithTag(own-tag)", func(in []byte, p int) (bool, string, []byte) {
		s := cryptobyte.String(in)
		own, _ := tagsFor(in)
		v := preInt[int64](p)
		ok := s.ReadASN1Int64WithTag(&v, asn1.Tag(own))
		return ok, fmt.Sprint(v), s
	}, func(in []byte) predResult {
		own, _ := tagsFor(in)
		lo, hi := i64lohi()
		return predInt(own, lo, hi)(in)
	}, nil})
	rs = append(rs, reader{"ReadASN1Enum", func(in []byte, p int) (bool, string, []byte) {
		s := cryptobyte.String(in)
		v := preInt[int](p)
		ok := s.ReadASN1Enum(&v)
		return ok, fmt.Sprint(v), s
	}, func(in []byte) predResult { lo, hi := i64lohi(); return predInt(tagEnum, lo, hi)(in) }, func(in []byte) (bool, string, []byte) {
		var v encasn1.Enumerated
		rest, err := encasn1.Unmarshal(in, &v)
		return err == nil, fmt.Sprint(int(v)), rest
	}})
	rs = append(rs, reader{"ReadASN1Boolean", func(in []byte, p int) (bool, string, []byte) {
		s := cryptobyte.String(in)
		v := p == 1
		ok := s.ReadASN1Boolean(&v)
		return ok, fmt.Sprint(v), s
	}, predBool, func(in []byte) (bool, string, []byte) {
		var v bool
		rest, err := encasn1.Unmarshal(in, &v)
		return err == nil, fmt.Sprint(v), rest
	}})
	rs = append(rs, reader{"ReadASN1ObjectIdentifier", func(in []byte, p int) (bool, string, []byte) {
		s := cryptobyte.String(in)
		v := preOID(p)
		ok := s.ReadASN1ObjectIdentifier(&v)
		return ok, v.String(), s
	}, predOID, func(in []byte) (bool, string, []byte) {
		var v encasn1.ObjectIdentifier
		rest, err := encasn1.Unmarshal(in, &v)
		return err == nil, v.String(), rest
	}})
	rs = append(rs, reader{"ReadASN1BitString", func(in []byte, p int) (bool, string, []byte) {
		s := cryptobyte.String(in)
		v := preBitString(p)
		ok := s.ReadASN1BitString(&v)
		return ok, fmt.Sprintf("%s/%d", v.Bytes, v.BitLength), s
	}, predBits(false), func(in []byte) (bool, string, []byte) {
		var v encasn1.BitString
		rest, err := encasn1.Unmarshal(in, &v)
		return err == nil, fmt.Sprintf("%s/%d", v.Bytes, v.BitLength), rest
	}})
	rs = append(rs, reader{"ReadASN1BitStringAsBytes", func(in []byte, p int) (bool, string, []byte) {
		s := cryptobyte.String(in)
		v := preBytes(p)
		ok := s.ReadASN1BitStringAsBytes(&v)
		return ok, string(v), s
	}, predBits(true), nil})
	stdTime := func(tag byte) func(in []byte) (bool, string, []byte) {
		return func(in []byte) (bool, string, []byte) {
			if len(in) == 0 || in[0] != tag {
				return false, "", nil // encoding/asn1 decodes both time types into time.Time: compare only the matching one
			}
			var v time.Time
			rest, err := encasn1.Unmarshal(in, &v)
			return err == nil, unixOf(v), rest
		}
	}
	rs = append(rs, reader{"ReadASN1UTCTime", func(in []byte, p int) (bool, string, []byte) {
		s := cryptobyte.String(in)
		v := preTime(p)
		ok := s.ReadASN1UTCTime(&v)
		return ok, unixOf(v), s
	}, predTime(tagUTC), stdTime(tagUTC)})
	rs = append(rs, reader{"ReadASN1GeneralizedTime", func(in []byte, p int) (bool, string, []byte) {
		s := cryptobyte.String(in)
		v := preTime(p)
		ok := s.ReadASN1GeneralizedTime(&v)
		return ok, unixOf(v), s
	}, predTime(tagGenT), stdTime(tagGenT)})
	// generic element readers, with the element's own tag and with another tag
	for _, own := range []bool{true, false} {
		own := own
		sfx := "(own-tag)"
		if !own {
			sfx = "(other-tag)"
		}
		pick := func(in []byte) byte {
			a, b := tagsFor(in)
			if own {
				return a
			}
			return b
		}
		rs = append(rs, reader{"ReadASN1" + sfx, func(in []byte, p int) (bool, string, []byte) {
			s := cryptobyte.String(in)
			out := cryptobyte.String(preBytes(p))
			tag := pick(in)
			ok := s.ReadASN1(&out, asn1.Tag(tag))
			return ok, fmt.Sprintf("%02x:", tag) + string(out), s
		}, func(in []byte) predResult { return predTLV(pick(in), false, false)(in) }, nil})
		rs = append(rs, reader{"ReadASN1Bytes" + sfx, func(in []byte, p int) (bool, string, []byte) {
			s := cryptobyte.String(in)
			out := preBytes(p)
			tag := pick(in)
			ok := s.ReadASN1Bytes(&out, asn1.Tag(tag))
			return ok, fmt.Sprintf("%02x:", tag) + string(out), s
		}, func(in []byte) predResult { return predTLV(pick(in), false, false)(in) }, nil})
		rs = append(rs, reader{"ReadASN1Element" + sfx, func(in []byte, p int) (bool, string, []byte) {
			s := cryptobyte.String(in)
			out := cryptobyte.String(preBytes(p))
			tag := pick(in)
			ok := s.ReadASN1Element(&out, asn1.Tag(tag))
			return ok, fmt.Sprintf("%02x:", tag) + string(out), s
		}, func(in []byte) predResult { return predTLV(pick(in), false, true)(in) }, nil})
		rs = append(rs, reader{"SkipASN1" + sfx, func(in []byte, p int) (bool, string, []byte) {
			s := cryptobyte.String(in)
			ok := s.SkipASN1(asn1.Tag(pick(in)))
			return ok, "", s
		}, func(in []byte) predResult { p := predTLV(pick(in), false, false)(in); p.val = ""; return p }, nil})
		rs = append(rs, reader{"ReadOptionalASN1" + sfx, func(in []byte, p int) (bool, string, []byte) {
			s := cryptobyte.String(in)
			out := cryptobyte.String(preBytes(p))
			present := p == 1
			ok := s.ReadOptionalASN1(&out, &present, asn1.Tag(pick(in)))
			if present {
				return ok, "present:" + string(out), s
			}
			return ok, "absent:", s
		}, func(in []byte) predResult { return predOptional(pick(in), "", nil)(in) }, nil})
		rs = append(rs, reader{"SkipOptionalASN1" + sfx, func(in []byte, p int) (bool, string, []byte) {
			s := cryptobyte.String(in)
			ok := s.SkipOptionalASN1(asn1.Tag(pick(in)))
			return ok, "", s
		}, func(in []byte) predResult { p := predOptional(pick(in), "", nil)(in); p.val = ""; return p }, nil})
		rs = append(rs, reader{"ReadOptionalASN1Integer(int64)" + sfx, func(in []byte, p int) (bool, string, []byte) {
			s := cryptobyte.String(in)
			v := preInt[int64](p)
			ok := s.ReadOptionalASN1Integer(&v, asn1.Tag(pick(in)), int64(-77))
			return ok, fmt.Sprint(v), s
		}, func(in []byte) predResult {
			lo, hi := i64lohi()
			p := predOptional(pick(in), "-77", predInt(tagInt, lo, hi))(in)
			p.val = strings.TrimPrefix(strings.TrimPrefix(p.val, "present:"), "absent:")
			return p
		}, nil})
		rs = append(rs, reader{"ReadOptionalASN1Integer(*big.Int)" + sfx, func(in []byte, p int) (bool, string, []byte) {
			s := cryptobyte.String(in)
			v := preBig(p)
			ok := s.ReadOptionalASN1Integer(v, asn1.Tag(pick(in)), big.NewInt(-77))
			return ok, canonBig(v), s
		}, func(in []byte) predResult {
			p := predOptional(pick(in), "-77", predInt(tagInt, nil, nil))(in)
			p.val = strings.TrimPrefix(strings.TrimPrefix(p.val, "present:"), "absent:")
			return p
		}, nil})
		rs = append(rs, reader{"ReadOptionalASN1OctetString" + sfx, func(in []byte, p int) (bool, string, []byte) {
			s := cryptobyte.String(in)
			v := preBytes(p)
			present := p == 1
			ok := s.ReadOptionalASN1OctetString(&v, &present, asn1.Tag(pick(in)))
			if present {
				return ok, "present:" + string(v), s
			}
			if v != nil {
				return ok, "absent:non-nil", s
			}
			return ok, "absent:", s
		}, func(in []byte) predResult { return predOptional(pick(in), "", predOctetInner)(in) }, nil})
		rs = append(rs, reader{"ReadOptionalASN1Boolean" + sfx, func(in []byte, p int) (bool, string, []byte) {
			s := cryptobyte.String(in)
			v := p == 1
			ok := s.ReadOptionalASN1Boolean(&v, asn1.Tag(pick(in)), true)
			return ok, fmt.Sprint(v), s
		}, func(in []byte) predResult {
			p := predOptional(pick(in), "true", predBool)(in)
			p.val = strings.TrimPrefix(strings.TrimPrefix(p.val, "present:"), "absent:")
			return p
		}, nil})
	}
	rs = append(rs, reader{"ReadAnyASN1", func(in []byte, p int) (bool, string, []byte) {
		s := cryptobyte.String(in)
		out := cryptobyte.String(preBytes(p))
		tag := asn1.Tag(preInt[uint8](p))
		ok := s.ReadAnyASN1(&out, &tag)
		return ok, fmt.Sprintf("%02x:", byte(tag)) + string(out), s
	}, predTLV(0, true, false), nil})
	rs = append(rs, reader{"ReadAnyASN1Element", func(in []byte, p int) (bool, string, []byte) {
		s := cryptobyte.String(in)
		out := cryptobyte.String(preBytes(p))
		tag := asn1.Tag(preInt[uint8](p))
		ok := s.ReadAnyASN1Element(&out, &tag)
		return ok, fmt.Sprintf("%02x:", byte(tag)) + string(out), s
	}, predTLV(0, true, true), func(in []byte) (bool, string, []byte) {
		var v encasn1.RawValue
		rest, err := encasn1.Unmarshal(in, &v)
		if err != nil || len(in) == 0 {
			return false, "", nil
		}
		return true, fmt.Sprintf("%02x:", in[0]) + string(v.FullBytes), rest
	}})
	rs = append(rs, reader{"ReadASN1Bytes(OCTET_STRING)", func(in []byte, p int) (bool, string, []byte) {
		s := cryptobyte.String(in)
		out := preBytes(p)
		ok := s.ReadASN1Bytes(&out, asn1.OCTET_STRING)
		return ok, "04:" + string(out), s
	}, predTLV(tagOctet, false, false), func(in []byte) (bool, string, []byte) {
		var v []byte
		rest, err := encasn1.Unmarshal(in, &v)
		return err == nil, "04:" + string(v), rest
	}})
	return rs
}

func TestC23(t *testing.T) {
	m := mon.New(t, "C23")
	defer m.Done()
	m.Rule("case = one byte string built as (kind, mutation): kind in {" + strings.Join(kindNames, ",") + "}, mutation in {" + strings.Join(mutNames, ",") + "}; kind and mutation rotate with the case index (every pair occurs for every seed), values inside are PRNG-drawn with type boundaries (every Go integer type's min/max±2, 2^(8k-1) encoding boundaries, OID arcs at base-128 boundaries and 2^31, times at 1950/2049/2050, leap days). " +
		"Every reader of the package runs on every input. Oracle = X.690 DER predicate (h/ref/der) giving accept/reject/either + class + value + consumed length; BER-but-not-DER time forms (UTCTime without seconds, numeric differential instead of Z) and DER fractional seconds are judged under class keys of their own and are produced for every seed by an index-driven variant rotation; encoding/asn1 only as 'both accept => same value'. Second stream: AddASN1* output equals the reference DER encoder and asn1.Marshal and is read back. distinct key = (kind, mutation, reader, predicate zone/reason)")
	m.Assume("h/ref/der is validated by X.690/layman's-guide vectors and a cross-check against encoding/asn1 in its own unit test")
	m.Assume("zone 'either' (never judged): OID subidentifiers >= 2^31 (not representable in asn1.ObjectIdentifier with a 32-bit int; cryptobyte limits arcs on purpose) and ISO 8601 corner cases of time strings (24:00:00, second 60, year 0000)")
	readers := buildReaders()
	nK := len(kindNames)
	total := m.N(60000, 3000000)
	m.Cases("inputs", total, func(i int64, r *rand.Rand) {
		kind := int(i % int64(nK))
		rot := i / int64(nK)
		slot := int(rot % int64(len(mutRotation)))
		mut := mutRotation[slot]
		occ := -1 // running number of this kind's type-specific cases: drives the variant rotation
		if mut == 13 {
			occ = int(rot/int64(len(mutRotation)))*typeSpecificPerRound + typeSpecificRank[slot]
		}
		in := buildInput(r, kind, mut, occ, m.Thorough())
		m.Count("kind:"+kindNames[kind], 1)
		m.Count("mutation:"+mutNames[mut], 1)
		if i < 40 && i%7 == 0 {
			m.Sample(map[string]any{"kind": kindNames[kind], "mutation": mutNames[mut], "input": mon.Hex(in)})
		}
		runReaders(m, readers, in, kindNames[kind], mutNames[mut])
	})

	// ---- UTCTime with a numeric differential at the 49/50 (and 99/00) year pivot ----
	// Index-driven: YY x {Dec 31 just before midnight, Jan 1 just after} x differential x {with, without seconds};
	// the local time lies within |differential| of the year boundary, so that for half of the sign combinations the
	// UTC instant and the local year digits fall on different sides of the boundary. The century follows the YY
	// digits (RFC 5280 4.1.2.5.1), which is what h/ref/der predicts; encoding/asn1 is compared where it accepts.
	pivotYY := []int{49, 50, 0, 99}
	pivotOff := []int{60, -60, 300, -300, 840, -720, 30} // minutes
	m.Cases("utctime-pivot", m.N(2240, 44800), func(i int64, r *rand.Rand) {
		k := int(i)
		yy := pivotYY[k%4]
		end := k/4%2 == 0
		off := pivotOff[k/8%7]
		withSec := k/56%2 == 0
		a := off
		sign := "+"
		if a < 0 {
			a, sign = -a, "-"
		}
		d := 1 + r.IntN(a) // minutes from the year boundary, 1..|off|
		if r.IntN(3) == 0 {
			d = []int{1, a}[r.IntN(2)]
		}
		mo, day, minOfDay := 12, 31, 1440-d
		if !end {
			mo, day, minOfDay = 1, 1, d-1
		}
		sec := r.IntN(60)
		s := fmt.Sprintf("%02d%02d%02d%02d%02d", yy, mo, day, minOfDay/60, minOfDay%60)
		if withSec {
			s += fmt.Sprintf("%02d", sec)
		}
		s += fmt.Sprintf("%s%02d%02d", sign, a/60, a%60)
		in := der.EncodeTLV(tagUTC, []byte(s))
		// the local year digits and the UTC instant are on different sides of the year boundary iff ...
		straddles := (end && off < 0) || (!end && off > 0)
		m.Count("utctime_pivot_cases", 1)
		if straddles {
			m.Count(fmt.Sprintf("utctime_pivot_straddling:yy=%02d", yy), 1)
			if (yy == 49 && end) || (yy == 50 && !end) { // the boundary crossed is 2049/2050 itself
				m.Count("utctime_pivot_straddling_2050", 1)
			}
		}
		if i < 6 {
			m.Sample(map[string]any{"kind": "utctime-pivot", "string": s, "straddles": straddles})
		}
		runReaders(m, readers, in, "utctime-pivot", fmt.Sprintf("yy=%02d end=%v off=%s%02d%02d sec=%v", yy, end, sign, a/60, a%60, withSec))
	})

	// ---- one destination variable reused across a SEQUENCE of elements ----
	seqM := seqMethods()
	m.Cases("reused-variable-sequences", m.N(2600, 130000), func(i int64, r *rand.Rand) {
		checkSequence(m, i, r, seqM)
	})

	// ---- Add* builders emit DER ----
	m.Cases("builders", m.N(6000, 300000), func(i int64, r *rand.Rand) {
		checkBuilders(m, i, r)
	})

	for _, rd := range readers {
		if strings.Contains(rd.name, "(other-tag)") {
			continue
		}
		m.Gate("accept:"+rd.name, 60, "DER encodings the reader must accept")
		m.Gate("reject:"+rd.name, 300, "inputs the reader must reject")
	}
	for _, c := range []string{"nonminimal-length:long-form-below-128", "nonminimal-length:leading-zero", "indefinite-length", "high-tag-number-form", "truncated-content", "reserved-length-0xff",
		"integer-nonminimal:leading-00", "integer-nonminimal:leading-ff", "integer-empty", "integer-out-of-range-for-type", "boolean-value-not-00-ff", "boolean-length",
		"oid-subidentifier-leading-0x80", "oid-truncated-subidentifier", "oid-empty", "bitstring-unused>7", "bitstring-nonzero-padding-bits", "bitstring-empty-with-unused-bits", "bitstring-empty-contents", "bitstring-not-whole-bytes",
		"utctime-syntax", "utctime-field-range", "generalizedtime-syntax", "generalizedtime-field-range", "trailing-data-inside-explicit-tag", "tag-mismatch"} {
		m.Gate("reject-class:"+c, 40, "near-valid class observed")
	}
	for _, c := range []string{"no-seconds", "offset-instead-of-Z", "no-seconds+offset-instead-of-Z", "generalizedtime-reduced-precision", "generalizedtime-fraction-not-der", "generalizedtime-local"} {
		m.Gate("reject-class:"+c, 8, "BER-but-not-DER time form observed")
	}
	m.Gate("accept-class:fractional-seconds", 5, "DER GeneralizedTime with fractional seconds")
	m.Gate("builder_time_non_utc:AddASN1GeneralizedTime", 200, "GeneralizedTime built from a time in a non-UTC zone")
	m.Gate("builder_time_non_utc:AddASN1UTCTime", 100, "UTCTime built from a time in a non-UTC zone")
	m.Gate("utctime_pivot_straddling_2050", m.N(100, 2000), "UTCTime with a numeric differential whose UTC instant and local year digits lie on different sides of 2050-01-01T00:00Z")
	m.Gate("value-checked-in-class:offset-instead-of-Z", 200, "value of an accepted time with a numeric differential compared with the reference")
	m.Gate("value-checked-in-class:no-seconds+offset-instead-of-Z", 100, "same, without seconds")
	m.Gate("prestate_same_result_on_success", m.N(100000, 5000000), "successful reads repeated into a garbage-filled destination with identical result")
	m.Gate("prestate_failures_observed", m.N(500000, 25000000), "failing reads repeated into a garbage-filled destination")
	m.Gate("sequence_reads_into_reused_variable", m.N(50000, 2500000), "elements of a SEQUENCE decoded into one reused variable and compared with the reference")
	m.Gate("out_aliases_receiver_success", m.N(50000, 2500000), "successful reads whose out parameter is the receiver itself, compared with a read into a separate variable")
	m.Gate("out_aliases_receiver_failure", m.N(100000, 5000000), "failing reads whose out parameter is the receiver itself")
	m.Gate("aliased_values_held", m.N(20000, 1000000), "slices sharing memory with the String re-checked after later reads")
	m.Gate("builder_args_checked", m.N(10000, 500000), "Add* arguments verified unchanged")
	m.Gate("builder_outputs_checked", m.N(20000, 1000000), "AddASN1* outputs compared with the reference encoder")
	m.Gate("std-both-accept:ReadASN1Integer(*int64)", 100, "differential comparisons with encoding/asn1")
}

// mutRotation: every mutation once, "valid" three times, "type-specific" five times.
var mutRotation = []int{0, 1, 2, 3, 13, 4, 5, 6, 0, 7, 8, 13, 9, 10, 11, 13, 12, 0, 14, 13, 15, 16, 17, 13, 18}

// runReaders runs every reader on a private copy of in (with sentinel-filled spare capacity) and judges it.
func runReaders(m *mon.M, readers []reader, in []byte, kindName, mutName string) {
	// readers get a private copy followed by sentinel-filled spare capacity: they must not write through either
	backing := newGuarded(in)
	cp := backing[:len(in)]
	for ri, rd := range readers {
		p := rd.pred(in)
		var ok bool
		var val string
		var rest []byte
		pv, stack := mon.Panics(func() { ok, val, rest = rd.run(cp, 0) })
		m.Eval()
		wit := func() map[string]any {
			return map[string]any{"reader": rd.name, "input": mon.FullHex(trunc(in)), "input_len": len(in), "kind": kindName, "mutation": mutName,
				"predicate": p.zone.String(), "reason": p.reason, "want_value": truncS(p.val), "got_ok": ok, "got_value": truncS(val)}
		}
		if pv != nil {
			w := wit()
			w["panic"] = fmt.Sprint(pv)
			m.Violation("panic:"+mon.PanicSite(stack), w)
			continue
		}
		if !guardedIntact(backing, in) {
			m.Violation("reader-modified-input:"+rd.name, wit())
			backing = newGuarded(in)
			cp = backing[:len(in)]
		}
		// out-parameter pre-state: the same call into a destination pre-filled with garbage (all-ones / long previous
		// content, alternating per input and reader) must report the same ok and leave the same value and remainder
		{
			pre := 1 + (len(in)+ri)%2
			method := strings.TrimSuffix(strings.TrimSuffix(rd.name, "(own-tag)"), "(other-tag)")
			var ok2 bool
			var val2 string
			var rest2 []byte
			pv2, stack2 := mon.Panics(func() { ok2, val2, rest2 = rd.run(cp, pre) })
			m.Count(fmt.Sprintf("prestate_runs:%d", pre), 1)
			switch {
			case pv2 != nil:
				w := wit()
				w["panic"], w["prestate"] = fmt.Sprint(pv2), pre
				m.Violation("panic:"+mon.PanicSite(stack2), w)
			case ok2 != ok || (ok && (val2 != val || len(rest2) != len(rest))):
				w := wit()
				w["prestate"], w["ok_with_prestate"], w["value_with_prestate"] = pre, ok2, truncS(val2)
				m.Violation("out-param-prestate-leaks:"+method, w)
			case ok:
				m.Count("prestate_same_result_on_success", 1)
			default:
				// both failed: note (not judged) whether the destination was written although the read failed;
				// baseline = the same call on an input that fails before anything is decoded
				bok, bval, _ := rd.run(cp[:min(1, len(cp))], pre)
				if !bok && bval != val2 {
					m.Count("destination-modified-on-failure(not judged):"+method, 1)
				}
				m.Count("prestate_failures_observed", 1)
			}
		}
		// encoding/asn1 as second witness for the value (never for acceptance)
		var sok bool
		var sval string
		var srest []byte
		if rd.std != nil {
			sok, sval, srest = rd.std(in)
		}
		// wrongValue: cryptobyte accepted and returned something else than the reference predicts. If encoding/asn1
		// accepts too and sides with cryptobyte the two oracles disagree: inconclusive, not a violation.
		wrongValue := func(key string) {
			if sok && sval == val {
				m.Inconclusive(fmt.Sprintf("DER reference disagrees with both cryptobyte and encoding/asn1 on %x (%s): %s vs %s", trunc(in), rd.name, truncS(p.val), truncS(val)))
				return
			}
			w := wit()
			if sok {
				w["encoding_asn1_value"] = truncS(sval)
			}
			m.Violation(key, w)
		}
		m.Distinct(fmt.Sprintf("%s/%s/%s/%s/%s", kindName, mutName, rd.name, p.zone, p.reason))
		switch p.zone {
		case der.Accept:
			m.Count("accept:"+rd.name, 1)
			class := ""
			if p.reason != "" { // a DER form with a class of its own (fractional seconds)
				class = ":" + p.reason
				m.Count("accept-class:"+p.reason, 1)
			}
			if !ok {
				m.Violation("rejects-der:"+rd.name+class, wit())
			} else {
				if val != p.val {
					wrongValue("wrong-value:" + rd.name + class)
				}
				if len(rest) != len(in)-p.total || !bytes.Equal(rest, in[p.total:]) {
					w := wit()
					w["rest_len"], w["want_rest_len"] = len(rest), len(in)-p.total
					m.Violation("wrong-advance:"+rd.name, w)
				}
			}
		case der.Reject:
			m.Count("reject:"+rd.name, 1)
			m.Count("reject-class:"+p.reason, 1)
			if ok {
				m.Violation("accepts-non-der:"+rd.name+":"+p.reason, wit())
				if p.val != "" { // not DER but the value denoted is unambiguous: judged under its own key, never the acceptance key
					m.Count("value-checked-in-class:"+p.reason, 1)
					if val != p.val {
						wrongValue("wrong-value:" + rd.name + ":" + p.reason)
					}
				}
			}
		default:
			if ok {
				m.Count("either-accepted:"+p.reason, 1)
				if val != p.val { // whatever the form, the instant / arcs denoted are unambiguous
					wrongValue("wrong-value:" + rd.name + ":" + p.reason)
				}
			} else {
				m.Count("either-rejected:"+p.reason, 1)
			}
		}
		if rd.std != nil {
			if sok && ok {
				m.Count("std-both-accept:"+rd.name, 1)
				if sval != val || len(srest) != len(rest) {
					if p.val != "" && val == p.val && len(srest) == len(rest) {
						m.Inconclusive(fmt.Sprintf("encoding/asn1 disagrees with the DER reference and cryptobyte on %x (%s): %s vs %s", trunc(in), rd.name, truncS(sval), truncS(val)))
					} else {
						w := wit()
						w["encoding_asn1_value"] = truncS(sval)
						m.Violation("differs-from-encoding-asn1:"+rd.name, w)
					}
				}
			} else if sok != ok {
				m.Count("std-acceptance-differs(not judged):"+rd.name, 1)
			}
		}
	}
	// PeekASN1Tag on well-formed elements and on the empty string
	if t, why := der.ParseTLV(in); why == "" {
		own, other := tagsFor(in)
		if !cryptobyte.String(in).PeekASN1Tag(asn1.Tag(own)) || cryptobyte.String(in).PeekASN1Tag(asn1.Tag(other)) || cryptobyte.String(nil).PeekASN1Tag(asn1.Tag(own)) {
			m.Violation("PeekASN1Tag-wrong", map[string]any{"input": mon.FullHex(trunc(in)), "tag": t.Tag})
		}
		m.Count("peek_checked", 1)
	}
	if !guardedIntact(backing, in) {
		m.Violation("reader-modified-input:PeekASN1Tag", map[string]any{"input": mon.FullHex(trunc(in))})
	}
	aliasCheck(m, in)
	aliasReceiverCheck(m, in)
}

// aliasReceiverCheck: for every method whose out parameter is a *String (or a *[]byte that can be the receiver
// itself) the in-place idiom d.Method(&d, ...) must report the same ok as a call into a separate variable and, on
// success, leave in d exactly the slice the separate call stores in out (content for in-place descent). After a
// failed call the state of d is only counted.
func aliasReceiverCheck(m *mon.M, in []byte) {
	if len(in) > 4096 {
		return
	}
	own, other := tagsFor(in)
	type am struct {
		name string
		// call reports ok and whether out is written on this success path
		call func(s, out *cryptobyte.String) (ok, written bool)
	}
	k := min(3, len(in))
	ms := []am{
		{"ReadASN1", func(s, out *cryptobyte.String) (bool, bool) { return s.ReadASN1(out, asn1.Tag(own)), true }},
		{"ReadASN1Element", func(s, out *cryptobyte.String) (bool, bool) { return s.ReadASN1Element(out, asn1.Tag(own)), true }},
		{"ReadAnyASN1", func(s, out *cryptobyte.String) (bool, bool) { var t asn1.Tag; return s.ReadAnyASN1(out, &t), true }},
		{"ReadAnyASN1Element", func(s, out *cryptobyte.String) (bool, bool) {
			var t asn1.Tag
			return s.ReadAnyASN1Element(out, &t), true
		}},
		{"ReadASN1Bytes", func(s, out *cryptobyte.String) (bool, bool) {
			return s.ReadASN1Bytes((*[]byte)(out), asn1.Tag(own)), true
		}},
		{"ReadOptionalASN1", func(s, out *cryptobyte.String) (bool, bool) {
			var p bool
			ok := s.ReadOptionalASN1(out, &p, asn1.Tag(own))
			return ok, p
		}},
		{"ReadOptionalASN1", func(s, out *cryptobyte.String) (bool, bool) {
			var p bool
			ok := s.ReadOptionalASN1(out, &p, asn1.Tag(other))
			return ok, p
		}},
		{"ReadOptionalASN1OctetString", func(s, out *cryptobyte.String) (bool, bool) {
			var p bool
			return s.ReadOptionalASN1OctetString((*[]byte)(out), &p, asn1.Tag(own)), true
		}},
		{"ReadASN1Integer(*[]byte)", func(s, out *cryptobyte.String) (bool, bool) { return s.ReadASN1Integer((*[]byte)(out)), true }},
		{"ReadASN1BitStringAsBytes", func(s, out *cryptobyte.String) (bool, bool) { return s.ReadASN1BitStringAsBytes((*[]byte)(out)), true }},
		{"ReadUint8LengthPrefixed", func(s, out *cryptobyte.String) (bool, bool) { return s.ReadUint8LengthPrefixed(out), true }},
		{"ReadUint16LengthPrefixed", func(s, out *cryptobyte.String) (bool, bool) { return s.ReadUint16LengthPrefixed(out), true }},
		{"ReadUint24LengthPrefixed", func(s, out *cryptobyte.String) (bool, bool) { return s.ReadUint24LengthPrefixed(out), true }},
		{"ReadBytes", func(s, out *cryptobyte.String) (bool, bool) { return s.ReadBytes((*[]byte)(out), k), true }},
	}
	backing := newGuarded(in)
	cp := backing[:len(in)]
	for _, a := range ms {
		s1 := cryptobyte.String(cp)
		var out cryptobyte.String
		ok1, written := a.call(&s1, &out)
		d := cryptobyte.String(cp)
		var ok2 bool
		pv, stack := mon.Panics(func() { ok2, _ = a.call(&d, &d) })
		m.Eval()
		wit := func() map[string]any {
			return map[string]any{"method": a.name, "input": mon.FullHex(trunc(in)), "separate_ok": ok1, "separate_out": mon.Hex(out), "aliased_ok": ok2, "aliased_receiver_after": mon.Hex(d)}
		}
		switch {
		case pv != nil:
			w := wit()
			w["panic"] = fmt.Sprint(pv)
			m.Violation("panic:"+mon.PanicSite(stack), w)
		case ok1 != ok2:
			m.Violation("out-aliases-receiver-wrong:"+a.name, wit())
		case ok1 && written:
			m.Count("out_aliases_receiver_success", 1)
			if len(d) != len(out) || (len(d) > 0 && &d[0] != &out[0]) {
				m.Violation("out-aliases-receiver-wrong:"+a.name, wit())
			}
		case ok1: // optional element absent: nothing is written, the receiver stays where it was
			m.Count("out_aliases_receiver_absent", 1)
			if len(d) != len(cp) || (len(d) > 0 && &d[0] != &cp[0]) {
				m.Violation("out-aliases-receiver-wrong:"+a.name, wit())
			}
		default:
			m.Count("out_aliases_receiver_failure", 1)
			if len(d) != len(cp) {
				m.Count("receiver-modified-on-failure(not judged):"+a.name, 1)
			}
		}
	}
	if !guardedIntact(backing, in) {
		m.Violation("reader-modified-input:out-aliases-receiver", map[string]any{"input": mon.FullHex(trunc(in))})
	}
}

const guardLen = 24

// newGuarded returns in followed by guardLen sentinel bytes, all inside one allocation.
func newGuarded(in []byte) []byte {
	b := make([]byte, len(in)+guardLen)
	copy(b, in)
	for i := len(in); i < len(b); i++ {
		b[i] = 0xa5
	}
	return b
}

func guardedIntact(b, in []byte) bool {
	if len(b) != len(in)+guardLen || !bytes.Equal(b[:len(in)], in) {
		return false
	}
	for _, c := range b[len(in):] {
		if c != 0xa5 {
			return false
		}
	}
	return true
}

// aliasCheck: values that share memory with the String (ReadASN1Bytes, ReadASN1Element, ReadASN1Integer(*[]byte),
// BIT STRING bytes, ReadBytes) must still equal their snapshot after every other reader ran on the rest of the
// same String, and the String's memory (incl. spare capacity) must be untouched.
func aliasCheck(m *mon.M, in []byte) {
	tl, why := der.ParseTLV(in)
	if why != "" || len(in) > 4096 {
		return
	}
	// first element, then the same element again, then an INTEGER and a BIT STRING to give the later reads something to do
	tail := append(append([]byte(nil), in[:tl.Total]...), 0x02, 0x02, 0x01, 0x00, 0x03, 0x02, 0x00, 0xff, 0x04, 0x01, 0x07)
	whole := append(append([]byte(nil), in[:tl.Total]...), tail...)
	backing := newGuarded(whole)
	s := cryptobyte.String(backing[:len(whole)])
	type held struct {
		name string
		b    []byte
		snap []byte
	}
	var hs []held
	hold := func(name string, b []byte) { hs = append(hs, held{name, b, append([]byte(nil), b...)}) }
	var a []byte
	var e, any1 cryptobyte.String
	var tag asn1.Tag
	cp := s
	if cp.ReadASN1Bytes(&a, asn1.Tag(tl.Tag)) {
		hold("ReadASN1Bytes", a)
	}
	if s.ReadASN1Element(&e, asn1.Tag(tl.Tag)) {
		hold("ReadASN1Element", e)
	}
	if s.ReadAnyASN1(&any1, &tag) {
		hold("ReadAnyASN1", any1)
	}
	var mag []byte
	if s.ReadASN1Integer(&mag) {
		hold("ReadASN1Integer(*[]byte)", mag)
	}
	var bs encasn1.BitString
	if s.ReadASN1BitString(&bs) {
		hold("ReadASN1BitString", bs.Bytes)
	}
	var raw []byte
	if s.ReadBytes(&raw, 2) {
		hold("ReadBytes", raw)
	}
	var u uint8
	s.ReadUint8(&u)
	cpy := make([]byte, 1)
	s.CopyBytes(cpy)
	// typed reads over the held memory itself
	for _, h := range hs {
		t := cryptobyte.String(h.b)
		var x int64
		var bi big.Int
		var oid encasn1.ObjectIdentifier
		var tm time.Time
		t.ReadASN1Integer(&x)
		t = cryptobyte.String(h.b)
		t.ReadASN1Integer(&bi)
		t = cryptobyte.String(h.b)
		t.ReadASN1ObjectIdentifier(&oid)
		t = cryptobyte.String(h.b)
		t.ReadASN1UTCTime(&tm)
		t = cryptobyte.String(h.b)
		t.SkipASN1(asn1.Tag(tl.Tag))
	}
	m.Count("alias_checks", 1)
	m.Count("aliased_values_held", len(hs))
	for _, h := range hs {
		if !bytes.Equal(h.b, h.snap) {
			m.Violation("aliased-value-changed-by-later-read:"+h.name, map[string]any{"input": mon.FullHex(whole)})
		}
	}
	if !guardedIntact(backing, whole) {
		m.Violation("reader-modified-input:read-sequence", map[string]any{"input": mon.FullHex(whole)})
	}
}

var typeSpecificRank, typeSpecificPerRound = func() (map[int]int, int) {
	rk := map[int]int{}
	for s, mu := range mutRotation {
		if mu == 13 {
			rk[s] = len(rk)
		}
	}
	return rk, len(rk)
}()

func trunc(b []byte) []byte {
	if len(b) > 600 {
		return b[:600]
	}
	return b
}

// truncS renders a canonical value for a witness: printable text as is, anything else as hex.
func truncS(s string) string {
	more := ""
	if len(s) > 200 {
		s, more = s[:200], "…"
	}
	for _, c := range []byte(s) {
		if c < 0x20 || c > 0x7e {
			return fmt.Sprintf("hex:%x%s", s, more)
		}
	}
	return s + more
}

// ---------------------------------------------------------------------------
// Builder side
// ---------------------------------------------------------------------------

func checkBuilders(m *mon.M, i int64, r *rand.Rand) {
	type bcase struct {
		name    string
		build   func(b *cryptobyte.Builder)
		want    []byte // nil: error expected
		wantErr bool
		std     any // value for asn1.Marshal (nil: none)
		stdPar  string
		alt     []byte // time in a non-UTC zone: the non-DER encoding with a numeric differential
		skip    bool   // time in a non-UTC zone whose UTC year leaves the representable range: not judged
	}
	var cs []bcase
	v := randInt(r)
	if v.IsInt64() {
		x := v.Int64()
		cs = append(cs, bcase{name: "AddASN1Int64", build: func(b *cryptobyte.Builder) { b.AddASN1Int64(x) }, want: der.EncodeTLV(tagInt, der.IntContent(v)), std: x})
		tg := []byte{tagCtxInt, 0x80, 0x9e, 0x42, tagInt}[r.IntN(5)]
		cs = append(cs, bcase{name: "AddASN1Int64WithTag", build: func(b *cryptobyte.Builder) { b.AddASN1Int64WithTag(x, asn1.Tag(tg)) }, want: der.EncodeTLV(tg, der.IntContent(v))})
		cs = append(cs, bcase{name: "AddASN1Enum", build: func(b *cryptobyte.Builder) { b.AddASN1Enum(x) }, want: der.EncodeTLV(tagEnum, der.IntContent(v)), std: encasn1.Enumerated(x)})
	}
	if v.IsUint64() {
		x := v.Uint64()
		cs = append(cs, bcase{name: "AddASN1Uint64", build: func(b *cryptobyte.Builder) { b.AddASN1Uint64(x) }, want: der.EncodeTLV(tagInt, der.IntContent(v)), std: v})
	}
	cs = append(cs, bcase{name: "AddASN1BigInt", build: func(b *cryptobyte.Builder) { b.AddASN1BigInt(v) }, want: der.EncodeTLV(tagInt, der.IntContent(v)), std: v})
	octSnap := mon.Bytes(r, []int{0, 1, 20, 127, 128, 255, 256, 300, 65535, 65536}[r.IntN(10)])
	octB := newGuarded(octSnap) // arguments are handed over with sentinel-filled spare capacity and verified afterwards
	oct := octB[:len(octSnap)]
	cs = append(cs, bcase{name: "AddASN1OctetString", build: func(b *cryptobyte.Builder) { b.AddASN1OctetString(oct) }, want: der.EncodeTLV(tagOctet, oct), std: oct})
	bitsSnap := mon.Bytes(r, []int{0, 1, 20, 126, 127, 128, 255}[r.IntN(7)])
	bitsB := newGuarded(bitsSnap)
	bits := bitsB[:len(bitsSnap)]
	vSnap := new(big.Int).Set(v)
	cs = append(cs, bcase{name: "AddASN1BitString", build: func(b *cryptobyte.Builder) { b.AddASN1BitString(bits) }, want: der.EncodeTLV(tagBits, append([]byte{0}, bits...)),
		std: encasn1.BitString{Bytes: bits, BitLength: 8 * len(bits)}})
	bv := r.IntN(2) == 0
	bc := byte(0)
	if bv {
		bc = 0xff
	}
	cs = append(cs, bcase{name: "AddASN1Boolean", build: func(b *cryptobyte.Builder) { b.AddASN1Boolean(bv) }, want: []byte{tagBool, 1, bc}, std: bv})
	cs = append(cs, bcase{name: "AddASN1NULL", build: func(b *cryptobyte.Builder) { b.AddASN1NULL() }, want: []byte{tagNull, 0}, std: encasn1.NullRawValue})
	// OIDs: valid and invalid
	arcs := randArcs(r)
	oid := make(encasn1.ObjectIdentifier, len(arcs))
	for k, a := range arcs {
		oid[k] = int(a.Int64())
	}
	cs = append(cs, bcase{name: "AddASN1ObjectIdentifier", build: func(b *cryptobyte.Builder) { b.AddASN1ObjectIdentifier(oid) }, want: der.EncodeTLV(tagOID, der.OIDContent(arcs)), std: oid})
	if r.IntN(3) == 0 {
		bad := append(encasn1.ObjectIdentifier(nil), oid...)
		switch r.IntN(5) {
		case 0:
			bad = bad[:1]
		case 1:
			bad = nil
		case 2:
			bad[0] = 3 + r.IntN(5)
		case 3:
			bad[0], bad[1] = r.IntN(2), 40+r.IntN(100)
		case 4:
			bad[r.IntN(len(bad))] = -1 - r.IntN(5)
		}
		cs = append(cs, bcase{name: "AddASN1ObjectIdentifier(invalid)", build: func(b *cryptobyte.Builder) { b.AddASN1ObjectIdentifier(bad) }, wantErr: true})
	}
	// times
	nonUTC := i%4 == 0 // by construction, whatever the seed
	c := randCivil(r, nonUTC && i%8 == 0)
	loc := time.UTC
	offSec := 0
	if nonUTC {
		offSec = []int{3600, -3600, 19800, -12 * 3600, 14 * 3600, 60}[r.IntN(6)]
		loc = time.FixedZone("", offSec)
	}
	tm := time.Date(c.y, time.Month(c.mo), c.d, c.h, c.mi, c.s, 0, loc)
	if r.IntN(3) == 0 {
		tm = tm.Add(time.Duration(r.IntN(1e9))) // sub-second part must be dropped
	}
	// DER: the instant in UTC with Z. For a non-UTC zone the civil fields are shifted by the offset (time package
	// arithmetic, trusted); the differential form is the known non-DER alternative.
	u := tm.UTC()
	cu := civil{u.Year(), int(u.Month()), u.Day(), u.Hour(), u.Minute(), u.Second()}
	diff := ""
	if nonUTC {
		a := offSec
		sign := "+"
		if a < 0 {
			a, sign = -a, "-"
		}
		diff = fmt.Sprintf("%s%02d%02d", sign, a/3600, a%3600/60)
	}
	var galt, ualt []byte
	if nonUTC {
		g, ut := c.gen(), c.utc()
		galt = der.EncodeTLV(tagGenT, []byte(g[:len(g)-1]+diff))
		ualt = der.EncodeTLV(tagUTC, []byte(ut[:len(ut)-1]+diff))
	}
	cs = append(cs, bcase{name: "AddASN1GeneralizedTime", build: func(b *cryptobyte.Builder) { b.AddASN1GeneralizedTime(tm) }, want: der.EncodeTLV(tagGenT, []byte(cu.gen())), std: tm, stdPar: "generalized",
		alt: galt, skip: cu.y < 1 || cu.y > 9999})
	if c.y >= 1950 && c.y < 2050 {
		cs = append(cs, bcase{name: "AddASN1UTCTime", build: func(b *cryptobyte.Builder) { b.AddASN1UTCTime(tm) }, want: der.EncodeTLV(tagUTC, []byte(cu.utc())), std: tm, stdPar: "utc",
			alt: ualt, skip: cu.y < 1950 || cu.y > 2049})
	} else if !nonUTC {
		cs = append(cs, bcase{name: "AddASN1UTCTime(out-of-range)", build: func(b *cryptobyte.Builder) { b.AddASN1UTCTime(tm) }, wantErr: true})
	}
	if r.IntN(8) == 0 {
		y := []int{-1, -100, 10000, 12000}[r.IntN(4)]
		far := time.Date(y, 1, 1, 0, 0, 0, 0, time.UTC)
		cs = append(cs, bcase{name: "AddASN1GeneralizedTime(out-of-range)", build: func(b *cryptobyte.Builder) { b.AddASN1GeneralizedTime(far) }, wantErr: true})
	}
	var oidSnap encasn1.ObjectIdentifier
	defer func() {
		m.Count("builder_args_checked", 4)
		if !guardedIntact(octB, octSnap) {
			m.Violation("builder-modified-argument:AddASN1OctetString", map[string]any{"arg": mon.Hex(octSnap)})
		}
		if !guardedIntact(bitsB, bitsSnap) {
			m.Violation("builder-modified-argument:AddASN1BitString", map[string]any{"arg": mon.Hex(bitsSnap)})
		}
		if v.Cmp(vSnap) != 0 {
			m.Violation("builder-modified-argument:AddASN1BigInt", map[string]any{"arg": vSnap.String()})
		}
		if !oid.Equal(oidSnap) {
			m.Violation("builder-modified-argument:AddASN1ObjectIdentifier", map[string]any{"arg": oidSnap.String()})
		}
	}()
	oidSnap = append(oidSnap, oid...)
	for _, bcs := range cs {
		// random embedding: alone, or inside a SEQUENCE after another element
		nested := r.IntN(3) == 0
		var b cryptobyte.Builder
		var out []byte
		var err error
		pv, stack := mon.Panics(func() {
			if nested {
				b.AddASN1(asn1.SEQUENCE, func(c *cryptobyte.Builder) {
					c.AddASN1NULL()
					bcs.build(c)
				})
			} else {
				bcs.build(&b)
			}
			out, err = b.Bytes()
		})
		m.Eval()
		m.Count("builder_outputs_checked", 1)
		m.Count("builder:"+bcs.name, 1)
		m.Distinct(fmt.Sprintf("builder/%s/nested=%v", bcs.name, nested))
		wit := map[string]any{"builder": bcs.name, "nested": nested, "err": fmt.Sprint(err)}
		full := func() map[string]any {
			wit["value"], wit["got"] = truncS(fmt.Sprint(bcs.std)), mon.Hex(out)
			return wit
		}
		if pv != nil {
			full()
			wit["panic"] = fmt.Sprint(pv)
			m.Violation("panic:"+mon.PanicSite(stack), wit)
			continue
		}
		if bcs.wantErr {
			if err == nil {
				m.Violation("builder-accepts-unrepresentable:"+bcs.name, full())
			}
			continue
		}
		want := bcs.want
		if nested {
			want = der.EncodeTLV(tagSeq, append([]byte{tagNull, 0}, want...))
		}
		if bcs.skip {
			m.Count("builder_time_utc_year_out_of_range(not judged)", 1)
			continue
		}
		if bcs.alt != nil {
			m.Count("builder_time_non_utc:"+bcs.name, 1)
			alt := bcs.alt
			if nested {
				alt = der.EncodeTLV(tagSeq, append([]byte{tagNull, 0}, alt...))
			}
			if err == nil && bytes.Equal(out, alt) {
				wit["want"] = mon.Hex(want)
				m.Violation("emits-non-der:"+bcs.name+":non-utc-offset", full())
				continue
			}
		}
		if err != nil {
			m.Violation("builder-error-on-representable:"+bcs.name, full())
			continue
		}
		if !bytes.Equal(out, want) {
			wit["want"] = mon.Hex(want)
			m.Violation("builder-not-der:"+bcs.name, full())
		}
		if bcs.std != nil && !nested {
			var sb []byte
			var serr error
			if bcs.stdPar != "" {
				sb, serr = encasn1.MarshalWithParams(bcs.std, bcs.stdPar)
			} else {
				sb, serr = encasn1.Marshal(bcs.std)
			}
			if serr == nil {
				m.Count("builder_vs_asn1_marshal", 1)
				if !bytes.Equal(sb, out) {
					if bytes.Equal(out, want) {
						m.Inconclusive(fmt.Sprintf("asn1.Marshal disagrees with reference DER and cryptobyte for %s: %x vs %x", bcs.name, trunc(sb), trunc(out)))
					} else {
						wit["asn1_marshal"], wit["want"] = mon.Hex(sb), mon.Hex(want)
						m.Violation("builder-differs-from-asn1-marshal:"+bcs.name, full())
					}
				}
			}
		}
	}
}

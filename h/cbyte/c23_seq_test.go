package cbyte

import (
	encasn1 "encoding/asn1"
	"fmt"
	"math/big"
	"math/rand/v2"
	"time"

	"golang.org/x/crypto/cryptobyte"
	"golang.org/x/crypto/cryptobyte/asn1"
	"verif/mon"
	"verif/ref/der"
)

// ---------------------------------------------------------------------------
// "Reused variable across a sequence": a SEQUENCE of many elements is decoded
// in a loop into ONE destination variable (as real parsers do); every decoded
// value is compared with the value that was encoded. A mismatch that
// disappears when the same element is read into a fresh zero variable is a
// pre-state leak.
// ---------------------------------------------------------------------------

type seqMethod struct {
	name    string
	gen     func(r *rand.Rand) (enc []byte, want string)
	newDest func() any
	read    func(s *cryptobyte.String, dest any) (bool, string)
}

func int64Val(r *rand.Rand, nonNeg bool) *big.Int {
	for {
		v := randInt(r)
		if !v.IsInt64() || (nonNeg && v.Sign() < 0) {
			continue
		}
		return v
	}
}

func genInt(tag byte, nonNeg bool, lo, hi int64) func(r *rand.Rand) ([]byte, string) {
	return func(r *rand.Rand) ([]byte, string) {
		for {
			v := int64Val(r, nonNeg)
			if lo != hi && (v.Int64() < lo || v.Int64() > hi) {
				continue
			}
			return der.EncodeTLV(tag, der.IntContent(v)), canonBig(v)
		}
	}
}

func genBig(r *rand.Rand) ([]byte, string) {
	v := randInt(r)
	return der.EncodeTLV(tagInt, der.IntContent(v)), canonBig(v)
}

func wrap0(g func(r *rand.Rand) ([]byte, string)) func(r *rand.Rand) ([]byte, string) {
	return func(r *rand.Rand) ([]byte, string) {
		e, w := g(r)
		return der.EncodeTLV(tagCtx0, e), w
	}
}

func seqMethods() []seqMethod {
	ctx0 := asn1.Tag(0).ContextSpecific().Constructed()
	ms := []seqMethod{
		{"ReadASN1Integer(*int64)", genInt(tagInt, false, 0, 0), func() any { return new(int64) }, func(s *cryptobyte.String, d any) (bool, string) {
			ok := s.ReadASN1Integer(d.(*int64))
			return ok, fmt.Sprint(*d.(*int64))
		}},
		{"ReadASN1Int64WithTag", genInt(tagInt, false, 0, 0), func() any { return new(int64) }, func(s *cryptobyte.String, d any) (bool, string) {
			ok := s.ReadASN1Int64WithTag(d.(*int64), asn1.INTEGER)
			return ok, fmt.Sprint(*d.(*int64))
		}},
		{"ReadASN1Int64WithTag", genInt(tagCtxInt, false, 0, 0), func() any { return new(int64) }, func(s *cryptobyte.String, d any) (bool, string) {
			ok := s.ReadASN1Int64WithTag(d.(*int64), asn1.Tag(tagCtxInt))
			return ok, fmt.Sprint(*d.(*int64))
		}},
		{"ReadASN1Int64WithTag", genInt(tagCtxInt, true, 0, 1<<40), func() any { return new(int64) }, func(s *cryptobyte.String, d any) (bool, string) {
			ok := s.ReadASN1Int64WithTag(d.(*int64), asn1.Tag(tagCtxInt))
			return ok, fmt.Sprint(*d.(*int64))
		}},
		{"ReadASN1Integer(*int)", genInt(tagInt, false, 0, 0), func() any { return new(int) }, func(s *cryptobyte.String, d any) (bool, string) {
			ok := s.ReadASN1Integer(d.(*int))
			return ok, fmt.Sprint(*d.(*int))
		}},
		{"ReadASN1Integer(*int32)", genInt(tagInt, false, -1<<31, 1<<31-1), func() any { return new(int32) }, func(s *cryptobyte.String, d any) (bool, string) {
			ok := s.ReadASN1Integer(d.(*int32))
			return ok, fmt.Sprint(*d.(*int32))
		}},
		{"ReadASN1Integer(*uint8)", genInt(tagInt, true, 0, 255), func() any { return new(uint8) }, func(s *cryptobyte.String, d any) (bool, string) {
			ok := s.ReadASN1Integer(d.(*uint8))
			return ok, fmt.Sprint(*d.(*uint8))
		}},
		{"ReadASN1Integer(*uint64)", genInt(tagInt, true, 0, 0), func() any { return new(uint64) }, func(s *cryptobyte.String, d any) (bool, string) {
			ok := s.ReadASN1Integer(d.(*uint64))
			return ok, fmt.Sprint(*d.(*uint64))
		}},
		{"ReadASN1Integer(*big.Int)", genBig, func() any { return new(big.Int) }, func(s *cryptobyte.String, d any) (bool, string) {
			ok := s.ReadASN1Integer(d.(*big.Int))
			return ok, canonBig(d.(*big.Int))
		}},
		{"ReadASN1Integer(*[]byte)", genInt(tagInt, true, 0, 0), func() any { return new([]byte) }, func(s *cryptobyte.String, d any) (bool, string) {
			ok := s.ReadASN1Integer(d.(*[]byte))
			return ok, canonBig(new(big.Int).SetBytes(*d.(*[]byte)))
		}},
		{"ReadASN1Enum", genInt(tagEnum, false, 0, 0), func() any { return new(int) }, func(s *cryptobyte.String, d any) (bool, string) {
			ok := s.ReadASN1Enum(d.(*int))
			return ok, fmt.Sprint(*d.(*int))
		}},
		{"ReadOptionalASN1Integer(int64)", wrap0(genInt(tagInt, false, 0, 0)), func() any { return new(int64) }, func(s *cryptobyte.String, d any) (bool, string) {
			ok := s.ReadOptionalASN1Integer(d.(*int64), ctx0, int64(-77))
			return ok, fmt.Sprint(*d.(*int64))
		}},
		{"ReadOptionalASN1Integer(*big.Int)", wrap0(genBig), func() any { return new(big.Int) }, func(s *cryptobyte.String, d any) (bool, string) {
			ok := s.ReadOptionalASN1Integer(d.(*big.Int), ctx0, big.NewInt(-77))
			return ok, canonBig(d.(*big.Int))
		}},
		{"ReadASN1ObjectIdentifier", func(r *rand.Rand) ([]byte, string) {
			for {
				a := randArcs(r)
				c := der.OIDContent(a)
				if _, z, _ := der.CheckOID(c); z != der.Accept {
					continue // a subidentifier >= 2^31: not judged
				}
				return der.EncodeTLV(tagOID, c), oidString(a)
			}
		}, func() any { return new(encasn1.ObjectIdentifier) }, func(s *cryptobyte.String, d any) (bool, string) {
			ok := s.ReadASN1ObjectIdentifier(d.(*encasn1.ObjectIdentifier))
			return ok, d.(*encasn1.ObjectIdentifier).String()
		}},
		{"ReadASN1UTCTime", func(r *rand.Rand) ([]byte, string) {
			c := randCivil(r, true)
			v, _, _ := der.CheckUTCTime([]byte(c.utc()))
			return der.EncodeTLV(tagUTC, []byte(c.utc())), fmt.Sprint(v.Unix) + "/0"
		}, func() any { return new(time.Time) }, readTime(false)},
		{"ReadASN1GeneralizedTime", func(r *rand.Rand) ([]byte, string) {
			c := randCivil(r, false)
			v, _, _ := der.CheckGeneralizedTime([]byte(c.gen()))
			return der.EncodeTLV(tagGenT, []byte(c.gen())), fmt.Sprint(v.Unix) + "/0"
		}, func() any { return new(time.Time) }, readTime(true)},
		{"ReadASN1Boolean", func(r *rand.Rand) ([]byte, string) {
			if r.IntN(2) == 0 {
				return []byte{tagBool, 1, 0xff}, "true"
			}
			return []byte{tagBool, 1, 0}, "false"
		}, func() any { return new(bool) }, func(s *cryptobyte.String, d any) (bool, string) {
			ok := s.ReadASN1Boolean(d.(*bool))
			return ok, fmt.Sprint(*d.(*bool))
		}},
		{"ReadOptionalASN1Boolean", wrap0(func(r *rand.Rand) ([]byte, string) {
			if r.IntN(2) == 0 {
				return []byte{tagBool, 1, 0xff}, "true"
			}
			return []byte{tagBool, 1, 0}, "false"
		}), func() any { return new(bool) }, func(s *cryptobyte.String, d any) (bool, string) {
			ok := s.ReadOptionalASN1Boolean(d.(*bool), ctx0, false)
			return ok, fmt.Sprint(*d.(*bool))
		}},
		{"ReadASN1BitString", genBits, func() any { return new(encasn1.BitString) }, func(s *cryptobyte.String, d any) (bool, string) {
			b := d.(*encasn1.BitString)
			ok := s.ReadASN1BitString(b)
			return ok, fmt.Sprintf("%x/%d", b.Bytes, b.BitLength)
		}},
		{"ReadASN1BitStringAsBytes", func(r *rand.Rand) ([]byte, string) {
			b := mon.Bytes(r, r.IntN(40))
			return der.EncodeTLV(tagBits, append([]byte{0}, b...)), fmt.Sprintf("%x", b)
		}, func() any { return new([]byte) }, func(s *cryptobyte.String, d any) (bool, string) {
			ok := s.ReadASN1BitStringAsBytes(d.(*[]byte))
			return ok, fmt.Sprintf("%x", *d.(*[]byte))
		}},
		{"ReadASN1Bytes", genOctets(false), func() any { return new([]byte) }, func(s *cryptobyte.String, d any) (bool, string) {
			ok := s.ReadASN1Bytes(d.(*[]byte), asn1.OCTET_STRING)
			return ok, fmt.Sprintf("%x", *d.(*[]byte))
		}},
		{"ReadASN1", genOctets(false), func() any { return new(cryptobyte.String) }, func(s *cryptobyte.String, d any) (bool, string) {
			ok := s.ReadASN1(d.(*cryptobyte.String), asn1.OCTET_STRING)
			return ok, fmt.Sprintf("%x", []byte(*d.(*cryptobyte.String)))
		}},
		{"ReadASN1Element", func(r *rand.Rand) ([]byte, string) {
			e, _ := genOctets(false)(r)
			return e, fmt.Sprintf("%x", e)
		}, func() any { return new(cryptobyte.String) }, func(s *cryptobyte.String, d any) (bool, string) {
			ok := s.ReadASN1Element(d.(*cryptobyte.String), asn1.OCTET_STRING)
			return ok, fmt.Sprintf("%x", []byte(*d.(*cryptobyte.String)))
		}},
		{"ReadAnyASN1", func(r *rand.Rand) ([]byte, string) {
			tag := []byte{tagOctet, tagSeq, 0x0c, 0x80, 0xa1, tagInt}[r.IntN(6)]
			b := mon.Bytes(r, r.IntN(40))
			return der.EncodeTLV(tag, b), fmt.Sprintf("%02x:%x", tag, b)
		}, func() any { return &anyDest{} }, func(s *cryptobyte.String, d any) (bool, string) {
			a := d.(*anyDest)
			ok := s.ReadAnyASN1(&a.out, &a.tag)
			return ok, fmt.Sprintf("%02x:%x", byte(a.tag), []byte(a.out))
		}},
		{"ReadOptionalASN1OctetString", wrap0(genOctets(false)), func() any { return &optDest{} }, func(s *cryptobyte.String, d any) (bool, string) {
			o := d.(*optDest)
			ok := s.ReadOptionalASN1OctetString(&o.out, &o.present, ctx0)
			if !o.present {
				return ok, "absent"
			}
			return ok, fmt.Sprintf("%x", o.out)
		}},
		{"ReadOptionalASN1", genOctets(true), func() any { return &optDest{} }, func(s *cryptobyte.String, d any) (bool, string) {
			o := d.(*optDest)
			var c cryptobyte.String = o.out
			ok := s.ReadOptionalASN1(&c, &o.present, asn1.OCTET_STRING)
			o.out = c
			if !o.present {
				return ok, "absent"
			}
			return ok, fmt.Sprintf("%x", o.out)
		}},
	}
	return ms
}

type anyDest struct {
	out cryptobyte.String
	tag asn1.Tag
}

type optDest struct {
	out     []byte
	present bool
}

func readTime(gen bool) func(s *cryptobyte.String, d any) (bool, string) {
	return func(s *cryptobyte.String, d any) (bool, string) {
		t := d.(*time.Time)
		var ok bool
		if gen {
			ok = s.ReadASN1GeneralizedTime(t)
		} else {
			ok = s.ReadASN1UTCTime(t)
		}
		_, off := t.Zone()
		return ok, fmt.Sprintf("%d/%d", t.Unix(), off)
	}
}

func genBits(r *rand.Rand) ([]byte, string) {
	s := validSpec(r, 4)
	data, bl, _ := der.CheckBitString(s.content)
	return s.encode(), fmt.Sprintf("%x/%d", data, bl)
}

func genOctets(sometimesOther bool) func(r *rand.Rand) ([]byte, string) {
	return func(r *rand.Rand) ([]byte, string) {
		b := mon.Bytes(r, []int{0, 1, 2, 5, 20, 40, 127, 128, 200}[r.IntN(9)])
		if sometimesOther && r.IntN(4) == 0 {
			return nil, "absent" // nothing encoded here: the optional element is absent (next element or end follows)
		}
		return der.EncodeTLV(tagOctet, b), fmt.Sprintf("%x", b)
	}
}

func checkSequence(m *mon.M, i int64, r *rand.Rand, methods []seqMethod) {
	sm := methods[int(i)%len(methods)]
	n := 5 + r.IntN(36)
	var content []byte
	var wants []string
	for k := 0; k < n; k++ {
		e, w := sm.gen(r)
		if e == nil && k == n-1 {
			// an absent optional element at the very end would be followed by nothing: fine, but keep one real element last
			e, w = der.EncodeTLV(tagOctet, []byte{1}), "01"
		}
		if e == nil {
			// absent element: the next thing on the wire must not carry the optional tag; use a NULL separator
			content = append(content, tagNull, 0)
			wants = append(wants, w)
			continue
		}
		content = append(content, e...)
		wants = append(wants, w)
	}
	seq := der.EncodeTLV(tagSeq, content)
	backing := newGuarded(seq)
	s := cryptobyte.String(backing[:len(seq)])
	var inner cryptobyte.String
	if !s.ReadASN1(&inner, asn1.SEQUENCE) || !s.Empty() {
		m.Violation("rejects-der:ReadASN1(own-tag)", map[string]any{"input": mon.FullHex(trunc(seq))})
		return
	}
	dest := sm.newDest()
	m.Count("sequences_decoded:"+sm.name, 1)
	for k, want := range wants {
		before := inner
		ok, got := sm.read(&inner, dest)
		if want == "absent" {
			inner.SkipASN1(asn1.NULL)
		}
		m.Eval()
		m.Count("sequence_reads_into_reused_variable", 1)
		if ok && got == want {
			continue
		}
		// the same element into a fresh zero destination
		fresh := before
		okF, gotF := sm.read(&fresh, sm.newDest())
		wit := map[string]any{"method": sm.name, "sequence": mon.FullHex(trunc(seq)), "element_index": k, "want": truncS(want), "got_ok": ok, "got": truncS(got),
			"fresh_variable_ok": okF, "fresh_variable_got": truncS(gotF)}
		if okF && gotF == want {
			m.Violation("out-param-prestate-leaks:"+sm.name, wit)
		} else {
			m.Violation("sequence-decode-wrong:"+sm.name, wit)
		}
		return
	}
	if !inner.Empty() {
		m.Violation("sequence-decode-wrong:"+sm.name, map[string]any{"sequence": mon.FullHex(trunc(seq)), "left": len(inner)})
	}
	if !guardedIntact(backing, seq) {
		m.Violation("reader-modified-input:"+sm.name, map[string]any{"sequence": mon.FullHex(trunc(seq))})
	}
	m.Distinct(fmt.Sprintf("sequence/%s/n=%d", sm.name, n/8))
}

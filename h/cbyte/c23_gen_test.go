package cbyte

import (
	"fmt"
	"math/big"
	"math/rand/v2"

	"verif/mon"
	"verif/ref/der"
)

// ---------------------------------------------------------------------------
// Structured generator of valid and near-valid encodings for C23.
// A case = (kind, mutation); both rotate with the case index so that every
// combination is produced whatever the seed.
// ---------------------------------------------------------------------------

const (
	tagBool   = 0x01
	tagInt    = 0x02
	tagBits   = 0x03
	tagOctet  = 0x04
	tagNull   = 0x05
	tagOID    = 0x06
	tagEnum   = 0x0a
	tagSeq    = 0x30
	tagUTC    = 0x17
	tagGenT   = 0x18
	tagCtx0   = 0xa0
	tagCtxInt = 0x82 // [2] IMPLICIT primitive, used with ReadASN1Int64WithTag
)

var kindNames = []string{"int", "enum", "bool", "oid", "bitstring", "utctime", "gentime", "octet", "sequence", "explicit-int", "explicit-octet", "explicit-bool", "tagged-int", "random"}

var mutNames = []string{"valid", "content+00", "content+ff", "len-long-form-forced", "len-form-boundary", "len-indefinite", "high-tag-form", "truncated-by-1",
	"trailing-bytes", "len+1", "len-1", "wrong-tag", "constructed-bit", "type-specific", "content-byte-flip", "empty-content", "size-boundary", "len-4-or-5-octets", "random-tail"}

func bigPow2(n uint) *big.Int { return new(big.Int).Lsh(big.NewInt(1), n) }

// interesting integers: every Go integer type's min/max/±1 and the encoding boundaries.
var intBoundaries = func() []*big.Int {
	var out []*big.Int
	add := func(v *big.Int) {
		for d := int64(-2); d <= 2; d++ {
			out = append(out, new(big.Int).Add(v, big.NewInt(d)))
		}
	}
	add(big.NewInt(0))
	for _, bits := range []uint{7, 8, 15, 16, 23, 24, 31, 32, 39, 40, 47, 48, 55, 56, 63, 64, 71, 72, 127, 128} {
		add(bigPow2(bits))
		add(new(big.Int).Neg(bigPow2(bits)))
	}
	return out
}()

func randInt(r *rand.Rand) *big.Int {
	if r.IntN(4) == 0 {
		return big.NewInt(int64(r.IntN(601) - 300))
	}
	switch r.IntN(4) {
	case 0, 1:
		return new(big.Int).Set(intBoundaries[r.IntN(len(intBoundaries))])
	case 2:
		v := new(big.Int).SetUint64(r.Uint64())
		v.Rsh(v, uint(r.IntN(64)))
		if r.IntN(2) == 0 {
			v.Neg(v)
		}
		return v
	default:
		v := new(big.Int).SetBytes(mon.Bytes(r, 1+r.IntN(20)))
		if r.IntN(2) == 0 {
			v.Neg(v)
		}
		return v
	}
}

func randArcs(r *rand.Rand) []*big.Int {
	first := int64(r.IntN(3))
	var second *big.Int
	if first < 2 {
		second = big.NewInt(int64(r.IntN(40)))
		if r.IntN(4) == 0 {
			second = big.NewInt([]int64{0, 39}[r.IntN(2)])
		}
	} else {
		second = randArc(r)
		if r.IntN(3) == 0 {
			second = big.NewInt([]int64{0, 39, 40, 47, 48, 127 - 80, 128 - 80, 100, 16383 - 80, 16384 - 80, 1<<31 - 81, 1<<31 - 80}[r.IntN(12)])
		}
	}
	arcs := []*big.Int{big.NewInt(first), second}
	for k := r.IntN(7); k > 0; k-- {
		arcs = append(arcs, randArc(r))
	}
	return arcs
}

func randArc(r *rand.Rand) *big.Int {
	switch r.IntN(6) {
	case 0:
		return big.NewInt([]int64{0, 1, 127, 128, 16383, 16384, 2097151, 2097152, 268435455, 268435456, 1<<31 - 1}[r.IntN(11)])
	case 1:
		return big.NewInt(int64(r.IntN(128)))
	default:
		return big.NewInt(int64(r.Uint32() >> (1 + uint(r.IntN(31)))))
	}
}

type civil struct{ y, mo, d, h, mi, s int }

func randCivil(r *rand.Rand, utc bool) civil {
	var c civil
	if utc {
		c.y = 1950 + r.IntN(100)
		if r.IntN(3) == 0 {
			c.y = []int{1950, 1951, 1968, 1969, 1970, 1999, 2000, 2001, 2038, 2048, 2049}[r.IntN(11)]
		}
	} else {
		c.y = 1 + r.IntN(9999)
		if r.IntN(3) == 0 {
			c.y = []int{1, 100, 400, 1600, 1900, 1949, 1950, 1970, 2000, 2049, 2050, 2100, 9999}[r.IntN(13)]
		}
	}
	c.mo = 1 + r.IntN(12)
	c.d = 1 + r.IntN(28)
	if r.IntN(4) == 0 { // last day of the month, incl. Feb 29 in leap years
		c.d = 31
		for c.d > 28 {
			if _, z, _ := der.CheckGeneralizedTime([]byte(fmt.Sprintf("%04d%02d%02d000000Z", c.y, c.mo, c.d))); z != der.Reject {
				break
			}
			c.d--
		}
	}
	c.h, c.mi, c.s = r.IntN(24), r.IntN(60), r.IntN(60)
	if r.IntN(5) == 0 {
		c.h, c.mi, c.s = []int{0, 23}[r.IntN(2)], []int{0, 59}[r.IntN(2)], []int{0, 59}[r.IntN(2)]
	}
	return c
}

func (c civil) utc() string {
	return fmt.Sprintf("%02d%02d%02d%02d%02d%02dZ", c.y%100, c.mo, c.d, c.h, c.mi, c.s)
}
func (c civil) gen() string {
	return fmt.Sprintf("%04d%02d%02d%02d%02d%02dZ", c.y, c.mo, c.d, c.h, c.mi, c.s)
}

// timeVariant returns a near-valid (or BER-only) variant of a valid DER time string.
// occ >= 0 selects the variant (occ%22) and the sub-form (occ/22) by index so that every form occurs for every seed.
func timeVariant(r *rand.Rand, s string, gen bool, occ int) string {
	body := s[:len(s)-1] // without Z
	dateLen := 6
	if gen {
		dateLen = 8
	}
	setField := func(off int, v string) string { return body[:off] + v + body[off+2:] + "Z" }
	offs := []string{"+0100", "-0100", "+0000", "-0000", "+2359", "-1200", "+1400", "+2400", "+0060", "+2500", "+01", "-05", "+01:00", "+1"}
	variant, sub := r.IntN(22), r.IntN(1<<20)
	if occ >= 0 {
		variant, sub = occ%22, occ/22
	}
	fracs := []string{".5Z", ".50Z", ".0Z", ",5Z", ".Z", ".123456789Z", ".5", ".5+0100", ".25Z", ".000001Z"}
	switch variant {
	case 0:
		return body[:len(body)-2] + "Z" // no seconds
	case 1:
		return body[:len(body)-2] + offs[sub%len(offs)] // no seconds + differential
	case 2, 3:
		return body + offs[sub%len(offs)]
	case 4:
		return body // no Z (local time)
	case 5:
		return body + "z"
	case 6:
		return body + fracs[sub%len(fracs)]
	case 7:
		return setField(dateLen-4, []string{"00", "13", "19", "99"}[r.IntN(4)]) // month
	case 8:
		return setField(dateLen-2, []string{"00", "32", "31", "30", "29", "99"}[r.IntN(6)]) // day (may stay valid)
	case 9:
		return setField(dateLen, []string{"24", "25", "99"}[r.IntN(3)]) // hour
	case 10:
		return setField(dateLen+2, []string{"60", "61", "99"}[r.IntN(3)]) // minute
	case 11:
		return setField(dateLen+4, []string{"60", "61", "99"}[r.IntN(3)]) // second
	case 12:
		return body[:dateLen-4] + "0229" + body[dateLen:] + "Z" // Feb 29 (valid only in leap years)
	case 13:
		return body + "ZZ"
	case 14:
		return body[:len(body)-1] + "Z" // odd number of digits
	case 15:
		return " " + body[1:] + "Z"
	case 16:
		k := r.IntN(len(body))
		return body[:k] + string(rune([]byte{'a', '-', '+', ' ', '/', ':', 'Z', 0}[r.IntN(8)])) + body[k+1:] + "Z"
	case 17:
		if gen {
			return "0000" + body[4:] + "Z" // year 0000
		}
		return body[:dateLen] + "240000Z"
	case 18:
		if gen {
			return body[:10] + "Z" // hour precision
		}
		return "20" + body + "Z" // four-digit year in a UTCTime
	case 19:
		if gen {
			return body[2:] + "Z" // two-digit year in a GeneralizedTime
		}
		return body + "+0100Z"
	case 20:
		return body[:dateLen] + "240000Z"
	default:
		return body + fracs[(sub+5)%len(fracs)]
	}
}

type spec struct {
	tag     byte
	content []byte
}

func headerMinimal(tag byte, n int) []byte { return append([]byte{tag}, der.EncodeLen(n)...) }

// lenOctets returns n in exactly k big-endian octets (k large enough).
func lenOctets(n, k int) []byte {
	out := make([]byte, k)
	for i := k - 1; i >= 0; i-- {
		out[i] = byte(n % 256)
		n /= 256
	}
	return out
}

func minLenOctets(n int) int {
	k := 1
	for v := n / 256; v > 0; v /= 256 {
		k++
	}
	return k
}

func (s spec) encode() []byte { return append(headerMinimal(s.tag, len(s.content)), s.content...) }

// validSpec produces the DER encoding parts of a random value of the kind.
func validSpec(r *rand.Rand, kind int) spec {
	switch kind {
	case 0:
		return spec{tagInt, der.IntContent(randInt(r))}
	case 1:
		return spec{tagEnum, der.IntContent(randInt(r))}
	case 2:
		return spec{tagBool, []byte{[]byte{0x00, 0xff}[r.IntN(2)]}}
	case 3:
		return spec{tagOID, der.OIDContent(randArcs(r))}
	case 4:
		n := []int{0, 1, 2, 3, 8, 32, 127, 128}[r.IntN(8)]
		data := mon.Bytes(r, n)
		unused := 0
		if n > 0 && r.IntN(2) == 0 {
			unused = r.IntN(8)
			data[n-1] &^= byte(1<<uint(unused) - 1)
			if r.IntN(2) == 0 {
				data[n-1] |= byte(1 << uint(unused)) // lowest used bit set
			}
		}
		return spec{tagBits, append([]byte{byte(unused)}, data...)}
	case 5:
		return spec{tagUTC, []byte(randCivil(r, true).utc())}
	case 6:
		return spec{tagGenT, []byte(randCivil(r, false).gen())}
	case 7:
		return spec{tagOctet, mon.Bytes(r, []int{0, 1, 5, 20, 126, 127, 128, 129, 200, 255, 256, 300}[r.IntN(12)])}
	case 8:
		var c []byte
		for k := r.IntN(4); k > 0; k-- {
			c = append(c, validSpec(r, r.IntN(8)).encode()...)
		}
		return spec{[]byte{tagSeq, 0x31, tagCtx0, 0xa3, 0x80, 0x0c, 0x13, 0x16, 0x00, 0x1e, 0x7e, 0xbe}[r.IntN(12)], c}
	case 9:
		return spec{tagCtx0 + byte(r.IntN(4)), validSpec(r, 0).encode()}
	case 10:
		return spec{tagCtx0 + byte(r.IntN(4)), validSpec(r, 7).encode()}
	case 11:
		return spec{tagCtx0 + byte(r.IntN(4)), validSpec(r, 2).encode()}
	case 12:
		return spec{[]byte{tagCtxInt, 0x80, 0x9e, 0x42, tagInt, tagEnum}[r.IntN(6)], der.IntContent(randInt(r))}
	default:
		return spec{byte(r.IntN(256)), mon.Bytes(r, r.IntN(40))}
	}
}

// typeSpecific returns a near-valid content for the kind (mutation "type-specific").
func typeSpecific(r *rand.Rand, kind int, s spec, occ int) spec {
	switch kind {
	case 0, 1, 12:
		v := randInt(r)
		c := der.IntContent(v)
		switch r.IntN(8) {
		case 0:
			c = append([]byte{0x00}, c...)
		case 1:
			c = append([]byte{0xff}, c...)
		case 2:
			c = []byte{0x00, 0x00}
		case 3:
			c = []byte{0xff, 0xff}
		case 4:
			c = []byte{0x00, 0x7f}
		case 5:
			c = []byte{0xff, 0x80}
		case 6:
			c = append([]byte{[]byte{0x00, 0xff, 0x01, 0x7f, 0x80, 0xfe}[r.IntN(6)]}, mon.Bytes(r, 8)...) // 9 octets
		case 7:
			c = append([]byte{[]byte{0x00, 0xff, 0x01, 0x7f, 0x80, 0xfe}[r.IntN(6)]}, mon.Bytes(r, 7)...) // 8 octets
		}
		return spec{s.tag, c}
	case 2:
		return spec{s.tag, [][]byte{{0x01}, {0x7f}, {0x80}, {0xfe}, {}, {0x00, 0x00}, {0xff, 0xff}, {0xff, 0x00}, {0x02}}[r.IntN(9)]}
	case 3:
		c := append([]byte(nil), s.content...)
		switch r.IntN(7) {
		case 0: // non-minimal subidentifier: 0x80 before the start of a subidentifier
			starts := []int{0}
			for i := 0; i < len(c)-1; i++ {
				if c[i]&0x80 == 0 {
					starts = append(starts, i+1)
				}
			}
			k := starts[r.IntN(len(starts))]
			c = append(c[:k:k], append([]byte{0x80}, c[k:]...)...)
		case 1: // truncated last subidentifier
			c[len(c)-1] |= 0x80
		case 2: // very large arc
			big := [][]byte{{0x88, 0x80, 0x80, 0x80, 0x00}, {0x87, 0xff, 0xff, 0xff, 0x7f}, {0x8f, 0xff, 0xff, 0xff, 0x7f}, {0x90, 0x80, 0x80, 0x80, 0x00},
				{0x81, 0x80, 0x80, 0x80, 0x80, 0x00}, {0xff, 0xff, 0xff, 0xff, 0xff, 0xff, 0xff, 0xff, 0x7f}, {0x81, 0xff, 0xff, 0xff, 0xff, 0xff, 0xff, 0xff, 0xff, 0x7f}, {0x88, 0x80, 0x80, 0x80, 0x50}}[r.IntN(8)]
			if r.IntN(2) == 0 {
				c = append(c, big...)
			} else {
				c = append(append([]byte(nil), big...), c[len(c)-1:]...) // as first subidentifier
			}
		case 3:
			c = []byte{}
		case 4:
			c = []byte{0x80}
		case 5:
			c = append(c, 0x80, 0x01)
		case 6: // first subidentifier around the 40/80 split
			c = append([]byte{[]byte{0, 39, 40, 79, 80, 81, 119, 120, 127}[r.IntN(9)]}, c[1:]...)
			if r.IntN(3) == 0 {
				c = append([]byte{0x81, byte(r.IntN(128))}, c[1:]...)
			}
		}
		return spec{s.tag, c}
	case 4:
		c := append([]byte(nil), s.content...)
		switch r.IntN(6) {
		case 0:
			c[0] = byte(8 + r.IntN(248))
		case 1: // padding bit set
			if len(c) == 1 {
				c = append(c, 0xff)
			}
			u := 1 + r.IntN(7)
			c[0] = byte(u)
			c[len(c)-1] |= byte(1 << uint(r.IntN(u)))
		case 2:
			c = []byte{byte(1 + r.IntN(7))}
		case 3:
			c = []byte{}
		case 4: // all padding bits clear, max unused
			if len(c) == 1 {
				c = append(c, 0xff)
			}
			c[0] = 7
			c[len(c)-1] = 0x80
		case 5:
			if len(c) == 1 {
				c = append(c, 0xff)
			}
			c[0] = 7
			c[len(c)-1] = 0xc0
		}
		return spec{s.tag, c}
	case 5:
		return spec{s.tag, []byte(timeVariant(r, string(s.content), false, occ))}
	case 6:
		return spec{s.tag, []byte(timeVariant(r, string(s.content), true, occ))}
	case 9, 10, 11:
		inner := s.content
		switch r.IntN(8) {
		case 0: // trailing data inside the explicit tag
			inner = append(append([]byte(nil), inner...), [][]byte{{0x00}, {0x05, 0x00}, {0x02, 0x01, 0x01}, {0xff}}[r.IntN(4)]...)
		case 1: // the inner element twice
			inner = append(append([]byte(nil), inner...), inner...)
		case 2: // inner of a different type
			inner = validSpec(r, r.IntN(8)).encode()
		case 3:
			inner = nil
		case 4: // inner with a non-minimal length
			t, _ := der.ParseTLV(inner)
			inner = append([]byte{t.Tag, 0x81, byte(len(t.Content))}, t.Content...)
		case 5: // inner near-valid
			k := map[int]int{9: 0, 10: 7, 11: 2}[kind]
			inner = typeSpecific(r, k, validSpec(r, k), -1).encode()
		case 6: // inner truncated
			if len(inner) > 0 {
				inner = inner[:len(inner)-1]
			}
		case 7: // absent: some other element first
			return validSpec(r, r.IntN(8))
		}
		return spec{s.tag, inner}
	}
	// octet / sequence / random: flip something
	c := append([]byte(nil), s.content...)
	if len(c) > 0 {
		c[r.IntN(len(c))] ^= byte(1 << uint(r.IntN(8)))
	}
	return spec{s.tag, c}
}

// buildInput applies the mutation to a valid spec of the kind.
func buildInput(r *rand.Rand, kind, mut, occ int, thorough bool) []byte {
	s := validSpec(r, kind)
	n := len(s.content)
	switch mut {
	case 0:
		return s.encode()
	case 1:
		return spec{s.tag, append([]byte{0x00}, s.content...)}.encode()
	case 2:
		return spec{s.tag, append([]byte{0xff}, s.content...)}.encode()
	case 3: // long form although short form / fewer octets would do
		k := minLenOctets(n)
		if n >= 128 {
			k++
		}
		return append(append([]byte{s.tag, 0x80 | byte(k)}, lenOctets(n, k)...), s.content...)
	case 4: // exact boundary: long form 0x81 with 0x7f / 0x80, 0x82 with 0x00ff / 0x0100
		m := []int{127, 128, 255, 256}[r.IntN(4)]
		k := []int{1, 2}[r.IntN(2)]
		c := mon.Bytes(r, m)
		if kind == 7 || kind == 8 {
			return append(append([]byte{s.tag, 0x80 | byte(k)}, lenOctets(m, k)...), c...)
		}
		k = minLenOctets(n) + 1
		return append(append([]byte{s.tag, 0x80 | byte(k)}, lenOctets(n, k)...), s.content...)
	case 5:
		return append(append([]byte{s.tag, 0x80}, s.content...), 0x00, 0x00)
	case 6:
		num := byte(s.tag & 0x1f)
		if num < 31 && r.IntN(2) == 0 {
			return append(append([]byte{s.tag | 0x1f, num}, der.EncodeLen(n)...), s.content...) // same tag number in (non-minimal) high form
		}
		return append(append([]byte{s.tag | 0x1f, byte(31 + r.IntN(97))}, der.EncodeLen(n)...), s.content...)
	case 7:
		e := s.encode()
		return e[:len(e)-1]
	case 8:
		return append(s.encode(), mon.Bytes(r, 1+r.IntN(4))...)
	case 9:
		return append(headerMinimal(s.tag, n+1), s.content...)
	case 10:
		if n == 0 {
			return s.encode()
		}
		return append(headerMinimal(s.tag, n-1), s.content...)
	case 11:
		t := []byte{tagBool, tagInt, tagBits, tagOctet, tagNull, tagOID, tagEnum, tagSeq, tagUTC, tagGenT, tagCtx0, 0x0c}[r.IntN(12)]
		return spec{t, s.content}.encode()
	case 12:
		return spec{s.tag ^ 0x20, s.content}.encode()
	case 13:
		return typeSpecific(r, kind, s, occ).encode()
	case 14:
		e := s.encode()
		e[r.IntN(len(e))] ^= byte(1 << uint(r.IntN(8)))
		return e
	case 15:
		return spec{s.tag, nil}.encode()
	case 16: // element sizes at the length-form boundaries, correct minimal header
		sizes := []int{126, 127, 128, 129, 254, 255, 256, 257, 65535, 65536}
		m := sizes[r.IntN(8)]
		if r.IntN(12) == 0 {
			m = sizes[8+r.IntN(2)]
		}
		if thorough && r.IntN(4000) == 0 {
			m = []int{1<<24 - 1, 1 << 24}[r.IntN(2)]
		}
		t := s.tag
		if kind != 7 && kind != 8 {
			t = []byte{tagOctet, tagSeq, tagBits, tagInt}[r.IntN(4)]
		}
		c := mon.Bytes(r, m)
		if t == tagBits {
			c[0] = 0
		}
		if t == tagInt && c[0] == 0 {
			c[0] = 1
		}
		if t == tagInt && c[0] == 0xff {
			c[0] = 0xfe
		}
		return spec{t, c}.encode()
	case 17:
		k := 4 + r.IntN(2)
		if r.IntN(8) == 0 {
			k = 6 + r.IntN(121)
		}
		hdr := append([]byte{s.tag, 0x80 | byte(k)}, lenOctets(n, k)...)
		switch r.IntN(4) {
		case 0: // claims a huge length
			hdr[2] = byte(1 + r.IntN(255))
		case 1:
			hdr[1] = 0xff
		}
		return append(hdr, s.content...)
	default:
		e := s.encode()
		cut := r.IntN(len(e) + 1)
		return append(e[:cut:cut], mon.Bytes(r, r.IntN(12))...)
	}
}

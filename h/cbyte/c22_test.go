package cbyte

import (
	"bytes"
	"fmt"
	"math/rand/v2"
	"strings"
	"testing"
	"unsafe"

	"golang.org/x/crypto/cryptobyte"
	"golang.org/x/crypto/cryptobyte/asn1"
	"verif/mon"
)

// ---------------------------------------------------------------------------
// Executing a program on the real Builder
// ---------------------------------------------------------------------------

type rawPanic struct{ id int }

var rawPanicValue = &rawPanic{22}

type progValue struct {
	x    *runner
	kids []*op
	err  error
}

func (v progValue) Marshal(b *cryptobyte.Builder) error {
	v.x.run(b, v.kids)
	return v.err
}

type runner struct {
	stack  []*cryptobyte.Builder // builders with a pending child, outermost first
	opsRun int
	// input immutability of AddBytes arguments
	argModified bool
	argsChecked int
}

func (x *runner) cont(parent *cryptobyte.Builder, kids []*op) cryptobyte.BuilderContinuation {
	return func(c *cryptobyte.Builder) {
		x.stack = append(x.stack, parent)
		n := len(x.stack)
		defer func() { x.stack = x.stack[:n-1] }()
		x.run(c, kids)
	}
}

func (x *runner) run(b *cryptobyte.Builder, ops []*op) {
	for _, o := range ops {
		x.opsRun++
		switch o.kind {
		case kUint:
			switch o.n {
			case 1:
				b.AddUint8(uint8(o.v))
			case 2:
				b.AddUint16(uint16(o.v))
			case 3:
				b.AddUint24(uint32(o.v))
			case 4:
				b.AddUint32(uint32(o.v))
			case 6:
				b.AddUint48(o.v)
			case 8:
				b.AddUint64(o.v)
			}
		case kBytes:
			// the argument is handed over with sentinel-filled spare capacity, verified unchanged afterwards and then
			// overwritten: a Builder that kept a reference instead of copying would produce wrong bytes
			want := pattern(o.n, o.seed)
			g := newGuarded(want)
			b.AddBytes(g[:o.n])
			if !guardedIntact(g, want) {
				x.argModified = true
			}
			for i := range g {
				g[i] = 0x5a
			}
			x.argsChecked++
		case kLP:
			f := x.cont(b, o.kids)
			switch o.n {
			case 1:
				b.AddUint8LengthPrefixed(f)
			case 2:
				b.AddUint16LengthPrefixed(f)
			case 3:
				b.AddUint24LengthPrefixed(f)
			case 4:
				b.AddUint32LengthPrefixed(f)
			}
		case kASN1:
			b.AddASN1(asn1.Tag(o.tag), x.cont(b, o.kids))
		case kValue:
			b.AddValue(progValue{x, o.kids, o.err})
		case kSetError:
			b.SetError(o.err)
		case kUnwrite:
			b.Unwrite(o.n)
		case kUnwriteNeg:
			b.Unwrite(-o.n)
		case kBuildErr:
			panic(cryptobyte.BuildError{Err: o.err})
		case kRawPanic:
			panic(rawPanicValue)
		case kMisuse:
			a := x.stack[len(x.stack)-o.up]
			switch o.how {
			case 0:
				a.AddUint8(1)
			case 1:
				a.AddBytes(nil)
			case 2:
				a.Unwrite(0)
			case 3:
				a.AddUint16LengthPrefixed(func(c *cryptobyte.Builder) { c.AddUint8(1) })
			case 4:
				a.AddASN1(asn1.SEQUENCE, func(c *cryptobyte.Builder) { c.AddUint8(1) })
			case 5:
				a.AddUint32(5)
			}
		}
	}
}

type outcome struct {
	panicked    bool
	pv          any
	site        string
	out         []byte
	err         error
	bopPanic    any
	bopOut      []byte
	buf         []byte // the buffer handed to the constructor (nil for ctor 0/1)
	opsRun      int
	argModified bool
	argsChecked int
}

func prefixBytes(n int) []byte {
	b := make([]byte, n)
	for i := range b {
		b[i] = 0xe0 | byte(i&0xf)
	}
	return b
}

func execute(p *program, capAbs int64) outcome {
	var o outcome
	var b *cryptobyte.Builder
	switch p.ctor {
	case 0:
		b = new(cryptobyte.Builder)
	case 1:
		b = cryptobyte.NewBuilder(nil)
	case 2:
		o.buf = make([]byte, 0, p.slack)
		b = cryptobyte.NewBuilder(o.buf)
	case 3:
		o.buf = make([]byte, p.prefix, p.prefix+p.slack)
		copy(o.buf, prefixBytes(p.prefix))
		b = cryptobyte.NewBuilder(o.buf)
	case 4:
		o.buf = make([]byte, p.prefix, capAbs)
		copy(o.buf, prefixBytes(p.prefix))
		b = cryptobyte.NewFixedBuilder(o.buf)
	}
	x := &runner{}
	pv, stack := mon.Panics(func() { x.run(b, p.ops) })
	o.opsRun, o.argModified, o.argsChecked = x.opsRun, x.argModified, x.argsChecked
	if pv != nil {
		o.panicked, o.pv, o.site = true, pv, mon.PanicSite(stack)
		return o
	}
	o.out, o.err = b.Bytes()
	o.bopPanic, _ = mon.Panics(func() { o.bopOut = b.BytesOrPanic() })
	return o
}

// ---------------------------------------------------------------------------
// Mirrored read program
// ---------------------------------------------------------------------------

type parser struct {
	r       *rand.Rand
	fail    string
	reads   int
	nilZero bool // a zero-length read failed on a nil String (empty top-level output)
	modes   map[string]int
	// out-parameter pre-state: every read goes into a destination that is either fresh (mode 0), pre-filled with
	// all-ones / long garbage (mode 1) or the variable reused from the previous read of that type (mode 2, 3)
	leaks []string // methods whose result was wrong only because of the destination's pre-state
	// methods that gave a different result when their out parameter aliased the receiver than into a separate variable
	aliasWrong []string
	reU8       uint8
	reU16      uint16
	reU32      uint32
	reU64      uint64
	reStr      cryptobyte.String
	reBuf      []byte
	reTag      asn1.Tag
	rePre      bool
}

func pickDest[T any](mode int, reused *T, garbage T) *T {
	switch mode {
	case 0:
		return new(T)
	case 1:
		p := new(T)
		*p = garbage
		return p
	}
	return reused
}

func garbageBytes() []byte {
	b := make([]byte, 33, 64)
	for i := range b[:64] {
		b[:64][i] = 0xff
	}
	return b
}

func (ps *parser) readUint(s *cryptobyte.String, n, mode int) (bool, uint64) {
	switch n {
	case 1:
		p := pickDest(mode, &ps.reU8, 0xff)
		ok := s.ReadUint8(p)
		return ok, uint64(*p)
	case 2:
		p := pickDest(mode, &ps.reU16, 0xffff)
		ok := s.ReadUint16(p)
		return ok, uint64(*p)
	case 3:
		p := pickDest(mode, &ps.reU32, 0xffffffff)
		ok := s.ReadUint24(p)
		return ok, uint64(*p)
	case 4:
		p := pickDest(mode, &ps.reU32, 0xffffffff)
		ok := s.ReadUint32(p)
		return ok, uint64(*p)
	case 6:
		p := pickDest(mode, &ps.reU64, ^uint64(0))
		ok := s.ReadUint48(p)
		return ok, *p
	}
	p := pickDest(mode, &ps.reU64, ^uint64(0))
	ok := s.ReadUint64(p)
	return ok, *p
}

func (ps *parser) readBytes(s *cryptobyte.String, n, mode int, useCopy bool) (bool, []byte) {
	if useCopy {
		got := make([]byte, n)
		if mode != 0 {
			for i := range got {
				got[i] = 0xff
			}
		}
		ok := s.CopyBytes(got)
		return ok, got
	}
	p := pickDest(mode, &ps.reBuf, garbageBytes())
	ok := s.ReadBytes(p, n)
	return ok, *p
}

func (ps *parser) readLP(s *cryptobyte.String, n, mode int) (bool, cryptobyte.String) {
	p := pickDest(mode, &ps.reStr, cryptobyte.String(garbageBytes()))
	var ok bool
	switch n {
	case 1:
		ok = s.ReadUint8LengthPrefixed(p)
	case 2:
		ok = s.ReadUint16LengthPrefixed(p)
	case 3:
		ok = s.ReadUint24LengthPrefixed(p)
	case 4:
		l := pickDest(mode, &ps.reU32, 0xffffffff)
		ok = s.ReadUint32(l) && s.ReadBytes((*[]byte)(p), int(*l))
	}
	return ok, *p
}

// readASN1 reads one element with the given read style; size = expected element size.
func (ps *parser) readASN1(s *cryptobyte.String, tag asn1.Tag, size, style, mode int) (bool, cryptobyte.String) {
	c := pickDest(mode, &ps.reStr, cryptobyte.String(garbageBytes()))
	t := pickDest(mode, &ps.reTag, asn1.Tag(0xff))
	pres := pickDest(mode, &ps.rePre, true)
	var ok bool
	switch style {
	case 0:
		ok = s.ReadASN1(c, tag)
	case 1:
		ok = s.ReadAnyASN1(c, t) && *t == tag
	case 2:
		e := cryptobyte.String(garbageBytes())
		ok = s.ReadASN1Element(&e, tag) && len(e) == size && e.ReadASN1(c, tag) && e.Empty()
	case 3:
		e := cryptobyte.String(garbageBytes())
		ok = s.ReadAnyASN1Element(&e, t) && *t == tag && len(e) == size && e.ReadASN1(c, tag) && e.Empty()
	case 4:
		ok = s.ReadOptionalASN1(c, pres, tag) && *pres
	case 5:
		ok = s.ReadASN1Bytes((*[]byte)(c), tag)
	case 6:
		cp := *s
		ok = s.PeekASN1Tag(tag) && cp.SkipASN1(tag) && s.ReadASN1(c, tag) && len(cp) == len(*s)
	// styles 7..11: the out parameter aliases the receiver (in-place descent idiom d.ReadASN1(&d, tag)); the
	// remainder after the element is lost by construction of the idiom, so s itself advances with SkipASN1
	case 7:
		d := *s
		ok = d.ReadASN1(&d, tag) && s.SkipASN1(tag)
		*c = d
	case 8:
		d := *s
		ok = d.ReadAnyASN1(&d, t) && *t == tag && s.SkipASN1(tag)
		*c = d
	case 9:
		d := *s
		ok = d.ReadASN1Element(&d, tag) && len(d) == size && d.ReadASN1(&d, tag) && s.SkipASN1(tag)
		*c = d
	case 10:
		d := *s
		ok = d.ReadOptionalASN1(&d, pres, tag) && *pres && s.SkipASN1(tag)
		*c = d
	case 11:
		d := *s
		ok = d.ReadASN1Bytes((*[]byte)(&d), tag) && s.SkipASN1(tag)
		*c = d
	}
	return ok, *c
}

var asn1StyleNames = []string{"ReadASN1", "ReadAnyASN1", "ReadASN1Element", "ReadAnyASN1Element", "ReadOptionalASN1", "ReadASN1Bytes", "PeekASN1Tag+SkipASN1+ReadASN1",
	"ReadASN1", "ReadAnyASN1", "ReadASN1Element", "ReadOptionalASN1", "ReadASN1Bytes"}

func sameSlice(a, b []byte) bool {
	return len(a) == len(b) && (len(a) == 0 || &a[0] == &b[0])
}

func (ps *parser) level(s *cryptobyte.String, items []item, path string) bool {
	for i, it := range items {
		here := fmt.Sprintf("%s/%d", path, i)
		ps.reads++
		mode := ps.r.IntN(4)
		ps.modes[fmt.Sprintf("dest-prestate-%d", min(mode, 2))]++
		before := *s
		switch it.kind {
		case kUint:
			ok, got := ps.readUint(s, it.n, mode)
			if (!ok || got != it.v) && mode != 0 {
				retry := before
				if ok0, got0 := ps.readUint(&retry, it.n, 0); ok0 && got0 == it.v {
					ps.leaks = append(ps.leaks, fmt.Sprintf("ReadUint%d", 8*it.n))
					*s, ok, got = retry, ok0, got0
				}
			}
			if !ok || got != it.v {
				ps.fail = fmt.Sprintf("%s: ReadUint%d ok=%v got=%#x want=%#x", here, 8*it.n, ok, got, it.v)
				return false
			}
		case kBytes:
			wasNil := *s == nil
			useCopy := ps.r.IntN(2) == 1
			name := "ReadBytes"
			if useCopy {
				name = "CopyBytes"
			}
			ps.modes[name]++
			if ps.r.IntN(4) == 0 {
				// ReadBytes with the receiver itself as destination: d must hold the n bytes read
				d := before
				okA := d.ReadBytes((*[]byte)(&d), len(it.data))
				ps.modes["readbytes-out-aliases-receiver"]++
				if len(before) >= len(it.data) && !(len(it.data) == 0 && before == nil) && (!okA || !sameSlice(d, before[:len(it.data)])) {
					ps.aliasWrong = append(ps.aliasWrong, "ReadBytes")
				}
			}
			ok, got := ps.readBytes(s, len(it.data), mode, useCopy)
			if (!ok || !bytes.Equal(got, it.data)) && mode != 0 {
				retry := before
				if ok0, got0 := ps.readBytes(&retry, len(it.data), 0, useCopy); ok0 && bytes.Equal(got0, it.data) {
					ps.leaks = append(ps.leaks, name)
					*s, ok, got = retry, ok0, got0
				}
			}
			if !ok && len(it.data) == 0 && wasNil {
				ps.nilZero = true
				continue
			}
			if !ok || !bytes.Equal(got, it.data) {
				ps.fail = fmt.Sprintf("%s: read of %d bytes ok=%v equal=%v", here, len(it.data), ok, bytes.Equal(got, it.data))
				return false
			}
		case kLP:
			if it.n <= 3 && ps.r.IntN(4) == 0 {
				// out aliases the receiver: d.ReadUintNLengthPrefixed(&d) must leave the content in d
				d := before
				var okA bool
				switch it.n {
				case 1:
					okA = d.ReadUint8LengthPrefixed(&d)
				case 2:
					okA = d.ReadUint16LengthPrefixed(&d)
				case 3:
					okA = d.ReadUint24LengthPrefixed(&d)
				}
				ref := before
				ok0, c0 := ps.readLP(&ref, it.n, 0)
				ps.modes["lp-out-aliases-receiver"]++
				if ok0 && (!okA || !sameSlice(d, c0)) {
					ps.aliasWrong = append(ps.aliasWrong, fmt.Sprintf("ReadUint%dLengthPrefixed", 8*it.n))
				}
			}
			ok, c := ps.readLP(s, it.n, mode)
			if (!ok || len(c) != it.size-it.n) && mode != 0 {
				retry := before
				if ok0, c0 := ps.readLP(&retry, it.n, 0); ok0 && len(c0) == it.size-it.n {
					ps.leaks = append(ps.leaks, fmt.Sprintf("ReadUint%dLengthPrefixed", 8*it.n))
					*s, ok, c = retry, ok0, c0
				}
			}
			if !ok {
				ps.fail = fmt.Sprintf("%s: ReadUint%dLengthPrefixed failed", here, 8*it.n)
				return false
			}
			if !ps.level(&c, it.kids, here) {
				return false
			}
		case kASN1:
			tag := asn1.Tag(it.tag)
			style := ps.r.IntN(12)
			ps.modes[fmt.Sprintf("asn1-mode-%d", style)]++
			contentLen := 0
			for _, k := range it.kids {
				contentLen += k.size
			}
			ok, c := ps.readASN1(s, tag, it.size, style, mode)
			if (!ok || len(c) != contentLen) && mode != 0 {
				retry := before
				if ok0, c0 := ps.readASN1(&retry, tag, it.size, style, 0); ok0 && len(c0) == contentLen {
					ps.leaks = append(ps.leaks, fmt.Sprintf("ASN.1-read-style-%d", style))
					*s, ok, c = retry, ok0, c0
				}
			}
			if style >= 7 {
				// reference walker: the same element read into a separate variable
				ref := before
				ok0, c0 := ps.readASN1(&ref, tag, it.size, 0, 0)
				if ok0 && len(c0) == contentLen && (!ok || !sameSlice(c, c0) || len(*s) != len(ref)) {
					ps.aliasWrong = append(ps.aliasWrong, asn1StyleNames[style])
					*s, ok, c = ref, ok0, c0
				}
			}
			if !ok {
				ps.fail = fmt.Sprintf("%s: ASN.1 read mode %d of tag %#x (element size %d) failed", here, style, it.tag, it.size)
				return false
			}
			if !ps.level(&c, it.kids, here) {
				return false
			}
		}
	}
	if !s.Empty() {
		ps.fail = fmt.Sprintf("%s: %d bytes left over", path, len(*s))
		return false
	}
	return true
}

// ---------------------------------------------------------------------------
// Judge: pure function of the program
// ---------------------------------------------------------------------------

type finding struct {
	key    string
	detail map[string]any
}

type verdict struct {
	findings []finding
	m        *model
	o        outcome
	skipped  string
	selfBad  string
	expect   string
	parsed   bool
	reads    int
	modes    map[string]int
	capAbs   int64
	aliasOK  bool
}

func judge(p *program, readSeed uint64) verdict {
	var v verdict
	m0, lv := runModel(p, -1)
	if m0.ambiguous {
		v.skipped = "top-level Unwrite into caller's prefix"
		return v
	}
	capAbs := int64(-1)
	m := m0
	if p.ctor == 4 {
		capAbs = m0.peak + int64(p.capMode)
		if p.capZero || capAbs < int64(p.prefix) {
			capAbs = int64(p.prefix)
		}
		m, lv = runModel(p, capAbs)
	}
	v.m, v.capAbs = m, capAbs
	// self-check of the two halves of the oracle
	if size, ov, ok := arithLevel(p.ops); ok && p.ctor != 4 {
		switch {
		case ov != "" && (!m.errored || m.errClass != ov):
			v.selfBad = fmt.Sprintf("arithmetic says %s, encoder says errored=%v %s", ov, m.errored, m.errClass)
		case ov == "" && (m.errored || m.stop != nil || size != int64(len(lv.buf))):
			v.selfBad = fmt.Sprintf("arithmetic size %d, encoder size %d errored=%v", size, len(lv.buf), m.errored)
		}
		if v.selfBad != "" {
			return v
		}
	}
	o := execute(p, capAbs)
	v.o = o
	det := func(extra map[string]any) map[string]any {
		d := map[string]any{"program": progString(p.ops), "ctor": ctorNames[p.ctor], "prefix": p.prefix, "capacity": capAbs, "plan": p.plan,
			"model_errored": m.errored, "model_error_class": m.errClass, "model_peak": m.peak, "model_len": len(lv.buf)}
		if m.stop != nil {
			d["model_stop"] = fmt.Sprintf("%+v", *m.stop)
		}
		for k, x := range extra {
			d[k] = x
		}
		return d
	}
	add := func(key string, extra map[string]any) { v.findings = append(v.findings, finding{key, det(extra)}) }

	switch {
	case m.stop != nil && m.stop.must:
		v.expect = "panic:" + m.stop.kind
	case m.stop != nil:
		v.expect = "panic-or-error:" + m.stop.kind
	case m.errored:
		v.expect = "error:" + m.errClass
	default:
		v.expect = "ok"
	}

	if o.argModified {
		add("builder-modified-argument:AddBytes", nil)
	}
	if o.panicked {
		if m.stop != nil {
			if m.stop.kind == "raw-panic" && o.pv != any(rawPanicValue) {
				add("continuation-panic-value-not-propagated", map[string]any{"panic": fmt.Sprint(o.pv)})
			}
			return v
		}
		if m.errored {
			class := m.errClass
			if strings.HasPrefix(class, "fixed-exceeded@") {
				class = "fixed-exceeded" // one defect whatever the first write that did not fit (detail has it)
			}
			add("panic-instead-of-error:"+class+":"+slug(fmt.Sprint(o.pv)), map[string]any{"panic": fmt.Sprint(o.pv), "site": o.site})
		} else {
			add("unexpected-panic:"+o.site, map[string]any{"panic": fmt.Sprint(o.pv)})
		}
		return v
	}
	if m.stop != nil && m.stop.must {
		add("missing-documented-panic:"+m.stop.kind, map[string]any{"err": fmt.Sprint(o.err), "out_len": len(o.out)})
		return v
	}
	if m.errored || m.stop != nil {
		class := m.errClass
		if !m.errored {
			class = m.stop.kind
		}
		if o.err == nil {
			want := append(prefixBytes(p.prefix), lv.buf...)
			add("no-error:"+class, map[string]any{"got_len": len(o.out), "got": mon.Hex(o.out), "model_bytes_before_error": mon.Hex(want)})
			return v
		}
		if m.stop == nil {
			in := false
			for _, s := range m.sentinels {
				if s == o.err {
					in = true
				}
			}
			if !m.libErr && !in {
				add("wrong-error-identity", map[string]any{"err": o.err.Error()})
			}
			if m.nErrEvent == 1 && !m.libErr && o.err != m.firstErr {
				add("wrong-error-identity", map[string]any{"err": o.err.Error()})
			}
		}
		if o.bopPanic == nil {
			add("BytesOrPanic-did-not-panic", map[string]any{"err": o.err.Error()})
		} else if e, ok := o.bopPanic.(error); !ok || e != o.err {
			add("BytesOrPanic-wrong-panic-value", map[string]any{"err": o.err.Error(), "panic": fmt.Sprint(o.bopPanic)})
		}
		return v
	}
	// success expected
	if o.err != nil {
		k := "unexpected-error"
		if p.ctor == 4 {
			k = "unexpected-error:fixed-builder-with-sufficient-capacity"
		}
		add(k, map[string]any{"err": o.err.Error()})
		return v
	}
	want := append(prefixBytes(p.prefix), lv.buf...)
	if !bytes.Equal(o.out, want) {
		k := "wrong-bytes:content"
		if len(o.out) != len(want) {
			k = "wrong-bytes:length"
		}
		d := 0
		for d < len(o.out) && d < len(want) && o.out[d] == want[d] {
			d++
		}
		lo, hiG, hiW := max(0, d-8), min(len(o.out), d+24), min(len(want), d+24)
		add(k, map[string]any{"got_len": len(o.out), "want_len": len(want), "first_diff": d, "got_at_diff": mon.Hex(o.out[lo:hiG]), "want_at_diff": mon.Hex(want[lo:hiW])})
	}
	if o.bopPanic != nil || !bytes.Equal(o.bopOut, o.out) {
		add("BytesOrPanic-disagrees-with-Bytes", map[string]any{"panic": fmt.Sprint(o.bopPanic)})
	}
	if len(o.out) < p.prefix || !bytes.Equal(o.out[:p.prefix], prefixBytes(p.prefix)) {
		add("prefix-not-preserved", nil)
	} else {
		s := cryptobyte.String(o.out[p.prefix:])
		if p.prefix == 0 {
			s = cryptobyte.String(o.out)
		}
		preEqual := bytes.Equal(o.out, want)
		ps := &parser{r: rand.New(rand.NewPCG(readSeed, 0xc22)), modes: map[string]int{}}
		ok := ps.level(&s, lv.items, "")
		v.reads, v.modes = ps.reads, ps.modes
		if !ok {
			add("parse-back-failed", map[string]any{"where": ps.fail, "out_len": len(o.out)})
		} else {
			v.parsed = true
		}
		if preEqual && !bytes.Equal(o.out, want) {
			add("reader-modified-input", nil) // the output equalled the model before the mirrored reads ran
		}
		for _, l := range ps.aliasWrong {
			add("out-aliases-receiver-wrong:"+l, map[string]any{"note": "d.Method(&d, ...) left something else in d than s.Method(&out, ...) leaves in out"})
		}
		for _, l := range ps.leaks {
			add("out-param-prestate-leaks:"+l, map[string]any{"note": "the read returned the wrong result into a pre-filled or reused destination and the right one into a fresh zero variable"})
		}
		if ps.nilZero {
			add("zero-length-read-fails-on-nil-string", map[string]any{"out_is_nil": o.out == nil, "note": "Bytes() of a builder that wrote nothing is nil; String(nil).ReadBytes(&v,0)/CopyBytes(empty) report failure although String([]byte{}).ReadBytes(&v,0) succeeds"})
		}
	}
	if p.ctor == 4 && cap(o.buf) > 0 {
		v.aliasOK = unsafe.SliceData(o.out) == unsafe.SliceData(o.buf)
		if !v.aliasOK {
			add("fixed-builder-reallocated", map[string]any{"cap": cap(o.buf), "out_len": len(o.out)})
		} else if !bytes.Equal(o.buf[:len(o.out)], want) {
			add("fixed-builder-backing-array-differs", nil)
		}
	}
	return v
}

// ---------------------------------------------------------------------------
// Greedy shrinking of a failing program (deterministic, bounded)
// ---------------------------------------------------------------------------

type slot struct {
	list *[]*op
	idx  int
}

func collectSlots(list *[]*op, out *[]slot) {
	for i := range *list {
		*out = append(*out, slot{list, i})
		o := (*list)[i]
		if len(o.kids) > 0 {
			collectSlots(&o.kids, out)
		}
	}
}

func hasKey(v verdict, key string) bool {
	for _, f := range v.findings {
		if f.key == key {
			return true
		}
	}
	return false
}

func shrink(p *program, key string, readSeed uint64) {
	attempts := 0
	for changed := true; changed && attempts < 300; {
		changed = false
		var slots []slot
		collectSlots(&p.ops, &slots)
		for k := len(slots) - 1; k >= 0 && attempts < 300; k-- {
			s := slots[k]
			if s.idx >= len(*s.list) {
				continue
			}
			attempts++
			old := *s.list
			nl := append(append([]*op{}, old[:s.idx]...), old[s.idx+1:]...)
			*s.list = nl
			if hasKey(judge(p, readSeed), key) {
				changed = true
				break // slots are stale now
			}
			*s.list = old
		}
	}
}

// ---------------------------------------------------------------------------
// Plans
// ---------------------------------------------------------------------------

type boundary struct {
	kind   opKind
	lenLen int
	target int64
}

var fitBoundaries = []boundary{
	{kLP, 1, 255}, {kLP, 1, 254}, {kLP, 2, 65535}, {kLP, 2, 65534}, {kASN1, 0, 127}, {kASN1, 0, 128}, {kASN1, 0, 129},
	{kASN1, 0, 255}, {kASN1, 0, 256}, {kASN1, 0, 65535}, {kASN1, 0, 65536}, {kLP, 3, 65536}, {kLP, 4, 65536}, {kLP, 2, 256},
	{kLP, 1, 0}, {kASN1, 0, 0}, {kASN1, 0, 126}, {kLP, 3, 255}, {kLP, 4, 0}, {kASN1, 0, 257},
}
var overflowBoundaries = []boundary{{kLP, 1, 256}, {kLP, 1, 257}, {kLP, 2, 65536}, {kLP, 2, 65537}, {kLP, 1, 65536}, {kLP, 1, 300}, {kLP, 2, 70000}}
var bigBoundaries = []boundary{{kLP, 3, 1<<24 - 1}, {kLP, 3, 1 << 24}, {kLP, 3, 1<<24 + 1}, {kLP, 4, 1 << 24}, {kASN1, 0, 1<<24 - 1}, {kASN1, 0, 1 << 24}, {kASN1, 0, 1<<24 + 1}, {kLP, 4, 1<<24 + 1}}
var errorFaults = []string{"set-error", "value-error", "build-error", "bad-tag"}
var misuseFaults = []string{"raw-panic", "misuse-ancestor", "unwrite-too-much", "unwrite-too-much", "unwrite-top-too-much", "unwrite-negative", "misuse-ancestor"}

const nPlans = 12

func buildProgram(i int64, r *rand.Rand, thorough bool) *program {
	p := &program{}
	g := &gen{r: r, budget: 3000, nodes: 60 + r.IntN(140), maxDepth: 1 + r.IntN(5)}
	if r.IntN(6) == 0 {
		g.budget = 200000
	}
	sub := int((i / nPlans))
	p.ctor = r.IntN(4)
	growCtor := func() {
		p.ctor = r.IntN(4)
		if p.ctor == 3 {
			p.prefix = 1 + r.IntN(40)
		}
		if p.ctor >= 2 {
			p.slack = []int{0, 1, 16, 300, 70000}[r.IntN(5)]
		}
		g.prefix = int64(p.prefix)
	}
	width := func() int {
		if r.IntN(3) == 0 {
			return 1 + r.IntN(10)
		}
		return 1 + r.IntN(5)
	}
	force := func(rootSize int64) {
		if g.fault == "" || g.placed {
			return
		}
		if f := g.faultOp(0, rootSize); f != nil {
			g.placed = true
			p.ops = append(p.ops, f)
			return
		}
		// needs a continuation: wrap it with a couple of leaves, 1..3 levels deep
		var kids []*op
		var cur int64
		for k := r.IntN(3); k > 0; k-- {
			l, s := g.leaf(300)
			kids = append(kids, l)
			cur += s
		}
		d := 1 + r.IntN(3)
		f := g.faultOp(d, cur)
		g.placed = true
		ops := append(kids, f)
		for ; d > 0; d-- {
			if r.IntN(2) == 0 {
				ops = []*op{{kind: kLP, n: 2 + r.IntN(3), kids: ops}}
			} else {
				ops = []*op{{kind: kASN1, tag: 0x30, kids: ops}}
			}
			if d > 1 && r.IntN(2) == 0 {
				l, _ := g.leaf(50)
				ops = append([]*op{l}, ops...)
				// the fault's own level keeps cur as generated; outer levels do not matter for it
			}
		}
		p.ops = append(p.ops, ops...)
	}
	switch plan := int(i % nPlans); plan {
	case 0:
		p.plan = "clean"
		growCtor()
		p.ops, _ = g.ops(0, g.budget, width())
	case 1:
		p.plan = "clean+unwrite+value"
		growCtor()
		g.unwrites, g.values = true, true
		p.ops, _ = g.ops(0, g.budget, width())
	case 2, 3, 4:
		growCtor()
		g.unwrites, g.values = r.IntN(3) == 0, r.IntN(3) == 0
		var b boundary
		asn1Only := false
		switch plan {
		case 2:
			p.plan = "boundary-fit"
			b = fitBoundaries[sub%len(fitBoundaries)]
		case 3:
			p.plan = "boundary-overflow"
			b = overflowBoundaries[sub%len(overflowBoundaries)]
		case 4:
			p.plan = "nested-asn1-promotion"
			b = boundary{kASN1, 0, []int64{128, 129, 200, 255, 256, 300, 65535, 65536, 127}[sub%9]}
			asn1Only = true
		}
		g.budget += b.target
		core := g.exact(b.kind, b.lenLen, b.target)
		cs, _, _ := arithLevel([]*op{core})
		depth := r.IntN(4)
		if plan == 4 {
			depth = 1 + r.IntN(4)
		}
		p.ops = g.wrap([]*op{core}, cs, depth, asn1Only)
		if r.IntN(2) == 0 {
			more, _ := g.ops(0, 2000, 1+r.IntN(3))
			if r.IntN(2) == 0 {
				p.ops = append(more, p.ops...)
			} else {
				p.ops = append(p.ops, more...)
			}
		}
		if plan == 2 && r.IntN(4) == 0 {
			p.ctor, p.prefix, p.capMode = 4, r.IntN(8), 0
		}
	case 5:
		p.plan = "error-event"
		growCtor()
		g.fault = errorFaults[sub%len(errorFaults)]
		g.unwrites, g.values = r.IntN(2) == 0, r.IntN(2) == 0
		var sz int64
		p.ops, sz = g.ops(0, g.budget, width())
		force(sz)
		if r.IntN(3) == 0 { // a second error source after the first
			g.fault, g.placed = errorFaults[r.IntN(2)], false
			force(0)
		}
	case 6:
		p.plan = "misuse"
		growCtor()
		g.fault = misuseFaults[sub%len(misuseFaults)]
		g.unwrites, g.values = r.IntN(2) == 0, r.IntN(2) == 0
		var sz int64
		p.ops, sz = g.ops(0, g.budget, width())
		if !g.placed && g.fault == "unwrite-top-too-much" {
			// size of the root level is only known exactly for clean levels
			if s, _, ok := arithLevel(p.ops); ok {
				sz = s
			}
		}
		force(sz)
	case 7, 8, 9:
		p.ctor = 4
		g.unwrites, g.values = r.IntN(2) == 0, r.IntN(3) == 0
		if r.IntN(2) == 0 {
			p.prefix = r.IntN(20)
		}
		g.prefix = int64(p.prefix)
		if r.IntN(2) == 0 {
			// force ASN.1 promotions / prefixes into the fixed buffer
			b := fitBoundaries[r.IntN(len(fitBoundaries))]
			if b.target > 300 && r.IntN(4) != 0 {
				b = boundary{kASN1, 0, int64(128 + r.IntN(200))}
			}
			g.budget += b.target
			core := g.exact(b.kind, b.lenLen, b.target)
			cs, _, _ := arithLevel([]*op{core})
			p.ops = g.wrap([]*op{core}, cs, r.IntN(3), false)
		} else {
			p.ops, _ = g.ops(0, g.budget, width())
		}
		switch plan {
		case 7:
			p.plan = "fixed-exact"
			p.capMode = 0
		case 8:
			p.plan = "fixed-insufficient"
			switch sub % 16 {
			case 0: // forced: no room for a length prefix
				p.ops = []*op{{kind: kLP, n: 1 + r.IntN(4), kids: nil}}
				if r.IntN(2) == 0 {
					p.ops = []*op{{kind: kASN1, tag: 0x30, kids: nil}}
				}
				p.capZero = true
				return p
			case 1: // forced: no room for the ASN.1 long-form length octets
				p.ops = []*op{{kind: kASN1, tag: 0x30, kids: []*op{{kind: kBytes, n: 128 + r.IntN(300), seed: byte(r.IntN(256))}}}}
				p.capMode = -1
				return p
			}
			switch r.IntN(6) {
			case 0:
				p.capZero = true
			case 1, 2:
				p.capMode = -1 - r.IntN(400)
			default:
				p.capMode = -1 - r.IntN(3)
			}
		case 9:
			p.plan = "fixed-spare"
			p.capMode = 1 + r.IntN(100)
		}
	case 10:
		p.plan = "tiny"
		p.ctor = sub % 3 // zero value, NewBuilder(nil), NewBuilder(make(0,c))
		if p.ctor == 2 {
			p.slack = r.IntN(3)
		}
		for k := sub / 3 % 4; k >= 0; k-- {
			switch r.IntN(5) {
			case 0:
				p.ops = append(p.ops, &op{kind: kUnwrite, n: 0})
			case 1:
				p.ops = append(p.ops, &op{kind: kValue, kids: []*op{{kind: kBytes, n: 0}}})
			default:
				p.ops = append(p.ops, &op{kind: kBytes, n: 0})
			}
		}
		if sub%8 == 7 {
			p.ops = append(p.ops, &op{kind: kUint, n: 1, v: 5}, &op{kind: kUnwrite, n: 1}, &op{kind: kBytes, n: 0})
		}
	case 11:
		if thorough && sub%80 == 0 {
			p.plan = "big-2^24"
			growCtor()
			if p.slack > 300 {
				p.slack = 0
			}
			b := bigBoundaries[(sub/80)%len(bigBoundaries)]
			core := &op{kind: b.kind, n: b.lenLen, tag: 0x30, kids: []*op{{kind: kUint, n: 1, v: 1}, {kind: kBytes, n: int(b.target - 1), seed: byte(r.IntN(256))}}}
			cs, _, _ := arithLevel([]*op{{kind: kBytes, n: int(b.target) + 6}})
			p.ops = g.wrap([]*op{core}, cs, r.IntN(3), r.IntN(2) == 0)
		} else {
			p.plan = "deep"
			growCtor()
			g.maxDepth, g.nodes = 5, 200
			g.unwrites, g.values = r.IntN(2) == 0, r.IntN(2) == 0
			p.ops, _ = g.ops(0, g.budget, 2+r.IntN(9))
		}
	}
	return p
}

// ---------------------------------------------------------------------------
// The check
// ---------------------------------------------------------------------------

func TestC22(t *testing.T) {
	m := mon.New(t, "C22")
	defer m.Done()
	m.Rule("case = one Builder program (tree of AddUintN/AddBytes/AddUintNLengthPrefixed/AddASN1/AddValue/Unwrite/SetError/BuildError/misuse ops, depth<=5, width<=10, leaf sizes from {0,1,126..129,254..257,65534..65536}, 2^24±1 only in thorough) plus a constructor (zero value, NewBuilder nil/cap/prefix, NewFixedBuilder exact/insufficient/spare). " +
		"12 plans rotate by case index so that every boundary class (container content 255/256, 65535/65536, ASN.1 127/128/255/256/65535/65536, nested long-form promotion, each error and misuse kind, each fixed-capacity mode, empty output) is built by construction. " +
		"Oracle = abstract tree model: arithmetic lengths + naive children-first encoder predict error/panic/bytes; mirrored String read program must recover every value and leave nothing. distinct key = plan, constructor, depth, expected outcome class")
	m.Assume("the model (c22_prog_test.go) is self-checked per case: arithmetic length model and naive encoder must agree, otherwise the case is inconclusive")
	m.Assume("documented panics are judged only as documented: child Unwrite beyond its own bytes and re-panic of a continuation's panic value must panic; writes/Unwrite on a parent with a pending child, negative Unwrite and top-level over-long Unwrite must panic or make Bytes fail; after an error anything but a silent success is accepted")
	total := m.N(20000, 1000000)
	m.Cases("programs", total, func(i int64, r *rand.Rand) {
		p := buildProgram(i, r, m.Thorough())
		readSeed := r.Uint64()
		v := judge(p, readSeed)
		if v.skipped != "" {
			m.Count("skipped_ambiguous", 1)
			return
		}
		if v.selfBad != "" {
			m.Inconclusive(fmt.Sprintf("case %d: model self-check failed: %s", i, v.selfBad))
			return
		}
		m.Eval()
		mm := v.m
		m.Distinct(fmt.Sprintf("%s ctor=%d depth=%d exp=%s", p.plan, p.ctor, mm.maxDepth, v.expect))
		m.Count("plan:"+p.plan, 1)
		m.Count("ops_executed", v.o.opsRun)
		m.Count("addbytes_args_checked", v.o.argsChecked)
		for k, n := range mm.ev {
			m.Count(k, n)
		}
		for k, n := range v.modes {
			m.Count("read:"+k, n)
		}
		m.Count("values_read_back", v.reads)
		if mm.maxDepth >= 4 {
			m.Count("depth>=4", 1)
		}
		switch {
		case v.o.panicked && mm.stop != nil:
			m.Count("expected_panic_seen:"+mm.stop.kind, 1)
		case mm.stop != nil && !v.o.panicked:
			m.Count("misuse_without_panic_but_error", 1)
		case mm.errored:
			m.Count("error_expected:"+strings.SplitN(mm.errClass, "@", 2)[0], 1)
			if strings.HasPrefix(mm.errClass, "fixed-exceeded@") {
				m.Count("fixed_insufficient:"+mm.errClass, 1)
			}
		default:
			if v.parsed {
				m.Count("programs_parsed_back", 1)
			}
			if p.ctor == 4 {
				if p.capMode == 0 {
					m.Count("fixed_exact_capacity_ok", 1)
				} else {
					m.Count("fixed_spare_capacity_ok", 1)
				}
				if v.aliasOK {
					m.Count("fixed_alias_checked", 1)
				}
			}
			if len(v.o.out) == 0 {
				m.Count("empty_output", 1)
			}
		}
		if i < 2*nPlans && i%5 == 0 {
			m.Sample(map[string]any{"plan": p.plan, "ctor": ctorNames[p.ctor], "program": progString(p.ops), "expect": v.expect, "out_len": len(v.o.out)})
		}
		seen := map[string]bool{}
		for _, f := range v.findings {
			if seen[f.key] {
				continue
			}
			seen[f.key] = true
			// shrink a copy of the program for the witness
			if m.Violations() < 12 {
				q := *p
				q.ops = cloneOps(p.ops)
				shrink(&q, f.key, readSeed)
				sv := judge(&q, readSeed)
				for _, sf := range sv.findings {
					if sf.key == f.key {
						sf.detail["original_program"] = progString(p.ops)
						f = sf
						break
					}
				}
			}
			m.Violation(f.key, f.detail)
		}
	})
	q, th := 1, 1
	_ = th
	m.Gate("programs_parsed_back", m.N(6000, 300000)*q, "error-free programs whose bytes were read back completely")
	m.Gate("overflow_u8_by_one", 20, "8-bit prefix with exactly 256 content bytes")
	m.Gate("overflow_u16_by_one", 20, "16-bit prefix with exactly 65536 content bytes")
	m.Gate("fit_u8_max", 20, "8-bit prefix with exactly 255 content bytes")
	m.Gate("fit_u16_max", 20, "16-bit prefix with exactly 65535 content bytes")
	for _, n := range []int{127, 128, 255, 256, 65535, 65536} {
		m.Gate(fmt.Sprintf("asn1_len_%d", n), 20, "ASN.1 content length at a length-form boundary")
	}
	m.Gate("asn1_promoted_with_promoted_child", 300, "long-form promotion of an ASN.1 element that contains an already promoted element")
	m.Gate("asn1_promoted_nested", 1000, "long-form promotion below the top level")
	m.Gate("error_expected:set-error", 100, "SetError")
	m.Gate("error_expected:value-error", 100, "AddValue with failing Marshal")
	m.Gate("error_expected:build-error", 100, "BuildError panic in continuation")
	m.Gate("error_expected:high-tag-number", 100, "AddASN1 with tag number 31")
	m.Gate("expected_panic_seen:unwrite-too-much", 100, "child Unwrite beyond own bytes")
	m.Gate("expected_panic_seen:raw-panic", 50, "continuation panics with other value")
	m.Gate("expected_panic_seen:misuse-ancestor", 100, "parent used while child pending")
	m.Gate("unwrite_legal", 1000, "legal Unwrite")
	m.Gate("read:dest-prestate-1", m.N(20000, 1000000), "mirrored reads into a destination pre-filled with all-ones / long garbage")
	m.Gate("read:dest-prestate-2", m.N(40000, 2000000), "mirrored reads into a variable reused from the previous read of that type")
	for st := 7; st <= 11; st++ {
		m.Gate(fmt.Sprintf("read:asn1-mode-%d", st), m.N(1000, 50000), "ASN.1 elements descended into with the out parameter aliasing the receiver ("+asn1StyleNames[st]+")")
	}
	m.Gate("read:lp-out-aliases-receiver", m.N(1000, 50000), "length-prefixed reads with the out parameter aliasing the receiver")
	m.Gate("read:readbytes-out-aliases-receiver", m.N(5000, 250000), "ReadBytes with the receiver as destination")
	m.Gate("addbytes_args_checked", m.N(20000, 1000000), "AddBytes arguments verified unchanged (incl. spare capacity) and overwritten afterwards")
	m.Gate("fixed_exact_capacity_ok", 500, "fixed builder with exactly the needed capacity")
	m.Gate("fixed_alias_checked", 1000, "result aliases the given array")
	m.Gate("error_expected:fixed-exceeded", 500, "fixed builder with insufficient capacity")
	if m.Thorough() {
		m.Gate("plan:big-2^24", 300, "programs with a 2^24±1 container")
		m.Gate("overflow_u24_by_one", 20, "24-bit prefix with exactly 2^24 content bytes")
		m.Gate("fit_u24_max", 20, "24-bit prefix with 2^24-1 content bytes")
	}
}

// slug turns a (constant) panic message into a key component.
func slug(s string) string {
	var b strings.Builder
	for _, c := range strings.ToLower(s) {
		switch {
		case c >= 'a' && c <= 'z', c >= '0' && c <= '9':
			b.WriteRune(c)
		case b.Len() > 0 && !strings.HasSuffix(b.String(), "-"):
			b.WriteByte('-')
		}
		if b.Len() >= 60 {
			break
		}
	}
	return strings.Trim(b.String(), "-")
}

func cloneOps(ops []*op) []*op {
	out := make([]*op, len(ops))
	for i, o := range ops {
		c := *o
		c.kids = cloneOps(o.kids)
		out[i] = &c
	}
	return out
}
